(* C15 — proofs about the CNOT/CZ-count model (Xform/KakCount.v). *)
From Coq Require Import ZArith List Bool Arith Lia Ring.
From VF Require Import Base.RingOps Base.Mat Base.Tensor Base.Harness Base.K8 Gates.GateSpecs Gates.Families Gates.MatTac Sim.Ref
  Xform.KakCanon Xform.KakCanonProofs Xform.KakCount.
Import ListNotations.

(* ------------------------------------------------------------------------------------------ *)
(* classes on exact coefficients                                                               *)
(* ------------------------------------------------------------------------------------------ *)
Open Scope Z_scope.

Theorem cz_class_le3 : forall D v, (cz_class D v <= 3)%nat.
Proof.
  intros D [[x y] z]. unfold cz_class.
  destruct ((x =? 0) && (y =? 0) && (z =? 0)); [lia|].
  destruct ((x =? D) && (y =? 0) && (z =? 0)); [lia|].
  destruct (z =? 0); lia.
Qed.

(* the classes as the docstring's source states them, on a point of the chamber *)
Theorem cz_class_spec : forall D x y z, 0 < D ->
  (cz_class D (x, y, z) = 0%nat <-> x = 0 /\ y = 0 /\ z = 0) /\
  (cz_class D (x, y, z) = 1%nat <-> x = D /\ y = 0 /\ z = 0) /\
  (cz_class D (x, y, z) = 2%nat <-> z = 0 /\ ~ (x = 0 /\ y = 0) /\ ~ (x = D /\ y = 0)) /\
  (cz_class D (x, y, z) = 3%nat <-> z <> 0).
Proof.
  intros D x y z HD. unfold cz_class.
  destruct (Z.eqb_spec x 0) as [X0|X0]; destruct (Z.eqb_spec y 0) as [Y0|Y0]; destruct (Z.eqb_spec z 0) as [Z0|Z0];
    destruct (Z.eqb_spec x D) as [XD|XD]; cbn [andb]; repeat split; intros; try discriminate; try lia;
    try (exfalso; lia); try tauto.
Qed.

(* the tolerance-aware validator: without tolerance it accepts exactly the class; with any tolerances it still accepts the class *)
Ltac count_cases :=
  repeat match goal with
         | |- context [Z.leb ?a ?b] => destruct (Z.leb_spec a b)
         | |- context [Z.eqb ?a ?b] => destruct (Z.eqb_spec a b)
         end; cbn [andb orb]; try lia.
Theorem cz_count_ok_exact : forall D v n, cz_count_ok D 0 0 0 v n = true <-> n = cz_class D v.
Proof.
  intros D [[x y] z] n. unfold cz_count_ok, cz_class. count_cases;
    rewrite ?andb_false_r, ?andb_true_r, ?orb_false_r; cbn [orb]; apply Nat.eqb_eq.
Qed.
(* with tolerances it still accepts the class, unless the point is within lo of a lower stratum without lying on it
   (then the stratum's count is demanded: the grey zone starts at lo) *)
Theorem cz_count_ok_accepts_class : forall D lo m0 m v, 0 <= lo ->
  cz_count_ok D lo m0 m v (cz_class D v) = true \/
  (let '(x, y, z) := v in
   (Z.max (Z.abs x) (Z.max (Z.abs y) (Z.abs z)) <= lo /\ cz_class D v <> 0%nat) \/
   (Z.max (Z.abs (x - D)) (Z.max (Z.abs y) (Z.abs z)) <= lo /\ cz_class D v <> 1%nat) \/
   (Z.abs z <= lo /\ cz_class D v = 3%nat)).
Proof.
  intros D lo m0 m [[x y] z] Hlo. unfold cz_count_ok, cz_class. count_cases;
    cbn [Nat.eqb andb orb]; rewrite ?orb_true_r; try (left; reflexivity); right; try tauto; lia.
Qed.

(* a coefficient vector with a vanishing entry (exp(i(a PP + b QQ)), two of the three Pauli pairs) canonicalises to the
   face z = 0, whatever the other two entries are: at most two CNOT/CZ *)
Lemma cs_zero D : 0 < D -> cs D 0 = 0.
Proof. intros HD. apply cs_id. lia. Qed.

Lemma canon_z_of_zero D A a b c : 0 < D -> 0 < A -> (a = 0 \/ b = 0 \/ c = 0) ->
  vget (kak_canon_v D A (a, b, c)) 2 = 0.
Proof.
  intros HD HA H0. rewrite kak_canon_closed. unfold canon_closed.
  pose proof (cs_range D a HD) as Ra. pose proof (cs_range D b HD) as Rb. pose proof (cs_range D c HD) as Rc.
  assert (H0' : cs D a = 0 \/ cs D b = 0 \/ cs D c = 0).
  { destruct H0 as [->|[->| ->]]; rewrite cs_zero by exact HD; auto. }
  clear H0. revert Ra Rb Rc H0'. generalize (cs D a) (cs D b) (cs D c). clear a b c. intros a b c Ra Rb Rc H0.
  (* sort by modulus: the zero entry ends last *)
  destruct (sw01_cases a b c) as [[E1 L1]|[E1 L1]]; rewrite E1; clear E1;
    match goal with |- context [sw12 (?p, ?q, ?r)] => destruct (sw12_cases p q r) as [[E2 L2]|[E2 L2]]; rewrite E2; clear E2 end;
    match goal with |- context [sw01 (?p, ?q, ?r)] => destruct (sw01_cases p q r) as [[E3 L3]|[E3 L3]]; rewrite E3; clear E3 end;
    match goal with |- context [ng0 (?p, ?q, ?r)] => destruct (ng0_cases p q r) as [[E4 L4]|[E4 L4]]; rewrite E4; clear E4 end;
    match goal with |- context [ng1 (?p, ?q, ?r)] => destruct (ng1_cases p q r) as [[E5 L5]|[E5 L5]]; rewrite E5; clear E5 end;
    unfold cs2;
    match goal with |- context [cs D ?r] => assert (Hr : r = 0) by lia; rewrite Hr, (cs_zero D HD) end;
    unfold fixv; rewrite (proj2 (Z.ltb_ge 0 0)) by lia; rewrite andb_false_r; reflexivity.
Qed.

Theorem min_cz_count_zero_coord : forall D A a b c, 0 < D -> 0 < A -> (a = 0 \/ b = 0 \/ c = 0) ->
  (min_cz_count D A (a, b, c) <= 2)%nat.
Proof.
  intros D A a b c HD HA H0. unfold min_cz_count. pose proof (canon_z_of_zero D A a b c HD HA H0) as Hz.
  destruct (kak_canon_v D A (a, b, c)) as [[x y] z]. cbn [vget] in Hz. subst z. unfold cz_class.
  rewrite !andb_true_r. cbn [Z.eqb]. destruct ((x =? 0) && (y =? 0)); [lia|]. destruct ((x =? D) && (y =? 0)); lia.
Qed.
Example min_cz_count_examples :
  min_cz_count 8 1 (0, 0, 0) = 0%nat /\ min_cz_count 8 1 (16, -32, 0) = 0%nat /\       (* identity, local gates *)
  min_cz_count 8 1 (8, 0, 0) = 1%nat /\ min_cz_count 8 1 (0, -8, 16) = 1%nat /\        (* CNOT/CZ class *)
  min_cz_count 8 1 (8, 8, 0) = 2%nat /\ min_cz_count 8 1 (8, 3, 0) = 2%nat /\          (* iSWAP and the CNOT-iSWAP edge *)
  min_cz_count 8 1 (4, 4, 0) = 2%nat /\ min_cz_count 8 1 (3, 0, 0) = 2%nat /\          (* sqrt-iSWAP, partial CZ *)
  min_cz_count 8 1 (8, 8, 8) = 3%nat /\ min_cz_count 8 1 (8, 3, 1) = 3%nat /\ min_cz_count 8 1 (5, 3, -1) = 3%nat.
Proof. vm_compute. repeat split. Qed.
Close Scope Z_scope.

(* ------------------------------------------------------------------------------------------ *)
(* the quantity num_cnots_required computes, and witness circuits (generic ring)               *)
(* ------------------------------------------------------------------------------------------ *)
Section CountRing.
  Context {K : Type} (O : Ops K) (L : Laws O).
  Add Ring Kring2 : (law_ring O L).
  Infix "+" := (kadd O). Infix "*" := (kmul O). Infix "-" := (ksub O).
  Notation "- a" := (kopp O a).
  Notation z0 := (k0 O). Notation z1 := (k1 O). Notation ii := (ki O).
  Notation M := (matrix (K:=K)).
  Lemma ii2c : ii * ii = - z1. Proof. exact (law_i O L). Qed.

  (* trace of gamma(exp(i(x XX + y YY + z ZZ))) = 4 (cos 2x cos 2y cos 2z + i sin 2x sin 2y sin 2z), for all (cos, sin) values *)
  Theorem gamma_trace_interaction : forall px py pz : K * K,
    trace4 O (gamma_m O (interaction O (px, py, pz)))
    = four O * (cos2 O px * cos2 O py * cos2 O pz + ii * (sin2 O px * sin2 O py * sin2 O pz)).
  Proof.
    intros [x0 y0] [x1 y1] [x2 y2]. unfold gamma_m. rewrite (interaction_lit O L).
    cbv -[kadd kmul kopp ksub kconj k0 k1 ki khalf ks2]. ring [ii2c].
  Qed.

  (* gamma is blind to single-qubit gates up to their determinants:
     gamma((a1 (x) a0) u (b1 (x) b0)) has trace det(a1) det(a0) det(b1) det(b0) trace(gamma(u)) *)
  Theorem gamma_right_local : forall u b1 b0, is44 u -> is22 b1 -> is22 b0 ->
    gamma_m O (mmul O u (kron O b1 b0)) = mscale O (det2 O b1 * det2 O b0) (gamma_m O u).
  Proof.
    intros u b1 b0 Hu H1 H0.
    destruct Hu as (? & ? & ? & ? & ? & ? & ? & ? & ? & ? & ? & ? & ? & ? & ? & ? & ->).
    destruct H1 as (? & ? & ? & ? & ->). destruct H0 as (? & ? & ? & ? & ->).
    mat_entries ltac:(ring [ii2c]).
  Qed.
  Theorem gamma_left_local_trace : forall u a1 a0, is44 u -> is22 a1 -> is22 a0 ->
    trace4 O (gamma_m O (mmul O (kron O a1 a0) u)) = det2 O a1 * det2 O a0 * trace4 O (gamma_m O u).
  Proof.
    intros u a1 a0 Hu H1 H0.
    destruct Hu as (? & ? & ? & ? & ? & ? & ? & ? & ? & ? & ? & ? & ? & ? & ? & ? & ->).
    destruct H1 as (? & ? & ? & ? & ->). destruct H0 as (? & ? & ? & ? & ->).
    cbv -[kadd kmul kopp ksub kconj k0 k1 ki khalf ks2]. ring [ii2c].
  Qed.

  (* two CNOTs suffice on the face: CNOT (exp(i x X) (x) exp(i z Z)) CNOT = exp(i(x XX + z ZZ)), for all (cos, sin) values *)
  Theorem two_cnot_witness : forall px pz : K * K,
    two_cnot_circuit O px pz = interaction O (px, (z1, z0), pz).
  Proof.
    intros [x0 y0] [x2 y2]. rewrite (interaction_lit O L). mat_entries ltac:(ring [ii2c]).
  Qed.
End CountRing.

(* one CNOT at the vertex (pi/4, 0, 0), exactly (K8 = Z[1/2][zeta_8]):
   exp(i pi/4 XX) = e^{-i pi/4} (H exp(i pi/4 Z) (x) exp(i pi/4 X)) CNOT (H (x) I) *)
Definition k8h : matrix (K:=K8) := mscale K8Ops (ks2 K8Ops) [[k1 K8Ops; k1 K8Ops]; [k1 K8Ops; kopp K8Ops (k1 K8Ops)]].
Definition k8q : K8 * K8 := (ks2 K8Ops, ks2 K8Ops).                      (* cos, sin of pi/4 *)
Definition k8w : K8 := kmul K8Ops (ks2 K8Ops) (ksub K8Ops (k1 K8Ops) (ki K8Ops)).   (* e^{-i pi/4} *)
Example one_cnot_witness :
  meqb k8_eqb
    (mscale K8Ops k8w
       (mmul K8Ops (kron K8Ops (mmul K8Ops k8h (rot1 K8Ops 2 k8q)) (rot1 K8Ops 0 k8q))
          (mmul K8Ops (cnot_m K8Ops) (kron K8Ops k8h (mid K8Ops 2)))))
    (interaction K8Ops (k8q, (k1 K8Ops, k0 K8Ops), (k1 K8Ops, k0 K8Ops))) = true.
Proof. vm_compute. reflexivity. Qed.
