(* C07 -- theorems about the routing model (Xform/Routing.v). *)
From Coq Require Import List Arith Bool Lia.
From VF Require Import Base.RingOps Base.Mat Base.Tensor Base.TensorProofs Xform.Routing.
Import ListNotations.

(* ---------- arrays ---------- *)
Lemma set_nth_length l : forall i v, length (set_nth l i v) = length l.
Proof. induction l as [|x r IH]; intros [|i] v; simpl; auto. Qed.

Lemma nth_set_nth_eq l : forall i v, i < length l -> nth i (set_nth l i v) 0 = v.
Proof.
  induction l as [|x r IH]; intros [|i] v H; simpl in *; try lia.
  apply IH. lia.
Qed.

Lemma nth_set_nth_neq l : forall i k v, i <> k -> nth k (set_nth l i v) 0 = nth k l 0.
Proof.
  induction l as [|x r IH]; intros i k v H; simpl.
  - destruct i; reflexivity.
  - destruct i as [|i]; destruct k as [|k]; simpl; try reflexivity; try congruence.
    apply IH. congruence.
Qed.

Lemma swap_entries_length l i j : length (swap_entries l i j) = length l.
Proof. unfold swap_entries. rewrite !set_nth_length. reflexivity. Qed.

Lemma nth_swap_entries l i j k : i < length l -> j < length l ->
  nth k (swap_entries l i j) 0 = if Nat.eqb k j then nth i l 0 else if Nat.eqb k i then nth j l 0 else nth k l 0.
Proof.
  intros Hi Hj. unfold swap_entries.
  destruct (Nat.eqb k j) eqn:Ekj.
  - apply Nat.eqb_eq in Ekj. subst k. apply nth_set_nth_eq. rewrite set_nth_length. exact Hj.
  - apply Nat.eqb_neq in Ekj. rewrite nth_set_nth_neq by congruence.
    destruct (Nat.eqb k i) eqn:Eki.
    + apply Nat.eqb_eq in Eki. subst k. apply nth_set_nth_eq. exact Hi.
    + apply Nat.eqb_neq in Eki. apply nth_set_nth_neq. congruence.
Qed.

(* a left inverse makes the array injective *)
Lemma inv_on_inj n f g i j : inv_on n f g -> i < n -> j < n -> nth i f 0 = nth j f 0 -> i = j.
Proof.
  intros H Hi Hj E. destruct (H i Hi) as [_ Ei]. destruct (H j Hj) as [_ Ej].
  rewrite E in Ei. congruence.
Qed.

(* exchanging two entries of f and the two corresponding entries of g keeps g a left inverse of f *)
Lemma swap_inv n f g a b : length f = n -> length g = n -> a < n -> b < n -> inv_on n f g ->
  inv_on n (swap_entries f a b) (swap_entries g (nth a f 0) (nth b f 0)).
Proof.
  intros Lf Lg Ha Hb H i Hi.
  destruct (H a Ha) as [Pa Ia]. destruct (H b Hb) as [Pb Ib]. destruct (H i Hi) as [Pi Ii].
  rewrite (nth_swap_entries f a b i) by lia.
  destruct (Nat.eqb i b) eqn:Eib.
  - apply Nat.eqb_eq in Eib. subst i. split; [exact Pa|].
    rewrite nth_swap_entries by lia.
    destruct (Nat.eqb (nth a f 0) (nth b f 0)) eqn:E.
    + apply Nat.eqb_eq in E. rewrite Ia. eapply inv_on_inj; eauto.
    + rewrite Nat.eqb_refl. exact Ib.
  - destruct (Nat.eqb i a) eqn:Eia.
    + apply Nat.eqb_eq in Eia. subst i. split; [exact Pb|].
      rewrite nth_swap_entries by lia. rewrite Nat.eqb_refl. exact Ia.
    + apply Nat.eqb_neq in Eib. apply Nat.eqb_neq in Eia. split; [exact Pi|].
      rewrite nth_swap_entries by lia.
      destruct (Nat.eqb (nth i f 0) (nth b f 0)) eqn:E1.
      { apply Nat.eqb_eq in E1. exfalso. apply Eib. eapply inv_on_inj; eauto. }
      destruct (Nat.eqb (nth i f 0) (nth a f 0)) eqn:E2.
      { apply Nat.eqb_eq in E2. exfalso. apply Eia. eapply inv_on_inj; eauto. }
      exact Ii.
Qed.

(* ---------- MappingManager: the two arrays stay inverse to each other ---------- *)
Theorem apply_swap_ok n m lq1 lq2 : mm_ok n m -> lq1 < n -> lq2 < n -> mm_ok n (apply_swap m lq1 lq2).
Proof.
  intros (L1 & L2 & I1 & I2) H1 H2. unfold apply_swap, mm_ok. simpl.
  destruct (I1 lq1 H1) as [P1 J1]. destruct (I1 lq2 H2) as [P2 J2].
  split; [|split; [|split]].
  - rewrite swap_entries_length. exact L1.
  - rewrite swap_entries_length. exact L2.
  - apply swap_inv; assumption.
  - pose proof (swap_inv n (p2l m) (l2p m) (nth lq1 (l2p m) 0) (nth lq2 (l2p m) 0) L2 L1 P1 P2 I2) as H.
    rewrite J1, J2 in H. exact H.
Qed.

Theorem mapping_inverse_inv n m (sw : list (nat * nat)) :
  mm_ok n m -> Forall (fun s => fst s < n /\ snd s < n) sw ->
  mm_ok n (apply_swaps m sw) /\
  (forall lq, lq < n -> nth (nth lq (l2p (apply_swaps m sw)) 0) (p2l (apply_swaps m sw)) 0 = lq).
Proof.
  intros Hm Hs.
  assert (Hok : mm_ok n (apply_swaps m sw)).
  { revert m Hm. induction Hs as [|s sw [Hs1 Hs2] _ IH]; intros m Hm; simpl; [exact Hm|].
    apply IH. apply apply_swap_ok; assumption. }
  split; [exact Hok|]. intros lq Hlq. destruct Hok as (_ & _ & I1 & _). apply (I1 lq Hlq).
Qed.

(* swapping the same pair twice restores the mapping (RouteCQC._cost relies on it) *)
Lemma set_nth_same l : forall i, set_nth l i (nth i l 0) = l.
Proof. induction l as [|x r IH]; intros [|i]; simpl; try reflexivity. f_equal. apply IH. Qed.

Lemma list_ext (l l' : list nat) : length l = length l' -> (forall k, nth k l 0 = nth k l' 0) -> l = l'.
Proof.
  revert l'. induction l as [|x r IH]; intros [|y r'] HL H; simpl in *; try discriminate; [reflexivity|].
  f_equal; [exact (H 0)|]. apply IH; [lia|]. intros k. exact (H (S k)).
Qed.

Lemma swap_entries_invol l i j : i < length l -> j < length l -> swap_entries (swap_entries l i j) i j = l.
Proof.
  intros Hi Hj. apply list_ext; [rewrite !swap_entries_length; reflexivity|]. intros k.
  rewrite nth_swap_entries by (rewrite swap_entries_length; assumption).
  rewrite !(nth_swap_entries l i j) by assumption. rewrite !Nat.eqb_refl.
  destruct (Nat.eqb k j) eqn:E1.
  - apply Nat.eqb_eq in E1. subst k. destruct (Nat.eqb i j) eqn:E2; [apply Nat.eqb_eq in E2; subst; reflexivity|reflexivity].
  - destruct (Nat.eqb k i) eqn:E2; [|reflexivity].
    apply Nat.eqb_eq in E2. subst k. reflexivity.
Qed.

Theorem apply_swap_twice n m lq1 lq2 : mm_ok n m -> lq1 < n -> lq2 < n ->
  apply_swap (apply_swap m lq1 lq2) lq1 lq2 = m.
Proof.
  intros (L1 & L2 & I1 & I2) H1 H2. destruct m as [f g]. unfold apply_swap. simpl in *.
  destruct (I1 lq1 H1) as [P1 _]. destruct (I1 lq2 H2) as [P2 _].
  rewrite !(nth_swap_entries f lq1 lq2) by lia. rewrite !Nat.eqb_refl.
  rewrite swap_entries_invol by lia.
  f_equal.
  destruct (Nat.eqb lq1 lq2) eqn:E.
  - apply Nat.eqb_eq in E. subst lq2. apply swap_entries_invol; lia.
  - (* the physical pair comes back in the opposite order; swap_entries is symmetric in it *)
    apply list_ext; [rewrite !swap_entries_length; reflexivity|]. intros k.
    rewrite nth_swap_entries by (rewrite swap_entries_length; lia).
    rewrite !(nth_swap_entries g (nth lq1 f 0) (nth lq2 f 0)) by lia. rewrite !Nat.eqb_refl.
    assert (Hne : Nat.eqb (nth lq1 f 0) (nth lq2 f 0) = false).
    { apply Nat.eqb_neq. intro Hx. apply Nat.eqb_neq in E. apply E. exact (inv_on_inj n f g lq1 lq2 I1 H1 H2 Hx). }
    rewrite Hne.
    destruct (Nat.eqb k (nth lq1 f 0)) eqn:E1.
    + apply Nat.eqb_eq in E1. subst k. reflexivity.
    + destruct (Nat.eqb k (nth lq2 f 0)) eqn:E2; [|reflexivity].
      apply Nat.eqb_eq in E2. subst k. reflexivity.
Qed.

(* ---------- the decidable form of the invariant ---------- *)
Lemma inv_on_b_sound n f g : inv_on_b n f g = true -> inv_on n f g.
Proof.
  unfold inv_on_b. intros H i Hi. rewrite forallb_forall in H.
  specialize (H i). rewrite in_seq in H. specialize (H ltac:(lia)).
  apply andb_true_iff in H as [Ha Hb]. apply Nat.ltb_lt in Ha. apply Nat.eqb_eq in Hb. split; assumption.
Qed.

Theorem mm_ok_b_sound n m : mm_ok_b n m = true -> mm_ok n m.
Proof.
  unfold mm_ok_b. intros H.
  apply andb_true_iff in H as [H H4]. apply andb_true_iff in H as [H H3]. apply andb_true_iff in H as [H1 H2].
  apply Nat.eqb_eq in H1. apply Nat.eqb_eq in H2.
  split; [exact H1|split; [exact H2|split; apply inv_on_b_sound; assumption]].
Qed.

(* ---------- replay ---------- *)
Lemma all_lt_spec n l : all_lt n l = true -> forall x, In x l -> x < n.
Proof. unfold all_lt. intros H x Hx. rewrite forallb_forall in H. apply Nat.ltb_lt. apply H. exact Hx. Qed.

Lemma remap_roundtrip n f g o : inv_on n g f -> all_lt n (o_qs o) = true -> remap f (remap g o) = o.
Proof.
  intros H Hl. destruct o as [id qs ks]. unfold remap, map_qs. simpl in *. f_equal.
  rewrite map_map. rewrite <- (map_id qs) at 2. apply map_ext_in. intros q Hq.
  destruct (H q (all_lt_spec n qs Hl q Hq)) as [_ E]. exact E.
Qed.

(* what the checker accepts is exactly what the emission model produces for the logical stream it
   reconstructs; every accepted two-qubit operation lies on an edge; the mapping stays a bijection *)
Theorem replay_sound n g d : forall routed m ls, mm_ok n m -> replay n g d m routed = Some ls ->
  emit m ls = routed /\ forallb (rop_on_edge g d) routed = true /\ mm_ok n (final_mm m ls).
Proof.
  induction routed as [|r routed IH]; intros m ls Hm H; simpl in H.
  - injection H as <-. simpl. auto.
  - destruct r as [o|a b|c t|q]; try discriminate.
    + destruct (all_lt n (o_qs o) && op_on_edge g d (o_qs o)) eqn:E; [|discriminate].
      apply andb_true_iff in E as [E1 E2].
      destruct (replay n g d m routed) as [ls0|] eqn:Er; [|discriminate].
      injection H as <-. destruct (IH m ls0 Hm Er) as (Ha & Hb & Hc). simpl.
      destruct Hm as (L1 & L2 & I1 & I2).
      rewrite (remap_roundtrip n (l2p m) (p2l m) o I2 E1). rewrite Ha, E2, Hb. auto.
    + destruct (Nat.ltb a n && Nat.ltb b n && negb (Nat.eqb a b) && on_edge g d a b) eqn:E; [|discriminate].
      apply andb_true_iff in E as [E E3]. apply andb_true_iff in E as [E Eab]. apply andb_true_iff in E as [E1 E2].
      apply Nat.ltb_lt in E1. apply Nat.ltb_lt in E2.
      destruct (replay n g d (apply_swap m (nth a (p2l m) 0) (nth b (p2l m) 0)) routed) as [ls0|] eqn:Er; [|discriminate].
      injection H as <-.
      pose proof Hm as (L1 & L2 & I1 & I2).
      destruct (I2 a E1) as [Pa Ja]. destruct (I2 b E2) as [Pb Jb].
      destruct (IH _ ls0 (apply_swap_ok n m _ _ Hm Pa Pb) Er) as (Ha & Hb & Hc).
      simpl. rewrite Ja, Jb, Ha, E3, Hb. auto.
Qed.

(* on a routed list without directed-graph pieces, collapse changes nothing *)
Definition plain (r : phop) : bool := match r with ROp _ | RSwap _ _ => true | _ => false end.
Lemma collapse_plain routed : forallb plain routed = true -> collapse [] routed = Some routed.
Proof.
  induction routed as [|r routed IH]; intros H; simpl; [reflexivity|].
  simpl in H. apply andb_true_iff in H as [Hp Hr].
  destruct r as [o|a b|c t|q]; try discriminate; simpl.
  - assert (E : existsb (busy []) (o_qs o) = false) by (induction (o_qs o); simpl; auto).
    rewrite E, (IH Hr). reflexivity.
  - rewrite (IH Hr). reflexivity.
Qed.

(* ---------- trace equivalence ---------- *)
Lemma nl_eqb_eq a : forall b, nl_eqb a b = true -> a = b.
Proof.
  induction a as [|x a IH]; intros [|y b] H; simpl in H; try discriminate; [reflexivity|].
  apply andb_true_iff in H as [H1 H2]. apply Nat.eqb_eq in H1. subst. f_equal. apply IH. exact H2.
Qed.

Lemma oop_eqb_eq a b : oop_eqb a b = true -> a = b.
Proof.
  destruct a as [i q k], b as [i' q' k']. unfold oop_eqb. simpl. intros H.
  apply andb_true_iff in H as [H H3]. apply andb_true_iff in H as [H1 H2].
  apply Nat.eqb_eq in H1. apply nl_eqb_eq in H2. apply nl_eqb_eq in H3. subst. reflexivity.
Qed.

Lemma teq_cons a l l' : teq l l' -> teq (a :: l) (a :: l').
Proof.
  induction 1 as [l|l1 x y l2 Hd|l1 l2 l3 _ IH1 _ IH2].
  - apply teq_refl.
  - apply (teq_swap (a :: l1)). exact Hd.
  - eapply teq_trans; eassumption.
Qed.

Lemma teq_sym l l' : teq l l' -> teq l' l.
Proof.
  induction 1 as [l|l1 x y l2 Hd|l1 l2 l3 _ IH1 _ IH2].
  - apply teq_refl.
  - apply teq_swap. unfold dep in *. apply orb_false_iff in Hd as [H1 H2]. apply orb_false_iff.
    assert (S : forall u v, shares u v = false -> shares v u = false).
    { intros u v Hs. destruct (shares v u) eqn:E; [|reflexivity]. exfalso.
      unfold shares in E. apply existsb_exists in E as [r [Hr Hx]]. unfold nmem in Hx.
      apply existsb_exists in Hx as [r' [Hr' He]]. apply Nat.eqb_eq in He. subst r'.
      assert (shares u v = true).
      { unfold shares. apply existsb_exists. exists r. split; [assumption|]. unfold nmem. apply existsb_exists.
        exists r. split; [assumption|apply Nat.eqb_refl]. }
      congruence. }
    split; apply S; assumption.
  - eapply teq_trans; eassumption.
Qed.

Lemma bubble a u v : forallb (fun b => negb (dep b a)) u = true -> teq (u ++ a :: v) (a :: u ++ v).
Proof.
  induction u as [|b u IH]; intros H; simpl.
  - apply teq_refl.
  - simpl in H. apply andb_true_iff in H as [Hb Hu]. apply negb_true_iff in Hb.
    eapply teq_trans.
    + apply teq_cons. apply IH. exact Hu.
    + apply (teq_swap [] b a (u ++ v)). exact Hb.
Qed.

Lemma extract_spec a : forall l u v, extract a l = Some (u, v) -> l = u ++ a :: v.
Proof.
  induction l as [|b r IH]; intros u v H; simpl in H; [discriminate|].
  destruct (oop_eqb a b) eqn:E.
  - injection H as <- <-. apply oop_eqb_eq in E. subst. reflexivity.
  - destruct (extract a r) as [[u0 v0]|] eqn:Er; [|discriminate].
    injection H as <- <-. simpl. f_equal. apply IH. reflexivity.
Qed.

Theorem trace_equiv_b_sound : forall w w', trace_equiv_b w w' = true -> teq w' w.
Proof.
  induction w as [|a w IH]; intros w' H; simpl in H.
  - destruct w'; [apply teq_refl|discriminate].
  - destruct (extract a w') as [[u v]|] eqn:E; [|discriminate].
    apply andb_true_iff in H as [Hu Hr]. apply extract_spec in E. subst w'.
    eapply teq_trans; [apply bubble; exact Hu|]. apply teq_cons. apply IH. exact Hr.
Qed.

(* trace-equivalent streams have the same length and the same operations *)
Lemma teq_perm l l' : teq l l' -> forall o, In o l <-> In o l'.
Proof.
  induction 1 as [l|l1 x y l2 Hd|l1 l2 l3 _ IH1 _ IH2]; intros o.
  - tauto.
  - rewrite !in_app_iff. simpl. tauto.
  - rewrite IH1. apply IH2.
Qed.

(* ---------- meaning: trace-equivalent streams denote the same map on states ---------- *)
Section Sem.
  Context {K : Type} (O : Ops K) (L : Laws O).
  (* any denotation of operations as matrices acting on their own qubits *)
  Variable den : oop -> Tensor.rop (K:=K).
  Hypothesis den_axes : forall o, rop_ax (den o) = o_qs o.

  Lemma dep_disjoint a b : dep a b = false -> disjoint_ops (den a) (den b).
  Proof.
    unfold dep, disjoint_ops. intros H x Ha Hb. rewrite !den_axes in *.
    apply orb_false_iff in H as [H _].
    assert (shares (o_qs a) (o_qs b) = true); [|congruence].
    unfold shares. apply existsb_exists. exists x. split; [assumption|]. unfold nmem. apply existsb_exists.
    exists x. split; [assumption|apply Nat.eqb_refl].
  Qed.

  Theorem teq_same_run l l' : teq l l' ->
    forall (psi : tensor (K:=K)) i, run O (map den l) psi i = run O (map den l') psi i.
  Proof.
    induction 1 as [l|l1 x y l2 Hd|l1 l2 l3 _ IH1 _ IH2]; intros psi i.
    - reflexivity.
    - rewrite !map_app. simpl. apply (run_swap_adjacent O L). apply dep_disjoint. exact Hd.
    - rewrite IH1. apply IH2.
  Qed.
End Sem.

(* ---------- the certificate ---------- *)
Lemma final_ok_spec init final m : final_ok init final m = true ->
  length (l2p m) = length init /\
  forall k, k < length init -> nth k (l2p m) 0 = nth (nth k init 0) final 0.
Proof.
  unfold final_ok. intros H. apply nl_eqb_eq in H. rewrite <- H. split.
  - rewrite map_length, seq_length. reflexivity.
  - intros k Hk. rewrite (nth_indep _ 0 (nth (nth 0 init 0) final 0)) by (rewrite map_length, seq_length; exact Hk).
    rewrite (map_nth (fun k => nth (nth k init 0) final 0)). rewrite seq_nth by exact Hk. reflexivity.
Qed.

(* route_ok accepts only if: the routed list (with directed-graph SWAP blocks collapsed) is the emission,
   from the reported initial mapping, of a logical stream ls; ls without its swaps is trace-equivalent to
   the original circuit; every two-qubit operation of the routed list is on a graph edge; the two arrays
   of the mapping manager are inverse bijections at the end; and the final logical-to-physical array is
   the reported swap map composed with the initial mapping. *)
Theorem route_ok_sound n orig routed init final g d :
  route_ok n orig routed init final g d = true ->
  exists routed' ls,
    collapse [] routed = Some routed' /\
    emit (mm_init init) ls = routed' /\
    teq (ops_of ls) orig /\
    forallb (rop_on_edge g d) routed = true /\
    forallb (rop_on_edge g d) routed' = true /\
    mm_ok n (final_mm (mm_init init) ls) /\
    (forall k, k < length init ->
       nth k (l2p (final_mm (mm_init init) ls)) 0 = nth (nth k init 0) final 0).
Proof.
  unfold route_ok. intros H.
  apply andb_true_iff in H as [H H3]. apply andb_true_iff in H as [H1 H2].
  destruct (collapse [] routed) as [routed'|] eqn:Ec; [|discriminate].
  destruct (replay n g d (mm_init init) routed') as [ls|] eqn:Er; [|discriminate].
  apply andb_true_iff in H3 as [Ht Hf].
  apply mm_ok_b_sound in H1.
  destruct (replay_sound n g d routed' (mm_init init) ls H1 Er) as (Ha & Hb & Hc).
  exists routed', ls.
  split; [reflexivity|]. split; [exact Ha|]. split; [apply trace_equiv_b_sound; exact Ht|].
  split; [exact H2|]. split; [exact Hb|]. split; [exact Hc|].
  apply final_ok_spec. exact Hf.
Qed.

(* undirected graphs: no collapse step is involved *)
Corollary route_ok_sound_plain n orig routed init final g d :
  forallb plain routed = true ->
  route_ok n orig routed init final g d = true ->
  exists ls,
    emit (mm_init init) ls = routed /\ teq (ops_of ls) orig /\
    forallb (rop_on_edge g d) routed = true /\
    (forall k, k < length init -> nth k (l2p (final_mm (mm_init init) ls)) 0 = nth (nth k init 0) final 0).
Proof.
  intros Hp H. destruct (route_ok_sound _ _ _ _ _ _ _ H) as (r' & ls & Hc & He & Ht & Hg & _ & _ & Hf).
  rewrite (collapse_plain routed Hp) in Hc. injection Hc as <-. exists ls. auto.
Qed.

(* the reported swap map of an accepted certificate is a permutation of the placed physical qubits [0,n):
   every placed qubit -- also one that holds a logical qubit the circuit never uses -- has an image among the
   placed qubits, and two placed qubits never share an image *)
Theorem route_ok_final_perm n orig routed init final g d :
  route_ok n orig routed init final g d = true ->
  length init = n /\
  (forall p, p < n -> nth p final 0 < n) /\
  (forall p q, p < n -> q < n -> nth p final 0 = nth q final 0 -> p = q).
Proof.
  intros H.
  destruct (route_ok_sound _ _ _ _ _ _ _ H) as (r' & ls & _ & _ & _ & _ & _ & Hmf & Hf).
  unfold route_ok in H. apply andb_true_iff in H as [H _]. apply andb_true_iff in H as [H0 _].
  apply mm_ok_b_sound in H0. destruct H0 as (Li & _ & _ & Hi2).
  change (l2p (mm_init init)) with init in Li, Hi2.
  destruct Hmf as (_ & _ & Hm1 & _).
  set (p2l0 := p2l (mm_init init)) in *.
  assert (Hpre : forall p, p < n -> nth p p2l0 0 < n /\
                 nth p final 0 = nth (nth p p2l0 0) (l2p (final_mm (mm_init init) ls)) 0).
  { intros p Hp. destruct (Hi2 p Hp) as [Hk Hkp]. split; [exact Hk|].
    rewrite Hf by (rewrite Li; exact Hk). rewrite Hkp. reflexivity. }
  split; [exact Li|]. split.
  - intros p Hp. destruct (Hpre p Hp) as [Hk ->]. apply (Hm1 _ Hk).
  - intros p q Hp Hq E. destruct (Hpre p Hp) as [Hkp Ep]. destruct (Hpre q Hq) as [Hkq Eq].
    rewrite Ep, Eq in E. apply (inv_on_inj n _ _ _ _ Hm1 Hkp Hkq) in E.
    destruct (Hi2 p Hp) as [_ E1]. destruct (Hi2 q Hq) as [_ E2]. rewrite <- E1, <- E2, E. reflexivity.
Qed.
