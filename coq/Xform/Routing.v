(* C07 -- routing (DESIGN 5/C07, Appendix A.6).  Definitions only; the theorems are in RoutingProofs.v.

   1. MappingManager (cirq/transformers/routing/mapping_manager.py): two integer arrays,
      logical -> physical and physical -> logical, updated together by apply_swap.
   2. The emission model of RouteCQC._route: an original operation is emitted on the current physical
      positions of its qubits (mm.mapped_op), an inserted SWAP is emitted the same way and then
      apply_swap updates the mapping.
   3. The routing certificate checker route_ok: replays the routed operation list of a real run,
      un-maps every operation through the tracked mapping, and requires (a) every two-qubit
      operation on a graph edge, (b) the un-mapped stream trace-equivalent to the original,
      (c) the tracked mapping equal to the reported swap map.
   4. A small trace-equivalence checker (the bubble form of the projection lemma, DESIGN E.1). *)
From Coq Require Import List Arith Bool.
Import ListNotations.

(* ---------- arrays ---------- *)
Fixpoint set_nth (l : list nat) (i v : nat) : list nat :=
  match l, i with
  | [], _ => []
  | _ :: r, 0 => v :: r
  | x :: r, S i' => x :: set_nth r i' v
  end.
(* numpy: a[[i, j]] = a[[j, i]]  (the right-hand side is read before anything is written) *)
Definition swap_entries (l : list nat) (i j : nat) : list nat :=
  set_nth (set_nth l i (nth j l 0)) j (nth i l 0).

(* ---------- MappingManager ---------- *)
Record mm := mkMM { l2p : list nat; p2l : list nat }.
(* apply_swap(lq1, lq2): both arguments are LOGICAL qubit integers *)
Definition apply_swap (m : mm) (lq1 lq2 : nat) : mm :=
  let pq1 := nth lq1 (l2p m) 0 in
  let pq2 := nth lq2 (l2p m) 0 in
  mkMM (swap_entries (l2p m) lq1 lq2) (swap_entries (p2l m) pq1 pq2).
Definition apply_swaps (m : mm) (sw : list (nat * nat)) : mm :=
  fold_left (fun m s => apply_swap m (fst s) (snd s)) sw m.

(* f and g are arrays over [0,n) and g undoes f *)
Definition inv_on (n : nat) (f g : list nat) : Prop :=
  forall i, i < n -> nth i f 0 < n /\ nth (nth i f 0) g 0 = i.
Definition mm_ok (n : nat) (m : mm) : Prop :=
  length (l2p m) = n /\ length (p2l m) = n /\ inv_on n (l2p m) (p2l m) /\ inv_on n (p2l m) (l2p m).
(* the same, decidable (used on the real initial mapping of every run) *)
Definition inv_on_b (n : nat) (f g : list nat) : bool :=
  forallb (fun i => Nat.ltb (nth i f 0) n && Nat.eqb (nth (nth i f 0) g 0) i) (seq 0 n).
Definition mm_ok_b (n : nat) (m : mm) : bool :=
  Nat.eqb (length (l2p m)) n && Nat.eqb (length (p2l m)) n
  && inv_on_b n (l2p m) (p2l m) && inv_on_b n (p2l m) (l2p m).
(* the p2l array of an l2p array, as MappingManager.__init__ builds it *)
Definition find_index (v : nat) (l : list nat) : nat :=
  (fix go (l : list nat) (k : nat) : nat :=
     match l with [] => k | x :: r => if Nat.eqb x v then k else go r (S k) end) l 0.
Definition mm_init (l2p0 : list nat) : mm :=
  mkMM l2p0 (map (fun p => find_index p l2p0) (seq 0 (length l2p0))).

(* ---------- operations ---------- *)
(* an operation of the input circuit: which operation it is up to its qubits (gate + tags, an index into
   a table built by the harness), its qubits in order, the classical keys it touches *)
Record oop := mkO { o_id : nat; o_qs : list nat; o_ks : list nat }.
(* logical stream with the swaps the router decided to insert *)
Inductive lop := LOp (o : oop) | LSwap (lq1 lq2 : nat).
(* operation of the routed circuit on physical qubits; RSwap = SWAP carrying RoutingSwapTag;
   RCx / RHd = tagged CNOT / H pieces of the directed-graph SWAP block *)
Inductive phop := ROp (o : oop) | RSwap (a b : nat) | RCx (c t : nat) | RHd (q : nat).

Definition map_qs (f : list nat) (qs : list nat) : list nat := map (fun q => nth q f 0) qs.
Definition remap (f : list nat) (o : oop) : oop := mkO (o_id o) (map_qs f (o_qs o)) (o_ks o).

(* what RouteCQC._route emits for a logical stream (mm.mapped_op, then mm.apply_swap for swaps) *)
Fixpoint emit (m : mm) (ls : list lop) : list phop :=
  match ls with
  | [] => []
  | LOp o :: r => ROp (remap (l2p m) o) :: emit m r
  | LSwap a b :: r => RSwap (nth a (l2p m) 0) (nth b (l2p m) 0) :: emit (apply_swap m a b) r
  end.
Fixpoint final_mm (m : mm) (ls : list lop) : mm :=
  match ls with
  | [] => m
  | LOp _ :: r => final_mm m r
  | LSwap a b :: r => final_mm (apply_swap m a b) r
  end.
Fixpoint ops_of (ls : list lop) : list oop :=
  match ls with
  | [] => []
  | LOp o :: r => o :: ops_of r
  | LSwap _ _ :: r => ops_of r
  end.

(* ---------- device graph ---------- *)
Definition edge_mem (g : list (nat * nat)) (a b : nat) : bool :=
  existsb (fun e => Nat.eqb (fst e) a && Nat.eqb (snd e) b) g.
(* undirected graphs list each edge once; directed graphs require the emitted qubit order *)
Definition on_edge (g : list (nat * nat)) (directed : bool) (a b : nat) : bool :=
  edge_mem g a b || (negb directed && edge_mem g b a).
Definition op_on_edge (g : list (nat * nat)) (directed : bool) (qs : list nat) : bool :=
  match qs with
  | [a; b] => on_edge g directed a b
  | _ => true                       (* the property constrains two-qubit operations only *)
  end.
Definition rop_on_edge (g : list (nat * nat)) (directed : bool) (r : phop) : bool :=
  match r with
  | ROp o => op_on_edge g directed (o_qs o)
  | RSwap a b => on_edge g directed a b
  | RCx c t => on_edge g directed c t
  | RHd _ => true
  end.

(* ---------- replay of a routed list (after collapse: only ROp and RSwap) ---------- *)
Definition all_lt (n : nat) (l : list nat) : bool := forallb (fun x => Nat.ltb x n) l.
Fixpoint replay (n : nat) (g : list (nat * nat)) (directed : bool) (m : mm) (routed : list phop)
  : option (list lop) :=
  match routed with
  | [] => Some []
  | ROp o :: r =>
      if all_lt n (o_qs o) && op_on_edge g directed (o_qs o) then
        match replay n g directed m r with
        | Some ls => Some (LOp (remap (p2l m) o) :: ls)
        | None => None
        end
      else None
  | RSwap a b :: r =>
      if Nat.ltb a n && Nat.ltb b n && negb (Nat.eqb a b) && on_edge g directed a b then
        let lq1 := nth a (p2l m) 0 in
        let lq2 := nth b (p2l m) 0 in
        match replay n g directed (apply_swap m lq1 lq2) r with
        | Some ls => Some (LSwap lq1 lq2 :: ls)
        | None => None
        end
      else None
  | _ :: _ => None
  end.

(* ---------- the directed-graph SWAP block ---------- *)
(* RouteCQC._replace_swaps_with_directional_decomposition emits, for a swap on a one-way edge c -> t,
   CNOT(c,t) H(c) H(t) CNOT(c,t) H(c) H(t) CNOT(c,t), every piece carrying the swap's tags; pieces of
   one block may be interleaved with operations on other qubits.  collapse replaces the first CNOT of
   a block by RSwap c t and deletes the other six pieces, provided nothing else touches c or t in between. *)
Record pend := mkP { p_c : nat; p_t : nat; p_cx : nat; p_hc : bool; p_ht : bool }.
Definition touches (p : pend) (q : nat) : bool := Nat.eqb q (p_c p) || Nat.eqb q (p_t p).
Definition busy (ps : list pend) (q : nat) : bool := existsb (fun p => touches p q) ps.
Fixpoint upd_pend (ps : list pend) (q : nat) (f : pend -> option (option pend)) : option (list pend) :=
  match ps with
  | [] => None
  | p :: r => if touches p q
              then match f p with
                   | Some (Some p') => Some (p' :: r)
                   | Some None => Some r
                   | None => None
                   end
              else match upd_pend r q f with Some r' => Some (p :: r') | None => None end
  end.
Definition step_h (q : nat) (p : pend) : option (option pend) :=
  if Nat.eqb q (p_c p) then (if p_hc p then None else Some (Some (mkP (p_c p) (p_t p) (p_cx p) true (p_ht p))))
  else (if p_ht p then None else Some (Some (mkP (p_c p) (p_t p) (p_cx p) (p_hc p) true))).
Definition step_cx (c t : nat) (p : pend) : option (option pend) :=
  if Nat.eqb c (p_c p) && Nat.eqb t (p_t p) && p_hc p && p_ht p
  then (if Nat.eqb (p_cx p) 2 then Some None else Some (Some (mkP c t (S (p_cx p)) false false)))
  else None.
Fixpoint collapse (ps : list pend) (routed : list phop) : option (list phop) :=
  match routed with
  | [] => match ps with [] => Some [] | _ => None end
  | ROp o :: r =>
      if existsb (busy ps) (o_qs o) then None
      else match collapse ps r with Some r' => Some (ROp o :: r') | None => None end
  | RSwap a b :: r =>
      if busy ps a || busy ps b then None
      else match collapse ps r with Some r' => Some (RSwap a b :: r') | None => None end
  | RHd q :: r =>
      match upd_pend ps q (step_h q) with
      | Some ps' => collapse ps' r
      | None => None
      end
  | RCx c t :: r =>
      if busy ps c || busy ps t then
        match upd_pend ps c (step_cx c t) with
        | Some ps' => collapse ps' r
        | None => None
        end
      else if Nat.eqb c t then None
      else match collapse (mkP c t 1 false false :: ps) r with
           | Some r' => Some (RSwap c t :: r')
           | None => None
           end
  end.

(* ---------- trace equivalence of operation streams ---------- *)
Definition nmem (x : nat) (l : list nat) : bool := existsb (Nat.eqb x) l.
Definition shares (x y : list nat) : bool := existsb (fun r => nmem r y) x.
(* two operations may not be exchanged when they share a qubit or a classical key *)
Definition dep (a b : oop) : bool := shares (o_qs a) (o_qs b) || shares (o_ks a) (o_ks b).
Fixpoint nl_eqb (a b : list nat) : bool :=
  match a, b with
  | [], [] => true
  | x :: a', y :: b' => Nat.eqb x y && nl_eqb a' b'
  | _, _ => false
  end.
Definition oop_eqb (a b : oop) : bool :=
  Nat.eqb (o_id a) (o_id b) && nl_eqb (o_qs a) (o_qs b) && nl_eqb (o_ks a) (o_ks b).
Inductive teq : list oop -> list oop -> Prop :=
| teq_refl l : teq l l
| teq_swap l1 a b l2 : dep a b = false -> teq (l1 ++ a :: b :: l2) (l1 ++ b :: a :: l2)
| teq_trans l1 l2 l3 : teq l1 l2 -> teq l2 l3 -> teq l1 l3.
(* split l at the first operation equal to a *)
Fixpoint extract (a : oop) (l : list oop) : option (list oop * list oop) :=
  match l with
  | [] => None
  | b :: r => if oop_eqb a b then Some ([], r)
              else match extract a r with
                   | Some (u, v) => Some (b :: u, v)
                   | None => None
                   end
  end.
(* bubble the head of w to the front of w' across operations it is independent of, then continue *)
Fixpoint trace_equiv_b (w w' : list oop) : bool :=
  match w with
  | [] => match w' with [] => true | _ => false end
  | a :: w0 => match extract a w' with
               | Some (u, v) => forallb (fun b => negb (dep b a)) u && trace_equiv_b w0 (u ++ v)
               | None => false
               end
  end.

(* ---------- the certificate ---------- *)
(* n: number of mapped qubits; init: logical -> physical array reported by the router (initial_mapping);
   final: the reported swap map as an array, initial physical position -> final physical position *)
Definition final_ok (init final : list nat) (m : mm) : bool :=
  nl_eqb (map (fun k => nth (nth k init 0) final 0) (seq 0 (length init))) (l2p m).
Definition route_ok (n : nat) (orig : list oop) (routed : list phop) (init final : list nat)
           (g : list (nat * nat)) (directed : bool) : bool :=
  let m0 := mm_init init in
  mm_ok_b n m0 &&
  forallb (rop_on_edge g directed) routed &&
  match collapse [] routed with
  | Some routed' =>
      match replay n g directed m0 routed' with
      | Some ls => trace_equiv_b orig (ops_of ls) && final_ok init final (final_mm m0 ls)
      | None => false
      end
  | None => false
  end.
