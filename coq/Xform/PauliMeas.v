(* C06: measurement-like operations other than the computational-basis measurement.  A Pauli-basis measurement
   (cirq.PauliMeasurementGate: observable s . P_1 (x) ... (x) P_n with s = +1 / -1, one recorded bit) enters the
   reference semantics (Sim/Measure.v) through its OBSERVABLE, not through any decomposition of the implementation:
   it is the keyed two-operator instrument  [ (I + sP)/2 ; (I - sP)/2 ]  (outcome 0 = eigenvalue +1 of the signed
   observable, outcome 1 = eigenvalue -1), the index of the operator being the recorded bit.  Definitions only; that
   the two operators are the complementary orthogonal spectral projectors of sP is PauliMeasProofs.v. *)
From Coq Require Import List Bool Arith.
From VF Require Import Base.RingOps Base.Mat Base.K8 Base.Tensor Sim.Ref Sim.Measure Xform.Gauges.
Import ListNotations.

Inductive pauli := PI | PX | PY | PZ.

Section PauliMeas.
  Context {K : Type} (O : Ops K).

  Definition pauli_mat (p : pauli) : matrix (K:=K) :=
    match p with
    | PI => [[k1 O; k0 O]; [k0 O; k1 O]]
    | PX => [[k0 O; k1 O]; [k1 O; k0 O]]
    | PY => [[k0 O; kopp O (ki O)]; [ki O; k0 O]]
    | PZ => [[k1 O; k0 O]; [k0 O; kopp O (k1 O)]]
    end.

  (* big-endian tensor product: the first letter acts on the first qubit of the operation *)
  Fixpoint pstring_mat (l : list pauli) : matrix (K:=K) :=
    match l with
    | [] => [[k1 O]]
    | p :: r => kron O (pauli_mat p) (pstring_mat r)
    end.

  Definition psign (neg : bool) : K := if neg then kopp O (k1 O) else k1 O.

  (* the signed observable s . P *)
  Definition pauli_obs (neg : bool) (l : list pauli) : matrix (K:=K) := mscale O (psign neg) (pstring_mat l).

  (* projector onto the eigenspace of s.P that is recorded as `outcome` (false: eigenvalue +1, true: eigenvalue -1) *)
  Definition pauli_proj (neg : bool) (l : list pauli) (outcome : bool) : matrix (K:=K) :=
    mscale O (khalf O) (madd O (mid O (2 ^ length l)) (mscale O (psign (xorb neg outcome)) (pstring_mat l))).

  Definition pauli_meas (key : nat) (neg : bool) (l : list pauli) (ax : list nat) : mop (K:=K) :=
    MKrausKeyed key [pauli_proj neg l false; pauli_proj neg l true] (repeat 2 (length l)) ax.
End PauliMeas.

(* ---- exact decision over K8 = Q(zeta_8) that the pair is the spectral resolution of the signed observable ---- *)
Fixpoint k8row_eqb (a b : list K8) : bool :=
  match a, b with
  | [], [] => true
  | x :: a', y :: b' => k8_eqb x y && k8row_eqb a' b'
  | _, _ => false
  end.
Fixpoint k8mat_eqb (a b : matrix (K:=K8)) : bool :=
  match a, b with
  | [], [] => true
  | x :: a', y :: b' => k8row_eqb x y && k8mat_eqb a' b'
  | _, _ => false
  end.

Definition pauli_proj_ok (neg : bool) (l : list pauli) : bool :=
  let d := 2 ^ length l in
  let P0 := pauli_proj K8Ops neg l false in
  let P1 := pauli_proj K8Ops neg l true in
  is_square d P0 && is_square d P1 &&
  k8mat_eqb (madd K8Ops P0 P1) (mid K8Ops d) &&
  k8mat_eqb (madd K8Ops P0 (mscale K8Ops (kopp K8Ops (k1 K8Ops)) P1)) (pauli_obs K8Ops neg l) &&
  k8mat_eqb (mmul K8Ops P0 P0) P0 && k8mat_eqb (mmul K8Ops P1 P1) P1 &&
  k8mat_eqb (mmul K8Ops P0 P1) (mzero K8Ops d d) && k8mat_eqb (mmul K8Ops P1 P0) (mzero K8Ops d d) &&
  k8mat_eqb (mdagger K8Ops P0) P0 && k8mat_eqb (mdagger K8Ops P1) P1.

(* all strings over {I, X, Y, Z} of length n, and of length 1 .. n *)
Fixpoint pauli_strings (n : nat) : list (list pauli) :=
  match n with
  | 0 => [[]]
  | S m => flat_map (fun s => map (fun p => p :: s) [PI; PX; PY; PZ]) (pauli_strings m)
  end.
Definition pauli_strings_upto (n : nat) : list (list pauli) := flat_map (fun k => pauli_strings (S k)) (seq 0 n).

(* what the decision establishes: P0 + P1 = I, P0 - P1 = s.P, both idempotent, mutually orthogonal, self-adjoint *)
Definition pauli_proj_spec (neg : bool) (l : list pauli) : Prop :=
  let d := 2 ^ length l in
  let P0 := pauli_proj K8Ops neg l false in
  let P1 := pauli_proj K8Ops neg l true in
  madd K8Ops P0 P1 = mid K8Ops d /\
  madd K8Ops P0 (mscale K8Ops (kopp K8Ops (k1 K8Ops)) P1) = pauli_obs K8Ops neg l /\
  mmul K8Ops P0 P0 = P0 /\ mmul K8Ops P1 P1 = P1 /\
  mmul K8Ops P0 P1 = mzero K8Ops d d /\ mmul K8Ops P1 P0 = mzero K8Ops d d /\
  mdagger K8Ops P0 = P0 /\ mdagger K8Ops P1 = P1.
