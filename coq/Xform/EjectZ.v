(* Model of the phase-tracking loop of cirq.eject_z (transformers/eject_z.py), in the shape of the code:
   a tracked phase per qubit (`qubit_phase`), Z gates are absorbed into it, gates that can be phased are
   emitted phased by the tracked phases of their qubits, swap-like gates exchange the two tracked phases,
   measurements forget them, everything else (ignored tag, no gate, phase_by undefined) first dumps the
   tracked phases of its qubits as Z gates; at the end all tracked phases are dumped.
   Phases are integers (multiples of a fixed fraction of a turn), gates are labels of an arbitrary type.
   Definitions only; the invariant is proved in EjectZProofs.v.
   Not modelled: the absorption of the final phase into the last PhasedXZ gate (phased_xz_replacements),
   the atol threshold (atol = 0: a phase is dropped iff it is a whole number of turns), parameterized gates. *)
From Coq Require Import List Arith ZArith Bool.
Import ListNotations.
Local Open Scope Z_scope.

Section EjectZ.
  Variable G : Type.
  Variable period : Z.        (* number of phase units in one full turn: a phase is negligible iff it is a multiple of it (atol = 0) *)

  Inductive iop :=
  | IZ (q : nat) (p : Z)                       (* Z^(2p): absorbed *)
  | IGate (g : G) (qs : list nat)              (* phase_by is defined for g *)
  | ISwap (g : G) (a b : nat)                  (* swap-like *)
  | IMeas (g : G) (qs : list nat)              (* measurement *)
  | IOpaque (g : G) (qs : list nat).           (* ignored tag / no gate / phase_by undefined *)

  Inductive oop :=
  | OZ (q : nat) (p : Z)
  | OGate (g : G) (qs : list nat) (ps : list Z)    (* g phased by -ps on its qubits *)
  | OSwap (g : G) (a b : nat)
  | OMeas (g : G) (qs : list nat)
  | OOpaque (g : G) (qs : list nat).

  Definition phases := nat -> Z.
  Definition pset (ph : phases) (q : nat) (v : Z) : phases := fun x => if Nat.eqb x q then v else ph x.
  Definition preset (ph : phases) (qs : list nat) : phases := fold_left (fun ph q => pset ph q 0) qs ph.
  Definition pswap (ph : phases) (a b : nat) : phases := pset (pset ph a (ph b)) b (ph a).

  (* dump_tracked_phase: one Z gate per qubit whose tracked phase is not zero; the phase is zeroed *)
  Fixpoint dump (ph : phases) (qs : list nat) : list oop * phases :=
    match qs with
    | [] => ([], ph)
    | q :: r => let '(zs, ph') := dump (pset ph q 0) r in
                ((if Z.eqb (ph q mod period) 0 then zs else OZ q (ph q) :: zs), ph')
    end.

  Definition step (ph : phases) (o : iop) : list oop * phases :=
    match o with
    | IZ q p => ([], pset ph q (ph q + p))
    | IGate g qs => ([OGate g qs (map ph qs)], ph)
    | ISwap g a b => ([OSwap g a b], pswap ph a b)
    | IMeas g qs => ([OMeas g qs], preset ph qs)
    | IOpaque g qs => let '(zs, ph') := dump ph qs in (zs ++ [OOpaque g qs], ph')
    end.

  Fixpoint loop (ph : phases) (l : list iop) : list oop * phases :=
    match l with
    | [] => ([], ph)
    | o :: r => let '(out1, ph1) := step ph o in
                let '(out2, ph2) := loop ph1 r in (out1 ++ out2, ph2)
    end.

  Definition eject_z (allq : list nat) (l : list iop) : list oop :=
    let '(out, ph) := loop (fun _ => 0) l in out ++ fst (dump ph allq).
End EjectZ.
Arguments IZ {G} _ _. Arguments IGate {G} _ _. Arguments ISwap {G} _ _ _. Arguments IMeas {G} _ _. Arguments IOpaque {G} _ _.
Arguments OZ {G} _ _. Arguments OGate {G} _ _ _. Arguments OSwap {G} _ _ _. Arguments OMeas {G} _ _. Arguments OOpaque {G} _ _.
Arguments eject_z {G} _ _ _. Arguments loop {G} _ _ _. Arguments step {G} _ _ _. Arguments dump {G} _ _ _.
