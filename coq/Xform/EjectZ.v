(* Model of the phase-tracking loop of cirq.eject_z (transformers/eject_z.py), in the shape of the code:
   a tracked phase per qubit (`qubit_phase`), Z gates are absorbed into it, gates that can be phased are
   emitted phased by the tracked phases of their qubits, swap-like gates exchange the two tracked phases,
   measurements forget them, everything else (ignored tag, no gate, phase_by undefined) first dumps the
   tracked phases of its qubits as Z gates; at the end all tracked phases are dumped.
   PhasedXZ gates (`phased_xz_replacements` / `last_phased_xz_op`): the gate is emitted phased with z exponent 0, its own z
   exponent joins the tracked phase of its qubit, and the qubit remembers WHERE the gate was emitted (its position in the
   output).  Every operation forgets the marks of the qubits it touches before anything else happens (the first statement of
   map_func) - a Z gate, a swap-like gate, a measurement, an opaque operation alike.  At the end a qubit that still carries
   a mark does not get a Z gate: its tracked phase is written into the z exponent of the remembered gate (whatever its
   value); only the final dump can see a mark, because the dumps inside the loop come after the marks were forgotten.
   Phases are integers (multiples of a fixed fraction of a turn), gates are labels of an arbitrary type.
   Definitions only; the invariant is proved in EjectZProofs.v.
   Not modelled: the atol threshold (atol = 0: a phase is dropped iff it is a whole number of turns), parameterized gates. *)
From Coq Require Import List Arith ZArith Bool.
Import ListNotations.
Local Open Scope Z_scope.

Section EjectZ.
  Variable G : Type.
  Variable period : Z.        (* number of phase units in one full turn: a phase is negligible iff it is a multiple of it (atol = 0) *)

  Inductive iop :=
  | IZ (q : nat) (p : Z)                       (* Z^(2p): absorbed *)
  | IGate (g : G) (qs : list nat)              (* phase_by is defined for g *)
  | ISwap (g : G) (a b : nat)                  (* swap-like *)
  | IMeas (g : G) (qs : list nat)              (* measurement *)
  | IOpaque (g : G) (qs : list nat)            (* ignored tag / no gate / phase_by undefined *)
  | IPhXZ (g : G) (q : nat) (z : Z).           (* PhasedXZ: x part g (phase_by defined), then Z^(2z) *)

  Inductive oop :=
  | OZ (q : nat) (p : Z)
  | OGate (g : G) (qs : list nat) (ps : list Z)    (* g phased by -ps on its qubits *)
  | OSwap (g : G) (a b : nat)
  | OMeas (g : G) (qs : list nat)
  | OOpaque (g : G) (qs : list nat)
  | OPhXZ (g : G) (q : nat) (p : Z) (z : Z).       (* PhasedXZ: x part g phased by -p, z exponent z *)

  Definition phases := nat -> Z.
  Definition pset (ph : phases) (q : nat) (v : Z) : phases := fun x => if Nat.eqb x q then v else ph x.
  Definition preset (ph : phases) (qs : list nat) : phases := fold_left (fun ph q => pset ph q 0) qs ph.
  Definition pswap (ph : phases) (a b : nat) : phases := pset (pset ph a (ph b)) b (ph a).

  (* last_phased_xz_op: per qubit, the position in the output of the PhasedXZ gate that is still the last thing on it *)
  Definition marks := nat -> option nat.
  Definition mset (mk : marks) (q : nat) (v : option nat) : marks := fun x => if Nat.eqb x q then v else mk x.
  Definition mclear (mk : marks) (qs : list nat) : marks := fold_left (fun mk q => mset mk q None) qs mk.

  (* phased_xz_replacements[key] = ....with_z_exponent(v): the z exponent of the output entry at position k *)
  Fixpoint setz (k : nat) (v : Z) (out : list oop) {struct out} : list oop :=
    match out with
    | [] => []
    | o :: r => match k with
                | O => (match o with OPhXZ g q p _ => OPhXZ g q p v | _ => o end) :: r
                | S k' => o :: setz k' v r
                end
    end.

  (* dump_tracked_phase inside the loop (no mark can be set there): one Z gate per qubit whose tracked phase is not zero *)
  Fixpoint dump (ph : phases) (qs : list nat) : list oop * phases :=
    match qs with
    | [] => ([], ph)
    | q :: r => let '(zs, ph') := dump (pset ph q 0) r in
                ((if Z.eqb (ph q mod period) 0 then zs else OZ q (ph q) :: zs), ph')
    end.

  Definition state := (phases * marks * list oop)%type.

  Definition step (st : state) (o : iop) : state :=
    let '(ph, mk, out) := st in
    match o with
    | IZ q p => (pset ph q (ph q + p), mset mk q None, out)
    | IGate g qs => (ph, mclear mk qs, out ++ [OGate g qs (map ph qs)])
    | ISwap g a b => (pswap ph a b, mclear mk [a; b], out ++ [OSwap g a b])
    | IMeas g qs => (preset ph qs, mclear mk qs, out ++ [OMeas g qs])
    | IOpaque g qs => let '(zs, ph') := dump ph qs in (ph', mclear mk qs, out ++ zs ++ [OOpaque g qs])
    | IPhXZ g q z => (pset ph q (ph q + z), mset mk q (Some (length out)), out ++ [OPhXZ g q (ph q) 0])
    end.

  Definition loop (st : state) (l : list iop) : state := fold_left step l st.

  (* the final dump_tracked_phase: a marked qubit hands its phase to the remembered PhasedXZ gate, the others get a Z gate *)
  Fixpoint finish (ph : phases) (mk : marks) (out : list oop) (qs : list nat) : list oop :=
    match qs with
    | [] => out
    | q :: r => match mk q with
                | Some k => finish ph mk (setz k (ph q) out) r
                | None => finish ph mk (if Z.eqb (ph q mod period) 0 then out else out ++ [OZ q (ph q)]) r
                end
    end.

  Definition init : state := (fun _ => 0, fun _ => None, []).

  Definition eject_z (allq : list nat) (l : list iop) : list oop :=
    let '(ph, mk, out) := loop init l in finish ph mk out allq.
End EjectZ.
Arguments IZ {G} _ _. Arguments IGate {G} _ _. Arguments ISwap {G} _ _ _. Arguments IMeas {G} _ _. Arguments IOpaque {G} _ _. Arguments IPhXZ {G} _ _ _.
Arguments OZ {G} _ _. Arguments OGate {G} _ _ _. Arguments OSwap {G} _ _ _. Arguments OMeas {G} _ _. Arguments OOpaque {G} _ _. Arguments OPhXZ {G} _ _ _ _.
Arguments eject_z {G} _ _ _. Arguments loop {G} _ _ _. Arguments step {G} _ _ _. Arguments dump {G} _ _ _.
Arguments finish {G} _ _ _ _ _. Arguments setz {G} _ _ _. Arguments init {G}.
