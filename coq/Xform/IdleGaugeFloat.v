(* Float instance of the IdleMomentsGauge model (Xform/IdleGauge.v) used by the C06 correspondence stream: single-qubit gates are
   2x2 binary64 complex matrices, `gm b a` is the matrix product b . a, what the other qubits do is not recorded (unit).
   idle_check: every window the model takes is sound (window_ok on the circuit it is applied to), the model consumes exactly the
   recorded draws, and its output equals the real transformer's output wire by wire and moment by moment (same kind of moment,
   merged gates equal up to a global phase within tol).  pairs_ok: the transformer's tables gauges / gauges_inverse are inverse
   to each other up to a phase at every index, in both orders (hypothesis `inverse_pairs` of idle_gauge_preserved).
   Definitions only. *)
From Coq Require Import PrimFloat List Arith Bool.
From VF Require Import Base.RingOps Base.Mat Base.FloatInst Base.Harness Xform.IdleGauge.
Import ListNotations.

Definition FM := list (list FC).
Definition IM := moment FM unit unit.
Definition gm (b a : FM) : FM := mmul FOps b a.
Definition mi : IM := MIdle tt.
Definition mf : IM := MFixed tt.
Definition mm (g : FM) : IM := MMerge g tt.

Definition mclose (tol : float) (a b : IM) : bool :=
  match a, b with
  | MIdle _, MIdle _ => true
  | MMerge g _, MMerge h _ => fcll_close_phase tol g h
  | MFixed _, MFixed _ => true
  | _, _ => false
  end.

Definition idle_check (tol : float) (min_length : nat) (gb ge : bool) (gs gis : list FM) (wires : list (list IM))
           (script : list nat) (real : list (list IM)) : bool :=
  idle_gauge_ok gm min_length gb ge gs gis wires script &&
  match idle_gauge gm min_length gb ge gs gis wires script with
  | Some (ws, []) => list_eqb (list_eqb (mclose tol)) ws real
  | _ => false
  end.

Definition id2 : FM := [[(1, 0); (0, 0)]; [(0, 0); (1, 0)]]%float.
Definition pairs_ok (tol : float) (gs gis : list FM) : bool :=
  Nat.eqb (length gs) (length gis) && negb (Nat.eqb (length gs) 0) &&
  forallb (fun p => fcll_close_phase tol (gm (snd p) (fst p)) id2 && fcll_close_phase tol (gm (fst p) (snd p)) id2) (combine gs gis).
