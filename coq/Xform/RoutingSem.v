(* C07 -- meaning of the routing model on states (definitions; the theorems are in RoutingSemProofs.v).
   A physical state phi (one axis per physical qubit) is read through a mapping as a logical state:
   the logical index i_l corresponds to the physical index whose digit at position p is the digit of i_l at
   the logical qubit sitting on p (physical -> logical array g). *)
From Coq Require Import List Arith Bool.
From VF Require Import Base.RingOps Base.Mat Base.Tensor Xform.Routing.
Import ListNotations.

Definition perm_idx (n : nat) (g : list nat) (i : idx) : idx := map (fun p => get i (nth p g 0)) (seq 0 n).
Definition bits (i : idx) : Prop := Forall (fun x => x < 2) i.

Section Sem.
  Context {K : Type} (O : Ops K).
  Definition view (n : nat) (g : list nat) (phi : tensor (K:=K)) : tensor := fun i => phi (perm_idx n g i).
  Definition swap_matrix : matrix (K:=K) :=
    [[k1 O; k0 O; k0 O; k0 O]; [k0 O; k0 O; k1 O; k0 O]; [k0 O; k1 O; k0 O; k0 O]; [k0 O; k0 O; k0 O; k1 O]].
  (* any assignment of a matrix to every operation identity; operations act on qubits *)
  Variable mat_of_id : nat -> matrix (K:=K).
  Definition den_l (o : oop) : Tensor.rop (K:=K) :=
    {| rop_m := mat_of_id (o_id o); rop_dims := repeat 2 (length (o_qs o)); rop_ax := o_qs o |}.
  Definition den_p (r : phop) : Tensor.rop (K:=K) :=
    match r with
    | ROp o => den_l o
    | RSwap a b => {| rop_m := swap_matrix; rop_dims := [2; 2]; rop_ax := [a; b] |}
    | _ => {| rop_m := [[k1 O]]; rop_dims := []; rop_ax := [] |}
    end.
End Sem.

(* well-formed logical streams: qubits in range, swaps between two different qubits *)
Fixpoint wf_ls (n : nat) (ls : list lop) : Prop :=
  match ls with
  | [] => True
  | LOp o :: r => (forall q, In q (o_qs o) -> q < n) /\ wf_ls n r
  | LSwap a b :: r => a < n /\ b < n /\ a <> b /\ wf_ls n r
  end.
