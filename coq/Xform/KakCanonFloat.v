(* C15 — the validators at the (unverified) float instance, applied to the real outputs of /repo.
   Definitions only.  Tolerances are arguments; the check passes the documented ones. *)
From Coq Require Import PrimFloat List Bool Arith.
From VF Require Import Base.RingOps Base.Mat Base.Tensor Base.FloatInst Base.Harness Gates.Families Sim.Ref Xform.KakCanon Xform.KakCount Xform.KakTab.
Import ListNotations.
Open Scope float_scope.

Definition FM := matrix (K:=FC).
Definition fpi4 : float := 0x1.921fb54442d18p-1.                (* numpy's pi/4 *)

(* documented canonical form of the interaction coefficients, with kak_canonicalize_vector's own atol:
   0 <= |z| <= y <= x <= pi/4 (+atol: see kak_canon_x_le_quarter_pi_refuted), and z >= 0 unless x <= pi/4 - atol *)
Definition kak_canonical_f (atol x y z : float) : bool :=
  PrimFloat.leb (abs z) y && PrimFloat.leb y x && PrimFloat.leb x (fpi4 + atol) &&
  (PrimFloat.leb x (fpi4 - atol) || PrimFloat.leb 0 z).

(* g * kron(after0, after1) * exp(i(x XX + y YY + z ZZ)) * kron(before0, before1); t holds (cos, sin) of x, y, z *)
Definition kak_recompose (g : FC) (a0 a1 b0 b1 : FM) (t : trig3 (K:=FC)) : FM :=
  mscale FOps g (mmul FOps (kron FOps a0 a1) (mmul FOps (interaction FOps t) (kron FOps b0 b1))).

Definition is_unitary_f (tol : float) (n : nat) (m : FM) : bool :=
  fcll_close tol (mmul FOps m (mdagger FOps m)) (mid FOps n).
Definition is_real_f (tol : float) (m : FM) : bool :=
  forallb (forallb (fun x : FC => PrimFloat.leb (abs (snd x)) tol)) m.
Definition is_orthogonal_f (tol : float) (n : nat) (m : FM) : bool :=
  is_real_f tol m && fcll_close tol (mmul FOps m (mtranspose FOps m)) (mid FOps n).
Definition is_diagonal_f (tol : float) (m : FM) : bool :=
  forallb (fun i => forallb (fun j => Nat.eqb i j || fc_close tol (mget FOps m i j) (0, 0)) (seq 0 (length m))) (seq 0 (length m)).

(* determinant by expansion along the first row (n <= 4 in this check) *)
Definition drop_col {A} (j : nat) (r : list A) : list A := firstn j r ++ skipn (S j) r.
Fixpoint fdet (n : nat) (m : FM) : FC :=
  match n with
  | O => (1, 0)
  | S n' =>
      match m with
      | [] => (1, 0)
      | r :: rest =>
          fold_right fc_add (0, 0)
            (map (fun j => fc_mul (fc_mul (if Nat.even j then (1, 0) else (-1, 0)) (nth j r (0, 0)))
                                  (fdet n' (map (drop_col j) rest)))
                 (seq 0 (length r)))
      end
  end.
Definition det_is_one_f (tol : float) (n : nat) (m : FM) : bool := fc_close tol (fdet n m) (1, 0).
Definition is_special_orthogonal_f (tol : float) (n : nat) (m : FM) : bool := is_orthogonal_f tol n m && det_is_one_f tol n m.
Definition is_special_unitary_f (tol : float) (n : nat) (m : FM) : bool := is_unitary_f tol n m && det_is_one_f tol n m.

(* reconstruction of an operation list through the reference semantics *)
Definition reconstructs_f (tol : float) (sh : list nat) (ops : list (gop (K:=FC))) (U : FM) : bool :=
  reconstructs_b FOps (fc_close tol) sh ops U.
Definition reconstructs_phase_f (tol : float) (sh : list nat) (ops : list (gop (K:=FC))) (U : FM) : bool :=
  fcll_close_phase tol (circ_unitary FOps sh ops) U.
(* "up to global phase" means: for SOME unit factor.  fcll_close_phase aligns the phase at the entry of largest modulus (a valid witness, but
   up to twice the best residual when the difference is itself a relative phase, e.g. a dropped Z rotation); the second witness is the phase
   of the inner product <U, product>, the minimiser of the Frobenius distance.  Either witness establishes the statement. *)
Fixpoint fcl_inner (a b : list FC) : FC :=
  match a, b with
  | x :: a', y :: b' => fc_add (fc_mul x (fc_conj y)) (fcl_inner a' b')
  | _, _ => (0, 0)
  end.
Definition fcl_close_iphase (tol : float) (a b : list FC) : bool :=
  let s := fcl_inner a b in
  let n := sqrt (fc_norm2 s) in
  if PrimFloat.leb n 0x1p-30 then fcl_close tol a b
  else let f : FC := (fst s / n, snd s / n) in fcl_close tol a (map (fc_mul f) b).
Definition fcll_close_anyphase (tol : float) (a b : list (list FC)) : bool :=
  fcll_close_phase tol a b || (Nat.eqb (length a) (length b) && fcl_close_iphase tol (concat a) (concat b)).
Definition reconstructs_anyphase_f (tol : float) (sh : list nat) (ops : list (gop (K:=FC))) (U : FM) : bool :=
  fcll_close_anyphase tol (circ_unitary FOps sh ops) U.
(* state preparation: the first column of the circuit's unitary *)
Definition prepares_phase_f (tol : float) (sh : list nat) (ops : list (gop (K:=FC))) (psi : list FC) : bool :=
  fcl_close_phase tol (circ_state FOps sh ops (basis FOps sh 0)) psi.

(* AxisAngleDecomposition: g * (cos(-t/2) I + i sin(-t/2) (x X + y Y + z Z)); c, s are cos(-t/2), sin(-t/2) *)
Definition axis_angle_m (g : FC) (c s x y z : float) : FM :=
  mscale FOps g [[(c, s * z); (s * y, s * x)]; [(- (s * y), s * x); (c, - (s * z))]].
Definition axis_canonical_f (tol angle x y z : float) : bool :=
  f_close tol (x * x + y * y + z * z) 1 && PrimFloat.leb (- tol) (x + y + z)
  && PrimFloat.ltb (- (4 * fpi4) + tol) angle && PrimFloat.leb angle (4 * fpi4 + tol).
(* the magic basis of so4_to_magic_su2s' docstring *)
Definition magic_m : FM :=
  mscale FOps (ks2 FOps) [[(1, 0); (0, 0); (0, 0); (0, 1)]; [(0, 0); (0, 1); (1, 0); (0, 0)];
                          [(0, 0); (0, 1); (-1, 0); (0, 0)]; [(1, 0); (0, 0); (0, 0); (0, -1)]].
Definition magic_conj (a b : FM) : FM := mmul FOps (mdagger FOps magic_m) (mmul FOps (kron FOps a b) magic_m).
Definition fmdiag (d : list FC) : FM := mdiag FOps d.
(* allclose-style entry comparison: |a-b| <= atol + rtol*|b| (numpy), componentwise on the difference modulus bound *)
Definition fc_allclose (rtol atol : float) (a b : FC) : bool :=
  let bound := atol + rtol * sqrt (fc_norm2 b) in fc_close bound a b.
Fixpoint fcl_allclose (rtol atol : float) (a b : list FC) : bool :=
  match a, b with
  | [], [] => true
  | x :: a', y :: b' => fc_allclose rtol atol x y && fcl_allclose rtol atol a' b'
  | _, _ => false
  end.
Definition fcll_allclose (rtol atol : float) (a b : FM) : bool :=
  Nat.eqb (length a) (length b) && fcl_allclose rtol atol (concat a) (concat b).

(* ---- num_cnots_required, kak_vector, extract_right_diag, two_qubit_matrix_to_cz_isometry ---- *)
(* Xform/KakCount.v cz_count_ok on binary64 coefficients (radians): distances from the origin, the CNOT vertex and the face z = 0.
   Written with moduli, so a point a few atol outside the chamber (x just above pi/4, y just below 0) is judged like its mirror image *)
Definition cz_count_ok_f (lo m0 m x y z : float) (n : nat) : bool :=
  let d0 := fmax (abs x) (fmax (abs y) (abs z)) in
  let d1 := fmax (abs (x - fpi4)) (fmax (abs y) (abs z)) in
  let d2 := abs z in
  if PrimFloat.leb d0 lo then Nat.eqb n 0
  else (Nat.eqb n 0 && PrimFloat.leb d0 m0) ||
       (if PrimFloat.leb d1 lo then Nat.eqb n 1
        else (Nat.eqb n 1 && PrimFloat.leb d1 m) ||
             (if PrimFloat.leb d2 lo then Nat.eqb n 2
              else (Nat.eqb n 2 && PrimFloat.leb d2 m) || Nat.eqb n 3)).
(* a KAK vector (kx, ky, kz) against certified canonical coefficients (x, y, z) of the same unitary: canonical itself, and equal to them
   or to their mirror image (pi/2 - x, y, -z) — the same class; both lie in the chamber only when x is within tolerance of pi/4 *)
Definition close3_f (tol a b c x y z : float) : bool := f_close tol a x && f_close tol b y && f_close tol c z.
Definition kak_vector_ok_f (atol tol kx ky kz x y z : float) : bool :=
  kak_canonical_f atol kx ky kz && (close3_f tol kx ky kz x y z || close3_f tol kx ky kz (2 * fpi4 - x) y (- z)).
(* an isometry from the states with the first qubit in |0>: the first two columns (basis states |00>, |01>) agree up to one phase *)
Definition first_columns (k : nat) (m : FM) : list FC := concat (firstn k (mtranspose FOps m)).
Definition isometry_phase_f (tol : float) (sh : list nat) (ops : list (gop (K:=FC))) (U : FM) : bool :=
  fcl_close_phase tol (first_columns 2 (circ_unitary FOps sh ops)) (first_columns 2 U).

(* ---- the tabulation decomposition (Xform/KakTab.v): TwoQubitGateTabulation.compile_two_qubit_gate ---- *)
(* entanglement infidelity 1 - |tr(U^dagger V)|^2 / 16 of two 4x4 matrices *)
Definition ent_infidelity_f (U V : FM) : float := 1 - fc_norm2 (overlap FOps U V) / 16.
(* the documented product k_N . A . k_{N-1} ... A . k_0 of the returned (k_j0, k_j1) pairs: the model's tab_product *)
Definition tab_product_f (A : FM) (ks : list (FM * FM)) : FM :=
  tab_product FOps A (map (fun p => kron FOps (fst p) (snd p)) ks).
(* form of a result: 2..4 local layers (1..3 base gates), every factor a 2x2 unitary, actual_gate and the base gate 4x4 unitaries *)
Definition tab_form_f (tol : float) (A : FM) (ks : list (FM * FM)) (actual : FM) : bool :=
  Nat.leb 2 (length ks) && Nat.leb (length ks) 4 &&
  forallb (fun p => is_unitary_f tol 2 (fst p) && is_unitary_f tol 2 (snd p)) ks &&
  is_unitary_f tol 4 A && is_unitary_f tol 4 actual.
(* the model's product against the reference semantics of the same layers written as a circuit *)
Definition tab_model_f (tol : float) (A : FM) (ks : list (FM * FM)) (ops : list (gop (K:=FC))) : bool :=
  fcll_close tol (tab_product_f A ks) (circ_unitary FOps [2; 2]%nat ops).
(* success = True: the circuit's unitary is within the tabulation's infidelity bound of the target (strictly, as compile_two_qubit_gate
   documents "success: whether actual_gate is expected to be close to U_target"; slack for binary64 noise) *)
Definition within_infidelity_f (bound slack : float) (ops : list (gop (K:=FC))) (target : FM) : bool :=
  PrimFloat.ltb (ent_infidelity_f (circ_unitary FOps [2; 2]%nat ops) target) (bound + slack).
