(* C07 -- a device built from a device specification (cirq_google/api/v2/device.proto, GridDevice.from_proto).
   Definitions only; the theorems are in DeviceSpecProofs.v.

   A specification lists the valid qubits, named target sets and the valid gates.  device.proto documents a target set by its
   ORDERING, not by its name: "SYMMETRIC: any id order within each target is valid.  Two-qubit gates can be applied to all
   two-element targets in a TargetSet of this type."  The name of a target set was only a label that the deprecated per-gate
   definitions referred to; the couplings of the device are therefore the two-element targets of EVERY symmetric target set,
   whatever it is called and however the couplings are distributed over several such sets.  Targets of other sizes (single
   qubits, three-qubit targets) and targets of sets with another ordering (the measurement groups, SUBSET_PERMUTATION) are no
   couplings. *)
From Coq Require Import List Arith Bool.
From VF Require Import Xform.Gateset.
Import ListNotations.

Inductive ordering := OrdUnspecified | OrdSymmetric | OrdAsymmetric | OrdSubsetPermutation.
(* the name is an id of the string (equal strings, equal ids) *)
Record target_set := mkTS { ts_name : nat; ts_ordering : ordering; ts_targets : list (list nat) }.
Record dspec := mkSpec { sp_qubits : list nat; sp_targets : list target_set; sp_gateset : gateset }.

Definition is_symmetric (o : ordering) : bool := match o with OrdSymmetric => true | _ => false end.
Definition target_pair (t : list nat) : list (nat * nat) := match t with [a; b] => [(a, b)] | _ => [] end.
Definition ts_pairs (ts : target_set) : list (nat * nat) :=
  if is_symmetric (ts_ordering ts) then flat_map target_pair (ts_targets ts) else [].
Definition spec_pairs (sp : dspec) : list (nat * nat) := flat_map ts_pairs (sp_targets sp).

(* the documented reasons for which a specification is refused (ValueError): a qubit listed twice, a target naming a qubit that
   is not a valid qubit, a symmetric target with a repeated qubit, an ASYMMETRIC target set *)
Fixpoint nodupb (l : list nat) : bool := match l with [] => true | x :: r => negb (nmem x r) && nodupb r end.
Definition ts_valid (qs : list nat) (ts : target_set) : bool :=
  forallb (fun t => forallb (fun q => nmem q qs) t) (ts_targets ts)
  && (negb (is_symmetric (ts_ordering ts)) || forallb nodupb (ts_targets ts))
  && match ts_ordering ts with OrdAsymmetric => false | _ => true end.
Definition spec_valid (sp : dspec) : bool := nodupb (sp_qubits sp) && forallb (ts_valid (sp_qubits sp)) (sp_targets sp).

(* GridDevice.from_proto: None stands for ValueError *)
Definition device_of_spec (sp : dspec) : option device :=
  if spec_valid sp then Some (mkDev (sp_gateset sp) (sp_qubits sp) (spec_pairs sp) PairsTwoQubit false) else None.

(* relabelling the target sets *)
Definition rename_sets (f : nat -> nat) (sp : dspec) : dspec :=
  mkSpec (sp_qubits sp) (map (fun ts => mkTS (f (ts_name ts)) (ts_ordering ts) (ts_targets ts)) (sp_targets sp)) (sp_gateset sp).

(* comparison of a reported pair list with the expected one as sets of unordered pairs (harness side) *)
Definition pairs_subset (a b : list (nat * nat)) : bool := forallb (fun p => pair_mem b (fst p) (snd p)) a.
Definition same_pairs (a b : list (nat * nat)) : bool := pairs_subset a b && pairs_subset b a.
Definition same_qubits (a b : list nat) : bool := forallb (fun q => nmem q b) a && forallb (fun q => nmem q a) b.
(* what the harness compares: the qubits and couplings a real device reports against the device of the specification *)
Definition spec_matches (sp : dspec) (reported_qubits : list nat) (reported_pairs : list (nat * nat)) : bool :=
  match device_of_spec sp with
  | Some d => same_qubits (d_qubits d) reported_qubits && same_pairs (d_pairs d) reported_pairs
  | None => false
  end.
