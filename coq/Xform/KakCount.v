(* C15 — minimal CNOT/CZ count of a two-qubit unitary read off its canonical KAK coefficients, the quantity
   `cirq.num_cnots_required` computes (trace of gamma(u) = u YY u^T YY), and witness circuits
   (definitions only; proofs in KakCountProofs.v).

   `cirq.num_cnots_required` documents "the min number of CNOT/CZ gates required by a two-qubit unitary"
   (Shende, Bullock, Markov, Prop. III.1-III.3).  In Weyl-chamber coordinates (x, y, z), 0 <= |z| <= y <= x <= pi/4,
   the classes are: 0 at the origin, 1 at the vertex (pi/4, 0, 0), 2 on the rest of the face z = 0, 3 elsewhere. *)
From Coq Require Import ZArith List Bool Arith.
From VF Require Import Base.RingOps Base.Mat Base.Tensor Base.Harness Gates.GateSpecs Xform.KakCanon.
Import ListNotations.

Open Scope Z_scope.
(* canonical coefficients in units of (pi/4)/D *)
Definition cz_class (D : Z) (v : vec3) : nat :=
  let '(x, y, z) := v in
  if (x =? 0) && (y =? 0) && (z =? 0) then 0%nat
  else if (x =? D) && (y =? 0) && (z =? 0) then 1%nat
  else if z =? 0 then 2%nat
  else 3%nat.
(* of an arbitrary coefficient vector: canonicalise first (the model of kak_canonicalize_vector) *)
Definition min_cz_count (D A : Z) (v : vec3) : nat := cz_class D (kak_canon_v D A v).

(* which answers n of a count routine are compatible with coefficients v, when the routine judges with a tolerance:
   within `lo` of a stratum (origin, CNOT vertex, face z = 0; sup norm on the coefficients) the stratum's count is the only
   answer; between `lo` and `m0` (origin) / `m` (vertex, face) the stratum's count and what lies further out are both accepted;
   beyond that the stratum's count is wrong.  With lo = m0 = m = 0 this is n = cz_class D v (cz_count_ok_exact).
   The float validator cz_count_ok_f (KakCanonFloat.v) is this definition on binary64. *)
Definition cz_count_ok (D lo m0 m : Z) (v : vec3) (n : nat) : bool :=
  let '(x, y, z) := v in
  let d0 := Z.max (Z.abs x) (Z.max (Z.abs y) (Z.abs z)) in
  let d1 := Z.max (Z.abs (x - D)) (Z.max (Z.abs y) (Z.abs z)) in
  let d2 := Z.abs z in
  if d0 <=? lo then Nat.eqb n 0
  else (Nat.eqb n 0 && (d0 <=? m0)) ||
       (if d1 <=? lo then Nat.eqb n 1
        else (Nat.eqb n 1 && (d1 <=? m)) ||
             (if d2 <=? lo then Nat.eqb n 2
              else (Nat.eqb n 2 && (d2 <=? m)) || Nat.eqb n 3)).
Close Scope Z_scope.

Section Count.
  Context {K : Type} (O : Ops K).
  Infix "+" := (kadd O). Infix "*" := (kmul O). Infix "-" := (ksub O).
  Notation "- a" := (kopp O a).
  Notation z0 := (k0 O). Notation z1 := (k1 O). Notation ii := (ki O).
  Notation M := (matrix (K:=K)).

  (* gamma(u) = u (Y x Y) u^T (Y x Y)  (linalg/decompositions.py: _gamma) and the trace num_cnots_required looks at *)
  Definition gamma_m (u : M) : M := mmul O u (mmul O (pp O 1) (mmul O (mtranspose O u) (pp O 1))).
  Definition trace4 (m : M) : K := mget O m 0 0 + mget O m 1 1 + mget O m 2 2 + mget O m 3 3.
  Definition det2 (a : M) : K := mget O a 0 0 * mget O a 1 1 - mget O a 0 1 * mget O a 1 0.
  (* cos and sin of the doubled angle from a (cos, sin) pair *)
  Definition cos2 (p : K * K) : K := fst p * fst p - snd p * snd p.
  Definition sin2 (p : K * K) : K := (z1 + z1) * (fst p * snd p).
  Definition four : K := (z1 + z1) * (z1 + z1).

  (* witness circuits.  CNOT with the first qubit as control; exp(i a P) on one qubit from (cos a, sin a) *)
  Definition cnot_m : M := [[z1; z0; z0; z0]; [z0; z1; z0; z0]; [z0; z0; z0; z1]; [z0; z0; z1; z0]].
  Definition rot1 (k : nat) (p : K * K) : M := madd O (mscale O (fst p) (mid O 2)) (mscale O (ii * snd p) (pauli_mat O k)).
  (* CNOT . (exp(i x X) (x) exp(i z Z)) . CNOT : two CNOTs and two single-qubit rotations *)
  Definition two_cnot_circuit (px pz : K * K) : M :=
    mmul O cnot_m (mmul O (kron O (rot1 0 px) (rot1 2 pz)) cnot_m).
End Count.
