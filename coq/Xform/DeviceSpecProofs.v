(* C07 -- theorems about devices built from a device specification (Xform/DeviceSpec.v). *)
From Coq Require Import List Arith Bool Lia.
From VF Require Import Xform.Gateset Xform.GatesetProofs Xform.DeviceSpec.
Import ListNotations.

Lemma target_pair_In t a b : In (a, b) (target_pair t) <-> t = [a; b].
Proof.
  destruct t as [|x [|y [|z r]]]; simpl; try (split; [intros []|discriminate]).
  split.
  - intros [H|[]]. injection H as -> ->. reflexivity.
  - intros H. injection H as -> ->. left. reflexivity.
Qed.

Lemma is_symmetric_true o : is_symmetric o = true <-> o = OrdSymmetric.
Proof. destruct o; simpl; split; intros H; try discriminate; reflexivity. Qed.

Lemma ts_pairs_In ts a b : In (a, b) (ts_pairs ts) <-> ts_ordering ts = OrdSymmetric /\ In [a; b] (ts_targets ts).
Proof.
  unfold ts_pairs. destruct (is_symmetric (ts_ordering ts)) eqn:E.
  - apply is_symmetric_true in E. rewrite in_flat_map. split.
    + intros [t [Ht Hp]]. apply target_pair_In in Hp. subst t. split; assumption.
    + intros [_ Ht]. exists [a; b]. split; [exact Ht|apply target_pair_In; reflexivity].
  - split; [intros []|]. intros [Hs _]. apply is_symmetric_true in Hs. congruence.
Qed.

(* the couplings of a specification: the two-element targets of its symmetric target sets -- of every one of them *)
Theorem spec_pairs_In sp a b : In (a, b) (spec_pairs sp) <->
  exists ts, In ts (sp_targets sp) /\ ts_ordering ts = OrdSymmetric /\ In [a; b] (ts_targets ts).
Proof.
  unfold spec_pairs. rewrite in_flat_map. split.
  - intros [ts [Hts Hp]]. apply ts_pairs_In in Hp. exists ts. tauto.
  - intros [ts [Hts Hp]]. exists ts. split; [exact Hts|apply ts_pairs_In; exact Hp].
Qed.

Lemma pair_mem_In ps a b : pair_mem ps a b = true <-> In (a, b) ps \/ In (b, a) ps.
Proof.
  unfold pair_mem. rewrite existsb_exists. split.
  - intros [[x y] [Hin H]]. simpl in H. apply orb_true_iff in H as [H|H]; apply andb_true_iff in H as [H1 H2];
      apply Nat.eqb_eq in H1; apply Nat.eqb_eq in H2; subst; [left|right]; exact Hin.
  - intros [H|H].
    + exists (a, b). split; [exact H|]. simpl. rewrite !Nat.eqb_refl. reflexivity.
    + exists (b, a). split; [exact H|]. simpl. rewrite !Nat.eqb_refl. apply orb_true_r.
Qed.

(* a pair is allowed exactly when some symmetric target set lists it, in either order; the name of the set plays no part *)
Theorem spec_pair_allowed_iff sp a b : pair_mem (spec_pairs sp) a b = true <->
  exists ts, In ts (sp_targets sp) /\ ts_ordering ts = OrdSymmetric /\ (In [a; b] (ts_targets ts) \/ In [b; a] (ts_targets ts)).
Proof.
  rewrite pair_mem_In, !spec_pairs_In. split.
  - intros [[ts H]|[ts H]]; exists ts; tauto.
  - intros [ts (H1 & H2 & [H3|H3])]; [left|right]; exists ts; tauto.
Qed.

(* relabelling the target sets changes nothing *)
Theorem spec_pairs_rename f sp : spec_pairs (rename_sets f sp) = spec_pairs sp.
Proof.
  unfold spec_pairs, rename_sets. simpl. induction (sp_targets sp) as [|ts l IH]; simpl; [reflexivity|].
  rewrite IH. reflexivity.
Qed.
Theorem device_of_spec_rename f sp : device_of_spec (rename_sets f sp) = device_of_spec sp.
Proof.
  unfold device_of_spec. rewrite spec_pairs_rename.
  assert (E : spec_valid (rename_sets f sp) = spec_valid sp).
  { unfold spec_valid, rename_sets. simpl. f_equal. induction (sp_targets sp) as [|ts l IH]; simpl; [reflexivity|].
    rewrite IH. reflexivity. }
  rewrite E. reflexivity.
Qed.

(* distributing the couplings over several target sets changes nothing: the pairs of a list of sets are the pairs of its
   parts, and one symmetric set may be cut into two sets (with any names) *)
Theorem spec_pairs_app qs l1 l2 g :
  spec_pairs (mkSpec qs (l1 ++ l2) g) = spec_pairs (mkSpec qs l1 g) ++ spec_pairs (mkSpec qs l2 g).
Proof. unfold spec_pairs. simpl. apply flat_map_app. Qed.
Theorem ts_pairs_split n n1 n2 o t1 t2 : ts_pairs (mkTS n o (t1 ++ t2)) = ts_pairs (mkTS n1 o t1) ++ ts_pairs (mkTS n2 o t2).
Proof. unfold ts_pairs. simpl. destruct (is_symmetric o); [apply flat_map_app|reflexivity]. Qed.
Theorem spec_pairs_split qs l1 l2 n n1 n2 t1 t2 g :
  spec_pairs (mkSpec qs (l1 ++ mkTS n OrdSymmetric (t1 ++ t2) :: l2) g) =
  spec_pairs (mkSpec qs (l1 ++ mkTS n1 OrdSymmetric t1 :: mkTS n2 OrdSymmetric t2 :: l2) g).
Proof.
  unfold spec_pairs. simpl. rewrite !flat_map_app. simpl. rewrite (ts_pairs_split n n1 n2). rewrite <- app_assoc. reflexivity.
Qed.

(* target sets that are not symmetric, and targets that are no pairs, contribute no coupling *)
Theorem ts_pairs_not_symmetric ts : ts_ordering ts <> OrdSymmetric -> ts_pairs ts = [].
Proof. unfold ts_pairs. destruct (ts_ordering ts); simpl; intros H; try reflexivity. congruence. Qed.

(* the device of a specification accepts a two-qubit operation (gate not variadic) exactly when the operation is in the specified
   gateset, both qubits are valid qubits and some symmetric target set lists the pair *)
Theorem spec_device_accepts_iff sp d o a b :
  device_of_spec sp = Some d -> dop_qs o = [a; b] -> a <> b -> op_variadic (dop_op o) = false ->
  (device_accepts d o = true <->
   op_in_gateset (sp_gateset sp) (dop_op o) = true /\ In a (sp_qubits sp) /\ In b (sp_qubits sp) /\
   exists ts, In ts (sp_targets sp) /\ ts_ordering ts = OrdSymmetric /\ (In [a; b] (ts_targets ts) \/ In [b; a] (ts_targets ts))).
Proof.
  unfold device_of_spec. destruct (spec_valid sp); [|discriminate]. intros Hd Hq Hne Hv. injection Hd as <-.
  rewrite device_accepts_iff. simpl. rewrite Hq. unfold needs_pairs. simpl. rewrite Hq, Hv. simpl.
  rewrite <- spec_pair_allowed_iff. split.
  - intros (_ & H2 & H3 & H4). repeat split.
    + exact H2.
    + apply H3. left. reflexivity.
    + apply H3. right. left. reflexivity.
    + apply H4; [reflexivity|left; reflexivity|right; left; reflexivity|exact Hne].
  - intros (H2 & Ha & Hb & Hp). repeat split.
    + discriminate.
    + exact H2.
    + intros q [<-|[<-|[]]]; assumption.
    + intros _ x y [<-|[<-|[]]] [<-|[<-|[]]] Hxy; try congruence;
        apply pair_mem_In; apply pair_mem_In in Hp; tauto.
Qed.

(* operations on other numbers of qubits, and variadic gates (measurement, wait), need no coupling *)
Theorem spec_device_no_pair_needed sp d o :
  device_of_spec sp = Some d -> (length (dop_qs o) <> 2 \/ op_variadic (dop_op o) = true) ->
  (device_accepts d o = true <->
   op_in_gateset (sp_gateset sp) (dop_op o) = true /\ forall q, In q (dop_qs o) -> In q (sp_qubits sp)).
Proof.
  unfold device_of_spec. destruct (spec_valid sp); [|discriminate]. intros Hd Hc. injection Hd as <-.
  rewrite device_accepts_iff. simpl. unfold needs_pairs. simpl.
  assert (E : Nat.eqb (length (dop_qs o)) 2 && negb (op_variadic (dop_op o)) = false).
  { destruct Hc as [Hc|Hc]; [apply Nat.eqb_neq in Hc; rewrite Hc; reflexivity|rewrite Hc; apply andb_false_r]. }
  rewrite E. split.
  - intros (_ & H2 & H3 & _). split; assumption.
  - intros [H2 H3]. repeat split; try assumption; discriminate.
Qed.

(* what the harness's comparison means *)
Lemma pairs_subset_spec a b : pairs_subset a b = true <-> forall x y, In (x, y) a -> In (x, y) b \/ In (y, x) b.
Proof.
  unfold pairs_subset. rewrite forallb_forall. split.
  - intros H x y Hin. apply pair_mem_In. exact (H (x, y) Hin).
  - intros H [x y] Hin. apply pair_mem_In. exact (H x y Hin).
Qed.
Theorem same_pairs_spec a b : same_pairs a b = true <-> forall x y, pair_mem a x y = pair_mem b x y.
Proof.
  unfold same_pairs. rewrite andb_true_iff, !pairs_subset_spec. split.
  - intros [H1 H2] x y. destruct (pair_mem a x y) eqn:Ea.
    + symmetry. apply pair_mem_In. apply pair_mem_In in Ea as [Ea|Ea]; [apply H1 in Ea|apply H1 in Ea]; tauto.
    + destruct (pair_mem b x y) eqn:Eb; [|reflexivity]. rewrite <- Ea. apply pair_mem_In.
      apply pair_mem_In in Eb as [Eb|Eb]; [apply H2 in Eb|apply H2 in Eb]; tauto.
  - intros H. split; intros x y Hin.
    + apply pair_mem_In. rewrite <- H. apply pair_mem_In. left. exact Hin.
    + apply pair_mem_In. rewrite H. apply pair_mem_In. left. exact Hin.
Qed.
