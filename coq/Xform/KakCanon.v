(* C15 — models and validators (definitions only; proofs in KakCanonProofs.v).

   1. The control flow of `cirq.kak_canonicalize_vector` (linalg/decompositions.py) on exact numbers:
      the interaction coefficients are integers in units of (pi/4)/D for an arbitrary positive
      denominator D (so every rational multiple of pi/4 is covered), `atol` is A in the same units.
      shift(k, +-1) adds +-pi/2 = +-2D, negate(k1,k2) flips two signs, swap(k1,k2) exchanges two entries.
      The two `while` loops of canonical_shift are given in closed form (the number of iterations is
      floor((D - v)/(2D)); a positive count is that many shift(k,+1), a negative one shift(k,-1)), so the
      model needs no fuel.  Every primitive step is emitted into a trace, in the order the code runs them.
   2. The bookkeeping of the single-qubit corrections (phase, left[0..1], right[0..1]) as a fold over that
      trace, over a generic ring (flippers i*sigma_k, swappers, numpy's ELEMENTWISE `**` on arrays).
   3. Validators applied to real outputs (float instance): `reconstructs`, `count_2q`, `kak_canonical`. *)
From Coq Require Import ZArith List Bool Arith.
From VF Require Import Base.RingOps Base.Mat Base.Tensor Base.Harness Gates.GateSpecs Gates.Families Sim.Ref.
Import ListNotations.

(* ------------------------------------------------------------------------------------------ *)
(* 1. kak_canonicalize_vector on exact coefficients                                            *)
(* ------------------------------------------------------------------------------------------ *)
Inductive step :=
| Shift (k : nat) (up : bool)          (* shift(k, +1) / shift(k, -1) *)
| Negate (k1 k2 : nat)                 (* negate(k1, k2) *)
| Swap (k1 k2 : nat).                  (* swap(k1, k2) *)

Definition vec3 := (Z * Z * Z)%type.
Definition vget (v : vec3) (k : nat) : Z :=
  let '(x, y, z) := v in match k with O => x | S O => y | _ => z end.
Definition vset (v : vec3) (k : nat) (a : Z) : vec3 :=
  let '(x, y, z) := v in match k with O => (a, y, z) | S O => (x, a, z) | _ => (x, y, a) end.

Open Scope Z_scope.
Definition step_v (D : Z) (s : step) (v : vec3) : vec3 :=
  match s with
  | Shift k up => vset v k (vget v k + (if up then 2 * D else - (2 * D)))
  | Negate k1 k2 => let v' := vset v k1 (- vget v k1) in vset v' k2 (- vget v' k2)
  | Swap k1 k2 => vset (vset v k1 (vget v k2)) k2 (vget v k1)
  end.
Definition run_v (D : Z) (steps : list step) (v : vec3) : vec3 := fold_left (fun v s => step_v D s v) steps v.

(* state of the routine: remaining vector and the trace of primitive steps so far *)
Definition st := (vec3 * list step)%type.
Definition emit (D : Z) (s : step) (t : st) : st := (step_v D s (fst t), snd t ++ [s]).
Fixpoint emit_n (D : Z) (s : step) (n : nat) (t : st) : st :=
  match n with O => t | S m => emit_n D s m (emit D s t) end.

(* canonical_shift(k):  while v[k] <= -pi/4: shift(k,+1);  while v[k] > pi/4: shift(k,-1) *)
Definition shift_count (D a : Z) : Z := (D - a) / (2 * D).
Definition canonical_shift (D : Z) (k : nat) (t : st) : st :=
  let c := shift_count D (vget (fst t) k) in
  if 0 <=? c then emit_n D (Shift k true) (Z.to_nat c) t else emit_n D (Shift k false) (Z.to_nat (- c)) t.
Definition other (k1 k2 : nat) : nat := (3 - k1 - k2)%nat.
Definition sort_step (D : Z) (k1 k2 : nat) (t : st) : st :=
  if Z.abs (vget (fst t) k1) <? Z.abs (vget (fst t) k2) then emit D (Swap k1 k2) t else t.
Definition sort3 (D : Z) (t : st) : st := sort_step D 0 1 (sort_step D 1 2 (sort_step D 0 1 t)).
Definition neg_if_negative (D : Z) (k : nat) (t : st) : st :=
  if vget (fst t) k <? 0 then emit D (Negate k 2) t else t.
(* if v[0] > pi/4 - atol and v[2] < 0: shift(0,-1); negate(0,2) *)
Definition sign_fix (D A : Z) (t : st) : st :=
  if (D - A <? vget (fst t) 0) && (vget (fst t) 2 <? 0) then emit D (Negate 0 2) (emit D (Shift 0 false) t) else t.

Definition kak_canon (D A : Z) (v : vec3) : st :=
  let t := canonical_shift D 2 (canonical_shift D 1 (canonical_shift D 0 (v, []))) in
  let t := sort3 D t in
  let t := neg_if_negative D 1 (neg_if_negative D 0 t) in
  let t := canonical_shift D 2 t in
  sign_fix D A t.
Definition kak_canon_v (D A : Z) (v : vec3) : vec3 := fst (kak_canon D A v).
Definition kak_canon_steps (D A : Z) (v : vec3) : list step := snd (kak_canon D A v).

(* the documented result form, with the tolerance made explicit:
   0 <= |z| <= y <= x <= pi/4 (+ slack), and z >= 0 when x is within atol of pi/4 *)
Definition in_chamber (D slack A : Z) (v : vec3) : Prop :=
  let '(x, y, z) := v in 0 <= Z.abs z /\ Z.abs z <= y /\ y <= x /\ x <= D + slack /\ (D - A < x -> 0 <= z).
Definition in_chamber_b (D slack A : Z) (v : vec3) : bool :=
  let '(x, y, z) := v in (Z.abs z <=? y) && (y <=? x) && (x <=? D + slack) && (negb (D - A <? x) || (0 <=? z)).
Definition well_formed_step (s : step) : bool :=
  match s with
  | Shift k _ => (k <? 3)%nat
  | Negate k1 k2 | Swap k1 k2 => (k1 <? 3)%nat && (k2 <? 3)%nat && negb (k1 =? k2)%nat
  end.
Close Scope Z_scope.

(* ------------------------------------------------------------------------------------------ *)
(* 2. single-qubit corrections recorded along the trace                                        *)
(* ------------------------------------------------------------------------------------------ *)
Section Book.
  Context {K : Type} (O : Ops K).
  Infix "+" := (kadd O). Infix "*" := (kmul O). Infix "-" := (ksub O).
  Notation "- a" := (kopp O a).
  Notation z0 := (k0 O). Notation z1 := (k1 O). Notation ii := (ki O). Notation s2 := (ks2 O).
  Notation M := (matrix (K:=K)).

  (* flippers[k] = sigma_k * 1j *)
  Definition flipper (k : nat) : M := mscale O ii (pauli_mat O k).
  (* swappers: [[1,-i],[i,-1]], [[1,1],[1,-1]], [[0,1-i],[1+i,0]]  times 1j*sqrt(0.5) *)
  Definition swapper (k : nat) : M :=
    mscale O (ii * s2)
      match k with
      | 0%nat => [[z1; - ii]; [ii; - z1]]
      | 1%nat => [[z1; z1]; [z1; - z1]]
      | _ => [[z0; z1 - ii]; [z1 + ii; z0]]
      end.
  (* numpy `array ** 3` is the elementwise cube *)
  Definition mcube (a : M) : M := map (map (fun x => x * x * x)) a.
  Definition flip_pow (k : nat) (up : bool) : M := if up then flipper k else mcube (flipper k).   (* ** (step % 4) *)

  Record book := mkBook { bk_ph : K; bk_l0 : M; bk_l1 : M; bk_r0 : M; bk_r1 : M }.
  Definition book0 : book := mkBook z1 (mid O 2) (mid O 2) (mid O 2) (mid O 2).
  Definition step_book (s : step) (b : book) : book :=
    match s with
    | Shift k up =>
        mkBook (bk_ph b * (if up then ii else - ii)) (bk_l0 b) (bk_l1 b)
               (mmul O (flip_pow k up) (bk_r0 b)) (mmul O (flip_pow k up) (bk_r1 b))
    | Negate k1 k2 =>
        let s := flipper (other k1 k2) in
        mkBook (- bk_ph b) (bk_l0 b) (mmul O (bk_l1 b) s) (bk_r0 b) (mmul O s (bk_r1 b))
    | Swap k1 k2 =>
        let s := swapper (other k1 k2) in
        mkBook (bk_ph b) (mmul O (bk_l0 b) s) (mmul O (bk_l1 b) s) (mmul O s (bk_r0 b)) (mmul O s (bk_r1 b))
    end.
  Definition run_book (steps : list step) (b : book) : book := fold_left (fun b s => step_book s b) steps b.

  (* exp(i(x XX + y YY + z ZZ)) from abstract (cos, sin) pairs: the three factors commute *)
  Definition trig3 := ((K * K) * (K * K) * (K * K))%type.
  Definition tget (t : trig3) (k : nat) : K * K :=
    let '(a, b, c) := t in match k with 0%nat => a | 1%nat => b | _ => c end.
  Definition tset (t : trig3) (k : nat) (p : K * K) : trig3 :=
    let '(a, b, c) := t in match k with 0%nat => (p, b, c) | 1%nat => (a, p, c) | _ => (a, b, p) end.
  Definition pp (k : nat) : M := kron O (pauli_mat O k) (pauli_mat O k).
  Definition efac (k : nat) (p : K * K) : M := madd O (mscale O (fst p) (mid O 4)) (mscale O (ii * snd p) (pp k)).
  Definition interaction (t : trig3) : M := mmul O (efac 2 (tget t 2)) (mmul O (efac 1 (tget t 1)) (efac 0 (tget t 0))).
  (* cos/sin of the shifted, negated, exchanged coefficients *)
  Definition step_trig (s : step) (t : trig3) : trig3 :=
    match s with
    | Shift k up => let '(c, sn) := tget t k in tset t k (if up then (- sn, c) else (sn, - c))
    | Negate k1 k2 =>
        let t' := tset t k1 (fst (tget t k1), - snd (tget t k1)) in
        tset t' k2 (fst (tget t' k2), - snd (tget t' k2))
    | Swap k1 k2 => tset (tset t k1 (tget t k2)) k2 (tget t k1)
    end.
  (* the matrix the returned KakDecomposition stands for (KakDecomposition._unitary_):
     g * kron(after[0], after[1]) * interaction * kron(before[0], before[1]),  after = (left[1], left[0]) *)
  Definition implied (b : book) (t : trig3) : M :=
    mscale O (bk_ph b) (mmul O (kron O (bk_l1 b) (bk_l0 b)) (mmul O (interaction t) (kron O (bk_r1 b) (bk_r0 b)))).

  (* ---------------------------------------------------------------------------------------- *)
  (* 3. validators for real outputs                                                            *)
  (* ---------------------------------------------------------------------------------------- *)
  (* abstract description of a returned operation: how many qubits it touches and whether it is one
     of the entangling gates the routine is allowed to use *)
  Record opdesc := mkOp { od_arity : nat; od_native : bool }.
  Definition count_2q (ops : list opdesc) : nat := length (filter (fun o => Nat.leb 2 (od_arity o)) ops).
  Definition all_2q_native (ops : list opdesc) : bool :=
    forallb (fun o => Nat.ltb (od_arity o) 2 || od_native o) ops.
  Definition within_count (ops : list opdesc) (bound : nat) : bool := Nat.leb (count_2q ops) bound && all_2q_native ops.
  Definition exact_count (ops : list opdesc) (n : nat) : bool := Nat.eqb (count_2q ops) n && all_2q_native ops.

  (* product of a list of factors in matrix order: factors [F1; ...; Fn] stand for F1 * ... * Fn *)
  Definition mprod (n : nat) (fs : list M) : M := fold_right (mmul O) (mid O n) fs.

  (* "the product of the returned factors / operations equals U (up to the documented phase)".
     eqb is the entry comparison of the instance: k8_eqb (exact, proved sound) or fc_close tol (float). *)
  Definition meqb (eqb : K -> K -> bool) (a b : M) : bool := list_eqb (list_eqb eqb) a b.
  Definition reconstructs (sh : list nat) (ops : list (gop (K:=K))) (U : M) : Prop := circ_unitary O sh ops = U.
  Definition reconstructs_phase (sh : list nat) (ops : list (gop (K:=K))) (U : M) : Prop :=
    exists g, mscale O g (circ_unitary O sh ops) = U.
  Definition reconstructs_b (eqb : K -> K -> bool) (sh : list nat) (ops : list (gop (K:=K))) (U : M) : bool :=
    meqb eqb (circ_unitary O sh ops) U.
  Definition reconstructs_phase_b (eqb : K -> K -> bool) (g : K) (sh : list nat) (ops : list (gop (K:=K))) (U : M) : bool :=
    meqb eqb (mscale O g (circ_unitary O sh ops)) U.
  Definition factors_b (eqb : K -> K -> bool) (n : nat) (fs : list M) (U : M) : bool := meqb eqb (mprod n fs) U.
End Book.
