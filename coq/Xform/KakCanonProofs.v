(* C15 — proofs about the model of kak_canonicalize_vector and the validators. *)
From Coq Require Import ZArith List Bool Arith Lia Ring.
From VF Require Import Base.RingOps Base.Mat Base.Tensor Base.Harness Gates.GateSpecs Gates.Families Gates.MatTac Sim.Ref
  Xform.KakCanon.
Import ListNotations.

(* ------------------------------------------------------------------------------------------ *)
(* vector level                                                                                *)
(* ------------------------------------------------------------------------------------------ *)
Open Scope Z_scope.

Lemma vget_vset_same v k a : vget (vset v k a) k = a.
Proof. destruct v as [[x y] z]. destruct k as [|[|k]]; reflexivity. Qed.
Lemma vset_vset_same v k a b : vset (vset v k a) k b = vset v k b.
Proof. destruct v as [[x y] z]. destruct k as [|[|k]]; reflexivity. Qed.

(* the trace is a faithful record: replaying it on the input gives the vector the routine holds *)
Lemma emit_run D s t v : run_v D (snd t) v = fst t -> run_v D (snd (emit D s t)) v = fst (emit D s t).
Proof. intros H. unfold emit, run_v in *. simpl. rewrite fold_left_app. simpl. rewrite H. reflexivity. Qed.
Lemma emit_n_run D s n : forall t v, run_v D (snd t) v = fst t -> run_v D (snd (emit_n D s n t)) v = fst (emit_n D s n t).
Proof. induction n as [|n IH]; intros t v H; simpl; [exact H|]. apply IH. apply emit_run. exact H. Qed.
Lemma canonical_shift_run D k t v : run_v D (snd t) v = fst t ->
  run_v D (snd (canonical_shift D k t)) v = fst (canonical_shift D k t).
Proof. intros H. unfold canonical_shift. destruct (0 <=? _); apply emit_n_run; exact H. Qed.
Lemma sort_step_run D k1 k2 t v : run_v D (snd t) v = fst t ->
  run_v D (snd (sort_step D k1 k2 t)) v = fst (sort_step D k1 k2 t).
Proof. intros H. unfold sort_step. destruct (_ <? _); [apply emit_run|]; exact H. Qed.
Lemma neg_if_negative_run D k t v : run_v D (snd t) v = fst t ->
  run_v D (snd (neg_if_negative D k t)) v = fst (neg_if_negative D k t).
Proof. intros H. unfold neg_if_negative. destruct (_ <? _); [apply emit_run|]; exact H. Qed.
Lemma sign_fix_run D A t v : run_v D (snd t) v = fst t ->
  run_v D (snd (sign_fix D A t)) v = fst (sign_fix D A t).
Proof. intros H. unfold sign_fix. destruct (_ && _); [do 2 apply emit_run|]; exact H. Qed.

Theorem kak_canon_trace_replays : forall D A v, run_v D (kak_canon_steps D A v) v = kak_canon_v D A v.
Proof.
  intros D A v. unfold kak_canon_steps, kak_canon_v, kak_canon.
  apply sign_fix_run, canonical_shift_run, neg_if_negative_run, neg_if_negative_run.
  unfold sort3. apply sort_step_run, sort_step_run, sort_step_run.
  apply canonical_shift_run, canonical_shift_run, canonical_shift_run. reflexivity.
Qed.

(* closed form of canonical_shift on the vector *)
Definition cs (D a : Z) : Z := a + 2 * D * shift_count D a.

Lemma emit_n_shift D k up n : forall t,
  fst (emit_n D (Shift k up) n t) = vset (fst t) k (vget (fst t) k + (if up then 2 * D else - (2 * D)) * Z.of_nat n).
Proof.
  induction n as [|n IH]; intros t.
  - simpl. destruct t as [[[x y] z] tr]. simpl. destruct k as [|[|k]]; simpl; f_equal; try f_equal; lia.
  - cbn [emit_n]. rewrite IH. unfold emit. cbn [fst step_v]. rewrite vget_vset_same, vset_vset_same.
    f_equal. lia.
Qed.
Lemma canonical_shift_fst D k t : fst (canonical_shift D k t) = vset (fst t) k (cs D (vget (fst t) k)).
Proof.
  unfold canonical_shift, cs. set (c := shift_count D (vget (fst t) k)).
  destruct (0 <=? c) eqn:E; rewrite emit_n_shift; f_equal.
  - apply Z.leb_le in E. rewrite Z2Nat.id by exact E. lia.
  - apply Z.leb_gt in E. rewrite Z2Nat.id by lia. lia.
Qed.
Lemma cs_range D a : 0 < D -> - D < cs D a <= D.
Proof.
  intros HD. unfold cs, shift_count.
  pose proof (Z.div_mod (D - a) (2 * D) ltac:(lia)) as E.
  pose proof (Z.mod_pos_bound (D - a) (2 * D) ltac:(lia)) as B. lia.
Qed.
Lemma cs_id D a : - D < a <= D -> cs D a = a.
Proof. intros H. unfold cs, shift_count. rewrite Z.div_small by lia. lia. Qed.
Lemma cs_negD D : 0 < D -> cs D (- D) = D.
Proof.
  intros H. unfold cs, shift_count. replace (D - - D) with (1 * (2 * D)) by lia.
  rewrite Z.div_mul by lia. lia.
Qed.

(* the routine on vectors, as nested conditionals *)
Definition sw01 (v : vec3) : vec3 := let '(x, y, z) := v in if Z.abs x <? Z.abs y then (y, x, z) else (x, y, z).
Definition sw12 (v : vec3) : vec3 := let '(x, y, z) := v in if Z.abs y <? Z.abs z then (x, z, y) else (x, y, z).
Definition ng0 (v : vec3) : vec3 := let '(x, y, z) := v in if x <? 0 then (- x, y, - z) else (x, y, z).
Definition ng1 (v : vec3) : vec3 := let '(x, y, z) := v in if y <? 0 then (x, - y, - z) else (x, y, z).
Definition cs2 (D : Z) (v : vec3) : vec3 := let '(x, y, z) := v in (x, y, cs D z).
Definition fixv (D A : Z) (v : vec3) : vec3 :=
  let '(x, y, z) := v in if (D - A <? x) && (z <? 0) then (2 * D - x, y, - z) else (x, y, z).
Definition canon_closed (D A : Z) (v : vec3) : vec3 :=
  let '(x, y, z) := v in fixv D A (cs2 D (ng1 (ng0 (sw01 (sw12 (sw01 (cs D x, cs D y, cs D z))))))).

Lemma sort01_fst D t : fst (sort_step D 0 1 t) = sw01 (fst t).
Proof. unfold sort_step, sw01. destruct t as [[[x y] z] tr]. cbn [fst vget]. destruct (_ <? _); reflexivity. Qed.
Lemma sort12_fst D t : fst (sort_step D 1 2 t) = sw12 (fst t).
Proof. unfold sort_step, sw12. destruct t as [[[x y] z] tr]. cbn [fst vget]. destruct (_ <? _); reflexivity. Qed.
Lemma neg0_fst D t : fst (neg_if_negative D 0 t) = ng0 (fst t).
Proof. unfold neg_if_negative, ng0. destruct t as [[[x y] z] tr]. cbn [fst vget]. destruct (_ <? _); reflexivity. Qed.
Lemma neg1_fst D t : fst (neg_if_negative D 1 t) = ng1 (fst t).
Proof. unfold neg_if_negative, ng1. destruct t as [[[x y] z] tr]. cbn [fst vget]. destruct (_ <? _); reflexivity. Qed.
Lemma fix_fst D A t : fst (sign_fix D A t) = fixv D A (fst t).
Proof.
  unfold sign_fix, fixv. destruct t as [[[x y] z] tr]. cbn [fst vget]. destruct (_ && _); [|reflexivity].
  unfold emit. cbn [fst step_v vget vset]. replace (- (x + - (2 * D))) with (2 * D - x) by lia. reflexivity.
Qed.

Lemma kak_canon_closed D A v : kak_canon_v D A v = canon_closed D A v.
Proof.
  destruct v as [[x y] z]. unfold kak_canon_v, kak_canon, canon_closed.
  rewrite fix_fst, canonical_shift_fst, neg1_fst, neg0_fst. unfold sort3.
  rewrite sort01_fst, sort12_fst, sort01_fst, !canonical_shift_fst. cbn [fst vget vset].
  destruct (ng1 _) as [[a b] c]. reflexivity.
Qed.

Ltac zb :=
  repeat match goal with
         | H : (_ <? _) = true |- _ => apply Z.ltb_lt in H
         | H : (_ <? _) = false |- _ => apply Z.ltb_ge in H
         | H : (_ && _) = true |- _ => apply andb_true_iff in H; destruct H
         end.

Lemma sw01_cases x y z : (sw01 (x, y, z) = (y, x, z) /\ Z.abs x < Z.abs y) \/ (sw01 (x, y, z) = (x, y, z) /\ Z.abs y <= Z.abs x).
Proof. unfold sw01. destruct (_ <? _) eqn:E; zb; [left|right]; split; auto. Qed.
Lemma sw12_cases x y z : (sw12 (x, y, z) = (x, z, y) /\ Z.abs y < Z.abs z) \/ (sw12 (x, y, z) = (x, y, z) /\ Z.abs z <= Z.abs y).
Proof. unfold sw12. destruct (_ <? _) eqn:E; zb; [left|right]; split; auto. Qed.
Lemma ng0_cases x y z : (ng0 (x, y, z) = (- x, y, - z) /\ x < 0) \/ (ng0 (x, y, z) = (x, y, z) /\ 0 <= x).
Proof. unfold ng0. destruct (_ <? _) eqn:E; zb; [left|right]; split; auto. Qed.
Lemma ng1_cases x y z : (ng1 (x, y, z) = (x, - y, - z) /\ y < 0) \/ (ng1 (x, y, z) = (x, y, z) /\ 0 <= y).
Proof. unfold ng1. destruct (_ <? _) eqn:E; zb; [left|right]; split; auto. Qed.

(* the state before the final sign fix: sorted, x and y non-negative, all in (-pi/4, pi/4] *)
Lemma before_fix D x y z : 0 < D -> - D < x <= D -> - D < y <= D -> - D < z <= D ->
  let '(a, b, c) := cs2 D (ng1 (ng0 (sw01 (sw12 (sw01 (x, y, z)))))) in
  Z.abs c <= b /\ b <= a /\ a <= D /\ - D < c.
Proof.
  intros HD Hx Hy Hz.
  destruct (sw01_cases x y z) as [[-> H1]|[-> H1]];
  match goal with |- context [sw12 (?a, ?b, ?c)] => destruct (sw12_cases a b c) as [[-> H2]|[-> H2]] end;
  match goal with |- context [sw01 (?a, ?b, ?c)] => destruct (sw01_cases a b c) as [[-> H3]|[-> H3]] end;
  match goal with |- context [ng0 (?a, ?b, ?c)] => destruct (ng0_cases a b c) as [[-> H4]|[-> H4]] end;
  match goal with |- context [ng1 (?a, ?b, ?c)] => destruct (ng1_cases a b c) as [[-> H5]|[-> H5]] end;
  unfold cs2;
  match goal with |- context [cs D ?c] =>
    destruct (Z.eq_dec c (- D)) as [Ec|Ec];
    [ rewrite Ec, (cs_negD D HD) | rewrite (cs_id D c) by lia ] end; lia.
Qed.

(* D: the canonical Weyl chamber is reached for EVERY input (any denominator D, any atol A > 0):
   |z| <= y <= x,  x < pi/4 + atol,  and z >= 0 whenever x is within atol of pi/4 *)
Theorem kak_canon_in_chamber : forall D A v, 0 < D -> 0 < A ->
  in_chamber D (A - 1) A (kak_canon_v D A v).
Proof.
  intros D A [[x y] z] HD HA. rewrite kak_canon_closed. unfold canon_closed.
  pose proof (before_fix D _ _ _ HD (cs_range D x HD) (cs_range D y HD) (cs_range D z HD)) as H.
  destruct (cs2 D _) as [[a b] c]. destruct H as (H1 & H2 & H3 & H4).
  unfold fixv, in_chamber.
  destruct ((D - A <? a) && (c <? 0)) eqn:E.
  - zb. lia.
  - apply andb_false_iff in E. destruct E as [E|E]; zb; lia.
Qed.

(* the documented form EXACTLY (x <= pi/4, and x = pi/4 -> z >= 0) when atol is below the resolution of
   the inputs (no representable coefficient lies strictly between pi/4 - atol and pi/4) *)
Theorem kak_canon_in_chamber_exact : forall D v, 0 < D ->
  let '(x, y, z) := kak_canon_v D 1 v in
  0 <= Z.abs z /\ Z.abs z <= y /\ y <= x /\ x <= D /\ (x = D -> 0 <= z).
Proof.
  intros D v HD. pose proof (kak_canon_in_chamber D 1 v HD ltac:(lia)) as H.
  unfold in_chamber in H. destruct (kak_canon_v D 1 v) as [[x y] z]. lia.
Qed.

(* refuted: "x2 <= pi/4" for every input and every atol.  The final sign fix maps x in (pi/4 - atol, pi/4)
   to pi/2 - x in (pi/4, pi/4 + atol). *)
Theorem kak_canon_x_le_quarter_pi_refuted : exists D A v, 0 < D /\ 0 < A /\
  D < vget (kak_canon_v D A v) 0.
Proof.
  exists 1000, 10, (995, 300, -300).
  assert (E : kak_canon_v 1000 10 (995, 300, -300) = (1005, 300, 300)) by (vm_compute; reflexivity).
  rewrite E. cbn [vget]. lia.
Qed.

(* without the final sign fix the documented form fails (the mutation of Appendix G): witness CZ-class
   coefficients (pi/4, 0.3, -0.3) *)
Definition kak_canon_nofix (D : Z) (v : vec3) : vec3 :=
  fst (canonical_shift D 2 (neg_if_negative D 1 (neg_if_negative D 0 (sort3 D
        (canonical_shift D 2 (canonical_shift D 1 (canonical_shift D 0 (v, [])))))))).
Theorem sign_fix_is_needed : exists D A v, 0 < D /\ 0 < A /\ ~ in_chamber D (A - 1) A (kak_canon_nofix D v).
Proof.
  exists 1000, 1, (1000, 300, -300).
  assert (E : kak_canon_nofix 1000 (1000, 300, -300) = (1000, 300, -300)) by (vm_compute; reflexivity).
  rewrite E. unfold in_chamber. lia.
Qed.

(* the result is a fixed point, and in_chamber_b decides in_chamber *)
Theorem in_chamber_b_sound : forall D s A v, in_chamber_b D s A v = true -> in_chamber D s A v.
Proof.
  intros D s A [[x y] z] H. unfold in_chamber_b in H. unfold in_chamber.
  apply andb_true_iff in H. destruct H as [H H4]. apply andb_true_iff in H. destruct H as [H H3].
  apply andb_true_iff in H. destruct H as [H1 H2].
  apply Z.leb_le in H1, H2, H3. apply orb_true_iff in H4.
  repeat split; lia.
Qed.

(* every emitted step is one the bookkeeping understands: indices below 3, pairs distinct *)
Lemma emit_wf D s t : well_formed_step s = true -> forallb well_formed_step (snd t) = true ->
  forallb well_formed_step (snd (emit D s t)) = true.
Proof. intros Hs Ht. unfold emit. simpl. rewrite forallb_app, Ht. simpl. rewrite Hs. reflexivity. Qed.
Lemma emit_n_wf D s n : forall t, well_formed_step s = true -> forallb well_formed_step (snd t) = true ->
  forallb well_formed_step (snd (emit_n D s n t)) = true.
Proof. induction n as [|n IH]; intros t Hs Ht; simpl; [exact Ht|]. apply IH; [exact Hs|]. apply emit_wf; assumption. Qed.
Theorem kak_canon_steps_wf : forall D A v, forallb well_formed_step (kak_canon_steps D A v) = true.
Proof.
  intros D A v. unfold kak_canon_steps, kak_canon.
  assert (CS : forall k t, (k < 3)%nat -> forallb well_formed_step (snd t) = true ->
                      forallb well_formed_step (snd (canonical_shift D k t)) = true).
  { intros k t Hk Ht. unfold canonical_shift. destruct (0 <=? _); apply emit_n_wf; try exact Ht;
      simpl; apply Nat.ltb_lt; exact Hk. }
  assert (SS : forall k1 k2 t, well_formed_step (Swap k1 k2) = true -> forallb well_formed_step (snd t) = true ->
                      forallb well_formed_step (snd (sort_step D k1 k2 t)) = true).
  { intros k1 k2 t Hk Ht. unfold sort_step. destruct (_ <? _); [apply emit_wf|]; assumption. }
  assert (NN : forall k t, well_formed_step (Negate k 2) = true -> forallb well_formed_step (snd t) = true ->
                      forallb well_formed_step (snd (neg_if_negative D k t)) = true).
  { intros k t Hk Ht. unfold neg_if_negative. destruct (_ <? _); [apply emit_wf|]; assumption. }
  unfold sign_fix. match goal with |- context [if ?c then _ else _] => destruct c end.
  - apply emit_wf; [reflexivity|]. apply emit_wf; [reflexivity|].
    apply CS; [lia|]. apply NN; [reflexivity|]. apply NN; [reflexivity|]. unfold sort3.
    apply SS; [reflexivity|]. apply SS; [reflexivity|]. apply SS; [reflexivity|].
    apply CS; [lia|]. apply CS; [lia|]. apply CS; [lia|]. reflexivity.
  - apply CS; [lia|]. apply NN; [reflexivity|]. apply NN; [reflexivity|]. unfold sort3.
    apply SS; [reflexivity|]. apply SS; [reflexivity|]. apply SS; [reflexivity|].
    apply CS; [lia|]. apply CS; [lia|]. apply CS; [lia|]. reflexivity.
Qed.
Close Scope Z_scope.

(* ------------------------------------------------------------------------------------------ *)
(* validators                                                                                  *)
(* ------------------------------------------------------------------------------------------ *)
Lemma list_eqb_sound {A} (e : A -> A -> bool) : (forall a b, e a b = true -> a = b) ->
  forall l m, list_eqb e l m = true -> l = m.
Proof.
  intros He l. induction l as [|x l IH]; intros [|y m] H; simpl in H; try discriminate; [reflexivity|].
  apply andb_true_iff in H. destruct H as [H1 H2]. f_equal; [apply He, H1 | apply IH, H2].
Qed.

Section Validators.
  Context {K : Type} (O : Ops K) (eqb : K -> K -> bool) (eqb_sound : forall a b, eqb a b = true -> a = b).

  Lemma meqb_sound a b : meqb eqb a b = true -> a = b.
  Proof. apply list_eqb_sound. apply list_eqb_sound. exact eqb_sound. Qed.
  Theorem reconstructs_sound sh ops U : reconstructs_b O eqb sh ops U = true -> reconstructs O sh ops U.
  Proof. apply meqb_sound. Qed.
  Theorem reconstructs_phase_sound g sh ops U : reconstructs_phase_b O eqb g sh ops U = true -> reconstructs_phase O sh ops U.
  Proof. intros H. exists g. apply meqb_sound. exact H. Qed.
  Theorem factors_sound n fs U : factors_b O eqb n fs U = true -> mprod O n fs = U.
  Proof. apply meqb_sound. Qed.
End Validators.

Lemma count_2q_app a b : count_2q (a ++ b) = count_2q a + count_2q b.
Proof. unfold count_2q. rewrite filter_app, app_length. reflexivity. Qed.
Lemma count_2q_cons o ops : count_2q (o :: ops) = (if Nat.leb 2 (od_arity o) then 1 else 0) + count_2q ops.
Proof. unfold count_2q. cbn [filter]. destruct (Nat.leb 2 (od_arity o)); reflexivity. Qed.
(* the counter counts exactly the operations touching at least two qubits, and within_count bounds them
   and certifies that each of them is one of the permitted entangling gates *)
Theorem count_2q_sound : forall ops bound, within_count ops bound = true ->
  count_2q ops <= bound /\ Forall (fun o => 2 <= od_arity o -> od_native o = true) ops.
Proof.
  intros ops bound H. unfold within_count in H. apply andb_true_iff in H. destruct H as [H1 H2]. split.
  - apply Nat.leb_le. exact H1.
  - unfold all_2q_native in H2. rewrite forallb_forall in H2. apply Forall_forall. intros o Ho Ha.
    specialize (H2 o Ho). apply orb_true_iff in H2. destruct H2 as [H2|H2]; [|exact H2].
    apply Nat.ltb_lt in H2. lia.
Qed.
Theorem count_2q_spec : forall ops, count_2q ops + length (filter (fun o => Nat.ltb (od_arity o) 2) ops) = length ops.
Proof.
  induction ops as [|o ops IH]; [reflexivity|]. rewrite count_2q_cons. cbn [filter length].
  destruct (Nat.leb 2 (od_arity o)) eqn:E.
  - apply Nat.leb_le in E. assert (F : Nat.ltb (od_arity o) 2 = false) by (apply Nat.ltb_ge; lia). rewrite F. lia.
  - apply Nat.leb_gt in E. assert (F : Nat.ltb (od_arity o) 2 = true) by (apply Nat.ltb_lt; lia). rewrite F. cbn [length]. lia.
Qed.

(* ------------------------------------------------------------------------------------------ *)
(* the exact instance: the validators' hypotheses are satisfiable (non-vacuity)                *)
(* ------------------------------------------------------------------------------------------ *)
From Coq Require Import QArith Qcanon.
From VF Require Import Base.K8 Generated.EigenTables Gates.EigenGate.

Lemma k8_eqb_sound : forall a b, k8_eqb a b = true -> a = b.
Proof.
  intros [a0 a1 a2 a3] [b0 b1 b2 b3] H. unfold k8_eqb in H. simpl in H.
  repeat (apply andb_true_iff in H; destruct H as [H ?]).
  f_equal; apply Qc_eq_bool_correct; assumption.
Qed.

Definition k8i := ki K8Ops.
Definition ex_H : gate (K:=K8) := GEig EHPow k8i (kopp K8Ops k8i) (k1 K8Ops).
Definition ex_CNOT : gate (K:=K8) := GEig ECXPow k8i (kopp K8Ops k8i) (k1 K8Ops).
Definition ex_CZ : gate (K:=K8) := GEig ECZPow k8i (kopp K8Ops k8i) (k1 K8Ops).
Definition ex_ops : list (gop (K:=K8)) := [(ex_H, [1]); (ex_CNOT, [0; 1]); (ex_H, [1])]%nat.
Example reconstructs_example : reconstructs K8Ops [2; 2]%nat ex_ops (gate_model K8Ops ex_CZ).
Proof. apply (reconstructs_sound K8Ops k8_eqb k8_eqb_sound). vm_compute. reflexivity. Qed.
Example reconstructs_example_rejects :
  reconstructs_b K8Ops k8_eqb [2; 2]%nat [(ex_H, [1]); (ex_CNOT, [1; 0]); (ex_H, [1])]%nat (gate_model K8Ops ex_CZ) = false.
Proof. vm_compute. reflexivity. Qed.
Example count_example :
  within_count [mkOp 1 false; mkOp 2 true; mkOp 1 false; mkOp 2 true; mkOp 1 false] 3 = true /\
  within_count [mkOp 2 true; mkOp 2 true; mkOp 2 true; mkOp 2 true] 3 = false /\
  within_count [mkOp 2 false] 3 = false.
Proof. vm_compute. repeat split. Qed.
Example chamber_example : in_chamber 1000%Z 0%Z 1%Z (kak_canon_v 1000%Z 1%Z (3700, -1000, 2250)%Z).
Proof. apply in_chamber_b_sound. vm_compute. reflexivity. Qed.
