(* C15 — proofs about the model of kak_canonicalize_vector and the validators. *)
From Coq Require Import ZArith List Bool Arith Lia Ring.
From VF Require Import Base.RingOps Base.Mat Base.Tensor Base.Harness Gates.GateSpecs Gates.Families Gates.MatTac Sim.Ref
  Xform.KakCanon.
Import ListNotations.

(* ------------------------------------------------------------------------------------------ *)
(* vector level                                                                                *)
(* ------------------------------------------------------------------------------------------ *)
Open Scope Z_scope.

Lemma vget_vset_same v k a : vget (vset v k a) k = a.
Proof. destruct v as [[x y] z]. destruct k as [|[|k]]; reflexivity. Qed.
Lemma vset_vset_same v k a b : vset (vset v k a) k b = vset v k b.
Proof. destruct v as [[x y] z]. destruct k as [|[|k]]; reflexivity. Qed.

(* the trace is a faithful record: replaying it on the input gives the vector the routine holds *)
Lemma emit_run D s t v : run_v D (snd t) v = fst t -> run_v D (snd (emit D s t)) v = fst (emit D s t).
Proof. intros H. unfold emit, run_v in *. simpl. rewrite fold_left_app. simpl. rewrite H. reflexivity. Qed.
Lemma emit_n_run D s n : forall t v, run_v D (snd t) v = fst t -> run_v D (snd (emit_n D s n t)) v = fst (emit_n D s n t).
Proof. induction n as [|n IH]; intros t v H; simpl; [exact H|]. apply IH. apply emit_run. exact H. Qed.
Lemma canonical_shift_run D k t v : run_v D (snd t) v = fst t ->
  run_v D (snd (canonical_shift D k t)) v = fst (canonical_shift D k t).
Proof. intros H. unfold canonical_shift. destruct (0 <=? _); apply emit_n_run; exact H. Qed.
Lemma sort_step_run D k1 k2 t v : run_v D (snd t) v = fst t ->
  run_v D (snd (sort_step D k1 k2 t)) v = fst (sort_step D k1 k2 t).
Proof. intros H. unfold sort_step. destruct (_ <? _); [apply emit_run|]; exact H. Qed.
Lemma neg_if_negative_run D k t v : run_v D (snd t) v = fst t ->
  run_v D (snd (neg_if_negative D k t)) v = fst (neg_if_negative D k t).
Proof. intros H. unfold neg_if_negative. destruct (_ <? _); [apply emit_run|]; exact H. Qed.
Lemma sign_fix_run D A t v : run_v D (snd t) v = fst t ->
  run_v D (snd (sign_fix D A t)) v = fst (sign_fix D A t).
Proof. intros H. unfold sign_fix. destruct (_ && _); [do 2 apply emit_run|]; exact H. Qed.

Theorem kak_canon_trace_replays : forall D A v, run_v D (kak_canon_steps D A v) v = kak_canon_v D A v.
Proof.
  intros D A v. unfold kak_canon_steps, kak_canon_v, kak_canon.
  apply sign_fix_run, canonical_shift_run, neg_if_negative_run, neg_if_negative_run.
  unfold sort3. apply sort_step_run, sort_step_run, sort_step_run.
  apply canonical_shift_run, canonical_shift_run, canonical_shift_run. reflexivity.
Qed.

(* closed form of canonical_shift on the vector *)
Definition cs (D a : Z) : Z := a + 2 * D * shift_count D a.

Lemma emit_n_shift D k up n : forall t,
  fst (emit_n D (Shift k up) n t) = vset (fst t) k (vget (fst t) k + (if up then 2 * D else - (2 * D)) * Z.of_nat n).
Proof.
  induction n as [|n IH]; intros t.
  - simpl. destruct t as [[[x y] z] tr]. simpl. destruct k as [|[|k]]; simpl; f_equal; try f_equal; lia.
  - cbn [emit_n]. rewrite IH. unfold emit. cbn [fst step_v]. rewrite vget_vset_same, vset_vset_same.
    f_equal. lia.
Qed.
Lemma canonical_shift_fst D k t : fst (canonical_shift D k t) = vset (fst t) k (cs D (vget (fst t) k)).
Proof.
  unfold canonical_shift, cs. set (c := shift_count D (vget (fst t) k)).
  destruct (0 <=? c) eqn:E; rewrite emit_n_shift; f_equal.
  - apply Z.leb_le in E. rewrite Z2Nat.id by exact E. lia.
  - apply Z.leb_gt in E. rewrite Z2Nat.id by lia. lia.
Qed.
Lemma cs_range D a : 0 < D -> - D < cs D a <= D.
Proof.
  intros HD. unfold cs, shift_count.
  pose proof (Z.div_mod (D - a) (2 * D) ltac:(lia)) as E.
  pose proof (Z.mod_pos_bound (D - a) (2 * D) ltac:(lia)) as B. lia.
Qed.
Lemma cs_id D a : - D < a <= D -> cs D a = a.
Proof. intros H. unfold cs, shift_count. rewrite Z.div_small by lia. lia. Qed.
Lemma cs_negD D : 0 < D -> cs D (- D) = D.
Proof.
  intros H. unfold cs, shift_count. replace (D - - D) with (1 * (2 * D)) by lia.
  rewrite Z.div_mul by lia. lia.
Qed.

(* the routine on vectors, as nested conditionals *)
Definition sw01 (v : vec3) : vec3 := let '(x, y, z) := v in if Z.abs x <? Z.abs y then (y, x, z) else (x, y, z).
Definition sw12 (v : vec3) : vec3 := let '(x, y, z) := v in if Z.abs y <? Z.abs z then (x, z, y) else (x, y, z).
Definition ng0 (v : vec3) : vec3 := let '(x, y, z) := v in if x <? 0 then (- x, y, - z) else (x, y, z).
Definition ng1 (v : vec3) : vec3 := let '(x, y, z) := v in if y <? 0 then (x, - y, - z) else (x, y, z).
Definition cs2 (D : Z) (v : vec3) : vec3 := let '(x, y, z) := v in (x, y, cs D z).
Definition fixv (D A : Z) (v : vec3) : vec3 :=
  let '(x, y, z) := v in if (D - A <? x) && (z <? 0) then (2 * D - x, y, - z) else (x, y, z).
Definition canon_closed (D A : Z) (v : vec3) : vec3 :=
  let '(x, y, z) := v in fixv D A (cs2 D (ng1 (ng0 (sw01 (sw12 (sw01 (cs D x, cs D y, cs D z))))))).

Lemma sort01_fst D t : fst (sort_step D 0 1 t) = sw01 (fst t).
Proof. unfold sort_step, sw01. destruct t as [[[x y] z] tr]. cbn [fst vget]. destruct (_ <? _); reflexivity. Qed.
Lemma sort12_fst D t : fst (sort_step D 1 2 t) = sw12 (fst t).
Proof. unfold sort_step, sw12. destruct t as [[[x y] z] tr]. cbn [fst vget]. destruct (_ <? _); reflexivity. Qed.
Lemma neg0_fst D t : fst (neg_if_negative D 0 t) = ng0 (fst t).
Proof. unfold neg_if_negative, ng0. destruct t as [[[x y] z] tr]. cbn [fst vget]. destruct (_ <? _); reflexivity. Qed.
Lemma neg1_fst D t : fst (neg_if_negative D 1 t) = ng1 (fst t).
Proof. unfold neg_if_negative, ng1. destruct t as [[[x y] z] tr]. cbn [fst vget]. destruct (_ <? _); reflexivity. Qed.
Lemma fix_fst D A t : fst (sign_fix D A t) = fixv D A (fst t).
Proof.
  unfold sign_fix, fixv. destruct t as [[[x y] z] tr]. cbn [fst vget]. destruct (_ && _); [|reflexivity].
  unfold emit. cbn [fst step_v vget vset]. replace (- (x + - (2 * D))) with (2 * D - x) by lia. reflexivity.
Qed.

Lemma kak_canon_closed D A v : kak_canon_v D A v = canon_closed D A v.
Proof.
  destruct v as [[x y] z]. unfold kak_canon_v, kak_canon, canon_closed.
  rewrite fix_fst, canonical_shift_fst, neg1_fst, neg0_fst. unfold sort3.
  rewrite sort01_fst, sort12_fst, sort01_fst, !canonical_shift_fst. cbn [fst vget vset].
  destruct (ng1 _) as [[a b] c]. reflexivity.
Qed.

Ltac zb :=
  repeat match goal with
         | H : (_ <? _) = true |- _ => apply Z.ltb_lt in H
         | H : (_ <? _) = false |- _ => apply Z.ltb_ge in H
         | H : (_ && _) = true |- _ => apply andb_true_iff in H; destruct H
         end.

Lemma sw01_cases x y z : (sw01 (x, y, z) = (y, x, z) /\ Z.abs x < Z.abs y) \/ (sw01 (x, y, z) = (x, y, z) /\ Z.abs y <= Z.abs x).
Proof. unfold sw01. destruct (_ <? _) eqn:E; zb; [left|right]; split; auto. Qed.
Lemma sw12_cases x y z : (sw12 (x, y, z) = (x, z, y) /\ Z.abs y < Z.abs z) \/ (sw12 (x, y, z) = (x, y, z) /\ Z.abs z <= Z.abs y).
Proof. unfold sw12. destruct (_ <? _) eqn:E; zb; [left|right]; split; auto. Qed.
Lemma ng0_cases x y z : (ng0 (x, y, z) = (- x, y, - z) /\ x < 0) \/ (ng0 (x, y, z) = (x, y, z) /\ 0 <= x).
Proof. unfold ng0. destruct (_ <? _) eqn:E; zb; [left|right]; split; auto. Qed.
Lemma ng1_cases x y z : (ng1 (x, y, z) = (x, - y, - z) /\ y < 0) \/ (ng1 (x, y, z) = (x, y, z) /\ 0 <= y).
Proof. unfold ng1. destruct (_ <? _) eqn:E; zb; [left|right]; split; auto. Qed.

(* the state before the final sign fix: sorted, x and y non-negative, all in (-pi/4, pi/4] *)
Lemma before_fix D x y z : 0 < D -> - D < x <= D -> - D < y <= D -> - D < z <= D ->
  let '(a, b, c) := cs2 D (ng1 (ng0 (sw01 (sw12 (sw01 (x, y, z)))))) in
  Z.abs c <= b /\ b <= a /\ a <= D /\ - D < c.
Proof.
  intros HD Hx Hy Hz.
  destruct (sw01_cases x y z) as [[-> H1]|[-> H1]];
  match goal with |- context [sw12 (?a, ?b, ?c)] => destruct (sw12_cases a b c) as [[-> H2]|[-> H2]] end;
  match goal with |- context [sw01 (?a, ?b, ?c)] => destruct (sw01_cases a b c) as [[-> H3]|[-> H3]] end;
  match goal with |- context [ng0 (?a, ?b, ?c)] => destruct (ng0_cases a b c) as [[-> H4]|[-> H4]] end;
  match goal with |- context [ng1 (?a, ?b, ?c)] => destruct (ng1_cases a b c) as [[-> H5]|[-> H5]] end;
  unfold cs2;
  match goal with |- context [cs D ?c] =>
    destruct (Z.eq_dec c (- D)) as [Ec|Ec];
    [ rewrite Ec, (cs_negD D HD) | rewrite (cs_id D c) by lia ] end; lia.
Qed.

(* D: the canonical Weyl chamber is reached for EVERY input (any denominator D, any atol A > 0):
   |z| <= y <= x,  x < pi/4 + atol,  and z >= 0 whenever x is within atol of pi/4 *)
Theorem kak_canon_in_chamber : forall D A v, 0 < D -> 0 < A ->
  in_chamber D (A - 1) A (kak_canon_v D A v).
Proof.
  intros D A [[x y] z] HD HA. rewrite kak_canon_closed. unfold canon_closed.
  pose proof (before_fix D _ _ _ HD (cs_range D x HD) (cs_range D y HD) (cs_range D z HD)) as H.
  destruct (cs2 D _) as [[a b] c]. destruct H as (H1 & H2 & H3 & H4).
  unfold fixv, in_chamber.
  destruct ((D - A <? a) && (c <? 0)) eqn:E.
  - zb. lia.
  - apply andb_false_iff in E. destruct E as [E|E]; zb; lia.
Qed.

(* the documented form EXACTLY (x <= pi/4, and x = pi/4 -> z >= 0) when atol is below the resolution of
   the inputs (no representable coefficient lies strictly between pi/4 - atol and pi/4) *)
Theorem kak_canon_in_chamber_exact : forall D v, 0 < D ->
  let '(x, y, z) := kak_canon_v D 1 v in
  0 <= Z.abs z /\ Z.abs z <= y /\ y <= x /\ x <= D /\ (x = D -> 0 <= z).
Proof.
  intros D v HD. pose proof (kak_canon_in_chamber D 1 v HD ltac:(lia)) as H.
  unfold in_chamber in H. destruct (kak_canon_v D 1 v) as [[x y] z]. lia.
Qed.

(* refuted: "x2 <= pi/4" for every input and every atol.  The final sign fix maps x in (pi/4 - atol, pi/4)
   to pi/2 - x in (pi/4, pi/4 + atol). *)
Theorem kak_canon_x_le_quarter_pi_refuted : exists D A v, 0 < D /\ 0 < A /\
  D < vget (kak_canon_v D A v) 0.
Proof.
  exists 1000, 10, (995, 300, -300).
  assert (E : kak_canon_v 1000 10 (995, 300, -300) = (1005, 300, 300)) by (vm_compute; reflexivity).
  rewrite E. cbn [vget]. lia.
Qed.

(* without the final sign fix the documented form fails (the mutation of Appendix G): witness CZ-class
   coefficients (pi/4, 0.3, -0.3) *)
Definition kak_canon_nofix (D : Z) (v : vec3) : vec3 :=
  fst (canonical_shift D 2 (neg_if_negative D 1 (neg_if_negative D 0 (sort3 D
        (canonical_shift D 2 (canonical_shift D 1 (canonical_shift D 0 (v, [])))))))).
Theorem sign_fix_is_needed : exists D A v, 0 < D /\ 0 < A /\ ~ in_chamber D (A - 1) A (kak_canon_nofix D v).
Proof.
  exists 1000, 1, (1000, 300, -300).
  assert (E : kak_canon_nofix 1000 (1000, 300, -300) = (1000, 300, -300)) by (vm_compute; reflexivity).
  rewrite E. unfold in_chamber. lia.
Qed.

(* the result is a fixed point, and in_chamber_b decides in_chamber *)
Theorem in_chamber_b_sound : forall D s A v, in_chamber_b D s A v = true -> in_chamber D s A v.
Proof.
  intros D s A [[x y] z] H. unfold in_chamber_b in H. unfold in_chamber.
  apply andb_true_iff in H. destruct H as [H H4]. apply andb_true_iff in H. destruct H as [H H3].
  apply andb_true_iff in H. destruct H as [H1 H2].
  apply Z.leb_le in H1, H2, H3. apply orb_true_iff in H4.
  repeat split; lia.
Qed.

(* every emitted step is one the bookkeeping understands: indices below 3, pairs distinct *)
Lemma emit_wf D s t : well_formed_step s = true -> forallb well_formed_step (snd t) = true ->
  forallb well_formed_step (snd (emit D s t)) = true.
Proof. intros Hs Ht. unfold emit. simpl. rewrite forallb_app, Ht. simpl. rewrite Hs. reflexivity. Qed.
Lemma emit_n_wf D s n : forall t, well_formed_step s = true -> forallb well_formed_step (snd t) = true ->
  forallb well_formed_step (snd (emit_n D s n t)) = true.
Proof. induction n as [|n IH]; intros t Hs Ht; simpl; [exact Ht|]. apply IH; [exact Hs|]. apply emit_wf; assumption. Qed.
Theorem kak_canon_steps_wf : forall D A v, forallb well_formed_step (kak_canon_steps D A v) = true.
Proof.
  intros D A v. unfold kak_canon_steps, kak_canon.
  assert (CS : forall k t, (k < 3)%nat -> forallb well_formed_step (snd t) = true ->
                      forallb well_formed_step (snd (canonical_shift D k t)) = true).
  { intros k t Hk Ht. unfold canonical_shift. destruct (0 <=? _); apply emit_n_wf; try exact Ht;
      simpl; apply Nat.ltb_lt; exact Hk. }
  assert (SS : forall k1 k2 t, well_formed_step (Swap k1 k2) = true -> forallb well_formed_step (snd t) = true ->
                      forallb well_formed_step (snd (sort_step D k1 k2 t)) = true).
  { intros k1 k2 t Hk Ht. unfold sort_step. destruct (_ <? _); [apply emit_wf|]; assumption. }
  assert (NN : forall k t, well_formed_step (Negate k 2) = true -> forallb well_formed_step (snd t) = true ->
                      forallb well_formed_step (snd (neg_if_negative D k t)) = true).
  { intros k t Hk Ht. unfold neg_if_negative. destruct (_ <? _); [apply emit_wf|]; assumption. }
  unfold sign_fix. match goal with |- context [if ?c then _ else _] => destruct c end.
  - apply emit_wf; [reflexivity|]. apply emit_wf; [reflexivity|].
    apply CS; [lia|]. apply NN; [reflexivity|]. apply NN; [reflexivity|]. unfold sort3.
    apply SS; [reflexivity|]. apply SS; [reflexivity|]. apply SS; [reflexivity|].
    apply CS; [lia|]. apply CS; [lia|]. apply CS; [lia|]. reflexivity.
  - apply CS; [lia|]. apply NN; [reflexivity|]. apply NN; [reflexivity|]. unfold sort3.
    apply SS; [reflexivity|]. apply SS; [reflexivity|]. apply SS; [reflexivity|].
    apply CS; [lia|]. apply CS; [lia|]. apply CS; [lia|]. reflexivity.
Qed.
Close Scope Z_scope.

(* ------------------------------------------------------------------------------------------ *)
(* the single-qubit corrections recorded along the trace (generic ring)                        *)
(* ------------------------------------------------------------------------------------------ *)
Section StepsLocal.
  Context {K : Type} (O : Ops K) (L : Laws O).
  Add Ring Kring : (law_ring O L).
  Infix "+" := (kadd O). Infix "*" := (kmul O). Infix "-" := (ksub O).
  Notation "- a" := (kopp O a).
  Notation z0 := (k0 O). Notation z1 := (k1 O). Notation hf := (khalf O). Notation ii := (ki O). Notation s2 := (ks2 O).
  Notation M := (matrix (K:=K)).
  Lemma half2d : (z1 + z1) * hf = z1.
  Proof. transitivity (hf + hf); [ring | exact (law_half O L)]. Qed.
  Lemma s22d : s2 * s2 = hf. Proof. exact (law_s2 O L). Qed.
  Lemma cancel2d a b : (z1 + z1) * a = (z1 + z1) * b -> a = b.
  Proof. intros H. transitivity (hf * ((z1 + z1) * a)); [ring [half2d]|]. rewrite H. ring [half2d]. Qed.
  Lemma ii2d : ii * ii = - z1. Proof. exact (law_i O L). Qed.
  Ltac close := first [ ring [ii2d] | ring [half2d s22d ii2d] | do 2 apply cancel2d; ring [half2d s22d ii2d]
                      | do 4 apply cancel2d; ring [half2d s22d ii2d] ].
  Notation T3 x0 y0 x1 y1 x2 y2 := (((x0, y0), (x1, y1), (x2, y2)) : trig3).

  (* closed form of exp(i(x XX + y YY + z ZZ)): X-shaped *)
  Definition ilit (t : trig3 (K:=K)) : M :=
    let '((c0, s0), (c1, s1), (c2, s2')) := t in
    let a := c2 + ii * s2' in let b := c2 - ii * s2' in
    let p := c0 * c1 + s0 * s1 in let q := c0 * c1 - s0 * s1 in
    let u := ii * (s0 * c1 - c0 * s1) in let v := ii * (s0 * c1 + c0 * s1) in
    [[a * p; z0; z0; a * u]; [z0; b * q; b * v; z0]; [z0; b * v; b * q; z0]; [a * u; z0; z0; a * p]].
  Lemma interaction_lit x0 y0 x1 y1 x2 y2 : interaction O (T3 x0 y0 x1 y1 x2 y2) = ilit (T3 x0 y0 x1 y1 x2 y2).
  Proof. mat_entries ltac:(ring [ii2d]). Qed.

  (* ---- each primitive step of the canonicaliser is a local identity (all cos/sin values, generic ring) ---- *)
  Lemma shift_core x0 y0 x1 y1 x2 y2 k up : (k < 3)%nat ->
    mmul O (interaction O (step_trig O (Shift k up) (T3 x0 y0 x1 y1 x2 y2))) (kron O (flip_pow O k up) (flip_pow O k up))
    = mscale O (if up then - ii else ii) (interaction O (T3 x0 y0 x1 y1 x2 y2)).
  Proof.
    intros Hk. rewrite (interaction_lit x0 y0 x1 y1 x2 y2).
    destruct k as [|[|[|k]]]; [| | |lia]; destruct up; cbn [step_trig tget tset]; rewrite interaction_lit; mat_entries ltac:(ring [ii2d]).
  Qed.
  Lemma negate_core x0 y0 x1 y1 x2 y2 k1 k2 : well_formed_step (Negate k1 k2) = true ->
    mmul O (kron O (flipper O (other k1 k2)) (mid O 2))
         (mmul O (interaction O (step_trig O (Negate k1 k2) (T3 x0 y0 x1 y1 x2 y2))) (kron O (flipper O (other k1 k2)) (mid O 2)))
    = mscale O (- z1) (interaction O (T3 x0 y0 x1 y1 x2 y2)).
  Proof.
    intros H. rewrite (interaction_lit x0 y0 x1 y1 x2 y2).
    destruct k1 as [|[|[|k1]]]; destruct k2 as [|[|[|k2]]]; try discriminate H;
      cbn [step_trig tget tset fst snd]; rewrite interaction_lit; mat_entries ltac:(ring [ii2d]).
  Qed.
  Lemma swap_core x0 y0 x1 y1 x2 y2 k1 k2 : well_formed_step (Swap k1 k2) = true ->
    mmul O (kron O (swapper O (other k1 k2)) (swapper O (other k1 k2)))
         (mmul O (interaction O (step_trig O (Swap k1 k2) (T3 x0 y0 x1 y1 x2 y2))) (kron O (swapper O (other k1 k2)) (swapper O (other k1 k2))))
    = interaction O (T3 x0 y0 x1 y1 x2 y2).
  Proof.
    intros H. rewrite (interaction_lit x0 y0 x1 y1 x2 y2).
    destruct k1 as [|[|[|k1]]]; destruct k2 as [|[|[|k2]]]; try discriminate H;
      cbn [step_trig tget tset fst snd]; rewrite interaction_lit; mat_entries close.
  Qed.

  (* ---- lifting to the recorded single-qubit corrections: matrices of known shape ---- *)
  Definition is22 (m : M) : Prop := exists a b c d, m = [[a; b]; [c; d]].
  Definition is44 (m : M) : Prop :=
    exists a0 a1 a2 a3 b0 b1 b2 b3 c0 c1 c2 c3 d0 d1 d2 d3,
      m = [[a0; a1; a2; a3]; [b0; b1; b2; b3]; [c0; c1; c2; c3]; [d0; d1; d2; d3]].
  Ltac ex22 H := destruct H as (? & ? & ? & ? & ->).
  Ltac ex44 H := destruct H as (? & ? & ? & ? & ? & ? & ? & ? & ? & ? & ? & ? & ? & ? & ? & ? & ->).
  Ltac mk := repeat eexists; reflexivity.
  Lemma is22_mmul a b : is22 a -> is22 b -> is22 (mmul O a b).
  Proof. intros Ha Hb. ex22 Ha. ex22 Hb. mk. Qed.
  Lemma is22_mid : is22 (mid O 2). Proof. mk. Qed.
  Lemma is22_flipper k : is22 (flipper O k). Proof. destruct k as [|[|k]]; mk. Qed.
  Lemma is22_flip_pow k up : is22 (flip_pow O k up). Proof. destruct up; destruct k as [|[|k]]; mk. Qed.
  Lemma is22_swapper k : is22 (swapper O k). Proof. destruct k as [|[|k]]; mk. Qed.
  Lemma is44_kron a b : is22 a -> is22 b -> is44 (kron O a b).
  Proof. intros Ha Hb. ex22 Ha. ex22 Hb. mk. Qed.
  Lemma is44_mmul a b : is44 a -> is44 b -> is44 (mmul O a b).
  Proof. intros Ha Hb. ex44 Ha. ex44 Hb. mk. Qed.
  Lemma is44_mscale c a : is44 a -> is44 (mscale O c a).
  Proof. intros Ha. ex44 Ha. mk. Qed.
  Lemma is44_interaction t : is44 (interaction O t).
  Proof. destruct t as [[[x0 y0] [x1 y1]] [x2 y2]]. rewrite interaction_lit. mk. Qed.
  Hint Resolve is22_mmul is22_mid is22_flipper is22_flip_pow is22_swapper is44_kron is44_mmul is44_mscale is44_interaction : shape.

  Lemma assoc44 a b c : is44 a -> is44 b -> is44 c -> mmul O (mmul O a b) c = mmul O a (mmul O b c).
  Proof. intros Ha Hb Hc. ex44 Ha. ex44 Hb. ex44 Hc. mat_entries ltac:(ring). Qed.
  Lemma kron_mix a b c d : is22 a -> is22 b -> is22 c -> is22 d ->
    kron O (mmul O a b) (mmul O c d) = mmul O (kron O a c) (kron O b d).
  Proof. intros Ha Hb Hc Hd. ex22 Ha. ex22 Hb. ex22 Hc. ex22 Hd. mat_entries ltac:(ring). Qed.
  Lemma mmul_mid_r a : is22 a -> mmul O a (mid O 2) = a.
  Proof. intros Ha. ex22 Ha. mat_entries ltac:(ring). Qed.
  Lemma mmul_mid_l a : is22 a -> mmul O (mid O 2) a = a.
  Proof. intros Ha. ex22 Ha. mat_entries ltac:(ring). Qed.
  Lemma mscale_mmul_l c a b : is44 a -> is44 b -> mmul O (mscale O c a) b = mscale O c (mmul O a b).
  Proof. intros Ha Hb. ex44 Ha. ex44 Hb. mat_entries ltac:(ring). Qed.
  Lemma mscale_mmul_r c a b : is44 a -> is44 b -> mmul O a (mscale O c b) = mscale O c (mmul O a b).
  Proof. intros Ha Hb. ex44 Ha. ex44 Hb. mat_entries ltac:(ring). Qed.
  Lemma mscale_mscale c d a : is44 a -> mscale O c (mscale O d a) = mscale O (c * d) a.
  Proof. intros Ha. ex44 Ha. mat_entries ltac:(ring). Qed.
  Lemma mscale_one a : is44 a -> mscale O z1 a = a.
  Proof. intros Ha. ex44 Ha. mat_entries ltac:(ring). Qed.
  Lemma mmul_id44_l a : is44 a -> mmul O (kron O (mid O 2) (mid O 2)) a = a.
  Proof. intros Ha. ex44 Ha. mat_entries ltac:(ring). Qed.
  Lemma mmul_id44_r a : is44 a -> mmul O a (kron O (mid O 2) (mid O 2)) = a.
  Proof. intros Ha. ex44 Ha. mat_entries ltac:(ring). Qed.

  Definition lit_book (b : book (K:=K)) : Prop := is22 (bk_l0 b) /\ is22 (bk_l1 b) /\ is22 (bk_r0 b) /\ is22 (bk_r1 b).
  Lemma lit_book0 : lit_book (book0 O).
  Proof. repeat split; apply is22_mid. Qed.
  Lemma lit_book_step s b : lit_book b -> lit_book (step_book O s b).
  Proof. intros (H0 & H1 & H2 & H3). destruct s; repeat split; simpl; auto with shape. Qed.

  Ltac sh := auto 8 with shape.
  Theorem step_local s b t : well_formed_step s = true -> lit_book b ->
    implied O (step_book O s b) (step_trig O s t) = implied O b t.
  Proof.
    intros W (H0 & H1 & H2 & H3). destruct t as [[[x0 y0] [x1 y1]] [x2 y2]].
    unfold implied. destruct s as [k up|k1 k2|k1 k2]; cbn [step_book bk_ph bk_l0 bk_l1 bk_r0 bk_r1].
    - (* shift *)
      assert (Hk : (k < 3)%nat) by (apply Nat.ltb_lt; exact W).
      rewrite kron_mix by sh. rewrite <- (assoc44 (interaction O _)) by sh. rewrite shift_core by exact Hk.
      rewrite mscale_mmul_l, mscale_mmul_r, mscale_mscale by sh. f_equal. destruct up; ring [ii2d].
    - (* negate *)
      rewrite <- (mmul_mid_r (bk_l0 b)) at 1 by exact H0. rewrite <- (mmul_mid_l (bk_r0 b)) at 1 by exact H2.
      rewrite !kron_mix by sh.
      rewrite (assoc44 (kron O (bk_l1 b) (bk_l0 b))) by sh.
      rewrite <- (assoc44 (interaction O _)) by sh. rewrite <- (assoc44 (kron O (flipper O _) _)) by sh.
      rewrite negate_core by exact W.
      rewrite mscale_mmul_l, mscale_mmul_r, mscale_mscale by sh. f_equal. ring.
    - (* swap *)
      rewrite !kron_mix by sh.
      rewrite (assoc44 (kron O (bk_l1 b) (bk_l0 b))) by sh.
      rewrite <- (assoc44 (interaction O _)) by sh. rewrite <- (assoc44 (kron O (swapper O _) _)) by sh.
      rewrite swap_core by exact W. reflexivity.
  Qed.

  Definition run_trig (steps : list step) (t : trig3 (K:=K)) : trig3 := fold_left (fun t s => step_trig O s t) steps t.
  Theorem run_local steps : forall b t, forallb well_formed_step steps = true -> lit_book b ->
    implied O (run_book O steps b) (run_trig steps t) = implied O b t.
  Proof.
    induction steps as [|s steps IH]; intros b t W Hb; [reflexivity|].
    simpl in W. apply andb_true_iff in W. destruct W as [Ws W].
    cbn [run_book run_trig fold_left]. fold (run_book O steps (step_book O s b)). fold (run_trig steps (step_trig O s t)).
    rewrite IH by (auto using lit_book_step). apply step_local; assumption.
  Qed.
  Lemma implied_book0 t : implied O (book0 O) t = interaction O t.
  Proof.
    unfold implied, book0. cbn [bk_ph bk_l0 bk_l1 bk_r0 bk_r1].
    rewrite mmul_id44_l, mmul_id44_r, mscale_one by sh. reflexivity.
  Qed.

  (* ---- the whole routine: for any assignment f of (cos, sin) pairs to coefficients that respects the three
     symmetries the routine uses (shift by pi/2 up and down, negation), the recorded decomposition has the
     same matrix as the input interaction ---- *)
  Definition trig_respects (D : Z) (f : Z -> K * K) : Prop :=
    (forall a, f (a + 2 * D)%Z = (- snd (f a), fst (f a))) /\
    (forall a, f (a + - (2 * D))%Z = (snd (f a), - fst (f a))) /\
    (forall a, f (- a)%Z = (fst (f a), - snd (f a))).
  Definition tv (f : Z -> K * K) (v : vec3) : trig3 := let '(x, y, z) := v in (f x, f y, f z).
  Lemma step_trig_follows D f s v : trig_respects D f -> well_formed_step s = true ->
    step_trig O s (tv f v) = tv f (step_v D s v).
  Proof.
    intros (Hu & Hd & Hn) W. destruct v as [[x y] z].
    destruct s as [k up|k1 k2|k1 k2].
    - destruct k as [|[|[|k]]]; try discriminate W; destruct up; cbn [step_trig step_v tv tget tset vget vset];
        rewrite ?Hu, ?Hd; try reflexivity;
        match goal with |- context [f ?a] => destruct (f a) end; reflexivity.
    - destruct k1 as [|[|[|k1]]]; destruct k2 as [|[|[|k2]]]; try discriminate W;
        cbn [step_trig step_v tv tget tset vget vset fst snd]; rewrite !Hn; reflexivity.
    - destruct k1 as [|[|[|k1]]]; destruct k2 as [|[|[|k2]]]; try discriminate W; reflexivity.
  Qed.
  Lemma run_trig_follows D f steps : trig_respects D f -> forall v, forallb well_formed_step steps = true ->
    run_trig steps (tv f v) = tv f (run_v D steps v).
  Proof.
    intros Hf. induction steps as [|s steps IH]; intros v W; [reflexivity|].
    simpl in W. apply andb_true_iff in W. destruct W as [Ws W].
    cbn [run_trig run_v fold_left]. rewrite (step_trig_follows D f s v Hf Ws). apply IH. exact W.
  Qed.
End StepsLocal.

(* D: for EVERY input vector, the decomposition the routine records (phase, left/right single-qubit factors,
   canonical coefficients) has the same matrix as the input interaction exp(i(x XX + y YY + z ZZ)) *)
Theorem kak_canon_steps_local : forall K (O : Ops K), Laws O -> forall D A f v, trig_respects O D f ->
  implied O (run_book O (kak_canon_steps D A v) (book0 O)) (tv f (kak_canon_v D A v)) = interaction O (tv f v).
Proof.
  intros K O L D A f v Hf. rewrite <- kak_canon_trace_replays.
  rewrite <- (run_trig_follows O D f _ Hf v (kak_canon_steps_wf D A v)).
  rewrite (run_local O L) by (try apply kak_canon_steps_wf; apply lit_book0).
  apply (implied_book0 O L).
Qed.

(* ------------------------------------------------------------------------------------------ *)
(* validators                                                                                  *)
(* ------------------------------------------------------------------------------------------ *)
Lemma list_eqb_sound {A} (e : A -> A -> bool) : (forall a b, e a b = true -> a = b) ->
  forall l m, list_eqb e l m = true -> l = m.
Proof.
  intros He l. induction l as [|x l IH]; intros [|y m] H; simpl in H; try discriminate; [reflexivity|].
  apply andb_true_iff in H. destruct H as [H1 H2]. f_equal; [apply He, H1 | apply IH, H2].
Qed.

Section Validators.
  Context {K : Type} (O : Ops K) (eqb : K -> K -> bool) (eqb_sound : forall a b, eqb a b = true -> a = b).

  Lemma meqb_sound a b : meqb eqb a b = true -> a = b.
  Proof. apply list_eqb_sound. apply list_eqb_sound. exact eqb_sound. Qed.
  Theorem reconstructs_sound sh ops U : reconstructs_b O eqb sh ops U = true -> reconstructs O sh ops U.
  Proof. apply meqb_sound. Qed.
  Theorem reconstructs_phase_sound g sh ops U : reconstructs_phase_b O eqb g sh ops U = true -> reconstructs_phase O sh ops U.
  Proof. intros H. exists g. apply meqb_sound. exact H. Qed.
  Theorem factors_sound n fs U : factors_b O eqb n fs U = true -> mprod O n fs = U.
  Proof. apply meqb_sound. Qed.
End Validators.

Lemma count_2q_app a b : count_2q (a ++ b) = count_2q a + count_2q b.
Proof. unfold count_2q. rewrite filter_app, app_length. reflexivity. Qed.
Lemma count_2q_cons o ops : count_2q (o :: ops) = (if Nat.leb 2 (od_arity o) then 1 else 0) + count_2q ops.
Proof. unfold count_2q. cbn [filter]. destruct (Nat.leb 2 (od_arity o)); reflexivity. Qed.
(* the counter counts exactly the operations touching at least two qubits, and within_count bounds them
   and certifies that each of them is one of the permitted entangling gates *)
Theorem count_2q_sound : forall ops bound, within_count ops bound = true ->
  count_2q ops <= bound /\ Forall (fun o => 2 <= od_arity o -> od_native o = true) ops.
Proof.
  intros ops bound H. unfold within_count in H. apply andb_true_iff in H. destruct H as [H1 H2]. split.
  - apply Nat.leb_le. exact H1.
  - unfold all_2q_native in H2. rewrite forallb_forall in H2. apply Forall_forall. intros o Ho Ha.
    specialize (H2 o Ho). apply orb_true_iff in H2. destruct H2 as [H2|H2]; [|exact H2].
    apply Nat.ltb_lt in H2. lia.
Qed.
Theorem count_2q_spec : forall ops, count_2q ops + length (filter (fun o => Nat.ltb (od_arity o) 2) ops) = length ops.
Proof.
  induction ops as [|o ops IH]; [reflexivity|]. rewrite count_2q_cons. cbn [filter length].
  destruct (Nat.leb 2 (od_arity o)) eqn:E.
  - apply Nat.leb_le in E. assert (F : Nat.ltb (od_arity o) 2 = false) by (apply Nat.ltb_ge; lia). rewrite F. lia.
  - apply Nat.leb_gt in E. assert (F : Nat.ltb (od_arity o) 2 = true) by (apply Nat.ltb_lt; lia). rewrite F. cbn [length]. lia.
Qed.

(* ------------------------------------------------------------------------------------------ *)
(* the exact instance: the validators' hypotheses are satisfiable (non-vacuity)                *)
(* ------------------------------------------------------------------------------------------ *)
From Coq Require Import QArith Qcanon.
From VF Require Import Base.K8 Generated.EigenTables Gates.EigenGate.

Lemma k8_eqb_sound : forall a b, k8_eqb a b = true -> a = b.
Proof.
  intros [a0 a1 a2 a3] [b0 b1 b2 b3] H. unfold k8_eqb in H. simpl in H.
  repeat (apply andb_true_iff in H; destruct H as [H ?]).
  f_equal; apply Qc_eq_bool_correct; assumption.
Qed.

Definition k8i := ki K8Ops.
Definition ex_H : gate (K:=K8) := GEig EHPow k8i (kopp K8Ops k8i) (k1 K8Ops).
Definition ex_CNOT : gate (K:=K8) := GEig ECXPow k8i (kopp K8Ops k8i) (k1 K8Ops).
Definition ex_CZ : gate (K:=K8) := GEig ECZPow k8i (kopp K8Ops k8i) (k1 K8Ops).
Definition ex_ops : list (gop (K:=K8)) := [(ex_H, [1]); (ex_CNOT, [0; 1]); (ex_H, [1])]%nat.
Example reconstructs_example : reconstructs K8Ops [2; 2]%nat ex_ops (gate_model K8Ops ex_CZ).
Proof. apply (reconstructs_sound K8Ops k8_eqb k8_eqb_sound). vm_compute. reflexivity. Qed.
Example reconstructs_example_rejects :
  reconstructs_b K8Ops k8_eqb [2; 2]%nat [(ex_H, [1]); (ex_CNOT, [1; 0]); (ex_H, [1])]%nat (gate_model K8Ops ex_CZ) = false.
Proof. vm_compute. reflexivity. Qed.
Example count_example :
  within_count [mkOp 1 false; mkOp 2 true; mkOp 1 false; mkOp 2 true; mkOp 1 false] 3 = true /\
  within_count [mkOp 2 true; mkOp 2 true; mkOp 2 true; mkOp 2 true] 3 = false /\
  within_count [mkOp 2 false] 3 = false.
Proof. vm_compute. repeat split. Qed.
Example chamber_example : in_chamber 1000%Z 0%Z 1%Z (kak_canon_v 1000%Z 1%Z (3700, -1000, 2250)%Z).
Proof. apply in_chamber_b_sound. vm_compute. reflexivity. Qed.

(* the hypothesis of kak_canon_steps_local is satisfiable: cos/sin of multiples of pi/4 in Q(zeta_8) (D = 1) *)
Definition k8s : K8 := ks2 K8Ops.
Definition k8n (x : K8) : K8 := kopp K8Ops x.
Definition f8 (a : Z) : K8 * K8 :=
  match (a mod 8)%Z with
  | 0%Z => (k1 K8Ops, k0 K8Ops) | 1%Z => (k8s, k8s) | 2%Z => (k0 K8Ops, k1 K8Ops) | 3%Z => (k8n k8s, k8s)
  | 4%Z => (k8n (k1 K8Ops), k0 K8Ops) | 5%Z => (k8n k8s, k8n k8s) | 6%Z => (k0 K8Ops, k8n (k1 K8Ops)) | _ => (k8s, k8n k8s)
  end.
Lemma pair_k8_eq (p q : K8 * K8) : k8_eqb (fst p) (fst q) && k8_eqb (snd p) (snd q) = true -> p = q.
Proof.
  destruct p, q. simpl. intros H. apply andb_true_iff in H. destruct H as [H1 H2].
  f_equal; apply k8_eqb_sound; assumption.
Qed.
Lemma mod8_cases a : let r := (a mod 8)%Z in (r = 0 \/ r = 1 \/ r = 2 \/ r = 3 \/ r = 4 \/ r = 5 \/ r = 6 \/ r = 7)%Z.
Proof. intros r. pose proof (Z.mod_pos_bound a 8 ltac:(lia)). subst r. lia. Qed.
Example trig_respects_example : trig_respects K8Ops 1 f8.
Proof.
  repeat split; intros a; unfold f8.
  - rewrite <- Z.add_mod_idemp_l by lia.
    destruct (mod8_cases a) as [H|[H|[H|[H|[H|[H|[H|H]]]]]]]; rewrite H; apply pair_k8_eq; vm_compute; reflexivity.
  - rewrite <- Z.add_mod_idemp_l by lia.
    destruct (mod8_cases a) as [H|[H|[H|[H|[H|[H|[H|H]]]]]]]; rewrite H; apply pair_k8_eq; vm_compute; reflexivity.
  - rewrite (Z.div_mod a 8) at 1 by lia.
    replace (- (8 * (a / 8) + a mod 8))%Z with (- (a mod 8) + (- (a / 8)) * 8)%Z by ring.
    rewrite Z_mod_plus_full.
    destruct (mod8_cases a) as [H|[H|[H|[H|[H|[H|[H|H]]]]]]]; rewrite H; apply pair_k8_eq; vm_compute; reflexivity.
Qed.
