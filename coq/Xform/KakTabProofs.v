(* C15 — proofs about the tabulation decomposition model (Xform/KakTab.v). *)
From Coq Require Import List Bool Ring.
From VF Require Import Base.RingOps Base.Mat Base.Harness Base.K8 Gates.MatTac Xform.KakCanon Xform.KakCanonProofs Xform.KakCount Xform.KakTab.
Import ListNotations.

Section TabRing.
  Context {K : Type} (O : Ops K) (L : Laws O).
  Add Ring Kring4 : (law_ring O L).
  Infix "*" := (kmul O).
  Notation M := (matrix (K:=K)).
  Notation "a @ b" := (mmul O a b) (at level 40, left associativity).

  Lemma is44_id4 : is44 (id4 O).
  Proof. repeat eexists; reflexivity. Qed.
  Lemma is44_tab_step A acc k : is44 A -> is44 acc -> is44 k -> is44 (tab_step O A acc k).
  Proof. intros. unfold tab_step. auto using (is44_mmul O). Qed.
  Lemma is44_fold_step A ks : is44 A -> Forall is44 ks -> forall X, is44 X -> is44 (fold_left (tab_step O A) ks X).
  Proof.
    intros HA Hks. induction Hks as [|k ks Hk Hks IH]; intros X HX; simpl; [exact HX|].
    apply IH. apply is44_tab_step; assumption.
  Qed.
  Lemma is44_tab_product A ks : is44 A -> Forall is44 ks -> is44 (tab_product O A ks).
  Proof.
    intros HA Hks. destruct Hks as [|k ks Hk Hks]; simpl; [apply is44_id4|].
    apply is44_fold_step; assumption.
  Qed.

  (* layers applied to X . Y act on X only *)
  Lemma fold_step_right A ks : is44 A -> Forall is44 ks -> forall X Y, is44 X -> is44 Y ->
    fold_left (tab_step O A) ks (X @ Y) = fold_left (tab_step O A) ks X @ Y.
  Proof.
    intros HA Hks. induction Hks as [|k ks Hk Hks IH]; intros X Y HX HY; simpl; [reflexivity|].
    unfold tab_step at 2 4.
    rewrite <- (assoc44 O L A X Y) by assumption.
    rewrite <- (assoc44 O L k (A @ X) Y) by auto using (is44_mmul O).
    apply IH; auto using (is44_mmul O).
  Qed.
  (* the reduce of compile_two_qubit_gate started from A . Z is A times the layered product started from Z *)
  Lemma inner_fold A ks : is44 A -> Forall is44 ks -> forall Z, is44 Z ->
    fold_left (inner_step O A) ks (A @ Z) = A @ fold_left (tab_step O A) ks Z.
  Proof.
    intros HA Hks. induction Hks as [|k ks Hk Hks IH]; intros Z HZ; simpl; [reflexivity|].
    unfold inner_step at 2. unfold tab_step at 2.
    apply IH. auto using (is44_mmul O).
  Qed.

  (* compile_two_qubit_gate: the returned list (kR, k_1, ..., k_n, kL) multiplies out, in the documented order, to
     kL . (A . k_n ... A . k_1 . A) . kR — the matrix the outer locals were solved against, dressed with them *)
  Theorem tab_product_outer : forall A kR kL inner, is44 A -> is44 kR -> is44 kL -> Forall is44 inner ->
    tab_product O A (tab_result kR kL inner) = kL @ (inner_product O A inner @ kR).
  Proof.
    intros A kR kL inner HA HR HL Hin. unfold tab_result, tab_product, inner_product.
    rewrite fold_left_app. simpl. unfold tab_step at 1.
    f_equal.
    rewrite <- (mmul_id44_l O L kR) at 1 by assumption. fold (id4 O).
    rewrite (fold_step_right A inner HA Hin (id4 O) kR is44_id4 HR).
    rewrite <- (assoc44 O L) by (auto using is44_id4, is44_fold_step).
    f_equal.
    rewrite <- (inner_fold A inner HA Hin (id4 O) is44_id4).
    f_equal. unfold id4. apply (mmul_id44_r O L). assumption.
  Qed.

  (* with no inner layer the product is kL . A . kR; with one, kL . A . k . A . kR *)
  Corollary tab_product_one_base : forall A kR kL, is44 A -> is44 kR -> is44 kL ->
    tab_product O A [kR; kL] = kL @ (A @ kR).
  Proof. intros. apply (tab_product_outer A kR kL []); auto. Qed.
  Corollary tab_product_two_bases : forall A kR k kL, is44 A -> is44 kR -> is44 k -> is44 kL ->
    tab_product O A [kR; k; kL] = kL @ (A @ (k @ A) @ kR).
  Proof. intros. apply (tab_product_outer A kR kL [k]); auto. Qed.
  Corollary tab_product_three_bases : forall A kR k1 k2 kL, is44 A -> is44 kR -> is44 k1 -> is44 k2 -> is44 kL ->
    tab_product O A [kR; k1; k2; kL] = kL @ (A @ (k2 @ (A @ (k1 @ A))) @ kR).
  Proof. intros. apply (tab_product_outer A kR kL [k1; k2]); auto. Qed.

  (* the inner layers in reversed time order give the same matrix when they are all equal (the "same single qubit" entries of the
     tabulation) — in general they do not: inner_order_matters below *)
  Theorem inner_product_rev_repeat : forall A k n, inner_product O A (rev (repeat k n)) = inner_product O A (repeat k n).
  Proof.
    intros A k n. f_equal. induction n as [|n IH]; [reflexivity|].
    simpl. rewrite IH. clear IH. induction n as [|n IH]; [reflexivity|]. simpl. rewrite IH. reflexivity.
  Qed.

  (* tr(U^dagger (g V)) = g tr(U^dagger V): the entanglement fidelity |overlap|^2/16 does not see a global phase *)
  Theorem overlap_phase : forall g U V, is44 U -> is44 V -> overlap O U (mscale O g V) = g * overlap O U V.
  Proof.
    intros g U V HU HV.
    destruct HU as (? & ? & ? & ? & ? & ? & ? & ? & ? & ? & ? & ? & ? & ? & ? & ? & ->).
    destruct HV as (? & ? & ? & ? & ? & ? & ? & ? & ? & ? & ? & ? & ? & ? & ? & ? & ->).
    cbv -[kadd kmul kopp ksub kconj k0 k1 ki khalf ks2]. ring.
  Qed.
  (* a unitary overlaps with itself in tr(I) = 4 *)
  Theorem overlap_self : forall U, mdagger O U @ U = id4 O -> overlap O U U = four O.
  Proof.
    intros U H. unfold overlap. rewrite H.
    cbv -[kadd kmul kopp ksub kconj k0 k1 ki khalf ks2]. ring.
  Qed.
End TabRing.

(* exact instance (K8): base gate CNOT, inner layers H (x) I and I (x) S — the two time orders give different matrices *)
Definition h8 : matrix (K:=K8) := mscale K8Ops (ks2 K8Ops) [[k1 K8Ops; k1 K8Ops]; [k1 K8Ops; kopp K8Ops (k1 K8Ops)]].
Definition s8 : matrix (K:=K8) := [[k1 K8Ops; k0 K8Ops]; [k0 K8Ops; ki K8Ops]].
Example inner_order_matters :
  let A := cnot_m K8Ops in
  let ka := kron K8Ops h8 (mid K8Ops 2) in
  let kb := kron K8Ops (mid K8Ops 2) s8 in
  meqb k8_eqb (inner_product K8Ops A [ka; kb]) (inner_product K8Ops A [kb; ka]) = false
  /\ meqb k8_eqb (inner_product K8Ops A [ka; kb]) (mmul K8Ops A (mmul K8Ops kb (mmul K8Ops A (mmul K8Ops ka A)))) = true.
Proof. vm_compute. split; reflexivity. Qed.
