(* Model of cirq.transformers.gauge_compiling.IdleMomentsGauge (transformers/gauge_compiling/idle_moments_gauge.py), in the
   shape of the code, for ONE qubit q ("wire"): the circuit is the list of its moments as q sees them,
     MIdle r      q is free in the moment (r: what the other qubits do there)
     MMerge g r   q carries a single-qubit gate operation g without an ignored tag ("mergeable")
     MFixed f     q is taken by anything else (a leg of a multi-qubit operation, an operation carrying an ignored tag or
                  without a gate, any moment that itself carries an ignored tag).
   `active_from` is the list `active_moments[q]`, `get_structure` is `_get_structure` (the windows, first and last moment
   inclusive), `apply_window` is the body of the loop: the drawn gate G goes to the START of the window, merged AFTER the gate
   that is already there (`_merge(existing, G)`: matrix G . E), and its inverse goes to the END of the window, merged BEFORE
   the gate that is already there (`_merge(Ginv, existing)`: matrix E . Ginv).  `gmul b a` is the matrix product b . a
   (a acts first).  Windows are taken from the ORIGINAL circuit and applied one after the other to the circuit being rebuilt;
   each consumes one draw `rng.choice(len(gauges))` of the script.  Definitions only; theorems in IdleGaugeProofs.v. *)
From Coq Require Import List Arith Bool.
Import ListNotations.

Section IdleGauge.
  Variable G R F : Type.
  Variable gmul : G -> G -> G.

  Inductive moment :=
  | MIdle (r : R)
  | MMerge (g : G) (r : R)
  | MFixed (f : F).

  Definition is_idle (m : moment) : bool := match m with MIdle _ => true | _ => false end.
  Definition is_fixed (m : moment) : bool := match m with MFixed _ => true | _ => false end.

  (* active_moments[q]: (moment index, is_mergeable) of every moment in which q is not free *)
  Fixpoint active_from (i : nat) (w : list moment) : list (nat * bool) :=
    match w with
    | [] => []
    | MIdle _ :: r => active_from (S i) r
    | MMerge _ _ :: r => (i, true) :: active_from (S i) r
    | MFixed _ :: r => (i, false) :: active_from (S i) r
    end.

  (* the loop over consecutive active moments of _get_structure *)
  Fixpoint between (active : list (nat * bool)) (min_length : nat) : list (nat * nat) :=
    match active with
    | (lp, lm) :: rest =>
        match rest with
        | (rp, rm) :: _ =>
            (if min_length <=? rp - lp - 1
             then [((if lm then lp else lp + 1), (if rm then rp else rp - 1))] else [])
            ++ between rest min_length
        | [] => []
        end
    | [] => []
    end.

  Definition get_structure (active : list (nat * bool)) (min_length n : nat) (gauge_beginning gauge_ending : bool)
    : list (nat * nat) :=
    (if gauge_beginning
     then match active with
          | (stop, m) :: _ => if min_length <=? stop then [(0, if m then stop else stop - 1)] else []
          | [] => []
          end
     else [])
    ++ between active min_length
    ++ (if gauge_ending
        then match rev active with
             | (stop, m) :: _ => if min_length <=? n - stop - 1 then [((if m then stop else stop + 1), n - 1)] else []
             | [] => []
             end
        else []).

  (* single_qubit_moments[s][q] = _merge(existing, G)   /   = G(q) *)
  Definition put_start (g : G) (m : moment) : moment :=
    match m with
    | MIdle r => MMerge g r
    | MMerge e r => MMerge (gmul g e) r
    | MFixed f => MFixed f
    end.
  (* single_qubit_moments[e][q] = _merge(Ginv, existing)   /   = Ginv(q) *)
  Definition put_end (gi : G) (m : moment) : moment :=
    match m with
    | MIdle r => MMerge gi r
    | MMerge e r => MMerge (gmul e gi) r
    | MFixed f => MFixed f
    end.

  Fixpoint upd (n : nat) (f : moment -> moment) (w : list moment) : list moment :=
    match w, n with
    | [], _ => []
    | m :: r, 0 => f m :: r
    | m :: r, S k => m :: upd k f r
    end.

  Definition apply_window (w : list moment) (s e : nat) (g gi : G) : list moment :=
    upd e (put_end gi) (upd s (put_start g) w).

  (* what makes a window sound: k free moments, then a moment that is not fixed *)
  Fixpoint tail_ok (r : list moment) (k : nat) : bool :=
    match r, k with
    | m :: _, 0 => negb (is_fixed m)
    | MIdle _ :: r', S k' => tail_ok r' k'
    | _, _ => false
    end.
  (* window_ok w s e: s <= e < length w, the moments strictly between s and e are free, the moments s and e are free or
     mergeable, and a window of a single moment is a free moment *)
  Fixpoint window_ok (w : list moment) (s e : nat) : bool :=
    match w, s, e with
    | m :: _, 0, 0 => is_idle m
    | m :: r, 0, S e' => negb (is_fixed m) && tail_ok r e'
    | _ :: r, S s', S e' => window_ok r s' e'
    | _, _, _ => false
    end.

  (* the windows one after the other, one scripted draw each; None: the script is too short or an index is out of range *)
  Fixpoint apply_windows (w : list moment) (ws : list (nat * nat)) (script : list nat) (gs gis : list G)
    : option (list moment * list nat) :=
    match ws with
    | [] => Some (w, script)
    | (s, e) :: ws' =>
        match script with
        | [] => None
        | k :: script' =>
            match nth_error gs k, nth_error gis k with
            | Some g, Some gi => apply_windows (apply_window w s e g gi) ws' script' gs gis
            | _, _ => None
            end
        end
    end.

  (* every window is sound for the circuit it is applied to (the circuit as rebuilt by the windows before it) *)
  Fixpoint windows_ok (w : list moment) (ws : list (nat * nat)) (script : list nat) (gs gis : list G) : bool :=
    match ws with
    | [] => true
    | (s, e) :: ws' =>
        match script with
        | [] => false
        | k :: script' =>
            match nth_error gs k, nth_error gis k with
            | Some g, Some gi => window_ok w s e && windows_ok (apply_window w s e g gi) ws' script' gs gis
            | _, _ => false
            end
        end
    end.

  Definition wire_windows (min_length : nat) (gb ge : bool) (w : list moment) : list (nat * nat) :=
    get_structure (active_from 0 w) min_length (length w) gb ge.

  (* IdleMomentsGauge on one wire *)
  Definition idle_gauge_wire (min_length : nat) (gb ge : bool) (gs gis : list G) (w : list moment) (script : list nat)
    : option (list moment * list nat) :=
    apply_windows w (wire_windows min_length gb ge w) script gs gis.

  (* on all wires, in the order in which the transformer visits the qubits; the script is consumed along the way *)
  Fixpoint idle_gauge (min_length : nat) (gb ge : bool) (gs gis : list G) (wires : list (list moment)) (script : list nat)
    : option (list (list moment) * list nat) :=
    match wires with
    | [] => Some ([], script)
    | w :: rest =>
        match idle_gauge_wire min_length gb ge gs gis w script with
        | None => None
        | Some (w', script') =>
            match idle_gauge min_length gb ge gs gis rest script' with
            | None => None
            | Some (rest', script'') => Some (w' :: rest', script'')
            end
        end
    end.

  Fixpoint idle_gauge_ok (min_length : nat) (gb ge : bool) (gs gis : list G) (wires : list (list moment)) (script : list nat)
    : bool :=
    match wires with
    | [] => true
    | w :: rest =>
        windows_ok w (wire_windows min_length gb ge w) script gs gis &&
        match idle_gauge_wire min_length gb ge gs gis w script with
        | None => false
        | Some (_, script') => idle_gauge_ok min_length gb ge gs gis rest script'
        end
    end.

  (* the variant that merges the inverse AFTER the closing gate (matrix Ginv . E): refuted in IdleGaugeProofs.v *)
  Definition put_end_after (gi : G) (m : moment) : moment :=
    match m with
    | MIdle r => MMerge gi r
    | MMerge e r => MMerge (gmul gi e) r
    | MFixed f => MFixed f
    end.
  Definition apply_window_after (w : list moment) (s e : nat) (g gi : G) : list moment :=
    upd e (put_end_after gi) (upd s (put_start g) w).
End IdleGauge.
Arguments MIdle {G R F} _. Arguments MMerge {G R F} _ _. Arguments MFixed {G R F} _.
Arguments is_idle {G R F} _. Arguments is_fixed {G R F} _.
Arguments active_from {G R F} _ _. Arguments put_start {G R F} _ _ _. Arguments put_end {G R F} _ _ _.
Arguments upd {G R F} _ _ _. Arguments apply_window {G R F} _ _ _ _ _ _.
Arguments tail_ok {G R F} _ _. Arguments window_ok {G R F} _ _ _.
Arguments apply_windows {G R F} _ _ _ _ _ _. Arguments windows_ok {G R F} _ _ _ _ _ _.
Arguments wire_windows {G R F} _ _ _ _. Arguments idle_gauge_wire {G R F} _ _ _ _ _ _ _ _.
Arguments idle_gauge {G R F} _ _ _ _ _ _ _ _. Arguments idle_gauge_ok {G R F} _ _ _ _ _ _ _ _.
Arguments put_end_after {G R F} _ _ _. Arguments apply_window_after {G R F} _ _ _ _ _ _.
