(* C06, gauge tables: the regenerated tables pass the decision procedures of Gauges.v, the exact procedure is
   sound for "lhs = c . G with c * conj c = 1" (stated by cross-multiplication), and a wrong gauge is rejected. *)
From Coq Require Import List Bool Arith ZArith PrimFloat QArith Qcanon Lia.
From VF Require Import Base.RingOps Base.Mat Base.K8 Base.FloatInst Generated.GaugeTables Xform.Gauges.
Import ListNotations.
Local Close Scope float_scope.
Local Close Scope Qc_scope.
Local Close Scope Q_scope.
Local Open Scope nat_scope.

(* ---- the tables ---- *)
Theorem gauge_table_ok : forallb gauge_ok_exact (gauge_exact K8Ops) = true.
Proof. vm_compute. reflexivity. Qed.

Theorem gauge_table_float_ok : forallb (gauge_ok_float 0x1p-30%float) gauge_float = true.
Proof. vm_compute. reflexivity. Qed.

Theorem dd_sequences_ok : forallb dd_ok (dd_sequences K8Ops) = true.
Proof. vm_compute. reflexivity. Qed.

(* the name lists are parallel to the tables (a failing index can be named) *)
Theorem gauge_names_parallel :
  length gauge_exact_names = length (gauge_exact K8Ops) /\
  length gauge_float_names = length gauge_float /\
  length dd_sequence_names = length (dd_sequences K8Ops).
Proof. vm_compute. repeat split. Qed.

(* ---- soundness of the exact decision ---- *)
Lemma k8_eqb_sound : forall x y : K8, k8_eqb x y = true -> x = y.
Proof.
  intros [a0 a1 a2 a3] [b0 b1 b2 b3] H. unfold k8_eqb in H. simpl in H.
  apply andb_prop in H. destruct H as [H H3].
  apply andb_prop in H. destruct H as [H H2].
  apply andb_prop in H. destruct H as [H0 H1].
  apply Qc_eq_bool_correct in H0. apply Qc_eq_bool_correct in H1.
  apply Qc_eq_bool_correct in H2. apply Qc_eq_bool_correct in H3.
  subst. reflexivity.
Qed.

Lemma k8_eqb_refl : forall x : K8, k8_eqb x x = true.
Proof.
  intros [a0 a1 a2 a3]. unfold k8_eqb. simpl.
  assert (R : forall q : Qc, Qc_eq_bool q q = true).
  { intro q. unfold Qc_eq_bool. destruct (Qc_eq_dec q q) as [_|N]; [reflexivity | exfalso; apply N; reflexivity]. }
  rewrite !R. reflexivity.
Qed.

Lemma k8_is0_false : forall x : K8, k8_is0 x = false -> x <> k0 K8Ops.
Proof.
  intros x H E. subst x. unfold k8_is0 in H. rewrite k8_eqb_refl in H. discriminate H.
Qed.

Lemma first_nz_row_sound : forall r j0 j,
  first_nz_row r j0 = Some j -> j0 <= j /\ nth (j - j0) r (k0 K8Ops) <> k0 K8Ops.
Proof.
  induction r as [|x r IH]; intros j0 j H; simpl in H.
  - discriminate H.
  - destruct (k8_is0 x) eqn:Hx.
    + apply IH in H. destruct H as [Hle Hn]. split; [lia|].
      replace (j - j0) with (S (j - S j0)) by lia. exact Hn.
    + inversion H; subst j. split; [lia|].
      replace (j0 - j0) with 0 by lia. simpl. apply k8_is0_false. exact Hx.
Qed.

Lemma first_nz_sound : forall m i0 i j,
  first_nz m i0 = Some (i, j) -> i0 <= i /\ nth j (nth (i - i0) m []) (k0 K8Ops) <> k0 K8Ops.
Proof.
  induction m as [|r m IH]; intros i0 i j H; simpl in H.
  - discriminate H.
  - destruct (first_nz_row r 0) as [j'|] eqn:Hr.
    + inversion H; subst i j'. apply first_nz_row_sound in Hr. destruct Hr as [_ Hn].
      split; [lia|]. replace (i0 - i0) with 0 by lia. simpl.
      replace (j - 0) with j in Hn by lia. exact Hn.
    + apply IH in H. destruct H as [Hle Hn]. split; [lia|].
      replace (i - i0) with (S (i - S i0)) by lia. exact Hn.
Qed.

(* The statement decided by proportional_unit: with (i,j) a position where G is non-zero, c = lhs[i][j]/G[i][j] is a
   non-zero scalar with lhs[k][l] * G[i][j] = G[k][l] * lhs[i][j] everywhere (lhs = c . G) and
   lhs[i][j] * conj lhs[i][j] = G[i][j] * conj G[i][j] (c * conj c = 1). *)
Definition proportional_unit_spec (d : nat) (lhs g : matrix (K:=K8)) : Prop :=
  exists i j,
    k8get g i j <> k0 K8Ops /\ k8get lhs i j <> k0 K8Ops /\
    (forall k l, k < d -> l < d ->
       k8m (k8get lhs k l) (k8get g i j) = k8m (k8get g k l) (k8get lhs i j)) /\
    k8m (k8get lhs i j) (kconj K8Ops (k8get lhs i j)) = k8m (k8get g i j) (kconj K8Ops (k8get g i j)).

Theorem proportional_unit_sound : forall d lhs g,
  proportional_unit d lhs g = true -> proportional_unit_spec d lhs g.
Proof.
  intros d lhs g H. unfold proportional_unit in H.
  apply andb_prop in H. destruct H as [_ H].
  destruct (first_nz g 0) as [[i j]|] eqn:Hnz; [|discriminate H].
  apply andb_prop in H. destruct H as [H Hunit].
  apply andb_prop in H. destruct H as [Hl Hprop].
  exists i, j. split; [|split; [|split]].
  - apply first_nz_sound in Hnz. destruct Hnz as [_ Hn].
    replace (i - 0) with i in Hn by lia. exact Hn.
  - apply k8_is0_false. destruct (k8_is0 (k8get lhs i j)); [discriminate Hl | reflexivity].
  - intros k l Hk Hlt. unfold proportional_at in Hprop.
    rewrite forallb_forall in Hprop.
    assert (Hk' : In k (seq 0 d)) by (apply in_seq; lia).
    specialize (Hprop k Hk'). rewrite forallb_forall in Hprop.
    assert (Hl' : In l (seq 0 d)) by (apply in_seq; lia).
    specialize (Hprop l Hl'). apply k8_eqb_sound. exact Hprop.
  - apply k8_eqb_sound. exact Hunit.
Qed.

Theorem gauge_ok_exact_sound : forall e : gauge_entry (K:=K8),
  gauge_ok_exact e = true -> proportional_unit_spec 4 (gauge_lhs K8Ops e) (g_target e).
Proof.
  intros e H. unfold gauge_ok_exact in H. apply andb_prop in H. destruct H as [_ H].
  apply proportional_unit_sound. exact H.
Qed.

(* every entry of the regenerated exact table satisfies the statement *)
Theorem gauge_table_spec : forall e, In e (gauge_exact K8Ops) ->
  proportional_unit_spec 4 (gauge_lhs K8Ops e) (g_target e).
Proof.
  intros e Hin. apply gauge_ok_exact_sound.
  pose proof gauge_table_ok as H. rewrite forallb_forall in H. apply H. exact Hin.
Qed.

(* hypothesis satisfiable: the first table entry *)
Example gauge_ok_exact_sound_nonvacuous : exists e, gauge_ok_exact e = true.
Proof. exists (nth 0 (gauge_exact K8Ops) (mkGauge K8 [] [] [] [] [] [])). vm_compute. reflexivity. Qed.

(* ---- negative controls ---- *)
Definition kx (a : Z) : K8 := kcx K8Ops a 0 0 0 0.
Definition m_I : matrix (K:=K8) := [[kx 1; kx 0]; [kx 0; kx 1]].
Definition m_X : matrix (K:=K8) := [[kx 0; kx 1]; [kx 1; kx 0]].
Definition m_Z : matrix (K:=K8) := [[kx 1; kx 0]; [kx 0; kx (-1)]].
Definition m_CZ : matrix (K:=K8) :=
  [[kx 1; kx 0; kx 0; kx 0]; [kx 0; kx 1; kx 0; kx 0]; [kx 0; kx 0; kx 1; kx 0]; [kx 0; kx 0; kx 0; kx (-1)]].

(* CZ with pre_q1 = X, post_q0 = Z, post_q1 = X is the table's gauge; with post_q1 = Z instead it is wrong *)
Definition gauge_right : gauge_entry (K:=K8) := mkGauge K8 m_CZ m_I m_X m_CZ m_Z m_X.
Definition gauge_wrong : gauge_entry (K:=K8) := mkGauge K8 m_CZ m_I m_X m_CZ m_Z m_Z.
(* proportional but not by a unit scalar: post_q0 = 2 I *)
Definition gauge_scaled : gauge_entry (K:=K8) :=
  mkGauge K8 m_CZ m_I m_I m_CZ [[kx 2; kx 0]; [kx 0; kx 2]] m_I.

Example gauge_right_accepted : gauge_ok_exact gauge_right = true.
Proof. vm_compute. reflexivity. Qed.
Example gauge_wrong_rejected : gauge_ok_exact gauge_wrong = false.
Proof. vm_compute. reflexivity. Qed.
Example gauge_scaled_rejected : gauge_ok_exact gauge_scaled = false.
Proof. vm_compute. reflexivity. Qed.

(* X, Z multiplies to -iY, not a scalar: rejected; X, X accepted *)
Example dd_wrong_rejected : dd_ok [m_X; m_Z] = false.
Proof. vm_compute. reflexivity. Qed.
Example dd_right_accepted : dd_ok [m_X; m_X] = true.
Proof. vm_compute. reflexivity. Qed.

(* the float decision rejects the same wrong gauge *)
Definition fx (a : float) : FC := (a, 0%float).
Definition f_I : list (list FC) := [[fx 1; fx 0]; [fx 0; fx 1]]%float.
Definition f_X : list (list FC) := [[fx 0; fx 1]; [fx 1; fx 0]]%float.
Definition f_Z : list (list FC) := [[fx 1; fx 0]; [fx 0; fx (-1)]]%float.
Definition f_CZ : list (list FC) :=
  [[fx 1; fx 0; fx 0; fx 0]; [fx 0; fx 1; fx 0; fx 0]; [fx 0; fx 0; fx 1; fx 0]; [fx 0; fx 0; fx 0; fx (-1)]]%float.
Example gauge_float_right_accepted : gauge_ok_float 0x1p-30%float (mkGauge FC f_CZ f_I f_X f_CZ f_Z f_X) = true.
Proof. vm_compute. reflexivity. Qed.
Example gauge_float_wrong_rejected : gauge_ok_float 0x1p-30%float (mkGauge FC f_CZ f_I f_X f_CZ f_Z f_Z) = false.
Proof. vm_compute. reflexivity. Qed.
