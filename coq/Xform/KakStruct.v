(* C15 — structured two-qubit inputs of the synthesis routines (definitions only; proofs in KakStructProofs.v).

   1. `cirq.two_qubit_matrix_to_cz_isometry(q0, q1, mat)` writes mat = C . D with D diagonal
      (`two_qubit_matrix_to_diagonal_and_cz_operations`) and, "assuming q0 is initially |0>", replaces D by a gate on q1 alone.
      q0 is the first = most significant qubit, so a circuit started in |0>|psi> only sees the columns |00>, |01> of a matrix:
      `first_cols2`.  On those columns D = diag(a, b, c, d) acts as I (x) diag(a, b) (`iso_restrict`); the entries of the
      q1 = |0> half, diag(a, c) (`iso_restrict_other_half`), are a different matrix unless b = c.
   2. The known-gate dispatch of the Sycamore synthesis treats SWAP and ISWAP only at exponent 1.  SWAP**-1 is SWAP, but
      ISWAP**-1 is not a phase multiple of ISWAP: the closed forms of Gates/GateSpecs.v at r = exp(i pi t / 2), t = 1, -1. *)
From Coq Require Import List.
From VF Require Import Base.RingOps Base.Mat Gates.GateSpecs.
Import ListNotations.

Section Struct.
  Context {K : Type} (O : Ops K).
  Notation "- a" := (kopp O a).
  Notation z0 := (k0 O). Notation z1 := (k1 O). Notation ii := (ki O).
  Notation M := (matrix (K:=K)).

  Definition diag2 (a b : K) : M := [[a; z0]; [z0; b]].
  Definition diag4 (a b c d : K) : M := [[a; z0; z0; z0]; [z0; b; z0; z0]; [z0; z0; c; z0]; [z0; z0; z0; d]].
  (* the columns |00>, |01>: all a circuit whose first qubit starts in |0> can see of a 4x4 matrix *)
  Definition first_cols2 (m : M) : M := map (firstn 2) m.
  Definition iso_restrict (a b c d : K) : M := kron O (mid O 2) (diag2 a b).
  Definition iso_restrict_other_half (a b c d : K) : M := kron O (mid O 2) (diag2 a c).

  (* SWAP**t and ISWAP**t at t = 1 and t = -1 (r = i, -i; no global shift) *)
  Definition swap_pow_1 : M := spec_SwapPow O ii (- ii) z1.
  Definition swap_pow_m1 : M := spec_SwapPow O (- ii) ii z1.
  Definition iswap_pow_1 : M := spec_ISwapPow O ii (- ii) z1.
  Definition iswap_pow_m1 : M := spec_ISwapPow O (- ii) ii z1.
End Struct.
