(* C07 -- theorems about the membership and device-validation model (Xform/Gateset.v). *)
From Coq Require Import List Arith Bool Lia.
From VF Require Import Xform.Gateset.
Import ListNotations.

Lemma nmem_In x l : nmem x l = true <-> In x l.
Proof.
  unfold nmem. rewrite existsb_exists. split.
  - intros [y [Hy He]]. apply Nat.eqb_eq in He. subst. exact Hy.
  - intros H. exists x. split; [exact H|apply Nat.eqb_refl].
Qed.

Lemma disjoint_spec a b : disjoint a b = true <-> (forall x, In x a -> ~ In x b).
Proof.
  unfold disjoint. rewrite negb_true_iff. split.
  - intros H x Ha Hb. assert (existsb (fun x => nmem x b) a = true); [|congruence].
    apply existsb_exists. exists x. split; [exact Ha|apply nmem_In; exact Hb].
  - intros H. destruct (existsb (fun x => nmem x b) a) eqn:E; [|reflexivity]. exfalso.
    apply existsb_exists in E as [x [Ha Hb]]. apply nmem_In in Hb. exact (H x Ha Hb).
Qed.

Lemma existsb_partition {A} (p q : A -> bool) l :
  existsb p (filter (fun x => negb (q x)) l) || existsb p (filter q l) = existsb p l.
Proof.
  induction l as [|x l IH]; simpl; [reflexivity|].
  destruct (q x); simpl; rewrite <- IH.
  - destruct (p x); simpl; [apply orb_true_r|reflexivity].
  - destruct (p x); reflexivity.
Qed.

(* ---------- families ---------- *)
(* a type family accepts exactly the gates that have the type somewhere along their mro (isinstance), whatever the
   most derived type is; an instance family accepts exactly the gates of its class *)
Theorem type_family_spec ty g tags :
  family_contains (mkF (FBase (BType ty)) [] []) (IOp (Some g) tags) = true <-> In ty (g_mro g).
Proof. unfold family_contains. simpl. apply nmem_In. Qed.

Theorem inst_family_spec v p g tags :
  family_contains (mkF (FBase (BInst v p true)) [] []) (IOp (Some g) tags) = true <-> In p (g_phase g).
Proof. unfold family_contains. simpl. apply nmem_In. Qed.

(* the tag lists: an accepted item carries no ignored tag, and, when tags_to_accept is not empty, is an operation
   carrying one of them; a gate-less operation is never accepted by a family *)
Theorem family_contains_tags f i : family_contains f i = true ->
  (forall t, In t (f_ignore f) -> ~ In t (item_tags i)) /\
  (f_accept f <> [] -> item_is_op i = true /\ exists t, In t (f_accept f) /\ In t (item_tags i)) /\
  (forall tags, i <> IOp None tags).
Proof.
  unfold family_contains. intros H.
  apply andb_true_iff in H as [H Hp]. apply andb_true_iff in H as [Ha Hi].
  apply negb_true_iff in Ha. apply negb_true_iff in Hi.
  split; [|split].
  - intros t Ht Hin. destruct i as [g|g tags]; simpl in *; [exact Hin|].
    apply negb_false_iff in Hi. rewrite disjoint_spec in Hi. exact (Hi t Ht Hin).
  - intros Hne. destruct (f_accept f) as [|a acc] eqn:Ea; [congruence|].
    apply orb_false_iff in Ha as [Ha1 Ha2]. apply negb_false_iff in Ha1. split; [exact Ha1|].
    unfold disjoint in Ha2. apply negb_false_iff in Ha2. apply existsb_exists in Ha2 as [t [Ht Hm]].
    exists t. split; [exact Ht|apply nmem_In; exact Hm].
  - intros tags E. subst i. discriminate.
Qed.

(* ---------- gatesets ---------- *)
(* descriptions are consistent when gates equal under == are equal up to global phase *)
Definition consistent (fs : list family) (g : gdesc) : Prop :=
  forall f v p ign, In f fs -> f_kind f = FBase (BInst v p ign) -> g_val g = v -> In p (g_phase g).
Definition item_of (g : gdesc) (i : item) : Prop := i = IGate g \/ exists tags, i = IOp (Some g) tags.

Lemma default_contains f g i : is_default f = true -> item_of g i ->
  family_contains f i = kind_pred (f_kind f) g.
Proof.
  unfold is_default, family_contains. intros Hd Hi.
  destruct (f_kind f) as [b| | |]; try discriminate.
  destruct (f_accept f); [|discriminate]. destruct (f_ignore f); [|discriminate].
  destruct Hi as [->|[tags ->]]; simpl; reflexivity.
Qed.

(* Gateset.__contains__ (dictionary look-ups along the mro and by value, then two linear scans) decides exactly
   "some family of the gateset accepts the item" *)
Theorem gateset_membership_spec gs g i : consistent (gs_families gs) g -> item_of g i ->
  gateset_contains_gate gs g i = gateset_contains_spec gs i.
Proof.
  intros Hc Hi. unfold gateset_contains_gate, gateset_contains_spec.
  destruct (type_fast (gs_families gs) g) eqn:Et.
  - symmetry. unfold type_fast in Et. apply existsb_exists in Et as [ty [Hty Hf]].
    apply existsb_exists in Hf as [f [Hf Hk]]. apply andb_true_iff in Hk as [Hd Hk].
    apply existsb_exists. exists f. split; [exact Hf|].
    rewrite (default_contains f g i Hd Hi).
    destruct (f_kind f) as [[t|v p ign]| | |]; try discriminate.
    apply Nat.eqb_eq in Hk. subst t. simpl. apply nmem_In. exact Hty.
  - destruct (inst_fast (gs_families gs) g) eqn:Ei.
    + symmetry. unfold inst_fast in Ei. apply existsb_exists in Ei as [f [Hf Hk]].
      apply andb_true_iff in Hk as [Hd Hk].
      apply existsb_exists. exists f. split; [exact Hf|].
      rewrite (default_contains f g i Hd Hi).
      destruct (f_kind f) as [[t|v p ign]| | |] eqn:Ek; try discriminate.
      apply Nat.eqb_eq in Hk. simpl. destruct ign.
      * apply nmem_In. symmetry in Hk. exact (Hc f v p true Hf Ek Hk).
      * apply Nat.eqb_eq. symmetry. exact Hk.
    + apply existsb_partition.
Qed.

Theorem validate_spec gs ops : validate gs ops = true <-> Forall (fun o => validate_op gs o = true) ops.
Proof. unfold validate. rewrite forallb_forall, Forall_forall. tauto. Qed.

(* a (tagged) CircuitOperation is accepted iff the gateset unrolls, none of its own tags is banned, and every
   operation of the unrolled sub-circuit is accepted; other gate-less operations never are *)
Theorem validate_circuit_op gs tags inner :
  validate_op gs (OCircuit tags inner) = true <->
  gs_unroll gs = true /\ (forall t, In t (gs_banned gs) -> ~ In t tags) /\ Forall (fun o => validate_op gs o = true) inner.
Proof.
  simpl. rewrite !andb_true_iff, disjoint_spec, forallb_forall, Forall_forall. tauto.
Qed.

Theorem validate_other gs tags : validate_op gs (OOther tags) = false.
Proof. simpl. apply andb_false_r. Qed.

(* ---------- repetitions, zero repetitions and nesting of CircuitOperations ---------- *)
Lemma validate_app gs a b : validate gs (a ++ b) = validate gs a && validate gs b.
Proof. unfold validate. apply forallb_app. Qed.

(* validating one iteration of the MAPPED body decides every positive number of repetitions *)
Theorem validate_repeat gs n b : validate gs (repeat_ops (S n) b) = validate gs b.
Proof.
  induction n as [|n IH].
  - simpl. rewrite app_nil_r. reflexivity.
  - change (repeat_ops (S (S n)) b) with (b ++ repeat_ops (S n) b). rewrite validate_app, IH. apply andb_diag.
Qed.

Theorem validate_circuit_op_repeat gs tags n b :
  validate_op gs (OCircuit tags (repeat_ops (S n) b)) = validate_op gs (OCircuit tags b).
Proof.
  cbn [validate_op op_tags]. f_equal. f_equal. exact (validate_repeat gs n b).
Qed.

(* zero repetitions: the CircuitOperation stands for no operation; only the unroll flag and its own tags decide *)
Theorem validate_circuit_op_zero gs tags b :
  validate_op gs (OCircuit tags (repeat_ops 0 b)) = disjoint (gs_banned gs) tags && gs_unroll gs.
Proof. cbn [validate_op op_tags repeat_ops forallb]. rewrite andb_true_r. reflexivity. Qed.

Lemma disjoint_nil_r a : disjoint a [] = true.
Proof. unfold disjoint. induction a as [|x a IH]; simpl in *; [reflexivity|exact IH]. Qed.

(* an untagged inner CircuitOperation may be spliced into the outer one (mapped_circuit(deep=True) does so) *)
Theorem validate_circuit_op_splice gs tags pre inner post :
  validate_op gs (OCircuit tags (pre ++ OCircuit [] inner :: post)) = validate_op gs (OCircuit tags (pre ++ inner ++ post)).
Proof.
  cbn [validate_op op_tags]. rewrite !forallb_app. cbn [forallb validate_op op_tags]. rewrite disjoint_nil_r.
  destruct (gs_unroll gs); cbn [andb]; [|rewrite !andb_false_r; reflexivity].
  reflexivity.
Qed.

(* ---------- devices ---------- *)
Lemma all_pairs_ok_spec ps qs : all_pairs_ok ps qs = true <->
  (forall a b, In a qs -> In b qs -> a <> b -> pair_mem ps a b = true).
Proof.
  unfold all_pairs_ok. rewrite forallb_forall. split.
  - intros H a b Ha Hb Hne. specialize (H a Ha). rewrite forallb_forall in H. specialize (H b Hb).
    apply orb_true_iff in H as [H|H]; [apply Nat.eqb_eq in H; congruence|exact H].
  - intros H a Ha. apply forallb_forall. intros b Hb.
    destruct (Nat.eqb a b) eqn:E; [reflexivity|]. apply Nat.eqb_neq in E. simpl. exact (H a b Ha Hb E).
Qed.

(* a device accepts an operation exactly when the operation is in its gateset, acts on its qubits, and -- when the
   device constrains pairs for this kind of operation -- every pair of its qubits is an allowed pair *)
Theorem device_accepts_iff d o :
  device_accepts d o = true <->
  (d_gate_ops_only d = true -> dop_is_gate_op o = true) /\
  op_in_gateset (d_gateset d) (dop_op o) = true /\
  (forall q, In q (dop_qs o) -> In q (d_qubits d)) /\
  (needs_pairs d o = true -> forall a b, In a (dop_qs o) -> In b (dop_qs o) -> a <> b -> pair_mem (d_pairs d) a b = true).
Proof.
  unfold device_accepts. rewrite !andb_true_iff, !orb_true_iff, !negb_true_iff, forallb_forall, all_pairs_ok_spec.
  split.
  - intros [[[H1 H2] H3] H4]. repeat split.
    + intros Hg. destruct H1 as [H1|H1]; [congruence|exact H1].
    + exact H2.
    + intros q Hq. apply nmem_In. exact (H3 q Hq).
    + intros Hn. destruct H4 as [H4|H4]; [congruence|exact H4].
  - intros (H1 & H2 & H3 & H4). repeat split.
    + destruct (d_gate_ops_only d); [right; apply H1; reflexivity|left; reflexivity].
    + exact H2.
    + intros q Hq. apply nmem_In. exact (H3 q Hq).
    + destruct (needs_pairs d o); [right; apply H4; reflexivity|left; reflexivity].
Qed.

(* GridDevice: the pair rule applies to two-qubit operations with a non-variadic gate *)
Theorem grid_device_pair_rule d o a b : d_rule d = PairsTwoQubit -> dop_qs o = [a; b] -> a <> b ->
  op_variadic (dop_op o) = false -> device_accepts d o = true -> pair_mem (d_pairs d) a b = true.
Proof.
  intros Hr Hq Hne Hv H. apply device_accepts_iff in H as (_ & _ & _ & H4).
  apply H4.
  - unfold needs_pairs. rewrite Hr, Hq, Hv. reflexivity.
  - rewrite Hq. left. reflexivity.
  - rewrite Hq. right. left. reflexivity.
  - exact Hne.
Qed.

Theorem device_accepts_circuit_spec d ops :
  device_accepts_circuit d ops = true <-> Forall (fun o => device_accepts d o = true) ops.
Proof. unfold device_accepts_circuit. rewrite forallb_forall, Forall_forall. tauto. Qed.
