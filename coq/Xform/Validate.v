(* Comparison of two circuits through the reference semantics (Sim/Measure.v `exec`), used by the C06
   translation validation: joint distribution of the measurement records canonicalised per key, together
   with the (unnormalised) conditional state reduced to a chosen set of wires.  Definitions only. *)
From Coq Require Import PrimFloat List Arith Bool.
From VF Require Import Base.RingOps Base.Mat Base.Tensor Base.FloatInst Base.Trace Gates.Families Sim.Ref Sim.Measure.
Import ListNotations.
Local Close Scope float_scope.
Local Open Scope nat_scope.

Section Validate.
  Context {K : Type} (O : Ops K).

  (* canonical record: key by key (ascending id), the records of that key in the order they were taken;
     each record is introduced by the marker 10+key (digits are < 10) *)
  Definition canon_rec (nkeys : nat) (r : list recd) : list nat :=
    flat_map (fun k => flat_map (fun e => if Nat.eqb (fst (fst e)) k then (10 + k) :: snd (fst e) else []) r) (seq 0 nkeys).

  (* reduced density operator of a pure state on the wires `keep` (row-major over enum of their dimensions) *)
  Definition reduced (sh keep : list nat) (psi : list K) : list K :=
    let n := length sh in
    let kd := map (fun a => nth a sh 2) keep in
    let rest := filter (fun a => negb (nmem a keep)) (seq 0 n) in
    let rd := map (fun a => nth a sh 2) rest in
    let t := untab O sh psi in
    let mk := fun a c => upds (upds (repeat 0 n) keep a) rest c in
    flat_map (fun a => map (fun b =>
        ksum O (map (fun c => kmul O (t (mk a c)) (kconj O (t (mk b c)))) (enum rd))) (enum kd)) (enum kd).

  (* per branch: canonical record and weight * reduced state *)
  Definition branch_view (sh keep : list nat) (nkeys : nat) (b : branch (K:=K)) : list nat * list K :=
    (canon_rec nkeys (brec b), vscale O (bw b) (reduced sh keep (bpsi b))).
  Definition cond_state (len : nat) (views : list (list nat * list K)) (r : list nat) : list K :=
    fold_right (fun v acc => if list_eqb_nat (fst v) r then vadd O (snd v) acc else acc) (repeat (k0 O) len) views.
End Validate.

Fixpoint dedup (l : list (list nat)) : list (list nat) :=
  match l with
  | [] => []
  | x :: r => if existsb (list_eqb_nat x) r then dedup r else x :: dedup r
  end.

(* the two ensembles give every canonical record the same mass and the same conditional reduced state *)
Definition dist_close (tol : float) (nkeys : nat)
           (sh1 keep1 : list nat) (bs1 : list (branch (K:=FC)))
           (sh2 keep2 : list nat) (bs2 : list (branch (K:=FC))) : bool :=
  let v1 := map (branch_view FOps sh1 keep1 nkeys) bs1 in
  let v2 := map (branch_view FOps sh2 keep2 nkeys) bs2 in
  let len := match v1 with v :: _ => length (snd v) | [] => 0 end in
  forallb (fun r => fcl_close tol (cond_state FOps len v1 r) (cond_state FOps len v2 r))
          (dedup (map fst v1 ++ map fst v2)).
