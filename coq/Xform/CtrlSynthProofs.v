(* C15 — proofs about the sparse semantics of multi-controlled synthesis (Xform/CtrlSynth.v): every gate acts on the meaning
   sget of a sparse vector exactly as the textbook action (Base/Tensor.apply) prescribes on bit indices; sorting / merging does not
   change the meaning; the validator is sound in exact arithmetic; the borrowed-qubit ladder of Barenco et al. Lemma 7.2. *)
From Coq Require Import List NArith Bool Ring Lia.
From VF Require Import Base.RingOps Base.Mat Base.K8 Xform.CtrlSynth.
Import ListNotations.

(* ---- bit facts ---- *)
Lemma set_clear_same j b : N.testbit j b = true -> N.setbit (N.clearbit j b) b = j.
Proof.
  intro H. apply N.bits_inj. intro m. rewrite N.setbit_eqb, N.clearbit_eqb.
  destruct (N.eqb_spec b m) as [->|Hn]; simpl; [symmetry; exact H|]. apply andb_true_r.
Qed.
Lemma clear_set_same i b : N.testbit i b = false -> N.clearbit (N.setbit i b) b = i.
Proof.
  intro H. apply N.bits_inj. intro m. rewrite N.clearbit_eqb, N.setbit_eqb.
  destruct (N.eqb_spec b m) as [->|Hn]; simpl; [symmetry; exact H|]. apply andb_true_r.
Qed.
Lemma testbit_clear_same i b : N.testbit (N.clearbit i b) b = false.
Proof. rewrite N.clearbit_eqb, N.eqb_refl. apply andb_false_r. Qed.
Lemma testbit_set_same i b : N.testbit (N.setbit i b) b = true.
Proof. rewrite N.setbit_eqb, N.eqb_refl. reflexivity. Qed.
Lemma clear_noop i b : N.testbit i b = false -> N.clearbit i b = i.
Proof.
  intro H. apply N.bits_inj. intro m. rewrite N.clearbit_eqb.
  destruct (N.eqb_spec b m) as [->|Hn]; simpl; [rewrite H; reflexivity|apply andb_true_r].
Qed.
Lemma set_noop i b : N.testbit i b = true -> N.setbit i b = i.
Proof.
  intro H. apply N.bits_inj. intro m. rewrite N.setbit_eqb.
  destruct (N.eqb_spec b m) as [->|Hn]; simpl; [rewrite H; reflexivity|reflexivity].
Qed.
Lemma testbit_flipb_same i b : N.testbit (flipb i b) b = negb (N.testbit i b).
Proof. unfold flipb. destruct (N.testbit i b) eqn:E; [apply testbit_clear_same|apply testbit_set_same]. Qed.
Lemma testbit_flipb_other i b c : c <> b -> N.testbit (flipb i b) c = N.testbit i c.
Proof.
  intro H. unfold flipb. destruct (N.testbit i b).
  - rewrite N.clearbit_eqb. destruct (N.eqb_spec b c); [congruence|apply andb_true_r].
  - rewrite N.setbit_eqb. destruct (N.eqb_spec b c); [congruence|reflexivity].
Qed.
Lemma flipb_invol i b : flipb (flipb i b) b = i.
Proof.
  unfold flipb at 1. rewrite testbit_flipb_same. unfold flipb. destruct (N.testbit i b) eqn:E; simpl.
  - apply set_clear_same. exact E.
  - apply clear_set_same. exact E.
Qed.

Section SparseRing.
  Context {K : Type} (O : Ops K) (L : Laws O).
  Add Ring KringCS : (law_ring O L).
  Notation "a +k b" := (kadd O a b) (at level 50, left associativity).
  Notation "a *k b" := (kmul O a b) (at level 40, left associativity).
  Notation sv := (sv (K:=K)).

  Lemma sget_nil i : sget O [] i = k0 O.
  Proof. reflexivity. Qed.
  Lemma sget_cons j y (v : sv) i : sget O ((j, y) :: v) i = if N.eqb j i then y +k sget O v i else sget O v i.
  Proof. unfold sget. simpl. destruct (N.eqb j i); reflexivity. Qed.
  Lemma sget_app (v w : sv) i : sget O (v ++ w) i = sget O v i +k sget O w i.
  Proof.
    induction v as [|[j y] v IH]; simpl.
    - rewrite sget_nil. ring.
    - rewrite !sget_cons, IH. destruct (N.eqb j i); ring.
  Qed.

  (* sorting and merging keep the meaning *)
  Lemma sget_ins j x (v : sv) i : sget O (ins O j x v) i = sget O ((j, x) :: v) i.
  Proof.
    induction v as [|[j2 y] w IH]; simpl ins; [reflexivity|].
    destruct (N.compare_spec j j2) as [->|Hlt|Hgt].
    - rewrite !sget_cons. destruct (N.eqb j2 i); ring.
    - reflexivity.
    - rewrite sget_cons, IH, !sget_cons. destruct (N.eqb j i), (N.eqb j2 i); ring.
  Qed.
  Theorem sget_merge (v : sv) i : sget O (merge O v) i = sget O v i.
  Proof.
    induction v as [|[j y] v IH]; simpl; [reflexivity|].
    rewrite sget_ins, !sget_cons, IH. reflexivity.
  Qed.
  Theorem sget_prune_all (v : sv) : prune (fun _ => true) v = v.
  Proof. unfold prune. induction v as [|e v IH]; simpl; [reflexivity|rewrite IH; reflexivity]. Qed.
  (* what pruning drops is exactly the part it does not keep *)
  Theorem sget_prune_split keep (v : sv) i :
    sget O v i = sget O (prune keep v) i +k sget O (prune (fun x => negb (keep x)) v) i.
  Proof.
    unfold prune. induction v as [|[j y] v IH]; simpl.
    - rewrite sget_nil. ring.
    - destruct (keep y); simpl; rewrite !sget_cons, IH; destruct (N.eqb j i); ring.
  Qed.

  (* a one-qubit gate [[a, b], [c, d]] on bit bt: the textbook action on amplitudes *)
  Theorem sget_app1 (u : matrix (K:=K)) bt (v : sv) i :
    sget O (app1 O u bt v) i =
    if N.testbit i bt then mget O u 1 0 *k sget O v (N.clearbit i bt) +k mget O u 1 1 *k sget O v i
    else mget O u 0 0 *k sget O v i +k mget O u 0 1 *k sget O v (N.setbit i bt).
  Proof.
    induction v as [|[j x] v IH].
    - simpl. rewrite !sget_nil. destruct (N.testbit i bt); ring.
    - unfold app1. simpl flat_map. fold (app1 O u bt v). rewrite sget_app, IH. clear IH.
      unfold app1_entry. simpl fst. simpl snd.
      destruct (N.testbit j bt) eqn:Ej, (N.testbit i bt) eqn:Ei; rewrite !sget_cons, sget_nil.
      + (* j has the bit, i has the bit *)
        destruct (N.eqb_spec (N.clearbit j bt) i) as [H1|H1].
        { exfalso. rewrite <- H1, testbit_clear_same in Ei. discriminate. }
        destruct (N.eqb_spec j (N.clearbit i bt)) as [H2|H2].
        { exfalso. rewrite H2, testbit_clear_same in Ej. discriminate. }
        destruct (N.eqb j i); ring.
      + (* j has the bit, i does not: j contributes to i iff clearbit j = i iff j = setbit i *)
        destruct (N.eqb_spec j i) as [H1|H1]; [exfalso; subst; congruence|].
        destruct (N.eqb_spec (N.clearbit j bt) i) as [H2|H2], (N.eqb_spec j (N.setbit i bt)) as [H3|H3]; try ring.
        * exfalso. apply H3. rewrite <- H2. symmetry. apply set_clear_same. exact Ej.
        * exfalso. apply H2. rewrite H3. apply clear_set_same. exact Ei.
      + (* j does not have the bit, i has it *)
        destruct (N.eqb_spec j i) as [H1|H1]; [exfalso; subst; congruence|].
        destruct (N.eqb_spec (N.setbit j bt) i) as [H2|H2], (N.eqb_spec j (N.clearbit i bt)) as [H3|H3]; try ring.
        * exfalso. apply H3. rewrite <- H2. symmetry. apply clear_set_same. exact Ej.
        * exfalso. apply H2. rewrite H3. apply set_clear_same. exact Ei.
      + destruct (N.eqb_spec (N.setbit j bt) i) as [H1|H1].
        { exfalso. rewrite <- H1, testbit_set_same in Ei. discriminate. }
        destruct (N.eqb_spec j (N.setbit i bt)) as [H2|H2].
        { exfalso. rewrite H2, testbit_set_same in Ej. discriminate. }
        destruct (N.eqb j i); ring.
  Qed.

  (* index maps that are involutions act on the meaning by relabelling *)
  Lemma sget_map_invol (f : N -> N) (v : sv) i : (forall j, f (f j) = j) ->
    sget O (map (fun e => (f (fst e), snd e)) v) i = sget O v (f i).
  Proof.
    intro Hf. induction v as [|[j x] v IH]; simpl; [reflexivity|].
    rewrite !sget_cons, IH.
    destruct (N.eqb_spec (f j) i) as [H1|H1], (N.eqb_spec j (f i)) as [H2|H2]; try reflexivity.
    - exfalso. apply H2. rewrite <- H1. symmetry. apply Hf.
    - exfalso. apply H1. rewrite H2. apply Hf.
  Qed.
  Lemma cxmap_invol c t : c <> t -> forall j, cxmap c t (cxmap c t j) = j.
  Proof.
    intros H j. unfold cxmap. destruct (N.testbit j c) eqn:E.
    - rewrite testbit_flipb_other by exact H. rewrite E. apply flipb_invol.
    - rewrite E. reflexivity.
  Qed.
  Lemma ccxmap_invol c0 c1 t : c0 <> t -> c1 <> t -> forall j, ccxmap c0 c1 t (ccxmap c0 c1 t j) = j.
  Proof.
    intros H0 H1 j. unfold ccxmap. destruct (N.testbit j c0 && N.testbit j c1) eqn:E.
    - rewrite !testbit_flipb_other by assumption. rewrite E. apply flipb_invol.
    - rewrite E. reflexivity.
  Qed.
  (* CNOT / CCNOT: the amplitude of |i> afterwards is the amplitude of the basis state that is mapped to |i> *)
  Theorem sget_appcx c t (v : sv) i : c <> t -> sget O (appcx c t v) i = sget O v (if N.testbit i c then flipb i t else i).
  Proof. intro H. apply (sget_map_invol (cxmap c t) v i (cxmap_invol c t H)). Qed.
  Theorem sget_appccx c0 c1 t (v : sv) i : c0 <> t -> c1 <> t ->
    sget O (appccx c0 c1 t v) i = sget O v (if N.testbit i c0 && N.testbit i c1 then flipb i t else i).
  Proof. intros H0 H1. apply (sget_map_invol (ccxmap c0 c1 t) v i (ccxmap_invol c0 c1 t H0 H1)). Qed.

  (* one step of the run with nothing dropped has the meaning of its gate *)
  Theorem sget_step_C1 u bt (v : sv) i : sget O (step O (fun _ => true) v (C1 u bt)) i = sget O (app1 O u bt v) i.
  Proof. simpl. rewrite sget_prune_all. apply sget_merge. Qed.

  (* the reference column: off the all-ones control pattern the basis state itself, on it the gate applied to the target bit *)
  Theorem mcu_col_off cbits tb u k : forallb (N.testbit k) cbits = false -> mcu_col O cbits tb u k = sbasis O k.
  Proof. intro H. unfold mcu_col. rewrite H. reflexivity. Qed.
  Theorem mcu_col_on cbits tb u k i : forallb (N.testbit k) cbits = true ->
    sget O (mcu_col O cbits tb u k) i =
    if N.testbit i tb then mget O u 1 0 *k sget O (sbasis O k) (N.clearbit i tb) +k mget O u 1 1 *k sget O (sbasis O k) i
    else mget O u 0 0 *k sget O (sbasis O k) i +k mget O u 0 1 *k sget O (sbasis O k) (N.setbit i tb).
  Proof. intro H. unfold mcu_col. rewrite H. apply sget_app1. Qed.

  (* the comparison: the merged difference has the meaning of the difference, so if only zero counts as small the two vectors agree *)
  Lemma sget_sneg (v : sv) i : sget O (sneg O v) i = kopp O (sget O v i).
  Proof.
    induction v as [|[j x] v IH]; simpl.
    - rewrite sget_nil. ring.
    - rewrite !sget_cons. simpl fst. simpl snd. fold (sneg O v). rewrite IH. destruct (N.eqb j i); ring.
  Qed.
  Lemma sget_all_zero (v : sv) i : (forall e, In e v -> snd e = k0 O) -> sget O v i = k0 O.
  Proof.
    induction v as [|[j x] v IH]; intro H; [reflexivity|].
    rewrite sget_cons, IH by (intros e He; apply H; right; exact He).
    destruct (N.eqb j i); [|reflexivity].
    pose proof (H (j, x) (or_introl eq_refl)) as Hx. simpl in Hx. rewrite Hx. ring.
  Qed.
  Theorem sclose_exact_sound small (v w : sv) : (forall x, small x = true -> x = k0 O) ->
    sclose O small v w = true -> forall i, sget O v i = sget O w i.
  Proof.
    intros Hs H i. unfold sclose in H. rewrite forallb_forall in H.
    assert (Hz : sget O (merge O (v ++ sneg O w)) i = k0 O).
    { apply sget_all_zero. intros e He. apply Hs. apply H. exact He. }
    rewrite sget_merge, sget_app, sget_sneg in Hz.
    transitivity (sget O v i +k kopp O (sget O w i) +k sget O w i); [ring|]. rewrite Hz. ring.
  Qed.
  (* the validator, in exact arithmetic: every column k < 2^n of the circuit has the amplitudes of the controlled gate's column *)
  Theorem ctrl_synth_ok_sound keep small n cbits tb u ops : (forall x, small x = true -> x = k0 O) ->
    ctrl_synth_ok O keep small n cbits tb u ops = true ->
    forall k, In k (indices n) -> forall i, sget O (srun O keep ops (sbasis O k)) i = sget O (mcu_col O cbits tb u k) i.
  Proof.
    intros Hs H k Hk i. unfold ctrl_synth_ok in H. rewrite forallb_forall in H.
    apply (sclose_exact_sound small); [exact Hs|]. apply H. exact Hk.
  Qed.
End SparseRing.

(* ---- the borrowed-qubit ladder (Barenco et al., Lemma 7.2; model in CtrlSynth.v), with exact Toffoli gates, in exact arithmetic ---- *)
(* the ladder traversed from the target downwards and back is C^m X (x) I on all 2^(2m-1) basis states, m = 3..6 *)
Theorem ladder72_descending_ok : forallb (ladder_ok ladder_down) [3; 4; 5; 6] = true.
Proof. vm_compute. reflexivity. Qed.
(* with zero or one rung (m = 3, 4) the direction cannot matter; from two rungs on (m >= 5) the other direction is a different gate *)
Theorem ladder72_ascending : map (ladder_ok ladder_up) [3; 4; 5; 6] = [true; true; false; false].
Proof. vm_compute. reflexivity. Qed.
