(* C06: the keyed instrument through which a Pauli-basis measurement enters the reference semantics is the spectral
   resolution of its signed observable — decided exactly in Q(zeta_8) for every string over {I,X,Y,Z} of length <= 3
   and both signs. *)
From Coq Require Import List Bool Arith.
From VF Require Import Base.RingOps Base.Mat Base.K8 Sim.Measure Xform.Gauges Xform.GaugesProofs Xform.PauliMeas.
Import ListNotations.

Theorem pauli_proj_table_ok :
  forallb (fun l => pauli_proj_ok false l && pauli_proj_ok true l) (pauli_strings_upto 3) = true.
Proof. vm_compute. reflexivity. Qed.

Lemma k8row_eqb_sound : forall a b, k8row_eqb a b = true -> a = b.
Proof.
  induction a as [|x a IH]; intros [|y b] H; simpl in H; try discriminate H.
  - reflexivity.
  - apply andb_true_iff in H. destruct H as [Hx Hr].
    apply k8_eqb_sound in Hx. apply IH in Hr. subst. reflexivity.
Qed.

Lemma k8mat_eqb_sound : forall a b, k8mat_eqb a b = true -> a = b.
Proof.
  induction a as [|x a IH]; intros [|y b] H; simpl in H; try discriminate H.
  - reflexivity.
  - apply andb_true_iff in H. destruct H as [Hx Hr].
    apply k8row_eqb_sound in Hx. apply IH in Hr. subst. reflexivity.
Qed.

Theorem pauli_proj_ok_sound : forall neg l, pauli_proj_ok neg l = true -> pauli_proj_spec neg l.
Proof.
  intros neg l H. unfold pauli_proj_ok in H. unfold pauli_proj_spec.
  repeat (apply andb_true_iff in H; let H2 := fresh "E" in destruct H as [H H2]).
  repeat split; apply k8mat_eqb_sound; assumption.
Qed.

Example pauli_proj_ok_sound_nonvacuous : exists neg l, pauli_proj_ok neg l = true.
Proof. exists true, [PX; PY]. vm_compute. reflexivity. Qed.

Theorem pauli_proj_table_spec : forall neg l, In l (pauli_strings_upto 3) -> pauli_proj_spec neg l.
Proof.
  intros neg l Hin. apply pauli_proj_ok_sound.
  pose proof pauli_proj_table_ok as H. rewrite forallb_forall in H. specialize (H l Hin).
  apply andb_true_iff in H. destruct H as [Hf Ht]. destruct neg; assumption.
Qed.

Example pauli_proj_table_spec_nonvacuous : In [PY; PX; PZ] (pauli_strings_upto 3).
Proof. vm_compute. tauto. Qed.
