(* C15 — multi-controlled synthesis on many qubits (decompose_multi_controlled_x / _rotation): a sparse state-vector semantics.
   The dense reference semantics (Sim/Ref.v) costs O(4^n) list lookups per gate and column; the circuits these routines return on
   9..11 qubits (Lemma 7.2 / 7.3 of Barenco et al. need >= 5 controls and >= 3 borrowed qubits before the ladder has two rungs) keep
   every basis state a superposition of a handful of basis states, so the state is kept as a list of (index, amplitude).
   Index convention: qubit k of n (k = 0 first = most significant, as everywhere in this development) is bit n-1-k of the index.
   Definitions only; the pointwise characterisations (the textbook action of Base/Tensor.apply) are in CtrlSynthProofs.v. *)
From Coq Require Import List NArith Bool.
From VF Require Import Base.RingOps Base.Mat Base.K8.
Import ListNotations.

Section CtrlSynth.
  Context {K : Type} (O : Ops K).
  Notation "a +k b" := (kadd O a b) (at level 50, left associativity).
  Notation "a *k b" := (kmul O a b) (at level 40, left associativity).

  (* a sparse vector: entries with the same index add up (sget is the meaning) *)
  Definition sv := list (N * K).
  Definition sget (v : sv) (i : N) : K := ksum O (map snd (filter (fun e => N.eqb (fst e) i) v)).

  (* the gates the two routines promise: one-qubit gates (2x2 matrix, bit), CNOT (control bit, target bit), CCNOT *)
  Inductive cop :=
  | C1 (u : matrix (K:=K)) (b : N)
  | CX (c t : N)
  | CCX (c0 c1 t : N).

  Definition flipb (i b : N) : N := if N.testbit i b then N.clearbit i b else N.setbit i b.

  (* |i> -> u[0][bit] |i, bit:=0> + u[1][bit] |i, bit:=1> *)
  Definition app1_entry (u : matrix (K:=K)) (b : N) (e : N * K) : sv :=
    let i := fst e in let x := snd e in
    if N.testbit i b then [(N.clearbit i b, mget O u 0 1 *k x); (i, mget O u 1 1 *k x)]
    else [(i, mget O u 0 0 *k x); (N.setbit i b, mget O u 1 0 *k x)].
  Definition app1 (u : matrix (K:=K)) (b : N) (v : sv) : sv := flat_map (app1_entry u b) v.
  Definition appcx (c t : N) (v : sv) : sv :=
    map (fun e => (if N.testbit (fst e) c then flipb (fst e) t else fst e, snd e)) v.
  Definition appccx (c0 c1 t : N) (v : sv) : sv :=
    map (fun e => (if N.testbit (fst e) c0 && N.testbit (fst e) c1 then flipb (fst e) t else fst e, snd e)) v.

  (* bookkeeping that keeps the list short: entries sorted by index, equal indices added, and (float instance only) amplitudes
     below a threshold dropped.  Neither changes sget when keep accepts everything (sget_merge, sget_prune_all). *)
  Fixpoint ins (i : N) (x : K) (v : sv) : sv :=
    match v with
    | [] => [(i, x)]
    | (j, y) :: w => match N.compare i j with
                     | Eq => (j, x +k y) :: w
                     | Lt => (i, x) :: v
                     | Gt => (j, y) :: ins i x w
                     end
    end.
  Definition merge (v : sv) : sv := fold_right (fun e acc => ins (fst e) (snd e) acc) [] v.
  Definition prune (keep : K -> bool) (v : sv) : sv := filter (fun e => keep (snd e)) v.

  Definition step (keep : K -> bool) (v : sv) (o : cop) : sv :=
    match o with
    | C1 u b => prune keep (merge (app1 u b v))
    | CX c t => appcx c t v
    | CCX c0 c1 t => appccx c0 c1 t v
    end.
  Definition srun (keep : K -> bool) (ops : list cop) (v : sv) : sv := fold_left (step keep) ops v.
  Definition sbasis (k : N) : sv := [(k, k1 O)].

  (* the reference: column k of "u on the target bit iff every control bit is 1" (identity on every other bit) *)
  Definition mcu_col (cbits : list N) (tb : N) (u : matrix (K:=K)) (k : N) : sv :=
    if forallb (N.testbit k) cbits then app1 u tb (sbasis k) else sbasis k.

  (* v - w has only negligible amplitudes *)
  Definition sneg (v : sv) : sv := map (fun e => (fst e, kopp O (snd e))) v.
  Definition sclose (small : K -> bool) (v w : sv) : bool := forallb (fun e => small (snd e)) (merge (v ++ sneg w)).

  Definition indices (n : nat) : list N := map N.of_nat (seq 0 (Nat.pow 2 n)).
  (* every column of the circuit equals the column of the controlled gate *)
  Definition ctrl_synth_ok (keep small : K -> bool) (n : nat) (cbits : list N) (tb : N) (u : matrix (K:=K)) (ops : list cop) : bool :=
    forallb (fun k => sclose small (srun keep ops (sbasis k)) (mcu_col cbits tb u k)) (indices n).
  (* the dense matrix of a sparse circuit (columns = images of the basis states), for the comparison with Sim/Ref.circ_unitary *)
  Definition sdense (n : nat) (v : sv) : list K := map (sget v) (indices n).
  Definition sunitary (keep : K -> bool) (n : nat) (ops : list cop) : matrix (K:=K) :=
    mtranspose O (map (fun k => sdense n (srun keep ops (sbasis k))) (indices n)).
End CtrlSynth.
Arguments C1 {K} _ _. Arguments CX {K} _ _. Arguments CCX {K} _ _ _.

(* the index maps of CNOT and CCNOT *)
Definition cxmap (c t i : N) : N := if N.testbit i c then flipb i t else i.
Definition ccxmap (c0 c1 t i : N) : N := if N.testbit i c0 && N.testbit i c1 then flipb i t else i.

(* ---- the borrowed-qubit ladder (Barenco et al., Lemma 7.2), with exact Toffoli gates, in exact arithmetic ----
   m controls c_0..c_{m-1}, target, m-2 borrowed qubits a_0..a_{m-3} (n = 2m-1 qubits; qubit q is bit n-1-q):
   rungs from the target downwards: CCX(c_{m-1}, a_{m-3}, target), CCX(c_{m-2}, a_{m-4}, a_{m-3}), ..., CCX(c_2, a_0, a_1), then
   CCX(c_0, c_1, a_0), and back up; the whole sequence twice restores the borrowed qubits. *)
Definition lbit (m q : nat) : N := N.of_nat (2 * m - 1 - 1 - q).
Definition lctl (m k : nat) : nat := k.
Definition ltgt (m : nat) : nat := m.
Definition lanc (m k : nat) : nat := m + 1 + k.
(* rung k (k = 0 .. m-4): CCX(c_{k+2}, a_k, a_{k+1}) *)
Definition rung {K} (m k : nat) : cop (K:=K) := CCX (lbit m (lctl m (k + 2))) (lbit m (lanc m k)) (lbit m (lanc m (k + 1))).
Definition ladder_down {K} (m : nat) : list (cop (K:=K)) := map (rung m) (rev (seq 0 (m - 3))).      (* next to the target first *)
Definition ladder_up {K} (m : nat) : list (cop (K:=K)) := map (rung m) (seq 0 (m - 3)).
Definition ladder72 {K} (first : list (cop (K:=K))) (m : nat) : list (cop (K:=K)) :=
  let top := CCX (lbit m (lctl m (m - 1))) (lbit m (lanc m (m - 3))) (lbit m (ltgt m)) in
  let bottom := CCX (lbit m (lctl m 0)) (lbit m (lctl m 1)) (lbit m (lanc m 0)) in
  let half := first ++ [bottom] ++ rev first in
  [top] ++ half ++ [top] ++ half.
Definition x8 : matrix (K:=K8) := [[k0 K8Ops; k1 K8Ops]; [k1 K8Ops; k0 K8Ops]].
Definition ladder_ok (first : nat -> list (cop (K:=K8))) (m : nat) : bool :=
  ctrl_synth_ok K8Ops (fun _ => true) (fun x => k8_eqb x (k0 K8Ops)) (2 * m - 1)
                (map (fun k => lbit m (lctl m k)) (seq 0 m)) (lbit m (ltgt m)) x8 (ladder72 (first m) m).
