(* C15 — proofs about structured inputs (Xform/KakStruct.v). *)
From Coq Require Import List Bool Ring.
From VF Require Import Base.RingOps Base.Mat Base.Harness Base.K8 Gates.GateSpecs Gates.MatTac Xform.KakCanon Xform.KakCanonProofs Xform.KakStruct.
Import ListNotations.

Section StructRing.
  Context {K : Type} (O : Ops K) (L : Laws O).
  Add Ring Kring3 : (law_ring O L).
  Infix "+" := (kadd O). Infix "*" := (kmul O). Infix "-" := (ksub O).
  Notation "- a" := (kopp O a).
  Notation z0 := (k0 O). Notation z1 := (k1 O). Notation ii := (ki O). Notation hf := (khalf O).
  Notation M := (matrix (K:=K)).
  Lemma ii2s : ii * ii = - z1. Proof. exact (law_i O L). Qed.
  Lemma half2s : hf + hf = z1. Proof. exact (law_half O L). Qed.

  (* with the first qubit in |0>, a diagonal D = diag(a, b, c, d) after any circuit C acts as diag(a, b) on the second qubit *)
  Theorem iso_restrict_sound : forall (m : M) a b c d, is44 m ->
    first_cols2 (mmul O m (diag4 O a b c d)) = first_cols2 (mmul O m (iso_restrict O a b c d)).
  Proof.
    intros m a b c d Hm.
    destruct Hm as (? & ? & ? & ? & ? & ? & ? & ? & ? & ? & ? & ? & ? & ? & ? & ? & ->).
    mat_entries ltac:(ring).
  Qed.
  (* the entries of the other half, diag(a, c), do the same only when b = c: what generic inputs (D = diag(1, f, f, 1)) satisfy *)
  Theorem iso_other_half_symmetric : forall (m : M) a b d, is44 m ->
    first_cols2 (mmul O m (diag4 O a b b d)) = first_cols2 (mmul O m (iso_restrict_other_half O a b b d)).
  Proof.
    intros m a b d Hm.
    destruct Hm as (? & ? & ? & ? & ? & ? & ? & ? & ? & ? & ? & ? & ? & ? & ? & ? & ->).
    mat_entries ltac:(ring).
  Qed.

  (* SWAP**-1 = SWAP; ISWAP**-1 is the inverse of ISWAP, and ISWAP . ISWAP = diag(1, -1, -1, 1) is not a scalar matrix *)
  Theorem swap_pow_m1_is_swap : swap_pow_m1 O = swap_pow_1 O.
  Proof. mat_entries ltac:(ring [ii2s half2s]). Qed.
  Theorem iswap_pow_m1_inverse : mmul O (iswap_pow_1 O) (iswap_pow_m1 O) = mid O 4.
  Proof. mat_entries ltac:(ring [ii2s half2s]). Qed.
  Theorem iswap_pow_1_square : mmul O (iswap_pow_1 O) (iswap_pow_1 O) = diag4 O z1 (- z1) (- z1) z1.
  Proof. mat_entries ltac:(ring [ii2s half2s]). Qed.
  (* hence a phase g with g ISWAP = ISWAP**-1 can only exist in a ring where 1 = -1 *)
  Theorem iswap_pow_m1_phase_multiple : forall g, mscale O g (iswap_pow_1 O) = iswap_pow_m1 O -> z1 = - z1.
  Proof.
    intros g H.
    assert (H00 := f_equal (fun m => mget O m 0 0) H).
    assert (H12 := f_equal (fun m => mget O m 1 2) H).
    cbv -[kadd kmul kopp ksub kconj k0 k1 ki khalf ks2] in H00, H12.
    assert (Hg : g = z1) by (transitivity (g * (z1 * z1)); [ring | rewrite H00; ring]).
    subst g.
    transitivity (- ii * (z1 * (z1 * (ii * (- ii * ((ii - - ii) * hf)))))); [ring [ii2s half2s] | ].
    rewrite H12. ring [ii2s half2s].
  Qed.
End StructRing.

(* exact instances (K8 = Z[1/2][zeta_8]) *)
(* mat = I (x) Z, C = identity: the q1 = |0> half of D gives the identity instead of Z *)
Example iso_other_half_refuted :
  let m1 := kopp K8Ops (k1 K8Ops) in
  meqb k8_eqb (first_cols2 (mmul K8Ops (mid K8Ops 4) (diag4 K8Ops (k1 K8Ops) m1 (k1 K8Ops) m1)))
              (first_cols2 (mmul K8Ops (mid K8Ops 4) (iso_restrict_other_half K8Ops (k1 K8Ops) m1 (k1 K8Ops) m1))) = false
  /\ meqb k8_eqb (first_cols2 (mmul K8Ops (mid K8Ops 4) (diag4 K8Ops (k1 K8Ops) m1 (k1 K8Ops) m1)))
                 (first_cols2 (mmul K8Ops (mid K8Ops 4) (iso_restrict K8Ops (k1 K8Ops) m1 (k1 K8Ops) m1))) = true.
Proof. vm_compute. split; reflexivity. Qed.

Theorem iswap_pow_m1_not_iswap_up_to_phase : forall g : K8, mscale K8Ops g (iswap_pow_1 K8Ops) <> iswap_pow_m1 K8Ops.
Proof.
  intros g H. apply (iswap_pow_m1_phase_multiple K8Ops K8Laws) in H.
  assert (E : k8_eqb (k1 K8Ops) (kopp K8Ops (k1 K8Ops)) = true) by (rewrite <- H; vm_compute; reflexivity).
  vm_compute in E. discriminate E.
Qed.
