(* C06, gauge tables: the decision procedures for "a gauge replacement equals the replaced gate up to a unit scalar"
   and "a dynamical-decoupling base sequence multiplies to a scalar".  Definitions only; the theorems that the
   regenerated tables pass are in GaugesProofs.v.

   A gauge replaces the two-qubit gate G on (q0,q1) by  pre_q0/pre_q1 -> G' -> post_q0/post_q1; with q0 the most
   significant qubit (kron's convention) the replacement's matrix is
       gauge_lhs = (POST0 (x) POST1) . Geff' . (PRE0 (x) PRE1)
   and it is correct iff gauge_lhs = c . G for a scalar c with c * conj c = 1. *)
From Coq Require Import List Bool Arith ZArith PrimFloat.
From VF Require Import Base.RingOps Base.Mat Base.K8 Base.FloatInst Generated.GaugeTables.
Import ListNotations.
Local Close Scope float_scope.

Section GaugeGeneric.
  Context {K : Type} (O : Ops K).

  Definition gauge_lhs (e : gauge_entry (K:=K)) : matrix (K:=K) :=
    mmul O (kron O (g_post0 e) (g_post1 e)) (mmul O (g_eff e) (kron O (g_pre0 e) (g_pre1 e))).

  (* product of a sequence of d x d gates given in application order: the later gate multiplies on the left *)
  Definition seq_product (d : nat) (l : list (matrix (K:=K))) : matrix (K:=K) :=
    fold_left (fun acc g => mmul O g acc) l (mid O d).

  (* a d x d list of lists (kron/mmul silently truncate ragged input, so the shapes are part of every check) *)
  Definition is_square (d : nat) (m : matrix (K:=K)) : bool :=
    Nat.eqb (length m) d && forallb (fun r => Nat.eqb (length r) d) m.

  Definition gauge_dims_ok (e : gauge_entry (K:=K)) : bool :=
    is_square 4 (g_target e) && is_square 2 (g_pre0 e) && is_square 2 (g_pre1 e) &&
    is_square 4 (g_eff e) && is_square 2 (g_post0 e) && is_square 2 (g_post1 e).
End GaugeGeneric.

(* ---- exact decision over K8 = Q(zeta_8) ---- *)
Definition k8m (a b : K8) : K8 := kmul K8Ops a b.
Definition k8_is0 (x : K8) : bool := k8_eqb x (k0 K8Ops).
Definition k8get (m : matrix (K:=K8)) (i j : nat) : K8 := mget K8Ops m i j.

Fixpoint first_nz_row (r : list K8) (j : nat) : option nat :=
  match r with
  | [] => None
  | x :: r' => if k8_is0 x then first_nz_row r' (S j) else Some j
  end.
(* position of the first non-zero entry, row-major *)
Fixpoint first_nz (m : matrix (K:=K8)) (i : nat) : option (nat * nat) :=
  match m with
  | [] => None
  | r :: m' => match first_nz_row r 0 with Some j => Some (i, j) | None => first_nz m' (S i) end
  end.

(* lhs = c . g with c = lhs[i][j] / g[i][j], decided by cross-multiplication on all d x d positions *)
Definition proportional_at (d : nat) (lhs g : matrix (K:=K8)) (i j : nat) : bool :=
  forallb (fun k => forallb (fun l =>
     k8_eqb (k8m (k8get lhs k l) (k8get g i j)) (k8m (k8get g k l) (k8get lhs i j))) (seq 0 d)) (seq 0 d).

(* |c| = 1 for that c:  lhs[i][j] * conj lhs[i][j] = g[i][j] * conj g[i][j] *)
Definition unit_scalar_at (lhs g : matrix (K:=K8)) (i j : nat) : bool :=
  k8_eqb (k8m (k8get lhs i j) (kconj K8Ops (k8get lhs i j))) (k8m (k8get g i j) (kconj K8Ops (k8get g i j))).

Definition proportional_unit (d : nat) (lhs g : matrix (K:=K8)) : bool :=
  is_square d lhs && is_square d g &&
  match first_nz g 0 with
  | None => false
  | Some (i, j) => negb (k8_is0 (k8get lhs i j)) && proportional_at d lhs g i j && unit_scalar_at lhs g i j
  end.

Definition gauge_ok_exact (e : gauge_entry (K:=K8)) : bool :=
  gauge_dims_ok e && proportional_unit 4 (gauge_lhs K8Ops e) (g_target e).

(* ---- float decision (entries outside Q(zeta_8)): equality up to a global phase within tol ---- *)
Definition gauge_ok_float (tol : float) (e : gauge_entry (K:=FC)) : bool :=
  gauge_dims_ok e && fcll_close_phase tol (gauge_lhs FOps e) (g_target e).

(* ---- dynamical decoupling: at least two gates, and the sequence multiplies to c . I with c <> 0 ---- *)
Definition dd_ok (s : list (matrix (K:=K8))) : bool :=
  let p := seq_product K8Ops 2 s in
  Nat.leb 2 (length s) && forallb (is_square 2) s && is_square 2 p &&
  k8_is0 (k8get p 0 1) && k8_is0 (k8get p 1 0) &&
  k8_eqb (k8get p 0 0) (k8get p 1 1) && negb (k8_is0 (k8get p 0 0)).
