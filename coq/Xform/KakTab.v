(* C15 — the heuristic tabulation decomposition (`cirq.two_qubit_gate_product_tabulation`,
   `TwoQubitGateTabulation.compile_two_qubit_gate`), definitions only; proofs in KakTabProofs.v.

   `TwoQubitGateTabulationResult` documents
        U_target ~ k_N . U_base . k_{N-1} . ... . k_1 . U_base . k_0
   with `local_unitaries` = (k_0, ..., k_N), k_j = k_j0 (x) k_j1, and `actual_gate` "the right hand side above":
   `tab_product`.  The layers are listed in time order (k_0 acts first).
   `compile_two_qubit_gate` takes the tabulated inner layers (k_1, ..., k_n), forms
        functools.reduce(lambda a, b: A @ b @ a, inner, A)  =  A . k_n . A ... A . k_1 . A        (`inner_product`)
   solves the outer locals kL, kR against it (actual_gate = kL . inner_product . kR up to a phase) and returns
   (kR, k_1, ..., k_n, kL)  (`tab_result`).
   The closeness of two gates is judged by the entanglement fidelity |tr(U^dagger V)|^2 / 16: `overlap`. *)
From Coq Require Import List.
From VF Require Import Base.RingOps Base.Mat Xform.KakCount.
Import ListNotations.

Section Tab.
  Context {K : Type} (O : Ops K).
  Notation M := (matrix (K:=K)).

  Definition id4 : M := kron O (mid O 2) (mid O 2).
  (* one more layer after the base gate: acc |-> k . A . acc *)
  Definition tab_step (A acc k : M) : M := mmul O k (mmul O A acc).
  Definition tab_product (A : M) (ks : list M) : M :=
    match ks with
    | [] => id4
    | k0 :: rest => fold_left (tab_step A) rest k0
    end.
  (* the reduce of compile_two_qubit_gate *)
  Definition inner_step (A a b : M) : M := mmul O A (mmul O b a).
  Definition inner_product (A : M) (inner : list M) : M := fold_left (inner_step A) inner A.
  Definition tab_result (kR kL : M) (inner : list M) : list M := kR :: inner ++ [kL].
  (* tr(U^dagger V) of 4x4 matrices; the entanglement fidelity is |overlap|^2 / 16 *)
  Definition overlap (U V : M) : K := trace4 O (mmul O (mdagger O U) V).
End Tab.
