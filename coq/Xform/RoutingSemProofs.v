(* C07 -- the routing model on states: what the emission model produces, read through the final mapping,
   is the logical stream applied to the initial state read through the initial mapping. *)
From Coq Require Import List Arith Bool Lia Ring.
From VF Require Import Base.RingOps Base.Mat Base.Tensor Base.TensorProofs Xform.Routing Xform.RoutingProofs Xform.RoutingSem.
Import ListNotations.

(* ---------- index bookkeeping ---------- *)
Lemma upd_length i : forall a v, length (upd i a v) = length i.
Proof. induction i as [|x r IH]; intros [|a] v; simpl; auto. Qed.

Lemma upds_length ax : forall i vs, length (upds i ax vs) = length i.
Proof.
  induction ax as [|a ax IH]; intros i vs; simpl; [reflexivity|].
  destruct vs as [|v vs]; [reflexivity|]. rewrite IH. apply upd_length.
Qed.

Lemma get_upd i a k v : a < length i -> get (upd i a v) k = if Nat.eqb k a then v else get i k.
Proof.
  intros H. destruct (Nat.eqb k a) eqn:E.
  - apply Nat.eqb_eq in E. subst. apply get_upd_same. exact H.
  - apply Nat.eqb_neq in E. apply get_upd_other. congruence.
Qed.

Lemma idx_ext (i j : idx) : length i = length j -> (forall k, k < length i -> get i k = get j k) -> i = j.
Proof.
  revert j. induction i as [|x r IH]; intros [|y s] HL H; simpl in *; try discriminate; [reflexivity|].
  f_equal.
  - exact (H 0 ltac:(lia)).
  - apply IH; [lia|]. intros k Hk. exact (H (S k) ltac:(lia)).
Qed.

Lemma perm_idx_length n g i : length (perm_idx n g i) = n.
Proof. unfold perm_idx. rewrite map_length, seq_length. reflexivity. Qed.

Lemma get_perm_idx n g i p : p < n -> get (perm_idx n g i) p = get i (nth p g 0).
Proof.
  intros H. unfold perm_idx, get.
  rewrite (nth_indep _ 0 (nth (nth 0 g 0) i 0)) by (rewrite map_length, seq_length; exact H).
  rewrite (map_nth (fun p => nth (nth p g 0) i 0)). rewrite seq_nth by exact H. reflexivity.
Qed.

Lemma bits_get i k : bits i -> get i k < 2.
Proof.
  unfold bits, get. intros H. revert k. induction H as [|x r Hx _ IH]; intros [|k]; simpl; try lia. apply IH.
Qed.

Lemma bits_upd i : forall a v, bits i -> v < 2 -> bits (upd i a v).
Proof.
  unfold bits. induction i as [|x r IH]; intros [|a] v H Hv; simpl; try assumption.
  - inversion H; subst. constructor; assumption.
  - inversion H; subst. constructor; [assumption|]. apply IH; assumption.
Qed.

Lemma bits_upds ax : forall i vs, bits i -> bits vs -> bits (upds i ax vs).
Proof.
  induction ax as [|a ax IH]; intros i vs Hi Hv; simpl; [exact Hi|].
  destruct vs as [|v vs]; [exact Hi|]. inversion Hv; subst.
  apply IH; [apply bits_upd; assumption|assumption].
Qed.

Lemma enum_bits k v : In v (enum (repeat 2 k)) -> bits v.
Proof.
  revert v. induction k as [|k IH]; intros v H.
  - simpl in H. destruct H as [<-|[]]. constructor.
  - change (enum (repeat 2 (S k))) with (flat_map (fun x => map (cons x) (enum (repeat 2 k))) (seq 0 2)) in H.
    apply in_flat_map in H as [x [Hx Hv]]. apply in_map_iff in Hv as [w [<- Hw]].
    apply in_seq in Hx. constructor; [lia|]. apply IH. exact Hw.
Qed.

(* reading an updated logical index through the mapping = updating the physical index at the mapped position *)
Lemma perm_idx_upd n f g i q x : inv_on n f g -> inv_on n g f -> length i = n -> q < n ->
  perm_idx n g (upd i q x) = upd (perm_idx n g i) (nth q f 0) x.
Proof.
  intros Hfg Hgf Hl Hq. destruct (Hfg q Hq) as [Pq Jq].
  apply idx_ext; [rewrite upd_length, !perm_idx_length; reflexivity|].
  rewrite perm_idx_length. intros p Hp. destruct (Hgf p Hp) as [Pp Jp].
  rewrite get_perm_idx by exact Hp.
  rewrite (get_upd i q) by (rewrite Hl; exact Hq).
  rewrite (get_upd (perm_idx n g i)) by (rewrite perm_idx_length; exact Pq).
  rewrite get_perm_idx by exact Hp.
  destruct (Nat.eqb (nth p g 0) q) eqn:E1; destruct (Nat.eqb p (nth q f 0)) eqn:E2; try reflexivity; exfalso.
  - apply Nat.eqb_eq in E1. apply Nat.eqb_neq in E2. apply E2. rewrite <- E1. symmetry. exact Jp.
  - apply Nat.eqb_neq in E1. apply Nat.eqb_eq in E2. apply E1. rewrite E2. exact Jq.
Qed.

Lemma perm_idx_upds n f g qs : inv_on n f g -> inv_on n g f -> (forall q, In q qs -> q < n) ->
  forall i vs, length i = n -> perm_idx n g (upds i qs vs) = upds (perm_idx n g i) (map_qs f qs) vs.
Proof.
  intros Hfg Hgf. induction qs as [|q qs IH]; intros Hq i vs Hl; simpl; [reflexivity|].
  destruct vs as [|v vs]; [reflexivity|].
  rewrite IH by (try (intros; apply Hq; right; assumption); rewrite upd_length; exact Hl).
  rewrite (perm_idx_upd n f g i q v Hfg Hgf Hl (Hq q (or_introl eq_refl))). reflexivity.
Qed.

Lemma gets_perm_idx n f g qs i : inv_on n f g -> (forall q, In q qs -> q < n) ->
  gets (perm_idx n g i) (map_qs f qs) = gets i qs.
Proof.
  intros Hfg Hq. unfold gets, map_qs. rewrite map_map. apply map_ext_in. intros q Hin.
  destruct (Hfg q (Hq q Hin)) as [P J]. rewrite get_perm_idx by exact P. rewrite J. reflexivity.
Qed.

Section SemProofs.
  Context {K : Type} (O : Ops K) (L : Laws O).
  Add Ring Kring2 : (law_ring O L).
  Variable mat_of_id : nat -> matrix (K:=K).
  Notation den_l := (den_l mat_of_id).
  Notation den_p := (den_p O mat_of_id).

  (* (A) an operation emitted on the mapped qubits, read through the mapping, is the operation on its own qubits *)
  Lemma view_apply n f g (U : mat (K:=K)) d qs (phi : tensor (K:=K)) i :
    inv_on n f g -> inv_on n g f -> (forall q, In q qs -> q < n) -> length i = n ->
    view n g (apply O U d (map_qs f qs) phi) i = apply O U d qs (view n g phi) i.
  Proof.
    intros Hfg Hgf Hq Hl. unfold view, apply.
    rewrite (gets_perm_idx n f g qs i Hfg Hq).
    apply (ksum_ext O). intros v _.
    rewrite (perm_idx_upds n f g qs Hfg Hgf Hq i v Hl). reflexivity.
  Qed.

  (* the SWAP matrix exchanges the two digits *)
  Lemma apply_swap_matrix a b (phi : tensor (K:=K)) i : bits i ->
    apply O (mat_of O [2; 2] (swap_matrix O)) [2; 2] [a; b] phi i = phi (upds i [a; b] [get i b; get i a]).
  Proof.
    intros Hb. unfold apply. simpl enum. unfold gets. simpl map at 2.
    pose proof (bits_get i a Hb) as Ha. pose proof (bits_get i b Hb) as Hbb.
    destruct (get i a) as [|[|x]] eqn:Ea; [| |lia]; destruct (get i b) as [|[|y]] eqn:Eb; try lia;
      unfold mat_of, mget, swap_matrix, index; simpl; ring.
  Qed.

  (* (B) an inserted swap followed by apply_swap leaves the logical reading unchanged *)
  Lemma view_swap n g pa pb (phi : tensor (K:=K)) i :
    length g = n -> pa < n -> pb < n -> pa <> pb -> bits i ->
    view n (swap_entries g pa pb) (apply O (mat_of O [2; 2] (swap_matrix O)) [2; 2] [pa; pb] phi) i = view n g phi i.
  Proof.
    intros Lg Ha Hb Hne Hbits. unfold view.
    assert (HJ : bits (perm_idx n (swap_entries g pa pb) i)).
    { unfold bits, perm_idx. apply Forall_forall. intros x Hx. apply in_map_iff in Hx as [p [<- _]]. apply bits_get. exact Hbits. }
    rewrite apply_swap_matrix by exact HJ. f_equal.
    apply idx_ext; [rewrite upds_length, !perm_idx_length; reflexivity|].
    rewrite upds_length, perm_idx_length. intros p Hp.
    simpl upds.
    rewrite get_upd by (rewrite upd_length, perm_idx_length; exact Hb).
    rewrite get_upd by (rewrite perm_idx_length; exact Ha).
    rewrite !get_perm_idx by assumption.
    rewrite !nth_swap_entries by lia. rewrite !Nat.eqb_refl.
    destruct (Nat.eqb p pb) eqn:E1.
    - apply Nat.eqb_eq in E1. subst p.
      destruct (Nat.eqb pa pb) eqn:E; [apply Nat.eqb_eq in E; congruence|reflexivity].
    - destruct (Nat.eqb p pa) eqn:E2; [|reflexivity].
      apply Nat.eqb_eq in E2. subst p. reflexivity.
  Qed.

  (* runs agree on bit indices of the right length when the states do (operations act on qubits) *)
  Definition qubit_op (o : Tensor.rop (K:=K)) : Prop := exists k, rop_dims o = repeat 2 k.
  Lemma run_ext_bits n ops : Forall qubit_op ops -> forall (p q : tensor (K:=K)),
    (forall j, length j = n -> bits j -> p j = q j) ->
    forall i, length i = n -> bits i -> run O ops p i = run O ops q i.
  Proof.
    induction 1 as [|o ops [k Hk] _ IH]; intros p q H i Hl Hb; simpl; [apply H; assumption|].
    apply IH; try assumption. intros j Hjl Hjb. unfold apply. apply (ksum_ext O). intros v Hv.
    rewrite H; [reflexivity|rewrite upds_length; exact Hjl|].
    apply bits_upds; [exact Hjb|]. rewrite Hk in Hv. apply (enum_bits k). exact Hv.
  Qed.

  Lemma den_l_qubit l : Forall qubit_op (map den_l l).
  Proof. apply Forall_forall. intros o Ho. apply in_map_iff in Ho as [x [<- _]]. exists (length (o_qs x)). reflexivity. Qed.

  (* the emission model on states *)
  Theorem emit_sem n : forall ls m (phi : tensor (K:=K)), mm_ok n m -> wf_ls n ls ->
    forall i, length i = n -> bits i ->
    view n (p2l (final_mm m ls)) (run O (map den_p (emit m ls)) phi) i
    = run O (map den_l (ops_of ls)) (view n (p2l m) phi) i.
  Proof.
    induction ls as [|x ls IH]; intros m phi Hm Hwf i Hl Hb; simpl; [reflexivity|].
    destruct x as [o|a b]; simpl in Hwf |- *.
    - destruct Hwf as [Hq Hwf]. rewrite (IH m _ Hm Hwf i Hl Hb).
      apply (run_ext_bits n); [apply den_l_qubit| |assumption|assumption].
      intros j Hjl Hjb. destruct Hm as (_ & _ & I1 & I2).
      unfold remap. simpl. unfold map_qs at 1 2. rewrite map_length. fold (map_qs (l2p m) (o_qs o)).
      apply (view_apply n (l2p m) (p2l m)); assumption.
    - destruct Hwf as (Ha & Hb' & Hne & Hwf).
      pose proof (apply_swap_ok n m a b Hm Ha Hb') as Hm'.
      rewrite (IH _ _ Hm' Hwf i Hl Hb).
      apply (run_ext_bits n); [apply den_l_qubit| |assumption|assumption].
      intros j Hjl Hjb. destruct Hm as (L1 & L2 & I1 & I2).
      destruct (I1 a Ha) as [Pa _]. destruct (I1 b Hb') as [Pb _].
      unfold apply_swap. simpl p2l.
      apply view_swap; try assumption.
      intro E. apply Hne. exact (inv_on_inj n (l2p m) (p2l m) a b I1 Ha Hb' E).
  Qed.
End SemProofs.

(* what replay reconstructs is well formed *)
Lemma replay_wf n g d : forall routed m ls, mm_ok n m -> replay n g d m routed = Some ls -> wf_ls n ls.
Proof.
  induction routed as [|r routed IH]; intros m ls Hm H; simpl in H.
  - injection H as <-. exact I.
  - destruct r as [o|a b|c t|q]; try discriminate.
    + destruct (all_lt n (o_qs o) && op_on_edge g d (o_qs o)) eqn:E; [|discriminate].
      apply andb_true_iff in E as [E1 _].
      destruct (replay n g d m routed) as [ls0|] eqn:Er; [|discriminate].
      injection H as <-. simpl. split; [|exact (IH m ls0 Hm Er)].
      intros q Hq. unfold map_qs in Hq. apply in_map_iff in Hq as [p [<- Hp]].
      destruct Hm as (_ & _ & _ & I2). destruct (I2 p (all_lt_spec n _ E1 p Hp)) as [P _]. exact P.
    + destruct (Nat.ltb a n && Nat.ltb b n && negb (Nat.eqb a b) && on_edge g d a b) eqn:E; [|discriminate].
      apply andb_true_iff in E as [E _]. apply andb_true_iff in E as [E Eab]. apply andb_true_iff in E as [E1 E2].
      apply Nat.ltb_lt in E1. apply Nat.ltb_lt in E2. apply negb_true_iff in Eab. apply Nat.eqb_neq in Eab.
      destruct (replay n g d (apply_swap m (nth a (p2l m) 0) (nth b (p2l m) 0)) routed) as [ls0|] eqn:Er; [|discriminate].
      injection H as <-. pose proof Hm as (_ & _ & I1 & I2).
      destruct (I2 a E1) as [Pa _]. destruct (I2 b E2) as [Pb _]. simpl.
      split; [exact Pa|]. split; [exact Pb|]. split.
      * intro Ex. apply Eab. exact (inv_on_inj n (p2l m) (l2p m) a b I2 E1 E2 Ex).
      * exact (IH _ ls0 (apply_swap_ok n m _ _ Hm Pa Pb) Er).
Qed.

(* THE semantic statement for certificates on undirected graphs (no directed-graph pieces): the routed circuit, read
   through the final mapping, computes what the original circuit computes on the initial state read through the
   initial mapping -- for every assignment of matrices to the operation identities, over every ring with the laws *)
Theorem route_ok_sem {K : Type} (O : Ops K) (L : Laws O) (mat_of_id : nat -> matrix (K:=K))
        n orig routed init final g d :
  forallb plain routed = true ->
  route_ok n orig routed init final g d = true ->
  exists mfin : mm,
    mm_ok n mfin /\
    (forall k, k < length init -> nth k (l2p mfin) 0 = nth (nth k init 0) final 0) /\
    forall (phi : tensor (K:=K)) i, length i = n -> bits i ->
      view n (p2l mfin) (run O (map (den_p O mat_of_id) routed) phi) i
      = run O (map (den_l mat_of_id) orig) (view n (p2l (mm_init init)) phi) i.
Proof.
  intros Hp H. pose proof H as H0. unfold route_ok in H0.
  apply andb_true_iff in H0 as [H0 H3]. apply andb_true_iff in H0 as [H1 _].
  rewrite (collapse_plain routed Hp) in H3.
  destruct (replay n g d (mm_init init) routed) as [ls|] eqn:Er; [|discriminate].
  apply andb_true_iff in H3 as [Ht Hf]. apply mm_ok_b_sound in H1.
  destruct (replay_sound n g d routed (mm_init init) ls H1 Er) as (Ha & _ & Hc).
  exists (final_mm (mm_init init) ls). split; [exact Hc|]. split; [apply final_ok_spec; exact Hf|].
  intros phi i Hl Hb. rewrite <- Ha.
  rewrite (emit_sem O L mat_of_id n ls (mm_init init) phi H1 (replay_wf n g d routed _ ls H1 Er) i Hl Hb).
  apply (teq_same_run O L (den_l mat_of_id)); [reflexivity|].
  apply trace_equiv_b_sound. exact Ht.
Qed.

(* ---------- the directed-graph block is a SWAP (exact, Q(zeta_8)) ---------- *)
From VF Require Import Base.K8 Base.Harness.
Definition cx8 : matrix (K:=K8) :=
  let o := k1 K8Ops in let z := k0 K8Ops in [[o; z; z; z]; [z; o; z; z]; [z; z; z; o]; [z; z; o; z]].
Definition h8 : matrix (K:=K8) := let s := ks2 K8Ops in [[s; s]; [s; kopp K8Ops s]].
Definition hh8 : matrix (K:=K8) := kron K8Ops h8 h8.
Definition block8 : matrix (K:=K8) := mmul K8Ops cx8 (mmul K8Ops hh8 (mmul K8Ops cx8 (mmul K8Ops hh8 cx8))).
(* CNOT . (H x H) . CNOT . (H x H) . CNOT = SWAP, the identity collapse relies on *)
Theorem directed_swap_block : list_eqb (list_eqb k8_eqb) block8 (swap_matrix K8Ops) = true.
Proof. vm_compute. reflexivity. Qed.
