(* The invariant of eject_z's phase-tracking loop (Xform/EjectZ.v):
     Phi(tracked phases) . (emitted so far)  =  (original prefix) . Phi(initial phases)
   for every denotation of the operations in a monoid in which Z phases add up and commute with each other,
   a phased gate satisfies  g . Phi = Phi . g^phased  (the matrix identity phase_by implements), swap-like gates
   exchange the phases of their two qubits, measurements absorb the phases of their qubits, and an opaque operation
   commutes with the phases of the qubits it does not touch.  A PhasedXZ gate is its x part followed by its z rotation; a
   qubit's mark points at an emitted PhasedXZ gate with z exponent 0 after which nothing was emitted on that qubit, so (Z
   rotations commute with operations on other qubits) writing the final phase into that gate equals appending the Z gate.
   Consequence: the emitted circuit equals the input. *)
From Coq Require Import List Arith ZArith Bool Lia.
From VF Require Import Xform.EjectZ.
Import ListNotations.
Local Open Scope Z_scope.

Section Sem.
  Variable G M : Type.
  Variable mul : M -> M -> M.
  Variable one : M.
  Hypothesis mul_assoc : forall a b c, mul a (mul b c) = mul (mul a b) c.
  Hypothesis one_l : forall a, mul one a = a.
  Hypothesis one_r : forall a, mul a one = a.
  Variable zden : nat -> Z -> M.
  Variable gden : G -> list nat -> list Z -> M.
  Variable sden : G -> nat -> nat -> M.
  Variable mden oden : G -> list nat -> M.
  Variable period : Z.
  Variable allq : list nat.
  Hypothesis allq_nodup : NoDup allq.

  Definition PhiL (l : list nat) (ph : phases) : M := fold_right (fun q acc => mul (zden q (ph q)) acc) one l.
  Definition Phi (ph : phases) : M := PhiL allq ph.

  Hypothesis z_zero : forall q, zden q 0 = one.
  Hypothesis z_period : forall q k, k mod period = 0 -> zden q k = one.
  Hypothesis z_add : forall q p p', zden q (p + p') = mul (zden q p) (zden q p').
  Hypothesis z_comm : forall q q' p p', q <> q' -> mul (zden q p) (zden q' p') = mul (zden q' p') (zden q p).
  Hypothesis gate_law : forall g qs ph, mul (gden g qs (map (fun _ => 0) qs)) (Phi ph) = mul (Phi ph) (gden g qs (map ph qs)).
  Hypothesis swap_law : forall g a b ph, mul (sden g a b) (Phi ph) = mul (Phi (pswap ph a b)) (sden g a b).
  Hypothesis meas_law : forall g qs ph, mul (mden g qs) (Phi ph) = mul (Phi (preset ph qs)) (mden g qs).
  Hypothesis opaque_law : forall g qs ph, (forall q, In q qs -> ph q = 0) -> mul (oden g qs) (Phi ph) = mul (Phi ph) (oden g qs).

  (* a PhasedXZ gate is its x part (a phaseable gate on one qubit) followed by its z rotation *)
  Definition iden (o : iop G) : M :=
    match o with
    | IZ q p => zden q p
    | IGate g qs => gden g qs (map (fun _ => 0) qs)
    | ISwap g a b => sden g a b
    | IMeas g qs => mden g qs
    | IOpaque g qs => oden g qs
    | IPhXZ g q z => mul (zden q z) (gden g [q] [0])
    end.
  Definition oden' (o : oop G) : M :=
    match o with
    | OZ q p => zden q p
    | OGate g qs ps => gden g qs ps
    | OSwap g a b => sden g a b
    | OMeas g qs => mden g qs
    | OOpaque g qs => oden g qs
    | OPhXZ g q p z => mul (zden q z) (gden g [q] [p])
    end.
  (* the qubits an emitted operation acts on *)
  Definition touches (o : oop G) (q : nat) : Prop :=
    match o with
    | OZ x _ => x = q
    | OGate _ qs _ => In q qs
    | OSwap _ a b => a = q \/ b = q
    | OMeas _ qs => In q qs
    | OOpaque _ qs => In q qs
    | OPhXZ _ x _ _ => x = q
    end.
  (* locality: a Z rotation of a qubit commutes with every operation that does not act on that qubit *)
  Hypothesis local_law : forall o q v, ~ touches o q -> mul (zden q v) (oden' o) = mul (oden' o) (zden q v).
  (* the operator of a list of operations: later operations multiply on the left *)
  Definition icomp (l : list (iop G)) : M := fold_right (fun o acc => mul acc (iden o)) one l.
  Definition ocomp (l : list (oop G)) : M := fold_right (fun o acc => mul acc (oden' o)) one l.

  Lemma ocomp_app l1 l2 : ocomp (l1 ++ l2) = mul (ocomp l2) (ocomp l1).
  Proof.
    induction l1 as [|o l1 IH]; simpl; [rewrite one_r; reflexivity|].
    rewrite IH. rewrite mul_assoc. reflexivity.
  Qed.

  (* input operations only mention qubits of the register *)
  Definition wf (o : iop G) : Prop :=
    match o with
    | IZ q _ => In q allq
    | IOpaque _ qs => forall q, In q qs -> In q allq
    | IPhXZ _ q _ => In q allq
    | _ => True
    end.

  Lemma z_comm_any q q' p p' : mul (zden q p) (zden q' p') = mul (zden q' p') (zden q p).
  Proof.
    destruct (Nat.eq_dec q q') as [->|Hn]; [|apply z_comm; exact Hn].
    rewrite <- !z_add. rewrite Z.add_comm. reflexivity.
  Qed.

  Lemma PhiL_ext l ph ph' : (forall q, In q l -> ph q = ph' q) -> PhiL l ph = PhiL l ph'.
  Proof.
    induction l as [|x l IH]; intros H; simpl; [reflexivity|].
    rewrite H by (left; reflexivity). rewrite IH; [reflexivity|]. intros q Hq. apply H. right. exact Hq.
  Qed.

  Lemma z_comm_PhiL l ph q p : mul (zden q p) (PhiL l ph) = mul (PhiL l ph) (zden q p).
  Proof.
    induction l as [|x l IH]; simpl; [rewrite one_l, one_r; reflexivity|].
    rewrite mul_assoc. rewrite (z_comm_any q x). rewrite <- mul_assoc. rewrite IH. rewrite mul_assoc. reflexivity.
  Qed.

  Lemma PhiL_pset_out l ph q v : ~ In q l -> PhiL l (pset ph q v) = PhiL l ph.
  Proof.
    intros Hn. apply PhiL_ext. intros x Hx. unfold pset.
    destruct (Nat.eqb_spec x q) as [->|_]; [contradiction|reflexivity].
  Qed.

  Lemma PhiL_pset_add l ph q p : NoDup l -> In q l ->
    PhiL l (pset ph q (ph q + p)) = mul (zden q p) (PhiL l ph).
  Proof.
    induction l as [|x l IH]; intros Hnd Hin; [inversion Hin|].
    inversion Hnd as [|? ? Hx Hnd']; subst. simpl.
    destruct (Nat.eq_dec x q) as [->|Hne].
    - rewrite PhiL_pset_out by exact Hx. unfold pset at 1. rewrite Nat.eqb_refl.
      rewrite Z.add_comm, z_add. rewrite mul_assoc. reflexivity.
    - destruct Hin as [Hq|Hq]; [congruence|].
      rewrite IH by assumption. unfold pset at 1.
      destruct (Nat.eqb_spec x q) as [E|_]; [congruence|].
      rewrite mul_assoc. rewrite (z_comm_any x q). rewrite <- mul_assoc. reflexivity.
  Qed.

  Lemma Phi_pset_add ph q p : In q allq -> Phi (pset ph q (ph q + p)) = mul (zden q p) (Phi ph).
  Proof. intros H. apply PhiL_pset_add; assumption. Qed.

  (* putting a zeroed phase back as an explicit Z gate *)
  Lemma Phi_restore ph q : In q allq -> mul (Phi (pset ph q 0)) (zden q (ph q)) = Phi ph.
  Proof.
    intros Hq. unfold Phi. rewrite <- z_comm_PhiL.
    rewrite <- (PhiL_pset_add allq (pset ph q 0) q (ph q)) by assumption.
    apply PhiL_ext. intros x _. unfold pset.
    destruct (Nat.eqb_spec x q) as [->|_]; [rewrite ?Nat.eqb_refl; lia|reflexivity].
  Qed.

  Lemma dump_spec : forall qs ph, (forall q, In q qs -> In q allq) ->
    mul (Phi (snd (dump (G:=G) period ph qs))) (ocomp (fst (dump period ph qs))) = Phi ph /\
    (forall q, In q qs -> snd (dump (G:=G) period ph qs) q = 0) /\
    (forall q, ph q = 0 -> snd (dump (G:=G) period ph qs) q = 0).
  Proof.
    induction qs as [|q r IH]; intros ph Hin; simpl.
    - rewrite one_r. repeat split; [intros q []|auto].
    - assert (Hr : forall x, In x r -> In x allq) by (intros x Hx; apply Hin; right; exact Hx).
      destruct (IH (pset ph q 0) Hr) as [H1 [H2 H3]].
      destruct (dump (G:=G) period (pset ph q 0) r) as [zs ph'] eqn:Ed. simpl in *.
      split; [|split].
      + destruct (Z.eqb_spec (ph q mod period) 0) as [E0|E0]; simpl.
        * rewrite H1. rewrite <- (Phi_restore ph q) by (apply Hin; left; reflexivity).
          rewrite (z_period q (ph q) E0), one_r. reflexivity.
        * rewrite mul_assoc. rewrite H1. apply Phi_restore. apply Hin. left. reflexivity.
      + intros x [->|Hx]; [|apply H2; exact Hx].
        apply H3. unfold pset. rewrite Nat.eqb_refl. reflexivity.
      + intros x Hx. apply H3. unfold pset. destruct (Nat.eqb_spec x q); [reflexivity|exact Hx].
  Qed.

  (* the Z gates a dump emits act on the dumped qubits only *)
  Lemma dump_touches : forall qs ph x, ~ In x qs -> Forall (fun o => ~ touches o x) (fst (dump (G:=G) period ph qs)).
  Proof.
    induction qs as [|q r IH]; intros ph x Hx; simpl; [constructor|].
    assert (Hr : ~ In x r) by (intros H; apply Hx; right; exact H).
    assert (Hq : q <> x) by (intros H; apply Hx; left; exact H).
    pose proof (IH (pset ph q 0) x Hr) as Hd.
    destruct (dump (G:=G) period (pset ph q 0) r) as [zs ph'] eqn:Ed. simpl in *.
    destruct (Z.eqb (ph q mod period) 0); [exact Hd|].
    constructor; [simpl; exact Hq|exact Hd].
  Qed.

  (* ---- marks ---- *)
  (* entry k of the output is a PhasedXZ gate on q with z exponent 0 and nothing after it acts on q *)
  Fixpoint marked (q k : nat) (out : list (oop G)) {struct out} : Prop :=
    match out with
    | [] => False
    | o :: r => match k with
                | O => (exists g p, o = OPhXZ g q p 0) /\ Forall (fun o => ~ touches o q) r
                | S k' => marked q k' r
                end
    end.
  Definition marks_ok (mk : marks) (out : list (oop G)) : Prop := forall q k, mk q = Some k -> marked q k out.

  Lemma marked_app q : forall out k new, marked q k out -> Forall (fun o => ~ touches o q) new -> marked q k (out ++ new).
  Proof.
    induction out as [|o r IH]; intros k new Hm Hn; simpl in *; [contradiction|].
    destruct k as [|k'].
    - destruct Hm as [He Hf]. split; [exact He|]. apply Forall_app. split; assumption.
    - apply IH; assumption.
  Qed.

  Lemma marked_new q g p : forall out, marked q (length out) (out ++ [OPhXZ g q p 0]).
  Proof.
    induction out as [|o r IH]; simpl.
    - split; [exists g, p; reflexivity|constructor].
    - exact IH.
  Qed.

  Lemma setz_touches x v : forall out k, Forall (fun o => ~ touches o x) out -> Forall (fun o => ~ touches o x) (setz k v out).
  Proof.
    induction out as [|o r IH]; intros k Hf; simpl; [constructor|].
    inversion Hf as [|? ? Ho Hr]; subst.
    destruct k as [|k'].
    - constructor; [|exact Hr]. destruct o; exact Ho.
    - constructor; [exact Ho|apply IH; exact Hr].
  Qed.

  Lemma marked_setz q q' v : q <> q' -> forall out k k', marked q' k' out -> marked q k out -> marked q' k' (setz k v out).
  Proof.
    intros Hne. induction out as [|o r IH]; intros k k' Hm' Hm; simpl in *; [contradiction|].
    destruct k as [|j]; destruct k' as [|j']; simpl.
    - destruct Hm as [[g [p E]] _]. destruct Hm' as [[g' [p' E']] _]. rewrite E in E'. inversion E'. congruence.
    - exact Hm'.
    - destruct Hm' as [He Hf]. split; [exact He|]. apply setz_touches. exact Hf.
    - apply IH; assumption.
  Qed.

  Lemma ocomp_local q v : forall r, Forall (fun o => ~ touches o q) r -> mul (zden q v) (ocomp r) = mul (ocomp r) (zden q v).
  Proof.
    induction r as [|o r IH]; intros Hf; simpl; [rewrite one_l, one_r; reflexivity|].
    inversion Hf as [|? ? Ho Hr]; subst.
    rewrite mul_assoc. rewrite (IH Hr). rewrite <- mul_assoc. rewrite (local_law o q v Ho). rewrite mul_assoc. reflexivity.
  Qed.

  (* writing v into the marked gate = a Z rotation by v after everything emitted so far *)
  Lemma setz_sem q v : forall out k, marked q k out -> ocomp (setz k v out) = mul (zden q v) (ocomp out).
  Proof.
    induction out as [|o r IH]; intros k Hm; simpl in *; [contradiction|].
    destruct k as [|j]; simpl.
    - destruct Hm as [[g [p E]] Hf]. subst o. simpl.
      rewrite z_zero, one_l.
      rewrite (mul_assoc (ocomp r)). rewrite <- (ocomp_local q v r Hf). rewrite <- mul_assoc. reflexivity.
    - rewrite (IH j Hm). rewrite mul_assoc. reflexivity.
  Qed.

  Lemma mset_other (mk : marks) q v x : x <> q -> mset mk q v x = mk x.
  Proof. intros H. unfold mset. destruct (Nat.eqb_spec x q); [contradiction|reflexivity]. Qed.
  Lemma mset_same (mk : marks) q v : mset mk q v q = v.
  Proof. unfold mset. rewrite Nat.eqb_refl. reflexivity. Qed.

  Lemma mclear_spec : forall qs (mk : marks) x, (In x qs -> mclear mk qs x = None) /\ (~ In x qs -> mclear mk qs x = mk x).
  Proof.
    induction qs as [|q r IH]; intros mk x; simpl; [split; [intros []|reflexivity]|].
    destruct (IH (mset mk q None) x) as [H1 H2]. split.
    - intros [->|Hx].
      + destruct (in_dec Nat.eq_dec x r) as [Hi|Hi]; [apply H1; exact Hi|].
        rewrite (H2 Hi). apply mset_same.
      + apply H1. exact Hx.
    - intros Hn. rewrite H2 by (intros H; apply Hn; right; exact H).
      apply mset_other. intros E. apply Hn. left. symmetry. exact E.
  Qed.

  (* after an operation on qs emitted `new` (acting on qs only): the marks of qs are gone, the others still hold *)
  Lemma marks_ok_clear mk out qs new : marks_ok mk out ->
    (forall x, ~ In x qs -> Forall (fun o => ~ touches o x) new) -> marks_ok (mclear mk qs) (out ++ new).
  Proof.
    intros Hok Hnew q k Hq.
    destruct (in_dec Nat.eq_dec q qs) as [Hi|Hi].
    - rewrite (proj1 (mclear_spec qs mk q) Hi) in Hq. discriminate.
    - rewrite (proj2 (mclear_spec qs mk q) Hi) in Hq. apply marked_app; [apply Hok; exact Hq|apply Hnew; exact Hi].
  Qed.

  Definition st_ph (st : state G) : phases := fst (fst st).
  Definition st_mk (st : state G) : marks := snd (fst st).
  Definition st_out (st : state G) : list (oop G) := snd st.

  Lemma step_inv st o : wf o -> marks_ok (st_mk st) (st_out st) ->
    mul (Phi (st_ph (step period st o))) (ocomp (st_out (step period st o))) = mul (iden o) (mul (Phi (st_ph st)) (ocomp (st_out st)))
    /\ marks_ok (st_mk (step period st o)) (st_out (step period st o)).
  Proof.
    destruct st as [[ph mk] out]. unfold st_ph, st_mk, st_out. simpl fst; simpl snd.
    intros Hwf Hok. destruct o as [q p|g qs|g a b|g qs|g qs|g q z]; simpl.
    - split.
      + rewrite (Phi_pset_add ph q p Hwf). rewrite mul_assoc. reflexivity.
      + intros x k Hx. destruct (Nat.eq_dec x q) as [->|Hne]; [rewrite mset_same in Hx; discriminate|].
        rewrite mset_other in Hx by exact Hne. apply Hok. exact Hx.
    - split.
      + rewrite ocomp_app. simpl. rewrite one_l. rewrite !mul_assoc. rewrite gate_law. reflexivity.
      + apply marks_ok_clear; [exact Hok|]. intros x Hx. constructor; [simpl; exact Hx|constructor].
    - split.
      + rewrite ocomp_app. simpl. rewrite one_l. rewrite !mul_assoc. rewrite swap_law. reflexivity.
      + apply (marks_ok_clear mk out [a; b]); [exact Hok|]. intros x Hx. constructor; [|constructor].
        simpl. intros [E|E]; apply Hx; simpl; [left|right; left]; exact E.
    - split.
      + rewrite ocomp_app. simpl. rewrite one_l. rewrite !mul_assoc. rewrite meas_law. reflexivity.
      + apply marks_ok_clear; [exact Hok|]. intros x Hx. constructor; [simpl; exact Hx|constructor].
    - destruct (dump_spec qs ph Hwf) as [H1 [H2 _]].
      pose proof (dump_touches qs ph) as Ht.
      destruct (dump period ph qs) as [zs ph'] eqn:Ed. simpl in *. split.
      + rewrite !ocomp_app. simpl. rewrite one_l. rewrite <- H1.
        rewrite !mul_assoc. rewrite (opaque_law g qs ph' H2). reflexivity.
      + apply marks_ok_clear; [exact Hok|]. intros x Hx. apply Forall_app. split; [apply Ht; exact Hx|].
        constructor; [simpl; exact Hx|constructor].
    - split.
      + rewrite ocomp_app. simpl. rewrite one_l. rewrite z_zero, one_l.
        rewrite (Phi_pset_add ph q z Hwf). rewrite !mul_assoc.
        rewrite <- (mul_assoc (zden q z) (Phi ph)).
        assert (Hg : mul (Phi ph) (gden g [q] [ph q]) = mul (gden g [q] [0]) (Phi ph)) by (symmetry; apply (gate_law g [q] ph)).
        rewrite Hg. rewrite !mul_assoc. reflexivity.
      + intros x k Hx. destruct (Nat.eq_dec x q) as [->|Hne].
        * rewrite mset_same in Hx. inversion Hx; subst. apply marked_new.
        * rewrite mset_other in Hx by exact Hne. apply marked_app; [apply Hok; exact Hx|].
          constructor; [simpl; intros E; apply Hne; symmetry; exact E|constructor].
  Qed.

  Theorem loop_invariant : forall l st, Forall wf l -> marks_ok (st_mk st) (st_out st) ->
    mul (Phi (st_ph (loop period st l))) (ocomp (st_out (loop period st l))) = mul (icomp l) (mul (Phi (st_ph st)) (ocomp (st_out st)))
    /\ marks_ok (st_mk (loop period st l)) (st_out (loop period st l)).
  Proof.
    induction l as [|o r IH]; intros st Hwf Hok; simpl.
    - rewrite one_l. split; [reflexivity|exact Hok].
    - inversion Hwf as [|? ? Ho Hr]; subst.
      destruct (step_inv st o Ho Hok) as [Hs Hok'].
      destruct (IH (step period st o) Hr Hok') as [Hl Hok''].
      split; [|exact Hok''].
      unfold loop in *. rewrite Hl. rewrite Hs. rewrite !mul_assoc. reflexivity.
  Qed.

  (* the final dump: each qubit's tracked phase ends up as a Z rotation after everything emitted, either as a Z gate or inside
     the PhasedXZ gate its mark points at *)
  Lemma finish_spec ph mk : forall r out, NoDup r -> (forall q k, In q r -> mk q = Some k -> marked q k out) ->
    ocomp (finish period ph mk out r) = mul (PhiL r ph) (ocomp out).
  Proof.
    induction r as [|q r IH]; intros out Hnd Hok; simpl; [rewrite one_l; reflexivity|].
    inversion Hnd as [|? ? Hq Hnd']; subst.
    destruct (mk q) as [k|] eqn:Ek.
    - assert (Hm : marked q k out) by (apply Hok; [left; reflexivity|exact Ek]).
      rewrite IH; [|exact Hnd'|].
      + rewrite (setz_sem q (ph q) out k Hm). rewrite mul_assoc. rewrite <- z_comm_PhiL. reflexivity.
      + intros x kx Hx Ex. apply (marked_setz q x); [intros E; subst; contradiction| |exact Hm].
        apply Hok; [right; exact Hx|exact Ex].
    - destruct (Z.eqb_spec (ph q mod period) 0) as [E0|E0].
      + rewrite IH; [|exact Hnd'|intros x kx Hx Ex; apply Hok; [right; exact Hx|exact Ex]].
        rewrite (z_period q (ph q) E0), one_l. reflexivity.
      + rewrite IH; [|exact Hnd'|].
        * rewrite ocomp_app. simpl. rewrite one_l. rewrite mul_assoc. rewrite <- z_comm_PhiL. reflexivity.
        * intros x kx Hx Ex. apply marked_app; [apply Hok; [right; exact Hx|exact Ex]|].
          constructor; [simpl; intros E; subst; contradiction|constructor].
  Qed.

  Lemma PhiL_zero l ph : (forall q, In q l -> ph q = 0) -> PhiL l ph = one.
  Proof.
    induction l as [|x l IH]; intros H; simpl; [reflexivity|].
    rewrite H by (left; reflexivity). rewrite z_zero, one_l. apply IH. intros q Hq. apply H. right. exact Hq.
  Qed.
  Lemma Phi_zero ph : (forall q, In q allq -> ph q = 0) -> Phi ph = one.
  Proof. apply PhiL_zero. Qed.

  (* the circuit eject_z emits denotes the same operator as its input *)
  Theorem eject_z_correct : forall l, Forall wf l -> ocomp (eject_z period allq l) = icomp l.
  Proof.
    intros l Hwf. unfold eject_z.
    assert (Hok0 : marks_ok (st_mk (init (G:=G))) (st_out init)) by (intros q k H; discriminate).
    destruct (loop_invariant l init Hwf Hok0) as [Hl Hok].
    destruct (loop period init l) as [[ph mk] out] eqn:El. unfold st_ph, st_mk, st_out in *. simpl in *.
    rewrite finish_spec; [|exact allq_nodup|intros q k _ Hq; apply Hok; exact Hq].
    fold (Phi ph). rewrite Hl.
    rewrite (Phi_zero (fun _ => 0)) by reflexivity. rewrite one_l. apply one_r.
  Qed.
End Sem.

(* non-vacuity of the hypotheses (only their joint satisfiability: the one-element monoid); the matrix content of
   gate_law is the identity  G . D = D . (D^-1 G D)  that cirq.phase_by(op, -p, i) implements, checked numerically on
   every run by the C06 streams for eject_z *)
Example eject_z_laws_satisfiable : forall l : list (iop nat), Forall (wf nat [0%nat; 1%nat]) l ->
  ocomp nat unit (fun _ _ => tt) tt (fun _ _ => tt) (fun _ _ _ => tt) (fun _ _ _ => tt) (fun _ _ => tt) (fun _ _ => tt) (eject_z 16 [0%nat; 1%nat] l)
  = icomp nat unit (fun _ _ => tt) tt (fun _ _ => tt) (fun _ _ _ => tt) (fun _ _ _ => tt) (fun _ _ => tt) (fun _ _ => tt) l.
Proof.
  intros l H. apply eject_z_correct; try exact H; try (intros; reflexivity); try (intros []; reflexivity).
  repeat constructor; simpl; intuition discriminate.
Qed.

(* a run of the model: Z^(2*3) on qubit 0 is pushed through a phaseable gate, a swap and dumped before an opaque operation *)
Example eject_z_run :
  eject_z 16 [0%nat; 1%nat] [IZ 0 3; IGate 7%nat [0%nat; 1%nat]; ISwap 8%nat 0 1; IOpaque 9%nat [1%nat]; IZ 0 2]
  = [OGate 7%nat [0%nat; 1%nat] [3; 0]; OSwap 8%nat 0 1; OZ 1 3; OOpaque 9%nat [1%nat]; OZ 0 2].
Proof. reflexivity. Qed.

(* PhasedXZ gates: the first one (qubit 0) is followed by a Z gate, which forgets the mark: the phase 5 + 2 leaves as a Z gate;
   the second one (qubit 1) is the last operation on its qubit: its own z part 4 plus the earlier phase 1 is written back into it;
   a swap-like gate after a PhasedXZ gate forgets both marks, the exchanged phases leave as Z gates *)
Example eject_z_run_phxz :
  eject_z 16 [0%nat; 1%nat] [IZ 1 1; IPhXZ 7%nat 0 5; IZ 0 2; IPhXZ 8%nat 1 4]
  = [OPhXZ 7%nat 0%nat 0 0; OPhXZ 8%nat 1%nat 1 5; OZ 0 7].
Proof. reflexivity. Qed.
Example eject_z_run_phxz_swap :
  eject_z 16 [0%nat; 1%nat] [IPhXZ 7%nat 0 5; ISwap 8%nat 0 1; IZ 0 2]
  = [OPhXZ 7%nat 0%nat 0 0; OSwap 8%nat 0 1; OZ 0 2; OZ 1 5].
Proof. reflexivity. Qed.

(* Why every operation must forget the marks of its qubits: writing a phase into a PhasedXZ gate that is followed by another
   operation on the same qubit is NOT a Z rotation after everything emitted.  Witness over 2x2 integer matrices: the Z rotation
   of qubit 0 by v is the shear [[1 v] [0 1]] (additive in v), the x part of the gate is the identity, the opaque operation
   is diag(1, -1), which does not commute with the shear. *)
Definition ezm : Type := (Z * Z * Z * Z)%type.
Definition ezm_mul (x y : ezm) : ezm :=
  let '(a, b, c, d) := x in let '(e, f, g, h) := y in (a * e + b * g, a * f + b * h, c * e + d * g, c * f + d * h).
Definition ezm_one : ezm := (1, 0, 0, 1).
Definition demo_zden (q : nat) (v : Z) : ezm := if Nat.eqb q 0 then (1, v, 0, 1) else ezm_one.
Definition demo_ocomp : list (oop nat) -> ezm :=
  ocomp nat ezm ezm_mul ezm_one demo_zden (fun _ _ _ => ezm_one) (fun _ _ _ => ezm_one) (fun _ _ => ezm_one) (fun _ _ => (1, 0, 0, -1)).

Theorem setz_behind_operation_refuted : exists (out : list (oop nat)) (k q : nat) (v : Z),
  nth_error out k = Some (OPhXZ 7%nat q 0 0) /\
  demo_ocomp (setz k v out) <> ezm_mul (demo_zden q v) (demo_ocomp out).
Proof.
  exists [OPhXZ 7%nat 0%nat 0 0; OOpaque 9%nat [0%nat]], 0%nat, 0%nat, 1.
  split; [reflexivity|]. vm_compute. intro H. discriminate H.
Qed.
