(* The invariant of eject_z's phase-tracking loop (Xform/EjectZ.v):
     Phi(tracked phases) . (emitted so far)  =  (original prefix) . Phi(initial phases)
   for every denotation of the operations in a monoid in which Z phases add up and commute with each other,
   a phased gate satisfies  g . Phi = Phi . g^phased  (the matrix identity phase_by implements), swap-like gates
   exchange the phases of their two qubits, measurements absorb the phases of their qubits, and an opaque operation
   commutes with the phases of the qubits it does not touch.  Consequence: the emitted circuit equals the input. *)
From Coq Require Import List Arith ZArith Bool Lia.
From VF Require Import Xform.EjectZ.
Import ListNotations.
Local Open Scope Z_scope.

Section Sem.
  Variable G M : Type.
  Variable mul : M -> M -> M.
  Variable one : M.
  Hypothesis mul_assoc : forall a b c, mul a (mul b c) = mul (mul a b) c.
  Hypothesis one_l : forall a, mul one a = a.
  Hypothesis one_r : forall a, mul a one = a.
  Variable zden : nat -> Z -> M.
  Variable gden : G -> list nat -> list Z -> M.
  Variable sden : G -> nat -> nat -> M.
  Variable mden oden : G -> list nat -> M.
  Variable period : Z.
  Variable allq : list nat.
  Hypothesis allq_nodup : NoDup allq.

  Definition PhiL (l : list nat) (ph : phases) : M := fold_right (fun q acc => mul (zden q (ph q)) acc) one l.
  Definition Phi (ph : phases) : M := PhiL allq ph.

  Hypothesis z_zero : forall q, zden q 0 = one.
  Hypothesis z_period : forall q k, k mod period = 0 -> zden q k = one.
  Hypothesis z_add : forall q p p', zden q (p + p') = mul (zden q p) (zden q p').
  Hypothesis z_comm : forall q q' p p', q <> q' -> mul (zden q p) (zden q' p') = mul (zden q' p') (zden q p).
  Hypothesis gate_law : forall g qs ph, mul (gden g qs (map (fun _ => 0) qs)) (Phi ph) = mul (Phi ph) (gden g qs (map ph qs)).
  Hypothesis swap_law : forall g a b ph, mul (sden g a b) (Phi ph) = mul (Phi (pswap ph a b)) (sden g a b).
  Hypothesis meas_law : forall g qs ph, mul (mden g qs) (Phi ph) = mul (Phi (preset ph qs)) (mden g qs).
  Hypothesis opaque_law : forall g qs ph, (forall q, In q qs -> ph q = 0) -> mul (oden g qs) (Phi ph) = mul (Phi ph) (oden g qs).

  Definition iden (o : iop G) : M :=
    match o with
    | IZ q p => zden q p
    | IGate g qs => gden g qs (map (fun _ => 0) qs)
    | ISwap g a b => sden g a b
    | IMeas g qs => mden g qs
    | IOpaque g qs => oden g qs
    end.
  Definition oden' (o : oop G) : M :=
    match o with
    | OZ q p => zden q p
    | OGate g qs ps => gden g qs ps
    | OSwap g a b => sden g a b
    | OMeas g qs => mden g qs
    | OOpaque g qs => oden g qs
    end.
  (* the operator of a list of operations: later operations multiply on the left *)
  Definition icomp (l : list (iop G)) : M := fold_right (fun o acc => mul acc (iden o)) one l.
  Definition ocomp (l : list (oop G)) : M := fold_right (fun o acc => mul acc (oden' o)) one l.

  Lemma ocomp_app l1 l2 : ocomp (l1 ++ l2) = mul (ocomp l2) (ocomp l1).
  Proof.
    induction l1 as [|o l1 IH]; simpl; [rewrite one_r; reflexivity|].
    rewrite IH. rewrite mul_assoc. reflexivity.
  Qed.

  (* input operations only mention qubits of the register *)
  Definition wf (o : iop G) : Prop :=
    match o with
    | IZ q _ => In q allq
    | IOpaque _ qs => forall q, In q qs -> In q allq
    | _ => True
    end.

  Lemma z_comm_any q q' p p' : mul (zden q p) (zden q' p') = mul (zden q' p') (zden q p).
  Proof.
    destruct (Nat.eq_dec q q') as [->|Hn]; [|apply z_comm; exact Hn].
    rewrite <- !z_add. rewrite Z.add_comm. reflexivity.
  Qed.

  Lemma PhiL_ext l ph ph' : (forall q, In q l -> ph q = ph' q) -> PhiL l ph = PhiL l ph'.
  Proof.
    induction l as [|x l IH]; intros H; simpl; [reflexivity|].
    rewrite H by (left; reflexivity). rewrite IH; [reflexivity|]. intros q Hq. apply H. right. exact Hq.
  Qed.

  Lemma z_comm_PhiL l ph q p : mul (zden q p) (PhiL l ph) = mul (PhiL l ph) (zden q p).
  Proof.
    induction l as [|x l IH]; simpl; [rewrite one_l, one_r; reflexivity|].
    rewrite mul_assoc. rewrite (z_comm_any q x). rewrite <- mul_assoc. rewrite IH. rewrite mul_assoc. reflexivity.
  Qed.

  Lemma PhiL_pset_out l ph q v : ~ In q l -> PhiL l (pset ph q v) = PhiL l ph.
  Proof.
    intros Hn. apply PhiL_ext. intros x Hx. unfold pset.
    destruct (Nat.eqb_spec x q) as [->|_]; [contradiction|reflexivity].
  Qed.

  Lemma PhiL_pset_add l ph q p : NoDup l -> In q l ->
    PhiL l (pset ph q (ph q + p)) = mul (zden q p) (PhiL l ph).
  Proof.
    induction l as [|x l IH]; intros Hnd Hin; [inversion Hin|].
    inversion Hnd as [|? ? Hx Hnd']; subst. simpl.
    destruct (Nat.eq_dec x q) as [->|Hne].
    - rewrite PhiL_pset_out by exact Hx. unfold pset at 1. rewrite Nat.eqb_refl.
      rewrite Z.add_comm, z_add. rewrite mul_assoc. reflexivity.
    - destruct Hin as [Hq|Hq]; [congruence|].
      rewrite IH by assumption. unfold pset at 1.
      destruct (Nat.eqb_spec x q) as [E|_]; [congruence|].
      rewrite mul_assoc. rewrite (z_comm_any x q). rewrite <- mul_assoc. reflexivity.
  Qed.

  Lemma Phi_pset_add ph q p : In q allq -> Phi (pset ph q (ph q + p)) = mul (zden q p) (Phi ph).
  Proof. intros H. apply PhiL_pset_add; assumption. Qed.

  (* putting a zeroed phase back as an explicit Z gate *)
  Lemma Phi_restore ph q : In q allq -> mul (Phi (pset ph q 0)) (zden q (ph q)) = Phi ph.
  Proof.
    intros Hq. unfold Phi. rewrite <- z_comm_PhiL.
    rewrite <- (PhiL_pset_add allq (pset ph q 0) q (ph q)) by assumption.
    apply PhiL_ext. intros x _. unfold pset.
    destruct (Nat.eqb_spec x q) as [->|_]; [rewrite ?Nat.eqb_refl; lia|reflexivity].
  Qed.

  Lemma dump_spec : forall qs ph, (forall q, In q qs -> In q allq) ->
    mul (Phi (snd (dump (G:=G) period ph qs))) (ocomp (fst (dump period ph qs))) = Phi ph /\
    (forall q, In q qs -> snd (dump (G:=G) period ph qs) q = 0) /\
    (forall q, ph q = 0 -> snd (dump (G:=G) period ph qs) q = 0).
  Proof.
    induction qs as [|q r IH]; intros ph Hin; simpl.
    - rewrite one_r. repeat split; [intros q []|auto].
    - assert (Hr : forall x, In x r -> In x allq) by (intros x Hx; apply Hin; right; exact Hx).
      destruct (IH (pset ph q 0) Hr) as [H1 [H2 H3]].
      destruct (dump (G:=G) period (pset ph q 0) r) as [zs ph'] eqn:Ed. simpl in *.
      split; [|split].
      + destruct (Z.eqb_spec (ph q mod period) 0) as [E0|E0]; simpl.
        * rewrite H1. rewrite <- (Phi_restore ph q) by (apply Hin; left; reflexivity).
          rewrite (z_period q (ph q) E0), one_r. reflexivity.
        * rewrite mul_assoc. rewrite H1. apply Phi_restore. apply Hin. left. reflexivity.
      + intros x [->|Hx]; [|apply H2; exact Hx].
        apply H3. unfold pset. rewrite Nat.eqb_refl. reflexivity.
      + intros x Hx. apply H3. unfold pset. destruct (Nat.eqb_spec x q); [reflexivity|exact Hx].
  Qed.

  Lemma step_inv ph o : wf o ->
    mul (Phi (snd (step period ph o))) (ocomp (fst (step period ph o))) = mul (iden o) (Phi ph).
  Proof.
    intros Hwf. destruct o as [q p|g qs|g a b|g qs|g qs]; simpl.
    - rewrite one_r. apply Phi_pset_add. exact Hwf.
    - rewrite one_l. symmetry. apply gate_law.
    - rewrite one_l. symmetry. apply swap_law.
    - rewrite one_l. symmetry. apply meas_law.
    - destruct (dump_spec qs ph Hwf) as [H1 [H2 _]].
      destruct (dump period ph qs) as [zs ph'] eqn:Ed. simpl in *.
      rewrite ocomp_app. simpl. rewrite one_l.
      rewrite mul_assoc. rewrite <- (opaque_law g qs ph' H2). rewrite <- mul_assoc. rewrite H1. reflexivity.
  Qed.

  Theorem loop_invariant : forall l ph, Forall wf l ->
    mul (Phi (snd (loop period ph l))) (ocomp (fst (loop period ph l))) = mul (icomp l) (Phi ph).
  Proof.
    induction l as [|o r IH]; intros ph Hwf; simpl.
    - rewrite one_r, one_l. reflexivity.
    - inversion Hwf as [|? ? Ho Hr]; subst.
      pose proof (step_inv ph o Ho) as Hs.
      destruct (step period ph o) as [out1 ph1] eqn:Es. simpl in Hs.
      pose proof (IH ph1 Hr) as Hl.
      destruct (loop period ph1 r) as [out2 ph2] eqn:El. simpl in *.
      rewrite ocomp_app. rewrite mul_assoc. rewrite Hl. rewrite <- mul_assoc. rewrite Hs. rewrite mul_assoc. reflexivity.
  Qed.

  Lemma PhiL_zero l ph : (forall q, In q l -> ph q = 0) -> PhiL l ph = one.
  Proof.
    induction l as [|x l IH]; intros H; simpl; [reflexivity|].
    rewrite H by (left; reflexivity). rewrite z_zero, one_l. apply IH. intros q Hq. apply H. right. exact Hq.
  Qed.
  Lemma Phi_zero ph : (forall q, In q allq -> ph q = 0) -> Phi ph = one.
  Proof. apply PhiL_zero. Qed.

  (* the circuit eject_z emits denotes the same operator as its input *)
  Theorem eject_z_correct : forall l, Forall wf l -> ocomp (eject_z period allq l) = icomp l.
  Proof.
    intros l Hwf. unfold eject_z.
    pose proof (loop_invariant l (fun _ => 0) Hwf) as Hl.
    destruct (loop period (fun _ => 0) l) as [out ph] eqn:El. simpl in Hl.
    destruct (dump_spec allq ph (fun q H => H)) as [H1 [H2 _]].
    destruct (dump period ph allq) as [zs ph'] eqn:Ed. simpl in *.
    rewrite ocomp_app.
    rewrite (Phi_zero ph' H2), one_l in H1. rewrite H1. rewrite Hl.
    rewrite (Phi_zero (fun _ => 0)) by reflexivity. apply one_r.
  Qed.
End Sem.

(* non-vacuity of the hypotheses (only their joint satisfiability: the one-element monoid); the matrix content of
   gate_law is the identity  G . D = D . (D^-1 G D)  that cirq.phase_by(op, -p, i) implements, checked numerically on
   every run by the C06 streams for eject_z *)
Example eject_z_laws_satisfiable : forall l : list (iop nat), Forall (wf nat [0%nat; 1%nat]) l ->
  ocomp nat unit (fun _ _ => tt) tt (fun _ _ => tt) (fun _ _ _ => tt) (fun _ _ _ => tt) (fun _ _ => tt) (fun _ _ => tt) (eject_z 16 [0%nat; 1%nat] l)
  = icomp nat unit (fun _ _ => tt) tt (fun _ _ => tt) (fun _ _ _ => tt) (fun _ _ _ => tt) (fun _ _ => tt) (fun _ _ => tt) l.
Proof.
  intros l H. apply eject_z_correct; try exact H; try (intros; reflexivity); try (intros []; reflexivity).
  repeat constructor; simpl; intuition discriminate.
Qed.

(* a run of the model: Z^(2*3) on qubit 0 is pushed through a phaseable gate, a swap and dumped before an opaque operation *)
Example eject_z_run :
  eject_z 16 [0%nat; 1%nat] [IZ 0 3; IGate 7%nat [0%nat; 1%nat]; ISwap 8%nat 0 1; IOpaque 9%nat [1%nat]; IZ 0 2]
  = [OGate 7%nat [0%nat; 1%nat] [3; 0]; OSwap 8%nat 0 1; OZ 1 3; OOpaque 9%nat [1%nat]; OZ 0 2].
Proof. reflexivity. Qed.
