(* C15 — float instance of the sparse semantics of multi-controlled synthesis (Xform/CtrlSynth.v), used by vm_compute on the
   operation lists Cirq returns.  Amplitudes below 2^-45 (2.8e-14) in modulus are dropped after each one-qubit gate (what is dropped is
   exactly the complement, CtrlSynthProofs.sget_prune_split; at most 2 x 2^-45 per gate and entry, against a tolerance of 1e-7). *)
From Coq Require Import List NArith Bool Floats.
From VF Require Import Base.RingOps Base.Mat Base.FloatInst Gates.Families Sim.Ref Xform.CtrlSynth.
Import ListNotations.

Definition fkeep (x : FC) : bool := PrimFloat.leb 0x1p-90 (fc_norm2 x).
Definition fsmall (tol : float) (x : FC) : bool := fc_close tol x (0, 0)%float.
(* every column of the circuit (one-qubit gates, CNOT, CCNOT) equals the column of "u on the target iff all controls are 1" *)
Definition ctrl_synth_f (tol : float) (n : nat) (cbits : list N) (tb : N) (u : matrix (K:=FC)) (ops : list (cop (K:=FC))) : bool :=
  ctrl_synth_ok FOps fkeep (fsmall tol) n cbits tb u ops.
(* the same circuit in the dense reference semantics and in the sparse one: equal matrices (run on the small shapes) *)
Definition ctrl_cross_f (tol : float) (n : nat) (sops : list (cop (K:=FC))) (sh : list nat) (gops : list (gop (K:=FC))) : bool :=
  fcll_close tol (sunitary FOps fkeep n sops) (circ_unitary FOps sh gops).
(* a one-qubit gate of the shared vocabulary as a sparse operation: its matrix is computed from the parameters inside Coq *)
Definition c1_of (g : gate (K:=FC)) (b : N) : cop (K:=FC) := C1 (gate_model FOps g) b.
