(* C07 -- Gateset / GateFamily membership (cirq/ops/gateset.py, common_gate_families.py) and device
   validation (cirq_google/devices/grid_device.py and the AQT / Pasqal / IonQ devices).
   Definitions only; the theorems are in GatesetProofs.v.

   A gate is described abstractly by the harness:
     g_mro    type ids along type(g).mro() (most derived first)
     g_val    class of the gate under ==              (instance families with ignore_global_phase=False, the hash fast path)
     g_phase  the instance-family gates (by their ids) this gate equals up to global phase, as cirq.equal_up_to_global_phase
              documents it: same eigen-family and equal matrices up to phase for two EigenGates, equal matrices up to phase otherwise
              (the relation is not transitive, so it is a list of instances, not a class)
     g_sym    the gate has unresolved symbols
     g_int    EigenGate whose exponent is an integer
     g_nq     number of qubits
     g_unit   has a unitary
     g_var    measurement / wait gate (GridDevice skips the pair check for these)
     g_sub    sub-gate when the gate is a ParallelGate *)
From Coq Require Import List Arith Bool.
Import ListNotations.

Inductive gdesc :=
  GD (g_mro : list nat) (g_val : nat) (g_phase : list nat) (g_sym g_int : bool) (g_nq : nat) (g_unit g_var : bool) (g_sub : option gdesc).
Definition g_mro (g : gdesc) := let 'GD m _ _ _ _ _ _ _ _ := g in m.
Definition g_val (g : gdesc) := let 'GD _ v _ _ _ _ _ _ _ := g in v.
Definition g_phase (g : gdesc) := let 'GD _ _ p _ _ _ _ _ _ := g in p.
Definition g_sym (g : gdesc) := let 'GD _ _ _ s _ _ _ _ _ := g in s.
Definition g_int (g : gdesc) := let 'GD _ _ _ _ i _ _ _ _ := g in i.
Definition g_nq (g : gdesc) := let 'GD _ _ _ _ _ n _ _ _ := g in n.
Definition g_unit (g : gdesc) := let 'GD _ _ _ _ _ _ u _ _ := g in u.
Definition g_var (g : gdesc) := let 'GD _ _ _ _ _ _ _ v _ := g in v.
Definition g_sub (g : gdesc) := let 'GD _ _ _ _ _ _ _ _ s := g in s.

Definition nmem (x : nat) (l : list nat) : bool := existsb (Nat.eqb x) l.
Definition disjoint (a b : list nat) : bool := negb (existsb (fun x => nmem x b) a).

(* ---------- gate families ---------- *)
(* GateFamily(gate=type) / GateFamily(gate=instance, ignore_global_phase) *)
Inductive base := BType (ty : nat) | BInst (val inst : nat) (ignore_phase : bool).   (* inst: id of the family's own gate *)
Inductive fkind :=
| FBase (b : base)
| FIntPow (ty : nat)                              (* AnyIntegerPowerGateFamily *)
| FParallel (b : base) (max_parallel : option nat) (* ParallelGateFamily *)
| FAnyUnitary (nq : option nat).                  (* AnyUnitaryGateFamily *)
Record family := mkF { f_kind : fkind; f_accept : list nat; f_ignore : list nat }.

(* GateFamily._predicate *)
Definition base_pred (b : base) (g : gdesc) : bool :=
  match b with
  | BType ty => nmem ty (g_mro g)                                 (* isinstance(gate, self.gate) *)
  | BInst v p ign => if ign then nmem p (g_phase g) else Nat.eqb (g_val g) v
  end.
Definition kind_pred (k : fkind) (g : gdesc) : bool :=
  match k with
  | FBase b => base_pred b g
  | FIntPow ty => negb (g_sym g) && nmem ty (g_mro g) && g_int g
  | FParallel b mx =>
      match mx with Some m => Nat.leb (g_nq g) m | None => true end
      && base_pred b (match g_sub g with Some s => s | None => g end)
  | FAnyUnitary nq => match nq with Some n => Nat.eqb (g_nq g) n | None => true end && g_unit g
  end.

(* what is tested for membership: a bare gate, or an operation with its gate (if any) and tags *)
Inductive item := IGate (g : gdesc) | IOp (g : option gdesc) (tags : list nat).
Definition item_is_op (i : item) : bool := match i with IOp _ _ => true | _ => false end.
Definition item_tags (i : item) : list nat := match i with IOp _ t => t | _ => [] end.

(* GateFamily.__contains__ *)
Definition family_contains (f : family) (i : item) : bool :=
  let tags_ok :=
    negb (match f_accept f with [] => false | _ => negb (item_is_op i) || disjoint (f_accept f) (item_tags i) end)
    && negb (item_is_op i && negb (disjoint (f_ignore f) (item_tags i))) in
  tags_ok &&
  match i with
  | IGate g => kind_pred (f_kind f) g
  | IOp (Some g) _ => kind_pred (f_kind f) g
  | IOp None _ => false
  end.

(* ---------- gatesets ---------- *)
(* an operation of a circuit as the gateset sees it *)
Inductive opd :=
| OGate (g : gdesc) (tags : list nat)             (* op.gate is not None (gate operations, their tagged / controlled forms) *)
| OCircuit (tags : list nat) (inner : list opd)   (* (tagged) CircuitOperation; inner = operations of mapped_circuit(deep=True) *)
| OOther (tags : list nat).                       (* any other operation without a gate *)
Definition op_tags (o : opd) : list nat := match o with OGate _ t | OCircuit t _ | OOther t => t end.

Record gateset := mkGS { gs_families : list family; gs_unroll : bool; gs_banned : list nat }.
(* gs_banned: CompilationTargetGateset rejects every operation carrying its intermediate-result tag *)

(* families that go into the dictionaries of the constructor: plain GateFamily objects without tag lists *)
Definition is_default (f : family) : bool :=
  match f_kind f, f_accept f, f_ignore f with FBase _, [], [] => true | _, _, _ => false end.
Definition type_fast (fs : list family) (g : gdesc) : bool :=
  existsb (fun ty => existsb (fun f => is_default f && match f_kind f with FBase (BType t) => Nat.eqb t ty | _ => false end) fs) (g_mro g).
Definition inst_fast (fs : list family) (g : gdesc) : bool :=
  existsb (fun f => is_default f && match f_kind f with FBase (BInst v _ _) => Nat.eqb v (g_val g) | _ => false end) fs.
(* Gateset.__contains__ for items with a gate: the two dictionary look-ups, then the linear scans *)
Definition gateset_contains_gate (gs : gateset) (g : gdesc) (i : item) : bool :=
  if type_fast (gs_families gs) g then true
  else if inst_fast (gs_families gs) g then true
  else existsb (fun f => family_contains f i) (filter (fun f => negb (is_default f)) (gs_families gs))
       || existsb (fun f => family_contains f i) (filter is_default (gs_families gs)).
(* the specification: some family of the gateset accepts the item *)
Definition gateset_contains_spec (gs : gateset) (i : item) : bool :=
  existsb (fun f => family_contains f i) (gs_families gs).

(* Gateset._validate_operation / validate, with CompilationTargetGateset's override *)
Fixpoint validate_op (gs : gateset) (o : opd) : bool :=
  disjoint (gs_banned gs) (op_tags o) &&
  match o with
  | OGate g tags => gateset_contains_gate gs g (IOp (Some g) tags)
  | OCircuit _ inner => gs_unroll gs && forallb (validate_op gs) inner
  | OOther _ => false
  end.
Definition validate (gs : gateset) (ops : list opd) : bool := forallb (validate_op gs) ops.
(* a CircuitOperation with |repetitions| = n stands for n copies of one iteration of its mapped body (the body with the qubit
   map and the parameter resolver applied, inverted when the repetitions are negative) *)
Fixpoint repeat_ops (n : nat) (b : list opd) : list opd := match n with O => [] | S k => b ++ repeat_ops k b end.
(* `op in gateset` (Gateset.__contains__ on an operation, used by the devices): operations with a gate go
   straight to the families (no intermediate-tag check), the others through _validate_operation *)
Definition op_in_gateset (gs : gateset) (o : opd) : bool :=
  match o with
  | OGate g tags => gateset_contains_gate gs g (IOp (Some g) tags)
  | _ => validate_op gs o
  end.

(* ---------- devices ---------- *)
(* which operations need their qubit pair(s) checked *)
Inductive pair_rule :=
| PairsNone                        (* all-to-all devices: AQT, IonQ API, PasqalDevice *)
| PairsTwoQubit                    (* GridDevice: two-qubit operations whose gate is not variadic *)
| PairsIn (cgs : gateset).         (* PasqalVirtualDevice: operations of the controlled gateset, every pair of their qubits *)
Record device := mkDev { d_gateset : gateset; d_qubits : list nat; d_pairs : list (nat * nat); d_rule : pair_rule;
                         d_gate_ops_only : bool }.   (* AQT / Pasqal accept GateOperation objects only *)
(* an operation with the qubits it acts on; is_gate_op: a plain GateOperation *)
Record dop := mkDop { dop_op : opd; dop_qs : list nat; dop_is_gate_op : bool }.

Definition pair_mem (ps : list (nat * nat)) (a b : nat) : bool :=
  existsb (fun p => (Nat.eqb (fst p) a && Nat.eqb (snd p) b) || (Nat.eqb (fst p) b && Nat.eqb (snd p) a)) ps.
Definition op_variadic (o : opd) : bool := match o with OGate g _ => g_var g | _ => false end.
Definition all_pairs_ok (ps : list (nat * nat)) (qs : list nat) : bool :=
  forallb (fun a => forallb (fun b => Nat.eqb a b || pair_mem ps a b) qs) qs.
Definition needs_pairs (d : device) (o : dop) : bool :=
  match d_rule d with
  | PairsNone => false
  | PairsTwoQubit => Nat.eqb (length (dop_qs o)) 2 && negb (op_variadic (dop_op o))
  | PairsIn cgs => op_in_gateset cgs (dop_op o)
  end.
Definition device_accepts (d : device) (o : dop) : bool :=
  (negb (d_gate_ops_only d) || dop_is_gate_op o)
  && op_in_gateset (d_gateset d) (dop_op o)
  && forallb (fun q => nmem q (d_qubits d)) (dop_qs o)
  && (negb (needs_pairs d o) || all_pairs_ok (d_pairs d) (dop_qs o)).
Definition device_accepts_circuit (d : device) (ops : list dop) : bool := forallb (device_accepts d) ops.
