(* IdleMomentsGauge (Xform/IdleGauge.v): a sound window keeps the operator of the circuit up to the central scalar
   z = Ginv . G.  The circuit is denoted in an arbitrary monoid M (later operations multiply on the left): a single-qubit gate g
   of the wire denotes `emb g` (a homomorphism for the matrix product), what the other qubits do in a moment in which the wire is
   free or mergeable denotes `rden r` and commutes with every `emb g` (disjoint qubits), a moment in which the wire is taken by a
   non-mergeable operation denotes an arbitrary `fden f`.  The variant that merges the inverse AFTER the closing gate is refuted. *)
From Coq Require Import List Arith Bool ZArith Lia.
From VF Require Import Xform.IdleGauge.
Import ListNotations.

Section Sem.
  Variable G R F M : Type.
  Variable gmul : G -> G -> G.
  Variable mul : M -> M -> M.
  Variable one : M.
  Hypothesis mul_assoc : forall a b c, mul a (mul b c) = mul (mul a b) c.
  Hypothesis one_l : forall a, mul one a = a.
  Hypothesis one_r : forall a, mul a one = a.
  Variable emb : G -> M.
  Variable rden : R -> M.
  Variable fden : F -> M.
  Hypothesis emb_mul : forall b a, emb (gmul b a) = mul (emb b) (emb a).
  Hypothesis emb_comm : forall g r, mul (emb g) (rden r) = mul (rden r) (emb g).

  Definition mden (m : moment G R F) : M :=
    match m with
    | MIdle r => rden r
    | MMerge g r => mul (rden r) (emb g)
    | MFixed f => fden f
    end.
  (* the operator of the circuit: later moments multiply on the left *)
  Definition den (w : list (moment G R F)) : M := fold_right (fun m acc => mul acc (mden m)) one w.

  Definition central (z : M) : Prop := forall m, mul z m = mul m z.

  Lemma mden_put_start g m : is_fixed m = false -> mden (put_start gmul g m) = mul (emb g) (mden m).
  Proof.
    destruct m as [r|e r|f]; simpl; intro H; try discriminate H.
    - symmetry. apply emb_comm.
    - rewrite emb_mul. rewrite mul_assoc. rewrite <- emb_comm. rewrite <- mul_assoc. reflexivity.
  Qed.

  Lemma mden_put_end gi m : is_fixed m = false -> mden (put_end gmul gi m) = mul (mden m) (emb gi).
  Proof.
    destruct m as [r|e r|f]; simpl; intro H; try discriminate H.
    - reflexivity.
    - rewrite emb_mul. rewrite mul_assoc. reflexivity.
  Qed.

  (* the inverse travels back through the free moments to the start of the window *)
  Lemma den_tail gi : forall r k, tail_ok r k = true -> den (upd k (put_end gmul gi) r) = mul (den r) (emb gi).
  Proof.
    induction r as [|m r IH]; intros k H.
    - destruct k; discriminate H.
    - destruct k as [|k].
      + assert (Hf : is_fixed m = false) by (destruct m; simpl in H; [reflexivity | reflexivity | discriminate H]).
        simpl. rewrite (mden_put_end gi m Hf). rewrite mul_assoc. reflexivity.
      + destruct m as [x|e x|f]; simpl in H; try discriminate H.
        simpl. rewrite (IH k H). rewrite <- mul_assoc. rewrite emb_comm. rewrite mul_assoc. reflexivity.
  Qed.

  Theorem window_preserved : forall g gi z, mul (emb gi) (emb g) = z -> mul (emb g) (emb gi) = z -> central z ->
    forall w s e, window_ok w s e = true -> den (apply_window gmul w s e g gi) = mul z (den w).
  Proof.
    intros g gi z Hl Hr Hz. unfold apply_window.
    induction w as [|m w IH]; intros s e H.
    - destruct s, e; discriminate H.
    - destruct s as [|s], e as [|e].
      + (* a window of one free moment: G then Ginv in the same moment *)
        destruct m as [x|e0 x|f]; simpl in H; try discriminate H.
        simpl. rewrite emb_mul. rewrite Hr. rewrite <- (Hz (rden x)). rewrite (mul_assoc (den w) z (rden x)).
        rewrite <- (Hz (den w)). rewrite <- (mul_assoc z (den w) (rden x)). reflexivity.
      + simpl in H. apply andb_prop in H. destruct H as [Hm Ht].
        assert (Hf : is_fixed m = false) by (destruct (is_fixed m); [discriminate Hm | reflexivity]).
        simpl. rewrite (den_tail gi w e Ht). rewrite (mden_put_start g m Hf).
        rewrite <- (mul_assoc (den w) (emb gi) (mul (emb g) (mden m))). rewrite (mul_assoc (emb gi) (emb g) (mden m)). rewrite Hl.
        rewrite (mul_assoc (den w) z (mden m)). rewrite <- (Hz (den w)). rewrite <- (mul_assoc z (den w) (mden m)). reflexivity.
      + simpl in H. discriminate H.
      + simpl in H. simpl. rewrite (IH s e H). rewrite <- mul_assoc. reflexivity.
  Qed.

  (* all the windows of a run: each gauge k of the table has an inverse at the same index up to a central scalar *)
  Definition inverse_pairs (gs gis : list G) : Prop :=
    forall k g gi, nth_error gs k = Some g -> nth_error gis k = Some gi ->
      exists z, central z /\ mul (emb gi) (emb g) = z /\ mul (emb g) (emb gi) = z.

  Lemma central_one : central one.
  Proof. intro m. rewrite one_l, one_r. reflexivity. Qed.
  Lemma central_mul a b : central a -> central b -> central (mul a b).
  Proof. intros Ha Hb m. rewrite <- mul_assoc. rewrite (Hb m). rewrite mul_assoc. rewrite (Ha m). rewrite mul_assoc. reflexivity. Qed.

  Theorem windows_preserved : forall gs gis, inverse_pairs gs gis ->
    forall ws w script w' rest, windows_ok gmul w ws script gs gis = true ->
      apply_windows gmul w ws script gs gis = Some (w', rest) ->
      exists z, central z /\ den w' = mul z (den w).
  Proof.
    intros gs gis Hinv. induction ws as [|[s e] ws IH]; intros w script w' rest Hok Hrun.
    - simpl in Hrun. inversion Hrun; subst. exists one. split; [apply central_one | rewrite one_l; reflexivity].
    - simpl in Hok, Hrun. destruct script as [|k script]; [discriminate Hok|].
      destruct (nth_error gs k) as [g|] eqn:Eg; [|discriminate Hok].
      destruct (nth_error gis k) as [gi|] eqn:Egi; [|discriminate Hok].
      apply andb_prop in Hok. destruct Hok as [Hw Hrest].
      destruct (Hinv k g gi Eg Egi) as [z [Hz [Hl Hr]]].
      destruct (IH _ _ _ _ Hrest Hrun) as [z' [Hz' Hden]].
      exists (mul z' z). split; [apply central_mul; assumption|].
      rewrite Hden. rewrite (window_preserved g gi z Hl Hr Hz w s e Hw). rewrite mul_assoc. reflexivity.
  Qed.

  Theorem idle_gauge_preserved : forall min_length gb ge gs gis, inverse_pairs gs gis ->
    forall w script w' rest, windows_ok gmul w (wire_windows min_length gb ge w) script gs gis = true ->
      idle_gauge_wire gmul min_length gb ge gs gis w script = Some (w', rest) ->
      exists z, central z /\ den w' = mul z (den w).
  Proof.
    intros min_length gb ge gs gis Hinv w script w' rest Hok Hrun. unfold idle_gauge_wire in Hrun.
    exact (windows_preserved gs gis Hinv _ _ _ _ _ Hok Hrun).
  Qed.
End Sem.

(* ---- what window_ok says, by positions ---- *)
Section Shape.
  Variable G R F : Type.

  Lemma tail_ok_spec : forall (r : list (moment G R F)) k, tail_ok r k = true ->
    k < length r /\ (forall i, i < k -> exists x, nth_error r i = Some (MIdle x)) /\
    (exists m, nth_error r k = Some m /\ is_fixed m = false).
  Proof.
    induction r as [|m r IH]; intros k H.
    - destruct k; discriminate H.
    - destruct k as [|k].
      + split; [simpl; lia|]. split; [intros i Hi; lia|].
        exists m. split; [reflexivity|]. destruct m; simpl in H; [reflexivity | reflexivity | discriminate H].
      + destruct m as [x|e x|f]; simpl in H; try discriminate H.
        destruct (IH k H) as [Hlen [Hmid Hend]]. split; [simpl; lia|]. split.
        * intros [|i] Hi; [exists x; reflexivity|]. simpl. apply Hmid. lia.
        * exact Hend.
  Qed.

  Theorem window_ok_spec : forall (w : list (moment G R F)) s e, window_ok w s e = true ->
    s <= e /\ e < length w /\
    (forall i, s < i -> i < e -> exists x, nth_error w i = Some (MIdle x)) /\
    (exists m, nth_error w s = Some m /\ is_fixed m = false) /\
    (exists m, nth_error w e = Some m /\ is_fixed m = false) /\
    (s = e -> exists x, nth_error w s = Some (MIdle x)).
  Proof.
    induction w as [|m w IH]; intros s e H.
    - destruct s, e; discriminate H.
    - destruct s as [|s], e as [|e].
      + destruct m as [x|e0 x|f]; simpl in H; try discriminate H.
        split; [lia|]. split; [simpl; lia|]. split; [intros i H1 H2; lia|].
        split; [exists (MIdle x); split; reflexivity|]. split; [exists (MIdle x); split; reflexivity|].
        intros _. exists x. reflexivity.
      + simpl in H. apply andb_prop in H. destruct H as [Hm Ht].
        destruct (tail_ok_spec w e Ht) as [Hlen [Hmid Hend]].
        split; [lia|]. split; [simpl; lia|]. split.
        * intros [|i] H1 H2; [lia|]. simpl. apply Hmid. lia.
        * split; [exists m; split; [reflexivity | destruct (is_fixed m); [discriminate Hm | reflexivity]]|].
          split; [exact Hend|]. intro Hse. discriminate Hse.
      + simpl in H. discriminate H.
      + simpl in H. destruct (IH s e H) as [Hle [Hlen [Hmid [Hs [He Heq]]]]].
        split; [lia|]. split; [simpl; lia|]. split.
        * intros [|i] H1 H2; [lia|]. simpl. apply Hmid; lia.
        * split; [exact Hs|]. split; [exact He|]. intro Hse. apply Heq. lia.
  Qed.
End Shape.

(* ---- instance and negative control over 2x2 integer matrices ---- *)
Local Open Scope Z_scope.
Definition m2 := (Z * Z * Z * Z)%type.       (* (a, b, c, d) = [[a b][c d]] *)
Definition m2mul (x y : m2) : m2 :=
  let '(a, b, c, d) := x in let '(a', b', c', d') := y in
  (a * a' + b * c', a * b' + b * d', c * a' + d * c', c * b' + d * d').
Definition m2one : m2 := (1, 0, 0, 1).
Definition shearU : m2 := (1, 1, 0, 1).
Definition shearUinv : m2 := (1, -1, 0, 1).
Definition shearL : m2 := (1, 0, 1, 1).
Local Close Scope Z_scope.

(* H . . H  on the wire (here: two shears), the other qubit does nothing (unit) *)
Definition demo_wire : list (moment m2 unit unit) := [MMerge shearL tt; MIdle tt; MIdle tt; MMerge shearL tt].
Definition demo_den := den m2 unit unit m2 m2mul m2one (fun g => g) (fun _ => m2one) (fun _ => m2one).

(* hypotheses of window_preserved are satisfiable, and the conclusion is observed on the instance *)
Example window_preserved_nonvacuous :
  window_ok demo_wire 0 3 = true /\ m2mul shearUinv shearU = m2one /\ m2mul shearU shearUinv = m2one /\
  demo_den (apply_window m2mul demo_wire 0 3 shearU shearUinv) = demo_den demo_wire.
Proof. vm_compute. repeat split. Qed.

(* merging the inverse AFTER the gate that closes the window is wrong: same wire, same gauge, another operator *)
Theorem merge_after_refuted : exists (w : list (moment m2 unit unit)) s e g gi,
  window_ok w s e = true /\ m2mul gi g = m2one /\ m2mul g gi = m2one /\
  demo_den (apply_window_after m2mul w s e g gi) <> demo_den w.
Proof.
  exists demo_wire, 0, 3, shearU, shearUinv. repeat split; try (vm_compute; reflexivity).
  vm_compute. intro H. discriminate H.
Qed.

(* get_structure on the wire of the upstream docstring shape: gate, three free moments, gate *)
Example get_structure_example :
  wire_windows 2 false false demo_wire = [(0, 3)] /\
  wire_windows 2 true true [MIdle tt; MIdle tt; MFixed tt; MIdle tt; MIdle tt; MMerge shearL tt; MIdle tt; MIdle tt]
    = [(0, 1); (3, 5); (5, 7)] /\
  wire_windows 4 false false demo_wire = @nil (nat * nat).
Proof. vm_compute. repeat split. Qed.
