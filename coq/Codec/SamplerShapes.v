(* Model of Sampler._get_measurement_shapes (cirq-core/cirq/work/sampler.py) and of the records that
   ZerosSampler.run_sweep builds from it (cirq-core/cirq/work/zeros_sampler.py), hand-written in the shape
   of the code.  Definitions only; proofs are in SamplerShapesProofs.v.

   A circuit is a list of moments, a moment a list of operations.  Only what the function looks at is kept
   of an operation: None = not a measurement, Some (key, qid_shape) = a measurement with that key on qubits
   of those dimensions.  Keys are Z identifiers (the adapter numbers the strings).
   None as a result = the code raises ValueError. *)
From Coq Require Import ZArith List Bool.
From VF Require Import Base.Harness Codec.ResultViews.
Import ListNotations.
Open Scope Z_scope.

Definition mop := option (Z * list Z).
Definition mcircuit := list (list mop).

(* circuit.all_operations(): moment by moment, every operation of the moment *)
Definition all_operations (c : mcircuit) : list mop := concat c.

(* for op in circuit.all_operations():
     key = measurement_key_name(op, default=None)
     if key is not None:
       prev = qid_shapes.setdefault(key, qid_shape);  if qid_shape != prev: raise ValueError
       num_instances[key] += 1                        (a collections.Counter)                   *)
Fixpoint shapes_loop (ops : list mop) (qs : list (Z * list Z)) (ni : list (Z * nat))
  : option (list (Z * list Z) * list (Z * nat)) :=
  match ops with
  | [] => Some (qs, ni)
  | None :: t => shapes_loop t qs ni
  | Some (k, s) :: t =>
      match lookup k qs with
      | None => shapes_loop t (qs ++ [(k, s)]) (counter_add Z.eqb k ni)
      | Some s' => if zl_eqb s s' then shapes_loop t qs (counter_add Z.eqb k ni) else None
      end
  end.

(* return {k: (num_instances[k], qid_shape) for k, qid_shape in qid_shapes.items()} *)
Definition measurement_shapes (c : mcircuit) : option (list (Z * (nat * list Z))) :=
  match shapes_loop (all_operations c) [] [] with
  | Some (qs, ni) => Some (map (fun ks => (fst ks, (count Z.eqb (fst ks) ni, snd ks))) qs)
  | None => None
  end.

(* ---- what the documentation says, operation by operation ---- *)
(* the qid shapes of the measurement operations that carry key k, in circuit order *)
Definition key_ops (k : Z) (ops : list mop) : list (list Z) :=
  flat_map (fun o => match o with
                     | Some (k', s) => if k =? k' then [s] else []
                     | None => []
                     end) ops.
(* "num_instances is the number of times that key appears in the circuit" *)
Definition instances (k : Z) (ops : list mop) : nat := length (key_ops k ops).
(* no two measurement operations with the same key differ in qid shape *)
Definition shapes_consistent (ops : list mop) : Prop :=
  forall k s s', In s (key_ops k ops) -> In s' (key_ops k ops) -> s = s'.

(* ---- ZerosSampler.run_sweep: np.zeros((repetitions, num_instances, len(qid_shape))) for every key ---- *)
Definition zeros_rec (reps inst nq : nat) : rec := mkRec inst nq (repeat (repeat (repeat 0 nq) inst) reps).
Definition zeros_result (reps : nat) (c : mcircuit) : option result :=
  option_map (map (fun e => (fst e, zeros_rec reps (fst (snd e)) (length (snd (snd e))))))
             (measurement_shapes c).

(* ---- the reference: a run in which every measurement yields zeros.  In each repetition every measurement
   operation appends one row (a digit per measured qubit) to the record of its key, in circuit order
   (SimulatesSamples: records[key][rep, instance, qubit]). ---- *)
Definition reference_rec (reps : nat) (k : Z) (ops : list mop) : rec :=
  let shapes := key_ops k ops in
  mkRec (length shapes) (length (hd [] shapes)) (repeat (map (fun s => repeat 0 (length s)) shapes) reps).
(* keys in the order of their first measurement *)
Fixpoint first_keys (ops : list mop) (seen : list Z) : list Z :=
  match ops with
  | [] => []
  | None :: t => first_keys t seen
  | Some (k, _) :: t => if existsb (Z.eqb k) seen then first_keys t seen else k :: first_keys t (seen ++ [k])
  end.
Definition reference_result (reps : nat) (c : mcircuit) : result :=
  map (fun k => (k, reference_rec reps k (all_operations c))) (first_keys (all_operations c) []).
