(* Model of cirq-google/cirq_google/engine/processor_sampler.py, ProcessorSampler.run_batch_async with jobs_per_batch,
   hand-written in the shape of the code.  Definitions only; proofs are in BatchedSamplerProofs.v.

   A program, a sweep and a result are abstract.  run_sweep is what the processor answers for ONE program; a call that
   carries several programs (one sweep, one repetition count) is answered with the results "grouped by program, then by
   sweep point", as the code assumes of the engine.  Sweeps are compared by the == of the code (sweep_eqb).
   None = the code raises ValueError. *)
From Coq Require Import List Bool Arith.
From VF Require Import Codec.ResultViews.
Import ListNotations.

Section Batched.
  Context {Prog Sweep Res : Type}.
  Variable sweep_eqb : Sweep -> Sweep -> bool.
  Variable run_sweep : Prog -> Sweep -> nat -> list Res.

  (* one API call: the programs of the batch, their common sweep and repetition count *)
  Definition job : Type := (list Prog * Sweep * nat)%type.

  (* the two nested while loops: the batch that is open (cur, cs, cr) takes the NEXT program while it has fewer than
     jobs_per_batch programs and the next program has the same repetitions and the same sweep; otherwise the batch is
     closed and the next program opens a new one *)
  Fixpoint cut_batches (jpb : nat) (cur : list Prog) (cs : Sweep) (cr : nat) (items : list (Prog * Sweep * nat))
    : list job :=
    match items with
    | [] => [(cur, cs, cr)]
    | (p, s, r) :: rest =>
        if (length cur <? jpb) && Nat.eqb r cr && sweep_eqb s cs
        then cut_batches jpb (cur ++ [p]) cs cr rest
        else (cur, cs, cr) :: cut_batches jpb [p] s r rest
    end.
  Definition batches (jpb : nat) (items : list (Prog * Sweep * nat)) : list job :=
    match items with
    | [] => []
    | (p, s, r) :: rest => cut_batches jpb [p] s r rest
    end.

  (* the processor on one call: (P1, S1), (P1, S2), (P2, S1), (P2, S2) ... *)
  Definition engine_run (j : job) : list Res :=
    flat_map (fun p => run_sweep p (snd (fst j)) (snd j)) (fst (fst j)).

  (* l[lo:hi] for lo <= hi *)
  Definition slice {A} (l : list A) (lo hi : nat) : list A := firstn (hi - lo) (skipn lo l).

  (* num_sweeps = len(batch_res) // num_progs; ValueError unless divisible;
     batch_res[j * num_sweeps : (j + 1) * num_sweeps] for j in range(num_progs) *)
  Definition split_results (np : nat) (res : list Res) : option (list (list Res)) :=
    if negb (Nat.eqb (length res mod np) 0) then None else
    let ns := length res / np in
    Some (map (fun j => slice res (j * ns) ((j + 1) * ns)) (seq 0 np)).

  Definition job_results (j : job) : option (list (list Res)) :=
    split_results (length (fst (fst j))) (engine_run j).

  (* run_batch_async: with jobs_per_batch <= 1 the base class (one call per program) *)
  Definition run_batch_jobs (jpb : nat) (none : Sweep) (programs : list Prog) (params : option (list Sweep))
    (reps : nat + list nat) : option (list (list Res)) :=
    if 1 <? jpb then
      match normalize_batch_args (length programs) none params reps with
      | None => None
      | Some (ps, rs) =>
          match mapM job_results (batches jpb (combine (combine programs ps) rs)) with
          | None => None
          | Some parts => Some (concat parts)
          end
      end
    else run_batch run_sweep none programs params reps.
End Batched.
