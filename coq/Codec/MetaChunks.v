(* IonQ measurement metadata and result bit order (cirq_ionq/serializer.py `_serialize_measurement_gate`,
   `_serialize_measurements`; job.py `measurement_dict`, `_little_endian_to_big`; results.py `ordered_results`,
   `to_cirq_result`), hand-written in the shape of the code.  Definitions only; proofs in MetaChunksProofs.v.
   Strings are lists of code points (Z); target indices are N; None = the code raises. *)
From Coq Require Import List ZArith NArith Arith Bool Decimal.
From VF Require Import Base.Digits.
Import ListNotations.
Open Scope Z_scope.

Definition US : Z := 31.      (* chr(31), unit separator: key US targets *)
Definition RS : Z := 30.      (* chr(30), record separator between measurements *)
Definition COMMA : Z := 44.

(* ---- str(t) / int(s) for target indices ---- *)
Fixpoint uint_chars (u : Decimal.uint) : list Z :=
  match u with
  | Nil => []
  | D0 r => 48 :: uint_chars r | D1 r => 49 :: uint_chars r | D2 r => 50 :: uint_chars r
  | D3 r => 51 :: uint_chars r | D4 r => 52 :: uint_chars r | D5 r => 53 :: uint_chars r
  | D6 r => 54 :: uint_chars r | D7 r => 55 :: uint_chars r | D8 r => 56 :: uint_chars r
  | D9 r => 57 :: uint_chars r
  end.
Fixpoint chars_uint (l : list Z) : option Decimal.uint :=
  match l with
  | [] => Some Nil
  | c :: r =>
      match chars_uint r with
      | None => None
      | Some u =>
          if c =? 48 then Some (D0 u) else if c =? 49 then Some (D1 u) else if c =? 50 then Some (D2 u)
          else if c =? 51 then Some (D3 u) else if c =? 52 then Some (D4 u) else if c =? 53 then Some (D5 u)
          else if c =? 54 then Some (D6 u) else if c =? 55 then Some (D7 u) else if c =? 56 then Some (D8 u)
          else if c =? 57 then Some (D9 u) else None
      end
  end.
Definition dec (n : N) : list Z := uint_chars (N.to_uint n).
(* strict: plain digits only (what the serializer writes); the empty string is an error as for int('') *)
Definition undec (l : list Z) : option N :=
  match l with
  | [] => None
  | _ => match chars_uint l with Some u => Some (N.of_uint u) | None => None end
  end.

(* ---- sep.join(pieces) and s.split(sep) for a one-character separator ---- *)
Fixpoint join_with (sep : Z) (ls : list (list Z)) : list Z :=
  match ls with
  | [] => []
  | x :: r => match r with [] => x | _ => x ++ sep :: join_with sep r end
  end.
Fixpoint split_on (sep : Z) (l : list Z) : list (list Z) :=
  match l with
  | [] => [[]]
  | c :: r =>
      if c =? sep then [] :: split_on sep r
      else match split_on sep r with
           | [] => [[c]]
           | p :: ps => (c :: p) :: ps
           end
  end.

(* ---- the serializer ---- *)
Definition record := (list Z * list N)%type.          (* measurement key, target qubit indices in gate order *)
Definition key_ok (k : list Z) : bool := forallb (fun c => negb (c =? US) && negb (c =? RS)) k.
Definition targets_str (ts : list N) : list Z := join_with COMMA (map dec ts).
Definition record_str (r : record) : list Z := fst r ++ US :: targets_str (snd r).
Definition full_str (rs : list record) : list Z := join_with RS (map record_str rs).

(* [s[i:i+n] for i in range(0, len(s), n)] *)
Fixpoint chunks_aux (fuel n : nat) (l : list Z) : list (list Z) :=
  match fuel with
  | O => []
  | S f => match l with [] => [] | _ => firstn n l :: chunks_aux f n (skipn n l) end
  end.
Definition chunks (n : nat) (l : list Z) : list (list Z) := chunks_aux (length l) n l.

Inductive ser_result := SerOk (chunks : list (list Z)) | SerBadKey | SerTooLong.
(* _serialize_measurement_gate raises on a separator in a key; _serialize_measurements on more than 9 chunks *)
Definition serialize_measurements (size : nat) (rs : list record) : ser_result :=
  if forallb (fun r => key_ok (fst r)) rs then
    let cs := chunks size (full_str rs) in
    if Nat.ltb 9 (length cs) then SerTooLong else SerOk cs
  else SerBadKey.

(* ---- job.measurement_dict: join the measurementN values, split records, split key / targets ---- *)
Fixpoint map_opt {A B} (f : A -> option B) (l : list A) : option (list B) :=
  match l with
  | [] => Some []
  | x :: r => match f x, map_opt f r with Some y, Some ys => Some (y :: ys) | _, _ => None end
  end.
Definition parse_targets (s : list Z) : option (list N) := map_opt undec (split_on COMMA s).
Definition parse_record (s : list Z) : option record :=
  match split_on US s with
  | [k; v] => match parse_targets v with Some ts => Some (k, ts) | None => None end
  | _ => None
  end.
Definition parse_full (s : list Z) : option (list record) :=
  match s with [] => Some [] | _ => map_opt parse_record (split_on RS s) end.
Definition parse_chunks (cs : list (list Z)) : option (list record) := parse_full (concat cs).

(* a Python dict built by successive assignment: a repeated key keeps its first position, takes the last value *)
Definition zl_eqb (a b : list Z) : bool :=
  (fix go a b := match a, b with
                 | [], [] => true
                 | x :: a', y :: b' => (x =? y) && go a' b'
                 | _, _ => false
                 end) a b.
Fixpoint dict_set (d : list record) (k : list Z) (v : list N) : list record :=
  match d with
  | [] => [(k, v)]
  | (k', v') :: r => if zl_eqb k k' then (k', v) :: r else (k', v') :: dict_set r k v
  end.
Definition dict_of (rs : list record) : list record := fold_left (fun d r => dict_set d (fst r) (snd r)) rs [].
Definition measurement_dict (cs : list (list Z)) : option (list record) :=
  match parse_chunks cs with Some rs => Some (dict_of rs) | None => None end.

(* ---- bit order ---- *)
(* job._little_endian_to_big: big_endian_bits_to_int(big_endian_int_to_bits(value, bit_count=n)[::-1]) *)
Definition le_to_big (value : Z) (n : nat) : Z := bits_to_int (map (Z.eqb 1) (List.rev (int_to_bits value n))).

(* results.py: bits = [(value >> (num_qubits - target - 1)) & 1 for target in targets]; a negative shift raises *)
Definition key_bits (n : nat) (targets : list N) (value : Z) : option (list Z) :=
  map_opt (fun t => let s := Z.of_nat n - Z.of_N t - 1 in
                    if s <? 0 then None else Some (Z.land (Z.shiftr value s) 1)) targets.
(* bit_value = sum(bit * (1 << i) for i, bit in enumerate(bits[::-1])) *)
Fixpoint weighted (le_bits : list Z) (i : Z) : Z :=
  match le_bits with [] => 0 | b :: r => b * Z.shiftl 1 i + weighted r (i + 1) end.
Definition bit_value (bits : list Z) : Z := weighted (List.rev bits) 0.

(* QPUResult.ordered_results(key) for one histogram entry, then to_cirq_result's big_endian_int_to_bits(x, len(targets)) *)
Definition qpu_row (n : nat) (targets : list N) (value : Z) : option (list Z) :=
  match key_bits n targets value with
  | Some bits => Some (int_to_bits (bit_value bits) (length targets))
  | None => None
  end.
(* SimulatorResult.to_cirq_result uses the bits directly *)
Definition sim_row (n : nat) (targets : list N) (value : Z) : option (list Z) := key_bits n targets value.

(* the whole QPU path of Job.results + QPUResult.to_cirq_result for one key: histogram (little-endian outcome, count)
   -> counts keyed by the big-endian value, sorted by it -> each row repeated count times *)
Fixpoint insert_sorted (x : Z * nat) (l : list (Z * nat)) : list (Z * nat) :=
  match l with
  | [] => [x]
  | y :: r => if fst x <? fst y then x :: l else if fst x =? fst y then x :: r   (* dict: a later equal key overwrites *)
              else y :: insert_sorted x r
  end.
Definition sorted_counts (n : nat) (hist : list (Z * nat)) : list (Z * nat) :=
  fold_left (fun acc h => insert_sorted (le_to_big (fst h) n, snd h) acc) hist [].
Definition qpu_rows (n : nat) (targets : list N) (hist : list (Z * nat)) : option (list (list Z)) :=
  map_opt (fun x => x)
          (flat_map (fun vc => repeat (qpu_row n targets (fst vc)) (snd vc)) (sorted_counts n hist)).

(* ---- boolean equalities for the correspondence check ---- *)
Definition zll_eqb17 (a b : list (list Z)) : bool :=
  (fix go a b := match a, b with
                 | [], [] => true
                 | x :: a', y :: b' => zl_eqb x y && go a' b'
                 | _, _ => false
                 end) a b.
Definition nl_eqb17 (a b : list N) : bool :=
  (fix go a b := match a, b with
                 | [], [] => true
                 | x :: a', y :: b' => N.eqb x y && go a' b'
                 | _, _ => false
                 end) a b.
Definition records_eqb (a b : list record) : bool :=
  (fix go a b := match a, b with
                 | [], [] => true
                 | x :: a', y :: b' => zl_eqb (fst x) (fst y) && nl_eqb17 (snd x) (snd y) && go a' b'
                 | _, _ => false
                 end) a b.
Definition ser_eqb (a b : ser_result) : bool :=
  match a, b with
  | SerOk x, SerOk y => zll_eqb17 x y
  | SerBadKey, SerBadKey | SerTooLong, SerTooLong => true
  | _, _ => false
  end.
Definition orecords_eqb (a b : option (list record)) : bool :=
  match a, b with Some x, Some y => records_eqb x y | None, None => true | _, _ => false end.
Definition orows_eqb (a b : option (list (list Z))) : bool :=
  match a, b with Some x, Some y => zll_eqb17 x y | None, None => true | _, _ => false end.

(* SimulatorResult.to_cirq_result: outcomes are drawn (index list `picks`) from the probabilities dict, whose keys are the
   big-endian values in the order of the vendor's histogram *)
Definition sim_rows (n : nat) (targets : list N) (outs : list Z) (picks : list nat) : option (list (list Z)) :=
  map_opt (fun i => sim_row n targets (nth i (map (fun o => le_to_big o n) outs) 0)) picks.
