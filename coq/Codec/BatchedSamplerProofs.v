From Coq Require Import List Bool Arith Lia.
From VF Require Import Codec.ResultViews Codec.ResultViewsProofs Codec.BatchedSampler.
Import ListNotations.

Section BatchedProofs.
  Context {Prog Sweep Res : Type}.
  Variable sweep_eqb : Sweep -> Sweep -> bool.
  Variable run_sweep : Prog -> Sweep -> nat -> list Res.
  (* == on sweeps holds only of sweeps that are the same *)
  Hypothesis sweep_eqb_sound : forall a b, sweep_eqb a b = true -> a = b.
  (* the processor returns one result per sweep point, whatever the program *)
  Variable points : Sweep -> nat.
  Hypothesis one_result_per_point : forall p s r, length (run_sweep p s r) = points s.

  Lemma slice_head {A} (a c : list A) m : length a = m -> slice (a ++ c) (0 * m) ((0 + 1) * m) = a.
  Proof.
    intros H. unfold slice. simpl. rewrite Nat.add_0_r, Nat.sub_0_r.
    rewrite firstn_app, H, Nat.sub_diag. simpl. rewrite app_nil_r. rewrite <- H. apply firstn_all.
  Qed.

  Lemma slice_shift {A} (a c : list A) m j : length a = m ->
    slice (a ++ c) (S j * m) ((S j + 1) * m) = slice c (j * m) ((j + 1) * m).
  Proof.
    intros H. unfold slice.
    replace ((S j + 1) * m - S j * m) with m by lia.
    replace ((j + 1) * m - j * m) with m by lia.
    rewrite skipn_app. rewrite skipn_all2 by lia.
    replace (S j * m - length a) with (j * m) by lia. reflexivity.
  Qed.

  (* cutting the concatenation of k lists of length m into k slices of length m gives the lists back *)
  Lemma chunks_concat {A} (ls : list (list A)) m : Forall (fun l => length l = m) ls ->
    map (fun j => slice (concat ls) (j * m) ((j + 1) * m)) (seq 0 (length ls)) = ls.
  Proof.
    induction ls as [|a ls IH]; intros H; [reflexivity|].
    inversion H as [|? ? Ha Hls]; subst. specialize (IH Hls).
    cbn [length seq map concat]. rewrite slice_head by reflexivity. f_equal.
    rewrite <- seq_shift, map_map.
    rewrite <- IH at 2. apply map_ext. intros j. apply slice_shift. reflexivity.
  Qed.

  Lemma concat_length_uniform {A} (ls : list (list A)) m : Forall (fun l => length l = m) ls ->
    length (concat ls) = length ls * m.
  Proof.
    induction ls as [|a ls IH]; intros H; [reflexivity|].
    inversion H as [|? ? Ha Hls]; subst. simpl. rewrite app_length, IH by assumption. reflexivity.
  Qed.

  (* one API call with several programs is split back into the results of each of its programs, in order *)
  Lemma job_results_spec cur cs cr : cur <> [] ->
    job_results run_sweep (cur, cs, cr) = Some (map (fun p => run_sweep p cs cr) cur).
  Proof.
    intros Hne. unfold job_results, engine_run, split_results. cbn [fst snd].
    rewrite flat_map_concat_map.
    set (ls := map (fun p => run_sweep p cs cr) cur).
    assert (Hu : Forall (fun l => length l = points cs) ls).
    { apply Forall_forall. intros l Hl. apply in_map_iff in Hl. destruct Hl as (p & <- & _).
      apply one_result_per_point. }
    assert (Hlen : length ls = length cur) by (apply map_length).
    assert (Hpos : length cur <> 0) by (destruct cur; [contradiction|discriminate]).
    rewrite (concat_length_uniform ls _ Hu), Hlen.
    rewrite (Nat.mul_comm (length cur)), Nat.mod_mul by exact Hpos. cbn [Nat.eqb negb].
    rewrite Nat.div_mul by exact Hpos. rewrite <- Hlen. rewrite chunks_concat by exact Hu. reflexivity.
  Qed.

  Definition run3 (cpr : Prog * Sweep * nat) : list Res := run_sweep (fst (fst cpr)) (snd (fst cpr)) (snd cpr).

  Lemma cut_batches_spec jpb items : forall cur cs cr, cur <> [] ->
    exists parts, mapM (job_results run_sweep) (cut_batches sweep_eqb jpb cur cs cr items) = Some parts /\
                  concat parts = map (fun p => run_sweep p cs cr) cur ++ map run3 items.
  Proof.
    induction items as [|[[p s] r] rest IH]; intros cur cs cr Hne.
    - cbn [cut_batches mapM]. rewrite job_results_spec by exact Hne.
      eexists. split; [reflexivity|]. simpl. reflexivity.
    - cbn [cut_batches].
      destruct ((length cur <? jpb) && Nat.eqb r cr && sweep_eqb s cs) eqn:E.
      + apply andb_prop in E. destruct E as [E Es]. apply andb_prop in E. destruct E as [_ Er].
        apply Nat.eqb_eq in Er. apply sweep_eqb_sound in Es. subst r s.
        destruct (IH (cur ++ [p]) cs cr) as (parts & Hm & Hc).
        { intros H. apply app_eq_nil in H. destruct H as [_ H]. discriminate. }
        exists parts. split; [exact Hm|]. rewrite Hc, map_app, <- app_assoc. reflexivity.
      + destruct (IH [p] s r) as (parts & Hm & Hc); [discriminate|].
        cbn [mapM]. rewrite job_results_spec by exact Hne. rewrite Hm.
        eexists. split; [reflexivity|]. cbn [concat]. rewrite Hc. reflexivity.
  Qed.

  (* whatever jobs_per_batch is, run_batch returns what one call per program returns: the results of programs[i]
     with its own sweep and repetitions at position i *)
  Theorem run_batch_jobs_is_run_batch jpb none programs params reps :
    run_batch_jobs sweep_eqb run_sweep jpb none programs params reps = run_batch run_sweep none programs params reps.
  Proof.
    unfold run_batch_jobs. destruct (1 <? jpb); [|reflexivity].
    unfold run_batch. destruct (normalize_batch_args (length programs) none params reps) as [[ps rs]|]; [|reflexivity].
    destruct (combine (combine programs ps) rs) as [|[[p s] r] rest]; [reflexivity|].
    cbn [batches]. destruct (cut_batches_spec jpb rest [p] s r) as (parts & Hm & Hc); [discriminate|].
    rewrite Hm, Hc. reflexivity.
  Qed.

  Theorem run_batch_jobs_spec jpb none programs params reps out dp ds :
    run_batch_jobs sweep_eqb run_sweep jpb none programs params reps = Some out ->
    length out = length programs /\
    exists ps rs, normalize_batch_args (length programs) none params reps = Some (ps, rs) /\
      forall i, i < length programs ->
        nth i out [] = run_sweep (nth i programs dp) (nth i ps ds) (nth i rs 0).
  Proof. rewrite run_batch_jobs_is_run_batch. apply run_batch_spec. Qed.
End BatchedProofs.

(* a batch never holds more than jobs_per_batch programs, is never empty, and its programs are consecutive ones *)
Section BatchShape.
  Context {Prog Sweep : Type}.
  Variable sweep_eqb : Sweep -> Sweep -> bool.

  Lemma cut_batches_shape jpb items : forall (cur : list Prog) cs cr, cur <> [] -> length cur <= Nat.max 1 jpb ->
    Forall (fun j : job => fst (fst j) <> [] /\ length (fst (fst j)) <= Nat.max 1 jpb)
           (cut_batches sweep_eqb jpb cur cs cr items) /\
    concat (map (fun j : job => fst (fst j)) (cut_batches sweep_eqb jpb cur cs cr items))
      = cur ++ map (fun cpr => fst (fst cpr)) items.
  Proof.
    induction items as [|[[p s] r] rest IH]; intros cur cs cr Hne Hle.
    - cbn [cut_batches]. split; [constructor; [split; assumption|constructor]|]. simpl. rewrite app_nil_r. reflexivity.
    - cbn [cut_batches].
      destruct ((length cur <? jpb) && Nat.eqb r cr && sweep_eqb s cs) eqn:E.
      + apply andb_prop in E. destruct E as [E _]. apply andb_prop in E. destruct E as [El _].
        apply Nat.ltb_lt in El.
        destruct (IH (cur ++ [p]) cs cr) as [Hf Hc].
        { intros H. apply app_eq_nil in H. destruct H as [_ H]. discriminate. }
        { rewrite app_length. cbn [length]. lia. }
        split; [exact Hf|]. rewrite Hc, <- app_assoc. reflexivity.
      + destruct (IH [p] s r) as [Hf Hc]; [discriminate|cbn [length]; lia|].
        split; [constructor; [split; assumption|exact Hf]|].
        cbn [map concat fst]. rewrite Hc. reflexivity.
  Qed.

  Theorem batches_shape jpb (items : list (Prog * Sweep * nat)) :
    Forall (fun j : job => fst (fst j) <> [] /\ length (fst (fst j)) <= Nat.max 1 jpb) (batches sweep_eqb jpb items) /\
    concat (map (fun j : job => fst (fst j)) (batches sweep_eqb jpb items)) = map (fun cpr => fst (fst cpr)) items.
  Proof.
    destruct items as [|[[p s] r] rest]; [split; [constructor|reflexivity]|].
    cbn [batches]. destruct (cut_batches_shape jpb rest [p] s r) as [Hf Hc]; [discriminate|cbn [length]; lia|].
    split; [exact Hf|]. rewrite Hc. reflexivity.
  Qed.
End BatchShape.
