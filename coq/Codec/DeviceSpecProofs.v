(* C16 — proofs about Codec/DeviceSpec.v: the device read from a specification validates exactly the couplings the
   specification describes, and writing it out again describes the same device. *)
From Coq Require Import ZArith List Bool Lia.
From VF Require Import Codec.DeviceSpec.
Import ListNotations.
Open Scope Z_scope.

(* ---------------- the orders ---------------- *)
Lemma z_ok : order_ok Z.compare.
Proof.
  split.
  - apply Z.compare_refl.
  - apply Z.compare_eq.
  - intros x y H. change (x > y) in H. change (y < x). lia.
  - intros x y z H1 H2. change (x < y) in H1. change (y < z) in H2. change (x < z). lia.
Qed.

Lemma lex_ok {A B} (ca : A -> A -> comparison) (cb : B -> B -> comparison) :
  order_ok ca -> order_ok cb -> order_ok (lex ca cb).
Proof.
  intros [ra ea aa ta] [rb eb ab tb]. split.
  - intros [x1 x2]. unfold lex; simpl. rewrite ra. apply rb.
  - intros [x1 x2] [y1 y2]. unfold lex; simpl. destruct (ca x1 y1) eqn:E; intros H; try discriminate H.
    apply ea in E. apply eb in H. subst. reflexivity.
  - intros [x1 x2] [y1 y2]. unfold lex; simpl. destruct (ca x1 y1) eqn:E; intros H; try discriminate H.
    + apply ea in E. subst. rewrite ra. apply ab. exact H.
    + rewrite (aa _ _ E). reflexivity.
  - intros [x1 x2] [y1 y2] [z1 z2]. unfold lex; simpl.
    destruct (ca x1 y1) eqn:E1; intros H1; try discriminate H1;
      destruct (ca y1 z1) eqn:E2; intros H2; try discriminate H2.
    + apply ea in E1. apply ea in E2. subst. rewrite ra. eapply tb; eassumption.
    + apply ea in E1. subst. rewrite E2. reflexivity.
    + apply ea in E2. subst. rewrite E1. reflexivity.
    + rewrite (ta _ _ _ E1 E2). reflexivity.
Qed.

Lemma cmpq_ok : order_ok cmpq.
Proof. apply lex_ok; apply z_ok. Qed.
Lemma cmpp_ok : order_ok cmpp.
Proof. apply lex_ok; apply cmpq_ok. Qed.

(* ---------------- sets as sorted lists ---------------- *)
Section Sorted.
  Context {A : Type} (cmp : A -> A -> comparison) (OK : order_ok cmp).

  Lemma lt_gt x y : cmp x y = Lt -> cmp y x = Gt.
  Proof.
    intros H. destruct (cmp y x) eqn:E; [| |reflexivity].
    - apply (ok_eq cmp OK) in E. subst. rewrite (ok_refl cmp OK) in H. discriminate H.
    - pose proof (ok_trans cmp OK _ _ _ H E) as T. rewrite (ok_refl cmp OK) in T. discriminate T.
  Qed.

  Lemma lt_neq x y : cmp x y = Lt -> x <> y.
  Proof. intros H E. subst. rewrite (ok_refl cmp OK) in H. discriminate H. Qed.

  Lemma is_eq_iff x y : is_eq (cmp x y) = true <-> x = y.
  Proof.
    split.
    - destruct (cmp x y) eqn:E; intros H; try discriminate H. apply (ok_eq cmp OK). exact E.
    - intros ->. rewrite (ok_refl cmp OK). reflexivity.
  Qed.

  Lemma existsb_eq_In x l : existsb (fun y => is_eq (cmp x y)) l = true <-> In x l.
  Proof.
    rewrite existsb_exists. split.
    - intros [y [Hy E]]. apply is_eq_iff in E. subst. exact Hy.
    - intros H. exists x. split; [exact H|]. apply is_eq_iff. reflexivity.
  Qed.

  Lemma In_insert x l z : In z (insert cmp x l) <-> z = x \/ In z l.
  Proof.
    induction l as [|y r IH]; simpl.
    - split; [intros [H|[]]; left; symmetry; exact H | intros [H|[]]; left; symmetry; exact H].
    - destruct (cmp x y) eqn:E; simpl.
      + apply (ok_eq cmp OK) in E. subst. split; [intros H; right; exact H | intros [H|H]; [left; symmetry; exact H | exact H]].
      + split; [intros [H|H]; [left; symmetry; exact H | right; exact H] | intros [H|H]; [left; symmetry; exact H | right; exact H]].
      + rewrite IH. split.
        * intros [H|[H|H]]; [right; left; exact H | left; exact H | right; right; exact H].
        * intros [H|[H|H]]; [right; left; exact H | left; exact H | right; right; exact H].
  Qed.

  Lemma In_sort_set l z : In z (sort_set cmp l) <-> In z l.
  Proof.
    induction l as [|x r IH]; simpl; [reflexivity|].
    rewrite In_insert, IH. split; [intros [H|H]; [left; symmetry; exact H | right; exact H] | intros [H|H]; [left; symmetry; exact H | right; exact H]].
  Qed.

  Lemma insert_sorted x l : ssorted cmp l -> ssorted cmp (insert cmp x l).
  Proof.
    induction l as [|y r IH]; simpl.
    - intros _. split; [constructor|exact I].
    - intros [Hy Hr]. destruct (cmp x y) eqn:E.
      + simpl. split; assumption.
      + simpl. split; [|split; assumption].
        constructor; [exact E|].
        apply Forall_forall. intros z Hz. rewrite Forall_forall in Hy.
        apply (ok_trans cmp OK _ _ _ E). apply Hy. exact Hz.
      + simpl. split; [|apply IH; exact Hr].
        apply Forall_forall. intros z Hz. apply In_insert in Hz. destruct Hz as [->|Hz].
        * apply (ok_antisym cmp OK). exact E.
        * rewrite Forall_forall in Hy. apply Hy. exact Hz.
  Qed.

  Lemma sort_set_sorted l : ssorted cmp (sort_set cmp l).
  Proof. induction l as [|x r IH]; simpl; [exact I|]. apply insert_sorted. exact IH. Qed.

  Lemma insert_below x l : Forall (fun y => cmp x y = Lt) l -> insert cmp x l = x :: l.
  Proof. destruct l as [|y r]; simpl; [reflexivity|]. intros H. inversion H as [|? ? Hy Hr]; subst. rewrite Hy. reflexivity. Qed.

  Lemma sort_set_id l : ssorted cmp l -> sort_set cmp l = l.
  Proof.
    induction l as [|x r IH]; simpl; [reflexivity|].
    intros [Hx Hr]. rewrite (IH Hr). apply insert_below. exact Hx.
  Qed.

  Lemma sorted_notin x r : Forall (fun y => cmp x y = Lt) r -> ~ In x r.
  Proof. intros H Hin. rewrite Forall_forall in H. apply (lt_neq _ _ (H _ Hin)). reflexivity. Qed.
End Sorted.

(* ---------------- membership tests ---------------- *)
Lemma memq_In q l : memq q l = true <-> In q l.
Proof. unfold memq, q_eqb. apply (existsb_eq_In cmpq cmpq_ok). Qed.

Lemma memp_In p l : memp p l = true <-> In p l.
Proof. unfold memp. apply (existsb_eq_In cmpp cmpp_ok). Qed.

Lemma nodupb_sorted l : ssorted cmpq l -> nodupb l = true.
Proof.
  induction l as [|x r IH]; simpl; [reflexivity|].
  intros [Hx Hr]. rewrite (IH Hr), andb_true_r. apply negb_true_iff.
  destruct (memq x r) eqn:E; [|reflexivity]. apply memq_In in E. exfalso. exact (sorted_notin cmpq cmpq_ok _ _ Hx E).
Qed.

(* ---------------- unordered pairs ---------------- *)
Lemma norm_cases p : norm p = p \/ norm p = (snd p, fst p).
Proof. unfold norm. destruct (cmpq (fst p) (snd p)); [left|left|right]; reflexivity. Qed.

Lemma norm_swap a b : norm (b, a) = norm (a, b).
Proof.
  unfold norm; simpl. destruct (cmpq b a) eqn:E.
  - apply (ok_eq cmpq cmpq_ok) in E. subst. rewrite (ok_refl cmpq cmpq_ok). reflexivity.
  - rewrite (lt_gt cmpq cmpq_ok _ _ E). reflexivity.
  - rewrite (ok_antisym cmpq cmpq_ok _ _ E). reflexivity.
Qed.

Lemma norm_eq_iff p a b : norm p = norm (a, b) <-> p = (a, b) \/ p = (b, a).
Proof.
  split.
  - intros H. destruct p as [x y].
    destruct (norm_cases (x, y)) as [E1|E1]; destruct (norm_cases (a, b)) as [E2|E2]; rewrite E1, E2 in H; simpl in H;
      inversion H; subst; auto.
  - intros [->| ->]; [reflexivity|apply norm_swap].
Qed.

Lemma norm_lt p : cmpq (fst p) (snd p) = Lt -> norm p = p.
Proof. unfold norm. intros ->. reflexivity. Qed.

(* ---------------- the couplings of a specification ---------------- *)
Lemma In_pair_of_target p t : In p (pair_of_target t) <-> t = [fst p; snd p].
Proof.
  destruct t as [|a [|b [|c r]]]; simpl; try (split; [intros [] | intros H; discriminate H]).
  split.
  - intros [<-|[]]. reflexivity.
  - intros H. inversion H; subst. left. destruct p; reflexivity.
Qed.

Lemma In_raw_pairs s p :
  In p (raw_pairs s) <->
  exists ts t, In ts (valid_targets s) /\ ts_ordering ts = Symmetric /\ In t (ts_targets ts) /\ t = [fst p; snd p].
Proof.
  unfold raw_pairs. rewrite in_flat_map. split.
  - intros [ts [Hts Hp]]. unfold pairs_of_set in Hp.
    destruct (ts_ordering ts) eqn:O; simpl in Hp; try (destruct Hp; fail).
    apply in_flat_map in Hp. destruct Hp as [t [Ht Hp]]. apply In_pair_of_target in Hp.
    exists ts, t. repeat split; assumption.
  - intros [ts [t [Hts [O [Ht E]]]]]. exists ts. split; [exact Hts|].
    unfold pairs_of_set. rewrite O. simpl. apply in_flat_map. exists t. split; [exact Ht|].
    apply In_pair_of_target. exact E.
Qed.

Lemma coupling_raw s a b : coupling s a b <-> In (a, b) (raw_pairs s) \/ In (b, a) (raw_pairs s).
Proof.
  split.
  - intros [ts [t [Hts [O [Ht [E|E]]]]]]; [left|right]; apply In_raw_pairs; exists ts, t; repeat split; assumption.
  - intros [H|H]; apply In_raw_pairs in H; destruct H as [ts [t [Hts [O [Ht E]]]]]; simpl in E;
      exists ts, t; repeat split; try assumption; [left|right]; exact E.
Qed.

Lemma from_proto_inv s d :
  from_proto s = Some d ->
  valid_spec s = true /\ d_qubits d = sort_set cmpq (valid_qubits s) /\ d_pairs d = sort_set cmpp (map norm (raw_pairs s)).
Proof.
  unfold from_proto. destruct (valid_spec s); intros H; [|discriminate H].
  inversion H; subst; simpl. repeat split.
Qed.

(* the device holds a coupling between a and b exactly when the specification lists [a; b] or [b; a] in a SYMMETRIC set *)
Theorem from_proto_coupled s d : from_proto s = Some d -> forall a b, coupled d a b = true <-> coupling s a b.
Proof.
  intros H a b. apply from_proto_inv in H. destruct H as [_ [_ Hp]].
  unfold coupled. rewrite Hp, memp_In, (In_sort_set cmpp cmpp_ok), in_map_iff, coupling_raw. split.
  - intros [p [E Hin]]. apply norm_eq_iff in E. destruct E as [->| ->]; [left|right]; exact Hin.
  - intros [Hin|Hin]; [exists (a, b)|exists (b, a)]; (split; [|exact Hin]); [reflexivity|apply norm_swap].
Qed.

(* ---------------- validity: what a valid specification guarantees ---------------- *)
Lemma valid_spec_inv s :
  valid_spec s = true ->
  nodupb (valid_qubits s) = true /\ Forall (fun q => unsigned_id q = true) (valid_qubits s)
  /\ (forall ts t q, In ts (valid_targets s) -> In t (ts_targets ts) -> In q t -> In q (valid_qubits s))
  /\ (forall ts t, In ts (valid_targets s) -> ts_ordering ts = Symmetric -> In t (ts_targets ts) -> nodupb t = true).
Proof.
  unfold valid_spec. intros H. apply andb_true_iff in H. destruct H as [H Ht]. apply andb_true_iff in H. destruct H as [Hn Hu].
  rewrite forallb_forall in Ht. repeat split.
  - exact Hn.
  - apply Forall_forall. rewrite forallb_forall in Hu. exact Hu.
  - intros ts t q Hts Hin Hq. specialize (Ht ts Hts). unfold valid_target_set in Ht.
    apply andb_true_iff in Ht. destruct Ht as [Ht _]. apply andb_true_iff in Ht. destruct Ht as [Ht _].
    rewrite forallb_forall in Ht. specialize (Ht t Hin). rewrite forallb_forall in Ht. apply memq_In. apply Ht. exact Hq.
  - intros ts t Hts O Hin. specialize (Ht ts Hts). unfold valid_target_set in Ht.
    apply andb_true_iff in Ht. destruct Ht as [Ht _]. apply andb_true_iff in Ht. destruct Ht as [_ Ht].
    rewrite O in Ht. simpl in Ht. rewrite forallb_forall in Ht. apply Ht. exact Hin.
Qed.

Lemma coupling_on_device s a b :
  valid_spec s = true -> coupling s a b -> In a (valid_qubits s) /\ In b (valid_qubits s) /\ a <> b.
Proof.
  intros V [ts [t [Hts [O [Ht E]]]]]. destruct (valid_spec_inv s V) as [_ [_ [Hq Hd]]].
  pose proof (Hd ts t Hts O Ht) as ND.
  assert (Ia : In a t) by (destruct E as [->| ->]; simpl; auto).
  assert (Ib : In b t) by (destruct E as [->| ->]; simpl; auto).
  split; [exact (Hq ts t a Hts Ht Ia)|]. split; [exact (Hq ts t b Hts Ht Ib)|].
  intros ->. destruct E as [->| ->]; simpl in ND; unfold q_eqb in ND; rewrite (ok_refl cmpq cmpq_ok) in ND; discriminate ND.
Qed.

Lemma In_d_qubits s d q : from_proto s = Some d -> In q (d_qubits d) <-> In q (valid_qubits s).
Proof. intros H. apply from_proto_inv in H. destruct H as [_ [Hq _]]. rewrite Hq. apply (In_sort_set cmpq cmpq_ok). Qed.

(* validate_operation on a two-qubit gate that is not a measurement or a wait *)
Theorem validate_two_qubit s d : from_proto s = Some d -> forall a b, validate_op d false [a; b] = true <-> coupling s a b.
Proof.
  intros H a b. unfold validate_op. simpl. rewrite andb_true_r. split.
  - intros V. apply andb_true_iff in V. destruct V as [_ V]. apply (from_proto_coupled s d H). exact V.
  - intros C. pose proof (proj1 (from_proto_inv s d H)) as V.
    destruct (coupling_on_device s a b V C) as [Ia [Ib _]].
    apply andb_true_iff. split; [|apply (from_proto_coupled s d H); exact C].
    apply andb_true_iff. split; apply memq_In; apply (In_d_qubits s d _ H); assumption.
Qed.

(* measurement / wait on any qubits of the device, and any gate on one or three and more qubits *)
Theorem validate_other s d : from_proto s = Some d -> forall variadic qs,
  (variadic = true \/ length qs <> 2%nat) -> (validate_op d variadic qs = true <-> Forall (fun q => In q (valid_qubits s)) qs).
Proof.
  intros H variadic qs Hc. unfold validate_op.
  assert (T : match qs with [a; b] => variadic || coupled d a b | _ => true end = true).
  { destruct qs as [|a [|b [|c r]]]; try reflexivity. destruct Hc as [->|Hc]; [reflexivity|]. exfalso. apply Hc. reflexivity. }
  rewrite T, andb_true_r, forallb_forall, Forall_forall. split.
  - intros F q Hq. apply (In_d_qubits s d q H). apply memq_In. apply F. exact Hq.
  - intros F q Hq. apply memq_In. apply (In_d_qubits s d q H). apply F. exact Hq.
Qed.

(* target sets that are not SYMMETRIC describe no coupling, whatever the size of their targets *)
Theorem no_symmetric_no_coupling s d :
  (forall ts, In ts (valid_targets s) -> ts_ordering ts <> Symmetric) -> from_proto s = Some d ->
  d_pairs d = [] /\ forall a b, validate_op d false [a; b] = false.
Proof.
  intros N H.
  assert (R : raw_pairs s = []).
  { destruct (raw_pairs s) as [|p r] eqn:E; [reflexivity|]. exfalso.
    assert (Hin : In p (raw_pairs s)) by (rewrite E; left; reflexivity).
    apply In_raw_pairs in Hin. destruct Hin as [ts [t [Hts [O _]]]]. exact (N ts Hts O). }
  pose proof (from_proto_inv s d H) as [_ [_ Hp]]. rewrite R in Hp. simpl in Hp. split; [exact Hp|].
  intros a b. unfold validate_op, coupled. rewrite Hp. simpl. apply andb_false_r.
Qed.

(* ---------------- the device object is well formed ---------------- *)
Theorem from_proto_wf s d : from_proto s = Some d -> wf_device d.
Proof.
  intros H. pose proof (from_proto_inv s d H) as [V [Hq Hp]]. unfold wf_device. rewrite Hq, Hp. repeat split.
  - apply (sort_set_sorted cmpq cmpq_ok).
  - apply (sort_set_sorted cmpp cmpp_ok).
  - apply Forall_forall. intros p Hin. rewrite (In_sort_set cmpp cmpp_ok) in Hin. apply in_map_iff in Hin.
    destruct Hin as [[x y] [E Hin]].
    assert (C : coupling s x y) by (apply coupling_raw; left; exact Hin).
    destruct (coupling_on_device s x y V C) as [Ix [Iy Nxy]].
    rewrite <- E. unfold norm; simpl. destruct (cmpq x y) eqn:Cxy; simpl.
    + exfalso. apply Nxy. apply (ok_eq cmpq cmpq_ok). exact Cxy.
    + repeat split; [exact Cxy| |]; rewrite (In_sort_set cmpq cmpq_ok); assumption.
    + repeat split; [apply (ok_antisym cmpq cmpq_ok); exact Cxy| |]; rewrite (In_sort_set cmpq cmpq_ok); assumption.
  - destruct (valid_spec_inv s V) as [_ [Hu _]]. apply Forall_forall. intros q Hin.
    rewrite (In_sort_set cmpq cmpq_ok) in Hin. rewrite Forall_forall in Hu. apply Hu. exact Hin.
Qed.

(* ---------------- to_proto ---------------- *)
Lemma raw_pairs_to_proto d : raw_pairs (to_proto d) = d_pairs d.
Proof.
  unfold raw_pairs, to_proto; simpl. rewrite app_nil_r. unfold pairs_of_set; simpl.
  induction (d_pairs d) as [|[a b] r IH]; simpl; [reflexivity|]. rewrite IH. reflexivity.
Qed.

Lemma map_norm_id l : Forall (fun p => cmpq (fst p) (snd p) = Lt) l -> map norm l = l.
Proof.
  induction l as [|p r IH]; simpl; [reflexivity|]. intros H. inversion H as [|? ? Hp Hr]; subst.
  rewrite (norm_lt p Hp), (IH Hr). reflexivity.
Qed.

Lemma valid_to_proto d : wf_device d -> valid_spec (to_proto d) = true.
Proof.
  intros [Sq [_ [Hp Hu]]]. unfold valid_spec, to_proto; simpl.
  rewrite (nodupb_sorted _ Sq). simpl.
  assert (U : forallb unsigned_id (d_qubits d) = true) by (apply forallb_forall; rewrite Forall_forall in Hu; exact Hu).
  rewrite U. simpl. rewrite andb_true_r. unfold valid_target_set; simpl. rewrite andb_true_r.
  rewrite Forall_forall in Hp. apply andb_true_iff. split.
  - apply forallb_forall. intros t Ht. apply in_map_iff in Ht. destruct Ht as [p [<- Hin]]. destruct (Hp p Hin) as [_ [Ia Ib]].
    simpl. rewrite (proj2 (memq_In _ _) Ia), (proj2 (memq_In _ _) Ib). reflexivity.
  - apply forallb_forall. intros t Ht. apply in_map_iff in Ht. destruct Ht as [p [<- Hin]]. destruct (Hp p Hin) as [Lt_ _].
    simpl. unfold q_eqb. rewrite Lt_. reflexivity.
Qed.

(* reading back what the device writes gives the same device object *)
Theorem from_to_proto d : wf_device d -> from_proto (to_proto d) = Some d.
Proof.
  intros W. unfold from_proto. rewrite (valid_to_proto d W). destruct W as [Sq [Sp [Hp _]]].
  rewrite raw_pairs_to_proto.
  assert (L : Forall (fun p => cmpq (fst p) (snd p) = Lt) (d_pairs d)).
  { apply Forall_forall. intros p Hin. rewrite Forall_forall in Hp. apply (Hp p Hin). }
  rewrite (map_norm_id _ L), (sort_set_id cmpp _ Sp). simpl. rewrite (sort_set_id cmpq _ Sq).
  destruct d; reflexivity.
Qed.

Theorem spec_device_roundtrip s d : from_proto s = Some d -> from_proto (to_proto d) = Some d.
Proof. intros H. apply from_to_proto. exact (from_proto_wf s d H). Qed.

(* the specification written by the device describes the qubits and couplings of the specification it was read from *)
Theorem to_proto_same_meaning s d : from_proto s = Some d ->
  (forall q, In q (valid_qubits (to_proto d)) <-> In q (valid_qubits s)) /\
  (forall a b, coupling (to_proto d) a b <-> coupling s a b).
Proof.
  intros H. split.
  - intros q. simpl. apply (In_d_qubits s d q H).
  - intros a b. pose proof (spec_device_roundtrip s d H) as R.
    rewrite <- (from_proto_coupled (to_proto d) d R a b). apply (from_proto_coupled s d H).
Qed.

(* ---------------- examples: the hypotheses are satisfiable ---------------- *)
(* two uncoupled qubits and a SUBSET_PERMUTATION measurement target listing both (the shape of the shipped specifications) *)
Definition ex_meas_spec : spec :=
  {| valid_qubits := [(0, 0); (2, 2)];
     valid_targets := [ {| ts_ordering := SubsetPermutation; ts_targets := [[(0, 0); (2, 2)]] |} ] |}.
Definition ex_pair_spec : spec :=
  {| valid_qubits := [(1, 1); (0, 0); (0, 1)];
     valid_targets := [ {| ts_ordering := Symmetric; ts_targets := [[(0, 1); (0, 0)]; [(0, 0); (0, 1)]; [(0, 1); (1, 1)]] |};
                        {| ts_ordering := Unspecified; ts_targets := [[(0, 0); (1, 1)]] |} ] |}.

Example device_spec_examples :
  from_proto ex_meas_spec = Some {| d_qubits := [(0, 0); (2, 2)]; d_pairs := [] |} /\
  (forall ts, In ts (valid_targets ex_meas_spec) -> ts_ordering ts <> Symmetric) /\
  validate_op {| d_qubits := [(0, 0); (2, 2)]; d_pairs := [] |} true [(0, 0); (2, 2)] = true /\
  from_proto ex_pair_spec = Some {| d_qubits := [(0, 0); (0, 1); (1, 1)]; d_pairs := [((0, 0), (0, 1)); ((0, 1), (1, 1))] |} /\
  wf_device {| d_qubits := [(0, 0); (0, 1); (1, 1)]; d_pairs := [((0, 0), (0, 1)); ((0, 1), (1, 1))] |} /\
  coupling ex_pair_spec (0, 0) (0, 1) /\ ~ coupling ex_pair_spec (0, 0) (1, 1).
Proof.
  split; [reflexivity|]. split.
  { intros ts [<-|[]]. simpl. discriminate. }
  split; [reflexivity|]. split; [reflexivity|]. split.
  { apply (from_proto_wf ex_pair_spec). reflexivity. }
  split.
  - apply (from_proto_coupled ex_pair_spec _ eq_refl). reflexivity.
  - intros C. apply (from_proto_coupled ex_pair_spec _ eq_refl) in C. discriminate C.
Qed.
