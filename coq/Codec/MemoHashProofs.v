(* C11 — proofs about the memo as a dict and about equality/hash of mappings (Codec/MemoHash.v). *)
From Coq Require Import ZArith List Bool String Arith Lia Permutation.
From VF Require Import Codec.JsonMemo Codec.JsonMemoProofs Codec.MemoHash.
Import ListNotations.
Local Open Scope string_scope.
Local Open Scope list_scope.

(* ---------- (1) the memo ---------- *)
(* among the entries with the same hash a dict compares with ==; equal values have equal hashes whatever the hash
   function is, so the hash test never hides an equal entry and never admits an unequal one *)
Lemma find_hash_eq_from_find : forall (h : value -> Z) v M i, find_hash_eq_from h v M i = find_from v M i.
Proof.
  intros h v M. induction M as [|x r IH]; intros i; simpl.
  - reflexivity.
  - destruct (value_eqb v x) eqn:E.
    + apply value_eqb_eq in E. subst x. rewrite Z.eqb_refl. reflexivity.
    + rewrite andb_false_r. apply IH.
Qed.

Lemma find_hash_eq_find : forall (h : value -> Z) v M, find_hash_eq h v M = find_idx v M.
Proof. intros; apply find_hash_eq_from_find. Qed.

(* unfolding equations of the parametrised encoder *)
Section Unfold.
Variable bk : string -> bool.
Variable lk : value -> list value -> option nat.
Lemma encg_arr : forall l M, encg bk lk (VArr l) M = (let '(jl, M') := encg_l bk lk l M in (JArr jl, M')).
Proof. reflexivity. Qed.
Lemma encg_dict : forall f M, encg bk lk (VDict f) M = (let '(jf, M') := encg_f bk lk f M in (JObj jf, M')).
Proof. reflexivity. Qed.
Lemma encg_obj : forall tag f M, encg bk lk (VObj tag f) M =
  if bk tag then
    match lk (VObj tag f) M with
    | Some k => (ref_json k, M)
    | None => let '(jf, M') := encg_f bk lk f (M ++ [VObj tag f]) in (val_json (List.length M) (typed_json tag jf), M')
    end
  else let '(jf, M') := encg_f bk lk f M in (typed_json tag jf, M').
Proof. reflexivity. Qed.
Lemma encg_l_cons : forall v r M, encg_l bk lk (VCons v r) M =
  (let '(j, M1) := encg bk lk v M in let '(jr, M2) := encg_l bk lk r M1 in (JCons j jr, M2)).
Proof. reflexivity. Qed.
Lemma encg_f_cons : forall k v r M, encg_f bk lk (VFCons k v r) M =
  (let '(j, M1) := encg bk lk v M in let '(jr, M2) := encg_f bk lk r M1 in (JFCons k j jr, M2)).
Proof. reflexivity. Qed.
End Unfold.

Section UnfoldEnc.
Variable bk : string -> bool.
Lemma enc_arr : forall l M, enc bk (VArr l) M = (let '(jl, M') := enc_l bk l M in (JArr jl, M')).
Proof. reflexivity. Qed.
Lemma enc_dict : forall f M, enc bk (VDict f) M = (let '(jf, M') := enc_f bk f M in (JObj jf, M')).
Proof. reflexivity. Qed.
Lemma enc_obj : forall tag f M, enc bk (VObj tag f) M =
  if bk tag then
    match find_idx (VObj tag f) M with
    | Some k => (ref_json k, M)
    | None => let '(jf, M') := enc_f bk f (M ++ [VObj tag f]) in (val_json (List.length M) (typed_json tag jf), M')
    end
  else let '(jf, M') := enc_f bk f M in (typed_json tag jf, M').
Proof. reflexivity. Qed.
Lemma enc_l_cons : forall v r M, enc_l bk (VCons v r) M =
  (let '(j, M1) := enc bk v M in let '(jr, M2) := enc_l bk r M1 in (JCons j jr, M2)).
Proof. reflexivity. Qed.
Lemma enc_f_cons : forall k v r M, enc_f bk (VFCons k v r) M =
  (let '(j, M1) := enc bk v M in let '(jr, M2) := enc_f bk r M1 in (JFCons k j jr, M2)).
Proof. reflexivity. Qed.
End UnfoldEnc.

(* the encoder depends on the look-up only through its results *)
Lemma encg_ext_all : forall bk (l1 l2 : value -> list value -> option nat),
  (forall v M, l1 v M = l2 v M) ->
  (forall v M, encg bk l1 v M = encg bk l2 v M) /\
  (forall l M, encg_l bk l1 l M = encg_l bk l2 l M) /\
  (forall f M, encg_f bk l1 f M = encg_f bk l2 f M).
Proof.
  intros bk l1 l2 Hl. apply value_mutind.
  - intros M; reflexivity.
  - intros z M; reflexivity.
  - intros s M; reflexivity.
  - intros l IH M. rewrite !encg_arr, IH. reflexivity.
  - intros f IH M. rewrite !encg_dict, IH. reflexivity.
  - intros tag f IH M. rewrite !encg_obj, Hl. destruct (bk tag).
    + destruct (l2 (VObj tag f) M); [reflexivity|]. rewrite IH. reflexivity.
    + rewrite IH. reflexivity.
  - intros M; reflexivity.
  - intros v IHv r IHr M. rewrite !encg_l_cons, IHv. destruct (encg bk l2 v M) as [j M1]. rewrite IHr. reflexivity.
  - intros M; reflexivity.
  - intros k v IHv r IHr M. rewrite !encg_f_cons, IHv. destruct (encg bk l2 v M) as [j M1]. rewrite IHr. reflexivity.
Qed.

(* with the look-up by == the parametrised encoder IS the encoder of Codec/JsonMemo.v *)
Lemma encg_find_idx_all : forall bk,
  (forall v M, encg bk find_idx v M = enc bk v M) /\
  (forall l M, encg_l bk find_idx l M = enc_l bk l M) /\
  (forall f M, encg_f bk find_idx f M = enc_f bk f M).
Proof.
  intros bk. apply value_mutind.
  - intros M; reflexivity.
  - intros z M; reflexivity.
  - intros s M; reflexivity.
  - intros l IH M. rewrite encg_arr, enc_arr, IH. reflexivity.
  - intros f IH M. rewrite encg_dict, enc_dict, IH. reflexivity.
  - intros tag f IH M. rewrite encg_obj, enc_obj. destruct (bk tag).
    + destruct (find_idx (VObj tag f) M); [reflexivity|]. rewrite IH. reflexivity.
    + rewrite IH. reflexivity.
  - intros M; reflexivity.
  - intros v IHv r IHr M. rewrite encg_l_cons, enc_l_cons, IHv. destruct (enc bk v M) as [j M1]. rewrite IHr. reflexivity.
  - intros M; reflexivity.
  - intros k v IHv r IHr M. rewrite encg_f_cons, enc_f_cons, IHv. destruct (enc bk v M) as [j M1]. rewrite IHr. reflexivity.
Qed.

Theorem encode_dict_is_encode : forall bk (h : value -> Z) v, encode_dict bk h v = encode bk v.
Proof.
  intros bk h v. unfold encode_dict, encode.
  rewrite (proj1 (encg_ext_all bk (find_hash_eq h) find_idx (find_hash_eq_find h))).
  rewrite (proj1 (encg_find_idx_all bk)). reflexivity.
Qed.

(* a memo that is a dict keyed by the objects round-trips every value, whatever the hash function and however
   many distinct by-key objects share one hash *)
Theorem dict_memo_roundtrip : forall bk (h : value -> Z) v, wf v = true -> decode (encode_dict bk h v) = Some v.
Proof. intros bk h v H. rewrite encode_dict_is_encode. apply json_memo_roundtrip. exact H. Qed.

(* the two circuits on qubits -1 and -2 are different values with one hash *)
Lemma two_circuits_collide :
  value_eqb (circuit_on (-1)) (circuit_on (-2)) = false /\
  py_value_hash (circuit_on (-1)) = py_value_hash (circuit_on (-2)) /\ wf two_circuits = true.
Proof. repeat split; vm_compute; reflexivity. Qed.

(* a memo keyed by hash(o) alone writes the second circuit as a reference to the first: the document reads back as
   two copies of the first circuit *)
Theorem memo_by_hash_refuted : exists (bk : string -> bool) (h : value -> Z) v,
  wf v = true /\ decode (encode_by_hash bk h v) <> Some v /\ decode (encode_dict bk h v) = Some v.
Proof.
  exists fc_by_key, py_value_hash, two_circuits. split; [vm_compute; reflexivity|]. split.
  - vm_compute. discriminate.
  - apply dict_memo_roundtrip. vm_compute; reflexivity.
Qed.

Lemma py_int_hash_examples :
  py_int_hash (-1) = (-2)%Z /\ py_int_hash (-2) = (-2)%Z /\ py_int_hash 0 = 0%Z /\ py_int_hash m61 = 0%Z /\
  py_int_hash (m61 + 1) = 1%Z /\ py_int_hash (- m61) = 0%Z /\ py_int_hash 7 = 7%Z.
Proof. repeat split; vm_compute; reflexivity. Qed.

(* ---------- (2) mappings ---------- *)
Lemma pkey_eqb_eq : forall a b, pkey_eqb a b = true <-> a = b.
Proof.
  intros [s|s] [t|t]; simpl; split; intros H; try discriminate.
  - apply String.eqb_eq in H; subst; reflexivity.
  - inversion H; subst; apply String.eqb_refl.
  - apply String.eqb_eq in H; subst; reflexivity.
  - inversion H; subst; apply String.eqb_refl.
Qed.

Lemma item_eqb_eq : forall a b : item, item_eqb a b = true <-> a = b.
Proof.
  intros [ka va] [kb vb]; unfold item_eqb; simpl; split; intros H.
  - apply andb_true_iff in H; destruct H as [H1 H2].
    apply pkey_eqb_eq in H1; apply Z.eqb_eq in H2; subst; reflexivity.
  - inversion H; subst. apply andb_true_iff; split; [apply pkey_eqb_eq; reflexivity|apply Z.eqb_refl].
Qed.

Lemma has_item_in : forall x l, has_item x l = true <-> In x l.
Proof.
  intros x l; unfold has_item; rewrite existsb_exists; split.
  - intros [y [Hy He]]. apply item_eqb_eq in He; subst; exact Hy.
  - intros H; exists x; split; [exact H|apply item_eqb_eq; reflexivity].
Qed.

Lemma keys_distinct_nodup : forall l, keys_distinct l = true -> NoDup l.
Proof.
  induction l as [|x r IH]; simpl; intros H.
  - constructor.
  - apply andb_true_iff in H; destruct H as [H1 H2]. constructor; [|apply IH; exact H2].
    intros Hin. apply negb_true_iff in H1.
    assert (E : existsb (fun y => pkey_eqb (fst x) (fst y)) r = true).
    { apply existsb_exists. exists x; split; [exact Hin|apply pkey_eqb_eq; reflexivity]. }
    rewrite E in H1; discriminate.
Qed.

Lemma dict_eqb_perm : forall a b, keys_distinct a = true -> keys_distinct b = true ->
  dict_eqb a b = true -> Permutation a b.
Proof.
  intros a b Ha Hb H. unfold dict_eqb in H. apply andb_true_iff in H; destruct H as [Hl Hi].
  apply Nat.eqb_eq in Hl. rewrite forallb_forall in Hi.
  apply NoDup_Permutation_bis.
  - apply keys_distinct_nodup; exact Ha.
  - rewrite Hl; apply le_n.
  - intros x Hx. apply has_item_in. apply Hi. exact Hx.
Qed.

Lemma items_hash_perm : forall (hi : item -> Z) a b, Permutation a b -> items_hash hi a = items_hash hi b.
Proof.
  intros hi a b P. unfold items_hash. induction P; simpl.
  - reflexivity.
  - rewrite IHP; reflexivity.
  - lia.
  - rewrite IHP1; exact IHP2.
Qed.

(* equal mappings have equal hashes when the hash reads the items as a set *)
Theorem dict_eq_hash : forall (hi : item -> Z) a b, keys_distinct a = true -> keys_distinct b = true ->
  dict_eqb a b = true -> items_hash hi a = items_hash hi b.
Proof. intros hi a b Ha Hb H. apply items_hash_perm. apply dict_eqb_perm; assumption. Qed.

(* an equality that identifies the two spellings of a key is consistent with a hash of the items spelled by name *)
Theorem name_eq_name_hash : forall (hi : item -> Z) a b,
  keys_distinct (map by_name a) = true -> keys_distinct (map by_name b) = true ->
  name_eqb a b = true -> items_hash hi (map by_name a) = items_hash hi (map by_name b).
Proof. intros hi a b Ha Hb H. apply dict_eq_hash; assumption. Qed.

(* ... but NOT with a hash of the items as they were written: {Symbol a: 0} and {'a': 0} are then equal, and every
   item hash that tells the two spellings apart gives them different hashes *)
Definition res_sym : list item := [(KSym "a", 0%Z)].
Definition res_name : list item := [(KName "a", 0%Z)].
Theorem name_eq_raw_hash_refuted :
  name_eqb res_sym res_name = true /\ dict_eqb res_sym res_name = false /\
  keys_distinct res_sym = true /\ keys_distinct res_name = true /\
  forall hi : item -> Z, hi (KSym "a", 0%Z) <> hi (KName "a", 0%Z) -> items_hash hi res_sym <> items_hash hi res_name.
Proof.
  repeat split; try (vm_compute; reflexivity).
  intros hi H. unfold items_hash, res_sym, res_name; simpl. lia.
Qed.

(* a hash that reads the items as a SEQUENCE (hash(tuple(d.items()))) is not a function of the mapping: two equal
   mappings written in different orders are different sequences *)
Definition st_ab : list item := [(KName "q0", 0%Z); (KName "q1", 0%Z)].
Definition st_ba : list item := [(KName "q1", 0%Z); (KName "q0", 0%Z)].
Theorem dict_eq_sequence_hash_refuted :
  dict_eqb st_ab st_ba = true /\ keys_distinct st_ab = true /\ keys_distinct st_ba = true /\ st_ab <> st_ba.
Proof. repeat split; try (vm_compute; reflexivity). discriminate. Qed.

Example dict_eq_hash_example :
  keys_distinct st_ab = true /\ keys_distinct st_ba = true /\ dict_eqb st_ab st_ba = true /\
  keys_distinct (map by_name res_sym) = true /\ keys_distinct (map by_name res_name) = true.
Proof. repeat split; vm_compute; reflexivity. Qed.
