(* Proofs about the key-string codec of Codec/KeyPath.v *)
From Coq Require Import List Bool String Ascii Lia.
From VF Require Import Codec.KeyPath.
Import ListNotations.
Local Open Scope string_scope.

Lemma split_hd_no_sep : forall s, no_sep s = true -> split_hd s = (s, []).
Proof.
  induction s as [|c r IH]; simpl; intros H; [reflexivity|].
  apply andb_true_iff in H. destruct H as [Hc Hr].
  rewrite (IH Hr). apply negb_true_iff in Hc. rewrite Hc. reflexivity.
Qed.

Lemma split_hd_app : forall c r, no_sep c = true ->
  split_hd (c ++ String sep r) = (c, fst (split_hd r) :: snd (split_hd r)).
Proof.
  induction c as [|a c IH]; simpl; intros r H.
  - destruct (split_hd r) as [h t]. simpl. reflexivity.
  - apply andb_true_iff in H. destruct H as [Ha Hc].
    rewrite (IH r Hc). apply negb_true_iff in Ha. rewrite Ha. reflexivity.
Qed.

Lemma split_app : forall c r, no_sep c = true -> split (c ++ String sep r) = c :: split r.
Proof.
  intros c r H. unfold split. rewrite (split_hd_app c r H).
  destruct (split_hd r) as [h t]. reflexivity.
Qed.

Lemma split_join : forall l x, forallb no_sep l = true -> no_sep x = true -> split (join l x) = (l ++ [x])%list.
Proof.
  induction l as [|c l IH]; simpl; intros x Hl Hx.
  - unfold split. rewrite (split_hd_no_sep x Hx). reflexivity.
  - apply andb_true_iff in Hl. destruct Hl as [Hc Hl].
    rewrite (split_app c _ Hc). rewrite (IH x Hl Hx). reflexivity.
Qed.

(* the structural round trip: a key whose components are free of the separator comes back with the same path and name *)
Theorem key_parse_str : forall k, key_wf k = true -> key_parse (key_str k) = k.
Proof.
  intros [p n] H. unfold key_wf in H. simpl in H. apply andb_true_iff in H. destruct H as [Hp Hn].
  unfold key_parse, key_str. simpl. rewrite (split_join p n Hp Hn).
  rewrite removelast_last, last_last. reflexivity.
Qed.

Example key_wf_satisfiable : key_wf (MKey ["a"; "b"] "m") = true.
Proof. reflexivity. Qed.

Lemma join_cons_char : forall c h t,
  join (removelast (String c h :: t)) (last (String c h :: t) EmptyString)
  = String c (join (removelast (h :: t)) (last (h :: t) EmptyString)).
Proof.
  intros c h t. destruct t as [|y t]; simpl; reflexivity.
Qed.

Lemma join_split_hd : forall s,
  join (removelast (fst (split_hd s) :: snd (split_hd s))) (last (fst (split_hd s) :: snd (split_hd s)) EmptyString) = s.
Proof.
  induction s as [|c r IH]; [reflexivity|].
  simpl split_hd. destruct (split_hd r) as [h t]. simpl fst in IH. simpl snd in IH.
  destruct (Ascii.eqb c sep) eqn:E; simpl fst; simpl snd.
  - apply Ascii.eqb_eq in E. subst c.
    change (removelast (EmptyString :: h :: t)) with (EmptyString :: removelast (h :: t)).
    change (last (EmptyString :: h :: t) EmptyString) with (last (h :: t) EmptyString).
    change (join (EmptyString :: removelast (h :: t)) (last (h :: t) EmptyString))
      with (String sep (join (removelast (h :: t)) (last (h :: t) EmptyString))).
    rewrite IH. reflexivity.
  - rewrite join_cons_char. rewrite IH. reflexivity.
Qed.

(* the other direction holds for EVERY string: writing the parsed key gives the document string back *)
Theorem key_str_parse : forall s, key_str (key_parse s) = s.
Proof.
  intros s. unfold key_str, key_parse, split. simpl k_path. simpl k_name.
  generalize (join_split_hd s). destruct (split_hd s) as [h t]. simpl fst. simpl snd. intros H. exact H.
Qed.

(* so on the property's domain the implementation's equality (joined strings) IS structural equality *)
Theorem key_str_injective : forall a b, key_wf a = true -> key_wf b = true -> key_str a = key_str b -> a = b.
Proof.
  intros a b Ha Hb E. rewrite <- (key_parse_str a Ha), <- (key_parse_str b Hb), E. reflexivity.
Qed.

Theorem key_eq_impl_structural : forall a b, key_wf a = true -> key_wf b = true ->
  (key_eq_impl a b = true <-> a = b).
Proof.
  intros a b Ha Hb. unfold key_eq_impl. rewrite String.eqb_eq. split.
  - apply key_str_injective; assumption.
  - intros ->. reflexivity.
Qed.

Lemma join_app : forall p l x, join (p ++ l)%list x = join p (join l x).
Proof.
  induction p as [|c p IH]; simpl; intros l x; [reflexivity|]. rewrite IH. reflexivity.
Qed.

(* scopes added in front: the document string of the rescoped key is the prefix joined to the old string *)
Theorem key_prefix_str : forall p k, key_str (key_prefix p k) = join p (key_str k).
Proof. intros p [l n]. unfold key_str, key_prefix. simpl. apply join_app. Qed.

Lemma key_prefix_wf : forall p k, forallb no_sep p = true -> key_wf k = true -> key_wf (key_prefix p k) = true.
Proof.
  intros p [l n] Hp H. unfold key_wf in *. simpl in *. apply andb_true_iff in H. destruct H as [Hl Hn].
  rewrite forallb_app, Hp, Hl, Hn. reflexivity.
Qed.

(* keys of any nesting depth (a key inside k enclosing scopes) survive the document, with their depth *)
Theorem key_roundtrip_nested : forall p k, forallb no_sep p = true -> key_wf k = true ->
  key_roundtrip (key_prefix p k) = key_prefix p k /\
  List.length (k_path (key_roundtrip (key_prefix p k))) = (List.length p + List.length (k_path k))%nat.
Proof.
  intros p k Hp Hk. unfold key_roundtrip.
  rewrite (key_parse_str _ (key_prefix_wf p k Hp Hk)). split; [reflexivity|].
  destruct k as [l n]. simpl. apply app_length.
Qed.

(* outside the domain the statement fails (the constructor validates the name but not the path entries):
   a path entry that itself contains ':' is split on reading *)
Theorem key_roundtrip_refuted : exists k, key_roundtrip k <> k /\ key_eq_impl (key_roundtrip k) k = true.
Proof.
  exists (MKey ["a:b"] "m"). split; [|reflexivity].
  unfold key_roundtrip. vm_compute. intros H. discriminate H.
Qed.
