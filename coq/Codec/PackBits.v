(* Model of cirq-google/cirq_google/api/v2/results.py : pack_bits / unpack_bits
   (hand-written in the shape of the code; numpy primitives are list functions).
   Definitions only; proofs are in PackBitsProofs.v.

     def pack_bits(bits):
         pad = -len(bits) % 8
         if pad: bits = np.pad(bits, (0, pad), 'constant')
         bits = bits.reshape((-1, 8))[:, ::-1]
         byte_arr = np.packbits(bits, axis=1).reshape(-1)
         return byte_arr.tobytes()

     def unpack_bits(data, repetitions):
         byte_arr = np.frombuffer(data, dtype='uint8').reshape((len(data), 1))
         bits = np.unpackbits(byte_arr, axis=1)[:, ::-1].reshape(-1).astype(bool)
         return bits[:repetitions]

   Bytes are Z values 0..255; lengths and indices are nat. *)
From Coq Require Import ZArith List Bool.
Import ListNotations.
Open Scope Z_scope.

(* -len(bits) % 8  (Python's % : result in 0..7) *)
Definition pad_len (n : nat) : nat := Z.to_nat ((- Z.of_nat n) mod 8).

(* np.pad(bits, (0, pad), 'constant') *)
Definition padded (bits : list bool) : list bool := bits ++ repeat false (pad_len (length bits)).

(* reshape((-1, 8)) : consecutive rows of 8; fuel = an upper bound on the number of rows *)
Fixpoint rows8 (fuel : nat) (l : list bool) : list (list bool) :=
  match fuel with
  | O => []
  | S f => match l with
           | [] => []
           | _ => firstn 8 l :: rows8 f (skipn 8 l)
           end
  end.

(* np.packbits on one row: the first bit is the most significant *)
Definition packbits_row (row : list bool) : Z :=
  fold_left (fun acc (b : bool) => 2 * acc + (if b then 1 else 0)) row 0.

(* np.unpackbits on one byte: 8 bits, most significant first *)
Definition unpackbits_byte (b : Z) : list bool :=
  map (fun i => Z.testbit b i) [7; 6; 5; 4; 3; 2; 1; 0].

Definition pack_bits (bits : list bool) : list Z :=
  map (fun row => packbits_row (rev row)) (rows8 (length bits) (padded bits)).

Definition unpack_all (data : list Z) : list bool :=
  flat_map (fun b => rev (unpackbits_byte b)) data.

Definition unpack_bits (data : list Z) (repetitions : nat) : list bool :=
  firstn repetitions (unpack_all data).
