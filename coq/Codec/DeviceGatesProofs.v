(* C16 — proofs about Codec/DeviceGates.v: a circuit is valid exactly when each of its operations is, whatever stands before
   it; the tag-selected gate variants need their own GateSpecification. *)
From Coq Require Import ZArith List Bool Permutation.
From VF Require Import Codec.DeviceSpec Codec.DeviceSpecProofs Codec.DeviceGates.
Import ListNotations.
Open Scope Z_scope.

Theorem validate_circuit_all d names ops :
  validate_circuit d names ops = true <-> forall o, In o ops -> validate_operation d names o = true.
Proof. unfold validate_circuit. apply forallb_forall. Qed.

Theorem validate_circuit_app d names a b :
  validate_circuit d names (a ++ b) = validate_circuit d names a && validate_circuit d names b.
Proof. unfold validate_circuit. apply forallb_app. Qed.

(* an operation of an accepted circuit is valid by itself: nothing that stands before it (the same gate on the same qubits
   under other tags, say) can stand in for it *)
Theorem validate_circuit_member d names pre o post :
  validate_circuit d names (pre ++ o :: post) = true -> validate_operation d names o = true.
Proof.
  intro H. rewrite validate_circuit_all in H. apply H. apply in_or_app. right. left. reflexivity.
Qed.

Theorem validate_circuit_snoc d names pre o :
  validate_circuit d names (pre ++ [o]) = validate_circuit d names pre && validate_operation d names o.
Proof. rewrite validate_circuit_app. simpl. rewrite andb_true_r. reflexivity. Qed.

Theorem validate_circuit_perm d names a b : Permutation a b -> validate_circuit d names a = validate_circuit d names b.
Proof.
  intro P. induction P as [|x a b P IH|x y a|a b c P1 IH1 P2 IH2]; simpl.
  - reflexivity.
  - rewrite IH. reflexivity.
  - rewrite !andb_assoc. rewrite (andb_comm (validate_operation d names y)). reflexivity.
  - rewrite IH1. exact IH2.
Qed.

Lemma has_name_cons n m names : has_name n (m :: names) = name_eqb n m || has_name n names.
Proof. reflexivity. Qed.

(* a Z power needs virtual_zpow without PhysicalZTag and physical_zpow under it *)
Theorem zpow_needs_its_name names o : o_kind o = KZPow ->
  gate_ok names o = has_name (if physical_z (o_tags o) then NPhysicalZ else NVirtualZ) names.
Proof.
  intro K. unfold gate_ok. rewrite K. destruct (o_tags o) as [p v w]. simpl physical_z.
  induction names as [|m names IH].
  - reflexivity.
  - rewrite has_name_cons. simpl existsb. rewrite IH. f_equal.
    destruct m; destruct p; reflexivity.
Qed.

(* an FSimGate needs fsim_via_model under FSimViaModelTag or two_pulse_fsim under TwoPulseFSimTag; bare it is no gate of a
   specification *)
Theorem fsim_needs_its_name names o : o_kind o = KFSim ->
  gate_ok names o = (via_model (o_tags o) && has_name NFsimViaModel names) || (two_pulse (o_tags o) && has_name NTwoPulseFsim names).
Proof.
  intro K. unfold gate_ok. rewrite K. destruct (o_tags o) as [p v w]. simpl via_model. simpl two_pulse.
  induction names as [|m names IH].
  - simpl. rewrite !andb_false_r. reflexivity.
  - rewrite !has_name_cons. simpl existsb. rewrite IH.
    destruct m; destruct v; destruct w; simpl;
      destruct (has_name NFsimViaModel names); destruct (has_name NTwoPulseFsim names); reflexivity.
Qed.

(* a gate whose specification does not look at tags is judged without them *)
Theorem other_kinds_ignore_tags names k t t' qs : k <> KZPow -> k <> KFSim ->
  gate_ok names {| o_kind := k; o_tags := t; o_qubits := qs |} = gate_ok names {| o_kind := k; o_tags := t'; o_qubits := qs |}.
Proof.
  intros HZ HF. unfold gate_ok. simpl. induction names as [|m names IH].
  - reflexivity.
  - simpl. rewrite IH. f_equal. destruct m; destruct k; try reflexivity; contradiction.
Qed.

(* with the device read from a specification: a two-qubit gate that is not measurement / wait is valid exactly when its
   variant is listed and the specification couples the pair *)
Theorem validate_operation_two_qubit s d names k t a b : from_proto s = Some d -> variadic k = false ->
  (validate_operation d names {| o_kind := k; o_tags := t; o_qubits := [a; b] |} = true
   <-> gate_ok names {| o_kind := k; o_tags := t; o_qubits := [a; b] |} = true /\ coupling s a b).
Proof.
  intros H V. unfold validate_operation. simpl o_kind. simpl o_qubits. rewrite V. rewrite andb_true_iff.
  rewrite (validate_two_qubit s d H a b). reflexivity.
Qed.

(* "an operation whose untagged form was accepted earlier in the circuit is valid" is false: the tags decide *)
Definition ex_dev : device := {| d_qubits := [(0, 0); (0, 1)]; d_pairs := [((0, 0), (0, 1))] |}.
Definition ex_tags (p v w : bool) : tags := {| physical_z := p; via_model := v; two_pulse := w |}.
Definition ex_z (p : bool) : op := {| o_kind := KZPow; o_tags := ex_tags p false false; o_qubits := [(0, 0)] |}.
Definition ex_fsim (v : bool) : op := {| o_kind := KFSim; o_tags := ex_tags false v false; o_qubits := [(0, 0); (0, 1)] |}.

Theorem untagged_cover_refuted : exists d names o o',
  untagged o = untagged o' /\ validate_operation d names o = true /\ validate_circuit d names [o; o'] = false.
Proof. exists ex_dev, [NVirtualZ], (ex_z false), (ex_z true). repeat split. Qed.

Theorem device_gates_examples :
  validate_circuit ex_dev [NVirtualZ; NFsimViaModel] [ex_z false; ex_fsim true; ex_z false] = true /\
  validate_circuit ex_dev [NVirtualZ; NFsimViaModel] [ex_fsim true; ex_fsim false] = false /\
  validate_circuit ex_dev [NPhysicalZ] [ex_z true; ex_z false] = false /\
  validate_circuit ex_dev [NPhysicalZ; NVirtualZ] [ex_z true; ex_z false] = true /\
  variadic KFSim = false /\ from_proto (to_proto ex_dev) = Some ex_dev.
Proof. repeat split. Qed.
