From Coq Require Import ZArith List Bool Lia.
From VF Require Import Codec.PackBits Codec.PackBitsProofs Codec.NdArray.
Import ListNotations.
Open Scope nat_scope.

(* ---- blocks of equal length ---- *)
Lemma flat_map_uniform_length {A B} (f : A -> list B) k l :
  (forall x, In x l -> length (f x) = k) -> length (flat_map f l) = length l * k.
Proof.
  induction l as [|x l IH]; intros H; [reflexivity|].
  cbn [flat_map length]. rewrite app_length, IH by (intros; apply H; right; assumption).
  rewrite (H x) by (left; reflexivity). lia.
Qed.

Lemma nth_flat_map_uniform {A B} (f : A -> list B) k (da : A) (d : B) l :
  (forall x, In x l -> length (f x) = k) ->
  forall i j, i < length l -> j < k -> nth (i * k + j) (flat_map f l) d = nth j (f (nth i l da)) d.
Proof.
  induction l as [|x l IH]; intros H i j Hi Hj; [simpl in Hi; lia|].
  cbn [flat_map]. assert (Hx : length (f x) = k) by (apply H; left; reflexivity).
  destruct i as [|i].
  - cbn [nth]. rewrite app_nth1 by lia. reflexivity.
  - rewrite app_nth2 by (rewrite Hx; lia). rewrite Hx.
    replace (S i * k + j - k) with (i * k + j) by lia. cbn [nth].
    apply IH; [intros; apply H; right; assumption| simpl in Hi; lia | exact Hj].
Qed.

(* ---- the C order of indices ---- *)
Lemma indices_length shape : length (indices shape) = nd_size shape.
Proof.
  induction shape as [|n s IH]; [reflexivity|].
  cbn [indices]. rewrite (flat_map_uniform_length _ (nd_size s)).
  - rewrite seq_length. reflexivity.
  - intros i _. rewrite map_length. exact IH.
Qed.

Lemma In_indices shape idx : In idx (indices shape) <-> in_bounds shape idx.
Proof.
  revert idx. induction shape as [|n s IH]; intros idx.
  - simpl. destruct idx; simpl; split; intros H; auto; try contradiction.
    destruct H as [H|[]]; discriminate.
  - cbn [indices]. rewrite in_flat_map. split.
    + intros (i & Hi & Hm). apply in_map_iff in Hm. destruct Hm as (r & <- & Hr).
      apply in_seq in Hi. simpl. split; [lia|]. apply IH. exact Hr.
    + destruct idx as [|i r]; [simpl; contradiction|]. simpl. intros [Hi Hr].
      exists i. split; [apply in_seq; lia|]. apply in_map. apply IH. exact Hr.
Qed.

Lemma ravel_lt shape idx : in_bounds shape idx -> ravel shape idx < nd_size shape.
Proof.
  revert idx. induction shape as [|n s IH]; intros idx H.
  - destruct idx; simpl in *; [lia|contradiction].
  - destruct idx as [|i r]; [contradiction|]. destruct H as [Hi Hr]. specialize (IH r Hr).
    cbn [ravel nd_size fold_right]. change (fold_right Nat.mul 1 s) with (nd_size s). nia.
Qed.

Lemma nth_indices shape idx : in_bounds shape idx -> nth (ravel shape idx) (indices shape) [] = idx.
Proof.
  revert idx. induction shape as [|n s IH]; intros idx H.
  - destruct idx; [reflexivity|contradiction].
  - destruct idx as [|i r]; [contradiction|]. destruct H as [Hi Hr].
    cbn [indices ravel].
    rewrite (nth_flat_map_uniform (fun i0 => map (cons i0) (indices s)) (nd_size s) 0).
    + rewrite seq_nth by exact Hi. cbn [Nat.add].
      rewrite (nth_indep _ [] (i :: [])) by (rewrite map_length, indices_length; apply ravel_lt; exact Hr).
      rewrite (map_nth (cons i)). rewrite IH by exact Hr. reflexivity.
    + intros x _. rewrite map_length. apply indices_length.
    + rewrite seq_length. exact Hi.
    + apply ravel_lt. exact Hr.
Qed.

(* np.reshape(flat, shape)[idx] of the C-order enumeration of f is f idx *)
Lemma from_flat_map {A} (d : A) (f : list nat -> A) shape idx : in_bounds shape idx ->
  from_flat d shape (map f (indices shape)) idx = f idx.
Proof.
  intros H. unfold from_flat.
  rewrite (nth_indep _ d (f [])) by (rewrite map_length, indices_length; apply ravel_lt; exact H).
  rewrite map_nth. rewrite nth_indices by exact H. reflexivity.
Qed.

(* ---- the helpers ---- *)
Theorem to_flat_length {A} (d : A) buf v : length (to_flat d buf v) = nd_size (v_shape v).
Proof. unfold to_flat. rewrite map_length. apply indices_length. Qed.

(* whatever the strides and the offset of the array handed in: the array read back has the same shape and, at every
   index, the element the array handed in has at that index *)
Theorem nd_roundtrip {A} (d : A) buf v : v_shape v <> [] ->
  exists flat, from_msg (to_msg d buf v) = Some (v_shape v, flat) /\
               forall idx, in_bounds (v_shape v) idx -> from_flat d (v_shape v) flat idx = get d buf v idx.
Proof.
  intros Hs. exists (to_flat d buf v). split.
  - unfold from_msg, to_msg. cbn [fst snd]. destruct (v_shape v) eqn:E; [contradiction|].
    rewrite <- E. rewrite to_flat_length, Nat.eqb_refl. reflexivity.
  - intros idx H. unfold to_flat. apply from_flat_map. exact H.
Qed.

(* the message is a function of the shape and of the elements at the indices: two arrays that agree there are written
   alike, however differently they are laid out in memory *)
Theorem nd_layout_independent {A} (d : A) buf1 v1 buf2 v2 : v_shape v1 = v_shape v2 ->
  (forall idx, in_bounds (v_shape v1) idx -> get d buf1 v1 idx = get d buf2 v2 idx) ->
  to_msg d buf1 v1 = to_msg d buf2 v2.
Proof.
  intros Hs H. unfold to_msg, to_flat. rewrite <- Hs. f_equal. apply map_ext_in.
  intros idx Hin. apply H. apply In_indices. exact Hin.
Qed.

(* a zero-dimensional array is written with an empty shape field, which the reader takes for an unset message *)
Theorem nd_roundtrip_zero_dim_refuted :
  exists (buf : list Z) v, from_msg (to_msg 0%Z buf v) = None.
Proof. exists [7%Z], (mkV [] [] 0). reflexivity. Qed.

(* reading needs exactly nd_size(shape) elements *)
Theorem from_msg_defined {A} (m : list nat * list A) r : from_msg m = Some r ->
  r = m /\ fst m <> [] /\ length (snd m) = nd_size (fst m).
Proof.
  unfold from_msg. destruct (fst m) as [|n s] eqn:E; [discriminate|].
  destruct (Nat.eqb (length (snd m)) (nd_size (n :: s))) eqn:El; [|discriminate].
  intros H. injection H as <-. apply Nat.eqb_eq in El. split; [reflexivity|]. split; [discriminate|exact El].
Qed.

(* ---- bit arrays ---- *)
Lemma byte_roundtrip_msb row : length row = 8 -> unpackbits_byte (packbits_row row) = row.
Proof.
  intros H. pose proof (byte_roundtrip (rev row)) as B. rewrite rev_length, rev_involutive in B.
  specialize (B H). apply (f_equal (@rev bool)) in B. rewrite !rev_involutive in B. exact B.
Qed.

Lemma unpack_rows_msb rows : Forall (fun r => length r = 8) rows ->
  flat_map unpackbits_byte (map packbits_row rows) = concat rows.
Proof.
  induction 1 as [|r rows Hr _ IH]; [reflexivity|].
  cbn [map flat_map concat]. rewrite IH, byte_roundtrip_msb by exact Hr. reflexivity.
Qed.

Theorem packbits_msb_roundtrip bits : unpackbits_msb (packbits_msb bits) (length bits) = bits.
Proof.
  unfold unpackbits_msb, packbits_msb. destruct (padded_length bits) as (k & Hk & Hle).
  destruct (rows8_spec k (length bits) (padded bits) Hk Hle) as (Hc & Ha & _).
  rewrite unpack_rows_msb by exact Ha. rewrite Hc. unfold padded.
  rewrite firstn_app, Nat.sub_diag, firstn_all. simpl. apply app_nil_r.
Qed.

Theorem bitarray_roundtrip (d : bool) buf v : v_shape v <> [] ->
  from_bitmsg (to_bitmsg d buf v) = Some (v_shape v, to_flat d buf v).
Proof.
  intros Hs. unfold from_bitmsg, to_bitmsg. cbn [fst snd]. destruct (v_shape v) eqn:E; [contradiction|].
  rewrite <- E. rewrite <- (to_flat_length d buf v), packbits_msb_roundtrip, Nat.eqb_refl. reflexivity.
Qed.

(* hypotheses are satisfiable; a transposed 2 x 3 array *)
Example nd_example :
  let buf := [10; 11; 12; 13; 14; 15]%Z in
  let c := mkV [2; 3] [3; 1]%Z 0 in            (* [[10,11,12],[13,14,15]], C-contiguous *)
  let t := mkV [3; 2] [1; 3]%Z 0 in            (* its transpose: a Fortran-contiguous view of the same buffer *)
  let r := mkV [2; 3] [-3; -1]%Z 5 in          (* both axes reversed *)
  to_msg 0%Z buf c = ([2; 3], [10; 11; 12; 13; 14; 15]%Z) /\
  to_msg 0%Z buf t = ([3; 2], [10; 13; 11; 14; 12; 15]%Z) /\
  to_msg 0%Z buf r = ([2; 3], [15; 14; 13; 12; 11; 10]%Z) /\
  from_flat 0%Z [3; 2] (snd (to_msg 0%Z buf t)) [1; 1] = 14%Z /\
  v_shape t <> [] /\ in_bounds (v_shape t) [1; 1].
Proof. cbv. repeat split; try discriminate; lia. Qed.
