(* C17.D2 / D3: the IonQ measurement-metadata codec round-trips for every list of records whose keys contain no
   separator (the precondition the serializer validates) and every chunk size >= 1; bit reversal within n bits is an
   involution; the QPU / simulator result paths give qubit targets[i] the bit number targets[i] of the
   little-endian outcome integer, in measurement order. *)
From Coq Require Import List ZArith NArith Arith Bool Lia Decimal DecimalN DecimalPos.
From VF Require Import Base.Digits Base.DigitsProofs Codec.MetaChunks.
Import ListNotations.
Open Scope Z_scope.

(* ---------------- decimal target indices ---------------- *)
Lemma chars_uint_chars u : chars_uint (uint_chars u) = Some u.
Proof. induction u; simpl; try rewrite IHu; reflexivity. Qed.

Lemma uint_chars_digit u c : In c (uint_chars u) -> 48 <= c <= 57.
Proof. induction u; simpl; intros H; try contradiction; destruct H as [H|H]; try (apply IHu; exact H); lia. Qed.

Lemma to_uint_nonnil n : N.to_uint n <> Nil.
Proof. destruct n; simpl; [discriminate | apply DecimalPos.Unsigned.to_uint_nonnil]. Qed.

Lemma dec_nonempty n : dec n <> [].
Proof.
  unfold dec. pose proof (to_uint_nonnil n) as H. destruct (N.to_uint n); simpl; try discriminate. congruence.
Qed.

Theorem undec_dec n : undec (dec n) = Some n.
Proof.
  unfold undec. pose proof (dec_nonempty n) as H. destruct (dec n) eqn:E; [congruence|].
  rewrite <- E. unfold dec. rewrite chars_uint_chars. f_equal. apply DecimalN.Unsigned.of_to.
Qed.

Lemma dec_digit n c : In c (dec n) -> 48 <= c <= 57.
Proof. apply uint_chars_digit. Qed.

(* ---------------- split / join ---------------- *)
Lemma split_on_nosep sep p : ~ In sep p -> split_on sep p = [p].
Proof.
  induction p as [|c p IH]; simpl; intros H; [reflexivity|].
  destruct (Z.eqb_spec c sep) as [->|N]; [exfalso; apply H; left; reflexivity|].
  rewrite IH; [reflexivity | intro; apply H; right; assumption].
Qed.

Lemma split_on_app sep p rest : ~ In sep p -> split_on sep (p ++ sep :: rest) = p :: split_on sep rest.
Proof.
  induction p as [|c p IH]; simpl; intros H.
  - rewrite Z.eqb_refl. reflexivity.
  - destruct (Z.eqb_spec c sep) as [->|N]; [exfalso; apply H; left; reflexivity|].
    rewrite IH; [reflexivity | intro; apply H; right; assumption].
Qed.

Theorem split_join sep ls : ls <> [] -> Forall (fun p => ~ In sep p) ls -> split_on sep (join_with sep ls) = ls.
Proof.
  induction ls as [|x r IH]; intros NE F; [congruence|].
  inversion F as [|? ? Hx Hr]; subst. destruct r as [|y r'].
  - simpl. apply split_on_nosep; assumption.
  - change (join_with sep (x :: y :: r')) with (x ++ sep :: join_with sep (y :: r')).
    rewrite split_on_app by assumption. rewrite IH; [reflexivity | discriminate | assumption].
Qed.

Lemma in_join sep ls c : In c (join_with sep ls) -> c = sep \/ exists p, In p ls /\ In c p.
Proof.
  induction ls as [|x r IH]; simpl; intros H; [contradiction|].
  destruct r as [|y r'].
  - right. exists x. split; [left; reflexivity | assumption].
  - apply in_app_or in H. destruct H as [H|[H|H]].
    + right. exists x. split; [left; reflexivity | assumption].
    + left. symmetry. exact H.
    + destruct (IH H) as [E|[p [Hp Hc]]]; [left; exact E | right; exists p; split; [right; exact Hp | exact Hc]].
Qed.

(* ---------------- chunks ---------------- *)
Lemma chunks_aux_concat n : (1 <= n)%nat -> forall fuel l, (length l <= fuel)%nat -> concat (chunks_aux fuel n l) = l.
Proof.
  intros Hn. induction fuel as [|f IH]; intros l Hl; simpl.
  - destruct l; [reflexivity | simpl in Hl; lia].
  - destruct l as [|c l']; [reflexivity|].
    cbn [concat]. rewrite IH.
    + apply firstn_skipn.
    + rewrite skipn_length. simpl length in *. lia.
Qed.

Theorem chunks_concat n l : (1 <= n)%nat -> concat (chunks n l) = l.
Proof. intros Hn. apply chunks_aux_concat; [assumption | apply Nat.le_refl]. Qed.

Lemma chunks_aux_size n fuel : forall l c, In c (chunks_aux fuel n l) -> (length c <= n)%nat.
Proof.
  induction fuel as [|f IH]; intros l c H; simpl in H; [contradiction|].
  destruct l as [|x l']; [contradiction|]. destruct H as [<-|H].
  - apply firstn_le_length.
  - eapply IH; exact H.
Qed.
Theorem chunks_size n l c : In c (chunks n l) -> (length c <= n)%nat.
Proof. apply chunks_aux_size. Qed.

(* ---------------- the codec ---------------- *)
Lemma key_ok_spec k : key_ok k = true -> ~ In US k /\ ~ In RS k.
Proof.
  unfold key_ok. rewrite forallb_forall. intros H. split; intros I; specialize (H _ I);
    apply andb_true_iff in H; destruct H as [H1 H2]; [rewrite Z.eqb_refl in H1 | rewrite Z.eqb_refl in H2]; discriminate.
Qed.

Lemma targets_str_chars ts c : In c (targets_str ts) -> c = COMMA \/ 48 <= c <= 57.
Proof.
  unfold targets_str. intros H. apply in_join in H. destruct H as [H|[p [Hp Hc]]]; [left; exact H|].
  apply in_map_iff in Hp. destruct Hp as [t [<- _]]. right. eapply dec_digit; exact Hc.
Qed.

Theorem parse_targets_str ts : ts <> [] -> parse_targets (targets_str ts) = Some ts.
Proof.
  intros NE. unfold parse_targets, targets_str. rewrite split_join.
  - induction ts as [|t r IH]; [congruence|]. simpl. rewrite undec_dec.
    destruct r as [|t' r']; [reflexivity|]. rewrite IH by discriminate. reflexivity.
  - destruct ts; [congruence | discriminate].
  - apply Forall_forall. intros p Hp I. apply in_map_iff in Hp. destruct Hp as [t [<- _]].
    apply dec_digit in I. unfold COMMA in I. lia.
Qed.

Theorem parse_record_str r : key_ok (fst r) = true -> snd r <> [] -> parse_record (record_str r) = Some r.
Proof.
  destruct r as [k ts]; simpl. intros K NE. destruct (key_ok_spec _ K) as [KU _].
  unfold parse_record, record_str; simpl. rewrite split_on_app by assumption.
  rewrite split_on_nosep.
  - rewrite parse_targets_str by assumption. reflexivity.
  - intros I. apply targets_str_chars in I. unfold US, COMMA in I. lia.
Qed.

Lemma record_str_no_rs r : key_ok (fst r) = true -> ~ In RS (record_str r).
Proof.
  destruct r as [k ts]; simpl. intros K I. destruct (key_ok_spec _ K) as [_ KR].
  unfold record_str in I; simpl in I. apply in_app_or in I. destruct I as [I|[I|I]].
  - exact (KR I).
  - unfold US, RS in I. discriminate.
  - apply targets_str_chars in I. unfold RS, COMMA in I. lia.
Qed.

Definition record_wf (r : record) : Prop := key_ok (fst r) = true /\ snd r <> [].

Theorem parse_full_str rs : Forall record_wf rs -> parse_full (full_str rs) = Some rs.
Proof.
  intros F. unfold parse_full. destruct rs as [|r0 rs0]; [reflexivity|].
  assert (NE : full_str (r0 :: rs0) <> []).
  { unfold full_str. simpl map. cbn [join_with]. destruct (map record_str rs0); unfold record_str;
      destruct (fst r0); discriminate. }
  destruct (full_str (r0 :: rs0)) eqn:E; [congruence|]. rewrite <- E. clear E NE.
  unfold full_str. rewrite split_join.
  - induction F as [|r rs [K N] _ IH]; [reflexivity|]. simpl. rewrite parse_record_str by assumption.
    rewrite IH. reflexivity.
  - discriminate.
  - apply Forall_forall. intros p Hp. apply in_map_iff in Hp. destruct Hp as [r [<- Hr]].
    rewrite Forall_forall in F. apply record_str_no_rs. apply F. exact Hr.
Qed.

(* D2: for every chunk size >= 1 (the serializer uses 40) and every well-formed record list *)
Theorem metadata_chunks_roundtrip size rs : (1 <= size)%nat -> Forall record_wf rs ->
  parse_chunks (chunks size (full_str rs)) = Some rs.
Proof. intros S F. unfold parse_chunks. rewrite chunks_concat by assumption. apply parse_full_str; assumption. Qed.

(* ... and whenever the serializer accepts (no bad key, at most 9 chunks) its output parses back to the input *)
Corollary serialize_parse size rs cs : (1 <= size)%nat -> Forall (fun r => snd r <> []) rs ->
  serialize_measurements size rs = SerOk cs -> parse_chunks cs = Some rs /\ (length cs <= 9)%nat
  /\ forall c, In c cs -> (length c <= size)%nat.
Proof.
  intros S T. unfold serialize_measurements. destruct (forallb _ rs) eqn:K; [|discriminate].
  destruct (Nat.ltb_spec 9 (length (chunks size (full_str rs)))) as [G|G]; [discriminate|].
  intros E. inversion E; subst cs. split; [|split; [exact G | intros c; apply chunks_size]].
  apply metadata_chunks_roundtrip; [assumption|]. rewrite forallb_forall in K. rewrite Forall_forall in *.
  intros r Hr. split; [apply K; exact Hr | apply T; exact Hr].
Qed.

(* distinct keys: the dict built from the parsed records is the record list itself *)
Lemma zl_eqb_spec a : forall b, zl_eqb a b = true <-> a = b.
Proof.
  induction a as [|x a IH]; destruct b as [|y b]; simpl; try (split; [discriminate | discriminate || congruence]); [tauto|].
  rewrite andb_true_iff, Z.eqb_eq. unfold zl_eqb in IH. rewrite IH. split; [intros [-> ->]; reflexivity | intros H; inversion H; auto].
Qed.

Lemma dict_set_fresh d k v : ~ In k (map fst d) -> dict_set d k v = d ++ [(k, v)].
Proof.
  induction d as [|[k' v'] d IH]; simpl; intros H; [reflexivity|].
  destruct (zl_eqb k k') eqn:E; [apply zl_eqb_spec in E; subst; exfalso; apply H; left; reflexivity|].
  rewrite IH; [reflexivity | intro; apply H; right; assumption].
Qed.

Theorem dict_of_nodup rs : NoDup (map fst rs) -> dict_of rs = rs.
Proof.
  unfold dict_of. assert (G : forall d, NoDup (map fst (d ++ rs)) ->
                                         fold_left (fun d r => dict_set d (fst r) (snd r)) rs d = d ++ rs).
  { induction rs as [|[k v] rs IH]; intros d H; simpl; [rewrite app_nil_r; reflexivity|].
    rewrite dict_set_fresh.
    - rewrite IH; rewrite <- app_assoc; [reflexivity | exact H].
    - rewrite map_app in H. simpl in H. apply NoDup_remove_2 in H. intro I. apply H. apply in_or_app. left. exact I. }
  intros H. apply (G []). exact H.
Qed.

(* ---------------- bit order ---------------- *)
Lemma int_to_bits_01 v n x : In x (int_to_bits v n) -> x = 0 \/ x = 1.
Proof.
  unfold int_to_bits. intros H. apply in_map_iff in H. destruct H as [i [<- _]].
  rewrite land1_shiftr by lia. destruct (Z.testbit v (Z.of_nat i)); [right | left]; reflexivity.
Qed.

Lemma map_b2z_eqb1 l : (forall x, In x l -> x = 0 \/ x = 1) -> map Z.b2z (map (Z.eqb 1) l) = l.
Proof.
  induction l as [|x l IH]; intros H; [reflexivity|]. simpl. rewrite IH by (intros y Hy; apply H; right; exact Hy).
  destruct (H x (or_introl eq_refl)) as [-> | ->]; reflexivity.
Qed.

Lemma int_to_bits_le_to_big v n : int_to_bits (le_to_big v n) n = List.rev (int_to_bits v n).
Proof.
  unfold le_to_big.
  assert (L : length (map (Z.eqb 1) (List.rev (int_to_bits v n))) = n)
    by (rewrite map_length, rev_length; apply int_to_bits_length).
  rewrite <- L at 2. rewrite bits_int_roundtrip. apply map_b2z_eqb1.
  intros x Hx. apply in_rev in Hx. eapply int_to_bits_01; exact Hx.
Qed.

(* D3a: _little_endian_to_big is bit reversal within n bits: applying it twice gives the value back (mod 2^n) *)
Theorem endian_reverse_mod v n : le_to_big (le_to_big v n) n = v mod 2 ^ Z.of_nat n.
Proof.
  unfold le_to_big at 1. rewrite int_to_bits_le_to_big, rev_involutive. apply int_bits_roundtrip.
Qed.
Theorem endian_reverse_invol v n : 0 <= v < 2 ^ Z.of_nat n -> le_to_big (le_to_big v n) n = v.
Proof. intros H. rewrite endian_reverse_mod. apply Z.mod_small. exact H. Qed.

Lemma nth_int_to_bits v n t : (t < n)%nat ->
  nth t (int_to_bits v n) 0 = Z.b2z (Z.testbit v (Z.of_nat (n - 1 - t))).
Proof.
  intros H. unfold int_to_bits. set (f := fun i : nat => Z.land (Z.shiftr v (Z.of_nat i)) 1).
  rewrite (nth_indep _ 0 (f 0%nat)) by (rewrite map_length, rev_length, seq_length; exact H).
  rewrite (map_nth f). rewrite rev_nth by (rewrite seq_length; exact H).
  rewrite seq_length, seq_nth by lia. unfold f. rewrite land1_shiftr by lia. do 3 f_equal. lia.
Qed.

(* the big-endian value Job.results hands to QPUResult has, at position n-1-t, bit t of the little-endian outcome *)
Lemma le_to_big_bit b n t : (t < n)%nat ->
  Z.land (Z.shiftr (le_to_big b n) (Z.of_nat n - Z.of_nat t - 1)) 1 = Z.b2z (Z.testbit b (Z.of_nat t)).
Proof.
  intros H. replace (Z.of_nat n - Z.of_nat t - 1) with (Z.of_nat (n - 1 - t)) by lia.
  rewrite land1_shiftr by lia. rewrite <- (nth_int_to_bits (le_to_big b n) n t) by exact H.
  rewrite int_to_bits_le_to_big. rewrite rev_nth by (rewrite int_to_bits_length; exact H).
  rewrite int_to_bits_length. rewrite nth_int_to_bits by lia. do 3 f_equal. lia.
Qed.

Lemma le_to_big_bitN b n t : (N.to_nat t < n)%nat ->
  Z.land (Z.shiftr (le_to_big b n) (Z.of_nat n - Z.of_N t - 1)) 1 = Z.b2z (Z.testbit b (Z.of_N t)).
Proof. intros H. pose proof (le_to_big_bit b n (N.to_nat t) H) as E. rewrite N_nat_Z in E. exact E. Qed.

Lemma key_bits_le_to_big n ts b : Forall (fun t => (N.to_nat t < n)%nat) ts ->
  key_bits n ts (le_to_big b n) = Some (map (fun t => Z.b2z (Z.testbit b (Z.of_N t))) ts).
Proof.
  unfold key_bits. induction 1 as [|t ts Ht _ IH]; [reflexivity|]. cbn [map_opt map].
  destruct (Z.ltb_spec (Z.of_nat n - Z.of_N t - 1) 0) as [G|G]; [lia|].
  rewrite IH. rewrite le_to_big_bitN by exact Ht. reflexivity.
Qed.

(* bit_value is the big-endian integer of the bits *)
Lemma weighted_shift l : forall i, 0 <= i -> weighted l i = 2 ^ i * weighted l 0.
Proof.
  induction l as [|x l IH]; intros i Hi; cbn [weighted]; [ring|].
  rewrite (IH (i + 1)) by lia. rewrite (IH (0 + 1)) by lia. rewrite !Z.shiftl_1_l.
  rewrite Z.pow_add_r by lia. change (2 ^ (0 + 1)) with 2. change (2 ^ 0) with 1. change (2 ^ 1) with 2. ring.
Qed.

Lemma bits_to_int_snoc bs e : bits_to_int (bs ++ [e]) = 2 * bits_to_int bs + Z.b2z e.
Proof.
  rewrite !bits_to_int_fold, fold_left_app. simpl. apply bstep_arith.
  rewrite <- bits_to_int_fold. apply bits_to_int_range.
Qed.

Lemma weighted_rev l : (forall x, In x l -> x = 0 \/ x = 1) ->
  weighted l 0 = bits_to_int (map (Z.eqb 1) (List.rev l)).
Proof.
  induction l as [|x l IH]; intros H; [reflexivity|].
  cbn [weighted]. rewrite (weighted_shift l (0 + 1)) by lia. simpl List.rev. rewrite map_app. simpl map.
  rewrite bits_to_int_snoc. rewrite <- IH by (intros y Hy; apply H; right; exact Hy).
  rewrite Z.shiftl_1_l. change (2 ^ 0) with 1. change (2 ^ (0 + 1)) with 2.
  destruct (H x (or_introl eq_refl)) as [-> | ->]; cbv [Z.b2z Z.eqb Pos.eqb]; ring.
Qed.

Lemma bit_value_spec bits : (forall x, In x bits -> x = 0 \/ x = 1) ->
  bit_value bits = bits_to_int (map (Z.eqb 1) bits).
Proof.
  intros H. unfold bit_value. rewrite weighted_rev by (intros x Hx; apply H; apply in_rev; exact Hx).
  rewrite rev_involutive. reflexivity.
Qed.

(* D3b: on both result paths the Cirq record row of a key lists, in measurement order, for qubit targets[i] the bit
   number targets[i] of the vendor's little-endian outcome integer b *)
Theorem result_bits_ok n ts b : Forall (fun t => (N.to_nat t < n)%nat) ts ->
  qpu_row n ts (le_to_big b n) = Some (map (fun t => Z.b2z (Z.testbit b (Z.of_N t))) ts)
  /\ sim_row n ts (le_to_big b n) = Some (map (fun t => Z.b2z (Z.testbit b (Z.of_N t))) ts).
Proof.
  intros F. unfold qpu_row, sim_row. rewrite key_bits_le_to_big by exact F. split; [|reflexivity].
  f_equal. set (bits := map (fun t => Z.b2z (Z.testbit b (Z.of_N t))) ts).
  assert (B : forall x, In x bits -> x = 0 \/ x = 1).
  { intros x Hx. apply in_map_iff in Hx. destruct Hx as [t [<- _]]. destruct (Z.testbit b (Z.of_N t)); [right | left]; reflexivity. }
  rewrite bit_value_spec by exact B.
  replace (length ts) with (length (map (Z.eqb 1) bits)) by (unfold bits; rewrite !map_length; reflexivity).
  rewrite bits_int_roundtrip. apply map_b2z_eqb1. exact B.
Qed.
