(* C11 — a document field that the writer may leave out and the reader then fills in from the other fields.

   Many `_json_dict_` methods write a field only under a condition (`if any(d != 2 for d in qid_shape): d['qid_shape'] = ...`,
   `if self._name is not None`, ...), and the matching `_from_json_dict_` / constructor supplies a value when the field is
   absent: a constant default, or a value inferred from companion fields (a qid shape from a count of qubits or from the
   width of a matrix).  Whether the pair round-trips depends only on the two rules together:

       the value comes back for every input   <->   whenever the writer omits, the reader's fill-in IS the value.

   Part 1 states that for any context type C (the companion fields) and field type A.  Part 2 instantiates it with
   the inference MatrixGate's constructor performs (cirq/ops/matrix_gates.py: width 2^n -> n qubits, any other
   width -> ValueError) and three writer rules: never omit (the code), omit when the shape equals the inferred one
   (a correct economy), omit whenever a shape can be inferred (refuted: a qudit shape whose product is a power of two
   comes back as qubits).  Definitions only; proofs in OptFieldProofs.v. *)
From Coq Require Import List Bool NArith.
Import ListNotations.
Local Open Scope N_scope.

(* ---------- part 1: any optional field ---------- *)
(* omit c a: the writer leaves the field out; infer c: what the reader supplies then (None: it raises) *)
Definition write_field {C A : Type} (omit : C -> A -> bool) (c : C) (a : A) : option A :=
  if omit c a then None else Some a.
Definition read_field {C A : Type} (infer : C -> option A) (c : C) (o : option A) : option A :=
  match o with Some a => Some a | None => infer c end.
Definition field_roundtrip {C A : Type} (infer : C -> option A) (omit : C -> A -> bool) (c : C) (a : A) : option A :=
  read_field infer c (write_field omit c a).

(* ---------- part 2: a qid shape next to a square matrix ---------- *)
Definition shape := list N.
Definition shape_prod (s : shape) : N := fold_right N.mul 1 s.
Fixpoint shape_eqb (a b : shape) : bool :=
  match a, b with
  | [], [] => true
  | x :: a', y :: b' => (x =? y) && shape_eqb a' b'
  | _, _ => false
  end.
Definition all_qubits (s : shape) : bool := forallb (fun d => d =? 2) s.

(* the constructor without a shape: n = round(log2(width or 1)); 2^n <> width -> ValueError; else (2,)*n *)
Definition infer_shape (w : N) : option shape :=
  if (0 <? w) && (2 ^ N.log2 w =? w) then Some (repeat 2 (N.to_nat (N.log2 w))) else None.

(* a gate: the width of its matrix and its shape; it is a value of the class when the product of the shape is the width *)
Definition gate_ok (w : N) (s : shape) : bool := shape_prod s =? w.

Definition omit_never (w : N) (s : shape) : bool := false.
Definition omit_if_equal (w : N) (s : shape) : bool :=
  match infer_shape w with Some s' => shape_eqb s s' | None => false end.
Definition omit_if_inferable (w : N) (s : shape) : bool :=
  match infer_shape w with Some _ => true | None => false end.

Definition shape_roundtrip (omit : N -> shape -> bool) (w : N) (s : shape) : option shape :=
  field_roundtrip infer_shape omit w s.

(* what the reader yields for the field as found in a document (None: absent) *)
Definition shape_read (w : N) (o : option shape) : option shape := read_field infer_shape w o.

(* ---------- part 3: a qid shape next to a count of qubits (IdentityGate, MeasurementGate, WaitGate) ---------- *)
(* the document holds num_qubits; qid_shape is written only `if any(d != 2 for d in qid_shape)`; the reader without a
   shape takes (2,) * num_qubits *)
Definition infer_count (c : N) : option shape := Some (repeat 2 (N.to_nat c)).
Definition omit_if_qubits (c : N) (s : shape) : bool := all_qubits s.
Definition count_ok (c : N) (s : shape) : bool := N.of_nat (length s) =? c.
Definition count_roundtrip (c : N) (s : shape) : option shape := field_roundtrip infer_count omit_if_qubits c s.
Definition count_read (c : N) (o : option shape) : option shape := read_field infer_count c o.
