(* C10 — comparison functions used by vf/checks/c10.py on the resolver model (no proofs; nothing proved
   depends on this file).  The implementation's answer is shown to Coq as an expression tree (a number is
   [Num]); because sympy re-canonicalises sums and products, residual expressions are compared by value
   under a few assignments of the remaining symbols (exact rationals, relative tolerance), and the free
   symbols of the implementation's answer must be among those of the model's. *)
From Coq Require Import String ZArith QArith Qabs List Bool Ascii.
From VF Require Import Base.Harness Codec.Resolver.
Import ListNotations.
Local Open Scope nat_scope.

Definition env_of (l : list (string * Q)) : string -> Q :=
  fun s => match find (fun p => String.eqb (fst p) s) l with Some (_, v) => v | None => 1%Q end.

Definition q_rel_close (tol a b : Q) : bool :=
  Qle_bool (Qabs (a - b)) (tol * (1 + Qabs a))%Q.

Definition same_value (tol : Q) (envs : list (list (string * Q))) (a b : expr) : bool :=
  forallb (fun l => q_rel_close tol (eval QI (env_of l) a) (eval QI (env_of l) b)) envs.
Definition subset (a b : list string) : bool := forallb (fun s => mem s b) a.

(* what the implementation did: a value, RecursionError, or something else (never produced by the model) *)
Inductive impl_result := IVal (e : expr) | IRecursion | IOther.

Definition fuel0 : nat := 400.

(* 0 agree; 1 model Ok / impl error; 2 model loop / impl value; 3 values differ; 4 free symbols; 5 out of fuel vs value *)
Definition compare_outcome (tol : Q) (envs : list (list (string * Q))) (o : outcome expr) (got : impl_result) : nat :=
  match o, got with
  | Ok m, IVal v => if negb (same_value tol envs m v) then 3 else if negb (subset (free_syms v) (free_syms m)) then 4 else 0
  | Ok _, _ => 1
  | Loop, IRecursion => 0
  | OutOfFuel, IRecursion => 0
  | Loop, _ => 2
  | OutOfFuel, _ => 5
  end.
Definition check_value_of (tol : Q) (envs : list (list (string * Q))) (r : resolver) (e : expr) (got : impl_result) : nat :=
  compare_outcome tol envs (value_of fuel0 r [] e) got.

Definition check_once (tol : Q) (envs : list (list (string * Q))) (r : resolver) (e : expr) (got : impl_result) : nat :=
  match got with
  | IVal v => if negb (same_value tol envs (value_of_once r e) v) then 3
              else if negb (subset (free_syms v) (free_syms (value_of_once r e))) then 4 else 0
  | _ => 1
  end.

(* parameter_names / is_parameterized of the expression itself *)
Fixpoint dedup (l : list string) : list string :=
  match l with [] => [] | x :: r => if mem x r then dedup r else x :: dedup r end.
Definition same_set (a b : list string) : bool := subset a b && subset b a.
Definition check_names (e : expr) (names : list string) (isp : bool) : bool :=
  same_set (free_syms e) names && Bool.eqb (is_parameterized e) isp.

Record rcase := mkR {
  rc_tol : Q; rc_envs : list (list (string * Q)); rc_res : resolver;
  rc_queries : list (expr * impl_result * impl_result * list string * bool) }.  (* expr, recursive, once, names, is_param *)

Fixpoint first_bad (i : nat) (c : rcase) (qs : list (expr * impl_result * impl_result * list string * bool)) : option (nat * nat) :=
  match qs with
  | [] => None
  | (e, g, g1, names, isp) :: rest =>
      match check_value_of (rc_tol c) (rc_envs c) (rc_res c) e g with
      | S k => Some (i, S k)
      | O => match check_once (rc_tol c) (rc_envs c) (rc_res c) e g1 with
             | S k => Some (i, 10 + S k)
             | O => if check_names e names isp then first_bad (S i) c rest else Some (i, 20)
             end
      end
  end.

(* the model with the memo table, threaded through the queries as the resolver object does (codes 30+) *)
Fixpoint first_bad_seq (i : nat) (c : rcase) (os : list (outcome expr)) (qs : list (expr * impl_result * impl_result * list string * bool))
  : option (nat * nat) :=
  match os, qs with
  | o :: os', (e, g, g1, names, isp) :: rest =>
      match compare_outcome (rc_tol c) (rc_envs c) o g with
      | S k => Some (i, 30 + S k)
      | O => first_bad_seq (S i) c os' rest
      end
  | _, _ => None
  end.

Definition case_bad (c : rcase) : option (nat * nat) :=
  match first_bad 0 c (rc_queries c) with
  | Some x => Some x
  | None => first_bad_seq 0 c (value_of_seq fuel0 (rc_res c) [] (map (fun q => fst (fst (fst (fst q)))) (rc_queries c))) (rc_queries c)
  end.

Fixpoint rfail_from (n : nat) (l : list rcase) : list (nat * nat * nat) :=
  match l with
  | [] => []
  | c :: r => match case_bad c with
              | None => rfail_from (S n) r
              | Some (i, k) => (n, i, k) :: rfail_from (S n) r
              end
  end.
Definition resolver_failures (l : list rcase) : list (nat * nat * nat) := rfail_from 0 l.

(* ---- composition: the composed dictionary, entry by entry ---------------------------------------------- *)
Definition check_compose (tol : Q) (envs : list (list (string * Q))) (r1 r2 : resolver) (got : option (list (string * expr))) : nat :=
  match compose fuel0 r1 r2, got with
  | Ok m, Some g =>
      if negb (list_eqb String.eqb (dom m) (dom g)) then 6
      else if forallb (fun p => match lookup g (fst p) with Some v => same_value tol envs (snd p) v | None => false end) m then 0 else 3
  | Ok _, None => 1
  | _, None => 0
  | _, Some _ => 2
  end.

(* ---- flatten: names and the flattened parameters, exactly ----------------------------------------------- *)
Definition digit (n : nat) : string := String (ascii_of_nat (48 + n)) EmptyString.
Fixpoint decimal_aux (fuel n : nat) (acc : string) : string :=
  match fuel with
  | O => acc
  | S f => let acc' := (digit (Nat.modulo n 10) ++ acc)%string in
           if Nat.ltb n 10 then acc' else decimal_aux f (Nat.div n 10) acc'
  end.
Definition decimal (n : nat) : string := decimal_aux (S n) n EmptyString.
Definition py_suffix (base : string) (k : nat) : string := (base ++ "_" ++ decimal k)%string.
Definition name_of (tbl : list (expr * string)) (e : expr) : string :=
  match flookup tbl e with Some s => s | None => "?"%string end.

Definition fmap_eqb (a b : fmap) : bool :=
  list_eqb (fun p q => expr_eqb (fst p) (fst q) && String.eqb (snd p) (snd q)) a b.
Definition check_flatten (tbl : list (expr * string)) (es : list expr) (got : list expr * fmap) : bool :=
  match flatten_all (name_of tbl) py_suffix 1000 [] es with
  | Some (es', m) => list_eqb expr_eqb es' (fst got) && fmap_eqb m (snd got)
  | None => false
  end.
