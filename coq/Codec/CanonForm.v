(* C11 — a class whose `==` is coarser than its behaviour, and a writer that puts a representative of the ==-class into
   the document instead of the value itself.

   Many Cirq classes compare through a canonical form (`_value_equality_values_` returning `self._canonical()`, an
   exponent reduced modulo its period, ...), so that several spellings of the constructor arguments are one value for
   `==` and `hash`.  The spellings may still behave differently (their matrices differ by a phase, which is a
   relative phase as soon as the gate is controlled).  What the document must hold is therefore decided by
   behaviour, not by `==`:

       reading back what a writer `rep` wrote preserves an observation `obs` for every value
            <->   obs (rep v) = obs v for every v.

   Part 1 states that for any value type.  Part 2 is cirq.PhasedXZGate (cirq/ops/phased_x_z_gate.py): the three
   exponents (x, z, a) as dyadic numbers with a common denominator D (x and z in units of 1/D, the axis phase a in
   units of 1/(2D), so that `a += z / 2` stays integral), `_canonical` transcribed statement by statement, `==` as
   equality of canonical forms, and one observation of the matrix Z^z Z^a X^x Z^-a: the phase of its determinant,
   e^{i pi (x + z)}, i.e. (x + z) mod 2.  Writing the stored exponents round-trips everything; writing the canonical
   exponents keeps `==` (the canonical form is idempotent) and is refuted for behaviour by x = -1/2.
   Definitions only; proofs in CanonFormProofs.v. *)
From Coq Require Import ZArith Bool.
Local Open Scope Z_scope.

(* ---------- part 1: any class ---------- *)
(* the reader builds the value from the fields as found; a writer is the choice of what fields to put down *)
Definition doc_roundtrip {V : Type} (rep : V -> V) (v : V) : V := rep v.
Definition write_stored {V : Type} (v : V) : V := v.

(* ---------- part 2: PhasedXZGate ---------- *)
(* (x, z, a): x_exponent = x/D, z_exponent = z/D, axis_phase_exponent = a/(2D) *)
Definition pxz := (Z * Z * Z)%type.

(* `v %= 2; if v > 1: v -= 2` for a quantity whose unit makes 1.0 equal to H *)
Definition wrap (H v : Z) : Z := let r := v mod (2 * H) in if H <? r then r - 2 * H else r.

Definition pxz_canon (D : Z) (g : pxz) : pxz :=
  match g with
  | (x, z, a) =>
    (* if x < 0: x *= -1; a += 1 *)
    let x1 := if x <? 0 then - x else x in
    let a1 := if x <? 0 then a + 2 * D else a in
    (* x %= 2; if x == 0: a = 0  elif x > 1.0: x = 2 - x; a += 1 *)
    let x2 := x1 mod (2 * D) in
    let x3 := if x2 =? 0 then x2 else if D <? x2 then 2 * D - x2 else x2 in
    let a3 := if x2 =? 0 then 0 else if D <? x2 then a1 + 2 * D else a1 in
    (* if x == 1 and z != 0: a += z / 2; z = 0.0 *)
    let fold := (x3 =? D) && negb (z =? 0) in
    let z4 := if fold then 0 else z in
    let a4 := if fold then a3 + z else a3 in
    (x3, wrap D z4, wrap (2 * D) a4)
  end.

Definition pxz_eqb (g h : pxz) : bool :=
  match g, h with (x, z, a), (x', z', a') => (x =? x') && (z =? z') && (a =? a') end.

(* cirq's == on two gates *)
Definition pxz_same (D : Z) (g h : pxz) : bool := pxz_eqb (pxz_canon D g) (pxz_canon D h).

(* exponents already in the ranges `_canonical` produces *)
Definition pxz_in_range (D : Z) (g : pxz) : Prop :=
  match g with
  | (x, z, a) => 0 <= x <= D /\ - D < z <= D /\ - (2 * D) < a <= 2 * D /\ (x = 0 -> a = 0) /\ (x = D -> z = 0)
  end.

(* det (Z^z Z^a X^x Z^-a) = e^{i pi (x + z)}: the phase of the determinant in units of pi/D, modulo 2 pi *)
Definition pxz_det_phase (D : Z) (g : pxz) : Z := match g with (x, z, a) => (x + z) mod (2 * D) end.

(* the writer of the code (the stored exponents) and the writer that puts the canonical exponents down *)
Definition pxz_write_stored (D : Z) (g : pxz) : pxz := write_stored g.
Definition pxz_write_canon (D : Z) (g : pxz) : pxz := pxz_canon D g.
