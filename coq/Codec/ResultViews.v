(* Model of cirq-core/cirq/study/result.py (ResultDict and the views of Result), hand-written in the
   shape of the code; numpy / pandas / collections.Counter are list functions.
   Definitions only; proofs are in ResultViewsProofs.v.

   A record array has shape (repetitions, instances, qubits); the last two extents are carried
   explicitly because they are still observable when there are 0 repetitions.
   Keys are Z identifiers (the adapter numbers the strings); digits are Z.
   None = the code raises (ValueError / KeyError). *)
From Coq Require Import ZArith List Bool.
From VF Require Import Base.Digits.
Import ListNotations.
Open Scope Z_scope.

Record rec := mkRec { r_inst : nat; r_nq : nat; r_data : list (list (list Z)) }.
Definition result := list (Z * rec).             (* the records dict, in insertion order *)

Definition row_wf (nq : nat) (row : list Z) : bool := Nat.eqb (length row) nq.
Definition rep_wf (inst nq : nat) (rep : list (list Z)) : bool :=
  Nat.eqb (length rep) inst && forallb (row_wf nq) rep.
Definition rec_wf (r : rec) : bool := forallb (rep_wf (r_inst r) (r_nq r)) (r_data r).

Fixpoint lookup {A} (k : Z) (d : list (Z * A)) : option A :=
  match d with
  | [] => None
  | (k', v) :: r => if k =? k' then Some v else lookup k r
  end.

Fixpoint mapM {A B} (f : A -> option B) (l : list A) : option (list B) :=
  match l with
  | [] => Some []
  | x :: r => match f x with
              | None => None
              | Some y => match mapM f r with None => None | Some ys => Some (y :: ys) end
              end
  end.

(* Result.repetitions: len(next(iter(records.values()))), 0 for no records *)
Definition repetitions (res : result) : nat :=
  match res with [] => 0%nat | (_, r) :: _ => length (r_data r) end.

(* ResultDict.measurements: every key must have exactly one instance; data.reshape((reps, qubits)) *)
Definition meas_of (r : rec) : option (list (list Z)) :=
  if Nat.eqb (r_inst r) 1 then Some (map (fun rep => concat rep) (r_data r)) else None.
Definition measurements (res : result) : option (list (Z * (nat * list (list Z)))) :=
  mapM (fun kr => match meas_of (snd kr) with
                  | Some m => Some (fst kr, (r_nq (snd kr), m))
                  | None => None
                  end) res.

(* ResultDict.records from measurements=...: data[:, np.newaxis, :] *)
Definition rec_of_meas (nq : nat) (m : list (list Z)) : rec := mkRec 1 nq (map (fun row => [row]) m).

(* dataframe_from_measurements: basis = 2 ** arange(n)[::-1]; np.sum(basis * bitstrings, axis=1) *)
Definition basis2 (n : nat) : list Z := map (fun i => 2 ^ Z.of_nat i) (rev (seq 0 n)).
Fixpoint dot (w row : list Z) : Z :=
  match w, row with
  | a :: w', d :: row' => a * d + dot w' row'
  | _, _ => 0
  end.
Definition df_value (row : list Z) : Z := dot (basis2 (length row)) row.
Definition dataframe (res : result) : option (list (Z * list Z)) :=
  match measurements res with
  | None => None
  | Some ms => Some (map (fun km => (fst km, map df_value (snd (snd km)))) ms)
  end.

(* collections.Counter: c[v] += 1 over a sequence; entries in first-occurrence order *)
Section Counter.
  Context {A : Type} (eqb : A -> A -> bool).
  Fixpoint counter_add (v : A) (c : list (A * nat)) : list (A * nat) :=
    match c with
    | [] => [(v, 1%nat)]
    | (w, n) :: r => if eqb v w then (w, S n) :: r else (w, n) :: counter_add v r
    end.
  Definition counter_of (l : list A) : list (A * nat) := fold_left (fun c v => counter_add v c) l [].
  Fixpoint count (v : A) (c : list (A * nat)) : nat :=
    match c with
    | [] => 0%nat
    | (w, n) :: r => if eqb v w then n else count v r
    end.
  Definition occurrences (v : A) (l : list A) : nat := length (filter (fun x => eqb v x) l).
  (* Counter.update(mapping): the counts of the mapping are ADDED to the counts already held *)
  Fixpoint counter_add_n (v : A) (n : nat) (c : list (A * nat)) : list (A * nat) :=
    match c with
    | [] => [(v, n)]
    | (w, m) :: r => if eqb v w then (w, (m + n)%nat) :: r else (w, m) :: counter_add_n v n r
    end.
  Definition counter_update (c d : list (A * nat)) : list (A * nat) :=
    fold_left (fun c e => counter_add_n (fst e) (snd e) c) d c.
  (* for i in range(0, len(l), size): l[i : i + size]   (fuel = len(l) bounds the number of batches) *)
  Fixpoint batches (fuel size : nat) (l : list A) : list (list A) :=
    match fuel with
    | O => []
    | S f => match l with [] => [] | _ => firstn size l :: batches f size (skipn size l) end
    end.
  (* counting in batches: c = Counter(); for each batch: values, counts = np.unique(batch, return_counts=True); c.update(dict(zip(values, counts)));
     the per-batch dict is the Counter of the batch (np.unique lists it sorted; Counter equality ignores order) *)
  Definition counter_batched (size : nat) (l : list A) : list (A * nat) :=
    fold_left (fun c b => counter_update c (counter_of b)) (batches (length l) size l) [].
  (* equality of Counters: same support size and same count for every entry *)
  Definition counter_eqb (a b : list (A * nat)) : bool :=
    Nat.eqb (length a) (length b) && forallb (fun e => Nat.eqb (count (fst e) b) (snd e)) a.
End Counter.

(* zip( *cols ) for a non-empty list of columns (truncates to the shortest) *)
Fixpoint zipn {A} (cols : list (list A)) : list (list A) :=
  match cols with
  | [] => []
  | [c] => map (fun x => [x]) c
  | c :: rest => map (fun p => fst p :: snd p) (combine c (zipn rest))
  end.

(* Result.multi_measurement_histogram(keys, fold_func) *)
Definition multi_samples (res : result) (keys : list Z) : option (list (list (list Z))) :=
  match keys with
  | [] => Some (repeat [] (repetitions res))       (* no key is looked up: [()] * repetitions *)
  | _ =>
      match measurements res with
      | None => None
      | Some ms => option_map zipn (mapM (fun k => option_map snd (lookup k ms)) keys)
      end
  end.
Definition multi_hist {A} (eqb : A -> A -> bool) (res : result) (keys : list Z)
  (fold : list (list Z) -> option A) : option (list (A * nat)) :=
  match multi_samples res keys with
  | None => None
  | Some samples => option_map (counter_of eqb) (mapM fold samples)
  end.

(* default fold of multi_measurement_histogram: tuple of big-endian ints (truthiness of each digit) *)
Definition truthy (d : Z) : bool := negb (d =? 0).
Definition fold_tuple_bits (sample : list (list Z)) : option (list Z) :=
  Some (map (fun row => bits_to_int (map truthy row)) sample).

(* Result.histogram(key, fold_func=None, fold_base): the vectorised path when the values fit in an int64 *)
Inductive fold_base := BaseNone | BaseInt (b : Z) | BaseList (bs : list Z).
Definition int64_max : Z := 9223372036854775807.
(* _vectorized_histogram(..., batch_size=50000): Result.histogram always uses the default *)
Definition hist_batch_size : nat := Z.to_nat 50000.
Definition powers_int (b : Z) (n : nat) : list Z := map (fun i => b ^ Z.of_nat i) (rev (seq 0 n)).
(* np.hstack((np.cumprod(base_list[:0:-1])[::-1], [1])) : positional weights of a mixed radix *)
Fixpoint weights_list (bs : list Z) : list Z :=
  match bs with
  | [] => []
  | _ :: r => fold_right Z.mul 1 r :: weights_list r
  end.
Definition slow_fold (fb : fold_base) (row : list Z) : option Z :=
  match fb with
  | BaseNone => Some (bits_to_int (map truthy row))
  | BaseInt b => digits_to_int row (repeat b (length row))
  | BaseList bs => digits_to_int row bs
  end.
Definition histogram (res : result) (key : Z) (fb : fold_base) : option (list (Z * nat)) :=
  match measurements res with
  | None => None
  | Some ms =>
      match lookup key ms with
      | None => None
      | Some (nq, rows) =>
          let fast (w : list Z) : option (list (Z * nat)) :=
            Some (match rows with
                  | [] => []
                  | _ => if Nat.eqb nq 0 then [(0, length rows)]
                         else counter_batched Z.eqb hist_batch_size (map (dot w) rows)
                  end) in
          let slow := multi_hist Z.eqb res [key] (fun e => slow_fold fb (hd [] e)) in
          match fb with
          | BaseNone => if 2 ^ Z.of_nat nq - 1 <=? int64_max then fast (powers_int 2 nq) else slow
          | BaseInt b => if b ^ Z.of_nat nq - 1 <=? int64_max then fast (powers_int b nq) else slow
          | BaseList bs =>
              if negb (Nat.eqb (length bs) nq) then None
              else if fold_right Z.mul 1 bs - 1 <=? int64_max then fast (weights_list bs) else slow
          end
      end
  end.
(* Result.histogram(key, fold_func=f) *)
Definition histogram_fold {A} (eqb : A -> A -> bool) (res : result) (key : Z) (f : list Z -> option A) :=
  multi_hist eqb res [key] (fun e => f (hd [] e)).

(* Result.__add__: shapes (without the repetition axis) must agree as dicts; keys in the order of `other` *)
Definition shape_of (r : rec) : nat * nat := (r_inst r, r_nq r).
Definition shape_eqb (a b : nat * nat) : bool := Nat.eqb (fst a) (fst b) && Nat.eqb (snd a) (snd b).
Definition same_shapes (a b : result) : bool :=
  Nat.eqb (length a) (length b) &&
  forallb (fun kr => match lookup (fst kr) b with
                     | Some r' => shape_eqb (shape_of (snd kr)) (shape_of r')
                     | None => false
                     end) a.
Definition result_add (a b : result) : option result :=
  if same_shapes a b then
    mapM (fun kr => match lookup (fst kr) a with
                    | Some ra => Some (fst kr, mkRec (r_inst (snd kr)) (r_nq (snd kr)) (r_data ra ++ r_data (snd kr)))
                    | None => None
                    end) b
  else None.

(* ---- JSON storage: _pack_digits / _unpack_digits ---- *)
(* np.packbits(flat) : big-endian within a byte, zero padding at the end; fuel = number of bytes *)
Fixpoint packbits_be (fuel : nat) (l : list bool) : list Z :=
  match fuel with
  | O => []
  | S f => match l with
           | [] => []
           | _ => fold_left (fun acc (b : bool) => 2 * acc + (if b then 1 else 0))
                            (firstn 8 (l ++ repeat false 7)) 0 :: packbits_be f (skipn 8 l)
           end
  end.
Definition unpackbits_be (data : list Z) : list bool :=
  flat_map (fun b => map (fun i => Z.testbit b i) [7; 6; 5; 4; 3; 2; 1; 0]) data.
(* bytes.hex() / bytes.fromhex : two nibbles per byte, high nibble first *)
Definition hex_of (data : list Z) : list Z := flat_map (fun b => [b / 16; b mod 16]) data.
Fixpoint unhex (h : list Z) : list Z :=
  match h with
  | hi :: lo :: r => (16 * hi + lo) :: unhex r
  | _ => []
  end.
(* little-endian bytes of one array element of the given item size (the data section of np.save) *)
Fixpoint le_bytes (size : nat) (v : Z) : list Z :=
  match size with O => [] | S s => v mod 256 :: le_bytes s (v / 256) end.
Fixpoint of_le_bytes (bs : list Z) : Z :=
  match bs with [] => 0 | b :: r => b + 256 * of_le_bytes r end.
Fixpoint chunks (fuel size : nat) (l : list Z) : list (list Z) :=
  match fuel with
  | O => []
  | S f => match l with [] => [] | _ => firstn size l :: chunks f size (skipn size l) end
  end.

Definition is_binary (flat : list Z) : bool := forallb (fun d => (d =? 0) || (d =? 1)) flat.
(* (hex text, binary flag); the .npy header of the general path is parsed by numpy and trusted *)
Definition pack_digits (itemsize : nat) (flat : list Z) : list Z * bool :=
  if is_binary flat
  then (hex_of (packbits_be (length flat) (map (Z.eqb 1) flat)), true)
  else (hex_of (flat_map (le_bytes itemsize) flat), false).
Definition unpack_digits (itemsize : nat) (count : nat) (packed : list Z * bool) : list Z :=
  if snd packed
  then map Z.b2z (firstn count (unpackbits_be (unhex (fst packed))))
  else map of_le_bytes (chunks count itemsize (unhex (fst packed))).

(* reshape between the flat C-order array and (reps, instances, qubits) *)
Definition flatten (data : list (list (list Z))) : list Z := concat (map (fun rep => concat rep) data).
Fixpoint unflat2 (rows : nat) (width : nat) (l : list Z) : list (list Z) :=
  match rows with O => [] | S r => firstn width l :: unflat2 r width (skipn width l) end.
Fixpoint unflat3 (reps inst nq : nat) (l : list Z) : list (list (list Z)) :=
  match reps with
  | O => []
  | S r => unflat2 inst nq (firstn (inst * nq) l) :: unflat3 r inst nq (skipn (inst * nq) l)
  end.
(* the JSON dict of one record and back *)
Definition rec_to_json (itemsize : nat) (r : rec) : (list Z * bool) * (nat * nat * nat) :=
  (pack_digits itemsize (flatten (r_data r)), (length (r_data r), r_inst r, r_nq r)).
Definition rec_of_json (itemsize : nat) (j : (list Z * bool) * (nat * nat * nat)) : rec :=
  let '(packed, (reps, inst, nq)) := j in
  mkRec inst nq (unflat3 reps inst nq (unpack_digits itemsize (reps * inst * nq) packed)).

(* ---- Sampler defaults (cirq/work/sampler.py), as list functions over an abstract run_sweep ---- *)
Section Sampler.
  Context {Prog Sweep Res : Type}.
  (* _normalize_batch_args: params_list None -> [None] * n; an int repetitions -> [r] * n; lengths must match *)
  Definition normalize_batch_args (n : nat) (none : Sweep) (params : option (list Sweep)) (reps : nat + list nat)
    : option (list Sweep * list nat) :=
    let ps := match params with None => repeat none n | Some l => l end in
    if negb (Nat.eqb (length ps) n) then None else
    let rs := match reps with inl r => repeat r n | inr l => l end in
    if negb (Nat.eqb (length rs) n) then None else Some (ps, rs).
  Variable run_sweep : Prog -> Sweep -> nat -> list Res.
  (* run_batch: [run_sweep(c, p, r) for c, p, r in zip(programs, params_list, repetitions)] *)
  Definition run_batch (none : Sweep) (programs : list Prog) (params : option (list Sweep)) (reps : nat + list nat)
    : option (list (list Res)) :=
    match normalize_batch_args (length programs) none params reps with
    | Some (ps, rs) => Some (map (fun cpr => run_sweep (fst (fst cpr)) (snd (fst cpr)) (snd cpr))
                                 (combine (combine programs ps) rs))
    | None => None
    end.
  (* run: run_sweep(program, resolver, repetitions)[0] *)
  Definition run (d : Res) (program : Prog) (p : Sweep) (reps : nat) : Res := hd d (run_sweep program p reps).
  (* sample: for sweep in sweeps: for resolver, result in zip(sweep, run_sweep(...)): rows of (params ++ data row) *)
  Definition sample_rows {Row PV : Type} (resolvers : Sweep -> list PV) (rows_of : Res -> list Row)
    (program : Prog) (sweeps : list Sweep) (reps : nat) : list (PV * Row) :=
    flat_map (fun sw => flat_map (fun pr => map (fun row => (fst pr, row)) (rows_of (snd pr)))
                                 (combine (resolvers sw) (run_sweep program sw reps))) sweeps.
End Sampler.
