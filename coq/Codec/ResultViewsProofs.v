From Coq Require Import ZArith List Bool Lia.
From VF Require Import Base.Digits Base.DigitsProofs Codec.ResultViews.
Import ListNotations.
Open Scope Z_scope.

(* ------------------------------------------------------------------ Counter *)
Section CounterProofs.
  Context {A : Type} (eqb : A -> A -> bool).
  Hypothesis eqb_eq : forall a b, eqb a b = true <-> a = b.

  Lemma eqb_refl a : eqb a a = true.
  Proof. apply eqb_eq. reflexivity. Qed.

  Lemma count_counter_add v w c :
    count eqb v (counter_add eqb w c) = (count eqb v c + (if eqb v w then 1 else 0))%nat.
  Proof.
    induction c as [|[x n] c IH]; simpl.
    - destruct (eqb v w); reflexivity.
    - destruct (eqb w x) eqn:Ewx; simpl.
      + apply eqb_eq in Ewx. subst x. destruct (eqb v w); lia.
      + destruct (eqb v x) eqn:Evx.
        * destruct (eqb v w) eqn:Evw; [|lia].
          apply eqb_eq in Evx, Evw. subst. rewrite eqb_refl in Ewx. discriminate.
        * apply IH.
  Qed.

  Lemma count_fold v l : forall c,
    count eqb v (fold_left (fun c x => counter_add eqb x c) l c) = (count eqb v c + occurrences eqb v l)%nat.
  Proof.
    unfold occurrences. induction l as [|x l IH]; intros c; simpl; [lia|].
    rewrite IH, count_counter_add. destruct (eqb v x); simpl; lia.
  Qed.

  (* a Counter built from a sequence holds, for every value, the number of its occurrences *)
  Theorem counter_of_count v l : count eqb v (counter_of eqb l) = occurrences eqb v l.
  Proof. unfold counter_of. rewrite count_fold. reflexivity. Qed.

  Lemma occurrences_app v l1 l2 :
    occurrences eqb v (l1 ++ l2) = (occurrences eqb v l1 + occurrences eqb v l2)%nat.
  Proof. unfold occurrences. rewrite filter_app, app_length. reflexivity. Qed.

  Theorem counter_of_app v l1 l2 :
    count eqb v (counter_of eqb (l1 ++ l2)) = (count eqb v (counter_of eqb l1) + count eqb v (counter_of eqb l2))%nat.
  Proof. rewrite !counter_of_count. apply occurrences_app. Qed.

  (* ---- counting in batches (Counter.update adds) ---- *)
  Lemma count_counter_add_n v w n c :
    count eqb v (counter_add_n eqb w n c) = (count eqb v c + (if eqb v w then n else 0))%nat.
  Proof.
    induction c as [|[x m] c IH]; simpl.
    - destruct (eqb v w); reflexivity.
    - destruct (eqb w x) eqn:Ewx; simpl.
      + apply eqb_eq in Ewx. subst x. destruct (eqb v w); lia.
      + destruct (eqb v x) eqn:Evx.
        * destruct (eqb v w) eqn:Evw; [|lia].
          apply eqb_eq in Evx, Evw. subst. rewrite eqb_refl in Ewx. discriminate.
        * apply IH.
  Qed.

  (* total count carried for v by a list of (value, count) items *)
  Definition weight (v : A) (d : list (A * nat)) : nat :=
    list_sum (map snd (filter (fun e => eqb v (fst e)) d)).

  Lemma weight_cons v x n d : weight v ((x, n) :: d) = ((if eqb v x then n else 0) + weight v d)%nat.
  Proof. unfold weight. cbn [filter fst]. destruct (eqb v x); reflexivity. Qed.

  Lemma count_counter_update v d : forall c,
    count eqb v (counter_update eqb c d) = (count eqb v c + weight v d)%nat.
  Proof.
    unfold counter_update. induction d as [|[x n] d IH]; intros c; cbn [fold_left fst snd].
    - unfold weight. simpl. lia.
    - rewrite IH, count_counter_add_n, weight_cons. lia.
  Qed.

  Lemma weight_counter_add v w c :
    weight v (counter_add eqb w c) = (weight v c + (if eqb v w then 1 else 0))%nat.
  Proof.
    induction c as [|[x n] c IH]; cbn [counter_add].
    - rewrite weight_cons. unfold weight. simpl. lia.
    - destruct (eqb w x) eqn:Ewx.
      + apply eqb_eq in Ewx. subst x. rewrite !weight_cons. destruct (eqb v w); lia.
      + rewrite !weight_cons, IH. lia.
  Qed.

  Lemma weight_counter_of v l : weight v (counter_of eqb l) = occurrences eqb v l.
  Proof.
    unfold counter_of.
    assert (H : forall c, weight v (fold_left (fun c x => counter_add eqb x c) l c) = (weight v c + occurrences eqb v l)%nat).
    { unfold occurrences. induction l as [|x l IH]; intros c; simpl; [lia|].
      rewrite IH, weight_counter_add. destruct (eqb v x); simpl; lia. }
    rewrite H. reflexivity.
  Qed.

  Lemma batches_concat size (Hs : (0 < size)%nat) : forall fuel (l : list A), (length l <= fuel)%nat ->
    concat (batches fuel size l) = l.
  Proof.
    induction fuel as [|f IH]; intros l Hf.
    - destruct l; [reflexivity|simpl in Hf; lia].
    - destruct l as [|x l]; [reflexivity|]. cbn [batches concat].
      rewrite IH.
      + apply firstn_skipn.
      + rewrite skipn_length. cbn [length] in Hf |- *. lia.
  Qed.

  Lemma count_fold_batches v bs : forall c,
    count eqb v (fold_left (fun c b => counter_update eqb c (counter_of eqb b)) bs c)
    = (count eqb v c + occurrences eqb v (concat bs))%nat.
  Proof.
    induction bs as [|b bs IH]; intros c; cbn [fold_left concat].
    - unfold occurrences. simpl. lia.
    - rewrite IH, count_counter_update, weight_counter_of, occurrences_app. lia.
  Qed.

  (* whatever the (positive) batch size, counting in batches gives every value its number of occurrences *)
  Theorem counter_batched_count size v l : (0 < size)%nat ->
    count eqb v (counter_batched eqb size l) = occurrences eqb v l.
  Proof.
    intros Hs. unfold counter_batched. rewrite count_fold_batches.
    rewrite (batches_concat size Hs) by lia. reflexivity.
  Qed.

  Corollary counter_batched_counter_of size v l : (0 < size)%nat ->
    count eqb v (counter_batched eqb size l) = count eqb v (counter_of eqb l).
  Proof. intros Hs. rewrite counter_batched_count, counter_of_count by assumption. reflexivity. Qed.
End CounterProofs.

Lemma hist_batch_size_pos : (0 < hist_batch_size)%nat.
Proof. unfold hist_batch_size. lia. Qed.

(* ------------------------------------------------------------------ generic list facts *)
Lemma mapM_app {A B} (f : A -> option B) l1 l2 :
  mapM f (l1 ++ l2) = match mapM f l1, mapM f l2 with Some a, Some b => Some (a ++ b) | _, _ => None end.
Proof.
  induction l1 as [|x l1 IH]; simpl.
  - destruct (mapM f l2); reflexivity.
  - destruct (f x); [|reflexivity]. rewrite IH.
    destruct (mapM f l1); [|reflexivity]. destruct (mapM f l2); reflexivity.
Qed.

Lemma mapM_total {A B} (f : A -> option B) (g : A -> B) l :
  (forall x, In x l -> f x = Some (g x)) -> mapM f l = Some (map g l).
Proof.
  induction l as [|x l IH]; intros H; simpl; [reflexivity|].
  rewrite (H x) by (left; reflexivity). rewrite IH by (intros; apply H; right; assumption). reflexivity.
Qed.

Lemma mapM_length {A B} (f : A -> option B) l l' : mapM f l = Some l' -> length l' = length l.
Proof.
  revert l'. induction l as [|x l IH]; intros l' H; simpl in H.
  - injection H as <-. reflexivity.
  - destruct (f x); [|discriminate]. destruct (mapM f l) eqn:E; [|discriminate].
    injection H as <-. simpl. f_equal. apply IH. reflexivity.
Qed.

Lemma lookup_map {A B} (g : A -> B) k (d : list (Z * A)) :
  lookup k (map (fun kv => (fst kv, g (snd kv))) d) = option_map g (lookup k d).
Proof.
  induction d as [|[k' v] d IH]; simpl; [reflexivity|]. destruct (k =? k'); [reflexivity|exact IH].
Qed.

(* ------------------------------------------------------------------ measurements *)
Definition all_single (res : result) : bool := forallb (fun kr => Nat.eqb (r_inst (snd kr)) 1) res.
Definition res_wf (res : result) : bool := forallb (fun kr => rec_wf (snd kr)) res.
Definition rows_of (r : rec) : list (list Z) := map (fun rep => concat rep) (r_data r).

Theorem measurements_single res : all_single res = true ->
  measurements res = Some (map (fun kr => (fst kr, (r_nq (snd kr), rows_of (snd kr)))) res).
Proof.
  intros H. unfold measurements. apply mapM_total. intros [k r] Hin.
  unfold all_single in H. rewrite forallb_forall in H. specialize (H _ Hin). simpl in H.
  unfold meas_of. simpl. rewrite H. reflexivity.
Qed.

(* the flattened views exist exactly when every key is measured once per repetition *)
Theorem measurements_defined res : measurements res <> None <-> all_single res = true.
Proof.
  split.
  - unfold measurements, all_single. induction res as [|[k r] res IH]; simpl; [reflexivity|].
    unfold meas_of at 1. simpl. destruct (Nat.eqb (r_inst r) 1); simpl; [|intros H; exfalso; apply H; reflexivity].
    intros H. apply IH. intros E. apply H. rewrite E. reflexivity.
  - intros H. rewrite measurements_single by exact H. discriminate.
Qed.

Lemma lookup_measurements res k r : all_single res = true -> lookup k res = Some r ->
  exists ms, measurements res = Some ms /\ lookup k ms = Some (r_nq r, rows_of r).
Proof.
  intros Hs Hl. eexists. split; [apply measurements_single; exact Hs|].
  rewrite (lookup_map (fun r => (r_nq r, rows_of r))), Hl. reflexivity.
Qed.

(* with one instance, the row of a repetition is that instance *)
Lemma rows_of_single r : rec_wf r = true -> r_inst r = 1%nat ->
  rows_of r = map (fun rep => hd [] rep) (r_data r) /\ Forall (fun row => length row = r_nq r) (rows_of r).
Proof.
  intros Hwf H1. unfold rec_wf in Hwf. rewrite forallb_forall in Hwf. unfold rows_of.
  split.
  - apply map_ext_in. intros rep Hin. specialize (Hwf _ Hin). unfold rep_wf in Hwf. rewrite H1 in Hwf.
    apply andb_true_iff in Hwf. destruct Hwf as [Hlen _]. apply Nat.eqb_eq in Hlen.
    destruct rep as [|row [|]]; try discriminate. simpl. apply app_nil_r.
  - apply Forall_forall. intros row Hin. apply in_map_iff in Hin. destruct Hin as (rep & <- & Hin).
    specialize (Hwf _ Hin). unfold rep_wf in Hwf. rewrite H1 in Hwf.
    apply andb_true_iff in Hwf. destruct Hwf as [Hlen Hrows]. apply Nat.eqb_eq in Hlen.
    destruct rep as [|row [|]]; try discriminate. simpl in *. rewrite app_nil_r.
    apply andb_true_iff in Hrows. destruct Hrows as [Hr _]. apply Nat.eqb_eq. exact Hr.
Qed.

(* constructing from measurements= and reading .measurements back is the identity *)
Theorem meas_of_rec_of_meas nq m : meas_of (rec_of_meas nq m) = Some m.
Proof.
  unfold meas_of, rec_of_meas. simpl. f_equal. rewrite map_map. simpl.
  rewrite <- (map_id m) at 2. apply map_ext. intros row. apply app_nil_r.
Qed.

(* ------------------------------------------------------------------ data frame *)
Lemma basis2_S n : basis2 (S n) = 2 ^ Z.of_nat n :: basis2 n.
Proof. unfold basis2. rewrite seq_S, rev_app_distr. reflexivity. Qed.

Lemma df_value_cons d row : df_value (d :: row) = 2 ^ Z.of_nat (length row) * d + df_value row.
Proof. unfold df_value. cbn [length]. rewrite basis2_S. reflexivity. Qed.

Definition binary_row (row : list Z) : Prop := Forall (fun d => d = 0 \/ d = 1) row.

(* the data frame entry is the big-endian integer of the row *)
Theorem df_value_bits row : binary_row row -> df_value row = bits_to_int (map truthy row).
Proof.
  induction 1 as [|d row Hd _ IH]; [reflexivity|].
  rewrite df_value_cons. cbn [map]. rewrite bits_to_int_cons, map_length, IH.
  destruct Hd as [-> | ->]; [change (truthy 0) with false|change (truthy 1) with true]; cbn [Z.b2z]; ring.
Qed.

Theorem df_value_horner row : df_value row = fold_left (fun acc d => 2 * acc + d) row 0.
Proof.
  assert (H : forall acc, fold_left (fun acc d => 2 * acc + d) row acc = acc * 2 ^ Z.of_nat (length row) + df_value row).
  { induction row as [|d row IH]; intros acc.
    - simpl. unfold df_value. simpl. lia.
    - cbn [fold_left]. rewrite IH, df_value_cons. cbn [length]. rewrite Nat2Z.inj_succ, Z.pow_succ_r by lia. ring. }
  rewrite H. ring.
Qed.

Theorem df_value_digits row : binary_row row -> digits_to_int row (repeat 2 (length row)) = Some (df_value row).
Proof.
  intros Hb. rewrite df_value_horner. unfold digits_to_int.
  assert (H : forall acc, digits_to_int_acc row (repeat 2 (length row)) acc = Some (fold_left (fun acc d => 2 * acc + d) row acc)).
  { induction Hb as [|d row Hd _ IH]; intros acc; [reflexivity|].
    cbn [length repeat digits_to_int_acc fold_left].
    replace ((0 <=? d) && (d <? 2)) with true by (destruct Hd as [-> | ->]; reflexivity).
    rewrite IH. f_equal. f_equal. ring. }
  apply H.
Qed.

Lemma lookup_dataframe res k r : all_single res = true -> lookup k res = Some r ->
  exists df, dataframe res = Some df /\ lookup k df = Some (map df_value (rows_of r)).
Proof.
  intros Hs Hl. unfold dataframe. rewrite measurements_single by exact Hs.
  eexists. split; [reflexivity|]. rewrite map_map. simpl.
  rewrite (lookup_map (fun r => map df_value (rows_of r))), Hl. reflexivity.
Qed.

(* ------------------------------------------------------------------ histograms *)
Lemma mapM_map {A B C} (f : B -> option C) (g : A -> B) l : mapM f (map g l) = mapM (fun x => f (g x)) l.
Proof. induction l as [|x l IH]; simpl; [reflexivity|]. rewrite IH. reflexivity. Qed.

Lemma mapM_ext_in {A B} (f g : A -> option B) l : (forall x, In x l -> f x = g x) -> mapM f l = mapM g l.
Proof.
  induction l as [|x l IH]; intros H; simpl; [reflexivity|].
  rewrite (H x) by (left; reflexivity). rewrite IH by (intros; apply H; right; assumption). reflexivity.
Qed.

Lemma multi_samples_one res k r : all_single res = true -> lookup k res = Some r ->
  multi_samples res [k] = Some (map (fun row => [row]) (rows_of r)).
Proof.
  intros Hs Hl. unfold multi_samples. destruct (lookup_measurements res k r Hs Hl) as (ms & Hm & Hk).
  rewrite Hm. simpl. rewrite Hk. reflexivity.
Qed.

(* histogram(key, fold_func) counts fold_func over the rows of the key *)
Theorem histogram_fold_counts {A} (eqb : A -> A -> bool) (eqb_eq : forall a b, eqb a b = true <-> a = b)
  res k r (f : list Z -> option A) vals :
  all_single res = true -> lookup k res = Some r -> mapM f (rows_of r) = Some vals ->
  exists h, histogram_fold eqb res k f = Some h /\ forall v, count eqb v h = occurrences eqb v vals.
Proof.
  intros Hs Hl Hv. unfold histogram_fold, multi_hist. rewrite (multi_samples_one res k r Hs Hl).
  rewrite mapM_map. rewrite (mapM_ext_in _ f (rows_of r)) by (intros; reflexivity).
  rewrite Hv. simpl. eexists. split; [reflexivity|].
  intros v. apply counter_of_count. exact eqb_eq.
Qed.

(* zip( *columns ): sample i is the tuple of the i-th rows, in the order of the columns *)
Lemma zipn_spec {A} (d : A) (cols : list (list A)) n : cols <> [] -> Forall (fun c => length c = n) cols ->
  length (zipn cols) = n /\ forall i, (i < n)%nat -> nth i (zipn cols) [] = map (fun c => nth i c d) cols.
Proof.
  induction cols as [|c cols IH]; intros Hne Hall; [contradiction|].
  inversion Hall as [|? ? Hc Hrest]; subst.
  destruct cols as [|c2 rest].
  - simpl. rewrite map_length. split; [reflexivity|]. intros i Hi.
    rewrite (nth_indep _ [] ((fun x => [x]) d)) by (rewrite map_length; exact Hi).
    rewrite (map_nth (fun x => [x])). reflexivity.
  - destruct (IH ltac:(discriminate) Hrest) as [IHlen IHnth].
    change (zipn (c :: c2 :: rest)) with (map (fun p => fst p :: snd p) (combine c (zipn (c2 :: rest)))).
    rewrite map_length, combine_length, IHlen, Nat.min_id. split; [reflexivity|]. intros i Hi.
    rewrite (nth_indep _ [] ((fun p => fst p :: snd p) (d, []))) by (rewrite map_length, combine_length, IHlen, Nat.min_id; exact Hi).
    rewrite (map_nth (fun p => fst p :: snd p)). rewrite combine_nth by (rewrite IHlen; reflexivity).
    simpl fst. simpl snd. rewrite IHnth by exact Hi. reflexivity.
Qed.

(* multi_measurement_histogram(keys, fold): the samples are the rows of the keys in argument order *)
Theorem multi_samples_spec res ks (rowsf : Z -> list (list Z)) n :
  all_single res = true -> ks <> [] ->
  (forall k, In k ks -> exists r, lookup k res = Some r /\ rows_of r = rowsf k /\ length (rowsf k) = n) ->
  exists samples, multi_samples res ks = Some samples /\ length samples = n /\
    forall i, (i < n)%nat -> nth i samples [] = map (fun k => nth i (rowsf k) []) ks.
Proof.
  intros Hs Hne Hk. unfold multi_samples. destruct ks as [|k0 ks0]; [contradiction|].
  remember (k0 :: ks0) as ks eqn:Eks. rewrite measurements_single by exact Hs.
  assert (Hm : mapM (fun k => option_map snd (lookup k (map (fun kr => (fst kr, (r_nq (snd kr), rows_of (snd kr)))) res))) ks
               = Some (map rowsf ks)).
  { apply mapM_total. intros k Hin. destruct (Hk k Hin) as (r & Hl & Hr & _).
    rewrite (lookup_map (fun r => (r_nq r, rows_of r))), Hl. simpl. rewrite Hr. reflexivity. }
  rewrite Hm. simpl. eexists. split; [reflexivity|].
  destruct (zipn_spec (A := list Z) [] (map rowsf ks) n) as [Hlen Hnth].
  - subst ks. discriminate.
  - apply Forall_forall. intros c Hin. apply in_map_iff in Hin. destruct Hin as (k & <- & Hin).
    destruct (Hk k Hin) as (_ & _ & _ & Hn). exact Hn.
  - split; [exact Hlen|]. intros i Hi. rewrite Hnth by exact Hi. rewrite map_map. reflexivity.
Qed.

Theorem multi_hist_counts {A} (eqb : A -> A -> bool) (eqb_eq : forall a b, eqb a b = true <-> a = b)
  res ks (fold : list (list Z) -> option A) samples vals :
  multi_samples res ks = Some samples -> mapM fold samples = Some vals ->
  exists h, multi_hist eqb res ks fold = Some h /\ forall v, count eqb v h = occurrences eqb v vals.
Proof.
  intros Hs Hv. unfold multi_hist. rewrite Hs, Hv. simpl. eexists. split; [reflexivity|].
  intros v. apply counter_of_count. exact eqb_eq.
Qed.

Theorem multi_samples_no_keys res : multi_samples res [] = Some (repeat [] (repetitions res)).
Proof. reflexivity. Qed.

(* ---- the default histogram: vectorised path = generic path = data frame value ---- *)
Lemma dti_dot ds : forall bs acc v, digits_to_int_acc ds bs acc = Some v ->
  v = acc * prodZ bs + dot (weights_list bs) ds.
Proof.
  induction ds as [|d ds IH]; intros [|b bs] acc v H; simpl in H; try discriminate.
  - injection H as <-. unfold prodZ. simpl. ring.
  - destruct ((0 <=? d) && (d <? b)); [|discriminate].
    apply IH in H. rewrite H. unfold prodZ. simpl. fold (prodZ bs). unfold prodZ. ring.
Qed.

Lemma prodZ_repeat b n : prodZ (repeat b n) = b ^ Z.of_nat n.
Proof.
  induction n as [|n IH]; [reflexivity|]. cbn [repeat]. unfold prodZ in *. cbn [fold_right]. rewrite IH.
  rewrite Nat2Z.inj_succ, Z.pow_succ_r by lia. reflexivity.
Qed.

Lemma powers_int_weights b n : powers_int b n = weights_list (repeat b n).
Proof.
  induction n as [|n IH]; [reflexivity|].
  unfold powers_int in *. rewrite seq_S, rev_app_distr. cbn [app rev map repeat weights_list]. rewrite IH.
  f_equal. symmetry. apply prodZ_repeat.
Qed.

Lemma count_single v (n : nat) : count Z.eqb v [(0, n)] = if v =? 0 then n else 0%nat.
Proof. reflexivity. Qed.

Lemma occurrences_const {A} (eqb : A -> A -> bool) v w (l : list A) : (forall x, In x l -> x = w) ->
  occurrences eqb v l = if eqb v w then length l else 0%nat.
Proof.
  unfold occurrences. induction l as [|x l IH]; intros H.
  - simpl. destruct (eqb v w); reflexivity.
  - assert (Hx : x = w) by (apply H; left; reflexivity). subst x.
    assert (IH' := IH (fun y Hy => H y (or_intror Hy))). cbn [filter].
    destruct (eqb v w) eqn:E; cbn [length]; rewrite IH'; reflexivity.
Qed.

Lemma Zeqb_eq a b : (a =? b) = true <-> a = b.
Proof. apply Z.eqb_eq. Qed.

(* generic statement: when every row folds to (val row) on both paths, the histogram counts val over the rows *)
Lemma histogram_paths res k r fb (w : list Z) (val : list Z -> Z) (fits : bool) :
  all_single res = true -> lookup k res = Some r -> rec_wf r = true -> r_inst r = 1%nat ->
  (forall row, In row (rows_of r) -> slow_fold fb row = Some (val row)) ->
  (forall row, In row (rows_of r) -> r_nq r <> 0%nat -> dot w row = val row) ->
  val [] = 0 ->
  forall h,
  (if fits then
     Some (match rows_of r with
           | [] => []
           | _ => if Nat.eqb (r_nq r) 0 then [(0, length (rows_of r))]
                  else counter_batched Z.eqb hist_batch_size (map (dot w) (rows_of r))
           end)
   else multi_hist Z.eqb res [k] (fun e => slow_fold fb (hd [] e))) = Some h ->
  forall v, count Z.eqb v h = occurrences Z.eqb v (map val (rows_of r)).
Proof.
  intros Hs Hl Hwf H1 Hslow Hfast H0 h Hh v.
  destruct (rows_of_single r Hwf H1) as [_ Hlen].
  destruct fits.
  - injection Hh as <-. destruct (rows_of r) as [|row0 rows] eqn:Er; [reflexivity|].
    destruct (Nat.eqb (r_nq r) 0) eqn:En.
    + apply Nat.eqb_eq in En. rewrite count_single.
      rewrite (occurrences_const Z.eqb v 0); [rewrite map_length; reflexivity|].
      intros x Hin. apply in_map_iff in Hin. destruct Hin as (row & <- & Hin).
      rewrite Forall_forall in Hlen. specialize (Hlen row Hin). rewrite En in Hlen.
      destruct row; [exact H0|discriminate].
    + apply Nat.eqb_neq in En. rewrite counter_batched_count by (exact Zeqb_eq || exact hist_batch_size_pos).
      f_equal. apply map_ext_in. intros row Hin. apply Hfast; [first [exact Hin|rewrite Er; exact Hin]|exact En].
  - unfold multi_hist in Hh. rewrite (multi_samples_one res k r Hs Hl) in Hh.
    rewrite mapM_map in Hh.
    rewrite (mapM_total _ val) in Hh by (intros row Hin; simpl; apply Hslow; exact Hin). simpl in Hh. injection Hh as <-.
    apply counter_of_count. exact Zeqb_eq.
Qed.

Lemma dot_basis_df nq row : length row = nq -> dot (powers_int 2 nq) row = df_value row.
Proof. intros <-. reflexivity. Qed.

(* histogram(key): for bits, whichever path is taken, it counts the data-frame values of the rows *)
Theorem histogram_default_counts res k r :
  all_single res = true -> lookup k res = Some r -> rec_wf r = true ->
  Forall binary_row (rows_of r) ->
  exists h, histogram res k BaseNone = Some h /\
    forall v, count Z.eqb v h = occurrences Z.eqb v (map df_value (rows_of r)).
Proof.
  intros Hs Hl Hwf Hb.
  assert (H1 : r_inst r = 1%nat).
  { unfold all_single in Hs. rewrite forallb_forall in Hs.
    assert (Hin : In (k, r) res).
    { clear -Hl. induction res as [|[k' r'] res IH]; simpl in Hl; [discriminate|].
      destruct (k =? k') eqn:E; [apply Z.eqb_eq in E; injection Hl as <-; subst; left; reflexivity|right; apply IH; exact Hl]. }
    specialize (Hs _ Hin). apply Nat.eqb_eq. exact Hs. }
  destruct (rows_of_single r Hwf H1) as [_ Hlen].
  unfold histogram. destruct (lookup_measurements res k r Hs Hl) as (ms & Hm & Hk). rewrite Hm, Hk.
  match goal with |- exists h, ?X = Some h /\ _ => destruct X as [h|] eqn:Eh end.
  - exists h. split; [reflexivity|].
    eapply (histogram_paths res k r BaseNone (powers_int 2 (r_nq r)) df_value); try eassumption.
    + intros row Hin. simpl. f_equal. symmetry. apply df_value_bits. rewrite Forall_forall in Hb. apply Hb. exact Hin.
    + intros row Hin _. apply dot_basis_df. rewrite Forall_forall in Hlen. apply Hlen. exact Hin.
    + reflexivity.
  - exfalso. destruct (2 ^ Z.of_nat (r_nq r) - 1 <=? int64_max); [discriminate|].
    unfold multi_hist in Eh. rewrite (multi_samples_one res k r Hs Hl) in Eh. rewrite mapM_map in Eh.
    rewrite (mapM_total _ (fun row => bits_to_int (map truthy row))) in Eh by reflexivity. discriminate.
Qed.

(* ---- histogram(key, fold_base=...) ---- *)
Lemma mapM_Some_map {A B} (f : A -> option B) (d : B) l l' : mapM f l = Some l' ->
  (forall x, In x l -> f x = Some (match f x with Some y => y | None => d end)) /\
  l' = map (fun x => match f x with Some y => y | None => d end) l.
Proof.
  revert l'. induction l as [|x l IH]; intros l' H; simpl in H.
  - injection H as <-. split; [intros x []|reflexivity].
  - destruct (f x) as [y|] eqn:Ef; [|discriminate]. destruct (mapM f l) as [ys|] eqn:Em; [|discriminate].
    injection H as <-. destruct (IH ys eq_refl) as [IH1 IH2]. split.
    + intros z [<-|Hz]; [rewrite Ef; reflexivity|apply IH1; exact Hz].
    + simpl. rewrite Ef, <- IH2. reflexivity.
Qed.

Lemma lookup_In {A} k (r : A) res : lookup k res = Some r -> In (k, r) res.
Proof.
  induction res as [|[k' r'] res IH]; simpl; intros Hl; [discriminate|].
  destruct (k =? k') eqn:E; [apply Z.eqb_eq in E; injection Hl as <-; subst; left; reflexivity|right; apply IH; exact Hl].
Qed.

Lemma single_inst res k r : all_single res = true -> lookup k res = Some r -> r_inst r = 1%nat.
Proof.
  intros Hs Hl. unfold all_single in Hs. rewrite forallb_forall in Hs.
  specialize (Hs _ (lookup_In _ _ _ Hl)). apply Nat.eqb_eq. exact Hs.
Qed.

Lemma hist_base_core res k r fb bs (fits : bool) vals :
  all_single res = true -> lookup k res = Some r -> rec_wf r = true ->
  (forall row, In row (rows_of r) -> slow_fold fb row = digits_to_int row bs) ->
  mapM (fun row => digits_to_int row bs) (rows_of r) = Some vals ->
  exists h,
  (if fits then
     Some (match rows_of r with
           | [] => []
           | _ => if Nat.eqb (r_nq r) 0 then [(0, length (rows_of r))]
                  else counter_batched Z.eqb hist_batch_size (map (dot (weights_list bs)) (rows_of r))
           end)
   else multi_hist Z.eqb res [k] (fun e => slow_fold fb (hd [] e))) = Some h /\
  forall v, count Z.eqb v h = occurrences Z.eqb v vals.
Proof.
  intros Hs Hl Hwf Hsl Hv.
  pose proof (single_inst res k r Hs Hl) as H1.
  destruct (mapM_Some_map _ 0 _ _ Hv) as [Hsome Hvals].
  set (val := fun row => match digits_to_int row bs with Some y => y | None => 0 end) in *.
  assert (Hslow : forall row, In row (rows_of r) -> slow_fold fb row = Some (val row)).
  { intros row Hin. rewrite Hsl by exact Hin. apply Hsome. exact Hin. }
  assert (Hfast : forall row, In row (rows_of r) -> r_nq r <> 0%nat -> dot (weights_list bs) row = val row).
  { intros row Hin _. specialize (Hsome row Hin). unfold val.
    destruct (digits_to_int row bs) as [y|] eqn:E; [|discriminate].
    unfold digits_to_int in E. apply dti_dot in E. lia. }
  assert (H0 : val [] = 0).
  { unfold val, digits_to_int. destruct bs; reflexivity. }
  match goal with |- exists h, ?X = Some h /\ _ => destruct X as [h|] eqn:Eh end.
  - exists h. split; [reflexivity|]. rewrite Hvals.
    eapply (histogram_paths res k r fb (weights_list bs) val fits); eassumption.
  - exfalso. destruct fits; [discriminate|].
    unfold multi_hist in Eh. rewrite (multi_samples_one res k r Hs Hl), mapM_map in Eh.
    rewrite (mapM_total _ val) in Eh by (intros row Hin; simpl; apply Hslow; exact Hin). discriminate.
Qed.

Theorem histogram_base_list_counts res k r bs vals :
  all_single res = true -> lookup k res = Some r -> rec_wf r = true -> length bs = r_nq r ->
  mapM (fun row => digits_to_int row bs) (rows_of r) = Some vals ->
  exists h, histogram res k (BaseList bs) = Some h /\ forall v, count Z.eqb v h = occurrences Z.eqb v vals.
Proof.
  intros Hs Hl Hwf Hlen Hv. unfold histogram.
  destruct (lookup_measurements res k r Hs Hl) as (ms & Hm & Hk). rewrite Hm, Hk.
  rewrite Hlen, Nat.eqb_refl. cbn [negb].
  apply (hist_base_core res k r (BaseList bs) bs _ vals Hs Hl Hwf); [reflexivity|exact Hv].
Qed.

Theorem histogram_base_int_counts res k r b vals :
  all_single res = true -> lookup k res = Some r -> rec_wf r = true ->
  mapM (fun row => digits_to_int row (repeat b (r_nq r))) (rows_of r) = Some vals ->
  exists h, histogram res k (BaseInt b) = Some h /\ forall v, count Z.eqb v h = occurrences Z.eqb v vals.
Proof.
  intros Hs Hl Hwf Hv. unfold histogram.
  destruct (lookup_measurements res k r Hs Hl) as (ms & Hm & Hk). rewrite Hm, Hk.
  rewrite powers_int_weights.
  apply (hist_base_core res k r (BaseInt b) (repeat b (r_nq r)) _ vals Hs Hl Hwf); [|exact Hv].
  intros row Hin. simpl.
  destruct (rows_of_single r Hwf (single_inst res k r Hs Hl)) as [_ Hlen].
  rewrite Forall_forall in Hlen. rewrite (Hlen row Hin). reflexivity.
Qed.

(* ------------------------------------------------------------------ concatenation *)
Lemma result_add_lookup a b c k rb : result_add a b = Some c -> lookup k b = Some rb ->
  exists ra, lookup k a = Some ra /\
    lookup k c = Some (mkRec (r_inst rb) (r_nq rb) (r_data ra ++ r_data rb)).
Proof.
  unfold result_add. destruct (same_shapes a b); [|discriminate].
  revert c. induction b as [|[k' r'] b IH]; intros c Hc Hl; simpl in *; [discriminate|].
  destruct (lookup k' a) as [ra'|] eqn:Ea; [|discriminate].
  destruct (mapM _ b) as [c'|] eqn:Em; [|discriminate]. injection Hc as <-. simpl.
  destruct (k =? k') eqn:E.
  - apply Z.eqb_eq in E. subst k'. injection Hl as <-. exists ra'. split; [exact Ea|reflexivity].
  - apply (IH c' eq_refl Hl).
Qed.

Lemma same_shapes_lookup a b k ra : same_shapes a b = true -> lookup k a = Some ra ->
  exists rb, lookup k b = Some rb /\ r_inst ra = r_inst rb /\ r_nq ra = r_nq rb.
Proof.
  unfold same_shapes. intros H Hl. apply andb_true_iff in H. destruct H as [_ H].
  rewrite forallb_forall in H. specialize (H _ (lookup_In _ _ _ Hl)). simpl in H.
  destruct (lookup k b) as [rb|]; [|discriminate]. exists rb. split; [reflexivity|].
  unfold shape_eqb, shape_of in H. simpl in H. apply andb_true_iff in H. destruct H as [H1 H2].
  apply Nat.eqb_eq in H1, H2. auto.
Qed.

(* every view of r1 + r2 is the concatenation (or the sum of counts) of the views of r1 and r2 *)
Theorem result_add_views a b c k ra rb :
  result_add a b = Some c -> lookup k a = Some ra -> lookup k b = Some rb ->
  exists rc, lookup k c = Some rc /\
    r_data rc = r_data ra ++ r_data rb /\ r_inst rc = r_inst ra /\ r_inst rc = r_inst rb /\
    r_nq rc = r_nq ra /\ r_nq rc = r_nq rb /\
    rows_of rc = rows_of ra ++ rows_of rb /\
    map df_value (rows_of rc) = map df_value (rows_of ra) ++ map df_value (rows_of rb) /\
    (forall ma mb, meas_of ra = Some ma -> meas_of rb = Some mb -> meas_of rc = Some (ma ++ mb)) /\
    (forall A (eqb : A -> A -> bool), (forall x y, eqb x y = true <-> x = y) ->
       forall (f : list Z -> A) v,
       count eqb v (counter_of eqb (map f (rows_of rc))) =
       (count eqb v (counter_of eqb (map f (rows_of ra))) + count eqb v (counter_of eqb (map f (rows_of rb))))%nat).
Proof.
  intros Hc Hla Hlb. destruct (result_add_lookup a b c k rb Hc Hlb) as (ra' & Hla' & Hlc).
  rewrite Hla in Hla'. injection Hla' as <-.
  assert (Hsh : same_shapes a b = true) by (unfold result_add in Hc; destruct (same_shapes a b); [reflexivity|discriminate]).
  destruct (same_shapes_lookup a b k ra Hsh Hla) as (rb' & Hlb' & Hi & Hq).
  rewrite Hlb in Hlb'. injection Hlb' as <-.
  eexists. split; [exact Hlc|]. simpl.
  assert (Hrows : rows_of (mkRec (r_inst rb) (r_nq rb) (r_data ra ++ r_data rb)) = rows_of ra ++ rows_of rb)
    by (unfold rows_of; simpl; apply map_app).
  repeat split; auto.
  - rewrite Hrows. apply map_app.
  - intros ma mb Ha Hb. unfold meas_of in *. simpl. rewrite Hi in Ha.
    destruct (Nat.eqb (r_inst rb) 1); [|discriminate]. injection Ha as <-. injection Hb as <-.
    rewrite map_app. reflexivity.
  - intros A eqb Heq f v. rewrite Hrows, map_app. apply counter_of_app. exact Heq.
Qed.

Theorem result_add_repetitions a b c k0 r0 rest :
  result_add a b = Some c -> b = (k0, r0) :: rest ->
  exists ra, lookup k0 a = Some ra /\ repetitions c = (length (r_data ra) + length (r_data r0))%nat.
Proof.
  intros Hc ->. unfold result_add in Hc. destruct (same_shapes a _); [|discriminate].
  simpl in Hc. destruct (lookup k0 a) as [ra|]; [|discriminate].
  destruct (mapM _ rest); [|discriminate]. injection Hc as <-. exists ra. split; [reflexivity|].
  simpl. apply app_length.
Qed.

Theorem result_add_shapes a b c : result_add a b = Some c -> same_shapes a b = true /\ length c = length b.
Proof.
  unfold result_add. destruct (same_shapes a b); [|discriminate]. intros H. split; [reflexivity|].
  apply mapM_length in H. exact H.
Qed.

(* ------------------------------------------------------------------ JSON storage *)
Lemma unhex_hex data : unhex (hex_of data) = data.
Proof.
  induction data as [|b data IH]; [reflexivity|]. unfold hex_of in *. cbn [flat_map app unhex].
  rewrite IH. f_equal. pose proof (Z.div_mod b 16 ltac:(lia)). lia.
Qed.

Lemma byte_be_roundtrip row : length row = 8%nat ->
  map (fun i => Z.testbit (fold_left (fun acc (b : bool) => 2 * acc + (if b then 1 else 0)) row 0) i)
      [7; 6; 5; 4; 3; 2; 1; 0] = row.
Proof.
  intros H.
  destruct row as [|b0 [|b1 [|b2 [|b3 [|b4 [|b5 [|b6 [|b7 [|b8 r]]]]]]]]]; try discriminate H.
  destruct b0, b1, b2, b3, b4, b5, b6, b7; reflexivity.
Qed.

Lemma packbits_be_nil fuel : packbits_be fuel [] = [].
Proof. destruct fuel; reflexivity. Qed.

Lemma packbits_be_roundtrip fuel : forall l, (length l <= 8 * fuel)%nat ->
  firstn (length l) (unpackbits_be (packbits_be fuel l)) = l.
Proof.
  induction fuel as [|f IH]; intros l Hl.
  - destruct l; [reflexivity|simpl in Hl; lia].
  - destruct l as [|x l']; [reflexivity|].
    remember (x :: l') as l eqn:El.
    assert (Hpos : (0 < length l)%nat) by (subst; simpl; lia).
    assert (Hpk : packbits_be (S f) l =
              fold_left (fun acc (b : bool) => 2 * acc + (if b then 1 else 0)) (firstn 8 (l ++ repeat false 7)) 0
              :: packbits_be f (skipn 8 l)) by (subst l; reflexivity).
    rewrite Hpk. clear Hpk El x l'. unfold unpackbits_be. cbn [flat_map].
    rewrite byte_be_roundtrip by (rewrite firstn_length, app_length, repeat_length; lia).
    fold (unpackbits_be (packbits_be f (skipn 8 l))).
    destruct (Nat.le_gt_cases 8 (length l)) as [Hge|Hlt].
    + rewrite (firstn_app 8 l). replace (8 - length l)%nat with 0%nat by lia. rewrite firstn_O, app_nil_r.
      rewrite firstn_app, firstn_length, Nat.min_l by exact Hge.
      rewrite (firstn_all2 (firstn 8 l)) by (rewrite firstn_length; lia).
      specialize (IH (skipn 8 l)). rewrite skipn_length in IH. rewrite IH by lia.
      apply firstn_skipn.
    + rewrite skipn_all2 by lia. rewrite packbits_be_nil. cbn [unpackbits_be flat_map]. rewrite app_nil_r.
      rewrite (firstn_app 8 l), (firstn_all2 l) by lia.
      rewrite firstn_app, firstn_all, Nat.sub_diag. rewrite firstn_O. apply app_nil_r.
Qed.

Lemma le_bytes_roundtrip size : forall v, 0 <= v < 256 ^ Z.of_nat size -> of_le_bytes (le_bytes size v) = v.
Proof.
  induction size as [|s IH]; intros v Hv.
  - simpl in *. lia.
  - cbn [le_bytes of_le_bytes]. rewrite Nat2Z.inj_succ, Z.pow_succ_r in Hv by lia.
    rewrite IH by (split; [apply Z.div_pos; lia|apply Z.div_lt_upper_bound; lia]).
    pose proof (Z.div_mod v 256 ltac:(lia)). lia.
Qed.

Lemma le_bytes_length size v : length (le_bytes size v) = size.
Proof. revert v. induction size as [|s IH]; intros v; simpl; [reflexivity|]. rewrite IH. reflexivity. Qed.

Lemma chunks_flat size (Hs : (0 < size)%nat) flat : forall fuel, (length flat <= fuel)%nat ->
  chunks fuel size (flat_map (le_bytes size) flat) = map (le_bytes size) flat.
Proof.
  induction flat as [|v flat IH]; intros fuel Hf.
  - destruct fuel; reflexivity.
  - destruct fuel as [|f]; [simpl in Hf; lia|]. cbn [flat_map map chunks].
    destruct (le_bytes size v ++ flat_map (le_bytes size) flat) eqn:E.
    + exfalso. apply (f_equal (@length Z)) in E. rewrite app_length, le_bytes_length in E. simpl in E. lia.
    + rewrite <- E. clear E.
      rewrite firstn_app, le_bytes_length, Nat.sub_diag, firstn_all2 by (rewrite le_bytes_length; lia).
      cbn [firstn]. rewrite app_nil_r. f_equal.
      rewrite skipn_app, le_bytes_length, Nat.sub_diag, skipn_all2 by (rewrite le_bytes_length; lia).
      cbn [skipn app]. apply IH. simpl in Hf. lia.
Qed.

Lemma binary_b2z flat : is_binary flat = true -> map Z.b2z (map (Z.eqb 1) flat) = flat.
Proof.
  unfold is_binary. induction flat as [|d flat IH]; intros H; [reflexivity|]. cbn [forallb] in H.
  apply andb_true_iff in H. destruct H as [Hd H]. cbn [map]. rewrite IH by exact H. f_equal.
  apply orb_true_iff in Hd. destruct Hd as [Hd|Hd]; apply Z.eqb_eq in Hd; subst; reflexivity.
Qed.

(* _unpack_digits(_pack_digits(digits)) = digits on both the bit-packed and the general path *)
Theorem pack_digits_roundtrip itemsize flat : (0 < itemsize)%nat ->
  Forall (fun d => 0 <= d < 256 ^ Z.of_nat itemsize) flat ->
  unpack_digits itemsize (length flat) (pack_digits itemsize flat) = flat.
Proof.
  intros Hs Hr. unfold pack_digits, unpack_digits. destruct (is_binary flat) eqn:Eb; cbn [fst snd].
  - rewrite unhex_hex.
    pose proof (packbits_be_roundtrip (length flat) (map (Z.eqb 1) flat)) as H.
    rewrite map_length in H. rewrite H by lia. apply binary_b2z. exact Eb.
  - rewrite unhex_hex, chunks_flat by (try exact Hs; lia). rewrite map_map.
    rewrite <- (map_id flat) at 2. apply map_ext_in. intros v Hin.
    apply le_bytes_roundtrip. rewrite Forall_forall in Hr. apply Hr. exact Hin.
Qed.

(* the bit-packed path is taken exactly for 0/1 digits *)
Theorem pack_digits_binary_flag itemsize flat : snd (pack_digits itemsize flat) = is_binary flat.
Proof. unfold pack_digits. destruct (is_binary flat); reflexivity. Qed.

(* reshape *)
Lemma unflat2_concat width rows : Forall (fun row => length row = width) rows ->
  forall rest, unflat2 (length rows) width (concat rows ++ rest) = rows.
Proof.
  induction 1 as [|row rows Hr _ IH]; intros rest; [reflexivity|].
  cbn [length unflat2 concat]. rewrite <- app_assoc.
  rewrite firstn_app, Hr, Nat.sub_diag, firstn_all2 by lia. cbn [firstn]. rewrite app_nil_r. f_equal.
  rewrite skipn_app, Hr, Nat.sub_diag, skipn_all2 by lia. cbn [skipn app]. apply IH.
Qed.

Lemma concat_length_const {A} width (rows : list (list A)) : Forall (fun row => length row = width) rows ->
  length (concat rows) = (length rows * width)%nat.
Proof. induction 1 as [|row rows Hr _ IH]; [reflexivity|]. cbn [concat length]. rewrite app_length, IH, Hr. lia. Qed.

Lemma unflat3_flatten inst nq data :
  Forall (fun rep => length rep = inst /\ Forall (fun row => length row = nq) rep) data ->
  unflat3 (length data) inst nq (flatten data) = data.
Proof.
  unfold flatten. induction 1 as [|rep data [Hi Hq] _ IH]; [reflexivity|].
  cbn [length unflat3 map concat].
  assert (Hl : length (concat rep) = (inst * nq)%nat) by (rewrite (concat_length_const nq) by exact Hq; rewrite Hi; reflexivity).
  rewrite firstn_app, Hl, Nat.sub_diag, firstn_all2 by lia. cbn [firstn]. rewrite app_nil_r.
  rewrite skipn_app, Hl, Nat.sub_diag, skipn_all2 by lia. cbn [skipn app]. rewrite IH. f_equal.
  rewrite <- Hi. rewrite <- (app_nil_r (concat rep)). apply unflat2_concat. exact Hq.
Qed.

Lemma rec_wf_Forall r : rec_wf r = true ->
  Forall (fun rep => length rep = r_inst r /\ Forall (fun row => length row = r_nq r) rep) (r_data r).
Proof.
  unfold rec_wf. rewrite forallb_forall. intros H. apply Forall_forall. intros rep Hin.
  specialize (H rep Hin). unfold rep_wf in H. apply andb_true_iff in H. destruct H as [H1 H2].
  apply Nat.eqb_eq in H1. split; [exact H1|]. apply Forall_forall. intros row Hr.
  rewrite forallb_forall in H2. specialize (H2 row Hr). apply Nat.eqb_eq. exact H2.
Qed.

Lemma flatten_length r : rec_wf r = true -> length (flatten (r_data r)) = (length (r_data r) * r_inst r * r_nq r)%nat.
Proof.
  intros H. apply rec_wf_Forall in H. unfold flatten. induction H as [|rep data [Hi Hq] _ IH]; [reflexivity|].
  cbn [map concat length]. rewrite app_length, IH, (concat_length_const (r_nq r)) by exact Hq. rewrite Hi. lia.
Qed.

(* a record written to JSON and read back is the same array: shape, order and digits *)
Theorem rec_json_roundtrip itemsize r : (0 < itemsize)%nat -> rec_wf r = true ->
  Forall (fun d => 0 <= d < 256 ^ Z.of_nat itemsize) (flatten (r_data r)) ->
  rec_of_json itemsize (rec_to_json itemsize r) = r.
Proof.
  intros Hs Hwf Hr. unfold rec_of_json, rec_to_json.
  rewrite <- flatten_length by exact Hwf. rewrite pack_digits_roundtrip by assumption.
  rewrite unflat3_flatten by (apply rec_wf_Forall; exact Hwf). destruct r; reflexivity.
Qed.

(* ------------------------------------------------------------------ sampler defaults *)
Section SamplerProofs.
  Context {Prog Sweep Res : Type} (run_sweep : Prog -> Sweep -> nat -> list Res).

  Theorem normalize_batch_args_spec n none params reps ps rs :
    normalize_batch_args (Sweep := Sweep) n none params reps = Some (ps, rs) <->
    ps = match params with None => repeat none n | Some l => l end /\
    rs = match reps with inl r => repeat r n | inr l => l end /\
    length ps = n /\ length rs = n.
  Proof.
    unfold normalize_batch_args.
    set (ps0 := match params with None => repeat none n | Some l => l end).
    set (rs0 := match reps with inl r => repeat r n | inr l => l end).
    destruct (Nat.eqb (length ps0) n) eqn:E1; cbn [negb].
    - destruct (Nat.eqb (length rs0) n) eqn:E2; cbn [negb].
      + apply Nat.eqb_eq in E1, E2. split.
        * intros H. injection H as <- <-. auto.
        * intros (-> & -> & _ & _). reflexivity.
      + apply Nat.eqb_neq in E2. split; [discriminate|]. intros (_ & -> & _ & H). contradiction.
    - apply Nat.eqb_neq in E1. split; [discriminate|]. intros (-> & _ & H & _). contradiction.
  Qed.

  (* run_batch: one result list per program, in program order, each the run_sweep of its own sweep and repetitions *)
  Theorem run_batch_spec none programs params reps out dp ds :
    run_batch run_sweep none programs params reps = Some out ->
    length out = length programs /\
    exists ps rs, normalize_batch_args (length programs) none params reps = Some (ps, rs) /\
      forall i, (i < length programs)%nat ->
        nth i out [] = run_sweep (nth i programs dp) (nth i ps ds) (nth i rs 0%nat).
  Proof.
    unfold run_batch. destruct (normalize_batch_args (length programs) none params reps) as [[ps rs]|] eqn:E; [|discriminate].
    intros H. injection H as <-. apply normalize_batch_args_spec in E. destruct E as (_ & _ & Hp & Hr).
    rewrite map_length, !combine_length, Hp, Hr, !Nat.min_id. split; [reflexivity|].
    exists ps, rs. split; [reflexivity|]. intros i Hi.
    rewrite (nth_indep _ [] ((fun cpr => run_sweep (fst (fst cpr)) (snd (fst cpr)) (snd cpr)) (dp, ds, 0%nat)))
      by (rewrite map_length, !combine_length, Hp, Hr, !Nat.min_id; exact Hi).
    rewrite (map_nth (fun cpr => run_sweep (fst (fst cpr)) (snd (fst cpr)) (snd cpr))).
    rewrite combine_nth by (rewrite combine_length, Hp, Hr, Nat.min_id; reflexivity).
    rewrite combine_nth by (symmetry; exact Hp). reflexivity.
  Qed.

  Theorem run_batch_defined none programs params reps :
    run_batch run_sweep none programs params reps <> None <->
    length (match params with None => repeat none (length programs) | Some l => l end) = length programs /\
    length (match reps with inl r => repeat r (length programs) | inr l => l end) = length programs.
  Proof.
    unfold run_batch. destruct (normalize_batch_args (length programs) none params reps) as [[ps rs]|] eqn:E.
    - apply normalize_batch_args_spec in E. destruct E as (-> & -> & Hp & Hr). split; [auto|discriminate].
    - split; [intros H; exfalso; apply H; reflexivity|]. intros [Hp Hr]. exfalso.
      assert (X : normalize_batch_args (length programs) none params reps = Some (_, _))
        by (apply normalize_batch_args_spec; repeat split; eassumption).
      rewrite X in E. discriminate.
  Qed.

  (* run is the first result of run_sweep *)
  Theorem run_is_first d program p reps r rest :
    run_sweep program p reps = r :: rest -> run run_sweep d program p reps = r.
  Proof. unfold run. intros ->. reflexivity. Qed.

  (* sample: sweep-major, then resolver, then repetition *)
  Theorem sample_rows_app {Row PV} (resolvers : Sweep -> list PV) (rows_of : Res -> list Row) program s1 s2 reps :
    sample_rows run_sweep resolvers rows_of program (s1 ++ s2) reps =
    sample_rows run_sweep resolvers rows_of program s1 reps ++ sample_rows run_sweep resolvers rows_of program s2 reps.
  Proof. unfold sample_rows. apply flat_map_app. Qed.

  Theorem sample_rows_one {Row PV} (resolvers : Sweep -> list PV) (rows_of : Res -> list Row) program sw reps :
    sample_rows run_sweep resolvers rows_of program [sw] reps =
    flat_map (fun pr => map (fun row => (fst pr, row)) (rows_of (snd pr)))
             (combine (resolvers sw) (run_sweep program sw reps)).
  Proof. unfold sample_rows. simpl. apply app_nil_r. Qed.
End SamplerProofs.

(* ------------------------------------------------------------------ summary *)
(* every flattened view of a once-measured key is the stated function of the same rows *)
Theorem result_views_agree res k r :
  all_single res = true -> lookup k res = Some r -> rec_wf r = true ->
  let rows := rows_of r in
  rows = map (fun rep => hd [] rep) (r_data r) /\
  (exists ms, measurements res = Some ms /\ lookup k ms = Some (r_nq r, rows)) /\
  (exists df, dataframe res = Some df /\ lookup k df = Some (map df_value rows)) /\
  (forall row, In row rows -> binary_row row ->
     df_value row = bits_to_int (map truthy row) /\ digits_to_int row (repeat 2 (length row)) = Some (df_value row)) /\
  (Forall binary_row rows -> exists h, histogram res k BaseNone = Some h /\
     forall v, count Z.eqb v h = occurrences Z.eqb v (map df_value rows)) /\
  (forall A (eqb : A -> A -> bool), (forall a b, eqb a b = true <-> a = b) ->
     forall (f : list Z -> option A) vals, mapM f rows = Some vals ->
     exists h, histogram_fold eqb res k f = Some h /\ forall v, count eqb v h = occurrences eqb v vals).
Proof.
  intros Hs Hl Hwf rows. subst rows.
  destruct (rows_of_single r Hwf (single_inst res k r Hs Hl)) as [Hrows _].
  split; [exact Hrows|]. split; [apply lookup_measurements; assumption|].
  split; [apply lookup_dataframe; assumption|]. split.
  - intros row _ Hb. split; [apply df_value_bits|apply df_value_digits]; exact Hb.
  - split.
    + intros Hb. apply histogram_default_counts; assumption.
    + intros A eqb Heq f vals Hv. apply (histogram_fold_counts eqb Heq res k r f vals); assumption.
Qed.
