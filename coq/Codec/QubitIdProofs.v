(* C16 — proofs about the qubit id codec of Codec/QubitId.v: every qubit of the documented vocabulary is read back
   from its id, for all (signed, arbitrarily large) coordinates; ids of the vocabulary never collide; and the
   statement without the vocabulary restriction is refuted by a named qubit called "3". *)
From Coq Require Import ZArith List Bool Lia.
From Coq Require Decimal DecimalZ DecimalPos.
From VF Require Import Codec.QubitId.
Import ListNotations.
Open Scope Z_scope.

(* the characters '%d' produces *)
Definition dchar (c : Z) : Prop := 48 <= c <= 57 \/ c = 45.

Lemma uint_codes_digits u : Forall (fun c => 48 <= c <= 57) (uint_codes u).
Proof. induction u; simpl; constructor; try assumption; lia. Qed.

Lemma codes_uint_codes u : codes_uint (uint_codes u) = Some u.
Proof. induction u; simpl; try reflexivity; rewrite IHu; reflexivity. Qed.

Lemma uint_codes_nonnil u : u <> Decimal.Nil -> uint_codes u <> [].
Proof. destruct u; simpl; congruence. Qed.

Lemma to_int_nonnil z : match Z.to_int z with Decimal.Pos u | Decimal.Neg u => u <> Decimal.Nil end.
Proof. destruct z; simpl; try discriminate; apply DecimalPos.Unsigned.to_uint_nonnil. Qed.

Lemma digits_value_codes u : u <> Decimal.Nil -> digits_value (uint_codes u) = Some (Z.of_uint u).
Proof.
  intros H. unfold digits_value. destruct (uint_codes u) eqn:E.
  - exfalso. apply (uint_codes_nonnil u H E).
  - rewrite <- E, codes_uint_codes. reflexivity.
Qed.

Lemma dec_dchar z : Forall dchar (dec z).
Proof.
  unfold dec. destruct (Z.to_int z) as [u|u].
  - eapply Forall_impl; [|apply uint_codes_digits]. intros c Hc. left. exact Hc.
  - constructor; [right; reflexivity|]. eapply Forall_impl; [|apply uint_codes_digits]. intros c Hc. left. exact Hc.
Qed.

Lemma dec_nonempty z : dec z <> [].
Proof.
  unfold dec. pose proof (to_int_nonnil z) as H. revert H. destruct (Z.to_int z) as [u|u]; intros H; [|discriminate].
  apply uint_codes_nonnil. exact H.
Qed.

Lemma dec_cons z : exists c r, dec z = c :: r /\ dchar c.
Proof.
  pose proof (dec_dchar z) as F. pose proof (dec_nonempty z) as N.
  destruct (dec z) as [|c r]; [congruence|]. exists c, r. split; [reflexivity|]. inversion F; assumption.
Qed.

(* the regular-expression group and int() read '%d' back *)
Lemma signed_digits_dec z : signed_digits (dec z) = Some z.
Proof.
  unfold dec. pose proof (DecimalZ.of_to z) as Hz. pose proof (to_int_nonnil z) as Hn. revert Hz Hn.
  destruct (Z.to_int z) as [u|u]; intros Hz Hn; simpl in Hz.
  - pose proof (digits_value_codes u Hn) as Hd. pose proof (uint_codes_digits u) as F.
    unfold signed_digits. destruct (uint_codes u) as [|c r] eqn:E.
    + exfalso. apply (uint_codes_nonnil u Hn E).
    + pose proof (Forall_inv F) as Hc; simpl in Hc. replace (c =? ch_minus) with false.
      * rewrite Hd, Hz. reflexivity.
      * symmetry. apply Z.eqb_neq. unfold ch_minus. lia.
  - unfold signed_digits. replace (ch_minus =? ch_minus) with true by reflexivity.
    rewrite (digits_value_codes u Hn). simpl. rewrite Hz. reflexivity.
Qed.

Lemma lstrip_id s : Forall (fun c => is_space c = false) s -> lstrip s = s.
Proof. intros F. destruct s as [|c r]; [reflexivity|]. simpl. pose proof (Forall_inv F) as Hc; simpl in Hc. rewrite Hc. reflexivity. Qed.

Lemma strip_id s : Forall (fun c => is_space c = false) s -> strip s = s.
Proof.
  intros F. unfold strip. rewrite (lstrip_id s F). rewrite lstrip_id.
  - apply rev_involutive.
  - apply Forall_rev. exact F.
Qed.

Lemma dchar_not_space c : dchar c -> is_space c = false.
Proof.
  intros [H|H]; unfold is_space.
  - replace (c =? 32) with false by (symmetry; apply Z.eqb_neq; lia).
    replace (c <=? 13) with false by (symmetry; apply Z.leb_gt; lia).
    replace (c <=? 31) with false by (symmetry; apply Z.leb_gt; lia).
    rewrite !andb_false_r. reflexivity.
  - subst. reflexivity.
Qed.

Lemma py_int_dec z : py_int (dec z) = Some z.
Proof.
  unfold py_int. rewrite strip_id.
  2:{ eapply Forall_impl; [|apply dec_dchar]. intros c Hc. apply dchar_not_space. exact Hc. }
  pose proof (signed_digits_dec z) as Hs. unfold signed_digits in Hs.
  destruct (dec_cons z) as (c & r & E & Hc). rewrite E in *.
  destruct (c =? ch_minus) eqn:Em; [exact Hs|].
  replace (c =? ch_plus) with false; [exact Hs|].
  symmetry. apply Z.eqb_neq. unfold ch_plus. destruct Hc as [Hc|Hc]; [lia|]. apply Z.eqb_neq in Em. unfold ch_minus in Em. lia.
Qed.

(* split('_') *)
Lemma split_us_no s : ~ In ch_us s -> split_us s = [s].
Proof.
  induction s as [|c r IH]; intros H; [reflexivity|]. simpl.
  replace (c =? ch_us) with false.
  - rewrite IH; [reflexivity|]. intros Hin. apply H. right. exact Hin.
  - symmetry. apply Z.eqb_neq. intros Heq. apply H. left. exact Heq.
Qed.

Lemma split_us_app a b : ~ In ch_us a -> split_us (a ++ ch_us :: b) = a :: split_us b.
Proof.
  induction a as [|c r IH]; intros H.
  - simpl. replace (ch_us =? ch_us) with true by reflexivity. reflexivity.
  - simpl. replace (c =? ch_us) with false.
    + rewrite IH; [reflexivity|]. intros Hin. apply H. right. exact Hin.
    + symmetry. apply Z.eqb_neq. intros Heq. apply H. left. exact Heq.
Qed.

Lemma dchar_no c : dchar c -> c <> ch_us /\ c <> ch_c /\ c <> ch_q /\ c <> ch_nl.
Proof. unfold dchar, ch_us, ch_c, ch_q, ch_nl. lia. Qed.

Lemma dec_no_us z : ~ In ch_us (dec z).
Proof.
  intros Hin. pose proof (dec_dchar z) as F. rewrite Forall_forall in F. apply F in Hin. apply dchar_no in Hin. tauto.
Qed.

Lemma drop_final_newline_id s : Forall (fun c => c <> ch_nl) s -> drop_final_newline s = s.
Proof.
  intros F. unfold drop_final_newline. apply Forall_rev in F. destruct (rev s) as [|c r]; [reflexivity|].
  pose proof (Forall_inv F) as Hc; simpl in Hc. replace (c =? ch_nl) with false; [reflexivity|]. symmetry. apply Z.eqb_neq. exact Hc.
Qed.

Lemma grid_of_id_dec r c : grid_of_id (dec r ++ ch_us :: dec c) = Some (r, c).
Proof.
  unfold grid_of_id.
  assert (Hq : strip_q (dec r ++ ch_us :: dec c) = dec r ++ ch_us :: dec c).
  { destruct (dec_cons r) as (c0 & r0 & E & Hc0). rewrite E. unfold strip_q. simpl.
    destruct (c0 =? ch_q) eqn:Eq; [|reflexivity].
    exfalso. apply Z.eqb_eq in Eq. apply dchar_no in Hc0. tauto. }
  rewrite Hq. clear Hq. rewrite drop_final_newline_id.
  - rewrite split_us_app by apply dec_no_us. rewrite split_us_no by apply dec_no_us.
    rewrite !signed_digits_dec. reflexivity.
  - apply Forall_app. split.
    + eapply Forall_impl; [|apply dec_dchar]. intros x Hx. apply dchar_no in Hx. tauto.
    + constructor; [unfold ch_us, ch_nl; lia|]. eapply Forall_impl; [|apply dec_dchar]. intros x Hx. apply dchar_no in Hx. tauto.
Qed.

Lemma has_c_prefix_dec z t : has_c_prefix (dec z ++ t) = false.
Proof.
  destruct (dec_cons z) as (c0 & r0 & E & Hc0). rewrite E. simpl. destruct (r0 ++ t); [reflexivity|].
  replace (c0 =? ch_c) with false; [reflexivity|]. symmetry. apply Z.eqb_neq. apply dchar_no in Hc0. tauto.
Qed.

Lemma has_c_prefix_no_us s : ~ In ch_us s -> has_c_prefix s = false.
Proof.
  intros H. destruct s as [|c0 [|c1 r]]; try reflexivity. simpl.
  replace (c1 =? ch_us) with false; [apply andb_false_r|]. symmetry. apply Z.eqb_neq. intros Heq. apply H. right. left. exact Heq.
Qed.

(* ---- round trips, one kind at a time ---- *)
Theorem from_to_grid r c : from_id (to_id (Grid r c)) = Grid r c.
Proof.
  simpl to_id. unfold from_id. rewrite has_c_prefix_dec.
  rewrite split_us_app by apply dec_no_us. rewrite split_us_no by apply dec_no_us.
  rewrite grid_of_id_dec. reflexivity.
Qed.

Theorem from_to_line x : from_id (to_id (Line x)) = Line x.
Proof.
  simpl to_id. unfold from_id. rewrite <- (app_nil_r (dec x)) at 1. rewrite has_c_prefix_dec.
  rewrite split_us_no by apply dec_no_us. unfold atom_of_id. rewrite py_int_dec. reflexivity.
Qed.

Lemma split_c_prefix t : split_us (ch_c :: ch_us :: t) = [ch_c] :: split_us t.
Proof. reflexivity. Qed.

Theorem from_to_coupler_line x y : from_id (to_id (Coupler (Line x) (Line y))) = Coupler (Line x) (Line y).
Proof.
  simpl to_id. unfold from_id. replace (has_c_prefix (ch_c :: ch_us :: dec x ++ ch_us :: dec y)) with true by reflexivity.
  rewrite split_c_prefix. rewrite split_us_app by apply dec_no_us. rewrite split_us_no by apply dec_no_us.
  unfold atom_of_id. rewrite !py_int_dec. reflexivity.
Qed.

Theorem from_to_coupler_grid r1 c1 r2 c2 :
  from_id (to_id (Coupler (Grid r1 c1) (Grid r2 c2))) = Coupler (Grid r1 c1) (Grid r2 c2).
Proof.
  simpl to_id. unfold from_id.
  replace (has_c_prefix (ch_c :: ch_us :: (dec r1 ++ ch_us :: dec c1) ++ ch_us :: dec r2 ++ ch_us :: dec c2)) with true by reflexivity.
  rewrite split_c_prefix. rewrite <- app_assoc. rewrite <- app_comm_cons.
  rewrite split_us_app by apply dec_no_us. rewrite split_us_app by apply dec_no_us.
  rewrite split_us_app by apply dec_no_us. rewrite split_us_no by apply dec_no_us.
  rewrite !grid_of_id_dec. reflexivity.
Qed.

Theorem from_named s : plain_name s -> from_id s = Named s.
Proof.
  intros [Hu Hi]. unfold from_id. rewrite (has_c_prefix_no_us s Hu). rewrite (split_us_no s Hu).
  unfold atom_of_id. rewrite Hi. reflexivity.
Qed.

Theorem from_to_coupler_named a b : plain_name a -> plain_name b ->
  from_id (to_id (Coupler (Named a) (Named b))) = Coupler (Named a) (Named b).
Proof.
  intros [Hua Hia] [Hub Hib]. simpl to_id. unfold from_id.
  replace (has_c_prefix (ch_c :: ch_us :: a ++ ch_us :: b)) with true by reflexivity.
  rewrite split_c_prefix. rewrite (split_us_app a b Hua). rewrite (split_us_no b Hub).
  unfold atom_of_id. rewrite Hia, Hib. reflexivity.
Qed.

(* ---- the vocabulary as a whole ---- *)
Theorem qubit_id_roundtrip q : supported q -> from_id (to_id q) = q.
Proof.
  intros H. destruct H.
  - apply from_to_grid.
  - apply from_to_line.
  - simpl. apply from_named. assumption.
  - apply from_to_coupler_line.
  - apply from_to_coupler_grid.
  - apply from_to_coupler_named; assumption.
Qed.

Theorem qubit_id_injective q1 q2 : supported q1 -> supported q2 -> to_id q1 = to_id q2 -> q1 = q2.
Proof.
  intros H1 H2 E. rewrite <- (qubit_id_roundtrip q1 H1), <- (qubit_id_roundtrip q2 H2), E. reflexivity.
Qed.

(* the hypotheses are satisfiable: a coupler between the named qubits "a" and "x-1" *)
Example supported_example : supported (Coupler (Named [97]) (Named [120; 45; 49])).
Proof.
  apply sup_coupler_named; split; try reflexivity; unfold ch_us; simpl; intros H; repeat (destruct H as [H|H]; [discriminate H|]); exact H.
Qed.

(* negative coordinates are part of the statement: the id of LineQubit(-12) / GridQubit(-3, 4) *)
Example dec_negative : to_id (Line (-12)) = [45; 49; 50] /\ to_id (Grid (-3) 4) = [45; 51; 95; 52].
Proof. split; reflexivity. Qed.

(* without the restriction to the vocabulary the round trip is false: NamedQubit('3') is read back as LineQubit(3) *)
Theorem qubit_id_roundtrip_refuted : exists q, from_id (to_id q) <> q.
Proof. exists (Named [51]). vm_compute. discriminate. Qed.
