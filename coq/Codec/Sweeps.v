(* C10 — model of cirq/study/sweeps.py (definitions only; proofs in SweepsProofs.v).

   A sweep is a description of a finite list of assignments (key, value) list.  Values are exact
   rationals: every Python float is one, so Points/ListSweep values are compared exactly and only the
   Linspace arithmetic (done in binary64 by the code, exactly here) is compared with a tolerance.

   Shape of the code that is kept: __len__ is computed from the factor lengths (never from the
   iteration); iteration is param_tuples(); sweep[i] normalises a negative index and takes the i-th
   element of the iteration; sweep[a:b:c] builds the {sweep index -> slice position} dictionary from
   range(n)[slice], walks the iteration once and stores hits at their slice position.
   Constructor errors (duplicate keys, ZipLongest of an empty sweep, Concat() / Concat of different
   keys) are the predicate [wf]. *)
From Coq Require Import String ZArith QArith List Bool.
Import ListNotations.

Definition key := string.
Definition assign := list (key * Q).

Inductive sweep : Type :=
| Unit
| Points (k : key) (vs : list Q)
| Linspace (k : key) (a b : Q) (n : nat)
| Product (l : list sweep)
| Zip (l : list sweep)
| ZipLongest (l : list sweep)
| Concat (l : list sweep)
| ListSweep (rs : list assign).

(* ---- lengths -------------------------------------------------------------------------- *)
Definition prodl (l : list nat) : nat := fold_right Nat.mul 1%nat l.
Definition suml (l : list nat) : nat := fold_right Nat.add 0%nat l.
Definition minl (l : list nat) : nat :=
  match l with [] => 0%nat | x :: r => fold_right Nat.min x r end.
Definition maxl (l : list nat) : nat := fold_right Nat.max 0%nat l.

Fixpoint len (s : sweep) : nat :=
  match s with
  | Unit => 1%nat
  | Points _ vs => length vs
  | Linspace _ _ _ n => n
  | Product l => prodl (map len l)
  | Zip l => minl (map len l)
  | ZipLongest l => maxl (map len l)
  | Concat l => suml (map len l)
  | ListSweep rs => length rs
  end.

(* ---- keys ----------------------------------------------------------------------------- *)
Fixpoint keys (s : sweep) : list key :=
  match s with
  | Unit => []
  | Points k _ => [k]
  | Linspace k _ _ _ => [k]
  | Product l => concat (map keys l)
  | Zip l => concat (map keys l)
  | ZipLongest l => concat (map keys l)
  | Concat l => match map keys l with [] => [] | ks :: _ => ks end
  | ListSweep rs => match rs with [] => [] | r :: _ => map fst r end
  end.

(* ---- iteration (param_tuples) ---------------------------------------------------------- *)
(* Linspace._values: start if length = 1, else start*(1-p) + stop*p with p = i/(length-1) *)
Definition lin_value (a b : Q) (n i : nat) : Q :=
  if Nat.eqb n 1%nat then a
  else let p := inject_Z (Z.of_nat i) / inject_Z (Z.of_nat (n - 1)%nat) in a * (1 - p) + b * p.

(* itertools.product over the factor iterators followed by chaining each tuple: the last factor varies fastest *)
Fixpoint prod_all (ls : list (list assign)) : list assign :=
  match ls with
  | [] => [[]]
  | l :: rest => flat_map (fun x => map (fun y => x ++ y) (prod_all rest)) l
  end.

(* zip over the factor iterators followed by chaining: stops with the shortest; zip() of nothing yields nothing *)
Fixpoint zipw (a b : list assign) : list assign :=
  match a, b with
  | x :: a', y :: b' => (x ++ y) :: zipw a' b'
  | _, _ => []
  end.
Fixpoint zip_all (ls : list (list assign)) : list assign :=
  match ls with
  | [] => []
  | [l] => l
  | l :: rest => zipw l (zip_all rest)
  end.

(* ZipLongest: every factor repeats its last value, the zip is cut at the longest length *)
Definition pad (n : nat) (l : list assign) : list assign := l ++ repeat (last l []) (n - length l).
Definition ziplongest_all (ls : list (list assign)) : list assign :=
  zip_all (map (pad (maxl (map (@length assign) ls))) ls).

Fixpoint iter (s : sweep) : list assign :=
  match s with
  | Unit => [[]]
  | Points k vs => map (fun v => [(k, v)]) vs
  | Linspace k a b n => map (fun i => [(k, lin_value a b n i)]) (seq 0%nat n)
  | Product l => prod_all (map iter l)
  | Zip l => zip_all (map iter l)
  | ZipLongest l => ziplongest_all (map iter l)
  | Concat l => concat (map iter l)
  | ListSweep rs => rs
  end.

(* ---- constructor validity -------------------------------------------------------------- *)
Fixpoint mem (k : key) (l : list key) : bool :=
  match l with [] => false | x :: r => String.eqb k x || mem k r end.
Fixpoint nodupb (l : list key) : bool :=
  match l with [] => true | x :: r => negb (mem x r) && nodupb r end.
Fixpoint keys_eqb (a b : list key) : bool :=
  match a, b with
  | [], [] => true
  | x :: a', y :: b' => String.eqb x y && keys_eqb a' b'
  | _, _ => false
  end.

Fixpoint wf (s : sweep) : bool :=
  match s with
  | Product l => forallb wf l && nodupb (concat (map keys l))
  | Zip l => forallb wf l && nodupb (concat (map keys l))
  | ZipLongest l => forallb wf l && nodupb (concat (map keys l))
                    && forallb (fun x => negb (Nat.eqb (len x) 0%nat)) l
  | Concat l => forallb wf l &&
                match l with
                | [] => false
                | x :: r => forallb (fun y => keys_eqb (keys y) (keys x)) r
                end
  | _ => true
  end.

(* every resolver of a ListSweep assigns the same keys (documented requirement, not checked by Cirq) *)
Fixpoint uniform (s : sweep) : bool :=
  match s with
  | Product l | Zip l | ZipLongest l | Concat l => forallb uniform l
  | ListSweep rs => match rs with [] => true | r :: rest => forallb (fun x => keys_eqb (map fst x) (map fst r)) rest end
  | _ => true
  end.

Local Open Scope Z_scope.

(* ---- integer indexing ------------------------------------------------------------------ *)
(* None = IndexError *)
Definition getitem (s : sweep) (i : Z) : option assign :=
  let n := Z.of_nat (len s) in
  if (i <? - n)%Z || (i >=? n)%Z then None
  else nth_error (iter s) (Z.to_nat (if (i <? 0)%Z then i + n else i)%Z).

(* ---- slices ----------------------------------------------------------------------------- *)
Record slice := mkSlice { sl_start : option Z; sl_stop : option Z; sl_step : option Z }.

(* CPython's slice.indices(n): (start, stop, step), None when step = 0 (ValueError) *)
Definition slice_bounds (n : Z) (sl : slice) : option (Z * Z * Z) :=
  let step := match sl_step sl with None => 1 | Some k => k end in
  if (step =? 0)%Z then None
  else
    let neg := (step <? 0)%Z in
    let lower := if neg then (-1) else 0 in
    let upper := if neg then n - 1 else n in
    let clamp v := if (v <? 0)%Z then Z.max (v + n) lower else Z.min v upper in
    let start := match sl_start sl with None => if neg then upper else lower | Some v => clamp v end in
    let stop := match sl_stop sl with None => if neg then lower else upper | Some v => clamp v end in
    Some (start, stop, step)%Z.

(* list(range(start, stop, step)) for step <> 0: CPython computes the number of elements in closed form
   (get_len_of_range) and the i-th element as start + i*step; no fuel is needed *)
Definition range_count (start stop step : Z) : Z :=
  if 0 <? step then (if start <? stop then (stop - start - 1) / step + 1 else 0)
  else (if stop <? start then (start - stop - 1) / (- step) + 1 else 0).
Definition range_list (start stop step : Z) : list Z :=
  map (fun i => start + Z.of_nat i * step) (seq 0%nat (Z.to_nat (range_count start stop step))).

(* range(n)[slice] as a list of indices *)
Definition slice_indices (n : nat) (sl : slice) : option (list nat) :=
  match slice_bounds (Z.of_nat n) sl with
  | None => None
  | Some (start, stop, step) => Some (map Z.to_nat (range_list start stop step))
  end.

(* the dictionary {sweep_i: slice_i for slice_i, sweep_i in enumerate(range(n)[val])} *)
Definition inds_map (idxs : list nat) : list (nat * nat) := combine idxs (seq 0%nat (length idxs)).
Fixpoint lookup (m : list (nat * nat)) (i : nat) : option nat :=
  match m with
  | [] => None
  | (k, v) :: r => if Nat.eqb k i then Some v else lookup r i
  end.
Fixpoint set_nth {A} (l : list A) (j : nat) (x : A) : list A :=
  match l, j with
  | [], _ => []
  | _ :: r, O => x :: r
  | y :: r, S j' => y :: set_nth r j' x
  end.
Definition walk_step (m : list (nat * nat)) (res : list assign) (p : nat * assign) : list assign :=
  match lookup m (fst p) with Some j => set_nth res j (snd p) | None => res end.
Definition slice_walk (m : list (nat * nat)) (items : list assign) : list assign :=
  fold_left (walk_step m) (combine (seq 0%nat (length items)) items) (repeat [] (length m)).

(* None = ValueError (zero step) *)
Definition getslice (s : sweep) (sl : slice) : option sweep :=
  match slice_indices (len s) sl with
  | None => None
  | Some idxs => Some (ListSweep (slice_walk (inds_map idxs) (iter s)))
  end.

(* specification of list slicing used by the theorems: pick the listed positions *)
Definition pick {A} (d : A) (l : list A) (idxs : list nat) : list A := map (fun i => nth i l d) idxs.

(* ---- what the harness compares: everything observable of a sweep ------------------------ *)
Record observed := mkObs {
  o_len : nat; o_keys : list key; o_iter : list assign }.
Definition observe (s : sweep) : option observed :=
  if wf s then Some (mkObs (len s) (keys s) (iter s)) else None.
