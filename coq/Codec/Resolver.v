(* C10 — model of cirq/study/resolver.py and cirq/study/flatten_expressions.py
   (definitions only; proofs in ResolverProofs.v).

   Expressions are sympy trees as ParamResolver.value_of sees them: numbers, symbols, and applications
   of a head to arguments.  The heads Add, Mul and two-argument Pow are the ones value_of special-cases
   (it recurses into the arguments and recombines with Python arithmetic); every other head (functions,
   relations ...) takes the slow path: one simultaneous sympy substitution of the whole expression,
   repeated until it no longer changes.

   Numbers are exact rationals.  The meaning of heads is an arbitrary interpretation [interp]: no theorem
   uses a ring law, so they hold for real/complex arithmetic, numpy's float_power, or anything else. *)
From Coq Require Import String ZArith QArith Qround Qabs List Bool.
Import ListNotations.
Local Open Scope nat_scope.

Inductive head := HAdd | HMul | HPow | HFn (g : nat).

Inductive expr : Type :=
| Num (q : Q)
| Sym (s : string)
| App (h : head) (args : list expr).

Notation Add l := (App HAdd l).
Notation Mul l := (App HMul l).
Notation Pow a b := (App HPow [a; b]).

(* ---- value semantics ------------------------------------------------------------------------- *)
Record interp (V : Type) := mkInterp { i_num : Q -> V; i_app : head -> list V -> V }.
Arguments i_num {V}. Arguments i_app {V}.

Fixpoint eval {V} (I : interp V) (env : string -> V) (e : expr) : V :=
  match e with
  | Num q => i_num I q
  | Sym s => env s
  | App h l => i_app I h (map (eval I env) l)
  end.

(* ---- structural equality (sympy's ==) ----------------------------------------------------------- *)
Definition head_eqb (a b : head) : bool :=
  match a, b with
  | HAdd, HAdd | HMul, HMul | HPow, HPow => true
  | HFn g, HFn g' => Nat.eqb g g'
  | _, _ => false
  end.
Definition q_eqb (a b : Q) : bool := Z.eqb (Qnum a) (Qnum b) && Pos.eqb (Qden a) (Qden b).

Fixpoint expr_eqb (a b : expr) : bool :=
  match a, b with
  | Num p, Num q => q_eqb p q
  | Sym s, Sym t => String.eqb s t
  | App h l, App h' l' =>
      head_eqb h h' &&
      (fix go (x y : list expr) : bool :=
         match x, y with
         | [], [] => true
         | u :: x', v :: y' => expr_eqb u v && go x' y'
         | _, _ => false
         end) l l'
  | _, _ => false
  end.

Fixpoint size (e : expr) : nat :=
  match e with
  | App _ l => S (fold_right (fun x acc => size x + acc) 0 l)
  | _ => 1
  end.

(* free symbols, in order of occurrence (cirq.parameter_names is the set of these) *)
Fixpoint free_syms (e : expr) : list string :=
  match e with
  | Num _ => []
  | Sym s => [s]
  | App _ l => flat_map free_syms l
  end.
(* cirq.is_parameterized of a sympy object is True whatever it contains *)
Definition is_parameterized (e : expr) : bool := true.

(* ---- resolvers ---------------------------------------------------------------------------------- *)
(* param_dict: symbol name -> value (numbers are Num, strings are Sym) *)
Definition resolver := list (string * expr).
Fixpoint lookup (r : resolver) (s : string) : option expr :=
  match r with
  | [] => None
  | (k, v) :: r' => if String.eqb k s then Some v else lookup r' s
  end.

(* one simultaneous substitution step = value_of(..., recursive=False) *)
Fixpoint subst (r : resolver) (e : expr) : expr :=
  match e with
  | Num q => Num q
  | Sym s => match lookup r s with Some v => v | None => Sym s end
  | App h l => App h (map (subst r) l)
  end.
Fixpoint subst_iter (n : nat) (r : resolver) (e : expr) : expr :=
  match n with O => e | S m => subst_iter m r (subst r e) end.

(* ---- the specification: substitute until nothing changes ---------------------------------------- *)
(* full expansion with a depth bound; also returns the number of nodes visited (a measure used by
   the proofs).  None: deeper than the bound (for a cyclic resolver: for every bound). *)
Fixpoint mapM {A B} (f : A -> option B) (l : list A) : option (list B) :=
  match l with
  | [] => Some []
  | x :: r => match f x, mapM f r with Some y, Some ys => Some (y :: ys) | _, _ => None end
  end.
Definition sumw (l : list (expr * nat)) : nat := fold_right (fun p acc => snd p + acc) 0 l.

Fixpoint expandw (n : nat) (r : resolver) (e : expr) : option (expr * nat) :=
  match n with
  | O => None
  | S m =>
      match e with
      | Num q => Some (e, 1)
      | Sym s =>
          match lookup r s with
          | None => Some (e, 1)
          | Some v => if expr_eqb v (Sym s) then Some (e, 1)
                      else match expandw m r v with Some (e', w) => Some (e', S w) | None => None end
          end
      | App h l =>
          match mapM (expandw m r) l with
          | Some ps => Some (App h (map fst ps), S (sumw ps))
          | None => None
          end
      end
  end.
Definition expand (n : nat) (r : resolver) (e : expr) : option expr := option_map fst (expandw n r e).
Definition resolves_to (r : resolver) (e e' : expr) : Prop := exists n, expand n r e = Some e'.

(* ---- ParamResolver.value_of(value, recursive=True) ---------------------------------------------- *)
Inductive outcome (A : Type) := Ok (a : A) | Loop | OutOfFuel.
Arguments Ok {A}. Arguments Loop {A}. Arguments OutOfFuel {A}.

(* keys of _deep_eval_map that currently hold the recursion sentinel *)
Inductive vkey := KSym (s : string) | KExpr (e : expr).
Definition vkey_eqb (a b : vkey) : bool :=
  match a, b with
  | KSym s, KSym t => String.eqb s t
  | KExpr e, KExpr e' => expr_eqb e e'
  | _, _ => false
  end.
Fixpoint kmem (k : vkey) (l : list vkey) : bool :=
  match l with [] => false | x :: r => vkey_eqb k x || kmem k r end.

(* the fast paths: isinstance(value, Add) / Mul / (Pow and len(args) == 2) *)
Definition fast (h : head) (l : list expr) : bool :=
  match h with
  | HAdd | HMul => true
  | HPow => Nat.eqb (length l) 2
  | HFn _ => false
  end.

Fixpoint seqM {A B} (f : A -> outcome B) (l : list A) : outcome (list B) :=
  match l with
  | [] => Ok []
  | x :: r => match f x with
              | Ok y => match seqM f r with Ok ys => Ok (y :: ys) | Loop => Loop | OutOfFuel => OutOfFuel end
              | Loop => Loop
              | OutOfFuel => OutOfFuel
              end
  end.

Fixpoint value_of (fuel : nat) (r : resolver) (vis : list vkey) (e : expr) : outcome expr :=
  match fuel with
  | O => OutOfFuel
  | S f =>
      match e with
      | Num q => Ok (Num q)
      | Sym s =>
          match lookup r s with
          | None => Ok (Sym s)                       (* not in the dictionary: returned as a symbol *)
          | Some (Num q) => Ok (Num q)               (* float hit / _resolve_value pass-through *)
          | Some v =>                                (* _value_of_recursive(name) *)
              if kmem (KSym s) vis then Loop
              else if expr_eqb v (Sym s) then Ok (Sym s)
              else value_of f r (KSym s :: vis) v
          end
      | App h l =>
          if fast h l then
            match seqM (value_of f r vis) l with
            | Ok l' => Ok (App h l')
            | Loop => Loop
            | OutOfFuel => OutOfFuel
            end
          else                                       (* _value_of_recursive(expression) *)
            if kmem (KExpr e) vis then Loop
            else let v := subst r e in
                 if expr_eqb v e then Ok e else value_of f r (KExpr e :: vis) v
      end
  end.

(* ---- the same with the memo table _deep_eval_map ---------------------------------------------------------
   In the code one dictionary holds both finished results and the recursion sentinel; here [vis] are the keys holding the
   sentinel (as above) and [memo] the finished ones.  A resolver object keeps its memo across calls, so the state is
   threaded through sequences of queries as well. *)
Definition memo_t := list (vkey * expr).
Fixpoint mlookup (m : memo_t) (k : vkey) : option expr :=
  match m with
  | [] => None
  | (k', v) :: m' => if vkey_eqb k' k then Some v else mlookup m' k
  end.

Fixpoint seqM_m {A B S} (f : S -> A -> outcome B * S) (st : S) (l : list A) : outcome (list B) * S :=
  match l with
  | [] => (Ok [], st)
  | x :: r => match f st x with
              | (Ok y, st1) => match seqM_m f st1 r with
                               | (Ok ys, st2) => (Ok (y :: ys), st2)
                               | (Loop, st2) => (Loop, st2)
                               | (OutOfFuel, st2) => (OutOfFuel, st2)
                               end
              | (Loop, st1) => (Loop, st1)
              | (OutOfFuel, st1) => (OutOfFuel, st1)
              end
  end.

(* _value_of_recursive(key): [self] is the queried value, [v] = value_of(self, recursive=False), [rec] the recursive call *)
Definition recursive_step (rec : memo_t -> list vkey -> expr -> outcome expr * memo_t)
           (memo : memo_t) (vis : list vkey) (k : vkey) (self v : expr) : outcome expr * memo_t :=
  match mlookup memo k with
  | Some a => (Ok a, memo)
  | None =>
      if kmem k vis then (Loop, memo)
      else if expr_eqb v self then (Ok self, (k, self) :: memo)
      else match rec memo (k :: vis) v with
           | (Ok a, memo') => (Ok a, (k, a) :: memo')
           | (Loop, memo') => (Loop, memo')
           | (OutOfFuel, memo') => (OutOfFuel, memo')
           end
  end.

Fixpoint value_of_m (fuel : nat) (r : resolver) (memo : memo_t) (vis : list vkey) (e : expr) : outcome expr * memo_t :=
  match fuel with
  | O => (OutOfFuel, memo)
  | S f =>
      match e with
      | Num q => (Ok (Num q), memo)
      | Sym s =>
          match lookup r s with
          | None => (Ok (Sym s), memo)
          | Some (Num q) => (Ok (Num q), memo)
          | Some v => recursive_step (value_of_m f r) memo vis (KSym s) (Sym s) v
          end
      | App h l =>
          if fast h l then
            match seqM_m (fun st x => value_of_m f r st vis x) memo l with
            | (Ok l', memo') => (Ok (App h l'), memo')
            | (Loop, memo') => (Loop, memo')
            | (OutOfFuel, memo') => (OutOfFuel, memo')
            end
          else recursive_step (value_of_m f r) memo vis (KExpr e) e (subst r e)
      end
  end.

(* a sequence of queries on one resolver object *)
Fixpoint value_of_seq (fuel : nat) (r : resolver) (memo : memo_t) (es : list expr) : list (outcome expr) :=
  match es with
  | [] => []
  | e :: rest => let '(o, memo') := value_of_m fuel r memo [] e in o :: value_of_seq fuel r memo' rest
  end.

(* value_of(value, recursive=False): the fast paths map over the arguments, a symbol is replaced by
   its dictionary entry as is, everything else is one sympy subs *)
Fixpoint value_of_once (r : resolver) (e : expr) : expr :=
  match e with
  | Num q => Num q
  | Sym s => match lookup r s with Some v => v | None => Sym s end
  | App h l => if fast h l then App h (map (value_of_once r) l) else subst r e
  end.

(* ---- ParamResolver._resolve_parameters_(self = r1, resolver = r2, recursive=True) ---------------- *)
Fixpoint mem (s : string) (l : list string) : bool :=
  match l with [] => false | x :: r => String.eqb s x || mem s r end.
Definition dom (r : resolver) : list string := map fst r.

Definition bind {A B} (x : outcome A) (f : A -> outcome B) : outcome B :=
  match x with Ok a => f a | Loop => Loop | OutOfFuel => OutOfFuel end.

(* new_dict = {k: k for k in r2}; update {k: r1.value_of(k)}; then {k: r2.value_of(v)} for every entry *)
Definition compose_keys (r1 r2 : resolver) : list string :=
  dom r2 ++ filter (fun k => negb (mem k (dom r2))) (dom r1).
Definition compose_step (fuel : nat) (r1 r2 : resolver) : outcome resolver :=
  seqM (fun k =>
          bind (if mem k (dom r1) then value_of fuel r1 [] (Sym k) else Ok (Sym k)) (fun v1 =>
          bind (value_of fuel r2 [] v1) (fun v2 => Ok (k, v2))))
       (compose_keys r1 r2).
(* "Resolve down to single-step mappings": ParamResolver()._resolve_parameters_(new_resolver) *)
Definition flatten_resolver (fuel : nat) (r : resolver) : outcome resolver :=
  seqM (fun k => bind (value_of fuel r [] (Sym k)) (fun v => Ok (k, v))) (dom r).
Definition compose (fuel : nat) (r1 r2 : resolver) : outcome resolver :=
  bind (compose_step fuel r1 r2) (fun new =>
  match r1 with [] => Ok new | _ => flatten_resolver fuel new end).

(* ---- cirq.flatten: _ParamFlattener.value_of ------------------------------------------------------- *)
(* param_dict of the flattener: expression -> fresh symbol name, in insertion order.  [name] is sympy's
   printer ('<' + str(expr) + '>', or the symbol's own name); nothing is assumed about it. *)
Definition fmap := list (expr * string).
Fixpoint flookup (m : fmap) (e : expr) : option string :=
  match m with
  | [] => None
  | (k, v) :: m' => if expr_eqb k e then Some v else flookup m' e
  end.
Definition taken (m : fmap) : list string := map snd m.

(* _next_symbol: name, name_1, name_2, ... until unused.  None: out of fuel *)
Fixpoint next_symbol (fuel : nat) (suffix : string -> nat -> string) (base : string) (tk : list string) (k : nat)
  : option string :=
  match fuel with
  | O => None
  | S f => let cand := match k with O => base | _ => suffix base k end in
           if mem cand tk then next_symbol f suffix base tk (S k) else Some cand
  end.

Section Flatten.
  Variable name : expr -> string.
  Variable suffix : string -> nat -> string.

  (* one gate parameter: numbers are kept, everything else becomes a symbol unique to the expression *)
  Definition flatten_one (fuel : nat) (m : fmap) (e : expr) : option (expr * fmap) :=
    match e with
    | Num q => Some (Num q, m)
    | _ => match flookup m e with
           | Some s => Some (Sym s, m)
           | None => match next_symbol fuel suffix (name e) (taken m) 0 with
                     | Some s => Some (Sym s, m ++ [(e, s)])
                     | None => None
                     end
           end
    end.
  (* all parameters of a circuit, in order, sharing one flattener *)
  Fixpoint flatten_all (fuel : nat) (m : fmap) (es : list expr) : option (list expr * fmap) :=
    match es with
    | [] => Some ([], m)
    | e :: rest => match flatten_one fuel m e with
                   | None => None
                   | Some (e', m') => match flatten_all fuel m' rest with
                                      | None => None
                                      | Some (es', m'') => Some (e' :: es', m'')
                                      end
                   end
    end.
End Flatten.

(* ExpressionMap.transform_params for a numeric assignment: new symbol -> value of its formula *)
Definition transform_env {V} (I : interp V) (env : string -> V) (m : fmap) : string -> V :=
  fun s => match find (fun p => String.eqb (snd p) s) m with
           | Some (formula, _) => eval I env formula
           | None => env s
           end.

(* ---- the exact instance used by the correspondence run --------------------------------------------- *)
Definition qsum (l : list Q) : Q := match l with [] => 0%Q | x :: r => fold_left Qplus r x end.
Definition qprod (l : list Q) : Q := match l with [] => 1%Q | x :: r => fold_left Qmult r x end.
(* integer exponents only; other exponents are outside the exact instance (the generator avoids them) *)
Definition qpow (b e : Q) : Q := if Pos.eqb (Qden (Qred e)) 1 then Qpower b (Qnum (Qred e)) else 0%Q.
Definition qfloor (x : Q) : Q := inject_Z (Qfloor x).
Definition qsign (x : Q) : Q := match Qcompare x 0 with Lt => (-1)%Q | Eq => 0%Q | Gt => 1%Q end.
Definition qmax (a b : Q) : Q := if Qle_bool a b then b else a.
Definition qmin (a b : Q) : Q := if Qle_bool a b then a else b.
Definition qapp (h : head) (l : list Q) : Q :=
  match h, l with
  | HAdd, _ => qsum l
  | HMul, _ => qprod l
  | HPow, [b; e] => qpow b e
  | HFn 0, [x] => Qabs.Qabs x
  | HFn 1, x :: r => fold_left qmax r x
  | HFn 2, x :: r => fold_left qmin r x
  | HFn 3, [x] => qfloor x
  | HFn 4, [x] => qsign x
  | _, _ => 0%Q
  end.
Definition QI : interp Q := mkInterp Q (fun q => q) qapp.
