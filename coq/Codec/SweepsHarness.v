(* C10 — comparison functions used by vf/checks/c10.py on the sweep model (no proofs, nothing proved
   depends on this file).  A case carries the sweep, what the implementation showed for it, and a
   tolerance: 0 unless the sweep contains a Linspace (binary64 arithmetic in the code, exact here). *)
From Coq Require Import String ZArith QArith Qabs List Bool.
From VF Require Import Base.Harness Codec.Sweeps.
Import ListNotations.

Definition q_close (tol a b : Q) : bool := Qle_bool (Qabs (a - b)) tol.
Definition assign_eqb (tol : Q) (x y : assign) : bool :=
  list_eqb (fun p q => String.eqb (fst p) (fst q) && q_close tol (snd p) (snd q)) x y.
Definition assigns_eqb (tol : Q) := list_eqb (assign_eqb tol).

Record sweep_case := mkCase {
  c_tol : Q;
  c_sweep : sweep;
  c_obs : option (nat * list key * list assign);          (* None: the constructor raised ValueError *)
  c_gets : list (Z * option assign);                        (* sweep[i]; None: IndexError *)
  c_slices : list (slice * option (list assign)) }.          (* list(sweep[a:b:c]); None: ValueError *)

(* 0 = agree; 1 constructor validity; 2 len; 3 keys; 4 iteration; 5 integer index; 6 slice *)
Definition check_sweep (c : sweep_case) : nat :=
  let s := c_sweep c in
  match observe s, c_obs c with
  | None, None => 0
  | Some o, Some (n, ks, it) =>
      if negb (Nat.eqb (o_len o) n) then 2
      else if negb (keys_eqb (o_keys o) ks) then 3
      else if negb (assigns_eqb (c_tol c) (o_iter o) it) then 4
      else if negb (forallb (fun g => opt_eqb (assign_eqb (c_tol c)) (getitem s (fst g)) (snd g)) (c_gets c)) then 5
      else if negb (forallb (fun g => opt_eqb (assigns_eqb (c_tol c)) (option_map iter (getslice s (fst g))) (snd g))
                      (c_slices c)) then 6
      else 0
  | _, _ => 1
  end%nat.

Fixpoint codes_from (n : nat) (l : list sweep_case) : list (nat * nat) :=
  match l with
  | [] => []
  | c :: r => match check_sweep c with
              | O => codes_from (S n) r
              | k => (n, k) :: codes_from (S n) r
              end
  end.
Definition sweep_failures (l : list sweep_case) : list (nat * nat) := codes_from 0 l.

(* range(n)[slice] alone *)
Definition check_slice_indices (c : nat * slice * option (list nat)) : bool :=
  match c with (n, sl, r) => opt_eqb nl_eqb (slice_indices n sl) r end.
