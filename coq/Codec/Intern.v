(* Model of the constants-table scheme of cirq-google/cirq_google/serialization/circuit_serializer.py
   (CircuitSerializer._serialize_circuit / _serialize_gate_op / _serialize_tag / _serialize_circuit_op and
   _deserialize_constants / _deserialize_circuit / _deserialize_moment), hand-written in the shape of the code.
   Definitions only; proofs are in InternProofs.v.

   Leaves are abstract: Q qubits, G the payload of a gate operation (gate type, arguments, classical controls),
   T tags, P the payload of a circuit operation (repetitions, maps, conditions).  Their wire codecs are compared on
   the real code by the check, not modelled.  `raw_constants` is one Python dict keyed by value equality; here it
   is an association list searched with the derived equality test.  *)
From Coq Require Import List Bool Arith.
Import ListNotations.

Section Intern.
  Variables Q G T P : Type.
  Variable eqQ : Q -> Q -> bool.
  Variable eqG : G -> G -> bool.
  Variable eqT : T -> T -> bool.
  Variable eqP : P -> P -> bool.

  Inductive op :=
  | Gate (g : G) (qs : list Q) (ts : list T)          (* a gate operation with its qubits and tags *)
  | Circ (p : P) (c : circuit)                        (* a CircuitOperation: payload + FrozenCircuit *)
  with moment := Mom (ops : list op) (ts : list T)
  with circuit := Cir (ms : list moment) (ts : list T).

  Section Leqb.
    Context {A : Type} (e : A -> A -> bool).
    Fixpoint leqb (a b : list A) : bool :=
      match a, b with
      | [], [] => true
      | x :: a', y :: b' => e x y && leqb a' b'
      | _, _ => false
      end.
  End Leqb.

  Fixpoint op_eqb (a b : op) {struct a} : bool :=
    match a, b with
    | Gate g qs ts, Gate g' qs' ts' => eqG g g' && leqb eqQ qs qs' && leqb eqT ts ts'
    | Circ p c, Circ p' c' => eqP p p' && circuit_eqb c c'
    | _, _ => false
    end
  with moment_eqb (a b : moment) {struct a} : bool :=
    match a, b with
    | Mom ops ts, Mom ops' ts' =>
        (fix go (l l' : list op) : bool :=
           match l, l' with
           | [], [] => true
           | x :: r, y :: r' => op_eqb x y && go r r'
           | _, _ => false
           end) ops ops' && leqb eqT ts ts'
    end
  with circuit_eqb (a b : circuit) {struct a} : bool :=
    match a, b with
    | Cir ms ts, Cir ms' ts' =>
        (fix go (l l' : list moment) : bool :=
           match l, l' with
           | [], [] => true
           | x :: r, y :: r' => moment_eqb x y && go r r'
           | _, _ => false
           end) ms ms' && leqb eqT ts ts'
    end.

  (* keys of raw_constants *)
  Inductive key := KQ (q : Q) | KT (t : T) | KOp (o : op) | KMom (m : moment) | KCir (c : circuit).
  Definition key_eqb (a b : key) : bool :=
    match a, b with
    | KQ x, KQ y => eqQ x y
    | KT x, KT y => eqT x y
    | KOp x, KOp y => op_eqb x y
    | KMom x, KMom y => moment_eqb x y
    | KCir x, KCir y => circuit_eqb x y
    | _, _ => false
    end.

  (* entries of Program.constants; every reference is an index into the table *)
  Inductive constant :=
  | CQ (q : Q)
  | CT (t : T)
  | COp (g : G) (qidx tidx : list nat)                              (* qubit_constant_index, tag_indices *)
  | CMom (opidx : list nat) (cops : list (P * nat)) (tidx : list nat) (* operation_indices, circuit_operations, tag_indices *)
  | CCir (midx tidx : list nat).                                    (* moment_indices, tag_indices *)

  Record state := mkSt { consts : list constant; raw : list (key * nat) }.

  Fixpoint lookup (k : key) (m : list (key * nat)) : option nat :=
    match m with
    | [] => None
    | (k', i) :: r => if key_eqb k k' then Some i else lookup k r
    end.

  (* constants.append(c); raw_constants[k] = len(constants) - 1 *)
  Definition push (c : constant) (k : key) (st : state) : nat * state :=
    (length (consts st), mkSt (consts st ++ [c]) (raw st ++ [(k, length (consts st))])).

  Section MapS.
    Context {A R : Type} (f : A -> state -> R * state).
    Fixpoint mapS (l : list A) (st : state) : list R * state :=
      match l with
      | [] => ([], st)
      | x :: r => let '(y, s1) := f x st in let '(ys, s2) := mapS r s1 in (y :: ys, s2)
      end.
  End MapS.

  Definition ser_qubit (q : Q) (st : state) : nat * state :=
    match lookup (KQ q) (raw st) with Some i => (i, st) | None => push (CQ q) (KQ q) st end.
  Definition ser_tag (t : T) (st : state) : nat * state :=
    match lookup (KT t) (raw st) with Some i => (i, st) | None => push (CT t) (KT t) st end.

  (* _serialize_gate_op for an operation that is not in the table yet: its qubits, then its tags, are interned
     first; the operation constant is appended after them *)
  Definition ser_gate_new (o : op) (g : G) (qs : list Q) (ts : list T) (st : state) : nat * state :=
    let '(qidx, s1) := mapS ser_qubit qs st in
    let '(tidx, s2) := mapS ser_tag ts s1 in
    push (COp g qidx tidx) (KOp o) s2.

  Definition lefts {A B} (l : list (A + B)) : list A :=
    flat_map (fun x => match x with inl a => [a] | inr _ => [] end) l.
  Definition rights {A B} (l : list (A + B)) : list B :=
    flat_map (fun x => match x with inl _ => [] | inr b => [b] end) l.

  (* one operation of a moment: a table index, or an inline circuit operation referring to its circuit constant *)
  Fixpoint ser_op (o : op) (st : state) {struct o} : (nat + P * nat) * state :=
    match o with
    | Gate g qs ts =>
        match lookup (KOp o) (raw st) with
        | Some i => (inl i, st)
        | None => let '(i, s) := ser_gate_new o g qs ts st in (inl i, s)
        end
    | Circ p c =>
        match lookup (KCir c) (raw st) with
        | Some i => (inr (p, i), st)
        | None =>
            let '(body, s1) := ser_body c st in
            let '(i, s2) := push (CCir (fst body) (snd body)) (KCir c) s1 in
            (inr (p, i), s2)
        end
    end
  with ser_moment (m : moment) (st : state) {struct m} : nat * state :=
    match lookup (KMom m) (raw st) with
    | Some i => (i, st)
    | None =>
        match m with
        | Mom ops ts =>
            let '(refs, s1) := mapS ser_op ops st in
            let '(tidx, s2) := mapS ser_tag ts s1 in
            push (CMom (lefts refs) (rights refs) tidx) (KMom m) s2
        end
    end
  (* _serialize_circuit: moment indices, then the circuit's tags *)
  with ser_body (c : circuit) (st : state) {struct c} : (list nat * list nat) * state :=
    match c with
    | Cir ms ts =>
        let '(midx, s1) := mapS ser_moment ms st in
        let '(tidx, s2) := mapS ser_tag ts s1 in
        ((midx, tidx), s2)
    end.

  Definition empty : state := mkSt [] [].
  (* CircuitSerializer.serialize: the constants table and the top-level Circuit message *)
  Definition serialize (c : circuit) : list constant * (list nat * list nat) :=
    let '(body, st) := ser_body c empty in (consts st, body).
  Definition serialize_state (c : circuit) : state := snd (ser_body c empty).

  (* ---- deserialisation ---- *)
  Inductive value := VQ (q : Q) | VT (t : T) | VOp (o : op) | VMom (m : moment) | VCir (c : circuit).

  Fixpoint mapO {A B} (f : A -> option B) (l : list A) : option (list B) :=
    match l with
    | [] => Some []
    | x :: r => match f x with
                | None => None
                | Some y => match mapO f r with None => None | Some ys => Some (y :: ys) end
                end
    end.

  Definition getQ (vals : list value) (i : nat) : option Q :=
    match nth_error vals i with Some (VQ q) => Some q | _ => None end.
  Definition getT (vals : list value) (i : nat) : option T :=
    match nth_error vals i with Some (VT t) => Some t | _ => None end.
  Definition getOp (vals : list value) (i : nat) : option op :=
    match nth_error vals i with Some (VOp o) => Some o | _ => None end.
  Definition getMom (vals : list value) (i : nat) : option moment :=
    match nth_error vals i with Some (VMom m) => Some m | _ => None end.
  Definition getCir (vals : list value) (i : nat) : option circuit :=
    match nth_error vals i with Some (VCir c) => Some c | _ => None end.
  Definition getCop (vals : list value) (pi : P * nat) : option op :=
    match getCir vals (snd pi) with Some c => Some (Circ (fst pi) c) | None => None end.

  (* _deserialize_circuit / _deserialize_moment: circuit operations come before the indexed operations *)
  Definition decode_body (vals : list value) (body : list nat * list nat) : option circuit :=
    match mapO (getMom vals) (fst body), mapO (getT vals) (snd body) with
    | Some ms, Some ts => Some (Cir ms ts)
    | _, _ => None
    end.
  Definition decode_const (vals : list value) (c : constant) : option value :=
    match c with
    | CQ q => Some (VQ q)
    | CT t => Some (VT t)
    | COp g qidx tidx =>
        match mapO (getQ vals) qidx, mapO (getT vals) tidx with
        | Some qs, Some ts => Some (VOp (Gate g qs ts))
        | _, _ => None
        end
    | CMom opidx cops tidx =>
        match mapO (getCop vals) cops, mapO (getOp vals) opidx, mapO (getT vals) tidx with
        | Some cs, Some gs, Some ts => Some (VMom (Mom (cs ++ gs) ts))
        | _, _, _ => None
        end
    | CCir midx tidx =>
        match decode_body vals (midx, tidx) with Some c => Some (VCir c) | None => None end
    end.
  (* _deserialize_constants: one pass, each entry may only use the entries before it *)
  Definition decode_step (acc : option (list value)) (c : constant) : option (list value) :=
    match acc with
    | None => None
    | Some vals => match decode_const vals c with Some v => Some (vals ++ [v]) | None => None end
    end.
  Definition decode_consts (cs : list constant) : option (list value) := fold_left decode_step cs (Some []).

  Definition deserialize (msg : list constant * (list nat * list nat)) : option circuit :=
    match decode_consts (fst msg) with
    | Some vals => decode_body vals (snd msg)
    | None => None
    end.

  (* the order in which a deserialised moment lists its operations: circuit operations first *)
  Definition is_circ (o : op) : bool := match o with Circ _ _ => true | Gate _ _ _ => false end.
  Fixpoint canon_op (o : op) : op :=
    match o with
    | Gate g qs ts => Gate g qs ts
    | Circ p c => Circ p (canon_circuit c)
    end
  with canon_moment (m : moment) : moment :=
    match m with
    | Mom ops ts =>
        let ops' := map canon_op ops in
        Mom (filter is_circ ops' ++ filter (fun o => negb (is_circ o)) ops') ts
    end
  with canon_circuit (c : circuit) : circuit :=
    match c with Cir ms ts => Cir (map canon_moment ms) ts end.

  (* circuits whose moments already list circuit operations first (recursively) *)
  Fixpoint circ_first_ops (seen_gate : bool) (ops : list op) : bool :=
    match ops with
    | [] => true
    | o :: r => if is_circ o then negb seen_gate && circ_first_ops false r else circ_first_ops true r
    end.

  (* every index stored in constant number i is smaller than i *)
  Definition indices_of (c : constant) : list nat :=
    match c with
    | CQ _ | CT _ => []
    | COp _ qidx tidx => qidx ++ tidx
    | CMom opidx cops tidx => opidx ++ map snd cops ++ tidx
    | CCir midx tidx => midx ++ tidx
    end.
  Fixpoint backward_from (i : nat) (cs : list constant) : bool :=
    match cs with
    | [] => true
    | c :: r => forallb (fun j => Nat.ltb j i) (indices_of c) && backward_from (S i) r
    end.
  Definition backward (msg : list constant * (list nat * list nat)) : bool :=
    backward_from 0 (fst msg) &&
    forallb (fun j => Nat.ltb j (length (fst msg))) (fst (snd msg) ++ snd (snd msg)).
End Intern.

Arguments Gate {Q G T P}. Arguments Circ {Q G T P}. Arguments Mom {Q G T P}. Arguments Cir {Q G T P}.
Arguments KQ {Q G T P}. Arguments KT {Q G T P}. Arguments KOp {Q G T P}. Arguments KMom {Q G T P}. Arguments KCir {Q G T P}.
Arguments CQ {Q G T P}. Arguments CT {Q G T P}. Arguments COp {Q G T P}. Arguments CMom {Q G T P}. Arguments CCir {Q G T P}.
Arguments VQ {Q G T P}. Arguments VT {Q G T P}. Arguments VOp {Q G T P}. Arguments VMom {Q G T P}. Arguments VCir {Q G T P}.
Arguments mkSt {Q G T P}. Arguments consts {Q G T P}. Arguments raw {Q G T P}.
Arguments push {Q G T P}. Arguments mapS {Q G T P A R}. Arguments empty {Q G T P}.
Arguments op_eqb {Q G T P}. Arguments moment_eqb {Q G T P}. Arguments circuit_eqb {Q G T P}. Arguments key_eqb {Q G T P}.
Arguments lookup {Q G T P}. Arguments ser_qubit {Q G T P}. Arguments ser_tag {Q G T P}. Arguments ser_gate_new {Q G T P}.
Arguments ser_op {Q G T P}. Arguments ser_moment {Q G T P}. Arguments ser_body {Q G T P}.
Arguments serialize {Q G T P}. Arguments serialize_state {Q G T P}.
Arguments getQ {Q G T P}. Arguments getT {Q G T P}. Arguments getOp {Q G T P}. Arguments getMom {Q G T P}.
Arguments getCir {Q G T P}. Arguments getCop {Q G T P}.
Arguments decode_body {Q G T P}. Arguments decode_const {Q G T P}. Arguments decode_step {Q G T P}.
Arguments decode_consts {Q G T P}. Arguments deserialize {Q G T P}.
Arguments is_circ {Q G T P}. Arguments canon_op {Q G T P}. Arguments canon_moment {Q G T P}. Arguments canon_circuit {Q G T P}.
Arguments circ_first_ops {Q G T P}. Arguments indices_of {Q G T P}. Arguments backward_from {Q G T P}. Arguments backward {Q G T P}.
