(* C16 — model of cirq-google/cirq_google/api/v2/program.py: qubit_to_proto_id and qubit_from_proto_id
   (hand-written in the shape of the code; definitions only, proofs in QubitIdProofs.v).

   A string is the list of its code points.  Only ASCII is modelled: the digits of '%d', of int() and of the
   regular expression \d are '0'..'9', white space is what str.strip()/int() drop below 128.
   Python pieces that are kept:
     f'{q.row}_{q.col}', f'{q.x}', q.name, f'c_{id0}_{id1}'                      (qubit_to_proto_id)
     proto_id.split('_'), len(...), proto_id[:2] == 'c_'                          (qubit_from_proto_id)
     re.match(r'^q?(-?\d+)_(-?\d+)$', s) and int() of the groups                  (grid_qubit_from_proto_id;
                                                                                   '$' also matches before one final '\n')
     int(s) with ValueError -> not a line qubit                                   (line_qubit_from_proto_id)
   A coupler keeps its two qubits in the order they are given here; Coupler(a, b) of the code orders them, so the
   harness compares couplers up to exchange (qid_eqb). *)
From Coq Require Import ZArith List Bool.
From Coq Require Decimal DecimalZ.
Import ListNotations.
Open Scope Z_scope.

Definition str := list Z.

Inductive qid : Type :=
| Grid (row col : Z)
| Line (x : Z)
| Named (name : str)
| Coupler (q0 q1 : qid).

Definition ch_us : Z := 95.      (* '_' *)
Definition ch_minus : Z := 45.   (* '-' *)
Definition ch_plus : Z := 43.    (* '+' *)
Definition ch_c : Z := 99.
Definition ch_q : Z := 113.
Definition ch_nl : Z := 10.

(* ---- '%d' % z ---- *)
Fixpoint uint_codes (u : Decimal.uint) : str :=
  match u with
  | Decimal.Nil => []
  | Decimal.D0 r => 48 :: uint_codes r
  | Decimal.D1 r => 49 :: uint_codes r
  | Decimal.D2 r => 50 :: uint_codes r
  | Decimal.D3 r => 51 :: uint_codes r
  | Decimal.D4 r => 52 :: uint_codes r
  | Decimal.D5 r => 53 :: uint_codes r
  | Decimal.D6 r => 54 :: uint_codes r
  | Decimal.D7 r => 55 :: uint_codes r
  | Decimal.D8 r => 56 :: uint_codes r
  | Decimal.D9 r => 57 :: uint_codes r
  end.

Definition dec (z : Z) : str :=
  match Z.to_int z with
  | Decimal.Pos u => uint_codes u
  | Decimal.Neg u => ch_minus :: uint_codes u
  end.

(* ---- qubit_to_proto_id ---- *)
Fixpoint to_id (q : qid) : str :=
  match q with
  | Grid r c => dec r ++ ch_us :: dec c
  | Line x => dec x
  | Named s => s
  | Coupler a b => ch_c :: ch_us :: to_id a ++ ch_us :: to_id b
  end.

(* ---- s.split('_') ---- *)
Fixpoint split_us (s : str) : list str :=
  match s with
  | [] => [[]]
  | c :: r =>
      if c =? ch_us then [] :: split_us r
      else match split_us r with
           | f :: fs => (c :: f) :: fs
           | [] => [[c]]
           end
  end.

(* ---- digits -> number ---- *)
Fixpoint codes_uint (s : str) : option Decimal.uint :=
  match s with
  | [] => Some Decimal.Nil
  | c :: r =>
      match codes_uint r with
      | None => None
      | Some u =>
          if c =? 48 then Some (Decimal.D0 u) else if c =? 49 then Some (Decimal.D1 u)
          else if c =? 50 then Some (Decimal.D2 u) else if c =? 51 then Some (Decimal.D3 u)
          else if c =? 52 then Some (Decimal.D4 u) else if c =? 53 then Some (Decimal.D5 u)
          else if c =? 54 then Some (Decimal.D6 u) else if c =? 55 then Some (Decimal.D7 u)
          else if c =? 56 then Some (Decimal.D8 u) else if c =? 57 then Some (Decimal.D9 u)
          else None
      end
  end.

(* one or more digits *)
Definition digits_value (ds : str) : option Z :=
  match ds with
  | [] => None
  | _ => match codes_uint ds with Some u => Some (Z.of_uint u) | None => None end
  end.

(* a regular-expression group -?\d+ that spans the whole of s, read by int() *)
Definition signed_digits (s : str) : option Z :=
  match s with
  | c :: r => if c =? ch_minus then option_map Z.opp (digits_value r) else digits_value s
  | [] => None
  end.

(* int(s) for a string without '_': white space around, an optional sign, digits *)
Definition is_space (c : Z) : bool := (c =? 32) || ((9 <=? c) && (c <=? 13)) || ((28 <=? c) && (c <=? 31)).
Fixpoint lstrip (s : str) : str :=
  match s with
  | c :: r => if is_space c then lstrip r else s
  | [] => []
  end.
Definition strip (s : str) : str := rev (lstrip (rev (lstrip s))).
Definition py_int (s : str) : option Z :=
  match strip s with
  | c :: r =>
      if c =? ch_minus then option_map Z.opp (digits_value r)
      else if c =? ch_plus then digits_value r
      else digits_value (c :: r)
  | [] => None
  end.

(* ---- grid_qubit_from_proto_id: None = ValueError ---- *)
Definition drop_final_newline (s : str) : str :=
  match rev s with
  | c :: r => if c =? ch_nl then rev r else s
  | [] => s
  end.
Definition strip_q (s : str) : str :=                 (* the optional leading 'q' of the pattern *)
  match s with c :: r => if c =? ch_q then r else s | [] => s end.
Definition grid_of_id (s : str) : option (Z * Z) :=
  match split_us (drop_final_newline (strip_q s)) with
  | [a; b] =>
      match signed_digits a, signed_digits b with
      | Some r, Some c => Some (r, c)
      | _, _ => None
      end
  | _ => None
  end.

(* qubit_from_proto_id of a string without '_': a line qubit when int() accepts it, else a named qubit *)
Definition atom_of_id (s : str) : qid :=
  match py_int s with Some x => Line x | None => Named s end.

(* ---- qubit_from_proto_id ---- *)
Definition has_c_prefix (s : str) : bool :=        (* proto_id[:2] == 'c_' *)
  match s with c0 :: c1 :: _ => (c0 =? ch_c) && (c1 =? ch_us) | _ => false end.
Definition from_id (s : str) : qid :=
  let f := split_us s in
  let named := Named s in
  if has_c_prefix s then
    match f with
    | [_; a; b; c; d] =>
        match grid_of_id (a ++ ch_us :: b), grid_of_id (c ++ ch_us :: d) with
        | Some (r1, c1), Some (r2, c2) => Coupler (Grid r1 c1) (Grid r2 c2)
        | _, _ => named
        end
    | [_; a; b] => Coupler (atom_of_id a) (atom_of_id b)
    | _ => named
    end
  else
    match f with
    | [_; _] => match grid_of_id s with Some (r, c) => Grid r c | None => named end
    | [_] => atom_of_id s
    | _ => named
    end.

(* ---- the qubits the format is documented to carry ---- *)
Definition plain_name (s : str) : Prop := ~ In ch_us s /\ py_int s = None.
Inductive supported : qid -> Prop :=
| sup_grid r c : supported (Grid r c)
| sup_line x : supported (Line x)
| sup_named s : plain_name s -> supported (Named s)
| sup_coupler_line x y : supported (Coupler (Line x) (Line y))
| sup_coupler_grid r1 c1 r2 c2 : supported (Coupler (Grid r1 c1) (Grid r2 c2))
| sup_coupler_named a b : plain_name a -> plain_name b -> supported (Coupler (Named a) (Named b)).

(* ---- comparison used by the harness (couplers up to exchange) ---- *)
Fixpoint str_eqb (a b : str) : bool :=
  match a, b with
  | [], [] => true
  | x :: a', y :: b' => (x =? y) && str_eqb a' b'
  | _, _ => false
  end.
Fixpoint qid_eqb (a b : qid) : bool :=
  match a, b with
  | Grid r c, Grid r' c' => (r =? r') && (c =? c')
  | Line x, Line y => x =? y
  | Named s, Named t => str_eqb s t
  | Coupler a0 a1, Coupler b0 b1 => (qid_eqb a0 b0 && qid_eqb a1 b1) || (qid_eqb a0 b1 && qid_eqb a1 b0)
  | _, _ => false
  end.
