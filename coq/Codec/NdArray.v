(* Model of cirq-google/cirq_google/api/v2/ndarrays.py : the to_*_array / from_*_array helpers (and to_bitarray /
   from_bitarray), hand-written in the shape of the code.  Definitions only; proofs are in NdArrayProofs.v.

     def to_float64_array(array, out):              def _from_float_array(msg, dtype_base):
         out.shape[:] = array.shape                     if not msg.shape: raise ValueError
         out.flat_bytes = array.astype(dtype, copy=False).tobytes()
                                                        flat = np.frombuffer(msg.flat_bytes, dtype=dtype)
                                                        return np.reshape(flat, msg.shape)

   A numpy array is a VIEW on a buffer: a shape, one stride per axis (in elements; negative for a reversed axis, zero
   for a broadcast axis, anything for a transposed / Fortran-ordered / sliced array) and an offset.  The element at the
   index (i0, i1, ...) is buf[offset + i0*s0 + i1*s1 + ...].  ndarray.tobytes() writes the elements in the row-major
   (C) order of their INDICES whatever the strides are; np.reshape(flat, shape) reads a flat list in that same order.
   Elements are abstract (one element = the itemsize bytes of one number, in the declared endianness).
   None = the code raises. *)
From Coq Require Import ZArith List Bool.
From VF Require Import Codec.PackBits.
Import ListNotations.
Open Scope Z_scope.

Record view := mkV { v_shape : list nat; v_strides : list Z; v_offset : Z }.

(* all indices of an array of the given shape, in row-major order (the last axis varies fastest) *)
Fixpoint indices (shape : list nat) : list (list nat) :=
  match shape with
  | [] => [[]]
  | n :: s => flat_map (fun i => map (cons i) (indices s)) (seq 0 n)
  end.

Fixpoint dot (idx : list nat) (strides : list Z) : Z :=
  match idx, strides with
  | i :: r, s :: t => Z.of_nat i * s + dot r t
  | _, _ => 0
  end.

Definition addr (v : view) (idx : list nat) : Z := v_offset v + dot idx (v_strides v).

(* array[idx] *)
Definition get {A} (d : A) (buf : list A) (v : view) (idx : list nat) : A := nth (Z.to_nat (addr v idx)) buf d.

Definition nd_size (shape : list nat) : nat := fold_right Nat.mul 1%nat shape.

(* array.tobytes(): the elements in the C order of their indices *)
Definition to_flat {A} (d : A) (buf : list A) (v : view) : list A := map (get d buf v) (indices (v_shape v)).

(* the message: shape and flat elements *)
Definition to_msg {A} (d : A) (buf : list A) (v : view) : list nat * list A := (v_shape v, to_flat d buf v).

(* position of an index in the C order *)
Fixpoint ravel (shape idx : list nat) : nat :=
  match shape, idx with
  | _ :: s, i :: r => (i * nd_size s + ravel s r)%nat
  | _, _ => 0%nat
  end.

Fixpoint in_bounds (shape idx : list nat) : Prop :=
  match shape, idx with
  | [], [] => True
  | n :: s, i :: r => (i < n)%nat /\ in_bounds s r
  | _, _ => False
  end.

(* np.reshape(flat, shape)[idx] *)
Definition from_flat {A} (d : A) (shape : list nat) (flat : list A) (idx : list nat) : A := nth (ravel shape idx) flat d.

(* from_*_array: an empty shape field is taken for an unset message; reshape needs the right number of elements.
   The decoded array is C-contiguous: its shape and its elements in C order. *)
Definition from_msg {A} (m : list nat * list A) : option (list nat * list A) :=
  match fst m with
  | [] => None
  | _ => if Nat.eqb (length (snd m)) (nd_size (fst m)) then Some m else None
  end.

(* ---- bit arrays: np.packbits(array) (flattened in C order, most significant bit first, zero padded to a byte) and
   np.unpackbits(bytes, count=nd_size(shape)) ---- *)
Definition packbits_msb (bits : list bool) : list Z := map packbits_row (rows8 (length bits) (padded bits)).
Definition unpackbits_msb (data : list Z) (count : nat) : list bool := firstn count (flat_map unpackbits_byte data).

Definition to_bitmsg (d : bool) (buf : list bool) (v : view) : list nat * list Z :=
  (v_shape v, packbits_msb (to_flat d buf v)).
Definition from_bitmsg (m : list nat * list Z) : option (list nat * list bool) :=
  match fst m with
  | [] => None
  | _ => let bits := unpackbits_msb (snd m) (nd_size (fst m)) in
         if Nat.eqb (length bits) (nd_size (fst m)) then Some (fst m, bits) else None
  end.
