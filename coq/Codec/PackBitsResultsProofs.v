From Coq Require Import ZArith List Bool Lia.
From VF Require Import Codec.PackBits Codec.PackBitsProofs Codec.PackBitsResults.
Import ListNotations.
Open Scope Z_scope.

(* ---- generic ---- *)
Lemma map_seq_nth {A B} (f : A -> B) (d : A) (l : list A) :
  map (fun r => f (nth r l d)) (seq 0 (length l)) = map f l.
Proof.
  assert (H : forall s, map (fun r => f (nth (r - s) l d)) (seq s (length l)) = map f l).
  { induction l as [|x l IH]; intros s; [reflexivity|]. cbn [length seq map].
    rewrite Nat.sub_diag. cbn [nth]. f_equal. rewrite <- (IH (S s)).
    apply map_ext_in. intros r Hr. apply in_seq in Hr.
    replace (r - s)%nat with (S (r - S s)) by lia. reflexivity. }
  rewrite <- (H 0%nat). apply map_ext. intros r. rewrite Nat.sub_0_r. reflexivity.
Qed.

Lemma mapO_total {A B} (f : A -> option B) (g : A -> B) l :
  (forall x, In x l -> f x = Some (g x)) -> mapO f l = Some (map g l).
Proof.
  induction l as [|x l IH]; intros H; simpl; [reflexivity|].
  rewrite (H x) by (left; reflexivity). rewrite IH by (intros; apply H; right; assumption). reflexivity.
Qed.

Lemma mapO_In {A B} (f : A -> option B) l l' : mapO f l = Some l' ->
  forall x, In x l -> exists y, f x = Some y.
Proof.
  revert l'. induction l as [|a l IH]; intros l' H x Hin; [contradiction|]. simpl in H.
  destruct (f a) as [y|] eqn:Ef; [|discriminate]. destruct (mapO f l) as [ys|] eqn:Em; [|discriminate].
  destruct Hin as [<-|Hin]; [exists y; exact Ef|]. apply (IH ys eq_refl x Hin).
Qed.

(* decoding each element of an encoded list: mapO g (mapO f l) = mapO h l *)
Lemma mapO_compose {A B C} (f : A -> option B) (g : B -> option C) (h : A -> option C) l l' :
  mapO f l = Some l' -> (forall x y, In x l -> f x = Some y -> g y = h x) -> mapO g l' = mapO h l.
Proof.
  revert l'. induction l as [|a l IH]; intros l' H Hc; simpl in H.
  - injection H as <-. reflexivity.
  - destruct (f a) as [y|] eqn:Ef; [|discriminate]. destruct (mapO f l) as [ys|] eqn:Em; [|discriminate].
    injection H as <-. simpl. rewrite (Hc a y (or_introl eq_refl) Ef).
    rewrite (IH ys eq_refl) by (intros x y' Hin; apply Hc; right; exact Hin). reflexivity.
Qed.

(* ---- shape ---- *)
Lemma shape_ok_spec data R I Q : shape_ok data R I Q = true ->
  length data = R /\ Forall (fun rep => length rep = I /\ Forall (fun row => length row = Q) rep) data.
Proof.
  unfold shape_ok. intros H. apply andb_true_iff in H. destruct H as [H1 H2].
  apply Nat.eqb_eq in H1. split; [exact H1|]. rewrite forallb_forall in H2. apply Forall_forall.
  intros rep Hin. specialize (H2 rep Hin). apply andb_true_iff in H2. destruct H2 as [Ha Hb].
  apply Nat.eqb_eq in Ha. split; [exact Ha|]. rewrite forallb_forall in Hb. apply Forall_forall.
  intros row Hr. apply Nat.eqb_eq. apply Hb. exact Hr.
Qed.

Lemma column_length data I i : Forall (fun rep => length rep = I) data ->
  length (column data i) = (length data * I)%nat.
Proof.
  unfold column. induction 1 as [|rep data Hr _ IH]; [reflexivity|].
  cbn [flat_map length]. rewrite app_length, map_length, IH, Hr. reflexivity.
Qed.

(* element (r, j) of the flattened column i is digit i of instance j of repetition r *)
Lemma column_nth data I i : Forall (fun rep => length rep = I) data ->
  forall r j, (r < length data)%nat -> (j < I)%nat ->
  nth (r * I + j) (column data i) false = nth i (nth j (nth r data []) []) false.
Proof.
  unfold column. induction 1 as [|rep data Hr _ IH]; intros r j Hlt Hj; [simpl in Hlt; lia|].
  cbn [flat_map]. destruct r as [|r].
  - cbn [Nat.mul Nat.add nth]. rewrite app_nth1 by (rewrite map_length; lia).
    rewrite (nth_indep _ false ((fun row => nth i row false) [])) by (rewrite map_length; lia).
    rewrite (map_nth (fun row => nth i row false)). reflexivity.
  - rewrite app_nth2 by (rewrite map_length; lia). rewrite map_length, Hr.
    replace (S r * I + j - I)%nat with (r * I + j)%nat by lia. cbn [nth]. apply IH; [simpl in Hlt; lia|exact Hj].
Qed.

(* ---- qubit_results of an encoded measurement ---- *)
Lemma qubit_results_encoded (colf : nat -> list bool) n (l : list (nat * Z)) : forall seen,
  NoDup (map snd l) -> (forall iq, In iq l -> ~ In (snd iq) seen) ->
  (forall iq, In iq l -> length (colf (fst iq)) = n) ->
  qubit_results n (map (fun iq => (snd iq, pack_bits (colf (fst iq)))) l) seen
  = Some (map (fun iq => (snd iq, colf (fst iq))) l).
Proof.
  induction l as [|[i q] l IH]; intros seen Hnd Hseen Hlen; [reflexivity|].
  cbn [map qubit_results fst snd]. inversion Hnd as [|? ? Hq Hnd']; subst.
  assert (Hex : existsb (Z.eqb q) seen = false).
  { apply Bool.not_true_is_false. intros H. apply existsb_exists in H. destruct H as (x & Hin & E).
    apply Z.eqb_eq in E. subst x. apply (Hseen (i, q) (or_introl eq_refl)). exact Hin. }
  rewrite Hex. rewrite IH.
  - rewrite <- (Hlen (i, q) (or_introl eq_refl)). cbn [fst]. rewrite pack_unpack_bits. reflexivity.
  - exact Hnd'.
  - intros iq Hin [E|Hs]; [|apply (Hseen iq (or_intror Hin) Hs)].
    apply Hq. rewrite E. apply in_map. exact Hin.
  - intros iq Hin. apply Hlen. right. exact Hin.
Qed.

Lemma lookup_encoded {B} (f : nat -> B) (qubits : list Z) : NoDup qubits -> forall s p, (p < length qubits)%nat ->
  lookupZ (nth p qubits 0) (map (fun iq => (snd iq, f (fst iq))) (combine (seq s (length qubits)) qubits))
  = Some (f (s + p)%nat).
Proof.
  induction 1 as [|q qubits Hq _ IH]; intros s p Hp; [simpl in Hp; lia|].
  cbn [length seq combine map fst snd lookupZ]. destruct p as [|p].
  - cbn [nth]. rewrite Z.eqb_refl, Nat.add_0_r. reflexivity.
  - cbn [nth]. destruct (nth p qubits 0 =? q) eqn:E.
    + apply Z.eqb_eq in E. exfalso. apply Hq. rewrite <- E. apply nth_In. simpl in Hp. lia.
    + rewrite IH by (simpl in Hp; lia). f_equal. f_equal. lia.
Qed.

Lemma combine_seq_in {A} s (l : list A) iq : In iq (combine (seq s (length l)) l) -> (s <= fst iq < s + length l)%nat /\ In (snd iq) l.
Proof.
  intros H. destruct iq as [i q]. split; [apply in_combine_l in H; apply in_seq in H; simpl; lia|apply in_combine_r in H; exact H].
Qed.

Lemma map_snd_combine_seq {A} s (l : list A) : map snd (combine (seq s (length l)) l) = l.
Proof. revert s. induction l as [|x l IH]; intros s; [reflexivity|]. cbn [length seq combine map snd]. rewrite IH. reflexivity. Qed.

(* decoding one encoded measurement, reading the qubits in the order given by `perm` (positions in m.qubits) *)
Lemma mr_roundtrip_perm R m data mr (perm : list nat) :
  mr_to_proto R m data = Some mr -> NoDup (m_qubits m) -> (1 <= m_instances m)%nat ->
  length perm = length (m_qubits m) -> (forall p, In p perm -> (p < length (m_qubits m))%nat) ->
  mr_from_proto R (Some (map (fun p => nth p (m_qubits m) 0) perm)) mr
  = Some (m_key m, map (map (fun row => map (fun p => nth p row false) perm)) data).
Proof.
  intros Henc Hnd Hinst Hplen Hp. unfold mr_to_proto in Henc.
  destruct (shape_ok data R (m_instances m) (length (m_qubits m))) eqn:Esh; [|discriminate].
  injection Henc as <-. apply shape_ok_spec in Esh. destruct Esh as [HR Hall].
  assert (HallI : Forall (fun rep => length rep = m_instances m) data)
    by (eapply Forall_impl; [|exact Hall]; intros rep [H _]; exact H).
  unfold mr_from_proto. cbn [mr_instances mr_qubits mr_key].
  rewrite Nat.max_l by exact Hinst.
  rewrite (qubit_results_encoded (column data) (R * m_instances m)).
  - rewrite mapO_map_lookup. 2: exact Hnd. 2: exact Hp.
    unfold reshape_cols. rewrite !map_length, combine_length, seq_length, Nat.min_id, Hplen, Nat.eqb_refl. cbn [orb option_map].
    f_equal. f_equal. rewrite <- HR. rewrite <- (map_seq_nth (map (fun row => map (fun p => nth p row false) perm)) [] data).
    apply map_ext_in. intros r Hr. apply in_seq in Hr.
    assert (Hrep : length (nth r data []) = m_instances m).
    { rewrite Forall_forall in HallI. apply HallI. apply nth_In. lia. }
    rewrite <- Hrep at 1. rewrite <- (map_seq_nth (fun row => map (fun p => nth p row false) perm) [] (nth r data [])).
    apply map_ext_in. intros j Hj. apply in_seq in Hj. rewrite map_map.
    apply map_ext. intros p. apply column_nth; [exact HallI|lia|lia].
  - rewrite map_snd_combine_seq. exact Hnd.
  - intros iq _ [].
  - intros iq Hin. rewrite (column_length data (m_instances m)) by exact HallI. rewrite HR. reflexivity.
Qed.
