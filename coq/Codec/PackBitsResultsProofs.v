From Coq Require Import ZArith List Bool Lia.
From VF Require Import Codec.PackBits Codec.PackBitsProofs Codec.PackBitsResults.
Import ListNotations.
Open Scope Z_scope.

(* ---- generic ---- *)
Lemma map_seq_nth {A B} (f : A -> B) (d : A) (l : list A) :
  map (fun r => f (nth r l d)) (seq 0 (length l)) = map f l.
Proof.
  assert (H : forall s, map (fun r => f (nth (r - s) l d)) (seq s (length l)) = map f l).
  { induction l as [|x l IH]; intros s; [reflexivity|]. cbn [length seq map].
    rewrite Nat.sub_diag. cbn [nth]. f_equal. rewrite <- (IH (S s)).
    apply map_ext_in. intros r Hr. apply in_seq in Hr.
    replace (r - s)%nat with (S (r - S s)) by lia. reflexivity. }
  rewrite <- (H 0%nat). apply map_ext. intros r. rewrite Nat.sub_0_r. reflexivity.
Qed.

Lemma mapO_total {A B} (f : A -> option B) (g : A -> B) l :
  (forall x, In x l -> f x = Some (g x)) -> mapO f l = Some (map g l).
Proof.
  induction l as [|x l IH]; intros H; simpl; [reflexivity|].
  rewrite (H x) by (left; reflexivity). rewrite IH by (intros; apply H; right; assumption). reflexivity.
Qed.

Lemma mapO_In {A B} (f : A -> option B) l l' : mapO f l = Some l' ->
  forall x, In x l -> exists y, f x = Some y.
Proof.
  revert l'. induction l as [|a l IH]; intros l' H x Hin; [contradiction|]. simpl in H.
  destruct (f a) as [y|] eqn:Ef; [|discriminate]. destruct (mapO f l) as [ys|] eqn:Em; [|discriminate].
  destruct Hin as [<-|Hin]; [exists y; exact Ef|]. apply (IH ys eq_refl x Hin).
Qed.

(* decoding each element of an encoded list: mapO g (mapO f l) = mapO h l *)
Lemma mapO_compose {A B C} (f : A -> option B) (g : B -> option C) (h : A -> option C) l l' :
  mapO f l = Some l' -> (forall x y, In x l -> f x = Some y -> g y = h x) -> mapO g l' = mapO h l.
Proof.
  revert l'. induction l as [|a l IH]; intros l' H Hc; simpl in H.
  - injection H as <-. reflexivity.
  - destruct (f a) as [y|] eqn:Ef; [|discriminate]. destruct (mapO f l) as [ys|] eqn:Em; [|discriminate].
    injection H as <-. simpl. rewrite (Hc a y (or_introl eq_refl) Ef).
    rewrite (IH ys eq_refl) by (intros x y' Hin; apply Hc; right; exact Hin). reflexivity.
Qed.

(* ---- shape ---- *)
Lemma shape_ok_spec data R I Q : shape_ok data R I Q = true ->
  length data = R /\ Forall (fun rep => length rep = I /\ Forall (fun row => length row = Q) rep) data.
Proof.
  unfold shape_ok. intros H. apply andb_true_iff in H. destruct H as [H1 H2].
  apply Nat.eqb_eq in H1. split; [exact H1|]. rewrite forallb_forall in H2. apply Forall_forall.
  intros rep Hin. specialize (H2 rep Hin). apply andb_true_iff in H2. destruct H2 as [Ha Hb].
  apply Nat.eqb_eq in Ha. split; [exact Ha|]. rewrite forallb_forall in Hb. apply Forall_forall.
  intros row Hr. apply Nat.eqb_eq. apply Hb. exact Hr.
Qed.

Lemma column_length data I i : Forall (fun rep => length rep = I) data ->
  length (column data i) = (length data * I)%nat.
Proof.
  unfold column. induction 1 as [|rep data Hr _ IH]; [reflexivity|].
  cbn [flat_map length]. rewrite app_length, map_length, IH, Hr. reflexivity.
Qed.

(* element (r, j) of the flattened column i is digit i of instance j of repetition r *)
Lemma column_nth data I i : Forall (fun rep => length rep = I) data ->
  forall r j, (r < length data)%nat -> (j < I)%nat ->
  nth (r * I + j) (column data i) false = nth i (nth j (nth r data []) []) false.
Proof.
  unfold column. induction 1 as [|rep data Hr _ IH]; intros r j Hlt Hj; [simpl in Hlt; lia|].
  cbn [flat_map]. destruct r as [|r].
  - cbn [Nat.mul Nat.add nth]. rewrite app_nth1 by (rewrite map_length; lia).
    rewrite (nth_indep _ false ((fun row => nth i row false) [])) by (rewrite map_length; lia).
    rewrite (map_nth (fun row => nth i row false)). reflexivity.
  - rewrite app_nth2 by (rewrite map_length; lia). rewrite map_length, Hr.
    replace (S r * I + j - I)%nat with (r * I + j)%nat by lia. cbn [nth]. apply IH; [simpl in Hlt; lia|exact Hj].
Qed.

(* ---- qubit_results of an encoded measurement ---- *)
Lemma qubit_results_encoded (colf : nat -> list bool) n (l : list (nat * Z)) : forall seen,
  NoDup (map snd l) -> (forall iq, In iq l -> ~ In (snd iq) seen) ->
  (forall iq, In iq l -> length (colf (fst iq)) = n) ->
  qubit_results n (map (fun iq => (snd iq, pack_bits (colf (fst iq)))) l) seen
  = Some (map (fun iq => (snd iq, colf (fst iq))) l).
Proof.
  induction l as [|[i q] l IH]; intros seen Hnd Hseen Hlen; [reflexivity|].
  cbn [map qubit_results fst snd]. inversion Hnd as [|? ? Hq Hnd']; subst.
  assert (Hex : existsb (Z.eqb q) seen = false).
  { apply Bool.not_true_is_false. intros H. apply existsb_exists in H. destruct H as (x & Hin & E).
    apply Z.eqb_eq in E. subst x. apply (Hseen (i, q) (or_introl eq_refl)). exact Hin. }
  rewrite Hex. rewrite IH.
  - rewrite <- (Hlen (i, q) (or_introl eq_refl)). cbn [fst]. rewrite pack_unpack_bits. reflexivity.
  - exact Hnd'.
  - intros iq Hin [E|Hs]; [|apply (Hseen iq (or_intror Hin) Hs)].
    apply Hq. rewrite E. apply in_map. exact Hin.
  - intros iq Hin. apply Hlen. right. exact Hin.
Qed.

Lemma lookup_encoded {B} (f : nat -> B) (qubits : list Z) : NoDup qubits -> forall s p, (p < length qubits)%nat ->
  lookupZ (nth p qubits 0) (map (fun iq => (snd iq, f (fst iq))) (combine (seq s (length qubits)) qubits))
  = Some (f (s + p)%nat).
Proof.
  induction 1 as [|q qubits Hq _ IH]; intros s p Hp; [simpl in Hp; lia|].
  cbn [length seq combine map fst snd lookupZ]. destruct p as [|p].
  - cbn [nth]. rewrite Z.eqb_refl, Nat.add_0_r. reflexivity.
  - cbn [nth]. destruct (nth p qubits 0 =? q) eqn:E.
    + apply Z.eqb_eq in E. exfalso. apply Hq. rewrite <- E. apply nth_In. simpl in Hp. lia.
    + rewrite IH by (simpl in Hp; lia). f_equal. f_equal. lia.
Qed.

Lemma combine_seq_in {A} s (l : list A) iq : In iq (combine (seq s (length l)) l) -> (s <= fst iq < s + length l)%nat /\ In (snd iq) l.
Proof.
  intros H. destruct iq as [i q]. split; [apply in_combine_l in H; apply in_seq in H; simpl; lia|apply in_combine_r in H; exact H].
Qed.

Lemma map_snd_combine_seq {A} s (l : list A) : map snd (combine (seq s (length l)) l) = l.
Proof. revert s. induction l as [|x l IH]; intros s; [reflexivity|]. cbn [length seq combine map snd]. rewrite IH. reflexivity. Qed.

Lemma mapO_map_lookup {B} (f : nat -> B) qubits perm : NoDup qubits -> (forall p, In p perm -> (p < length qubits)%nat) ->
  mapO (fun q => lookupZ q (map (fun iq => (snd iq, f (fst iq))) (combine (seq 0 (length qubits)) qubits)))
       (map (fun p => nth p qubits 0) perm) = Some (map f perm).
Proof.
  intros Hnd. induction perm as [|p perm IH]; intros Hp; [reflexivity|].
  cbn [map mapO]. rewrite lookup_encoded by (try exact Hnd; apply Hp; left; reflexivity).
  rewrite IH by (intros; apply Hp; right; assumption). reflexivity.
Qed.

(* decoding one encoded measurement, reading the qubits in the order given by `perm` (positions in m.qubits) *)
Lemma mr_roundtrip_perm R m data mr (perm : list nat) :
  mr_to_proto R m data = Some mr -> NoDup (m_qubits m) -> (1 <= m_instances m)%nat ->
  length perm = length (m_qubits m) -> (forall p, In p perm -> (p < length (m_qubits m))%nat) ->
  mr_from_proto R (Some (map (fun p => nth p (m_qubits m) 0) perm)) mr
  = Some (m_key m, map (map (fun row => map (fun p => nth p row false) perm)) data).
Proof.
  intros Henc Hnd Hinst Hplen Hp. unfold mr_to_proto in Henc.
  destruct (shape_ok data R (m_instances m) (length (m_qubits m))) eqn:Esh; [|discriminate].
  injection Henc as <-. apply shape_ok_spec in Esh. destruct Esh as [HR Hall].
  assert (HallI : Forall (fun rep => length rep = m_instances m) data)
    by (eapply Forall_impl; [|exact Hall]; intros rep [H _]; exact H).
  unfold mr_from_proto. cbn [mr_instances mr_qubits mr_key].
  rewrite Nat.max_l by exact Hinst.
  rewrite (qubit_results_encoded (column data) (R * m_instances m)).
  - rewrite mapO_map_lookup. 2: exact Hnd. 2: exact Hp.
    unfold reshape_cols. rewrite !map_length, combine_length, seq_length, Nat.min_id, Hplen, Nat.eqb_refl. cbn [orb option_map].
    f_equal. f_equal. rewrite <- HR. rewrite <- (map_seq_nth (map (fun row => map (fun p => nth p row false) perm)) [] data).
    apply map_ext_in. intros r Hr. apply in_seq in Hr.
    assert (Hrep : length (nth r data []) = m_instances m).
    { rewrite Forall_forall in HallI. apply HallI. apply nth_In. lia. }
    rewrite <- Hrep at 1. rewrite <- (map_seq_nth (fun row => map (fun p => nth p row false) perm) [] (nth r data [])).
    apply map_ext_in. intros j Hj. apply in_seq in Hj. rewrite map_map.
    apply map_ext. intros p. apply column_nth; [exact HallI|lia|lia].
  - rewrite map_snd_combine_seq. exact Hnd.
  - intros iq _ [].
  - intros iq Hin. rewrite (column_length data (m_instances m)) by exact HallI. rewrite HR. reflexivity.
Qed.

Lemma nth_seq_id {A} (d : A) (l : list A) : map (fun p => nth p l d) (seq 0 (length l)) = l.
Proof. rewrite (map_seq_nth (fun x => x) d l). apply map_id. Qed.

Lemma data_id_perm Q (data : recd) :
  Forall (fun rep => Forall (fun row => length row = Q) rep) data ->
  map (map (fun row => map (fun p => nth p row false) (seq 0 Q))) data = data.
Proof.
  intros H. rewrite <- (map_id data) at 2. apply map_ext_in. intros rep Hrep.
  rewrite Forall_forall in H. specialize (H rep Hrep).
  rewrite <- (map_id rep) at 2. apply map_ext_in. intros row Hrow.
  rewrite Forall_forall in H. rewrite <- (H row Hrow). apply nth_seq_id.
Qed.

(* one measurement result decodes to the array it was built from (expected qubit order = m.qubits) *)
Theorem mr_roundtrip R m data mr :
  mr_to_proto R m data = Some mr -> NoDup (m_qubits m) -> (1 <= m_instances m)%nat ->
  mr_from_proto R (Some (m_qubits m)) mr = Some (m_key m, data).
Proof.
  intros Henc Hnd Hinst.
  pose proof (mr_roundtrip_perm R m data mr (seq 0 (length (m_qubits m))) Henc Hnd Hinst) as H.
  rewrite seq_length, nth_seq_id in H. rewrite H by (try reflexivity; intros p Hp; apply in_seq in Hp; lia).
  f_equal. f_equal. apply data_id_perm.
  unfold mr_to_proto in Henc. destruct (shape_ok data R (m_instances m) (length (m_qubits m))) eqn:E; [|discriminate].
  apply shape_ok_spec in E. destruct E as [_ E]. eapply Forall_impl; [|exact E]. intros rep [_ Hq]. exact Hq.
Qed.

Lemma map_fst_combine_seq {A} s (l : list A) : map fst (combine (seq s (length l)) l) = seq s (length l).
Proof. revert s. induction l as [|x l IH]; intros s; [reflexivity|]. cbn [length seq combine map fst]. rewrite IH. reflexivity. Qed.

(* without a measurement list the qubits come back in message order, which is the order they were written in *)
Theorem mr_roundtrip_message_order R m data mr :
  mr_to_proto R m data = Some mr -> NoDup (m_qubits m) -> (1 <= m_instances m)%nat ->
  mr_from_proto R None mr = Some (m_key m, data).
Proof.
  intros Henc Hnd Hinst.
  pose proof (mr_roundtrip R m data mr Henc Hnd Hinst) as Hgood.
  unfold mr_to_proto in Henc.
  destruct (shape_ok data R (m_instances m) (length (m_qubits m))) eqn:Esh; [|discriminate].
  injection Henc as <-. apply shape_ok_spec in Esh. destruct Esh as [HR Hall].
  assert (HallI : Forall (fun rep => length rep = m_instances m) data)
    by (eapply Forall_impl; [|exact Hall]; intros rep [H _]; exact H).
  unfold mr_from_proto in *. cbn [mr_instances mr_qubits mr_key] in *.
  rewrite Nat.max_l in * by exact Hinst.
  rewrite (qubit_results_encoded (column data) (R * m_instances m)) in *;
    try (rewrite map_snd_combine_seq; exact Hnd); try (intros iq _ []);
    try (intros iq Hin; rewrite (column_length data (m_instances m)) by exact HallI; rewrite HR; reflexivity).
  set (QR := map (fun iq : nat * Z => (snd iq, column data (fst iq))) (combine (seq 0 (length (m_qubits m))) (m_qubits m))) in *.
  assert (E : mapO (fun q => lookupZ q QR) (m_qubits m) = Some (map snd QR)).
  { pose proof (mapO_map_lookup (column data) (m_qubits m) (seq 0 (length (m_qubits m))) Hnd) as H.
    rewrite nth_seq_id in H. unfold QR. rewrite H by (intros p Hp; apply in_seq in Hp; lia).
    f_equal. rewrite map_map. cbn [snd]. rewrite <- (map_map fst (column data)), map_fst_combine_seq. reflexivity. }
  rewrite E in Hgood. exact Hgood.
Qed.

(* ---- one parameterized result, one sweep, all sweeps ---- *)
Definition ms_wf (ms : list minfo) : Prop :=
  NoDup (map m_key ms) /\ forall m, In m ms -> NoDup (m_qubits m) /\ (1 <= m_instances m)%nat.

Lemma find_unique (l : list minfo) m : NoDup (map m_key l) -> In m l ->
  find (fun m' => m_key m' =? m_key m) l = Some m.
Proof.
  induction l as [|a l IH]; intros Hnd Hin; [contradiction|]. cbn [find].
  inversion Hnd as [|? ? Ha Hnd']; subst. destruct Hin as [->|Hin].
  - rewrite Z.eqb_refl. reflexivity.
  - destruct (m_key a =? m_key m) eqn:E.
    + apply Z.eqb_eq in E. exfalso. apply Ha. rewrite E. apply in_map. exact Hin.
    + apply IH; assumption.
Qed.

Lemma order_for_wf ms m : NoDup (map m_key ms) -> In m ms -> order_for (Some ms) (m_key m) = Some (Some (m_qubits m)).
Proof.
  intros Hnd Hin. unfold order_for. destruct ms as [|m0 ms']; [contradiction|].
  remember (m0 :: ms') as ms. rewrite (find_unique (rev ms) m).
  - reflexivity.
  - rewrite map_rev. apply NoDup_rev. exact Hnd.
  - apply in_rev in Hin. exact Hin.
Qed.

Definition restrict (ms : list minfo) (t : trial) : list (Z * recd) :=
  map (fun m => (m_key m, match lookupZ (m_key m) (t_records t) with Some d => d | None => [] end)) ms.

Lemma mr_to_proto_key R m data mr : mr_to_proto R m data = Some mr -> mr_key mr = m_key m.
Proof. unfold mr_to_proto. destruct (shape_ok _ _ _ _); [|discriminate]. intros H. injection H as <-. reflexivity. Qed.

Lemma pr_roundtrip R ms t pr : ms_wf ms -> pr_to_proto R ms t = Some pr ->
  pr_from_proto R (Some ms) pr = Some (restrict ms t).
Proof.
  intros [Hk Hm] Henc. unfold pr_from_proto, pr_to_proto in *.
  rewrite (mapO_compose _ _ (fun m => Some (m_key m, match lookupZ (m_key m) (t_records t) with Some d => d | None => [] end)) ms pr Henc).
  - apply mapO_total. reflexivity.
  - intros m mr Hin Hf. destruct (lookupZ (m_key m) (t_records t)) as [data|]; [|discriminate].
    rewrite (mr_to_proto_key _ _ _ _ Hf), (order_for_wf ms m Hk Hin).
    destruct (Hm m Hin) as [Hnd Hi]. apply (mr_roundtrip R m data mr Hf Hnd Hi).
Qed.

Lemma sweep_roundtrip ms ts sr : ms_wf ms -> sweep_to_proto ms ts = Some sr ->
  sweep_from_proto (Some ms) sr = Some (map (restrict ms) ts).
Proof.
  intros Hwf Henc. unfold sweep_to_proto in Henc. destruct ts as [|t0 ts'].
  - injection Henc as <-. reflexivity.
  - remember (t0 :: ts') as ts. destruct (forallb _ ts); [|discriminate].
    destruct (mapO (pr_to_proto (t_reps t0) ms) ts) as [prs|] eqn:E; [|discriminate].
    injection Henc as <-. unfold sweep_from_proto. cbn [sr_reps sr_results].
    rewrite (mapO_compose _ _ (fun t => Some (restrict ms t)) ts prs E).
    + apply mapO_total. reflexivity.
    + intros t pr _ Hf. apply pr_roundtrip; assumption.
Qed.

(* results_from_proto(results_to_proto(r, m), m) = r restricted to the measured keys: every key, instance,
   qubit and repetition comes back in place, for any number of repetitions *)
Theorem results_proto_roundtrip ms sweeps msg : ms_wf ms -> results_to_proto ms sweeps = Some msg ->
  results_from_proto (Some ms) msg = Some (map (map (restrict ms)) sweeps).
Proof.
  intros Hwf Henc. unfold results_from_proto, results_to_proto in *.
  rewrite (mapO_compose _ _ (fun ts => Some (map (restrict ms) ts)) sweeps msg Henc).
  - apply mapO_total. reflexivity.
  - intros ts sr _ Hf. apply sweep_roundtrip; assumption.
Qed.

(* the message is well defined exactly on well-shaped input: one measurement *)
Theorem mr_to_proto_defined R m data :
  mr_to_proto R m data <> None <-> shape_ok data R (m_instances m) (length (m_qubits m)) = true.
Proof.
  unfold mr_to_proto. destruct (shape_ok _ _ _ _); split; try discriminate; try reflexivity.
  intros H. exfalso. apply H. reflexivity.
Qed.
