(* C16 — model of cirq-google/cirq_google/devices/grid_device.py: the part of GridDevice.from_proto / to_proto /
   validate_operation that concerns qubits and couplings (hand-written in the shape of the code; definitions only,
   proofs in DeviceSpecProofs.v).

   A DeviceSpecification is kept as valid_qubits (ids '<row>_<col>' read as pairs of integers) and valid_targets
   (each TargetSet with its ordering and its targets; the name of a set means nothing to the device).  Gates,
   durations and qubit attributes are judged by the Python oracle, not here.
   Python pieces that are kept:
     _validate_device_specification: no id twice, ids unsigned, every target id among valid_qubits, no repeated id
                                     inside a target of a SYMMETRIC set, no ASYMMETRIC set            (valid_spec)
     from_proto: the couplings are the targets with exactly two ids of the sets whose ordering is SYMMETRIC (raw_pairs);
                 GridDeviceMetadata keeps them as a set of unordered pairs                         (norm, sort_set)
     to_proto:   one SYMMETRIC set '2_qubit_targets' with the pairs (lo, hi) in sorted order          (to_proto)
     _validate_operations: every qubit on the device; an operation on exactly two qubits whose gate is not
                 measurement / wait needs its pair among the couplings                                (validate_op)
   Sets of Python (frozenset of qubits, frozenset of frozensets) are sorted lists without repetition here; GridQubit
   orders by (row, col). *)
From Coq Require Import ZArith List Bool.
Import ListNotations.
Open Scope Z_scope.

Definition qubit : Type := (Z * Z)%type.
Definition qpair : Type := (qubit * qubit)%type.

Inductive ordering : Type := Unspecified | Symmetric | Asymmetric | SubsetPermutation.

Definition target : Type := list qubit.
Record target_set : Type := { ts_ordering : ordering; ts_targets : list target }.
Record spec : Type := { valid_qubits : list qubit; valid_targets : list target_set }.

(* what the device object keeps: qubit_set and qubit_pairs (each pair as (lo, hi)), both sorted, nothing twice *)
Record device : Type := { d_qubits : list qubit; d_pairs : list qpair }.

(* ---- comparisons ---- *)
Definition lex {A B} (ca : A -> A -> comparison) (cb : B -> B -> comparison) (x y : A * B) : comparison :=
  match ca (fst x) (fst y) with
  | Eq => cb (snd x) (snd y)
  | c => c
  end.
Definition cmpq : qubit -> qubit -> comparison := lex Z.compare Z.compare.
Definition cmpp : qpair -> qpair -> comparison := lex cmpq cmpq.

Definition is_eq (c : comparison) : bool := match c with Eq => true | _ => false end.
Definition q_eqb (a b : qubit) : bool := is_eq (cmpq a b).
Definition memq (q : qubit) (l : list qubit) : bool := existsb (q_eqb q) l.
Definition memp (p : qpair) (l : list qpair) : bool := existsb (fun r => is_eq (cmpp p r)) l.

(* ---- a set as a sorted list ---- *)
Fixpoint insert {A} (cmp : A -> A -> comparison) (x : A) (l : list A) : list A :=
  match l with
  | [] => [x]
  | y :: r => match cmp x y with
              | Lt => x :: l
              | Eq => l
              | Gt => y :: insert cmp x r
              end
  end.
Definition sort_set {A} (cmp : A -> A -> comparison) (l : list A) : list A := fold_right (insert cmp) [] l.

(* ---- _validate_device_specification ---- *)
Fixpoint nodupb (l : list qubit) : bool :=
  match l with
  | [] => true
  | x :: r => negb (memq x r) && nodupb r
  end.
Definition unsigned_id (q : qubit) : bool := (0 <=? fst q) && (0 <=? snd q).
Definition is_symmetric (o : ordering) : bool := match o with Symmetric => true | _ => false end.
Definition is_asymmetric (o : ordering) : bool := match o with Asymmetric => true | _ => false end.

Definition valid_target_set (qs : list qubit) (ts : target_set) : bool :=
  forallb (fun t => forallb (fun q => memq q qs) t) (ts_targets ts)
  && (if is_symmetric (ts_ordering ts) then forallb nodupb (ts_targets ts) else true)
  && negb (is_asymmetric (ts_ordering ts)).

Definition valid_spec (s : spec) : bool :=
  nodupb (valid_qubits s) && forallb unsigned_id (valid_qubits s)
  && forallb (valid_target_set (valid_qubits s)) (valid_targets s).

(* ---- from_proto ---- *)
Definition pair_of_target (t : target) : list qpair :=
  match t with
  | [a; b] => [(a, b)]
  | _ => []
  end.
Definition pairs_of_set (ts : target_set) : list qpair :=
  if is_symmetric (ts_ordering ts) then flat_map pair_of_target (ts_targets ts) else [].
Definition raw_pairs (s : spec) : list qpair := flat_map pairs_of_set (valid_targets s).

Definition norm (p : qpair) : qpair :=
  match cmpq (fst p) (snd p) with
  | Gt => (snd p, fst p)
  | _ => p
  end.

Definition from_proto (s : spec) : option device :=
  if valid_spec s
  then Some {| d_qubits := sort_set cmpq (valid_qubits s); d_pairs := sort_set cmpp (map norm (raw_pairs s)) |}
  else None.

(* ---- to_proto ---- *)
Definition to_proto (d : device) : spec :=
  {| valid_qubits := d_qubits d;
     valid_targets := [ {| ts_ordering := Symmetric; ts_targets := map (fun p => [fst p; snd p]) (d_pairs d) |} ] |}.

(* ---- validate_operation: variadic = the gate is a measurement or a wait ---- *)
Definition coupled (d : device) (a b : qubit) : bool := memp (norm (a, b)) (d_pairs d).
Definition validate_op (d : device) (variadic : bool) (qs : list qubit) : bool :=
  forallb (fun q => memq q (d_qubits d)) qs
  && match qs with
     | [a; b] => variadic || coupled d a b
     | _ => true
     end.

(* ---- what a specification says by itself (device.proto): "Two-qubit gates can be applied to all two-element targets
        in a TargetSet of this type [SYMMETRIC]", any id order within a target ---- *)
Definition coupling (s : spec) (a b : qubit) : Prop :=
  exists ts t, In ts (valid_targets s) /\ ts_ordering ts = Symmetric /\ In t (ts_targets ts) /\ (t = [a; b] \/ t = [b; a]).

(* the device object as the harness reads it off the implementation *)
Definition ql_eqb (a b : list qubit) : bool :=
  (fix go (a b : list qubit) : bool :=
     match a, b with
     | [], [] => true
     | x :: a', y :: b' => q_eqb x y && go a' b'
     | _, _ => false
     end) a b.
Definition pl_eqb (a b : list qpair) : bool :=
  (fix go (a b : list qpair) : bool :=
     match a, b with
     | [], [] => true
     | x :: a', y :: b' => is_eq (cmpp x y) && go a' b'
     | _, _ => false
     end) a b.
Definition device_eqb (d e : device) : bool := ql_eqb (d_qubits d) (d_qubits e) && pl_eqb (d_pairs d) (d_pairs e).

(* ---- statements about the order and about the device object (used by the theorems) ---- *)
Record order_ok {A} (cmp : A -> A -> comparison) : Prop := {
  ok_refl : forall x, cmp x x = Eq;
  ok_eq : forall x y, cmp x y = Eq -> x = y;
  ok_antisym : forall x y, cmp x y = Gt -> cmp y x = Lt;
  ok_trans : forall x y z, cmp x y = Lt -> cmp y z = Lt -> cmp x z = Lt }.

Fixpoint ssorted {A} (cmp : A -> A -> comparison) (l : list A) : Prop :=
  match l with
  | [] => True
  | x :: r => Forall (fun y => cmp x y = Lt) r /\ ssorted cmp r
  end.

(* a device object: sets without repetition, every pair written (lo, hi) between two of its qubits, ids unsigned *)
Definition wf_device (d : device) : Prop :=
  ssorted cmpq (d_qubits d) /\ ssorted cmpp (d_pairs d)
  /\ Forall (fun p => cmpq (fst p) (snd p) = Lt /\ In (fst p) (d_qubits d) /\ In (snd p) (d_qubits d)) (d_pairs d)
  /\ Forall (fun q => unsigned_id q = true) (d_qubits d).

(* ---- one correspondence case: a specification, what the implementation made of it (None = ValueError; qubit_set and
        qubit_pairs sorted), the target sets and sorted qubits of device.to_proto(), and accept / reject decisions of
        validate_operation for (variadic, qubits) ---- *)
Definition ordering_eqb (a b : ordering) : bool :=
  match a, b with
  | Unspecified, Unspecified | Symmetric, Symmetric | Asymmetric, Asymmetric | SubsetPermutation, SubsetPermutation => true
  | _, _ => false
  end.
Definition tl_eqb (a b : list target) : bool :=
  (fix go (a b : list target) : bool :=
     match a, b with
     | [], [] => true
     | x :: a', y :: b' => ql_eqb x y && go a' b'
     | _, _ => false
     end) a b.
Definition tsl_eqb (a b : list target_set) : bool :=
  (fix go (a b : list target_set) : bool :=
     match a, b with
     | [], [] => true
     | x :: a', y :: b' => ordering_eqb (ts_ordering x) (ts_ordering y) && tl_eqb (ts_targets x) (ts_targets y) && go a' b'
     | _, _ => false
     end) a b.

Record spec_case : Type := {
  c_spec : spec;
  c_device : option device;
  c_out_targets : list target_set;
  c_out_qubits : list qubit;
  c_decisions : list (bool * list qubit * bool) }.

Definition case_device_ok (c : spec_case) : bool :=
  match from_proto (c_spec c), c_device c with
  | None, None => true
  | Some d, Some e => device_eqb d e
  | _, _ => false
  end.
Definition case_to_proto_ok (c : spec_case) : bool :=
  match from_proto (c_spec c), c_device c with
  | Some d, Some _ => tsl_eqb (valid_targets (to_proto d)) (c_out_targets c)
                      && ql_eqb (sort_set cmpq (valid_qubits (to_proto d))) (c_out_qubits c)
  | _, _ => true
  end.
Definition case_validate_ok (c : spec_case) : bool :=
  match from_proto (c_spec c), c_device c with
  | Some d, Some _ => forallb (fun q => Bool.eqb (validate_op d (fst (fst q)) (snd (fst q))) (snd q)) (c_decisions c)
  | _, _ => true
  end.
