(* C11 — measurement keys as they travel through JSON (cirq/value/measurement_key.py).

   A key is a path (one entry per enclosing scope, outermost first) and a name.  MeasurementGate,
   PauliMeasurementGate, KeyCondition ... store the key in a document as ONE string, the components joined by ':'
   (MeasurementKey.__str__), and rebuild it with MeasurementKey.parse_serialized, which splits at EVERY ':'
   (python str.split) and takes the last component as the name.  MeasurementKey.__eq__/__hash__ compare that
   string, so "the value read back equals the one written" has content only together with the structural
   statement below: the path itself comes back.  Definitions only; proofs in KeyPathProofs.v. *)
From Coq Require Import List Bool String Ascii.
Import ListNotations.
Local Open Scope string_scope.

Definition sep : ascii := ":"%char.

Record mkey := MKey { k_path : list string; k_name : string }.

(* the components, path first and name last, joined by the separator *)
Fixpoint join (l : list string) (last : string) : string :=
  match l with
  | [] => last
  | c :: r => c ++ String sep (join r last)
  end.
Definition key_str (k : mkey) : string := join (k_path k) (k_name k).

(* str.split(':') — always at least one component; returned as (first component, the others) *)
Fixpoint split_hd (s : string) : string * list string :=
  match s with
  | EmptyString => (EmptyString, [])
  | String c r =>
      match split_hd r with
      | (h, t) => if Ascii.eqb c sep then (EmptyString, h :: t) else (String c h, t)
      end
  end.
Definition split (s : string) : list string := match split_hd s with (h, t) => h :: t end.

(* parse_serialized: name = components[-1], path = components[:-1] *)
Definition key_parse (s : string) : mkey :=
  let cs := split s in MKey (removelast cs) (last cs EmptyString).

Fixpoint no_sep (s : string) : bool :=
  match s with
  | EmptyString => true
  | String c r => negb (Ascii.eqb c sep) && no_sep r
  end.
(* the keys of the property's domain: no component contains the separator (the constructor rejects it in the name;
   path entries come from repetition ids / parent paths) *)
Definition key_wf (k : mkey) : bool := forallb no_sep (k_path k) && no_sep (k_name k).

Definition string_list_eqb (a b : list string) : bool :=
  (fix go (a b : list string) : bool :=
     match a, b with
     | [], [] => true
     | x :: a', y :: b' => String.eqb x y && go a' b'
     | _, _ => false
     end) a b.
Definition mkey_eqb (a b : mkey) : bool := string_list_eqb (k_path a) (k_path b) && String.eqb (k_name a) (k_name b).

(* MeasurementKey.__eq__ : the joined strings *)
Definition key_eq_impl (a b : mkey) : bool := String.eqb (key_str a) (key_str b).

(* with_key_path_prefix / _with_rescoped_keys_ : scopes are added in front *)
Definition key_prefix (p : list string) (k : mkey) : mkey := MKey (p ++ k_path k)%list (k_name k).

(* what a document field holding a key goes through: written as key_str, read by key_parse *)
Definition key_roundtrip (k : mkey) : mkey := key_parse (key_str k).
