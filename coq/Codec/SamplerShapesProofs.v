From Coq Require Import ZArith List Bool Lia.
From VF Require Import Base.Harness Codec.ResultViews Codec.ResultViewsProofs Codec.SamplerShapes.
Import ListNotations.
Open Scope Z_scope.

(* ------------------------------------------------------------------ small facts *)
Lemma zl_eqb_eq a : forall b, zl_eqb a b = true <-> a = b.
Proof.
  unfold zl_eqb. induction a as [|x a IH]; intros [|y b]; simpl; split; intros H;
    try reflexivity; try discriminate.
  - apply andb_true_iff in H. destruct H as [H1 H2]. apply Z.eqb_eq in H1. apply IH in H2.
    subst. reflexivity.
  - inversion H; subst. apply andb_true_iff. split; [apply Z.eqb_refl|apply IH; reflexivity].
Qed.

Lemma key_ops_app k l1 l2 : key_ops k (l1 ++ l2) = key_ops k l1 ++ key_ops k l2.
Proof. unfold key_ops. apply flat_map_app. Qed.

Lemma instances_app k l1 l2 : instances k (l1 ++ l2) = (instances k l1 + instances k l2)%nat.
Proof. unfold instances. rewrite key_ops_app, app_length. reflexivity. Qed.

Lemma key_ops_one k k' s : key_ops k [Some (k', s)] = if k =? k' then [s] else [].
Proof. unfold key_ops. simpl. destruct (k =? k'); reflexivity. Qed.

Lemma key_ops_none k : key_ops k [None] = [].
Proof. reflexivity. Qed.

Lemma lookup_app_one {A} k k' (v : A) qs :
  lookup k (qs ++ [(k', v)]) =
  match lookup k qs with Some x => Some x | None => if k =? k' then Some v else None end.
Proof.
  induction qs as [|[k0 v0] qs IH]; simpl; [reflexivity|].
  destruct (k =? k0); [reflexivity|apply IH].
Qed.

Lemma lookup_None_notin {A} k (qs : list (Z * A)) : lookup k qs = None <-> ~ In k (map fst qs).
Proof.
  induction qs as [|[k0 v0] qs IH]; simpl.
  - split; [intros _ []|reflexivity].
  - destruct (k =? k0) eqn:E.
    + apply Z.eqb_eq in E. subst. split; [discriminate|].
      intros H. exfalso. apply H. left. reflexivity.
    + apply Z.eqb_neq in E. rewrite IH. split; intros H.
      * intros [H1|H1]; [congruence|auto].
      * intros H1. apply H. right. exact H1.
Qed.

Lemma NoDup_lookup {A} k (v : A) qs : NoDup (map fst qs) -> In (k, v) qs -> lookup k qs = Some v.
Proof.
  induction qs as [|[k0 v0] qs IH]; simpl; intros Hnd Hin; [contradiction|].
  inversion Hnd as [|? ? Hnotin Hnd']; subst.
  destruct Hin as [Heq|Hin].
  - inversion Heq; subst. rewrite Z.eqb_refl. reflexivity.
  - destruct (k =? k0) eqn:E.
    + apply Z.eqb_eq in E. subst. exfalso. apply Hnotin. apply in_map_iff.
      exists (k0, v). split; [reflexivity|exact Hin].
    + apply IH; assumption.
Qed.

Lemma existsb_lookup {A} k (qs : list (Z * A)) :
  existsb (Z.eqb k) (map fst qs) = match lookup k qs with Some _ => true | None => false end.
Proof.
  induction qs as [|[k0 v0] qs IH]; simpl; [reflexivity|].
  destruct (k =? k0); simpl; [reflexivity|apply IH].
Qed.

Lemma all_eq_repeat {A} (x : A) l : (forall y, In y l -> y = x) -> l = repeat x (length l).
Proof.
  induction l as [|a l IH]; simpl; intros H; [reflexivity|].
  rewrite (H a (or_introl eq_refl)). f_equal. apply IH. intros y Hy. apply H. right. exact Hy.
Qed.

Lemma map_repeat' {A B} (f : A -> B) x n : map f (repeat x n) = repeat (f x) n.
Proof. induction n; simpl; [reflexivity|]. rewrite IHn. reflexivity. Qed.

Lemma map_all_eq {A B} (f : A -> B) (x : A) l : (forall y, In y l -> y = x) -> map f l = repeat (f x) (length l).
Proof.
  induction l as [|a l IH]; simpl; intros H; [reflexivity|].
  rewrite (H a (or_introl eq_refl)). f_equal. apply IH. intros y Hy. apply H. right. exact Hy.
Qed.

Lemma forallb_repeat {A} (f : A -> bool) x n : f x = true -> forallb f (repeat x n) = true.
Proof. intros H. induction n; simpl; [reflexivity|]. rewrite H. exact IHn. Qed.

(* ------------------------------------------------------------------ the loop *)
(* what holds of the two dicts after the operations `pre` have been processed *)
Definition inv (pre : list mop) (qs : list (Z * list Z)) (ni : list (Z * nat)) : Prop :=
  NoDup (map fst qs) /\
  (forall k, count Z.eqb k ni = instances k pre) /\
  (forall k s, lookup k qs = Some s ->
               In s (key_ops k pre) /\ forall s', In s' (key_ops k pre) -> s' = s) /\
  (forall k, lookup k qs = None -> key_ops k pre = []).

Lemma inv_nil : inv [] [] [].
Proof.
  split; [constructor|]. split; [reflexivity|]. split; [discriminate|reflexivity].
Qed.

Lemma inv_skip pre qs ni : inv pre qs ni -> inv (pre ++ [None]) qs ni.
Proof.
  intros (Hnd & Hc & Hs & Hn). split; [|split; [|split]].
  - exact Hnd.
  - intros k. rewrite instances_app. unfold instances at 2. rewrite key_ops_none. simpl.
    rewrite Hc. lia.
  - intros k s H. rewrite key_ops_app, key_ops_none, app_nil_r. apply (Hs k s H).
  - intros k H. rewrite key_ops_app, key_ops_none, app_nil_r. apply Hn. exact H.
Qed.

Lemma count_step k0 k ni :
  count Z.eqb k0 (counter_add Z.eqb k ni) = (count Z.eqb k0 ni + (if (k0 =? k)%Z then 1 else 0))%nat.
Proof. apply count_counter_add. exact Zeqb_eq. Qed.

Lemma instances_step k0 k s pre :
  instances k0 (pre ++ [Some (k, s)]) = (instances k0 pre + (if (k0 =? k)%Z then 1 else 0))%nat.
Proof.
  rewrite instances_app. unfold instances at 2. rewrite key_ops_one.
  destruct (k0 =? k); reflexivity.
Qed.

Lemma inv_old pre qs ni k s :
  inv pre qs ni -> lookup k qs = Some s -> inv (pre ++ [Some (k, s)]) qs (counter_add Z.eqb k ni).
Proof.
  intros (Hnd & Hc & Hs & Hn) Hk. split; [|split; [|split]].
  - exact Hnd.
  - intros k0. rewrite count_step, instances_step, Hc. reflexivity.
  - intros k0 s0 H. split.
    + rewrite key_ops_app. apply in_or_app. left. apply (Hs k0 s0 H).
    + intros s' Hin. rewrite key_ops_app, key_ops_one in Hin. apply in_app_or in Hin.
      destruct Hin as [Hin|Hin]; [apply (proj2 (Hs k0 s0 H)); exact Hin|].
      destruct (k0 =? k) eqn:E; [|contradiction].
      apply Z.eqb_eq in E. subst k0. destruct Hin as [Hin|[]]. subst s'. congruence.
  - intros k0 H. rewrite key_ops_app, key_ops_one, (Hn k0 H).
    destruct (k0 =? k) eqn:E; [|reflexivity].
    apply Z.eqb_eq in E. subst k0. congruence.
Qed.

Lemma NoDup_app_one {A} (l : list A) x : NoDup l -> ~ In x l -> NoDup (l ++ [x]).
Proof.
  induction l as [|a l IH]; simpl; intros Hnd Hx.
  - constructor; [intros []|constructor].
  - inversion Hnd as [|? ? Ha Hl]; subst. constructor.
    + intros Hin. apply in_app_or in Hin. destruct Hin as [Hin|[Hin|[]]]; [auto|].
      subst. apply Hx. left. reflexivity.
    + apply IH; [exact Hl|]. intros H. apply Hx. right. exact H.
Qed.

Lemma inv_new pre qs ni k s :
  inv pre qs ni -> lookup k qs = None ->
  inv (pre ++ [Some (k, s)]) (qs ++ [(k, s)]) (counter_add Z.eqb k ni).
Proof.
  intros (Hnd & Hc & Hs & Hn) Hk. split; [|split; [|split]].
  - rewrite map_app. simpl. apply NoDup_app_one; [exact Hnd|]. apply lookup_None_notin. exact Hk.
  - intros k0. rewrite count_step, instances_step, Hc. reflexivity.
  - intros k0 s0 H. rewrite lookup_app_one in H. rewrite key_ops_app, key_ops_one. split.
    + destruct (lookup k0 qs) as [x|] eqn:E.
      * inversion H; subst x. apply in_or_app. left. apply (Hs k0 s0 E).
      * destruct (k0 =? k); [|discriminate]. inversion H; subst s0.
        apply in_or_app. right. left. reflexivity.
    + intros s' Hin. destruct (lookup k0 qs) as [x|] eqn:E.
      * inversion H; subst x. apply in_app_or in Hin. destruct Hin as [Hin|Hin].
        -- apply (proj2 (Hs k0 s0 E)). exact Hin.
        -- destruct (k0 =? k) eqn:E2; [|contradiction]. apply Z.eqb_eq in E2. subst k0. congruence.
      * rewrite (Hn k0 E) in Hin. simpl in Hin.
        destruct (k0 =? k); [|discriminate]. inversion H; subst s0.
        destruct Hin as [Hin|[]]. symmetry. exact Hin.
  - intros k0 H. rewrite lookup_app_one in H. rewrite key_ops_app, key_ops_one.
    destruct (lookup k0 qs) as [x|] eqn:E; [discriminate|].
    destruct (k0 =? k); [discriminate|]. rewrite (Hn k0 E). reflexivity.
Qed.

Lemma cons_as_app {A} (pre : list A) o t : pre ++ o :: t = (pre ++ [o]) ++ t.
Proof. rewrite <- app_assoc. reflexivity. Qed.

Lemma shapes_loop_inv ops : forall pre qs ni qs' ni',
  inv pre qs ni -> shapes_loop ops qs ni = Some (qs', ni') -> inv (pre ++ ops) qs' ni'.
Proof.
  induction ops as [|[[k s]|] t IH]; intros pre qs ni qs' ni' Hinv H; simpl in H.
  - inversion H; subst. rewrite app_nil_r. exact Hinv.
  - rewrite cons_as_app. destruct (lookup k qs) as [s'|] eqn:E.
    + destruct (zl_eqb s s') eqn:Es; [|discriminate]. apply zl_eqb_eq in Es. subst s'.
      eapply IH; [|exact H]. apply inv_old; assumption.
    + eapply IH; [|exact H]. apply inv_new; assumption.
  - rewrite cons_as_app. eapply IH; [|exact H]. apply inv_skip. exact Hinv.
Qed.

Lemma shapes_loop_total ops : forall pre qs ni,
  inv pre qs ni -> shapes_consistent (pre ++ ops) -> shapes_loop ops qs ni <> None.
Proof.
  induction ops as [|[[k s]|] t IH]; intros pre qs ni Hinv Hcons; simpl.
  - discriminate.
  - rewrite cons_as_app in Hcons. destruct (lookup k qs) as [s'|] eqn:E.
    + assert (Hs : s = s').
      { apply (Hcons k).
        - rewrite !key_ops_app, key_ops_one, Z.eqb_refl. apply in_or_app. left.
          apply in_or_app. right. left. reflexivity.
        - rewrite !key_ops_app. apply in_or_app. left. apply in_or_app. left.
          destruct Hinv as (_ & _ & Hs & _). apply (Hs k s' E). }
      subst s'. replace (zl_eqb s s) with true by (symmetry; apply zl_eqb_eq; reflexivity).
      eapply IH; [|exact Hcons]. apply inv_old; assumption.
    + eapply IH; [|exact Hcons]. apply inv_new; assumption.
  - rewrite cons_as_app in Hcons. eapply IH; [|exact Hcons]. apply inv_skip. exact Hinv.
Qed.

Lemma shapes_loop_keys ops : forall qs ni qs' ni', shapes_loop ops qs ni = Some (qs', ni') ->
  map fst qs' = map fst qs ++ first_keys ops (map fst qs).
Proof.
  induction ops as [|[[k s]|] t IH]; intros qs ni qs' ni' H; simpl in H; simpl.
  - inversion H; subst. rewrite app_nil_r. reflexivity.
  - rewrite existsb_lookup. destruct (lookup k qs) as [s'|] eqn:E.
    + destruct (zl_eqb s s'); [|discriminate]. eapply IH; exact H.
    + apply IH in H. rewrite H. rewrite map_app. simpl. rewrite <- app_assoc. reflexivity.
  - eapply IH; exact H.
Qed.

(* ------------------------------------------------------------------ theorems *)
(* every key of the circuit is listed once, with the number of measurement operations that carry it
   (wherever they stand: in one moment or in several) and with the qid shape they all have *)
Theorem measurement_shapes_spec c l : measurement_shapes c = Some l ->
  NoDup (map fst l) /\
  (forall k n s, In (k, (n, s)) l ->
     n = instances k (all_operations c) /\ (0 < n)%nat /\
     forall s', In s' (key_ops k (all_operations c)) -> s' = s) /\
  (forall k, (0 < instances k (all_operations c))%nat -> exists n s, In (k, (n, s)) l).
Proof.
  unfold measurement_shapes.
  destruct (shapes_loop (all_operations c) [] []) as [[qs ni]|] eqn:E; [|discriminate].
  intros H. inversion H; subst l. clear H.
  pose proof (shapes_loop_inv _ _ _ _ _ _ inv_nil E) as (Hnd & Hc & Hs & Hn). simpl in *.
  split; [|split].
  - rewrite map_map. simpl. exact Hnd.
  - intros k n s Hin. apply in_map_iff in Hin. destruct Hin as [[k0 s0] [Heq Hin]].
    simpl in Heq. inversion Heq; subst. apply (NoDup_lookup _ _ _ Hnd) in Hin.
    destruct (Hs _ _ Hin) as [H1 H2]. split; [apply Hc|]. split; [|exact H2].
    rewrite Hc. unfold instances. destruct (key_ops k (all_operations c)); [contradiction|simpl; lia].
  - intros k Hpos. destruct (lookup k qs) as [s|] eqn:El.
    + exists (count Z.eqb k ni), s. apply in_map_iff. exists (k, s). split; [reflexivity|].
      apply lookup_In. exact El.
    + apply Hn in El. unfold instances in Hpos. rewrite El in Hpos. simpl in Hpos. lia.
Qed.

(* the function raises exactly when two measurements of one key differ in qid shape *)
Theorem measurement_shapes_defined c :
  measurement_shapes c <> None <-> shapes_consistent (all_operations c).
Proof.
  split.
  - intros H. destruct (measurement_shapes c) as [l|] eqn:E; [|congruence].
    destruct (measurement_shapes_spec c l E) as (_ & Hb & Hc).
    intros k s s' H1 H2.
    assert (Hpos : (0 < instances k (all_operations c))%nat).
    { unfold instances. destruct (key_ops k (all_operations c)); [contradiction|simpl; lia]. }
    destruct (Hc k Hpos) as (n & s0 & Hin). destruct (Hb k n s0 Hin) as (_ & _ & Hall).
    rewrite (Hall s H1), (Hall s' H2). reflexivity.
  - intros Hcons. unfold measurement_shapes.
    pose proof (shapes_loop_total (all_operations c) [] [] [] inv_nil Hcons) as H.
    destruct (shapes_loop (all_operations c) [] []) as [[qs ni]|]; [discriminate|congruence].
Qed.

(* how the operations are grouped into moments does not matter *)
Theorem measurement_shapes_regroup c1 c2 :
  all_operations c1 = all_operations c2 -> measurement_shapes c1 = measurement_shapes c2.
Proof. unfold measurement_shapes. intros ->. reflexivity. Qed.

(* a key's instances are counted moment by moment, every operation of a moment counting *)
Theorem instances_moments k c : instances k (all_operations c) = list_sum (map (instances k) c).
Proof.
  unfold all_operations. induction c as [|m c IH]; simpl; [reflexivity|].
  rewrite instances_app, IH. reflexivity.
Qed.

(* parallel readout: a moment of n measurements under one key holds n instances of it *)
Theorem instances_parallel_readout k shapes : instances k (map (fun s => Some (k, s)) shapes) = length shapes.
Proof.
  unfold instances, key_ops. induction shapes as [|s l IH]; simpl; [reflexivity|].
  rewrite Z.eqb_refl. simpl. rewrite IH. reflexivity.
Qed.

Lemma rec_wf_zeros reps inst nq : rec_wf (zeros_rec reps inst nq) = true.
Proof.
  unfold rec_wf, zeros_rec. simpl. apply forallb_repeat. unfold rep_wf.
  rewrite repeat_length, Nat.eqb_refl. simpl. apply forallb_repeat. unfold row_wf.
  rewrite repeat_length. apply Nat.eqb_refl.
Qed.

(* the records ZerosSampler builds have the documented shape (repetitions, instances, qubits), all digits 0 *)
Theorem zeros_result_shape reps c r k rc : zeros_result reps c = Some r -> In (k, rc) r ->
  rec_wf rc = true /\ length (r_data rc) = reps /\
  r_inst rc = instances k (all_operations c) /\ (0 < r_inst rc)%nat /\
  (forall s, In s (key_ops k (all_operations c)) -> r_nq rc = length s) /\
  (forall rep row d, In rep (r_data rc) -> In row rep -> In d row -> d = 0).
Proof.
  unfold zeros_result. destruct (measurement_shapes c) as [l|] eqn:E; [|discriminate].
  simpl. intros H Hin. inversion H; subst r. clear H.
  apply in_map_iff in Hin. destruct Hin as [[k0 [n s]] [Heq Hin]]. simpl in Heq.
  inversion Heq; subst. clear Heq.
  destruct (measurement_shapes_spec c l E) as (_ & Hb & _).
  destruct (Hb k n s Hin) as (Hn & Hpos & Hall).
  split; [apply rec_wf_zeros|]. simpl.
  split; [apply repeat_length|]. split; [exact Hn|]. split; [exact Hpos|]. split.
  - intros s' Hs'. rewrite (Hall s' Hs'). reflexivity.
  - intros rep row d H1 H2 H3. apply repeat_spec in H1. subst rep.
    apply repeat_spec in H2. subst row. apply repeat_spec in H3. exact H3.
Qed.

Lemma reference_rec_uniform reps k ops s :
  In s (key_ops k ops) -> (forall s', In s' (key_ops k ops) -> s' = s) ->
  reference_rec reps k ops = zeros_rec reps (instances k ops) (length s).
Proof.
  unfold reference_rec, zeros_rec, instances. intros H1 H2.
  rewrite (map_all_eq (fun s1 : list Z => repeat 0 (length s1)) s _ H2).
  destruct (key_ops k ops) as [|s0 rest]; [contradiction|].
  rewrite (H2 s0 (or_introl eq_refl)). reflexivity.
Qed.

(* ... and are exactly the records of a run in which every measurement operation, one after the other,
   yields zeros: same keys in the same order, same instances, same widths *)
Theorem zeros_result_is_reference reps c r : zeros_result reps c = Some r -> r = reference_result reps c.
Proof.
  unfold zeros_result, measurement_shapes, reference_result.
  destruct (shapes_loop (all_operations c) [] []) as [[qs ni]|] eqn:E; [|discriminate].
  simpl. intros H. inversion H; subst r. clear H.
  pose proof (shapes_loop_inv _ _ _ _ _ _ inv_nil E) as (Hnd & Hc & Hs & Hn).
  pose proof (shapes_loop_keys _ _ _ _ _ E) as Hk. simpl in *.
  rewrite <- Hk, !map_map. apply map_ext_in. intros [k s] Hin. simpl.
  apply (NoDup_lookup _ _ _ Hnd) in Hin. destruct (Hs _ _ Hin) as [H1 H2].
  f_equal. rewrite Hc. symmetry. apply reference_rec_uniform; assumption.
Qed.
