(* Proofs for Codec/CanonForm.v *)
From Coq Require Import ZArith Bool Lia.
From VF Require Import Codec.CanonForm.
Local Open Scope Z_scope.

(* ---------- part 1 ---------- *)
Theorem stored_roundtrip_exact : forall (V : Type) (v : V), doc_roundtrip write_stored v = v.
Proof. reflexivity. Qed.

(* a writer that puts down a representative: behaviour comes back for every value iff the representative behaves alike *)
Theorem rep_roundtrip_behaviour_iff : forall (V O : Type) (rep : V -> V) (obs : V -> O),
  (forall v, obs (doc_roundtrip rep v) = obs v) <-> (forall v, obs (rep v) = obs v).
Proof. intros; unfold doc_roundtrip; split; auto. Qed.

(* == (equality of canonical forms) comes back whenever the canonical form is idempotent, whatever the behaviour *)
Theorem canon_roundtrip_keeps_eq : forall (V : Type) (canon : V -> V),
  (forall v, canon (canon v) = canon v) -> forall v, canon (doc_roundtrip canon v) = canon v.
Proof. intros V canon H v; unfold doc_roundtrip; apply H. Qed.

(* ---------- part 2 ---------- *)
Lemma wrap_range : forall H v, 0 < H -> - H < wrap H v <= H.
Proof.
  intros H v HH; unfold wrap.
  assert (B : 0 <= v mod (2 * H) < 2 * H) by (apply Z.mod_pos_bound; lia).
  destruct (Z.ltb_spec H (v mod (2 * H))); lia.
Qed.

Lemma wrap_fixed : forall H v, 0 < H -> - H < v <= H -> wrap H v = v.
Proof.
  intros H v HH Hv; unfold wrap.
  destruct (Z_lt_le_dec v 0) as [Hn|Hp].
  - assert (E : v mod (2 * H) = v + 2 * H).
    { symmetry; apply (Z.mod_unique v (2 * H) (-1) (v + 2 * H)); [left; lia|lia]. }
    rewrite E. destruct (Z.ltb_spec H (v + 2 * H)); lia.
  - rewrite Z.mod_small by lia. destruct (Z.ltb_spec H v); lia.
Qed.

Lemma wrap_zero : forall H, 0 < H -> wrap H 0 = 0.
Proof. intros H HH; apply wrap_fixed; lia. Qed.

Ltac wrap_facts D HD :=
  match goal with |- context [wrap D ?v] => pose proof (wrap_range D v HD) end;
  match goal with |- context [wrap (2 * D) ?v] => pose proof (wrap_range (2 * D) v ltac:(lia)) end.

Theorem pxz_canon_in_range : forall D g, 0 < D -> pxz_in_range D (pxz_canon D g).
Proof.
  intros D [[x z] a] HD; unfold pxz_canon, pxz_in_range.
  set (x1 := if x <? 0 then - x else x).
  set (a1 := if x <? 0 then a + 2 * D else a).
  assert (B : 0 <= x1 mod (2 * D) < 2 * D) by (apply Z.mod_pos_bound; lia).
  set (x2 := x1 mod (2 * D)) in *.
  destruct (Z.eqb_spec x2 0) as [E0|N0].
  - (* x2 = 0 *)
    assert (F : (x2 =? D) = false) by (apply Z.eqb_neq; lia).
    rewrite F; cbn [andb negb]. wrap_facts D HD.
    repeat split; try lia; intros; try lia.
    apply wrap_zero; lia.
  - destruct (Z.ltb_spec D x2) as [HG|HL].
    + (* D < x2 < 2D : x3 = 2D - x2 in (0, D) *)
      assert (F : (2 * D - x2 =? D) = false) by (apply Z.eqb_neq; lia).
      rewrite F; cbn [andb negb]. wrap_facts D HD.
      repeat split; try lia; intros; try lia.
    + (* 0 < x2 <= D *)
      destruct (Z.eqb_spec x2 D) as [ED|ND]; cbn [andb negb].
      * destruct (Z.eqb_spec z 0) as [Ez|Nz]; cbn [andb negb]; wrap_facts D HD;
          repeat split; try lia; intros; try lia.
        -- subst z; apply wrap_zero; lia.
        -- apply wrap_zero; lia.
      * wrap_facts D HD. repeat split; try lia; intros; try lia.
Qed.

Theorem pxz_canon_fixes_range : forall D g, 0 < D -> pxz_in_range D g -> pxz_canon D g = g.
Proof.
  intros D [[x z] a] HD (Hx & Hz & Ha & H0 & H1); unfold pxz_canon.
  assert (L : (x <? 0) = false) by (apply Z.ltb_ge; lia).
  rewrite L. rewrite (Z.mod_small x (2 * D)) by lia.
  destruct (Z.eqb_spec x 0) as [E0|N0].
  - assert (F : (x =? D) = false) by (apply Z.eqb_neq; lia).
    rewrite F; cbn [andb negb]. rewrite (H0 E0). rewrite wrap_zero by lia. rewrite wrap_fixed by lia. reflexivity.
  - assert (G : (D <? x) = false) by (apply Z.ltb_ge; lia).
    rewrite G.
    destruct (Z.eqb_spec x D) as [ED|ND]; cbn [andb negb].
    + assert (Ez : z = 0) by auto. subst z. rewrite Z.eqb_refl. cbn [andb negb].
      rewrite wrap_zero by lia. rewrite wrap_fixed by lia. reflexivity.
    + rewrite !wrap_fixed by lia. reflexivity.
Qed.

Theorem pxz_canon_idempotent : forall D g, 0 < D -> pxz_canon D (pxz_canon D g) = pxz_canon D g.
Proof. intros D g HD; apply pxz_canon_fixes_range; [exact HD|apply pxz_canon_in_range; exact HD]. Qed.

Lemma pxz_eqb_refl : forall g, pxz_eqb g g = true.
Proof. intros [[x z] a]; unfold pxz_eqb; rewrite !Z.eqb_refl; reflexivity. Qed.

(* the writer of the code: everything comes back *)
Theorem pxz_stored_roundtrip : forall D g, doc_roundtrip (pxz_write_stored D) g = g.
Proof. reflexivity. Qed.

(* the canonical writer: what is read back is == the value written ... *)
Theorem pxz_canon_writer_keeps_eq : forall D g, 0 < D -> pxz_same D (doc_roundtrip (pxz_write_canon D) g) g = true.
Proof.
  intros D g HD; unfold pxz_same, doc_roundtrip, pxz_write_canon.
  rewrite pxz_canon_idempotent by exact HD. apply pxz_eqb_refl.
Qed.

(* ... exactly the value written when its exponents are in the canonical ranges (all a stored example shows) ... *)
Theorem pxz_canon_writer_exact_in_range : forall D g, 0 < D -> pxz_in_range D g ->
  doc_roundtrip (pxz_write_canon D) g = g.
Proof. intros D g HD HR; unfold doc_roundtrip, pxz_write_canon; apply pxz_canon_fixes_range; assumption. Qed.

(* ... and another gate (the determinant of its matrix has another phase) for x_exponent = -1/2 *)
Theorem pxz_canon_writer_behaviour_refuted : exists D g, 0 < D /\
  pxz_same D (doc_roundtrip (pxz_write_canon D) g) g = true /\
  pxz_det_phase D (doc_roundtrip (pxz_write_canon D) g) <> pxz_det_phase D g.
Proof. exists 2, (-1, 0, 0). split; [lia|]. split; [reflexivity|]. vm_compute. discriminate. Qed.

Lemma canon_form_examples :
  pxz_in_range 8 (4, 2, 12) /\ pxz_canon 8 (4, 2, 12) = (4, 2, 12) /\
  pxz_canon 8 (-4, 2, 2) = (4, 2, -14) /\ pxz_canon 8 (12, 2, 2) = (4, 2, -14) /\
  pxz_canon 8 (8, 4, 4) = (8, 0, 8) /\ pxz_canon 8 (16, 2, 5) = (0, 2, 0) /\
  pxz_det_phase 8 (-4, 2, 2) = 14 /\ pxz_det_phase 8 (4, 2, -14) = 6.
Proof. repeat split; try reflexivity; try lia; intros; try lia. Qed.
