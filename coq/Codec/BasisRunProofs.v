From Coq Require Import ZArith List Bool Lia.
From VF Require Import Base.Harness Codec.ResultViews Codec.BasisRun.
Import ListNotations.
Open Scope Z_scope.

Lemma nth_map_seq {A} (f : nat -> A) (n r : nat) (d : A) :
  (r < n)%nat -> nth r (map f (seq 0 n)) d = f r.
Proof.
  intros Hr.
  rewrite (nth_indep _ d (f 0%nat)) by (rewrite map_length, seq_length; exact Hr).
  rewrite map_nth. rewrite seq_nth by exact Hr. reflexivity.
Qed.

Lemma map_const_seq {A} (x : A) (n s : nat) : map (fun _ => x) (seq s n) = repeat x n.
Proof. revert s. induction n as [|n IH]; intros s; simpl; [reflexivity|]. rewrite IH. reflexivity. Qed.

(* one repetition of the swapped stack: instance by instance what that measurement cut out of the sample *)
Lemma stacked_row reps k sample ops r : (r < reps)%nat ->
  map (fun per_instance : list (list Z) => nth r per_instance []) (stacked reps k sample ops)
  = map (read (sample r)) (key_measurements k ops).
Proof.
  intros Hr. unfold stacked, key_measurements.
  induction ops as [|o ops IH]; [reflexivity|].
  destruct o as [q a|k' qs]; simpl; [exact IH|].
  destruct (k =? k'); simpl; [|exact IH].
  rewrite IH. rewrite (nth_map_seq (fun r0 : nat => read (sample r0) qs)) by exact Hr. reflexivity.
Qed.

Theorem one_shot_length reps k sample ops : length (one_shot_records reps k sample ops) = reps.
Proof. unfold one_shot_records, swapaxes01. rewrite map_length, seq_length. reflexivity. Qed.

(* records[k][rep][inst] = the digits the inst-th measurement carrying k read in repetition rep *)
Theorem one_shot_spec reps k sample ops r : (r < reps)%nat ->
  nth r (one_shot_records reps k sample ops) [] = map (read (sample r)) (key_measurements k ops).
Proof.
  intros Hr. unfold one_shot_records, swapaxes01.
  rewrite nth_map_seq by exact Hr. apply stacked_row. exact Hr.
Qed.

Theorem one_shot_whole reps k sample ops :
  one_shot_records reps k sample ops = map (fun r => map (read (sample r)) (key_measurements k ops)) (seq 0 reps).
Proof.
  unfold one_shot_records, swapaxes01. apply map_ext_in. intros r Hin.
  apply in_seq in Hin. apply stacked_row. lia.
Qed.

Theorem general_records_repeat reps k dims ops :
  general_records reps k dims ops = repeat (rows_of k (run_once dims (zero_state dims) ops)) reps.
Proof. unfold general_records. apply map_const_seq. Qed.

(* ---- the two paths agree when all measurements are terminal ---- *)
Definition step (dims : list Z) (st : list Z) (o : bop) : list Z :=
  match o with Shift q a => apply_shift dims st q a | Meas _ _ => st end.

Lemma only_meas_state dims ops : only_meas ops = true -> forall st, fold_left (step dims) ops st = st.
Proof.
  induction ops as [|o ops IH]; intros H st; [reflexivity|].
  destruct o as [q a|k' qs]; simpl in H; [discriminate|]. simpl. apply IH. exact H.
Qed.

Lemma only_meas_rows dims k ops : only_meas ops = true -> forall st,
  rows_of k (run_once dims st ops) = map (read st) (key_measurements k ops).
Proof.
  induction ops as [|o ops IH]; intros H st; [reflexivity|].
  destruct o as [q a|k' qs]; simpl in H; [discriminate|].
  unfold rows_of, key_measurements in *. simpl.
  destruct (k =? k'); simpl; rewrite (IH H st); reflexivity.
Qed.

Lemma terminal_rows dims k ops : terminal ops = true -> forall st,
  rows_of k (run_once dims st ops) = map (read (fold_left (step dims) ops st)) (key_measurements k ops).
Proof.
  induction ops as [|o ops IH]; intros H st; [reflexivity|].
  destruct o as [q a|k' qs]; simpl in H.
  - simpl. rewrite (IH H). reflexivity.
  - change (fold_left (step dims) (Meas k' qs :: ops) st) with (fold_left (step dims) ops st).
    rewrite (only_meas_state dims ops H st).
    change (run_once dims st (Meas k' qs :: ops)) with ((k', read st qs) :: run_once dims st ops).
    pose proof (only_meas_rows dims k ops H st) as HR.
    unfold rows_of, key_measurements in *. simpl.
    destruct (k =? k'); simpl; rewrite HR; reflexivity.
Qed.

Theorem terminal_paths_agree reps k dims ops : terminal ops = true ->
  one_shot_records reps k (fun _ => final_state dims ops) ops = general_records reps k dims ops.
Proof.
  intros H. rewrite one_shot_whole. unfold general_records.
  apply map_ext. intros r. unfold final_state.
  change (fun (st : list Z) (o : bop) => match o with Shift q a => apply_shift dims st q a | Meas _ _ => st end) with (step dims).
  symmetry. apply terminal_rows. exact H.
Qed.

(* every repetition of a basis-state run holds, instance by instance, what the measurements of the key read *)
Theorem general_records_spec reps k dims ops r : (r < reps)%nat ->
  nth r (general_records reps k dims ops) [] = rows_of k (run_once dims (zero_state dims) ops).
Proof.
  intros Hr. unfold general_records.
  apply (nth_map_seq (fun _ : nat => rows_of k (run_once dims (zero_state dims) ops))). exact Hr.
Qed.

Theorem rows_instances dims k ops : forall st, length (rows_of k (run_once dims st ops)) = length (key_measurements k ops).
Proof.
  induction ops as [|o ops IH]; intros st; [reflexivity|].
  destruct o as [q a|k' qs].
  - simpl. rewrite IH. reflexivity.
  - change (run_once dims st (Meas k' qs :: ops)) with ((k', read st qs) :: run_once dims st ops).
    specialize (IH st). unfold rows_of, key_measurements in *. simpl.
    destruct (k =? k'); simpl; rewrite ?app_length; simpl; rewrite IH; reflexivity.
Qed.
