From Coq Require Import List Bool Arith Lia.
From VF Require Import Codec.Intern.
Import ListNotations.

Section Proofs.
  Variables Q G T P : Type.
  Variable eqQ : Q -> Q -> bool.
  Variable eqG : G -> G -> bool.
  Variable eqT : T -> T -> bool.
  Variable eqP : P -> P -> bool.
  Hypothesis eqQ_spec : forall a b, eqQ a b = true <-> a = b.
  Hypothesis eqG_spec : forall a b, eqG a b = true <-> a = b.
  Hypothesis eqT_spec : forall a b, eqT a b = true <-> a = b.
  Hypothesis eqP_spec : forall a b, eqP a b = true <-> a = b.

  Local Notation op := (op Q G T P).
  Local Notation moment := (moment Q G T P).
  Local Notation circuit := (circuit Q G T P).
  Local Notation key := (key Q G T P).
  Local Notation constant := (constant Q G T P).
  Local Notation value := (value Q G T P).
  Local Notation state := (state Q G T P).
  Local Notation lookup := (lookup eqQ eqG eqT eqP).
  Local Notation key_eqb := (key_eqb eqQ eqG eqT eqP).
  Local Notation op_eqb := (op_eqb eqQ eqG eqT eqP).
  Local Notation moment_eqb := (moment_eqb eqQ eqG eqT eqP).
  Local Notation circuit_eqb := (circuit_eqb eqQ eqG eqT eqP).
  Local Notation ser_qubit := (ser_qubit eqQ eqG eqT eqP).
  Local Notation ser_tag := (ser_tag eqQ eqG eqT eqP).
  Local Notation ser_gate_new := (ser_gate_new eqQ eqG eqT eqP).
  Local Notation ser_op := (ser_op eqQ eqG eqT eqP).
  Local Notation ser_moment := (ser_moment eqQ eqG eqT eqP).
  Local Notation ser_body := (ser_body eqQ eqG eqT eqP).
  Local Notation serialize := (serialize eqQ eqG eqT eqP).

  (* ------------------------------------------------------------ induction on the nested mutual type *)
  Section Ind.
    Variables (Po : op -> Prop) (Pm : moment -> Prop) (Pc : circuit -> Prop).
    Hypothesis Hgate : forall g qs ts, Po (Gate g qs ts).
    Hypothesis Hcirc : forall p c, Pc c -> Po (Circ p c).
    Hypothesis Hmom : forall ops ts, Forall Po ops -> Pm (Mom ops ts).
    Hypothesis Hcir : forall ms ts, Forall Pm ms -> Pc (Cir ms ts).
    Fixpoint op_ind' (o : op) : Po o :=
      match o with
      | Gate g qs ts => Hgate g qs ts
      | Circ p c => Hcirc p c (cir_ind' c)
      end
    with mom_ind' (m : moment) : Pm m :=
      match m with
      | Mom ops ts => Hmom ops ts ((fix go (l : list op) : Forall Po l :=
                                      match l with
                                      | [] => Forall_nil Po
                                      | o :: r => Forall_cons o (op_ind' o) (go r)
                                      end) ops)
      end
    with cir_ind' (c : circuit) : Pc c :=
      match c with
      | Cir ms ts => Hcir ms ts ((fix go (l : list moment) : Forall Pm l :=
                                    match l with
                                    | [] => Forall_nil Pm
                                    | m :: r => Forall_cons m (mom_ind' m) (go r)
                                    end) ms)
      end.
    Theorem tree_ind : (forall o, Po o) /\ (forall m, Pm m) /\ (forall c, Pc c).
    Proof. exact (conj op_ind' (conj mom_ind' cir_ind')). Qed.
  End Ind.

  (* ------------------------------------------------------------ the derived equality tests decide equality *)
  Lemma leqb_spec_in {A} (e : A -> A -> bool) (l : list A) :
    Forall (fun x => forall y, e x y = true <-> x = y) l -> forall l', leqb e l l' = true <-> l = l'.
  Proof.
    induction 1 as [|x l Hx _ IH]; intros [|y l']; simpl; split; intros H; try discriminate; try reflexivity.
    - apply andb_true_iff in H. destruct H as [H1 H2]. apply Hx in H1. apply IH in H2. subst. reflexivity.
    - injection H as <- <-. apply andb_true_iff. split; [apply Hx; reflexivity|apply IH; reflexivity].
  Qed.
  Lemma leqb_spec {A} (e : A -> A -> bool) : (forall x y, e x y = true <-> x = y) ->
    forall l l', leqb e l l' = true <-> l = l'.
  Proof. intros H l. apply leqb_spec_in. apply Forall_forall. intros x _. apply H. Qed.

  Lemma moment_eqb_unfold ops ts ops' ts' :
    moment_eqb (Mom ops ts) (Mom ops' ts') = leqb op_eqb ops ops' && leqb eqT ts ts'.
  Proof. reflexivity. Qed.
  Lemma circuit_eqb_unfold ms ts ms' ts' :
    circuit_eqb (Cir ms ts) (Cir ms' ts') = leqb moment_eqb ms ms' && leqb eqT ts ts'.
  Proof. reflexivity. Qed.

  Lemma op_eqb_gate g qs ts g' qs' ts' :
    op_eqb (Gate g qs ts) (Gate g' qs' ts') = eqG g g' && leqb eqQ qs qs' && leqb eqT ts ts'.
  Proof. reflexivity. Qed.
  Lemma op_eqb_circ p c p' c' : op_eqb (Circ p c) (Circ p' c') = eqP p p' && circuit_eqb c c'.
  Proof. reflexivity. Qed.

  Theorem eqb_specs :
    (forall a b : op, op_eqb a b = true <-> a = b) /\
    (forall a b : moment, moment_eqb a b = true <-> a = b) /\
    (forall a b : circuit, circuit_eqb a b = true <-> a = b).
  Proof.
    apply tree_ind.
    - intros g qs ts [g' qs' ts'|p c]; [|simpl; split; discriminate].
      rewrite op_eqb_gate, !andb_true_iff, eqG_spec, (leqb_spec eqQ eqQ_spec), (leqb_spec eqT eqT_spec).
      split; [intros [[-> ->] ->]; reflexivity|intros H; injection H as -> -> ->; auto].
    - intros p c IH [g' qs' ts'|p' c']; [simpl; split; discriminate|].
      rewrite op_eqb_circ, andb_true_iff, eqP_spec, IH. split; [intros [-> ->]; reflexivity|intros H; injection H as -> ->; auto].
    - intros ops ts IH [ops' ts']. rewrite moment_eqb_unfold, andb_true_iff.
      rewrite (leqb_spec_in op_eqb ops IH), (leqb_spec eqT eqT_spec).
      split; [intros [-> ->]; reflexivity|intros H; injection H as -> ->; auto].
    - intros ms ts IH [ms' ts']. rewrite circuit_eqb_unfold, andb_true_iff.
      rewrite (leqb_spec_in moment_eqb ms IH), (leqb_spec eqT eqT_spec).
      split; [intros [-> ->]; reflexivity|intros H; injection H as -> ->; auto].
  Qed.

  Theorem key_eqb_spec (a b : key) : key_eqb a b = true <-> a = b.
  Proof.
    destruct eqb_specs as (Ho & Hm & Hc).
    destruct a, b; simpl; try (split; discriminate).
    - rewrite eqQ_spec. split; [intros ->; reflexivity|intros H; injection H; auto].
    - rewrite eqT_spec. split; [intros ->; reflexivity|intros H; injection H; auto].
    - rewrite Ho. split; [intros ->; reflexivity|intros H; injection H; auto].
    - rewrite Hm. split; [intros ->; reflexivity|intros H; injection H; auto].
    - rewrite Hc. split; [intros ->; reflexivity|intros H; injection H; auto].
  Qed.

  Lemma lookup_sound k m i : lookup k m = Some i -> In (k, i) m.
  Proof.
    induction m as [|[k' j] m IH]; simpl; [discriminate|].
    destruct (key_eqb k k') eqn:E.
    - intros H. injection H as ->. apply key_eqb_spec in E. subst. left. reflexivity.
    - intros H. right. apply IH. exact H.
  Qed.
  Lemma lookup_none k m : lookup k m = None -> forall i, ~ In (k, i) m.
  Proof.
    induction m as [|[k' j] m IH]; simpl; intros H i; [tauto|].
    destruct (key_eqb k k') eqn:E; [discriminate|]. intros [Hin|Hin].
    - injection Hin as -> ->. assert (key_eqb k k = true) by (apply key_eqb_spec; reflexivity). congruence.
    - apply (IH H i Hin).
  Qed.

  (* ------------------------------------------------------------ decoding: one pass, monotone in the table *)
  Lemma decode_consts_snoc (cs : list constant) c :
    decode_consts (cs ++ [c]) = decode_step (decode_consts cs) c.
  Proof. unfold decode_consts. rewrite fold_left_app. reflexivity. Qed.

  Lemma decode_consts_length (cs : list constant) : forall vals, decode_consts cs = Some vals -> length vals = length cs.
  Proof.
    induction cs as [|c cs IH] using rev_ind; intros vals H.
    - injection H as <-. reflexivity.
    - rewrite decode_consts_snoc in H. destruct (decode_consts cs) as [v0|]; [|discriminate]. simpl in H.
      destruct (decode_const v0 c); [|discriminate]. injection H as <-.
      rewrite !app_length, (IH v0 eq_refl). reflexivity.
  Qed.

  Lemma nth_error_mono {A} (l more : list A) i v : nth_error l i = Some v -> nth_error (l ++ more) i = Some v.
  Proof. intros H. rewrite nth_error_app1; [exact H|]. apply nth_error_Some. congruence. Qed.

  Definition dec_mono {R Y} (dec : list value -> R -> option Y) : Prop :=
    forall vals more r y, dec vals r = Some y -> dec (vals ++ more) r = Some y.

  Lemma getQ_mono : dec_mono getQ.
  Proof. intros vals more i y. unfold getQ. destruct (nth_error vals i) as [v|] eqn:E; [|discriminate]. rewrite (nth_error_mono _ more _ _ E). auto. Qed.
  Lemma getT_mono : dec_mono getT.
  Proof. intros vals more i y. unfold getT. destruct (nth_error vals i) as [v|] eqn:E; [|discriminate]. rewrite (nth_error_mono _ more _ _ E). auto. Qed.
  Lemma getOp_mono : dec_mono getOp.
  Proof. intros vals more i y. unfold getOp. destruct (nth_error vals i) as [v|] eqn:E; [|discriminate]. rewrite (nth_error_mono _ more _ _ E). auto. Qed.
  Lemma getMom_mono : dec_mono getMom.
  Proof. intros vals more i y. unfold getMom. destruct (nth_error vals i) as [v|] eqn:E; [|discriminate]. rewrite (nth_error_mono _ more _ _ E). auto. Qed.
  Lemma getCir_mono : dec_mono getCir.
  Proof. intros vals more i y. unfold getCir. destruct (nth_error vals i) as [v|] eqn:E; [|discriminate]. rewrite (nth_error_mono _ more _ _ E). auto. Qed.
  Lemma getCop_mono : dec_mono getCop.
  Proof.
    intros vals more pi y. unfold getCop. destruct (getCir vals (snd pi)) as [c|] eqn:E; [|discriminate].
    rewrite (getCir_mono _ more _ _ E). auto.
  Qed.

  Lemma mapO_mono {R Y} (dec : list value -> R -> option Y) : dec_mono dec -> dec_mono (fun vals => mapO (dec vals)).
  Proof.
    intros Hm vals more rs. induction rs as [|r rs IH]; intros ys H; simpl in *; [exact H|].
    destruct (dec vals r) as [y|] eqn:E; [|discriminate]. rewrite (Hm _ more _ _ E).
    destruct (mapO (dec vals) rs) as [ys'|]; [|discriminate]. rewrite (IH ys' eq_refl). exact H.
  Qed.

  Lemma decode_body_mono : dec_mono decode_body.
  Proof.
    intros vals more body c. unfold decode_body.
    destruct (mapO (getMom vals) (fst body)) as [ms|] eqn:E1; [|discriminate].
    destruct (mapO (getT vals) (snd body)) as [ts|] eqn:E2; [|discriminate].
    rewrite (mapO_mono getMom getMom_mono _ more _ _ E1), (mapO_mono getT getT_mono _ more _ _ E2). auto.
  Qed.

  (* ------------------------------------------------------------ the invariant of serialisation *)
  Definition val_of_key (k : key) : value :=
    match k with
    | KQ q => VQ q
    | KT t => VT t
    | KOp o => VOp (canon_op o)
    | KMom m => VMom (canon_moment m)
    | KCir c => VCir (canon_circuit c)
    end.

  (* the table decodes, and every entry of raw_constants points at the decoded form of its key *)
  Definition Inv (st : state) (vals : list value) : Prop :=
    decode_consts (consts st) = Some vals /\
    forall k i, In (k, i) (raw st) -> nth_error vals i = Some (val_of_key k).

  Lemma Inv_empty : Inv empty [].
  Proof. split; [reflexivity|intros k i []]. Qed.

  Lemma push_inv st vals c k i st' :
    Inv st vals -> decode_const vals c = Some (val_of_key k) -> push c k st = (i, st') ->
    Inv st' (vals ++ [val_of_key k]) /\ nth_error (vals ++ [val_of_key k]) i = Some (val_of_key k).
  Proof.
    intros [Hd Hr] Hc Hp. unfold push in Hp. injection Hp as <- <-.
    pose proof (decode_consts_length _ _ Hd) as Hl.
    assert (Hn : nth_error (vals ++ [val_of_key k]) (length (consts st)) = Some (val_of_key k)).
    { rewrite <- Hl, nth_error_app2, Nat.sub_diag by lia. reflexivity. }
    split; [split|exact Hn]; cbn [consts raw].
    - rewrite decode_consts_snoc, Hd. simpl. rewrite Hc. reflexivity.
    - intros k' i' Hin. apply in_app_or in Hin. destruct Hin as [Hin|[Hin|[]]].
      + apply nth_error_mono. apply Hr. exact Hin.
      + injection Hin as <- <-. exact Hn.
  Qed.

  (* a serialiser is correct at x when, from any good state, it leaves a good state whose table extends the old one
     and the reference it returns decodes to the specified value *)
  Definition ser_ok {X R Y} (f : X -> state -> R * state) (dec : list value -> R -> option Y) (spec : X -> Y) (x : X) : Prop :=
    forall st vals r st', Inv st vals -> f x st = (r, st') ->
      exists more, Inv st' (vals ++ more) /\ dec (vals ++ more) r = Some (spec x).

  Lemma mapS_ok {X R Y} (f : X -> state -> R * state) (dec : list value -> R -> option Y) (spec : X -> Y) xs :
    dec_mono dec -> Forall (ser_ok f dec spec) xs ->
    ser_ok (mapS f) (fun vals => mapO (dec vals)) (map spec) xs.
  Proof.
    intros Hm. induction 1 as [|x xs Hx _ IH]; intros st vals rs st' Hinv Hs.
    - simpl in Hs. injection Hs as <- <-. exists []. rewrite app_nil_r. auto.
    - simpl in Hs. destruct (f x st) as [r s1] eqn:E1. destruct (mapS f xs s1) as [rs' s2] eqn:E2.
      injection Hs as <- <-.
      destruct (Hx _ _ _ _ Hinv E1) as (m1 & Hi1 & Hd1).
      destruct (IH _ _ _ _ Hi1 E2) as (m2 & Hi2 & Hd2).
      exists (m1 ++ m2). rewrite app_assoc. split; [exact Hi2|].
      simpl. rewrite (Hm _ m2 _ _ Hd1), Hd2. reflexivity.
  Qed.

  Lemma ser_qubit_ok q : ser_ok ser_qubit getQ (fun q => q) q.
  Proof.
    intros st vals r st' Hinv Hs. unfold Intern.ser_qubit in Hs.
    destruct (lookup (KQ q) (raw st)) as [i|] eqn:El.
    - injection Hs as <- <-. exists []. rewrite app_nil_r. split; [exact Hinv|].
      destruct Hinv as [_ Hr]. unfold getQ. rewrite (Hr _ _ (lookup_sound _ _ _ El)). reflexivity.
    - destruct (push_inv st vals (CQ q) (KQ q) r st' Hinv eq_refl Hs) as [Hi Hn].
      exists [val_of_key (KQ q)]. split; [exact Hi|]. unfold getQ. rewrite Hn. reflexivity.
  Qed.

  Lemma ser_tag_ok t : ser_ok ser_tag getT (fun t => t) t.
  Proof.
    intros st vals r st' Hinv Hs. unfold Intern.ser_tag in Hs.
    destruct (lookup (KT t) (raw st)) as [i|] eqn:El.
    - injection Hs as <- <-. exists []. rewrite app_nil_r. split; [exact Hinv|].
      destruct Hinv as [_ Hr]. unfold getT. rewrite (Hr _ _ (lookup_sound _ _ _ El)). reflexivity.
    - destruct (push_inv st vals (CT t) (KT t) r st' Hinv eq_refl Hs) as [Hi Hn].
      exists [val_of_key (KT t)]. split; [exact Hi|]. unfold getT. rewrite Hn. reflexivity.
  Qed.

  Lemma Forall_all {A} (Pr : A -> Prop) l : (forall x, Pr x) -> Forall Pr l.
  Proof. intros H. apply Forall_forall. intros x _. apply H. Qed.

  Lemma ser_gate_new_ok g qs ts st vals i st' :
    Inv st vals -> ser_gate_new (Gate g qs ts) g qs ts st = (i, st') ->
    exists more, Inv st' (vals ++ more) /\ getOp (vals ++ more) i = Some (Gate g qs ts).
  Proof.
    intros Hinv Hs. unfold Intern.ser_gate_new in Hs.
    destruct (mapS ser_qubit qs st) as [qidx s1] eqn:E1.
    destruct (mapS ser_tag ts s1) as [tidx s2] eqn:E2.
    destruct (mapS_ok ser_qubit getQ (fun q => q) qs getQ_mono (Forall_all _ _ ser_qubit_ok) _ _ _ _ Hinv E1) as (m1 & Hi1 & Hd1).
    destruct (mapS_ok ser_tag getT (fun t => t) ts getT_mono (Forall_all _ _ ser_tag_ok) _ _ _ _ Hi1 E2) as (m2 & Hi2 & Hd2).
    rewrite map_id in Hd1, Hd2.
    assert (Hc : decode_const ((vals ++ m1) ++ m2) (COp g qidx tidx) = Some (val_of_key (KOp (Gate g qs ts)))).
    { simpl. rewrite (mapO_mono getQ getQ_mono _ m2 _ _ Hd1), Hd2. reflexivity. }
    destruct (push_inv _ _ _ _ _ _ Hi2 Hc Hs) as [Hi3 Hn].
    exists (m1 ++ m2 ++ [val_of_key (KOp (Gate g qs ts))]).
    rewrite !app_assoc in *. split; [exact Hi3|]. unfold getOp. rewrite Hn. reflexivity.
  Qed.

  (* what a moment stores for one operation: a table index for a gate operation, an inline message for a circuit operation *)
  Definition dec_opref (vals : list value) (r : nat + P * nat) : option op :=
    match r with inl i => getOp vals i | inr pi => getCop vals pi end.
  Lemma dec_opref_mono : dec_mono dec_opref.
  Proof. intros vals more [i|pi] y H; simpl in *; [apply getOp_mono|apply getCop_mono]; exact H. Qed.

  Definition kind_ok (o : op) (r : nat + P * nat) : Prop :=
    match o, r with
    | Gate _ _ _, inl _ => True
    | Circ _ _, inr _ => True
    | _, _ => False
    end.

  (* unfolding equations of the mutually recursive serialisers *)
  Lemma ser_op_gate_eq g qs ts st :
    ser_op (Gate g qs ts) st =
    match lookup (KOp (Gate g qs ts)) (raw st) with
    | Some i => (inl i, st)
    | None => let '(i, s) := ser_gate_new (Gate g qs ts) g qs ts st in (inl i, s)
    end.
  Proof. reflexivity. Qed.
  Lemma ser_op_circ_eq p c st :
    ser_op (Circ p c) st =
    match lookup (KCir c) (raw st) with
    | Some i => (inr (p, i), st)
    | None => let '(body, s1) := ser_body c st in
              let '(i, s2) := push (CCir (fst body) (snd body)) (KCir c) s1 in (inr (p, i), s2)
    end.
  Proof. reflexivity. Qed.
  Lemma ser_moment_eq ops ts st :
    ser_moment (Mom ops ts) st =
    match lookup (KMom (Mom ops ts)) (raw st) with
    | Some i => (i, st)
    | None => let '(refs, s1) := mapS ser_op ops st in
              let '(tidx, s2) := mapS ser_tag ts s1 in
              push (CMom (lefts refs) (rights refs) tidx) (KMom (Mom ops ts)) s2
    end.
  Proof. reflexivity. Qed.
  Lemma ser_body_eq ms ts st :
    ser_body (Cir ms ts) st =
    let '(midx, s1) := mapS ser_moment ms st in
    let '(tidx, s2) := mapS ser_tag ts s1 in ((midx, tidx), s2).
  Proof. reflexivity. Qed.

  Lemma ser_op_kind o st r st' : ser_op o st = (r, st') -> kind_ok o r.
  Proof.
    destruct o as [g qs ts|p c]; [rewrite ser_op_gate_eq|rewrite ser_op_circ_eq]; simpl.
    - destruct (lookup (KOp (Gate g qs ts)) (raw st)); [intros H; injection H as <- <-; exact I|].
      destruct (ser_gate_new (Gate g qs ts) g qs ts st) as [i s]. intros H. injection H as <- <-. exact I.
    - destruct (lookup (KCir c) (raw st)); [intros H; injection H as <- <-; exact I|].
      destruct (ser_body c st) as [body s1]. unfold push. intros H. injection H as <- <-. exact I.
  Qed.

  Lemma mapS_Forall2 {X R} (f : X -> state -> R * state) (K : X -> R -> Prop) :
    (forall x st r st', f x st = (r, st') -> K x r) ->
    forall xs st rs st', mapS f xs st = (rs, st') -> Forall2 K xs rs.
  Proof.
    intros HK. induction xs as [|x xs IH]; intros st rs st' H; simpl in H.
    - injection H as <- <-. constructor.
    - destruct (f x st) as [r s1] eqn:E1. destruct (mapS f xs s1) as [rs' s2] eqn:E2.
      injection H as <- <-. constructor; [eapply HK; exact E1|eapply IH; exact E2].
  Qed.

  Lemma split_refs vals ops refs : Forall2 kind_ok ops refs ->
    mapO (dec_opref vals) refs = Some (map canon_op ops) ->
    mapO (getCop vals) (rights refs) = Some (filter is_circ (map canon_op ops)) /\
    mapO (getOp vals) (lefts refs) = Some (filter (fun o => negb (is_circ o)) (map canon_op ops)).
  Proof.
    induction 1 as [|o r ops refs Hk _ IH]; intros H; [split; reflexivity|].
    cbn [map mapO] in H. destruct (dec_opref vals r) as [o'|] eqn:Ed; [|discriminate].
    destruct (mapO (dec_opref vals) refs) as [os|] eqn:Em; [|discriminate].
    injection H as Ho Hos. subst os. destruct (IH eq_refl) as [IHc IHg].
    destruct o as [g qs ts|p c], r as [i|pi]; try contradiction; cbn [map canon_op filter is_circ negb].
    - unfold lefts, rights in *. cbn [flat_map app mapO]. simpl in Ed. rewrite Ed, Ho, IHg. split; [exact IHc|reflexivity].
    - unfold lefts, rights in *. cbn [flat_map app mapO]. simpl in Ed. rewrite Ed, Ho, IHc. split; [reflexivity|exact IHg].
  Qed.

  (* ------------------------------------------------------------ the three mutually recursive serialisers *)
  Theorem ser_ok_all :
    (forall o, ser_ok ser_op dec_opref canon_op o) /\
    (forall m, ser_ok ser_moment getMom canon_moment m) /\
    (forall c, ser_ok ser_body decode_body canon_circuit c).
  Proof.
    apply tree_ind.
    - (* gate operation *)
      intros g qs ts st vals r st' Hinv Hs. rewrite ser_op_gate_eq in Hs.
      destruct (lookup (KOp (Gate g qs ts)) (raw st)) as [i|] eqn:El.
      + injection Hs as <- <-. exists []. rewrite app_nil_r. split; [exact Hinv|].
        destruct Hinv as [_ Hr]. simpl. unfold getOp. rewrite (Hr _ _ (lookup_sound _ _ _ El)). reflexivity.
      + destruct (ser_gate_new (Gate g qs ts) g qs ts st) as [i s] eqn:Eg. injection Hs as <- <-.
        destruct (ser_gate_new_ok _ _ _ _ _ _ _ Hinv Eg) as (more & Hi & Hd). exists more. split; [exact Hi|exact Hd].
    - (* circuit operation *)
      intros p c IH st vals r st' Hinv Hs. rewrite ser_op_circ_eq in Hs.
      destruct (lookup (KCir c) (raw st)) as [i|] eqn:El.
      + injection Hs as <- <-. exists []. rewrite app_nil_r. split; [exact Hinv|].
        destruct Hinv as [_ Hr]. simpl. unfold getCop, getCir. cbn [snd fst].
        rewrite (Hr _ _ (lookup_sound _ _ _ El)). reflexivity.
      + destruct (ser_body c st) as [body s1] eqn:Eb.
        destruct (push (CCir (fst body) (snd body)) (KCir c) s1) as [i s2] eqn:Ep. injection Hs as <- <-.
        destruct (IH _ _ _ _ Hinv Eb) as (m1 & Hi1 & Hd1).
        assert (Hc : decode_const (vals ++ m1) (CCir (fst body) (snd body)) = Some (val_of_key (KCir c))).
        { simpl. destruct body as [midx tidx]. cbn [fst snd]. rewrite Hd1. reflexivity. }
        destruct (push_inv _ _ _ _ _ _ Hi1 Hc Ep) as [Hi2 Hn].
        exists (m1 ++ [val_of_key (KCir c)]). rewrite app_assoc. split; [exact Hi2|].
        unfold dec_opref, getCop, getCir. cbn [snd fst]. rewrite Hn. reflexivity.
    - (* moment *)
      intros ops ts IH st vals r st' Hinv Hs. rewrite ser_moment_eq in Hs.
      destruct (lookup (KMom (Mom ops ts)) (raw st)) as [i|] eqn:El.
      + injection Hs as <- <-. exists []. rewrite app_nil_r. split; [exact Hinv|].
        destruct Hinv as [_ Hr]. unfold getMom. rewrite (Hr _ _ (lookup_sound _ _ _ El)). reflexivity.
      + destruct (mapS ser_op ops st) as [refs s1] eqn:E1.
        destruct (mapS ser_tag ts s1) as [tidx s2] eqn:E2.
        destruct (mapS_ok ser_op dec_opref canon_op ops dec_opref_mono IH _ _ _ _ Hinv E1) as (m1 & Hi1 & Hd1).
        destruct (mapS_ok ser_tag getT (fun t => t) ts getT_mono (Forall_all _ _ ser_tag_ok) _ _ _ _ Hi1 E2) as (m2 & Hi2 & Hd2).
        rewrite map_id in Hd2.
        pose proof (mapS_Forall2 ser_op kind_ok ser_op_kind _ _ _ _ E1) as Hk.
        pose proof (mapO_mono dec_opref dec_opref_mono _ m2 _ _ Hd1) as Hd1'.
        destruct (split_refs _ _ _ Hk Hd1') as [Hc Hg].
        assert (Hcst : decode_const ((vals ++ m1) ++ m2) (CMom (lefts refs) (rights refs) tidx) = Some (val_of_key (KMom (Mom ops ts)))).
        { simpl. rewrite Hc, Hg, Hd2. reflexivity. }
        destruct (push_inv _ _ _ _ _ _ Hi2 Hcst Hs) as [Hi3 Hn].
        exists (m1 ++ m2 ++ [val_of_key (KMom (Mom ops ts))]). rewrite !app_assoc in *. split; [exact Hi3|].
        unfold getMom. rewrite Hn. reflexivity.
    - (* circuit body *)
      intros ms ts IH st vals r st' Hinv Hs. rewrite ser_body_eq in Hs.
      destruct (mapS ser_moment ms st) as [midx s1] eqn:E1.
      destruct (mapS ser_tag ts s1) as [tidx s2] eqn:E2. injection Hs as <- <-.
      destruct (mapS_ok ser_moment getMom canon_moment ms getMom_mono IH _ _ _ _ Hinv E1) as (m1 & Hi1 & Hd1).
      destruct (mapS_ok ser_tag getT (fun t => t) ts getT_mono (Forall_all _ _ ser_tag_ok) _ _ _ _ Hi1 E2) as (m2 & Hi2 & Hd2).
      rewrite map_id in Hd2. exists (m1 ++ m2). rewrite app_assoc. split; [exact Hi2|].
      unfold decode_body. cbn [fst snd]. rewrite (mapO_mono getMom getMom_mono _ m2 _ _ Hd1), Hd2. reflexivity.
  Qed.

  (* deserialize(serialize(c)) is c, with each moment listing its circuit operations first (Moment equality ignores
     the order of operations inside a moment) *)
  Theorem intern_roundtrip (c : circuit) : deserialize (serialize c) = Some (canon_circuit c).
  Proof.
    unfold Intern.serialize, deserialize. destruct (ser_body c empty) as [body st] eqn:E.
    destruct ser_ok_all as (_ & _ & Hc). destruct (Hc c _ _ _ _ Inv_empty E) as (more & [Hd _] & Hb).
    cbn [fst snd app] in *. rewrite Hd. exact Hb.
  Qed.

  (* ------------------------------------------------------------ exact round trip when circuit operations come first *)
  Fixpoint cf_op (o : op) : bool :=
    match o with
    | Gate _ _ _ => true
    | Circ _ c => cf_cir c
    end
  with cf_mom (m : moment) : bool :=
    match m with Mom ops _ => circ_first_ops false ops && forallb cf_op ops end
  with cf_cir (c : circuit) : bool :=
    match c with Cir ms _ => forallb cf_mom ms end.

  Lemma circ_first_true (l : list op) : circ_first_ops true l = true -> filter is_circ l = [] /\ filter (fun o => negb (is_circ o)) l = l.
  Proof.
    induction l as [|o l IH]; [split; reflexivity|]. cbn [circ_first_ops filter].
    destruct (is_circ o); cbn [negb andb]; [discriminate|]. intros H. destruct (IH H) as [H1 H2]. rewrite H1, H2. split; reflexivity.
  Qed.
  Lemma circ_first_split (l : list op) : circ_first_ops false l = true ->
    filter is_circ l ++ filter (fun o => negb (is_circ o)) l = l.
  Proof.
    induction l as [|o l IH]; [reflexivity|]. cbn [circ_first_ops filter].
    destruct (is_circ o); cbn [negb andb].
    - intros H. cbn [app]. rewrite (IH H). reflexivity.
    - intros H. destruct (circ_first_true l H) as [H1 H2]. rewrite H1, H2. reflexivity.
  Qed.

  Lemma map_id_in {A} (f : A -> A) l : Forall (fun x => f x = x) l -> map f l = l.
  Proof. induction 1 as [|x l Hx _ IH]; [reflexivity|]. simpl. rewrite Hx, IH. reflexivity. Qed.

  Theorem canon_id :
    (forall o : op, cf_op o = true -> canon_op o = o) /\
    (forall m : moment, cf_mom m = true -> canon_moment m = m) /\
    (forall c : circuit, cf_cir c = true -> canon_circuit c = c).
  Proof.
    apply tree_ind.
    - reflexivity.
    - intros p c IH H. change (cf_cir c = true) in H. change (Circ p (canon_circuit c) = Circ p c).
      rewrite (IH H). reflexivity.
    - intros ops ts IH H. change (circ_first_ops false ops && forallb cf_op ops = true) in H. apply andb_true_iff in H. destruct H as [H1 H2].
      change (Mom (filter is_circ (map canon_op ops) ++ filter (fun o => negb (is_circ o)) (map canon_op ops)) ts = Mom ops ts).
      rewrite (map_id_in canon_op ops).
      + rewrite (circ_first_split ops H1). reflexivity.
      + rewrite forallb_forall in H2. rewrite Forall_forall in *. intros o Hin. apply IH; [exact Hin|apply H2; exact Hin].
    - intros ms ts IH H. change (forallb cf_mom ms = true) in H. change (Cir (map canon_moment ms) ts = Cir ms ts).
      rewrite (map_id_in canon_moment ms); [reflexivity|].
      rewrite forallb_forall in H. rewrite Forall_forall in *. intros m Hin. apply IH; [exact Hin|apply H; exact Hin].
  Qed.

  Theorem intern_roundtrip_exact (c : circuit) : cf_cir c = true -> deserialize (serialize c) = Some c.
  Proof. intros H. rewrite intern_roundtrip. destruct canon_id as (_ & _ & Hc). rewrite (Hc c H). reflexivity. Qed.

  (* the operations of a deserialised moment are a permutation of the original ones, up to the same reordering inside
     sub-circuits: same multiset, circuit operations and gate operations each in their original order *)
  Theorem canon_moment_partition (ops : list op) (ts : list T) :
    canon_moment (Mom ops ts) =
    Mom (map canon_op (filter is_circ ops) ++ map canon_op (filter (fun o => negb (is_circ o)) ops)) ts.
  Proof.
    change (canon_moment (Mom ops ts)) with
      (Mom (filter is_circ (map canon_op ops) ++ filter (fun o => negb (is_circ o)) (map canon_op ops)) ts).
    f_equal. f_equal.
    - induction ops as [|o l IH]; [reflexivity|]. cbn [map filter]. destruct o as [g qs ts'|p c].
      + change (canon_op (Gate g qs ts')) with (Gate (Q:=Q) (P:=P) g qs ts'). cbn [is_circ]. exact IH.
      + change (canon_op (Circ p c)) with (Circ p (canon_circuit c)). cbn [is_circ map]. rewrite IH. reflexivity.
    - induction ops as [|o l IH]; [reflexivity|]. cbn [map filter]. destruct o as [g qs ts'|p c].
      + change (canon_op (Gate g qs ts')) with (Gate (Q:=Q) (P:=P) g qs ts'). cbn [is_circ negb map]. rewrite IH. reflexivity.
      + change (canon_op (Circ p c)) with (Circ p (canon_circuit c)). cbn [is_circ negb]. exact IH.
  Qed.

  (* ------------------------------------------------------------ every index refers backwards *)
  Lemma get_lt {Y} (get : list value -> nat -> option Y) :
    (forall vals i y, get vals i = Some y -> nth_error vals i <> None) ->
    forall vals idx ys, mapO (get vals) idx = Some ys -> Forall (fun j => j < length vals) idx.
  Proof.
    intros Hg vals idx. induction idx as [|i idx IH]; intros ys H; [constructor|]. simpl in H.
    destruct (get vals i) as [y|] eqn:E; [|discriminate]. destruct (mapO (get vals) idx) as [ys'|] eqn:E2; [|discriminate].
    constructor; [apply nth_error_Some; eapply Hg; exact E|eapply IH; reflexivity].
  Qed.
  Lemma getQ_some (vals : list value) i y : getQ vals i = Some y -> nth_error vals i <> None.
  Proof. unfold getQ. destruct (nth_error vals i); [discriminate|discriminate]. Qed.
  Lemma getT_some (vals : list value) i y : getT vals i = Some y -> nth_error vals i <> None.
  Proof. unfold getT. destruct (nth_error vals i); [discriminate|discriminate]. Qed.
  Lemma getOp_some (vals : list value) i y : getOp vals i = Some y -> nth_error vals i <> None.
  Proof. unfold getOp. destruct (nth_error vals i); [discriminate|discriminate]. Qed.
  Lemma getMom_some (vals : list value) i y : getMom vals i = Some y -> nth_error vals i <> None.
  Proof. unfold getMom. destruct (nth_error vals i); [discriminate|discriminate]. Qed.
  Lemma getCop_lt (vals : list value) cops ys : mapO (getCop vals) cops = Some ys -> Forall (fun j => j < length vals) (map snd cops).
  Proof.
    revert ys. induction cops as [|[p i] cops IH]; intros ys H; [constructor|]. simpl in H.
    destruct (getCop vals (p, i)) as [y|] eqn:E; [|discriminate]. destruct (mapO (getCop vals) cops) as [ys'|] eqn:E2; [|discriminate].
    cbn [map snd]. constructor; [|eapply IH; reflexivity].
    unfold getCop, getCir in E. cbn [snd] in E. apply nth_error_Some. destruct (nth_error vals i); [discriminate|discriminate].
  Qed.

  Lemma decode_body_lt (vals : list value) body c : decode_body vals body = Some c ->
    Forall (fun j => j < length vals) (fst body ++ snd body).
  Proof.
    unfold decode_body. destruct (mapO (getMom vals) (fst body)) as [ms|] eqn:E1; [|discriminate].
    destruct (mapO (getT vals) (snd body)) as [ts|] eqn:E2; [|discriminate]. intros _.
    apply Forall_app. split; [eapply (get_lt getMom getMom_some); exact E1|eapply (get_lt getT getT_some); exact E2].
  Qed.

  Lemma decode_const_lt (vals : list value) c v : decode_const vals c = Some v -> Forall (fun j => j < length vals) (indices_of c).
  Proof.
    destruct c as [q|t|g qidx tidx|opidx cops tidx|midx tidx]; cbn [decode_const indices_of]; intros H; try constructor.
    - destruct (mapO (getQ vals) qidx) eqn:E1; [|discriminate]. destruct (mapO (getT vals) tidx) eqn:E2; [|discriminate].
      apply Forall_app. split; [eapply (get_lt getQ getQ_some); exact E1|eapply (get_lt getT getT_some); exact E2].
    - destruct (mapO (getCop vals) cops) eqn:E1; [|discriminate]. destruct (mapO (getOp vals) opidx) eqn:E2; [|discriminate].
      destruct (mapO (getT vals) tidx) eqn:E3; [|discriminate].
      apply Forall_app. split; [eapply (get_lt getOp getOp_some); exact E2|].
      apply Forall_app. split; [eapply getCop_lt; exact E1|eapply (get_lt getT getT_some); exact E3].
    - destruct (decode_body vals (midx, tidx)) eqn:E; [|discriminate]. apply (decode_body_lt _ _ _ E).
  Qed.

  Lemma Forall_ltb n l : Forall (fun j => j < n) l -> forallb (fun j => Nat.ltb j n) l = true.
  Proof. intros H. apply forallb_forall. intros j Hj. rewrite Forall_forall in H. apply Nat.ltb_lt. apply H. exact Hj. Qed.

  (* a table that decodes only refers backwards *)
  Lemma decodes_backward (cs : list constant) : forall pre vals,
    fold_left decode_step cs (Some pre) = Some vals -> backward_from (length pre) cs = true.
  Proof.
    induction cs as [|c cs IH]; intros pre vals H; [reflexivity|]. cbn [fold_left decode_step] in H.
    destruct (decode_const pre c) as [v|] eqn:E.
    - cbn [backward_from]. rewrite (Forall_ltb _ _ (decode_const_lt _ _ _ E)). cbn [andb].
      specialize (IH (pre ++ [v]) vals H). rewrite app_length, Nat.add_comm in IH. exact IH.
    - exfalso. clear -H. induction cs as [|c' cs IH]; [discriminate|]. apply IH. exact H.
  Qed.

  Theorem intern_indices_backward (c : circuit) : backward (serialize c) = true.
  Proof.
    unfold Intern.serialize, backward. destruct (ser_body c empty) as [body st] eqn:E.
    destruct ser_ok_all as (_ & _ & Hc). destruct (Hc c _ _ _ _ Inv_empty E) as (more & [Hd _] & Hb).
    cbn [fst snd app] in *. apply andb_true_iff. split.
    - apply (decodes_backward (consts st) [] more Hd).
    - rewrite <- (decode_consts_length _ _ Hd). apply Forall_ltb. apply (decode_body_lt _ _ _ Hb).
  Qed.

  (* ------------------------------------------------------------ sharing: one index per item, one item per index *)
  Fixpoint size_op (o : op) : nat :=
    match o with Gate _ _ _ => 1 | Circ _ c => S (size_cir c) end
  with size_mom (m : moment) : nat :=
    match m with Mom ops _ => S (list_sum (map size_op ops)) end
  with size_cir (c : circuit) : nat :=
    match c with Cir ms _ => S (list_sum (map size_mom ms)) end.
  Definition key_size (k : key) : nat :=
    match k with KQ _ | KT _ => 0 | KOp o => size_op o | KMom m => size_mom m | KCir c => size_cir c end.

  Definition Good (st : state) : Prop :=
    NoDup (map fst (raw st)) /\ NoDup (map snd (raw st)) /\ forall k i, In (k, i) (raw st) -> i < length (consts st).
  Definition grows (b : nat) (st st' : state) : Prop :=
    forall k i, In (k, i) (raw st') -> In (k, i) (raw st) \/ key_size k <= b.
  Definition pres {X R} (f : X -> state -> R * state) (size : X -> nat) (x : X) : Prop :=
    forall st r st', Good st -> f x st = (r, st') -> Good st' /\ grows (size x) st st'.

  Lemma grows_refl b st : grows b st st.
  Proof. intros k i H. left. exact H. Qed.
  Lemma grows_trans b1 b2 b st s1 s2 : grows b1 st s1 -> grows b2 s1 s2 -> b1 <= b -> b2 <= b -> grows b st s2.
  Proof.
    intros H1 H2 L1 L2 k i Hin. destruct (H2 k i Hin) as [H|H]; [|right; lia].
    destruct (H1 k i H) as [H'|H']; [left; exact H'|right; lia].
  Qed.

  Lemma NoDup_snoc {A} (l : list A) x : NoDup l -> ~ In x l -> NoDup (l ++ [x]).
  Proof.
    induction 1 as [|y l Hy _ IH]; intros Hx; simpl.
    - constructor; [intros []|constructor].
    - constructor.
      + intros Hin. apply in_app_or in Hin. destruct Hin as [Hin|[->|[]]]; [apply Hy; exact Hin|apply Hx; left; reflexivity].
      + apply IH. intros Hin. apply Hx. right. exact Hin.
  Qed.

  Lemma push_good st c k i st' : Good st -> (forall j, ~ In (k, j) (raw st)) -> push c k st = (i, st') ->
    Good st' /\ grows (key_size k) st st'.
  Proof.
    intros (Hk & Hi & Hb) Hnew Hp. unfold push in Hp. injection Hp as <- <-. split; [split; [|split]|]; cbn [raw consts].
    - rewrite map_app. cbn [map fst]. apply NoDup_snoc; [exact Hk|].
      intros Hin. apply in_map_iff in Hin. destruct Hin as ([k' j] & E & Hin). cbn [fst] in E. subst k'. apply (Hnew j Hin).
    - rewrite map_app. cbn [map snd]. apply NoDup_snoc; [exact Hi|].
      intros Hin. apply in_map_iff in Hin. destruct Hin as ([k' j] & E & Hin). cbn [snd] in E. subst j.
      specialize (Hb _ _ Hin). lia.
    - intros k' j Hin. rewrite app_length. cbn [length]. apply in_app_or in Hin. destruct Hin as [Hin|[Hin|[]]].
      + specialize (Hb _ _ Hin). lia.
      + injection Hin as _ <-. lia.
    - intros k' j Hin. apply in_app_or in Hin. destruct Hin as [Hin|[Hin|[]]]; [left; exact Hin|].
      injection Hin as <- _. right. lia.
  Qed.

  Lemma mapS_pres {X R} (f : X -> state -> R * state) (size : X -> nat) xs :
    Forall (pres f size) xs ->
    forall st rs st', Good st -> mapS f xs st = (rs, st') -> Good st' /\ grows (list_sum (map size xs)) st st'.
  Proof.
    induction 1 as [|x xs Hx _ IH]; intros st rs st' Hg Hs; simpl in Hs.
    - injection Hs as <- <-. split; [exact Hg|apply grows_refl].
    - destruct (f x st) as [r s1] eqn:E1. destruct (mapS f xs s1) as [rs' s2] eqn:E2. injection Hs as <- <-.
      destruct (Hx _ _ _ Hg E1) as [Hg1 Gr1]. destruct (IH _ _ _ Hg1 E2) as [Hg2 Gr2].
      split; [exact Hg2|]. change (list_sum (map size (x :: xs))) with (size x + list_sum (map size xs)).
      eapply grows_trans; [exact Gr1|exact Gr2|lia|lia].
  Qed.

  Lemma ser_qubit_pres q : pres ser_qubit (fun _ => 0) q.
  Proof.
    intros st r st' Hg Hs. unfold Intern.ser_qubit in Hs. destruct (lookup (KQ q) (raw st)) eqn:El.
    - injection Hs as <- <-. split; [exact Hg|apply grows_refl].
    - apply (push_good _ _ _ _ _ Hg (lookup_none _ _ El) Hs).
  Qed.
  Lemma ser_tag_pres t : pres ser_tag (fun _ => 0) t.
  Proof.
    intros st r st' Hg Hs. unfold Intern.ser_tag in Hs. destruct (lookup (KT t) (raw st)) eqn:El.
    - injection Hs as <- <-. split; [exact Hg|apply grows_refl].
    - apply (push_good _ _ _ _ _ Hg (lookup_none _ _ El) Hs).
  Qed.

  Lemma list_sum_zero {A} (l : list A) : list_sum (map (fun _ => 0) l) = 0.
  Proof. induction l; simpl; auto. Qed.

  Lemma size_mom_eq ops ts : size_mom (Mom ops ts) = S (list_sum (map size_op ops)).
  Proof. reflexivity. Qed.
  Lemma size_cir_eq ms ts : size_cir (Cir ms ts) = S (list_sum (map size_mom ms)).
  Proof. reflexivity. Qed.
  Lemma size_op_circ p c : size_op (Circ p c) = S (size_cir c).
  Proof. reflexivity. Qed.

  Theorem pres_all :
    (forall o, pres ser_op size_op o) /\
    (forall m, pres ser_moment size_mom m) /\
    (forall c, pres ser_body (fun c => pred (size_cir c)) c).
  Proof.
    apply tree_ind.
    - intros g qs ts st r st' Hg Hs. rewrite ser_op_gate_eq in Hs.
      destruct (lookup (KOp (Gate g qs ts)) (raw st)) eqn:El.
      + injection Hs as <- <-. split; [exact Hg|apply grows_refl].
      + destruct (ser_gate_new (Gate g qs ts) g qs ts st) as [i s] eqn:Eg. injection Hs as <- <-.
        unfold Intern.ser_gate_new in Eg.
        destruct (mapS ser_qubit qs st) as [qidx s1] eqn:E1. destruct (mapS ser_tag ts s1) as [tidx s2] eqn:E2.
        destruct (mapS_pres ser_qubit (fun _ => 0) qs (Forall_all _ _ ser_qubit_pres) _ _ _ Hg E1) as [Hg1 Gr1].
        destruct (mapS_pres ser_tag (fun _ => 0) ts (Forall_all _ _ ser_tag_pres) _ _ _ Hg1 E2) as [Hg2 Gr2].
        rewrite list_sum_zero in Gr1. rewrite list_sum_zero in Gr2.
        assert (Gr : grows 0 st s2) by (eapply grows_trans; eauto).
        assert (Hnew : forall j, ~ In (KOp (Gate g qs ts), j) (raw s2)).
        { intros j Hin. destruct (Gr _ _ Hin) as [H|H]; [apply (lookup_none _ _ El j H)|simpl in H; lia]. }
        destruct (push_good _ _ _ _ _ Hg2 Hnew Eg) as [Hg3 Gr3]. split; [exact Hg3|].
        eapply grows_trans; [exact Gr|exact Gr3|simpl; lia|simpl; lia].
    - intros p c IH st r st' Hg Hs. rewrite ser_op_circ_eq in Hs.
      destruct (lookup (KCir c) (raw st)) eqn:El.
      + injection Hs as <- <-. split; [exact Hg|apply grows_refl].
      + destruct (ser_body c st) as [body s1] eqn:Eb.
        destruct (push (CCir (fst body) (snd body)) (KCir c) s1) as [i s2] eqn:Ep. injection Hs as <- <-.
        destruct (IH _ _ _ Hg Eb) as [Hg1 Gr1].
        assert (Hpos : 0 < size_cir c) by (destruct c; rewrite size_cir_eq; lia).
        assert (Hnew : forall j, ~ In (KCir c, j) (raw s1)).
        { intros j Hin. destruct (Gr1 _ _ Hin) as [H|H]; [apply (lookup_none _ _ El j H)|simpl in H; lia]. }
        destruct (push_good _ _ _ _ _ Hg1 Hnew Ep) as [Hg2 Gr2]. split; [exact Hg2|].
        rewrite size_op_circ. eapply grows_trans; [exact Gr1|exact Gr2|lia|simpl; lia].
    - intros ops ts IH st r st' Hg Hs. rewrite ser_moment_eq in Hs.
      destruct (lookup (KMom (Mom ops ts)) (raw st)) eqn:El.
      + injection Hs as <- <-. split; [exact Hg|apply grows_refl].
      + destruct (mapS ser_op ops st) as [refs s1] eqn:E1. destruct (mapS ser_tag ts s1) as [tidx s2] eqn:E2.
        destruct (mapS_pres ser_op size_op ops IH _ _ _ Hg E1) as [Hg1 Gr1].
        destruct (mapS_pres ser_tag (fun _ => 0) ts (Forall_all _ _ ser_tag_pres) _ _ _ Hg1 E2) as [Hg2 Gr2].
        rewrite list_sum_zero in Gr2.
        assert (Gr : grows (list_sum (map size_op ops)) st s2) by (eapply grows_trans; [exact Gr1|exact Gr2|lia|lia]).
        assert (Hnew : forall j, ~ In (KMom (Mom ops ts), j) (raw s2)).
        { intros j Hin. destruct (Gr _ _ Hin) as [H|H]; [apply (lookup_none _ _ El j H)|].
          change (size_mom (Mom ops ts) <= list_sum (map size_op ops)) in H. rewrite size_mom_eq in H. lia. }
        destruct (push_good _ _ _ _ _ Hg2 Hnew Hs) as [Hg3 Gr3]. split; [exact Hg3|].
        eapply grows_trans; [exact Gr|exact Gr3|rewrite size_mom_eq; lia|simpl; lia].
    - intros ms ts IH st r st' Hg Hs. rewrite ser_body_eq in Hs.
      destruct (mapS ser_moment ms st) as [midx s1] eqn:E1. destruct (mapS ser_tag ts s1) as [tidx s2] eqn:E2.
      injection Hs as <- <-.
      destruct (mapS_pres ser_moment size_mom ms IH _ _ _ Hg E1) as [Hg1 Gr1].
      destruct (mapS_pres ser_tag (fun _ => 0) ts (Forall_all _ _ ser_tag_pres) _ _ _ Hg1 E2) as [Hg2 Gr2].
      rewrite list_sum_zero in Gr2. split; [exact Hg2|]. rewrite size_cir_eq. cbn [pred].
      eapply grows_trans; [exact Gr1|exact Gr2|lia|lia].
  Qed.

  Lemma Good_empty : Good empty.
  Proof. split; [constructor|split; [constructor|intros k i []]]. Qed.

  (* raw_constants at the end of serialisation is a bijection between the distinct items met and their indices, and
     every index holds the decoded form of its item: equal things share an index, unequal things never do *)
  Theorem intern_share (c : circuit) :
    let st := serialize_state eqQ eqG eqT eqP c in
    NoDup (map fst (raw st)) /\ NoDup (map snd (raw st)) /\
    exists vals, decode_consts (consts st) = Some vals /\
      forall k i, In (k, i) (raw st) -> nth_error vals i = Some (val_of_key k).
  Proof.
    unfold serialize_state. destruct (ser_body c empty) as [body st] eqn:E. cbn [snd].
    destruct pres_all as (_ & _ & Hc). destruct (Hc c _ _ _ Good_empty E) as [(Hk & Hi & _) _].
    destruct ser_ok_all as (_ & _ & Hs). destruct (Hs c _ _ _ _ Inv_empty E) as (more & [Hd Hr] & _).
    split; [exact Hk|split; [exact Hi|]]. exists more. split; [exact Hd|exact Hr].
  Qed.

  Lemma NoDup_fst_fun {A B} (l : list (A * B)) a b b' : NoDup (map fst l) -> In (a, b) l -> In (a, b') l -> b = b'.
  Proof.
    induction l as [|[x y] l IH]; intros Hnd H1 H2; [contradiction|]. cbn [map fst] in Hnd.
    inversion Hnd as [|? ? Hx Hnd']; subst. destruct H1 as [H1|H1], H2 as [H2|H2].
    - congruence.
    - injection H1 as -> ->. exfalso. apply Hx. change a with (fst (a, b')). apply in_map. exact H2.
    - injection H2 as -> ->. exfalso. apply Hx. change a with (fst (a, b)). apply in_map. exact H1.
    - apply IH; assumption.
  Qed.
  Lemma NoDup_snd_fun {A B} (l : list (A * B)) a a' b : NoDup (map snd l) -> In (a, b) l -> In (a', b) l -> a = a'.
  Proof.
    induction l as [|[x y] l IH]; intros Hnd H1 H2; [contradiction|]. cbn [map snd] in Hnd.
    inversion Hnd as [|? ? Hx Hnd']; subst. destruct H1 as [H1|H1], H2 as [H2|H2].
    - congruence.
    - injection H1 as -> ->. exfalso. apply Hx. change b with (snd (a', b)). apply in_map. exact H2.
    - injection H2 as -> ->. exfalso. apply Hx. change b with (snd (a, b)). apply in_map. exact H1.
    - apply IH; assumption.
  Qed.

  Theorem intern_equal_share (c : circuit) k i j :
    In (k, i) (raw (serialize_state eqQ eqG eqT eqP c)) -> In (k, j) (raw (serialize_state eqQ eqG eqT eqP c)) -> i = j.
  Proof. destruct (intern_share c) as (Hk & _ & _). apply NoDup_fst_fun. exact Hk. Qed.
  Theorem intern_unequal_never_share (c : circuit) k k' i :
    In (k, i) (raw (serialize_state eqQ eqG eqT eqP c)) -> In (k', i) (raw (serialize_state eqQ eqG eqT eqP c)) -> k = k'.
  Proof. destruct (intern_share c) as (_ & Hi & _). apply NoDup_snd_fun. exact Hi. Qed.
End Proofs.
