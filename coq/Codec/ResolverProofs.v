(* C10 — proofs about the resolver model (Codec/Resolver.v). *)
From Coq Require Import String ZArith QArith List Bool Lia Arith.
From VF Require Import Codec.Resolver.
Import ListNotations.
Local Open Scope nat_scope.

(* ---- induction principle for the nested inductive ------------------------------------------ *)
Section ExprInd.
  Variable P : expr -> Prop.
  Hypothesis HNum : forall q, P (Num q).
  Hypothesis HSym : forall s, P (Sym s).
  Hypothesis HApp : forall h l, Forall P l -> P (App h l).
  Fixpoint expr_ind' (e : expr) : P e :=
    match e with
    | Num q => HNum q
    | Sym s => HSym s
    | App h l => HApp h l ((fix go (l : list expr) : Forall P l :=
                              match l with
                              | [] => Forall_nil P
                              | x :: r => Forall_cons x (expr_ind' x) (go r)
                              end) l)
    end.
End ExprInd.

(* ---- structural equality is Leibniz equality -------------------------------------------------- *)
Lemma q_eqb_eq (a b : Q) : q_eqb a b = true <-> a = b.
Proof.
  destruct a as [an ad], b as [bn bd]. unfold q_eqb. simpl. rewrite andb_true_iff, Z.eqb_eq, Pos.eqb_eq.
  split; [intros [-> ->]; reflexivity|intros H; injection H; auto].
Qed.

Lemma head_eqb_eq (a b : head) : head_eqb a b = true <-> a = b.
Proof.
  destruct a, b; simpl; try (split; [discriminate|discriminate]); try tauto.
  rewrite Nat.eqb_eq. split; [intros ->; reflexivity|intros H; injection H; auto].
Qed.

Lemma expr_eqb_eq : forall a b, expr_eqb a b = true <-> a = b.
Proof.
  induction a as [q|s|h l IH] using expr_ind'; intros b; destruct b as [q'|s'|h' l']; simpl;
    try (split; [discriminate|discriminate]).
  - rewrite q_eqb_eq. split; [intros ->; reflexivity|intros H; injection H; auto].
  - rewrite String.eqb_eq. split; [intros ->; reflexivity|intros H; injection H; auto].
  - rewrite andb_true_iff, head_eqb_eq.
    assert (G : forall l', (fix go (x y : list expr) : bool :=
                  match x, y with
                  | [], [] => true
                  | u :: x', v :: y' => expr_eqb u v && go x' y'
                  | _, _ => false
                  end) l l' = true <-> l = l').
    { clear h h'. induction IH as [|x r Hx _ IHr]; intros [|y r']; simpl; try (split; [discriminate|discriminate]); [tauto|].
      rewrite andb_true_iff, Hx, IHr. split; [intros [-> ->]; reflexivity|intros H; injection H; auto]. }
    rewrite G. split; [intros [-> ->]; reflexivity|intros H; injection H; auto].
Qed.

Lemma expr_eqb_refl e : expr_eqb e e = true.
Proof. apply expr_eqb_eq. reflexivity. Qed.

Lemma expr_eqb_neq a b : expr_eqb a b = false <-> a <> b.
Proof.
  split.
  - intros H E. apply expr_eqb_eq in E. congruence.
  - intros H. destruct (expr_eqb a b) eqn:E; [apply expr_eqb_eq in E; contradiction|reflexivity].
Qed.

Lemma expr_eq_dec (a b : expr) : {a = b} + {a <> b}.
Proof.
  destruct (expr_eqb a b) eqn:E; [left; apply expr_eqb_eq; exact E|right; apply expr_eqb_neq; exact E].
Qed.

Lemma vkey_eqb_eq (a b : vkey) : vkey_eqb a b = true <-> a = b.
Proof.
  destruct a, b; simpl; try (split; [discriminate|discriminate]).
  - rewrite String.eqb_eq. split; [intros ->; reflexivity|intros H; injection H; auto].
  - rewrite expr_eqb_eq. split; [intros ->; reflexivity|intros H; injection H; auto].
Qed.

Lemma kmem_In k l : kmem k l = true <-> In k l.
Proof.
  induction l as [|x r IH]; simpl; [split; [discriminate|tauto]|].
  rewrite orb_true_iff, vkey_eqb_eq, IH. split; intros [H|H]; auto.
Qed.

Lemma mem_In s l : mem s l = true <-> In s l.
Proof.
  induction l as [|x r IH]; simpl; [split; [discriminate|tauto]|].
  rewrite orb_true_iff, String.eqb_eq, IH. split; intros [H|H]; auto.
Qed.

(* ---- mapM ---------------------------------------------------------------------------------------- *)
Lemma mapM_Forall2 {A B} (f : A -> option B) l ys :
  mapM f l = Some ys <-> Forall2 (fun x y => f x = Some y) l ys.
Proof.
  revert ys; induction l as [|x r IH]; intros ys; simpl.
  - split; [intros H; injection H as <-; constructor|intros H; inversion H; reflexivity].
  - destruct (f x) as [y|] eqn:E.
    + destruct (mapM f r) as [ys'|] eqn:E2.
      * split.
        -- intros H; injection H as <-. constructor; [exact E|]. apply IH. reflexivity.
        -- intros H; inversion H as [|? ? ? ? H1 H2]; subst. rewrite E in H1; injection H1 as <-.
           apply IH in H2. injection H2 as <-. reflexivity.
      * split; [discriminate|]. intros H; inversion H as [|? ? ? ? H1 H2]; subst. apply IH in H2. discriminate.
    + split; [discriminate|]. intros H; inversion H as [|? ? ? ? H1 H2]; subst. rewrite E in H1; discriminate.
Qed.

Lemma Forall2_map_l {A B C} (P : B -> C -> Prop) (f : A -> B) l l' :
  Forall2 P (map f l) l' <-> Forall2 (fun x y => P (f x) y) l l'.
Proof.
  revert l'; induction l as [|x r IH]; intros l'; simpl.
  - split; intros H; inversion H; constructor.
  - split; intros H; inversion H; subst; constructor; auto; apply IH; auto.
Qed.

Lemma Forall2_impl {A B} (P Q : A -> B -> Prop) l l' :
  (forall a b, P a b -> Q a b) -> Forall2 P l l' -> Forall2 Q l l'.
Proof. intros H. induction 1; constructor; auto. Qed.

(* ---- expandw: more depth never changes an answer -------------------------------------------------- *)
Lemma expandw_S n r e : expandw (S n) r e =
  match e with
  | Num q => Some (e, 1)
  | Sym s =>
      match lookup r s with
      | None => Some (e, 1)
      | Some v => if expr_eqb v (Sym s) then Some (e, 1)
                  else match expandw n r v with Some (e', w) => Some (e', S w) | None => None end
      end
  | App h l =>
      match mapM (expandw n r) l with
      | Some ps => Some (App h (map fst ps), S (sumw ps))
      | None => None
      end
  end.
Proof. reflexivity. Qed.

Lemma expandw_mono r : forall n e x, expandw n r e = Some x -> expandw (S n) r e = Some x.
Proof.
  induction n as [|m IH]; intros e x H; [discriminate|].
  rewrite expandw_S in H. rewrite expandw_S.
  destruct e as [q|s|h l].
  - exact H.
  - destruct (lookup r s) as [v|]; [|exact H].
    destruct (expr_eqb v (Sym s)); [exact H|].
    destruct (expandw m r v) as [[e' w]|] eqn:E; [|discriminate].
    rewrite (IH _ _ E). exact H.
  - destruct (mapM (expandw m r) l) as [ps|] eqn:E; [|discriminate].
    assert (E2 : mapM (expandw (S m) r) l = Some ps).
    { apply mapM_Forall2. apply mapM_Forall2 in E. eapply Forall2_impl; [|exact E]. intros a b Hab. apply IH. exact Hab. }
    rewrite E2. exact H.
Qed.

Lemma expandw_mono_le r n n' e x : n <= n' -> expandw n r e = Some x -> expandw n' r e = Some x.
Proof. induction 1 as [|k Hle IH]; intros Hx; [exact Hx|]. apply expandw_mono. auto. Qed.

Lemma expandw_det r n n' e x x' : expandw n r e = Some x -> expandw n' r e = Some x' -> x = x'.
Proof.
  intros H H'. apply (expandw_mono_le r n (Nat.max n n')) in H; [|lia].
  apply (expandw_mono_le r n' (Nat.max n n')) in H'; [|lia]. congruence.
Qed.

Lemma expand_some r n e e' : expand n r e = Some e' <-> exists w, expandw n r e = Some (e', w).
Proof.
  unfold expand. destruct (expandw n r e) as [[a w]|]; simpl; split.
  - intros H; injection H as <-. eauto.
  - intros [w' H]; injection H as <- _. reflexivity.
  - discriminate.
  - intros [w' H]; discriminate.
Qed.

Lemma expand_mono_le r n n' e x : n <= n' -> expand n r e = Some x -> expand n' r e = Some x.
Proof.
  intros Hle H. apply expand_some in H. destruct H as [w H]. apply expand_some. exists w.
  eapply expandw_mono_le; eauto.
Qed.

Theorem resolves_to_functional r e e1 e2 : resolves_to r e e1 -> resolves_to r e e2 -> e1 = e2.
Proof.
  intros [n H] [n' H']. apply expand_some in H, H'. destruct H as [w H], H' as [w' H'].
  pose proof (expandw_det _ _ _ _ _ _ H H') as E. congruence.
Qed.

Lemma expandw_weight_pos r : forall n e e' w, expandw n r e = Some (e', w) -> 1 <= w.
Proof.
  induction n as [|m IH]; intros e e' w H; [discriminate|].
  rewrite expandw_S in H. destruct e as [q|s|h l].
  - injection H as _ <-. lia.
  - destruct (lookup r s) as [v|]; [|injection H as _ <-; lia].
    destruct (expr_eqb v (Sym s)); [injection H as _ <-; lia|].
    destruct (expandw m r v) as [[a b]|]; [injection H as _ <-; lia|discriminate].
  - destruct (mapM (expandw m r) l); [injection H as _ <-; lia|discriminate].
Qed.

(* combining expansions of the elements of a list at one common depth *)
Lemma expand_all r l l' :
  Forall2 (fun x y => exists n, expand n r x = Some y) l l' ->
  exists N ps, mapM (expandw N r) l = Some ps /\ map fst ps = l'.
Proof.
  induction 1 as [|x y l l' [n Hx] _ [N [ps [H1 H2]]]].
  - exists 0, []. split; reflexivity.
  - apply expand_some in Hx. destruct Hx as [w Hx].
    exists (Nat.max n N), ((y, w) :: ps). split; [|simpl; rewrite H2; reflexivity].
    simpl. rewrite (expandw_mono_le r n _ _ _ (Nat.le_max_l n N) Hx).
    assert (E : mapM (expandw (Nat.max n N) r) l = Some ps).
    { apply mapM_Forall2. apply mapM_Forall2 in H1. eapply Forall2_impl; [|exact H1].
      intros a b Hab. eapply expandw_mono_le; [|exact Hab]. lia. }
    rewrite E. reflexivity.
Qed.

Lemma expand_app r h l l' :
  Forall2 (fun x y => exists n, expand n r x = Some y) l l' -> exists n, expand n r (App h l) = Some (App h l').
Proof.
  intros H. destruct (expand_all r l l' H) as [N [ps [H1 H2]]].
  exists (S N). unfold expand. rewrite expandw_S, H1. simpl. rewrite H2. reflexivity.
Qed.

Lemma expand_app_inv r n h l e' :
  expand n r (App h l) = Some e' ->
  exists m ps, n = S m /\ mapM (expandw m r) l = Some ps /\ e' = App h (map fst ps).
Proof.
  destruct n as [|m]; [discriminate|]. unfold expand. rewrite expandw_S.
  destruct (mapM (expandw m r) l) as [ps|] eqn:E; [|discriminate]. simpl. intros H; injection H as <-.
  exists m, ps. split; [reflexivity|]. split; [exact E|reflexivity].
Qed.

(* ---- substitution -------------------------------------------------------------------------------------- *)
Lemma map_id_Forall {A} (f : A -> A) (l : list A) : map f l = l <-> Forall (fun x => f x = x) l.
Proof.
  induction l as [|x r IH]; simpl; [split; constructor|].
  split.
  - intros H; injection H as H1 H2. constructor; [exact H1|apply IH; exact H2].
  - intros H; inversion H; subst. f_equal; [assumption|apply IH; assumption].
Qed.

Lemma subst_iter_fix r e : subst r e = e -> forall k, subst_iter k r e = e.
Proof. intros H k. induction k as [|k IH]; simpl; [reflexivity|]. rewrite H. exact IH. Qed.

Lemma subst_iter_num r k q : subst_iter k r (Num q) = Num q.
Proof. apply subst_iter_fix. reflexivity. Qed.

Lemma subst_iter_app r h : forall k l, subst_iter k r (App h l) = App h (map (subst_iter k r) l).
Proof.
  induction k as [|k IH]; intros l; simpl.
  - rewrite map_id. reflexivity.
  - rewrite IH, map_map. reflexivity.
Qed.

(* a symbol is settled when the dictionary does not bind it, or binds it to itself *)
Definition settled (r : resolver) (s : string) : Prop := lookup r s = None \/ lookup r s = Some (Sym s).

Lemma normal_settled r : forall e, subst r e = e <-> (forall s, In s (free_syms e) -> settled r s).
Proof.
  induction e as [q|s|h l IH] using expr_ind'; simpl.
  - split; [intros _ s []|reflexivity].
  - unfold settled. split.
    + intros H s' [<-|[]]. destruct (lookup r s) as [v|]; [right; rewrite H; reflexivity|left; reflexivity].
    + intros H. destruct (H s (or_introl eq_refl)) as [E|E]; rewrite E; reflexivity.
  - split.
    + intros H s Hs. injection H as H. apply map_id_Forall in H.
      apply in_flat_map in Hs. destruct Hs as [x [Hx Hs]].
      rewrite Forall_forall in IH, H. apply (proj1 (IH x Hx) (H x Hx)). exact Hs.
    + intros H. f_equal. apply map_id_Forall. rewrite Forall_forall in IH |- *. intros x Hx.
      apply (IH x Hx). intros s Hs. apply H. apply in_flat_map. exists x. split; assumption.
Qed.

(* T3: what the specification returns is a fixed point of substitution *)
Lemma expandw_normal r : forall n e e' w, expandw n r e = Some (e', w) -> subst r e' = e'.
Proof.
  induction n as [|m IH]; intros e e' w H; [discriminate|].
  rewrite expandw_S in H. destruct e as [q|s|h l].
  - injection H as <- _. reflexivity.
  - destruct (lookup r s) as [v|] eqn:El.
    + destruct (expr_eqb v (Sym s)) eqn:Ev.
      * injection H as <- _. apply expr_eqb_eq in Ev. simpl. rewrite El. exact Ev.
      * destruct (expandw m r v) as [[a b]|] eqn:E; [|discriminate]. injection H as <- _. eapply IH; eauto.
    + injection H as <- _. simpl. rewrite El. reflexivity.
  - destruct (mapM (expandw m r) l) as [ps|] eqn:E; [|discriminate]. injection H as <- _.
    simpl. f_equal. rewrite map_map. apply mapM_Forall2 in E.
    clear -E IH. induction E as [|x p l ps Hx _ IHl]; [reflexivity|].
    destruct p as [a b]. simpl. rewrite (IH _ _ _ Hx). f_equal. exact IHl.
Qed.

Theorem resolves_to_normal r e e' : resolves_to r e e' -> subst r e' = e'.
Proof. intros [n H]. apply expand_some in H. destruct H as [w H]. eapply expandw_normal; eauto. Qed.

(* T4: the specification is simultaneous substitution iterated until nothing changes *)
Lemma expandw_subst_iter r : forall n e e' w, expandw n r e = Some (e', w) -> forall k, n <= k -> subst_iter k r e = e'.
Proof.
  induction n as [|m IH]; intros e e' w H k Hk; [discriminate|].
  rewrite expandw_S in H. destruct e as [q|s|h l].
  - injection H as <- _. apply subst_iter_num.
  - destruct (lookup r s) as [v|] eqn:El.
    + destruct (expr_eqb v (Sym s)) eqn:Ev.
      * injection H as <- _. apply expr_eqb_eq in Ev. apply subst_iter_fix. simpl. rewrite El. exact Ev.
      * destruct (expandw m r v) as [[a b]|] eqn:E; [|discriminate]. injection H as <- _.
        destruct k as [|k]; [lia|]. simpl. rewrite El. eapply IH; [exact E|lia].
    + injection H as <- _. apply subst_iter_fix. simpl. rewrite El. reflexivity.
  - destruct (mapM (expandw m r) l) as [ps|] eqn:E; [|discriminate]. injection H as <- _.
    rewrite subst_iter_app. f_equal. apply mapM_Forall2 in E.
    clear -E IH Hk. induction E as [|x p l ps Hx _ IHl]; [reflexivity|].
    destruct p as [a b]. simpl. rewrite (IH _ _ _ Hx k ltac:(lia)). f_equal. exact IHl.
Qed.

Theorem resolves_to_subst_fixpoint r e e' : resolves_to r e e' ->
  exists n, (forall k, n <= k -> subst_iter k r e = e') /\ subst r e' = e'.
Proof.
  intros [n H]. apply expand_some in H. destruct H as [w H]. exists n. split.
  - intros k Hk. eapply expandw_subst_iter; eauto.
  - eapply expandw_normal; eauto.
Qed.

(* a fixed point of substitution expands to itself *)
Lemma normal_expand r : forall e, subst r e = e -> exists n, expand n r e = Some e.
Proof.
  induction e as [q|s|h l IH] using expr_ind'; intros H.
  - exists 1. reflexivity.
  - exists 1. unfold expand. rewrite expandw_S. simpl in H. destruct (lookup r s) as [v|]; [|reflexivity].
    subst v. rewrite expr_eqb_refl. reflexivity.
  - simpl in H. injection H as H. apply map_id_Forall in H. apply expand_app.
    clear h. induction l as [|x l IHl]; [constructor|].
    inversion IH; inversion H; subst. constructor; auto.
Qed.

(* S3: one substitution step does not change what an expression resolves to *)
Lemma expand_subst_back r : forall e n e', expand n r (subst r e) = Some e' -> exists m, expand m r e = Some e'.
Proof.
  induction e as [q|s|h l IH] using expr_ind'; intros n e' H.
  - exists n. exact H.
  - simpl in H. destruct (lookup r s) as [v|] eqn:El; [|exists n; exact H].
    destruct (expr_eqb v (Sym s)) eqn:Ev.
    + apply expr_eqb_eq in Ev. subst v. exists n. exact H.
    + exists (S n). unfold expand in *. rewrite expandw_S, El, Ev.
      destruct (expandw n r v) as [[a b]|]; [|discriminate]. simpl in *. exact H.
  - simpl in H. apply expand_app_inv in H. destruct H as [m [ps [-> [Hm ->]]]].
    apply expand_app. apply mapM_Forall2 in Hm. apply Forall2_map_l in Hm.
    clear h. revert ps Hm. induction l as [|x l IHl]; intros ps Hm; inversion Hm as [|? p ? ps' Hx Hrest]; subst; simpl; [constructor|].
    inversion IH; subst. constructor.
    + apply (H1 m (fst p)). apply expand_some. exists (snd p). destruct p; exact Hx.
    + apply IHl; assumption.
Qed.

(* ---- T1: an answer of value_of is the specified one ---------------------------------------------------- *)
Lemma seqM_Forall2 {A B} (f : A -> outcome B) l ys : seqM f l = Ok ys <-> Forall2 (fun x y => f x = Ok y) l ys.
Proof.
  revert ys; induction l as [|x r IH]; intros ys; simpl.
  - split; [intros H; injection H as <-; constructor|intros H; inversion H; reflexivity].
  - destruct (f x) as [y| |] eqn:E.
    + destruct (seqM f r) as [ys'| |] eqn:E2.
      * split.
        -- intros H; injection H as <-. constructor; [exact E|]. apply IH. reflexivity.
        -- intros H; inversion H as [|? ? ? ? H1 H2]; subst. rewrite E in H1; injection H1 as <-.
           apply IH in H2. injection H2 as <-. reflexivity.
      * split; [discriminate|]. intros H; inversion H as [|? ? ? ? H1 H2]; subst. apply IH in H2. discriminate.
      * split; [discriminate|]. intros H; inversion H as [|? ? ? ? H1 H2]; subst. apply IH in H2. discriminate.
    + split; [discriminate|]. intros H; inversion H as [|? ? ? ? H1 H2]; subst. rewrite E in H1; discriminate.
    + split; [discriminate|]. intros H; inversion H as [|? ? ? ? H1 H2]; subst. rewrite E in H1; discriminate.
Qed.

Lemma value_of_S f r vis e : value_of (S f) r vis e =
  match e with
  | Num q => Ok (Num q)
  | Sym s =>
      match lookup r s with
      | None => Ok (Sym s)
      | Some (Num q) => Ok (Num q)
      | Some v =>
          if kmem (KSym s) vis then Loop
          else if expr_eqb v (Sym s) then Ok (Sym s)
          else value_of f r (KSym s :: vis) v
      end
  | App h l =>
      if fast h l then
        match seqM (value_of f r vis) l with
        | Ok l' => Ok (App h l')
        | Loop => Loop
        | OutOfFuel => OutOfFuel
        end
      else
        if kmem (KExpr e) vis then Loop
        else let v := subst r e in
             if expr_eqb v e then Ok e else value_of f r (KExpr e :: vis) v
  end.
Proof. reflexivity. Qed.

Theorem value_of_sound r : forall fuel vis e e', value_of fuel r vis e = Ok e' -> resolves_to r e e'.
Proof.
  induction fuel as [|f IH]; intros vis e e' H; [discriminate|].
  rewrite value_of_S in H. destruct e as [q|s|h l].
  - injection H as <-. exists 1. reflexivity.
  - destruct (lookup r s) as [v|] eqn:El.
    + assert (G : (if kmem (KSym s) vis then Loop else if expr_eqb v (Sym s) then Ok (Sym s) else value_of f r (KSym s :: vis) v) = Ok e'
                  -> resolves_to r (Sym s) e').
      { destruct (kmem (KSym s) vis); [discriminate|].
        destruct (expr_eqb v (Sym s)) eqn:Ev.
        - intros H'; injection H' as <-. exists 1. unfold expand. rewrite expandw_S, El, Ev. reflexivity.
        - intros H'. destruct (IH _ _ _ H') as [n Hn]. exists (S n). unfold expand in *. rewrite expandw_S, El, Ev.
          destruct (expandw n r v) as [[a b]|]; [|discriminate]. exact Hn. }
      destruct v as [q|s'|h l]; try (apply G; exact H).
      injection H as <-. exists 2. unfold expand. rewrite expandw_S, El. reflexivity.
    + injection H as <-. exists 1. unfold expand. rewrite expandw_S, El. reflexivity.
  - destruct (fast h l).
    + destruct (seqM (value_of f r vis) l) as [l'| |] eqn:E; try discriminate. injection H as <-.
      apply expand_app. apply seqM_Forall2 in E. eapply Forall2_impl; [|exact E]. intros a b Hab. exact (IH _ _ _ Hab).
    + destruct (kmem (KExpr (App h l)) vis); [discriminate|]. cbv zeta in H.
      destruct (expr_eqb (subst r (App h l)) (App h l)) eqn:Ev.
      * injection H as <-. apply expr_eqb_eq in Ev. apply normal_expand. exact Ev.
      * destruct (IH _ _ _ H) as [n Hn]. eapply expand_subst_back; eauto.
Qed.

(* ---- weights: every recursive call of value_of works on something strictly lighter ----------------------- *)
Definition wt (r : resolver) (e : expr) (w : nat) : Prop := exists n e', expandw n r e = Some (e', w).

Lemma wt_functional r e w w' : wt r e w -> wt r e w' -> w = w'.
Proof. intros [n [a H]] [n' [a' H']]. pose proof (expandw_det _ _ _ _ _ _ H H'). congruence. Qed.

(* one substitution step: same answer, not heavier, strictly lighter if anything changed *)
Lemma sumw_cons p ps : sumw (p :: ps) = snd p + sumw ps.
Proof. reflexivity. Qed.

Lemma expandw_subst_step r : forall n e e1 w1, expandw n r e = Some (e1, w1) ->
  exists w2, expandw n r (subst r e) = Some (e1, w2) /\ w2 <= w1 /\ (subst r e <> e -> w2 < w1).
Proof.
  induction n as [|m IH]; intros e e1 w1 H; [discriminate|].
  destruct e as [q|s|h l].
  - exists w1. simpl subst. split; [exact H|]. split; [lia|]. intros C; contradiction C; reflexivity.
  - pose proof H as H0. rewrite expandw_S in H. simpl subst. destruct (lookup r s) as [v|] eqn:El.
    + destruct (expr_eqb v (Sym s)) eqn:Ev.
      * apply expr_eqb_eq in Ev. subst v. exists w1. split; [exact H0|]. split; [lia|]. intros C; contradiction C; reflexivity.
      * destruct (expandw m r v) as [[a b]|] eqn:E; [|discriminate]. injection H as <- <-.
        exists b. split; [apply expandw_mono; exact E|]. split; lia.
    + exists w1. split; [exact H0|]. split; [lia|]. intros C; contradiction C; reflexivity.
  - rewrite expandw_S in H. destruct (mapM (expandw m r) l) as [ps|] eqn:E; [|discriminate]. injection H as <- <-.
    assert (G : exists ps2, mapM (expandw m r) (map (subst r) l) = Some ps2 /\ map fst ps2 = map fst ps /\
                            sumw ps2 <= sumw ps /\ (map (subst r) l <> l -> sumw ps2 < sumw ps)).
    { clear h. revert ps E. induction l as [|x l IHl]; intros ps E.
      - simpl in E. injection E as <-. exists []. simpl. repeat split; try lia. intros C; contradiction C; reflexivity.
      - simpl in E. destruct (expandw m r x) as [[a b]|] eqn:Ex; [|discriminate].
        destruct (mapM (expandw m r) l) as [ps'|] eqn:El; [|discriminate]. injection E as <-.
        destruct (IH _ _ _ Ex) as [w2 [H1 [H2 H3]]]. destruct (IHl ps' eq_refl) as [ps2 [G1 [G2 [G3 G4]]]].
        exists ((a, w2) :: ps2). simpl map. simpl mapM. rewrite H1, G1. rewrite !sumw_cons. simpl fst. simpl snd.
        split; [reflexivity|]. split; [rewrite G2; reflexivity|]. split; [lia|].
        intros C. destruct (expr_eq_dec (subst r x) x) as [Ex'|Ex'].
        + assert (map (subst r) l <> l) by (intros C'; apply C; rewrite Ex', C'; reflexivity).
          specialize (G4 H). lia.
        + specialize (H3 Ex'). lia. }
    destruct G as [ps2 [G1 [G2 [G3 G4]]]].
    exists (S (sumw ps2)). simpl subst. rewrite expandw_S, G1, G2. split; [reflexivity|]. split; [lia|].
    intros C. assert (map (subst r) l <> l) by (intros C'; apply C; rewrite C'; reflexivity).
    specialize (G4 H). lia.
Qed.

(* the keys holding the recursion sentinel are strictly heavier than the expression being resolved *)
Definition kexpr (k : vkey) : expr := match k with KSym s => Sym s | KExpr e => e end.
Definition lighter (r : resolver) (vis : list vkey) (e : expr) : Prop :=
  forall k, In k vis -> forall wk w, wt r (kexpr k) wk -> wt r e w -> w < wk.

Lemma lighter_nil r e : lighter r [] e.
Proof. intros k []. Qed.

Lemma lighter_step r vis e k e2 :
  lighter r vis e -> kexpr k = e ->
  (forall w w2, wt r e w -> wt r e2 w2 -> w2 < w) ->
  (forall w2, wt r e2 w2 -> exists w, wt r e w) ->
  lighter r (k :: vis) e2.
Proof.
  intros Hl Hk Hlt Hex k' [<-|Hin] wk w2 Hwk Hw2.
  - rewrite Hk in Hwk. eapply Hlt; eauto.
  - destruct (Hex _ Hw2) as [w Hw]. specialize (Hl k' Hin wk w Hwk Hw). specialize (Hlt w w2 Hw Hw2). lia.
Qed.

Lemma lighter_not_visiting r vis e k w : lighter r vis e -> kexpr k = e -> wt r e w -> ~ In k vis.
Proof. intros Hl Hk Hw Hin. specialize (Hl k Hin w w). rewrite Hk in Hl. specialize (Hl Hw Hw). lia. Qed.

(* ---- completeness: whatever the specification resolves, value_of returns, with fuel = weight ------------- *)
Theorem value_of_complete_gen r : forall fuel e vis n e1 w1,
  expandw n r e = Some (e1, w1) -> w1 <= fuel -> lighter r vis e -> value_of fuel r vis e = Ok e1.
Proof.
  induction fuel as [|f IH]; intros e vis n e1 w1 H Hw Hl.
  - pose proof (expandw_weight_pos _ _ _ _ _ H). lia.
  - assert (Hwt : wt r e w1) by (exists n, e1; exact H).
    destruct n as [|m]; [discriminate|]. rewrite value_of_S. pose proof H as H0. rewrite expandw_S in H.
    destruct e as [q|s|h l].
    + injection H as <- _. reflexivity.
    + destruct (lookup r s) as [v|] eqn:El; [|injection H as <- _; reflexivity].
      assert (Hnv : kmem (KSym s) vis = false).
      { destruct (kmem (KSym s) vis) eqn:Ek; [|reflexivity]. apply kmem_In in Ek.
        exfalso. exact (lighter_not_visiting r vis (Sym s) (KSym s) w1 Hl eq_refl Hwt Ek). }
      destruct (expr_eqb v (Sym s)) eqn:Ev.
      * injection H as <- _. destruct v as [q|s'|h' l']; [simpl in Ev; discriminate| |]; rewrite Hnv; reflexivity.
      * destruct (expandw m r v) as [[a b]|] eqn:E; [|discriminate]. injection H as <- <-.
        assert (Hrec : value_of f r (KSym s :: vis) v = Ok a).
        { apply (IH v (KSym s :: vis) m a b E ltac:(lia)).
          apply (lighter_step r vis (Sym s) (KSym s) v Hl eq_refl).
          - intros w w2 Hw1 Hw2. rewrite (wt_functional _ _ _ _ Hw1 Hwt).
            assert (wt r v b) by (exists m, a; exact E). rewrite (wt_functional _ _ _ _ Hw2 H). lia.
          - intros w2 _. exists (S b). exact Hwt. }
        destruct v as [q|s'|h' l']; [| |].
        -- destruct m as [|m']; [discriminate|]. rewrite expandw_S in E. injection E as <- _. reflexivity.
        -- rewrite Hnv. exact Hrec.
        -- rewrite Hnv. exact Hrec.
    + destruct (mapM (expandw m r) l) as [ps|] eqn:E; [|discriminate]. injection H as <- <-.
      destruct (fast h l) eqn:Ef.
      * assert (G : seqM (value_of f r vis) l = Ok (map fst ps)).
        { apply seqM_Forall2. apply mapM_Forall2 in E.
          assert (Hsum : forall p, In p ps -> snd p <= sumw ps).
          { clear. induction ps as [|p0 ps IHp]; intros p [].
            - subst. rewrite sumw_cons. lia.
            - rewrite sumw_cons. specialize (IHp p H). lia. }
          assert (Hall : forall x p, In x l -> expandw m r x = Some p -> In p ps -> value_of f r vis x = Ok (fst p)).
          { intros x [a b] Hx Hxp Hp. apply (IH x vis m a b Hxp).
            - specialize (Hsum _ Hp). simpl in Hsum. lia.
            - intros k Hk wk w Hwk Hwx. specialize (Hl k Hk wk (S (sumw ps)) Hwk Hwt).
              assert (Hb : wt r x b) by (exists m, a; exact Hxp). rewrite (wt_functional _ _ _ _ Hwx Hb).
              specialize (Hsum _ Hp). simpl in Hsum. lia. }
          clear -E Hall. revert Hall. induction E as [|x p l ps Hx _ IHl]; intros Hall; simpl; constructor.
          - apply Hall; [left; reflexivity|exact Hx|left; reflexivity].
          - apply IHl. intros x' p' Hx' Hp' Hin. apply Hall; [right; exact Hx'|exact Hp'|right; exact Hin]. }
        rewrite G. reflexivity.
      * assert (Hnv : kmem (KExpr (App h l)) vis = false).
        { destruct (kmem (KExpr (App h l)) vis) eqn:Ek; [|reflexivity]. apply kmem_In in Ek.
          exfalso. exact (lighter_not_visiting r vis (App h l) (KExpr (App h l)) _ Hl eq_refl Hwt Ek). }
        rewrite Hnv. cbv zeta.
        destruct (expandw_subst_step r (S m) (App h l) _ _ H0) as [w2 [S1 [S2 S3]]].
        destruct (expr_eqb (subst r (App h l)) (App h l)) eqn:Ev.
        -- apply expr_eqb_eq in Ev. f_equal.
           (* a normal expression expands to itself *)
           destruct (normal_expand r (App h l) Ev) as [n' Hn']. apply expand_some in Hn'. destruct Hn' as [w' Hn'].
           pose proof (expandw_det _ _ _ _ _ _ H0 Hn') as Hd. injection Hd as Hd _. rewrite Hd. reflexivity.
        -- apply expr_eqb_neq in Ev. specialize (S3 Ev).
           apply (IH _ (KExpr (App h l) :: vis) (S m) _ w2 S1 ltac:(lia)).
           apply (lighter_step r vis (App h l) (KExpr (App h l)) _ Hl eq_refl).
           ++ intros w w2' Hw1 Hw2. rewrite (wt_functional _ _ _ _ Hw1 Hwt).
              assert (Hb : wt r (subst r (App h l)) w2) by (eexists _, _; exact S1).
              rewrite (wt_functional _ _ _ _ Hw2 Hb). exact S3.
           ++ intros w2' _. eexists. exact Hwt.
Qed.

Theorem value_of_complete r e e' : resolves_to r e e' -> exists fuel, value_of fuel r [] e = Ok e'.
Proof.
  intros [n H]. apply expand_some in H. destruct H as [w H]. exists w.
  eapply value_of_complete_gen; [exact H|lia|apply lighter_nil].
Qed.

(* ---- more fuel never changes an answer ------------------------------------------------------------------ *)
Lemma seqM_ext_definite {A B} (f g : A -> outcome B) l :
  (forall x o, In x l -> f x = o -> o <> OutOfFuel -> g x = o) ->
  forall o, seqM f l = o -> o <> OutOfFuel -> seqM g l = o.
Proof.
  induction l as [|x r IH]; intros H o Ho Hne; simpl in *; [exact Ho|].
  destruct (f x) as [y| |] eqn:E.
  - rewrite (H x (Ok y) (or_introl eq_refl) E ltac:(discriminate)).
    destruct (seqM f r) as [ys| |] eqn:E2.
    + rewrite (IH (fun x' o' Hx => H x' o' (or_intror Hx)) (Ok ys) eq_refl ltac:(discriminate)). exact Ho.
    + rewrite (IH (fun x' o' Hx => H x' o' (or_intror Hx)) Loop eq_refl ltac:(discriminate)). exact Ho.
    + subst o. contradiction Hne; reflexivity.
  - rewrite (H x Loop (or_introl eq_refl) E ltac:(discriminate)). exact Ho.
  - subst o. contradiction Hne; reflexivity.
Qed.

Lemma value_of_mono r : forall f vis e o, value_of f r vis e = o -> o <> OutOfFuel -> value_of (S f) r vis e = o.
Proof.
  induction f as [|f IH]; intros vis e o H Hne; [simpl in H; subst o; contradiction Hne; reflexivity|].
  rewrite value_of_S in H. rewrite value_of_S.
  destruct e as [q|s|h l]; [exact H| |].
  - destruct (lookup r s) as [v|]; [|exact H].
    assert (G : (if kmem (KSym s) vis then Loop else if expr_eqb v (Sym s) then Ok (Sym s) else value_of f r (KSym s :: vis) v) = o ->
                (if kmem (KSym s) vis then Loop else if expr_eqb v (Sym s) then Ok (Sym s) else value_of (S f) r (KSym s :: vis) v) = o).
    { destruct (kmem (KSym s) vis); [auto|]. destruct (expr_eqb v (Sym s)); [auto|]. intros H'. apply IH; assumption. }
    destruct v as [q|s'|h l]; [exact H|apply G; exact H|apply G; exact H].
  - destruct (fast h l).
    + destruct (seqM (value_of f r vis) l) as [l'| |] eqn:E.
      * rewrite (seqM_ext_definite _ (value_of (S f) r vis) l (fun x o' _ Hx Hn => IH vis x o' Hx Hn) _ E ltac:(discriminate)). exact H.
      * rewrite (seqM_ext_definite _ (value_of (S f) r vis) l (fun x o' _ Hx Hn => IH vis x o' Hx Hn) _ E ltac:(discriminate)). exact H.
      * subst o. contradiction Hne; reflexivity.
    + destruct (kmem (KExpr (App h l)) vis); [exact H|]. cbv zeta in *.
      destruct (expr_eqb (subst r (App h l)) (App h l)); [exact H|]. apply IH; assumption.
Qed.

Lemma value_of_mono_le r f f' vis e o : f <= f' -> value_of f r vis e = o -> o <> OutOfFuel -> value_of f' r vis e = o.
Proof. induction 1 as [|k Hle IHk]; intros Ho Hne; [exact Ho|]. apply value_of_mono; auto. Qed.

(* ---- a reported loop is a real one ------------------------------------------------------------------------ *)
Theorem value_of_loop_sound r fuel e : value_of fuel r [] e = Loop -> forall e', ~ resolves_to r e e'.
Proof.
  intros HL e' Hres. destruct (value_of_complete r e e' Hres) as [fuel' Hok].
  pose proof (value_of_mono_le r fuel (Nat.max fuel fuel') [] e Loop ltac:(lia) HL ltac:(discriminate)) as A.
  pose proof (value_of_mono_le r fuel' (Nat.max fuel fuel') [] e (Ok e') ltac:(lia) Hok ltac:(discriminate)) as B.
  congruence.
Qed.

(* cyclic dictionaries never get an answer *)
Theorem value_of_cyclic r fuel e : (forall e', ~ resolves_to r e e') -> forall e', value_of fuel r [] e <> Ok e'.
Proof. intros H e' Hok. exact (H e' (value_of_sound r fuel [] e e' Hok)). Qed.

(* ---- D1: value_of = substitution iterated to a fixed point -------------------------------------------------- *)
Theorem value_of_is_subst : forall r fuel e e', value_of fuel r [] e = Ok e' ->
  exists n, (forall k, n <= k -> subst_iter k r e = e') /\ subst r e' = e'.
Proof. intros r fuel e e' H. apply resolves_to_subst_fixpoint. eapply value_of_sound; eauto. Qed.

Corollary value_of_eval : forall r fuel e e', value_of fuel r [] e = Ok e' ->
  exists n, forall V (I : interp V) env, eval I env e' = eval I env (subst_iter n r e).
Proof.
  intros r fuel e e' H. destruct (value_of_is_subst r fuel e e' H) as [n [Hn _]].
  exists n. intros V I env. rewrite (Hn n (le_n n)). reflexivity.
Qed.

Example value_of_is_subst_example :
  value_of 10 [("a", App HAdd [Sym "b"; Num 1]); ("b", App HMul [Sym "c"; Num 2]); ("c", Num (1#2))]%string [] (Sym "a"%string)
  = Ok (App HAdd [App HMul [Num (1#2); Num 2]; Num 1]).
Proof. reflexivity. Qed.

(* ---- unrelated symbols are left alone ---------------------------------------------------------------------- *)
Lemma subst_unrelated r e : (forall s, In s (free_syms e) -> lookup r s = None) -> subst r e = e.
Proof. intros H. apply normal_settled. intros s Hs. left. apply H. exact Hs. Qed.

Theorem value_of_unrelated : forall r e, (forall s, In s (free_syms e) -> lookup r s = None) ->
  forall fuel, size e <= fuel -> value_of fuel r [] e = Ok e.
Proof.
  intros r. induction e as [q|s|h l IH] using expr_ind'; intros H fuel Hf.
  - destruct fuel; [simpl in Hf; lia|reflexivity].
  - destruct fuel; [simpl in Hf; lia|]. rewrite value_of_S. rewrite (H s (or_introl eq_refl)). reflexivity.
  - destruct fuel as [|f]; [simpl in Hf; lia|]. rewrite value_of_S.
    destruct (fast h l).
    + assert (G : seqM (value_of f r []) l = Ok l).
      { apply seqM_Forall2. simpl in H, Hf. apply le_S_n in Hf. clear h.
        induction l as [|x l IHl]; [constructor|]. inversion IH as [|? ? Hx Hrest]; subst. simpl in Hf. constructor.
        - apply Hx; [|lia]. intros s Hs. apply H. simpl. apply in_or_app. left. exact Hs.
        - apply IHl; [exact Hrest| |lia]. intros s Hs. apply H. simpl. apply in_or_app. right. exact Hs. }
      rewrite G. reflexivity.
    + simpl kmem. cbv zeta. rewrite (subst_unrelated r (App h l) H), expr_eqb_refl. reflexivity.
Qed.

Theorem resolves_unrelated : forall r e, (forall s, In s (free_syms e) -> lookup r s = None) -> resolves_to r e e.
Proof. intros r e H. eapply value_of_sound. apply (value_of_unrelated r e H (size e)). lia. Qed.

(* recursive=False is one simultaneous substitution, whatever path the code takes *)
Theorem value_of_once_subst : forall r e, value_of_once r e = subst r e.
Proof.
  intros r. induction e as [q|s|h l IH] using expr_ind'; simpl; try reflexivity.
  destruct (fast h l); [|reflexivity]. f_equal. apply map_ext_in. intros x Hx. rewrite Forall_forall in IH. auto.
Qed.

(* what is left after resolution only mentions settled symbols, and only symbols that were there or that the
   dictionary values mention *)
Definition range_syms (r : resolver) : list string := flat_map (fun p => free_syms (snd p)) r.

Lemma lookup_In r s v : lookup r s = Some v -> In (s, v) r.
Proof.
  induction r as [|[k x] r IH]; simpl; [discriminate|].
  destruct (String.eqb_spec k s) as [->|_]; [intros H; injection H as ->; left; reflexivity|intros H; right; auto].
Qed.

Lemma lookup_range r s v u : lookup r s = Some v -> In u (free_syms v) -> In u (range_syms r).
Proof. intros H Hu. apply lookup_In in H. unfold range_syms. apply in_flat_map. exists (s, v). split; assumption. Qed.

Lemma expandw_syms r : forall n e e' w, expandw n r e = Some (e', w) ->
  forall u, In u (free_syms e') -> In u (free_syms e) \/ In u (range_syms r).
Proof.
  induction n as [|m IH]; intros e e' w H u Hu; [discriminate|].
  rewrite expandw_S in H. destruct e as [q|s|h l].
  - injection H as <- _. left. exact Hu.
  - destruct (lookup r s) as [v|] eqn:El; [|injection H as <- _; left; exact Hu].
    destruct (expr_eqb v (Sym s)); [injection H as <- _; left; exact Hu|].
    destruct (expandw m r v) as [[a b]|] eqn:E; [|discriminate]. injection H as <- _.
    destruct (IH _ _ _ E u Hu) as [H1|H1]; [right; eapply lookup_range; eauto|right; exact H1].
  - destruct (mapM (expandw m r) l) as [ps|] eqn:E; [|discriminate]. injection H as <- _.
    simpl in Hu. apply in_flat_map in Hu. destruct Hu as [y [Hy Hu]].
    apply in_map_iff in Hy. destruct Hy as [[a b] [<- Hp]]. simpl in Hu.
    apply mapM_Forall2 in E.
    assert (G : exists x, In x l /\ expandw m r x = Some (a, b)).
    { clear -E Hp. induction E as [|x p l ps Hx _ IHl]; [destruct Hp|]. destruct Hp as [->|Hp].
      - exists x. split; [left; reflexivity|exact Hx].
      - destruct (IHl Hp) as [x' [Hx' Hx'']]. exists x'. split; [right; exact Hx'|exact Hx'']. }
    destruct G as [x [Hx Hxe]]. destruct (IH _ _ _ Hxe u Hu) as [H1|H1]; [left|right; exact H1].
    simpl. apply in_flat_map. exists x. split; assumption.
Qed.

Theorem resolves_to_syms r e e' : resolves_to r e e' ->
  forall u, In u (free_syms e') -> settled r u /\ (In u (free_syms e) \/ In u (range_syms r)).
Proof.
  intros Hres u Hu. split.
  - apply (proj1 (normal_settled r e') (resolves_to_normal r e e' Hres)). exact Hu.
  - destruct Hres as [n H]. apply expand_some in H. destruct H as [w H]. eapply expandw_syms; eauto.
Qed.

Lemma Forall_Forall2_map {A B} (P : A -> B -> Prop) (f : A -> B) l :
  Forall (fun x => P x (f x)) l -> Forall2 P l (map f l).
Proof. induction 1; simpl; constructor; auto. Qed.

(* ---- D2: composition ------------------------------------------------------------------------------------------- *)
(* a dictionary all of whose values are already fixed points resolves by a single substitution *)
Definition single_step (r : resolver) : Prop := forall s v, lookup r s = Some v -> subst r v = v.

Lemma single_step_resolves r : single_step r -> forall e, resolves_to r e (subst r e).
Proof.
  intros Hs. induction e as [q|s|h l IH] using expr_ind'.
  - exists 1. reflexivity.
  - simpl. destruct (lookup r s) as [v|] eqn:El.
    + destruct (expr_eqb v (Sym s)) eqn:Ev.
      * apply expr_eqb_eq in Ev. subst v. exists 1. unfold expand. rewrite expandw_S, El, expr_eqb_refl. reflexivity.
      * destruct (normal_expand r v (Hs s v El)) as [n Hn]. exists (S n). unfold expand in *. rewrite expandw_S, El, Ev.
        destruct (expandw n r v) as [[a b]|]; [|discriminate]. exact Hn.
    + exists 1. unfold expand. rewrite expandw_S, El. reflexivity.
  - simpl. apply expand_app. apply Forall_Forall2_map. exact IH.
Qed.

Lemma lookup_None_dom r s : lookup r s = None <-> ~ In s (dom r).
Proof.
  induction r as [|[k v] r IH]; simpl; [tauto|].
  destruct (String.eqb_spec k s) as [->|Hne].
  - split; [discriminate|intros C; contradiction C; left; reflexivity].
  - rewrite IH. split; [intros H [E|E]; [contradiction|contradiction]|tauto].
Qed.

Lemma lookup_Some_dom r s : In s (dom r) -> exists v, lookup r s = Some v.
Proof. intros H. destruct (lookup r s) as [v|] eqn:E; [eauto|]. apply lookup_None_dom in E. contradiction. Qed.

Lemma subst_ext r r' : (forall s, lookup r s = lookup r' s) -> forall e, subst r e = subst r' e.
Proof.
  intros H. induction e as [q|s|h l IH] using expr_ind'; simpl; [reflexivity|rewrite H; reflexivity|].
  f_equal. apply map_ext_in. rewrite Forall_forall in IH. auto.
Qed.

Lemma resolves_num r q x : resolves_to r (Num q) x -> x = Num q.
Proof. intros H. apply (resolves_to_functional r (Num q)); [exact H|exists 1; reflexivity]. Qed.

Lemma settled_resolves r s : settled r s -> resolves_to r (Sym s) (Sym s).
Proof.
  intros [H|H]; exists 1; unfold expand; rewrite expandw_S, H; [reflexivity|]. rewrite expr_eqb_refl. reflexivity.
Qed.

Lemma resolves_app_inv r h l e' : resolves_to r (App h l) e' ->
  exists l', e' = App h l' /\ Forall2 (resolves_to r) l l'.
Proof.
  intros [n H]. apply expand_app_inv in H. destruct H as [m [ps [-> [Hm ->]]]].
  exists (map fst ps). split; [reflexivity|]. apply mapM_Forall2 in Hm.
  induction Hm as [|x p l ps Hx _ IHl]; simpl; constructor; [|exact IHl].
  exists m. apply expand_some. exists (snd p). destruct p; exact Hx.
Qed.

Lemma seqM_ext {A B} (f g : A -> outcome B) l : (forall x, f x = g x) -> seqM f l = seqM g l.
Proof. intros H. induction l as [|x r IH]; simpl; [reflexivity|]. rewrite H, IH. reflexivity. Qed.

(* dictionaries built key by key *)
Lemma seqM_keyed {B} (F : string -> outcome B) keys new :
  seqM (fun k => bind (F k) (fun v => Ok (k, v))) keys = Ok new ->
  Forall2 (fun k p => fst p = k /\ F k = Ok (snd p)) keys new.
Proof.
  intros H. apply seqM_Forall2 in H. eapply Forall2_impl; [|exact H].
  intros k [k' v] Hk. simpl. unfold bind in Hk. destruct (F k) as [a| |]; try discriminate.
  injection Hk as <- <-. split; reflexivity.
Qed.

Lemma lookup_keyed (Q : string -> expr -> Prop) keys (new : resolver) :
  Forall2 (fun k p => fst p = k /\ Q k (snd p)) keys new ->
  forall k, (In k keys -> exists v, lookup new k = Some v /\ Q k v) /\ (~ In k keys -> lookup new k = None).
Proof.
  induction 1 as [|k0 [k1 v1] keys new [Hk Hq] _ IH]; intros k; simpl in *.
  - split; [tauto|reflexivity].
  - subst k1. destruct (String.eqb_spec k0 k) as [->|Hne].
    + split; [intros _; exists v1; split; [reflexivity|exact Hq]|intros C; contradiction C; left; reflexivity].
    + destruct (IH k) as [A B]. split; [intros [E|E]; [contradiction|auto]|intros C; apply B; tauto].
Qed.

Lemma compose_keys_In r1 r2 k : In k (compose_keys r1 r2) <-> In k (dom r1) \/ In k (dom r2).
Proof.
  unfold compose_keys. rewrite in_app_iff, filter_In. split.
  - intros [H|[H _]]; auto.
  - intros [H|H]; [|left; exact H]. destruct (mem k (dom r2)) eqn:E; [left; apply mem_In; exact E|right; split; [exact H|reflexivity]].
Qed.

(* "r1 then r2" on one symbol *)
Definition seq_val (r1 r2 : resolver) (k : string) (v2 : expr) : Prop :=
  exists v1, resolves_to r1 (Sym k) v1 /\ resolves_to r2 v1 v2.

Lemma compose_step_spec fuel r1 r2 new : compose_step fuel r1 r2 = Ok new ->
  forall k, (In k (dom r1) \/ In k (dom r2) -> exists v, lookup new k = Some v /\ seq_val r1 r2 k v) /\
            (~ (In k (dom r1) \/ In k (dom r2)) -> lookup new k = None).
Proof.
  intros H k. unfold compose_step in H.
  set (F := fun k => bind (if mem k (dom r1) then value_of fuel r1 [] (Sym k) else Ok (Sym k))
                          (fun v1 => value_of fuel r2 [] v1)).
  assert (H' : seqM (fun k => bind (F k) (fun v => Ok (k, v))) (compose_keys r1 r2) = Ok new).
  { rewrite <- H. apply seqM_ext. intros k0. unfold F, bind.
    destruct (mem k0 (dom r1)); [destruct (value_of fuel r1 [] (Sym k0))|]; reflexivity. }
  assert (Hseq : forall k v, F k = Ok v -> seq_val r1 r2 k v).
  { intros k0 v Hv. unfold F, bind in Hv.
    destruct (mem k0 (dom r1)) eqn:Em.
    - destruct (value_of fuel r1 [] (Sym k0)) as [v1| |] eqn:E1; try discriminate.
      exists v1. split; eapply value_of_sound; eauto.
    - exists (Sym k0). split; [|eapply value_of_sound; eauto].
      apply settled_resolves. left. apply lookup_None_dom. intros C. apply mem_In in C. congruence. }
  pose proof (lookup_keyed (fun k v => F k = Ok v) _ _ (seqM_keyed F _ _ H') k) as [A B].
  split.
  - intros Hk. destruct (A (proj2 (compose_keys_In r1 r2 k) Hk)) as [v [Hv Hq]]. exists v. split; [exact Hv|apply Hseq; exact Hq].
  - intros Hk. apply B. intros C. apply Hk. apply compose_keys_In. exact C.
Qed.

(* the hypothesis under which composition is sequential resolution: r2 does not bring back a symbol that r1 resolves *)
Definition no_reintro (r1 r2 : resolver) : Prop := forall u, In u (range_syms r2) -> settled r1 u.

Section Compose.
  Variables (r1 r2 new : resolver).
  Hypothesis Hnew : forall k, (In k (dom r1) \/ In k (dom r2) -> exists v, lookup new k = Some v /\ seq_val r1 r2 k v) /\
                              (~ (In k (dom r1) \/ In k (dom r2)) -> lookup new k = None).
  Hypothesis Hno : no_reintro r1 r2.

  Lemma settled_both_new u : settled r1 u -> settled r2 u -> settled new u.
  Proof.
    intros S1 S2. destruct (Hnew u) as [A B].
    destruct (in_dec string_dec u (dom r1)) as [I1|I1]; [|destruct (in_dec string_dec u (dom r2)) as [I2|I2]].
    - destruct (A (or_introl I1)) as [v [Hv [v1 [R1 R2]]]].
      rewrite (resolves_to_functional _ _ _ _ R1 (settled_resolves r1 u S1)) in R2.
      rewrite (resolves_to_functional _ _ _ _ R2 (settled_resolves r2 u S2)) in Hv. right. exact Hv.
    - destruct (A (or_intror I2)) as [v [Hv [v1 [R1 R2]]]].
      rewrite (resolves_to_functional _ _ _ _ R1 (settled_resolves r1 u S1)) in R2.
      rewrite (resolves_to_functional _ _ _ _ R2 (settled_resolves r2 u S2)) in Hv. right. exact Hv.
    - left. apply B. tauto.
  Qed.

  Lemma new_single_step : single_step new.
  Proof.
    intros k v Hk. apply normal_settled. intros u Hu.
    destruct (Hnew k) as [A B].
    assert (Hin : In k (dom r1) \/ In k (dom r2)).
    { destruct (in_dec string_dec k (dom r1)) as [I1|I1]; [auto|]. destruct (in_dec string_dec k (dom r2)) as [I2|I2]; [auto|].
      rewrite (B ltac:(tauto)) in Hk. discriminate. }
    destruct (A Hin) as [v' [Hv' [v1 [R1 R2]]]]. rewrite Hk in Hv'. injection Hv' as <-.
    destruct (resolves_to_syms r2 v1 v R2 u Hu) as [S2 [Hu1|Hu2]].
    - destruct (resolves_to_syms r1 (Sym k) v1 R1 u Hu1) as [S1 _]. apply settled_both_new; assumption.
    - apply settled_both_new; [apply Hno; exact Hu2|exact S2].
  Qed.

  Lemma subst_new_is_sequential : forall e e1 e2, resolves_to r1 e e1 -> resolves_to r2 e1 e2 -> subst new e = e2.
  Proof.
    induction e as [q|s|h l IH] using expr_ind'; intros e1 e2 R1 R2.
    - apply resolves_num in R1. subst e1. apply resolves_num in R2. subst e2. reflexivity.
    - simpl. destruct (Hnew s) as [A B].
      destruct (in_dec string_dec s (dom r1)) as [I1|I1]; [|destruct (in_dec string_dec s (dom r2)) as [I2|I2]].
      + destruct (A (or_introl I1)) as [v [Hv [v1 [Q1 Q2]]]]. rewrite Hv.
        rewrite (resolves_to_functional _ _ _ _ Q1 R1) in Q2. exact (resolves_to_functional _ _ _ _ Q2 R2).
      + destruct (A (or_intror I2)) as [v [Hv [v1 [Q1 Q2]]]]. rewrite Hv.
        rewrite (resolves_to_functional _ _ _ _ Q1 R1) in Q2. exact (resolves_to_functional _ _ _ _ Q2 R2).
      + rewrite (B ltac:(tauto)).
        assert (E1 : e1 = Sym s).
        { apply (resolves_to_functional r1 (Sym s)); [exact R1|]. apply settled_resolves. left. apply lookup_None_dom. exact I1. }
        subst e1. apply (resolves_to_functional r2 (Sym s)); [|exact R2]. apply settled_resolves. left. apply lookup_None_dom. exact I2.
    - apply resolves_app_inv in R1. destruct R1 as [l1 [-> F1]].
      apply resolves_app_inv in R2. destruct R2 as [l2 [-> F2]].
      simpl. f_equal. clear h. revert l1 l2 F1 F2. induction l as [|x l IHl]; intros l1 l2 F1 F2.
      + inversion F1; subst. inversion F2; subst. reflexivity.
      + inversion F1 as [|? y1 ? l1' Hx1 Hr1]; subst. inversion F2 as [|? y2 ? l2' Hx2 Hr2]; subst.
        inversion IH as [|? ? Hx Hrest]; subst. simpl. f_equal; [eapply Hx; eauto|eapply IHl; eauto].
  Qed.
End Compose.

Lemma flatten_resolver_lookup fuel new r12 : single_step new -> flatten_resolver fuel new = Ok r12 ->
  forall k, lookup r12 k = lookup new k.
Proof.
  intros Hs H k. unfold flatten_resolver in H.
  pose proof (lookup_keyed (fun k v => value_of fuel new [] (Sym k) = Ok v) _ _ (seqM_keyed _ _ _ H) k) as [A B].
  destruct (in_dec string_dec k (dom new)) as [I|I].
  - destruct (A I) as [v [Hv Hq]]. rewrite Hv.
    pose proof (value_of_sound _ _ _ _ _ Hq) as R.
    pose proof (resolves_to_functional _ _ _ _ R (single_step_resolves new Hs (Sym k))) as E.
    simpl in E. destruct (lookup new k) as [w|] eqn:El; [rewrite E; reflexivity|].
    apply lookup_None_dom in El. contradiction.
  - rewrite (B I). symmetry. apply lookup_None_dom. exact I.
Qed.

Lemma single_step_ext r r' : (forall s, lookup r s = lookup r' s) -> single_step r -> single_step r'.
Proof. intros H Hs s v Hv. rewrite <- H in Hv. rewrite <- (subst_ext r r' H). apply (Hs s v Hv). Qed.

(* D2: resolving with the composed dictionary = resolving with r1 and then with r2 *)
Theorem resolver_compose : forall fuel r1 r2 r12, compose fuel r1 r2 = Ok r12 -> no_reintro r1 r2 ->
  forall e e1 e2, resolves_to r1 e e1 -> resolves_to r2 e1 e2 -> resolves_to r12 e e2.
Proof.
  intros fuel r1 r2 r12 H Hno e e1 e2 R1 R2. unfold compose, bind in H.
  destruct (compose_step fuel r1 r2) as [new| |] eqn:Es; try discriminate.
  pose proof (compose_step_spec _ _ _ _ Es) as Hnew.
  pose proof (new_single_step r1 r2 new Hnew Hno) as Hss.
  assert (Hl : forall k, lookup r12 k = lookup new k).
  { destruct r1 as [|p r1']; [injection H as <-; reflexivity|]. apply (flatten_resolver_lookup fuel); assumption. }
  assert (Hss12 : single_step r12) by (apply (single_step_ext new); [intros s; symmetry; apply Hl|exact Hss]).
  rewrite <- (subst_new_is_sequential r1 r2 new Hnew e e1 e2 R1 R2).
  rewrite <- (subst_ext r12 new Hl). apply single_step_resolves. exact Hss12.
Qed.

Example resolver_compose_example :
  compose 10 [("a", Sym "b")]%string [("b", App HAdd [Sym "c"; Sym "d"])]%string
  = Ok [("b", App HAdd [Sym "c"; Sym "d"]); ("a", App HAdd [Sym "c"; Sym "d"])]%string
  /\ no_reintro [("a", Sym "b")]%string [("b", App HAdd [Sym "c"; Sym "d"])]%string.
Proof.
  split; [reflexivity|]. intros u Hu. simpl in Hu. left.
  destruct Hu as [<-|[<-|[]]]; reflexivity.
Qed.

(* without the hypothesis the law is false of the model (and of the code: replayed by the check) *)
Theorem resolver_compose_refuted : exists fuel r1 r2 r12 e e1 e2,
  compose fuel r1 r2 = Ok r12 /\ resolves_to r1 e e1 /\ resolves_to r2 e1 e2 /\ ~ resolves_to r12 e e2.
Proof.
  exists 10, [("a", Num 1)]%string, [("b", Sym "a")]%string, [("b", Num 1); ("a", Num 1)]%string,
         (Sym "b"%string), (Sym "b"%string), (Sym "a"%string).
  split; [reflexivity|]. split; [exists 1; reflexivity|]. split; [exists 2; reflexivity|].
  intros C. assert (D : resolves_to [("b", Num 1); ("a", Num 1)]%string (Sym "b"%string) (Num 1)) by (exists 2; reflexivity).
  pose proof (resolves_to_functional _ _ _ _ C D). discriminate.
Qed.

(* ---- D4: flattening preserves the value of every parameter ---------------------------------------------------- *)
Lemma next_symbol_fresh suffix base tk : forall fuel k s, next_symbol fuel suffix base tk k = Some s -> ~ In s tk.
Proof.
  induction fuel as [|f IH]; intros k s H; [discriminate|]. simpl in H.
  destruct (mem (match k with 0 => base | S _ => suffix base k end) tk) eqn:E.
  - eapply IH; eauto.
  - injection H as <-. intros C. apply mem_In in C. congruence.
Qed.

Lemma NoDup_app_one {A} (l : list A) x : NoDup l -> ~ In x l -> NoDup (l ++ [x]).
Proof.
  induction l as [|y l IH]; intros Hnd Hx; simpl; [constructor; [intros []|constructor]|].
  inversion Hnd as [|? ? Hy Hnd']; subst. constructor.
  - intros C. apply in_app_or in C. destruct C as [C|[C|[]]]; [contradiction|subst; apply Hx; left; reflexivity].
  - apply IH; [exact Hnd'|intros C; apply Hx; right; exact C].
Qed.

Lemma flookup_In m e s : flookup m e = Some s -> In (e, s) m.
Proof.
  induction m as [|[k v] m IH]; simpl; [discriminate|].
  destruct (expr_eqb k e) eqn:E; [apply expr_eqb_eq in E; subst k; intros H; injection H as ->; left; reflexivity|intros H; right; auto].
Qed.

Lemma transform_env_at {V} (I : interp V) env m formula s :
  NoDup (taken m) -> In (formula, s) m -> transform_env I env m s = eval I env formula.
Proof.
  unfold transform_env, taken. induction m as [|[f0 s0] m IH]; intros Hnd Hin; [destruct Hin|].
  simpl in Hnd. inversion Hnd as [|? ? Hnot Hnd']; subst. simpl.
  destruct Hin as [E|Hin].
  - injection E as -> ->. rewrite String.eqb_refl. reflexivity.
  - destruct (String.eqb_spec s0 s) as [->|Hne].
    + exfalso. apply Hnot. apply in_map_iff. exists (formula, s). split; [reflexivity|exact Hin].
    + apply IH; assumption.
Qed.

Section FlattenProofs.
  Variable name : expr -> string.
  Variable suffix : string -> nat -> string.

  (* one parameter: the map only grows at the end, stays injective on symbols, and names the parameter *)
  Lemma flatten_one_spec fuel m e e' m' : NoDup (taken m) -> flatten_one name suffix fuel m e = Some (e', m') ->
    NoDup (taken m') /\ (exists ext, m' = m ++ ext) /\
    ((exists q, e = Num q /\ e' = Num q) \/ (exists s, e' = Sym s /\ In (e, s) m')).
  Proof.
    intros Hnd H. unfold flatten_one in H.
    assert (G : match flookup m e with
                | Some s => Some (Sym s, m)
                | None => match next_symbol fuel suffix (name e) (taken m) 0 with
                          | Some s => Some (Sym s, m ++ [(e, s)])
                          | None => None
                          end
                end = Some (e', m') ->
                NoDup (taken m') /\ (exists ext, m' = m ++ ext) /\ (exists s, e' = Sym s /\ In (e, s) m')).
    { destruct (flookup m e) as [s|] eqn:El.
      - intros H'; injection H' as <- <-. split; [exact Hnd|]. split; [exists []; rewrite app_nil_r; reflexivity|].
        exists s. split; [reflexivity|apply flookup_In; exact El].
      - destruct (next_symbol fuel suffix (name e) (taken m) 0) as [s|] eqn:En; [|discriminate].
        intros H'; injection H' as <- <-. split; [|split].
        + unfold taken in *. rewrite map_app. simpl. apply NoDup_app_one; [exact Hnd|].
          eapply next_symbol_fresh; eauto.
        + exists [(e, s)]. reflexivity.
        + exists s. split; [reflexivity|]. apply in_or_app. right. left. reflexivity. }
    destruct e as [q|s|h l].
    - injection H as <- <-. split; [exact Hnd|]. split; [exists []; rewrite app_nil_r; reflexivity|].
      left. exists q. split; reflexivity.
    - destruct (G H) as [A [B C]]. auto.
    - destruct (G H) as [A [B C]]. auto.
  Qed.

  Theorem flatten_preserves_eval_gen : forall fuel es m es' m',
    NoDup (taken m) -> flatten_all name suffix fuel m es = Some (es', m') ->
    NoDup (taken m') /\ (exists ext, m' = m ++ ext) /\
    forall V (I : interp V) env, Forall2 (fun e e' => eval I (transform_env I env m') e' = eval I env e) es es'.
  Proof.
    intros fuel. induction es as [|e rest IH]; intros m es' m' Hnd H; simpl in H.
    - injection H as <- <-. split; [exact Hnd|]. split; [exists []; rewrite app_nil_r; reflexivity|]. intros; constructor.
    - destruct (flatten_one name suffix fuel m e) as [[e1 m1]|] eqn:E1; [|discriminate].
      destruct (flatten_all name suffix fuel m1 rest) as [[es2 m2]|] eqn:E2; [|discriminate].
      injection H as <- <-.
      destruct (flatten_one_spec _ _ _ _ _ Hnd E1) as [Hnd1 [[ext1 Hext1] Hone]].
      destruct (IH _ _ _ Hnd1 E2) as [Hnd2 [[ext2 Hext2] Hrest]].
      split; [exact Hnd2|]. split; [exists (ext1 ++ ext2); rewrite Hext2, Hext1, app_assoc; reflexivity|].
      intros V I env. constructor; [|apply Hrest].
      destruct Hone as [[q [-> ->]]|[s [-> Hin]]]; [reflexivity|].
      simpl. apply transform_env_at; [exact Hnd2|]. rewrite Hext2. apply in_or_app. left. exact Hin.
  Qed.

  Theorem flatten_preserves_eval : forall fuel es es' m,
    flatten_all name suffix fuel [] es = Some (es', m) ->
    forall V (I : interp V) env, Forall2 (fun e e' => eval I (transform_env I env m) e' = eval I env e) es es'.
  Proof. intros fuel es es' m H. apply (flatten_preserves_eval_gen fuel es [] es' m (NoDup_nil _) H). Qed.

  (* and the flattened parameters are flat: numbers or symbols *)
  Theorem flatten_is_flat : forall fuel es m es' m', flatten_all name suffix fuel m es = Some (es', m') ->
    Forall (fun e' => (exists q, e' = Num q) \/ (exists s, e' = Sym s)) es'.
  Proof.
    intros fuel. induction es as [|e rest IH]; intros m es' m' H; simpl in H.
    - injection H as <- _. constructor.
    - destruct (flatten_one name suffix fuel m e) as [[e1 m1]|] eqn:E1; [|discriminate].
      destruct (flatten_all name suffix fuel m1 rest) as [[es2 m2]|] eqn:E2; [|discriminate].
      injection H as <- _. constructor; [|eapply IH; eauto].
      unfold flatten_one in E1. destruct e as [q|s|h l].
      + injection E1 as <- _. left. eauto.
      + destruct (flookup m (Sym s)); [injection E1 as <- _; right; eauto|].
        destruct (next_symbol fuel suffix (name (Sym s)) (taken m) 0); [injection E1 as <- _; right; eauto|discriminate].
      + destruct (flookup m (App h l)); [injection E1 as <- _; right; eauto|].
        destruct (next_symbol fuel suffix (name (App h l)) (taken m) 0); [injection E1 as <- _; right; eauto|discriminate].
  Qed.
End FlattenProofs.

(* a collision of printed names is resolved, not confused: even a constant naming function works *)
Example flatten_collision_example :
  flatten_all (fun _ => "x"%string) (fun b k => (b ++ "_")%string) 10 [] [App HAdd [Sym "a"; Num 1]; Sym "x"; App HAdd [Sym "a"; Num 1]]%string
  = Some ([Sym "x"; Sym "x_"; Sym "x"]%string, [(App HAdd [Sym "a"; Num 1], "x"); (Sym "x", "x_")]%string).
Proof. reflexivity. Qed.

(* ---- D1, memoisation: the memo table never changes an answer ---------------------------------------------------- *)
Definition memo_ok (r : resolver) (memo : memo_t) : Prop :=
  forall k v, mlookup memo k = Some v -> resolves_to r (kexpr k) v.

Lemma memo_ok_nil r : memo_ok r [].
Proof. intros k v H. discriminate. Qed.

Lemma memo_ok_cons r memo k a : memo_ok r memo -> resolves_to r (kexpr k) a -> memo_ok r ((k, a) :: memo).
Proof.
  intros Hm Ha k' v. simpl. destruct (vkey_eqb k k') eqn:E.
  - apply vkey_eqb_eq in E. subst k'. intros H; injection H as <-. exact Ha.
  - apply Hm.
Qed.

(* "the table stays sound and, if there is an answer, it is the specified one" *)
Definition good (r : resolver) (e : expr) (res : outcome expr * memo_t) : Prop :=
  memo_ok r (snd res) /\ forall y, fst res = Ok y -> resolves_to r e y.

Lemma recursive_step_sound r rec memo vis k self v :
  (forall m vs x, memo_ok r m -> good r x (rec m vs x)) ->
  memo_ok r memo -> kexpr k = self ->
  (forall y, resolves_to r v y -> resolves_to r self y) ->
  (v = self -> resolves_to r self self) ->
  good r self (recursive_step rec memo vis k self v).
Proof.
  intros Hrec Hm Hk Hv Hself. unfold recursive_step, good.
  destruct (mlookup memo k) as [b|] eqn:El.
  - simpl. split; [exact Hm|]. intros y H; injection H as <-. rewrite <- Hk. apply Hm. exact El.
  - destruct (kmem k vis); [simpl; split; [exact Hm|discriminate]|].
    destruct (expr_eqb v self) eqn:Ev.
    + apply expr_eqb_eq in Ev. simpl. split; [apply memo_ok_cons; [exact Hm|rewrite Hk; auto]|].
      intros y H; injection H as <-. auto.
    + destruct (Hrec memo (k :: vis) v Hm) as [Hm1 Hy].
      destruct (rec memo (k :: vis) v) as [[y| |] m1]; simpl in *.
      * split; [apply memo_ok_cons; [exact Hm1|rewrite Hk; auto]|]. intros y' H; injection H as <-. auto.
      * split; [exact Hm1|discriminate].
      * split; [exact Hm1|discriminate].
Qed.

Lemma seqM_m_sound {A B S} (P : A -> B -> Prop) (Inv : S -> Prop) (f : S -> A -> outcome B * S) :
  (forall st x, Inv st -> Inv (snd (f st x)) /\ forall y, fst (f st x) = Ok y -> P x y) ->
  forall l st, Inv st -> Inv (snd (seqM_m f st l)) /\ forall ys, fst (seqM_m f st l) = Ok ys -> Forall2 P l ys.
Proof.
  intros Hf. induction l as [|x l IH]; intros st Hi; simpl.
  - split; [exact Hi|]. intros ys H; injection H as <-. constructor.
  - destruct (Hf st x Hi) as [Hi1 Hp]. destruct (f st x) as [[y| |] st1]; simpl in *.
    + destruct (IH st1 Hi1) as [Hi2 Hps]. destruct (seqM_m f st1 l) as [[ys1| |] st2]; simpl in *.
      * split; [exact Hi2|]. intros ys H; injection H as <-. constructor; auto.
      * split; [exact Hi2|discriminate].
      * split; [exact Hi2|discriminate].
    + split; [exact Hi1|discriminate].
    + split; [exact Hi1|discriminate].
Qed.

Lemma value_of_m_S f r memo vis e : value_of_m (S f) r memo vis e =
  match e with
  | Num q => (Ok (Num q), memo)
  | Sym s =>
      match lookup r s with
      | None => (Ok (Sym s), memo)
      | Some (Num q) => (Ok (Num q), memo)
      | Some v => recursive_step (value_of_m f r) memo vis (KSym s) (Sym s) v
      end
  | App h l =>
      if fast h l then
        match seqM_m (fun st x => value_of_m f r st vis x) memo l with
        | (Ok l', memo') => (Ok (App h l'), memo')
        | (Loop, memo') => (Loop, memo')
        | (OutOfFuel, memo') => (OutOfFuel, memo')
        end
      else recursive_step (value_of_m f r) memo vis (KExpr e) e (subst r e)
  end.
Proof. reflexivity. Qed.

Lemma value_of_m_good r : forall fuel memo vis e, memo_ok r memo -> good r e (value_of_m fuel r memo vis e).
Proof.
  induction fuel as [|f IH]; intros memo vis e Hm; [split; [exact Hm|discriminate]|].
  rewrite value_of_m_S. destruct e as [q|s|h l].
  - split; [exact Hm|]. intros y H; injection H as <-. exists 1. reflexivity.
  - destruct (lookup r s) as [v|] eqn:El.
    + assert (G : good r (Sym s) (recursive_step (value_of_m f r) memo vis (KSym s) (Sym s) v)).
      { apply (recursive_step_sound r (value_of_m f r) memo vis (KSym s) (Sym s) v (fun m vs x Hx => IH m vs x Hx) Hm eq_refl).
        - intros y [n Hn]. destruct (expr_eqb v (Sym s)) eqn:Ev.
          + apply expr_eqb_eq in Ev. subst v. exists n. exact Hn.
          + exists (S n). unfold expand in *. rewrite expandw_S, El, Ev.
            destruct (expandw n r v) as [[a b]|]; [|discriminate]. exact Hn.
        - intros ->. apply settled_resolves. right. exact El. }
      destruct v as [q|s'|h l]; [|exact G|exact G].
      split; [exact Hm|]. intros y H; injection H as <-. exists 2. unfold expand. rewrite expandw_S, El. reflexivity.
    + split; [exact Hm|]. intros y H; injection H as <-. exists 1. unfold expand. rewrite expandw_S, El. reflexivity.
  - destruct (fast h l).
    + destruct (seqM_m_sound (fun x y => exists n, expand n r x = Some y) (memo_ok r) (fun st x => value_of_m f r st vis x)
                  (fun st x Hi => IH st vis x Hi) l memo Hm) as [Hm1 Hall].
      destruct (seqM_m (fun st x => value_of_m f r st vis x) memo l) as [[l'| |] m1]; simpl in *.
      * split; [exact Hm1|]. intros y H; injection H as <-. apply expand_app. apply Hall. reflexivity.
      * split; [exact Hm1|discriminate].
      * split; [exact Hm1|discriminate].
    + apply (recursive_step_sound r (value_of_m f r) memo vis (KExpr (App h l)) (App h l) (subst r (App h l))
               (fun m vs x Hx => IH m vs x Hx) Hm eq_refl).
      * intros y [n Hn]. eapply expand_subst_back; eauto.
      * intros E. apply normal_expand. exact E.
Qed.

Theorem value_of_m_sound : forall r fuel memo vis e e' memo',
  memo_ok r memo -> value_of_m fuel r memo vis e = (Ok e', memo') -> resolves_to r e e' /\ memo_ok r memo'.
Proof.
  intros r fuel memo vis e e' memo' Hm H. destruct (value_of_m_good r fuel memo vis e Hm) as [A B].
  rewrite H in A, B. simpl in *. split; [apply B; reflexivity|exact A].
Qed.

(* a whole sequence of queries on one resolver object (the table is kept between calls): every answer is the specified
   one, hence equal to what a fresh memo-free value_of returns *)
Theorem value_of_seq_sound : forall r fuel es memo, memo_ok r memo ->
  Forall2 (fun e o => forall e', o = Ok e' -> resolves_to r e e') es (value_of_seq fuel r memo es).
Proof.
  intros r fuel. induction es as [|e rest IH]; intros memo Hm; simpl; [constructor|].
  destruct (value_of_m_good r fuel memo [] e Hm) as [A B].
  destruct (value_of_m fuel r memo [] e) as [o memo']. simpl in *. constructor; [|apply IH; exact A].
  intros e' ->. apply B. reflexivity.
Qed.

Lemma Forall2_combine_In {A B} (P : A -> B -> Prop) l l' x y : Forall2 P l l' -> In (x, y) (combine l l') -> P x y.
Proof.
  induction 1 as [|a b l l' Hab _ IH]; simpl; [intros []|]. intros [E|Hin]; [injection E as <- <-; exact Hab|auto].
Qed.

Corollary memo_does_not_change_answers : forall r fuel fuel' es memo e e' e'',
  memo_ok r memo -> In (e, Ok e') (combine es (value_of_seq fuel r memo es)) ->
  value_of fuel' r [] e = Ok e'' -> e' = e''.
Proof.
  intros r fuel fuel' es memo e e' e'' Hm Hin Hv.
  pose proof (Forall2_combine_In _ _ _ _ _ (value_of_seq_sound r fuel es memo Hm) Hin) as G. simpl in G.
  exact (resolves_to_functional r e e' e'' (G e' eq_refl) (value_of_sound r fuel' [] e e'' Hv)).
Qed.
