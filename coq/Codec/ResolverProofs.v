(* C10 — proofs about the resolver model (Codec/Resolver.v). *)
From Coq Require Import String ZArith QArith List Bool Lia Arith.
From VF Require Import Codec.Resolver.
Import ListNotations.
Local Open Scope nat_scope.

(* ---- induction principle for the nested inductive ------------------------------------------ *)
Section ExprInd.
  Variable P : expr -> Prop.
  Hypothesis HNum : forall q, P (Num q).
  Hypothesis HSym : forall s, P (Sym s).
  Hypothesis HApp : forall h l, Forall P l -> P (App h l).
  Fixpoint expr_ind' (e : expr) : P e :=
    match e with
    | Num q => HNum q
    | Sym s => HSym s
    | App h l => HApp h l ((fix go (l : list expr) : Forall P l :=
                              match l with
                              | [] => Forall_nil P
                              | x :: r => Forall_cons x (expr_ind' x) (go r)
                              end) l)
    end.
End ExprInd.

(* ---- structural equality is Leibniz equality -------------------------------------------------- *)
Lemma q_eqb_eq (a b : Q) : q_eqb a b = true <-> a = b.
Proof.
  destruct a as [an ad], b as [bn bd]. unfold q_eqb. simpl. rewrite andb_true_iff, Z.eqb_eq, Pos.eqb_eq.
  split; [intros [-> ->]; reflexivity|intros H; injection H; auto].
Qed.

Lemma head_eqb_eq (a b : head) : head_eqb a b = true <-> a = b.
Proof.
  destruct a, b; simpl; try (split; [discriminate|discriminate]); try tauto.
  rewrite Nat.eqb_eq. split; [intros ->; reflexivity|intros H; injection H; auto].
Qed.

Lemma expr_eqb_eq : forall a b, expr_eqb a b = true <-> a = b.
Proof.
  induction a as [q|s|h l IH] using expr_ind'; intros b; destruct b as [q'|s'|h' l']; simpl;
    try (split; [discriminate|discriminate]).
  - rewrite q_eqb_eq. split; [intros ->; reflexivity|intros H; injection H; auto].
  - rewrite String.eqb_eq. split; [intros ->; reflexivity|intros H; injection H; auto].
  - rewrite andb_true_iff, head_eqb_eq.
    assert (G : forall l', (fix go (x y : list expr) : bool :=
                  match x, y with
                  | [], [] => true
                  | u :: x', v :: y' => expr_eqb u v && go x' y'
                  | _, _ => false
                  end) l l' = true <-> l = l').
    { clear h h'. induction IH as [|x r Hx _ IHr]; intros [|y r']; simpl; try (split; [discriminate|discriminate]); [tauto|].
      rewrite andb_true_iff, Hx, IHr. split; [intros [-> ->]; reflexivity|intros H; injection H; auto]. }
    rewrite G. split; [intros [-> ->]; reflexivity|intros H; injection H; auto].
Qed.

Lemma expr_eqb_refl e : expr_eqb e e = true.
Proof. apply expr_eqb_eq. reflexivity. Qed.

Lemma expr_eqb_neq a b : expr_eqb a b = false <-> a <> b.
Proof.
  split.
  - intros H E. apply expr_eqb_eq in E. congruence.
  - intros H. destruct (expr_eqb a b) eqn:E; [apply expr_eqb_eq in E; contradiction|reflexivity].
Qed.

Lemma expr_eq_dec (a b : expr) : {a = b} + {a <> b}.
Proof.
  destruct (expr_eqb a b) eqn:E; [left; apply expr_eqb_eq; exact E|right; apply expr_eqb_neq; exact E].
Qed.

Lemma vkey_eqb_eq (a b : vkey) : vkey_eqb a b = true <-> a = b.
Proof.
  destruct a, b; simpl; try (split; [discriminate|discriminate]).
  - rewrite String.eqb_eq. split; [intros ->; reflexivity|intros H; injection H; auto].
  - rewrite expr_eqb_eq. split; [intros ->; reflexivity|intros H; injection H; auto].
Qed.

Lemma kmem_In k l : kmem k l = true <-> In k l.
Proof.
  induction l as [|x r IH]; simpl; [split; [discriminate|tauto]|].
  rewrite orb_true_iff, vkey_eqb_eq, IH. split; intros [H|H]; auto.
Qed.

Lemma mem_In s l : mem s l = true <-> In s l.
Proof.
  induction l as [|x r IH]; simpl; [split; [discriminate|tauto]|].
  rewrite orb_true_iff, String.eqb_eq, IH. split; intros [H|H]; auto.
Qed.

(* ---- mapM ---------------------------------------------------------------------------------------- *)
Lemma mapM_Forall2 {A B} (f : A -> option B) l ys :
  mapM f l = Some ys <-> Forall2 (fun x y => f x = Some y) l ys.
Proof.
  revert ys; induction l as [|x r IH]; intros ys; simpl.
  - split; [intros H; injection H as <-; constructor|intros H; inversion H; reflexivity].
  - destruct (f x) as [y|] eqn:E.
    + destruct (mapM f r) as [ys'|] eqn:E2.
      * split.
        -- intros H; injection H as <-. constructor; [exact E|]. apply IH. reflexivity.
        -- intros H; inversion H as [|? ? ? ? H1 H2]; subst. rewrite E in H1; injection H1 as <-.
           apply IH in H2. injection H2 as <-. reflexivity.
      * split; [discriminate|]. intros H; inversion H as [|? ? ? ? H1 H2]; subst. apply IH in H2. discriminate.
    + split; [discriminate|]. intros H; inversion H as [|? ? ? ? H1 H2]; subst. rewrite E in H1; discriminate.
Qed.

Lemma Forall2_map_l {A B C} (P : B -> C -> Prop) (f : A -> B) l l' :
  Forall2 P (map f l) l' <-> Forall2 (fun x y => P (f x) y) l l'.
Proof.
  revert l'; induction l as [|x r IH]; intros l'; simpl.
  - split; intros H; inversion H; constructor.
  - split; intros H; inversion H; subst; constructor; auto; apply IH; auto.
Qed.

Lemma Forall2_impl {A B} (P Q : A -> B -> Prop) l l' :
  (forall a b, P a b -> Q a b) -> Forall2 P l l' -> Forall2 Q l l'.
Proof. intros H. induction 1; constructor; auto. Qed.

(* ---- expandw: more depth never changes an answer -------------------------------------------------- *)
Lemma expandw_S n r e : expandw (S n) r e =
  match e with
  | Num q => Some (e, 1)
  | Sym s =>
      match lookup r s with
      | None => Some (e, 1)
      | Some v => if expr_eqb v (Sym s) then Some (e, 1)
                  else match expandw n r v with Some (e', w) => Some (e', S w) | None => None end
      end
  | App h l =>
      match mapM (expandw n r) l with
      | Some ps => Some (App h (map fst ps), S (sumw ps))
      | None => None
      end
  end.
Proof. reflexivity. Qed.

Lemma expandw_mono r : forall n e x, expandw n r e = Some x -> expandw (S n) r e = Some x.
Proof.
  induction n as [|m IH]; intros e x H; [discriminate|].
  rewrite expandw_S in H. rewrite expandw_S.
  destruct e as [q|s|h l].
  - exact H.
  - destruct (lookup r s) as [v|]; [|exact H].
    destruct (expr_eqb v (Sym s)); [exact H|].
    destruct (expandw m r v) as [[e' w]|] eqn:E; [|discriminate].
    rewrite (IH _ _ E). exact H.
  - destruct (mapM (expandw m r) l) as [ps|] eqn:E; [|discriminate].
    assert (E2 : mapM (expandw (S m) r) l = Some ps).
    { apply mapM_Forall2. apply mapM_Forall2 in E. eapply Forall2_impl; [|exact E]. intros a b Hab. apply IH. exact Hab. }
    rewrite E2. exact H.
Qed.

Lemma expandw_mono_le r n n' e x : n <= n' -> expandw n r e = Some x -> expandw n' r e = Some x.
Proof. induction 1 as [|k Hle IH]; intros Hx; [exact Hx|]. apply expandw_mono. auto. Qed.

Lemma expandw_det r n n' e x x' : expandw n r e = Some x -> expandw n' r e = Some x' -> x = x'.
Proof.
  intros H H'. apply (expandw_mono_le r n (Nat.max n n')) in H; [|lia].
  apply (expandw_mono_le r n' (Nat.max n n')) in H'; [|lia]. congruence.
Qed.

Lemma expand_some r n e e' : expand n r e = Some e' <-> exists w, expandw n r e = Some (e', w).
Proof.
  unfold expand. destruct (expandw n r e) as [[a w]|]; simpl; split.
  - intros H; injection H as <-. eauto.
  - intros [w' H]; injection H as <- _. reflexivity.
  - discriminate.
  - intros [w' H]; discriminate.
Qed.

Lemma expand_mono_le r n n' e x : n <= n' -> expand n r e = Some x -> expand n' r e = Some x.
Proof.
  intros Hle H. apply expand_some in H. destruct H as [w H]. apply expand_some. exists w.
  eapply expandw_mono_le; eauto.
Qed.

Theorem resolves_to_functional r e e1 e2 : resolves_to r e e1 -> resolves_to r e e2 -> e1 = e2.
Proof.
  intros [n H] [n' H']. apply expand_some in H, H'. destruct H as [w H], H' as [w' H'].
  pose proof (expandw_det _ _ _ _ _ _ H H') as E. congruence.
Qed.

Lemma expandw_weight_pos r : forall n e e' w, expandw n r e = Some (e', w) -> 1 <= w.
Proof.
  induction n as [|m IH]; intros e e' w H; [discriminate|].
  rewrite expandw_S in H. destruct e as [q|s|h l].
  - injection H as _ <-. lia.
  - destruct (lookup r s) as [v|]; [|injection H as _ <-; lia].
    destruct (expr_eqb v (Sym s)); [injection H as _ <-; lia|].
    destruct (expandw m r v) as [[a b]|]; [injection H as _ <-; lia|discriminate].
  - destruct (mapM (expandw m r) l); [injection H as _ <-; lia|discriminate].
Qed.

(* combining expansions of the elements of a list at one common depth *)
Lemma expand_all r l l' :
  Forall2 (fun x y => exists n, expand n r x = Some y) l l' ->
  exists N ps, mapM (expandw N r) l = Some ps /\ map fst ps = l'.
Proof.
  induction 1 as [|x y l l' [n Hx] _ [N [ps [H1 H2]]]].
  - exists 0, []. split; reflexivity.
  - apply expand_some in Hx. destruct Hx as [w Hx].
    exists (Nat.max n N), ((y, w) :: ps). split; [|simpl; rewrite H2; reflexivity].
    simpl. rewrite (expandw_mono_le r n _ _ _ (Nat.le_max_l n N) Hx).
    assert (E : mapM (expandw (Nat.max n N) r) l = Some ps).
    { apply mapM_Forall2. apply mapM_Forall2 in H1. eapply Forall2_impl; [|exact H1].
      intros a b Hab. eapply expandw_mono_le; [|exact Hab]. lia. }
    rewrite E. reflexivity.
Qed.

Lemma expand_app r h l l' :
  Forall2 (fun x y => exists n, expand n r x = Some y) l l' -> exists n, expand n r (App h l) = Some (App h l').
Proof.
  intros H. destruct (expand_all r l l' H) as [N [ps [H1 H2]]].
  exists (S N). unfold expand. rewrite expandw_S, H1. simpl. rewrite H2. reflexivity.
Qed.

Lemma expand_app_inv r n h l e' :
  expand n r (App h l) = Some e' ->
  exists m ps, n = S m /\ mapM (expandw m r) l = Some ps /\ e' = App h (map fst ps).
Proof.
  destruct n as [|m]; [discriminate|]. unfold expand. rewrite expandw_S.
  destruct (mapM (expandw m r) l) as [ps|] eqn:E; [|discriminate]. simpl. intros H; injection H as <-.
  exists m, ps. split; [reflexivity|]. split; [exact E|reflexivity].
Qed.

(* ---- substitution -------------------------------------------------------------------------------------- *)
Lemma map_id_Forall {A} (f : A -> A) (l : list A) : map f l = l <-> Forall (fun x => f x = x) l.
Proof.
  induction l as [|x r IH]; simpl; [split; constructor|].
  split.
  - intros H; injection H as H1 H2. constructor; [exact H1|apply IH; exact H2].
  - intros H; inversion H; subst. f_equal; [assumption|apply IH; assumption].
Qed.

Lemma subst_iter_fix r e : subst r e = e -> forall k, subst_iter k r e = e.
Proof. intros H k. induction k as [|k IH]; simpl; [reflexivity|]. rewrite H. exact IH. Qed.

Lemma subst_iter_num r k q : subst_iter k r (Num q) = Num q.
Proof. apply subst_iter_fix. reflexivity. Qed.

Lemma subst_iter_app r h : forall k l, subst_iter k r (App h l) = App h (map (subst_iter k r) l).
Proof.
  induction k as [|k IH]; intros l; simpl.
  - rewrite map_id. reflexivity.
  - rewrite IH, map_map. reflexivity.
Qed.

(* a symbol is settled when the dictionary does not bind it, or binds it to itself *)
Definition settled (r : resolver) (s : string) : Prop := lookup r s = None \/ lookup r s = Some (Sym s).

Lemma normal_settled r : forall e, subst r e = e <-> (forall s, In s (free_syms e) -> settled r s).
Proof.
  induction e as [q|s|h l IH] using expr_ind'; simpl.
  - split; [intros _ s []|reflexivity].
  - unfold settled. split.
    + intros H s' [<-|[]]. destruct (lookup r s) as [v|]; [right; rewrite H; reflexivity|left; reflexivity].
    + intros H. destruct (H s (or_introl eq_refl)) as [E|E]; rewrite E; reflexivity.
  - split.
    + intros H s Hs. injection H as H. apply map_id_Forall in H.
      apply in_flat_map in Hs. destruct Hs as [x [Hx Hs]].
      rewrite Forall_forall in IH, H. apply (proj1 (IH x Hx) (H x Hx)). exact Hs.
    + intros H. f_equal. apply map_id_Forall. rewrite Forall_forall in IH |- *. intros x Hx.
      apply (IH x Hx). intros s Hs. apply H. apply in_flat_map. exists x. split; assumption.
Qed.

(* T3: what the specification returns is a fixed point of substitution *)
Lemma expandw_normal r : forall n e e' w, expandw n r e = Some (e', w) -> subst r e' = e'.
Proof.
  induction n as [|m IH]; intros e e' w H; [discriminate|].
  rewrite expandw_S in H. destruct e as [q|s|h l].
  - injection H as <- _. reflexivity.
  - destruct (lookup r s) as [v|] eqn:El.
    + destruct (expr_eqb v (Sym s)) eqn:Ev.
      * injection H as <- _. apply expr_eqb_eq in Ev. simpl. rewrite El. exact Ev.
      * destruct (expandw m r v) as [[a b]|] eqn:E; [|discriminate]. injection H as <- _. eapply IH; eauto.
    + injection H as <- _. simpl. rewrite El. reflexivity.
  - destruct (mapM (expandw m r) l) as [ps|] eqn:E; [|discriminate]. injection H as <- _.
    simpl. f_equal. rewrite map_map. apply mapM_Forall2 in E.
    clear -E IH. induction E as [|x p l ps Hx _ IHl]; [reflexivity|].
    destruct p as [a b]. simpl. rewrite (IH _ _ _ Hx). f_equal. exact IHl.
Qed.

Theorem resolves_to_normal r e e' : resolves_to r e e' -> subst r e' = e'.
Proof. intros [n H]. apply expand_some in H. destruct H as [w H]. eapply expandw_normal; eauto. Qed.

(* T4: the specification is simultaneous substitution iterated until nothing changes *)
Lemma expandw_subst_iter r : forall n e e' w, expandw n r e = Some (e', w) -> forall k, n <= k -> subst_iter k r e = e'.
Proof.
  induction n as [|m IH]; intros e e' w H k Hk; [discriminate|].
  rewrite expandw_S in H. destruct e as [q|s|h l].
  - injection H as <- _. apply subst_iter_num.
  - destruct (lookup r s) as [v|] eqn:El.
    + destruct (expr_eqb v (Sym s)) eqn:Ev.
      * injection H as <- _. apply expr_eqb_eq in Ev. apply subst_iter_fix. simpl. rewrite El. exact Ev.
      * destruct (expandw m r v) as [[a b]|] eqn:E; [|discriminate]. injection H as <- _.
        destruct k as [|k]; [lia|]. simpl. rewrite El. eapply IH; [exact E|lia].
    + injection H as <- _. apply subst_iter_fix. simpl. rewrite El. reflexivity.
  - destruct (mapM (expandw m r) l) as [ps|] eqn:E; [|discriminate]. injection H as <- _.
    rewrite subst_iter_app. f_equal. apply mapM_Forall2 in E.
    clear -E IH Hk. induction E as [|x p l ps Hx _ IHl]; [reflexivity|].
    destruct p as [a b]. simpl. rewrite (IH _ _ _ Hx k ltac:(lia)). f_equal. exact IHl.
Qed.

Theorem resolves_to_subst_fixpoint r e e' : resolves_to r e e' ->
  exists n, (forall k, n <= k -> subst_iter k r e = e') /\ subst r e' = e'.
Proof.
  intros [n H]. apply expand_some in H. destruct H as [w H]. exists n. split.
  - intros k Hk. eapply expandw_subst_iter; eauto.
  - eapply expandw_normal; eauto.
Qed.

(* a fixed point of substitution expands to itself *)
Lemma normal_expand r : forall e, subst r e = e -> exists n, expand n r e = Some e.
Proof.
  induction e as [q|s|h l IH] using expr_ind'; intros H.
  - exists 1. reflexivity.
  - exists 1. unfold expand. rewrite expandw_S. simpl in H. destruct (lookup r s) as [v|]; [|reflexivity].
    subst v. rewrite expr_eqb_refl. reflexivity.
  - simpl in H. injection H as H. apply map_id_Forall in H. apply expand_app.
    clear h. induction l as [|x l IHl]; [constructor|].
    inversion IH; inversion H; subst. constructor; auto.
Qed.

(* S3: one substitution step does not change what an expression resolves to *)
Lemma expand_subst_back r : forall e n e', expand n r (subst r e) = Some e' -> exists m, expand m r e = Some e'.
Proof.
  induction e as [q|s|h l IH] using expr_ind'; intros n e' H.
  - exists n. exact H.
  - simpl in H. destruct (lookup r s) as [v|] eqn:El; [|exists n; exact H].
    destruct (expr_eqb v (Sym s)) eqn:Ev.
    + apply expr_eqb_eq in Ev. subst v. exists n. exact H.
    + exists (S n). unfold expand in *. rewrite expandw_S, El, Ev.
      destruct (expandw n r v) as [[a b]|]; [|discriminate]. simpl in *. exact H.
  - simpl in H. apply expand_app_inv in H. destruct H as [m [ps [-> [Hm ->]]]].
    apply expand_app. apply mapM_Forall2 in Hm. apply Forall2_map_l in Hm.
    clear h. revert ps Hm. induction l as [|x l IHl]; intros ps Hm; inversion Hm as [|? p ? ps' Hx Hrest]; subst; simpl; [constructor|].
    inversion IH; subst. constructor.
    + apply (H1 m (fst p)). apply expand_some. exists (snd p). destruct p; exact Hx.
    + apply IHl; assumption.
Qed.

(* ---- T1: an answer of value_of is the specified one ---------------------------------------------------- *)
Lemma seqM_Forall2 {A B} (f : A -> outcome B) l ys : seqM f l = Ok ys <-> Forall2 (fun x y => f x = Ok y) l ys.
Proof.
  revert ys; induction l as [|x r IH]; intros ys; simpl.
  - split; [intros H; injection H as <-; constructor|intros H; inversion H; reflexivity].
  - destruct (f x) as [y| |] eqn:E.
    + destruct (seqM f r) as [ys'| |] eqn:E2.
      * split.
        -- intros H; injection H as <-. constructor; [exact E|]. apply IH. reflexivity.
        -- intros H; inversion H as [|? ? ? ? H1 H2]; subst. rewrite E in H1; injection H1 as <-.
           apply IH in H2. injection H2 as <-. reflexivity.
      * split; [discriminate|]. intros H; inversion H as [|? ? ? ? H1 H2]; subst. apply IH in H2. discriminate.
      * split; [discriminate|]. intros H; inversion H as [|? ? ? ? H1 H2]; subst. apply IH in H2. discriminate.
    + split; [discriminate|]. intros H; inversion H as [|? ? ? ? H1 H2]; subst. rewrite E in H1; discriminate.
    + split; [discriminate|]. intros H; inversion H as [|? ? ? ? H1 H2]; subst. rewrite E in H1; discriminate.
Qed.

Lemma value_of_S f r vis e : value_of (S f) r vis e =
  match e with
  | Num q => Ok (Num q)
  | Sym s =>
      match lookup r s with
      | None => Ok (Sym s)
      | Some (Num q) => Ok (Num q)
      | Some v =>
          if kmem (KSym s) vis then Loop
          else if expr_eqb v (Sym s) then Ok (Sym s)
          else value_of f r (KSym s :: vis) v
      end
  | App h l =>
      if fast h l then
        match seqM (value_of f r vis) l with
        | Ok l' => Ok (App h l')
        | Loop => Loop
        | OutOfFuel => OutOfFuel
        end
      else
        if kmem (KExpr e) vis then Loop
        else let v := subst r e in
             if expr_eqb v e then Ok e else value_of f r (KExpr e :: vis) v
  end.
Proof. reflexivity. Qed.

Theorem value_of_sound r : forall fuel vis e e', value_of fuel r vis e = Ok e' -> resolves_to r e e'.
Proof.
  induction fuel as [|f IH]; intros vis e e' H; [discriminate|].
  rewrite value_of_S in H. destruct e as [q|s|h l].
  - injection H as <-. exists 1. reflexivity.
  - destruct (lookup r s) as [v|] eqn:El.
    + assert (G : (if kmem (KSym s) vis then Loop else if expr_eqb v (Sym s) then Ok (Sym s) else value_of f r (KSym s :: vis) v) = Ok e'
                  -> resolves_to r (Sym s) e').
      { destruct (kmem (KSym s) vis); [discriminate|].
        destruct (expr_eqb v (Sym s)) eqn:Ev.
        - intros H'; injection H' as <-. exists 1. unfold expand. rewrite expandw_S, El, Ev. reflexivity.
        - intros H'. destruct (IH _ _ _ H') as [n Hn]. exists (S n). unfold expand in *. rewrite expandw_S, El, Ev.
          destruct (expandw n r v) as [[a b]|]; [|discriminate]. exact Hn. }
      destruct v as [q|s'|h l]; try (apply G; exact H).
      injection H as <-. exists 2. unfold expand. rewrite expandw_S, El. reflexivity.
    + injection H as <-. exists 1. unfold expand. rewrite expandw_S, El. reflexivity.
  - destruct (fast h l).
    + destruct (seqM (value_of f r vis) l) as [l'| |] eqn:E; try discriminate. injection H as <-.
      apply expand_app. apply seqM_Forall2 in E. eapply Forall2_impl; [|exact E]. intros a b Hab. exact (IH _ _ _ Hab).
    + destruct (kmem (KExpr (App h l)) vis); [discriminate|]. cbv zeta in H.
      destruct (expr_eqb (subst r (App h l)) (App h l)) eqn:Ev.
      * injection H as <-. apply expr_eqb_eq in Ev. apply normal_expand. exact Ev.
      * destruct (IH _ _ _ H) as [n Hn]. eapply expand_subst_back; eauto.
Qed.

(* ---- weights: every recursive call of value_of works on something strictly lighter ----------------------- *)
Definition wt (r : resolver) (e : expr) (w : nat) : Prop := exists n e', expandw n r e = Some (e', w).

Lemma wt_functional r e w w' : wt r e w -> wt r e w' -> w = w'.
Proof. intros [n [a H]] [n' [a' H']]. pose proof (expandw_det _ _ _ _ _ _ H H'). congruence. Qed.

(* one substitution step: same answer, not heavier, strictly lighter if anything changed *)
Lemma sumw_cons p ps : sumw (p :: ps) = snd p + sumw ps.
Proof. reflexivity. Qed.

Lemma expandw_subst_step r : forall n e e1 w1, expandw n r e = Some (e1, w1) ->
  exists w2, expandw n r (subst r e) = Some (e1, w2) /\ w2 <= w1 /\ (subst r e <> e -> w2 < w1).
Proof.
  induction n as [|m IH]; intros e e1 w1 H; [discriminate|].
  destruct e as [q|s|h l].
  - exists w1. simpl subst. split; [exact H|]. split; [lia|]. intros C; contradiction C; reflexivity.
  - pose proof H as H0. rewrite expandw_S in H. simpl subst. destruct (lookup r s) as [v|] eqn:El.
    + destruct (expr_eqb v (Sym s)) eqn:Ev.
      * apply expr_eqb_eq in Ev. subst v. exists w1. split; [exact H0|]. split; [lia|]. intros C; contradiction C; reflexivity.
      * destruct (expandw m r v) as [[a b]|] eqn:E; [|discriminate]. injection H as <- <-.
        exists b. split; [apply expandw_mono; exact E|]. split; lia.
    + exists w1. split; [exact H0|]. split; [lia|]. intros C; contradiction C; reflexivity.
  - rewrite expandw_S in H. destruct (mapM (expandw m r) l) as [ps|] eqn:E; [|discriminate]. injection H as <- <-.
    assert (G : exists ps2, mapM (expandw m r) (map (subst r) l) = Some ps2 /\ map fst ps2 = map fst ps /\
                            sumw ps2 <= sumw ps /\ (map (subst r) l <> l -> sumw ps2 < sumw ps)).
    { clear h. revert ps E. induction l as [|x l IHl]; intros ps E.
      - simpl in E. injection E as <-. exists []. simpl. repeat split; try lia. intros C; contradiction C; reflexivity.
      - simpl in E. destruct (expandw m r x) as [[a b]|] eqn:Ex; [|discriminate].
        destruct (mapM (expandw m r) l) as [ps'|] eqn:El; [|discriminate]. injection E as <-.
        destruct (IH _ _ _ Ex) as [w2 [H1 [H2 H3]]]. destruct (IHl ps' eq_refl) as [ps2 [G1 [G2 [G3 G4]]]].
        exists ((a, w2) :: ps2). simpl map. simpl mapM. rewrite H1, G1. rewrite !sumw_cons. simpl fst. simpl snd.
        split; [reflexivity|]. split; [rewrite G2; reflexivity|]. split; [lia|].
        intros C. destruct (expr_eq_dec (subst r x) x) as [Ex'|Ex'].
        + assert (map (subst r) l <> l) by (intros C'; apply C; rewrite Ex', C'; reflexivity).
          specialize (G4 H). lia.
        + specialize (H3 Ex'). lia. }
    destruct G as [ps2 [G1 [G2 [G3 G4]]]].
    exists (S (sumw ps2)). simpl subst. rewrite expandw_S, G1, G2. split; [reflexivity|]. split; [lia|].
    intros C. assert (map (subst r) l <> l) by (intros C'; apply C; rewrite C'; reflexivity).
    specialize (G4 H). lia.
Qed.

(* the keys holding the recursion sentinel are strictly heavier than the expression being resolved *)
Definition kexpr (k : vkey) : expr := match k with KSym s => Sym s | KExpr e => e end.
Definition lighter (r : resolver) (vis : list vkey) (e : expr) : Prop :=
  forall k, In k vis -> forall wk w, wt r (kexpr k) wk -> wt r e w -> w < wk.

Lemma lighter_nil r e : lighter r [] e.
Proof. intros k []. Qed.

Lemma lighter_step r vis e k e2 :
  lighter r vis e -> kexpr k = e ->
  (forall w w2, wt r e w -> wt r e2 w2 -> w2 < w) ->
  (forall w2, wt r e2 w2 -> exists w, wt r e w) ->
  lighter r (k :: vis) e2.
Proof.
  intros Hl Hk Hlt Hex k' [<-|Hin] wk w2 Hwk Hw2.
  - rewrite Hk in Hwk. eapply Hlt; eauto.
  - destruct (Hex _ Hw2) as [w Hw]. specialize (Hl k' Hin wk w Hwk Hw). specialize (Hlt w w2 Hw Hw2). lia.
Qed.

Lemma lighter_not_visiting r vis e k w : lighter r vis e -> kexpr k = e -> wt r e w -> ~ In k vis.
Proof. intros Hl Hk Hw Hin. specialize (Hl k Hin w w). rewrite Hk in Hl. specialize (Hl Hw Hw). lia. Qed.

(* ---- completeness: whatever the specification resolves, value_of returns, with fuel = weight ------------- *)
Theorem value_of_complete_gen r : forall fuel e vis n e1 w1,
  expandw n r e = Some (e1, w1) -> w1 <= fuel -> lighter r vis e -> value_of fuel r vis e = Ok e1.
Proof.
  induction fuel as [|f IH]; intros e vis n e1 w1 H Hw Hl.
  - pose proof (expandw_weight_pos _ _ _ _ _ H). lia.
  - assert (Hwt : wt r e w1) by (exists n, e1; exact H).
    destruct n as [|m]; [discriminate|]. rewrite value_of_S. pose proof H as H0. rewrite expandw_S in H.
    destruct e as [q|s|h l].
    + injection H as <- _. reflexivity.
    + destruct (lookup r s) as [v|] eqn:El; [|injection H as <- _; reflexivity].
      assert (Hnv : kmem (KSym s) vis = false).
      { destruct (kmem (KSym s) vis) eqn:Ek; [|reflexivity]. apply kmem_In in Ek.
        exfalso. exact (lighter_not_visiting r vis (Sym s) (KSym s) w1 Hl eq_refl Hwt Ek). }
      destruct (expr_eqb v (Sym s)) eqn:Ev.
      * injection H as <- _. destruct v as [q|s'|h' l']; [simpl in Ev; discriminate| |]; rewrite Hnv; reflexivity.
      * destruct (expandw m r v) as [[a b]|] eqn:E; [|discriminate]. injection H as <- <-.
        assert (Hrec : value_of f r (KSym s :: vis) v = Ok a).
        { apply (IH v (KSym s :: vis) m a b E ltac:(lia)).
          apply (lighter_step r vis (Sym s) (KSym s) v Hl eq_refl).
          - intros w w2 Hw1 Hw2. rewrite (wt_functional _ _ _ _ Hw1 Hwt).
            assert (wt r v b) by (exists m, a; exact E). rewrite (wt_functional _ _ _ _ Hw2 H). lia.
          - intros w2 _. exists (S b). exact Hwt. }
        destruct v as [q|s'|h' l']; [| |].
        -- destruct m as [|m']; [discriminate|]. rewrite expandw_S in E. injection E as <- _. reflexivity.
        -- rewrite Hnv. exact Hrec.
        -- rewrite Hnv. exact Hrec.
    + destruct (mapM (expandw m r) l) as [ps|] eqn:E; [|discriminate]. injection H as <- <-.
      destruct (fast h l) eqn:Ef.
      * assert (G : seqM (value_of f r vis) l = Ok (map fst ps)).
        { apply seqM_Forall2. apply mapM_Forall2 in E.
          assert (Hsum : forall p, In p ps -> snd p <= sumw ps).
          { clear. induction ps as [|p0 ps IHp]; intros p [].
            - subst. rewrite sumw_cons. lia.
            - rewrite sumw_cons. specialize (IHp p H). lia. }
          assert (Hall : forall x p, In x l -> expandw m r x = Some p -> In p ps -> value_of f r vis x = Ok (fst p)).
          { intros x [a b] Hx Hxp Hp. apply (IH x vis m a b Hxp).
            - specialize (Hsum _ Hp). simpl in Hsum. lia.
            - intros k Hk wk w Hwk Hwx. specialize (Hl k Hk wk (S (sumw ps)) Hwk Hwt).
              assert (Hb : wt r x b) by (exists m, a; exact Hxp). rewrite (wt_functional _ _ _ _ Hwx Hb).
              specialize (Hsum _ Hp). simpl in Hsum. lia. }
          clear -E Hall. revert Hall. induction E as [|x p l ps Hx _ IHl]; intros Hall; simpl; constructor.
          - apply Hall; [left; reflexivity|exact Hx|left; reflexivity].
          - apply IHl. intros x' p' Hx' Hp' Hin. apply Hall; [right; exact Hx'|exact Hp'|right; exact Hin]. }
        rewrite G. reflexivity.
      * assert (Hnv : kmem (KExpr (App h l)) vis = false).
        { destruct (kmem (KExpr (App h l)) vis) eqn:Ek; [|reflexivity]. apply kmem_In in Ek.
          exfalso. exact (lighter_not_visiting r vis (App h l) (KExpr (App h l)) _ Hl eq_refl Hwt Ek). }
        rewrite Hnv. cbv zeta.
        destruct (expandw_subst_step r (S m) (App h l) _ _ H0) as [w2 [S1 [S2 S3]]].
        destruct (expr_eqb (subst r (App h l)) (App h l)) eqn:Ev.
        -- apply expr_eqb_eq in Ev. f_equal.
           (* a normal expression expands to itself *)
           destruct (normal_expand r (App h l) Ev) as [n' Hn']. apply expand_some in Hn'. destruct Hn' as [w' Hn'].
           pose proof (expandw_det _ _ _ _ _ _ H0 Hn') as Hd. injection Hd as Hd _. rewrite Hd. reflexivity.
        -- apply expr_eqb_neq in Ev. specialize (S3 Ev).
           apply (IH _ (KExpr (App h l) :: vis) (S m) _ w2 S1 ltac:(lia)).
           apply (lighter_step r vis (App h l) (KExpr (App h l)) _ Hl eq_refl).
           ++ intros w w2' Hw1 Hw2. rewrite (wt_functional _ _ _ _ Hw1 Hwt).
              assert (Hb : wt r (subst r (App h l)) w2) by (eexists _, _; exact S1).
              rewrite (wt_functional _ _ _ _ Hw2 Hb). exact S3.
           ++ intros w2' _. eexists. exact Hwt.
Qed.

Theorem value_of_complete r e e' : resolves_to r e e' -> exists fuel, value_of fuel r [] e = Ok e'.
Proof.
  intros [n H]. apply expand_some in H. destruct H as [w H]. exists w.
  eapply value_of_complete_gen; [exact H|lia|apply lighter_nil].
Qed.

(* ---- more fuel never changes an answer ------------------------------------------------------------------ *)
Lemma seqM_ext_definite {A B} (f g : A -> outcome B) l :
  (forall x o, In x l -> f x = o -> o <> OutOfFuel -> g x = o) ->
  forall o, seqM f l = o -> o <> OutOfFuel -> seqM g l = o.
Proof.
  induction l as [|x r IH]; intros H o Ho Hne; simpl in *; [exact Ho|].
  destruct (f x) as [y| |] eqn:E.
  - rewrite (H x (Ok y) (or_introl eq_refl) E ltac:(discriminate)).
    destruct (seqM f r) as [ys| |] eqn:E2.
    + rewrite (IH (fun x' o' Hx => H x' o' (or_intror Hx)) (Ok ys) eq_refl ltac:(discriminate)). exact Ho.
    + rewrite (IH (fun x' o' Hx => H x' o' (or_intror Hx)) Loop eq_refl ltac:(discriminate)). exact Ho.
    + subst o. contradiction Hne; reflexivity.
  - rewrite (H x Loop (or_introl eq_refl) E ltac:(discriminate)). exact Ho.
  - subst o. contradiction Hne; reflexivity.
Qed.

Lemma value_of_mono r : forall f vis e o, value_of f r vis e = o -> o <> OutOfFuel -> value_of (S f) r vis e = o.
Proof.
  induction f as [|f IH]; intros vis e o H Hne; [simpl in H; subst o; contradiction Hne; reflexivity|].
  rewrite value_of_S in H. rewrite value_of_S.
  destruct e as [q|s|h l]; [exact H| |].
  - destruct (lookup r s) as [v|]; [|exact H].
    assert (G : (if kmem (KSym s) vis then Loop else if expr_eqb v (Sym s) then Ok (Sym s) else value_of f r (KSym s :: vis) v) = o ->
                (if kmem (KSym s) vis then Loop else if expr_eqb v (Sym s) then Ok (Sym s) else value_of (S f) r (KSym s :: vis) v) = o).
    { destruct (kmem (KSym s) vis); [auto|]. destruct (expr_eqb v (Sym s)); [auto|]. intros H'. apply IH; assumption. }
    destruct v as [q|s'|h l]; [exact H|apply G; exact H|apply G; exact H].
  - destruct (fast h l).
    + destruct (seqM (value_of f r vis) l) as [l'| |] eqn:E.
      * rewrite (seqM_ext_definite _ (value_of (S f) r vis) l (fun x o' _ Hx Hn => IH vis x o' Hx Hn) _ E ltac:(discriminate)). exact H.
      * rewrite (seqM_ext_definite _ (value_of (S f) r vis) l (fun x o' _ Hx Hn => IH vis x o' Hx Hn) _ E ltac:(discriminate)). exact H.
      * subst o. contradiction Hne; reflexivity.
    + destruct (kmem (KExpr (App h l)) vis); [exact H|]. cbv zeta in *.
      destruct (expr_eqb (subst r (App h l)) (App h l)); [exact H|]. apply IH; assumption.
Qed.

Lemma value_of_mono_le r f f' vis e o : f <= f' -> value_of f r vis e = o -> o <> OutOfFuel -> value_of f' r vis e = o.
Proof. induction 1 as [|k Hle IHk]; intros Ho Hne; [exact Ho|]. apply value_of_mono; auto. Qed.

(* ---- a reported loop is a real one ------------------------------------------------------------------------ *)
Theorem value_of_loop_sound r fuel e : value_of fuel r [] e = Loop -> forall e', ~ resolves_to r e e'.
Proof.
  intros HL e' Hres. destruct (value_of_complete r e e' Hres) as [fuel' Hok].
  pose proof (value_of_mono_le r fuel (Nat.max fuel fuel') [] e Loop ltac:(lia) HL ltac:(discriminate)) as A.
  pose proof (value_of_mono_le r fuel' (Nat.max fuel fuel') [] e (Ok e') ltac:(lia) Hok ltac:(discriminate)) as B.
  congruence.
Qed.

(* cyclic dictionaries never get an answer *)
Theorem value_of_cyclic r fuel e : (forall e', ~ resolves_to r e e') -> forall e', value_of fuel r [] e <> Ok e'.
Proof. intros H e' Hok. exact (H e' (value_of_sound r fuel [] e e' Hok)). Qed.

(* ---- D1: value_of = substitution iterated to a fixed point -------------------------------------------------- *)
Theorem value_of_is_subst : forall r fuel e e', value_of fuel r [] e = Ok e' ->
  exists n, (forall k, n <= k -> subst_iter k r e = e') /\ subst r e' = e'.
Proof. intros r fuel e e' H. apply resolves_to_subst_fixpoint. eapply value_of_sound; eauto. Qed.

Corollary value_of_eval : forall r fuel e e', value_of fuel r [] e = Ok e' ->
  exists n, forall V (I : interp V) env, eval I env e' = eval I env (subst_iter n r e).
Proof.
  intros r fuel e e' H. destruct (value_of_is_subst r fuel e e' H) as [n [Hn _]].
  exists n. intros V I env. rewrite (Hn n (le_n n)). reflexivity.
Qed.

Example value_of_is_subst_example :
  value_of 10 [("a", App HAdd [Sym "b"; Num 1]); ("b", App HMul [Sym "c"; Num 2]); ("c", Num (1#2))]%string [] (Sym "a"%string)
  = Ok (App HAdd [App HMul [Num (1#2); Num 2]; Num 1]).
Proof. reflexivity. Qed.
