(* C11 — the encoder memo as a Python dict, and equality/hash of mappings written in several spellings
   (definitions only; proofs in Codec/MemoHashProofs.v).

   (1) CirqEncoder._memo is a Python dict keyed by the by-key OBJECTS.  A dict finds an entry by comparing
       hashes first and == among the candidates with the same hash.  Codec/JsonMemo.v looks entries up by
       == alone ([find_idx]); here the look-up is a parameter of the encoder ([encg]) so that three
       disciplines can be compared:
         find_idx                    by ==                                  (the reference model)
         find_hash_eq  h             by hash h, then == among the hits      (what a dict does, for ANY h)
         find_hash     h             by hash h alone                        (a memo keyed by hash(o))
       Distinct objects with equal hashes exist in CPython for the hash functions the value classes use
       (hash(-1) = hash(-2), n and n + (2^61 - 1)); [py_int_hash] is CPython's hash of an integer and
       [py_value_hash] a tuple-style hash built on it (compared with the interpreter by the check).

   (2) A parameter assignment (ParamResolver._param_dict; likewise ProductState.states) is a dict: == is
       dict equality (order of insertion is irrelevant), and the hash must be a function of the SET of
       items (hash(frozenset(items)) is an order-independent combination of the hashes of the items;
       modelled as their sum for an arbitrary item hash).  A key may be written as a name (str) or as a
       symbol (sympy.Symbol): the two spellings are different dict keys. *)
From Coq Require Import ZArith List Bool String Arith.
From VF Require Import Codec.JsonMemo.
Import ListNotations.
Local Open Scope string_scope.
Local Open Scope list_scope.

(* ---------- (1) the encoder over an arbitrary memo look-up ---------- *)
Section Lookup.
Variable bk : string -> bool.
Variable look : value -> list value -> option nat.

Fixpoint encg (v : value) (M : list value) {struct v} : json * list value :=
  match v with
  | VNull => (JNull, M)
  | VNum z => (JNum z, M)
  | VStr s => (JStr s, M)
  | VArr l => let '(jl, M') := encg_l l M in (JArr jl, M')
  | VDict f => let '(jf, M') := encg_f f M in (JObj jf, M')
  | VObj tag f =>
      if bk tag then
        match look v M with
        | Some k => (ref_json k, M)
        | None =>
            let k := List.length M in
            let '(jf, M') := encg_f f (M ++ [v]) in
            (val_json k (typed_json tag jf), M')
        end
      else
        let '(jf, M') := encg_f f M in (typed_json tag jf, M')
  end
with encg_l (l : vlist) (M : list value) {struct l} : jlist * list value :=
  match l with
  | VNil => (JNil, M)
  | VCons v r =>
      let '(j, M1) := encg v M in
      let '(jr, M2) := encg_l r M1 in
      (JCons j jr, M2)
  end
with encg_f (f : vfields) (M : list value) {struct f} : jfields * list value :=
  match f with
  | VFNil => (JFNil, M)
  | VFCons k v r =>
      let '(j, M1) := encg v M in
      let '(jr, M2) := encg_f r M1 in
      (JFCons k j jr, M2)
  end.
End Lookup.

(* a dict: the first entry whose hash equals the hash of v AND that is == v *)
Fixpoint find_hash_eq_from (h : value -> Z) (v : value) (M : list value) (i : nat) : option nat :=
  match M with
  | [] => None
  | x :: r => if Z.eqb (h v) (h x) && value_eqb v x then Some i else find_hash_eq_from h v r (S i)
  end.
Definition find_hash_eq (h : value -> Z) (v : value) (M : list value) : option nat := find_hash_eq_from h v M 0.

(* a table keyed by the hash value alone *)
Fixpoint find_hash_from (h : value -> Z) (v : value) (M : list value) (i : nat) : option nat :=
  match M with
  | [] => None
  | x :: r => if Z.eqb (h v) (h x) then Some i else find_hash_from h v r (S i)
  end.
Definition find_hash (h : value -> Z) (v : value) (M : list value) : option nat := find_hash_from h v M 0.

Definition encode_dict (bk : string -> bool) (h : value -> Z) (v : value) : json := fst (encg bk (find_hash_eq h) v []).
Definition encode_by_hash (bk : string -> bool) (h : value -> Z) (v : value) : json := fst (encg bk (find_hash h) v []).

(* CPython: hash of an int is the value reduced modulo 2^61 - 1 with the sign kept; -1 is reserved, so hash(-1) = -2 *)
Definition m61 : Z := 2305843009213693951%Z.
Definition py_int_hash (z : Z) : Z :=
  let r := Z.modulo (Z.abs z) m61 in
  let s := if Z.ltb z 0 then Z.opp r else r in
  if Z.eqb s (-1) then (-2)%Z else s.

(* a tuple-style hash: any combination that reads the members only through their hashes; integers hash as in CPython *)
Fixpoint py_value_hash (v : value) : Z :=
  match v with
  | VNull => 0%Z
  | VNum z => py_int_hash z
  | VStr s => Z.of_nat (String.length s)
  | VArr l => (3 + 31 * py_vlist_hash l)%Z
  | VDict f => (5 + 31 * py_vfields_hash f)%Z
  | VObj tag f => (7 + Z.of_nat (String.length tag) + 31 * py_vfields_hash f)%Z
  end
with py_vlist_hash (l : vlist) : Z :=
  match l with VNil => 1%Z | VCons v r => (py_value_hash v + 31 * py_vlist_hash r)%Z end
with py_vfields_hash (f : vfields) : Z :=
  match f with VFNil => 1%Z | VFCons k v r => (Z.of_nat (String.length k) + py_value_hash v + 31 * py_vfields_hash r)%Z end.

(* two circuits on the qubits -1 and -2 of a line, side by side in one document *)
Definition circuit_on (x : Z) : value :=
  VObj "FrozenCircuit" (VFCons "moments" (VArr (VCons (VObj "X" (VFCons "qubit" (VNum x) VFNil)) VNil)) VFNil).
Definition two_circuits : value := VArr (VCons (circuit_on (-1)) (VCons (circuit_on (-2)) VNil)).
Definition fc_by_key (t : string) : bool := String.eqb t "FrozenCircuit".

(* ---------- (2) mappings whose keys have two spellings ---------- *)
Inductive pkey : Type :=
| KName (s : string)       (* 'a' *)
| KSym (s : string).       (* sympy.Symbol('a') *)
Definition key_name (k : pkey) : string := match k with KName s => s | KSym s => s end.
Definition pkey_eqb (a b : pkey) : bool :=
  match a, b with
  | KName s, KName t => String.eqb s t
  | KSym s, KSym t => String.eqb s t
  | _, _ => false
  end.

(* the items of the dict in insertion order; values are indices into a table of pairwise different values *)
Definition item := (pkey * Z)%type.
Definition item_eqb (a b : item) : bool := pkey_eqb (fst a) (fst b) && Z.eqb (snd a) (snd b).
Definition has_item (x : item) (l : list item) : bool := existsb (item_eqb x) l.
Fixpoint keys_distinct (l : list item) : bool :=
  match l with
  | [] => true
  | x :: r => negb (existsb (fun y => pkey_eqb (fst x) (fst y)) r) && keys_distinct r
  end.

(* dict == dict *)
Definition dict_eqb (a b : list item) : bool :=
  Nat.eqb (List.length a) (List.length b) && forallb (fun x => has_item x b) a.

(* hash(frozenset(d.items())): order-independent in the items, for an arbitrary hash of one item *)
Definition items_hash (hi : item -> Z) (a : list item) : Z := fold_right Z.add 0%Z (map hi a).

(* every key replaced by its name: ParamResolver._param_dict_with_str_keys *)
Definition by_name (x : item) : item := (KName (key_name (fst x)), snd x).
Definition name_eqb (a b : list item) : bool := dict_eqb (map by_name a) (map by_name b).
