(* C16 — model of how cirq_google/api/v2/sweeps.py writes sweep values that carry a unit (tunits): the message stores
   bare magnitudes next to ONE unit, the unit of the first value, so every other value is converted into that unit
   (sweep.stop[unit], p[unit]); reading multiplies each magnitude by the stored unit.
   A quantity is (magnitude, decimal exponent of its unit): 500 ns = (500, -9), 2 us = (2, -6).  Magnitudes are exact
   rationals (every Python float is one); the single/double precision rounding of the stored magnitude is the
   parameter rnd.  Definitions only; proofs in UnitValuesProofs.v. *)
From Coq Require Import ZArith QArith Qabs List Bool.
Import ListNotations.
Open Scope Q_scope.

Definition quantity := (Q * Z)%type.

Definition pow10 (k : Z) : Q := Qpower (10 # 1) k.
Definition phys (v : quantity) : Q := fst v * pow10 (snd v).              (* the physical value, in base units *)
Definition in_unit (v : quantity) (k : Z) : Q := fst v * pow10 (snd v - k).  (* v[unit] *)

(* Linspace(start, stop) is the two-element case, Points(p0, p1, ...) the general one *)
Definition encode (rnd : Q -> Q) (vs : list quantity) : option (list Q * Z) :=
  match vs with
  | [] => None
  | v0 :: _ => Some (map (fun v => rnd (in_unit v (snd v0))) vs, snd v0)
  end.
Definition decode (e : list Q * Z) : list quantity := map (fun m => (m, snd e)) (fst e).

(* harness: |stored - exact| * bound <= |exact| *)
Definition close (bound : Q) (stored exact : Q) : bool := Qle_bool (Qabs (stored - exact) * bound) (Qabs exact).
Fixpoint all_close (bound : Q) (stored exact : list Q) : bool :=
  match stored, exact with
  | [], [] => true
  | s :: ss, e :: es => close bound s e && all_close bound ss es
  | _, _ => false
  end.
Definition agrees (bound : Q) (vs : list quantity) (stored : list Q) (unit_exp : Z) : bool :=
  match encode (fun x => x) vs with
  | Some (ms, k) => Z.eqb k unit_exp && all_close bound stored ms
  | None => false
  end.
(* the decoded values as physical quantities against the originals *)
Definition phys_agrees (bound : Q) (vs back : list quantity) : bool := all_close bound (map phys back) (map phys vs).
