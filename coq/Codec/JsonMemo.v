(* C11 — model of the JSON codec core of cirq/protocols/json_serialization.py (definitions only).

   JSON documents and Cirq values are finite trees.  An object has a type tag (its "cirq_type") and an
   ordered field list; whether a class is serialised by key (SerializableByKey) is a function of the tag
   ([bk]).  Sharing is identified with equality: CirqEncoder._memo is a Python dict keyed by the object
   (hash/==), so two equal by-key sub-objects share one key; the model's memo is keyed by structural
   equality of the (canonical-form) tree.

   [enc]  has the shape of CirqEncoder.default + json's recursive descent: the memo entry for a by-key
          object is made BEFORE its fields are encoded (key = len(_memo)), the first occurrence emits
          {"cirq_type":"VAL","key":k,"val":{...}}, later occurrences emit {"cirq_type":"REF","key":k}.
   [dec]  has the shape of json.loads(object_hook=ObjectHook): members first, left to right, then the hook
          on the resulting dict: VAL registers d['val'] under d['key'] and returns it, REF looks the key up
          (KeyError -> None), the three legacy context types use context_map, any other cirq_type builds the
          object from the remaining fields, a dict without cirq_type stays a dict.
   The id()-keyed CirqEncoder._cache is not modelled (object identity is not part of a value); the check's
   stress stream explores it. *)
From Coq Require Import ZArith List Bool String Arith.
Import ListNotations.
Open Scope string_scope.
Open Scope list_scope.

(* ---------- documents ---------- *)
Inductive json : Type :=
| JNull
| JNum (z : Z)
| JStr (s : string)
| JArr (l : jlist)
| JObj (f : jfields)
with jlist : Type :=
| JNil
| JCons (j : json) (r : jlist)
with jfields : Type :=
| JFNil
| JFCons (k : string) (j : json) (r : jfields).

(* ---------- values ---------- *)
Inductive value : Type :=
| VNull
| VNum (z : Z)
| VStr (s : string)
| VArr (l : vlist)
| VDict (f : vfields)
| VObj (tag : string) (f : vfields)
with vlist : Type :=
| VNil
| VCons (v : value) (r : vlist)
with vfields : Type :=
| VFNil
| VFCons (k : string) (v : value) (r : vfields).

Fixpoint vsize (v : value) : nat :=
  match v with
  | VNull | VNum _ | VStr _ => 1
  | VArr l => S (lsize l)
  | VDict f => S (fsize f)
  | VObj _ f => S (fsize f)
  end
with lsize (l : vlist) : nat :=
  match l with VNil => 0 | VCons v r => vsize v + lsize r end
with fsize (f : vfields) : nat :=
  match f with VFNil => 0 | VFCons _ v r => vsize v + fsize r end.

Fixpoint value_eqb (a b : value) : bool :=
  match a, b with
  | VNull, VNull => true
  | VNum x, VNum y => Z.eqb x y
  | VStr x, VStr y => String.eqb x y
  | VArr x, VArr y => vlist_eqb x y
  | VDict x, VDict y => vfields_eqb x y
  | VObj s x, VObj t y => String.eqb s t && vfields_eqb x y
  | _, _ => false
  end
with vlist_eqb (a b : vlist) : bool :=
  match a, b with
  | VNil, VNil => true
  | VCons x r, VCons y s => value_eqb x y && vlist_eqb r s
  | _, _ => false
  end
with vfields_eqb (a b : vfields) : bool :=
  match a, b with
  | VFNil, VFNil => true
  | VFCons k x r, VFCons l y s => String.eqb k l && value_eqb x y && vfields_eqb r s
  | _, _ => false
  end.

Fixpoint json_eqb (a b : json) : bool :=
  match a, b with
  | JNull, JNull => true
  | JNum x, JNum y => Z.eqb x y
  | JStr x, JStr y => String.eqb x y
  | JArr x, JArr y => jlist_eqb x y
  | JObj x, JObj y => jfields_eqb x y
  | _, _ => false
  end
with jlist_eqb (a b : jlist) : bool :=
  match a, b with
  | JNil, JNil => true
  | JCons x r, JCons y s => json_eqb x y && jlist_eqb r s
  | _, _ => false
  end
with jfields_eqb (a b : jfields) : bool :=
  match a, b with
  | JFNil, JFNil => true
  | JFCons k x r, JFCons l y s => String.eqb k l && json_eqb x y && jfields_eqb r s
  | _, _ => false
  end.

(* ---------- field lists as Python dicts (first binding wins; generated documents have unique keys) ---------- *)
Fixpoint fget (k : string) (f : vfields) : option value :=
  match f with
  | VFNil => None
  | VFCons k' v r => if String.eqb k k' then Some v else fget k r
  end.
Fixpoint fremove (k : string) (f : vfields) : vfields :=
  match f with
  | VFNil => VFNil
  | VFCons k' v r => if String.eqb k k' then fremove k r else VFCons k' v (fremove k r)
  end.
Fixpoint fhas (k : string) (f : vfields) : bool :=
  match f with
  | VFNil => false
  | VFCons k' _ r => String.eqb k k' || fhas k r
  end.
Fixpoint vlast (l : vlist) : option value :=
  match l with
  | VNil => None
  | VCons v VNil => Some v
  | VCons _ r => vlast r
  end.

(* ---------- the encoder ---------- *)
(* position of the first memo entry equal to v: dict lookup _memo.get(o) *)
Fixpoint find_from (v : value) (M : list value) (i : nat) : option nat :=
  match M with
  | [] => None
  | x :: r => if value_eqb v x then Some i else find_from v r (S i)
  end.
Definition find_idx (v : value) (M : list value) : option nat := find_from v M 0.

Definition ref_json (k : nat) : json :=
  JObj (JFCons "cirq_type" (JStr "REF") (JFCons "key" (JNum (Z.of_nat k)) JFNil)).
Definition val_json (k : nat) (body : json) : json :=
  JObj (JFCons "cirq_type" (JStr "VAL") (JFCons "key" (JNum (Z.of_nat k)) (JFCons "val" body JFNil))).
(* _json_dict_with_cirq_type: {'cirq_type': name, **base_dict} *)
Definition typed_json (tag : string) (jf : jfields) : json := JObj (JFCons "cirq_type" (JStr tag) jf).

Section Codec.
Variable bk : string -> bool.   (* isinstance(o, SerializableByKey), a function of the class *)

Fixpoint enc (v : value) (M : list value) {struct v} : json * list value :=
  match v with
  | VNull => (JNull, M)
  | VNum z => (JNum z, M)
  | VStr s => (JStr s, M)
  | VArr l => let '(jl, M') := enc_l l M in (JArr jl, M')
  | VDict f => let '(jf, M') := enc_f f M in (JObj jf, M')
  | VObj tag f =>
      if bk tag then
        match find_idx v M with
        | Some k => (ref_json k, M)
        | None =>
            let k := List.length M in
            let '(jf, M') := enc_f f (M ++ [v])%list in
            (val_json k (typed_json tag jf), M')
        end
      else
        let '(jf, M') := enc_f f M in (typed_json tag jf, M')
  end
with enc_l (l : vlist) (M : list value) {struct l} : jlist * list value :=
  match l with
  | VNil => (JNil, M)
  | VCons v r =>
      let '(j, M1) := enc v M in
      let '(jr, M2) := enc_l r M1 in
      (JCons j jr, M2)
  end
with enc_f (f : vfields) (M : list value) {struct f} : jfields * list value :=
  match f with
  | VFNil => (JFNil, M)
  | VFCons k v r =>
      let '(j, M1) := enc v M in
      let '(jr, M2) := enc_f r M1 in
      (JFCons k j jr, M2)
  end.

Definition encode (v : value) : json := fst (enc v []).
Definition encode_memo (v : value) : list value := snd (enc v []).

(* ---------- the decoder ---------- *)
(* ObjectHook.memo and ObjectHook.context_map: int-keyed dicts; later bindings shadow earlier ones *)
Definition dmap := list (Z * value).
Fixpoint dget (k : Z) (D : dmap) : option value :=
  match D with
  | [] => None
  | (k', v) :: r => if Z.eqb k k' then Some v else dget k r
  end.
Record dstate := mkD { d_memo : dmap; d_ctx : dmap }.
Definition dempty := mkD [] [].

Definition hook (d : vfields) (S : dstate) : option (value * dstate) :=
  match fget "cirq_type" d with
  | None => Some (VDict d, S)
  | Some VNull => Some (VDict d, S)      (* d.get('cirq_type') is None: a plain dict *)
  | Some (VStr t) =>
      if String.eqb t "VAL" then
        match fget "val" d, fget "key" d with
        | Some obj, Some (VNum k) => Some (obj, mkD ((k, obj) :: d_memo S) (d_ctx S))
        | _, _ => None
        end
      else if String.eqb t "REF" then
        match fget "key" d with
        | Some (VNum k) => match dget k (d_memo S) with Some obj => Some (obj, S) | None => None end
        | _ => None
        end
      else if String.eqb t "_SerializedKey" then
        match fget "key" d with
        | Some (VNum k) => match dget k (d_ctx S) with Some obj => Some (obj, S) | None => None end
        | _ => None
        end
      else if String.eqb t "_SerializedContext" then
        match fget "obj" d, fget "key" d with
        | Some obj, Some (VNum k) => Some (VNull, mkD (d_memo S) ((k, obj) :: d_ctx S))
        | _, _ => None
        end
      else if String.eqb t "_ContextualSerialization" then
        match fget "object_dag" d with
        | Some (VArr l) => match vlast l with Some obj => Some (obj, S) | None => None end
        | _ => None
        end
      else Some (VObj t (fremove "cirq_type" d), S)
  | Some _ => None
  end.

Fixpoint dec (j : json) (S : dstate) {struct j} : option (value * dstate) :=
  match j with
  | JNull => Some (VNull, S)
  | JNum z => Some (VNum z, S)
  | JStr s => Some (VStr s, S)
  | JArr l => match dec_l l S with Some (vl, S') => Some (VArr vl, S') | None => None end
  | JObj f => match dec_f f S with Some (d, S') => hook d S' | None => None end
  end
with dec_l (l : jlist) (S : dstate) {struct l} : option (vlist * dstate) :=
  match l with
  | JNil => Some (VNil, S)
  | JCons j r =>
      match dec j S with
      | Some (v, S1) => match dec_l r S1 with Some (vr, S2) => Some (VCons v vr, S2) | None => None end
      | None => None
      end
  end
with dec_f (f : jfields) (S : dstate) {struct f} : option (vfields * dstate) :=
  match f with
  | JFNil => Some (VFNil, S)
  | JFCons k j r =>
      match dec j S with
      | Some (v, S1) => match dec_f r S1 with Some (vr, S2) => Some (VFCons k v vr, S2) | None => None end
      | None => None
      end
  end.

Definition decode (j : json) : option value :=
  match dec j dempty with Some (v, _) => Some v | None => None end.

(* ---------- the domain of the round-trip theorem ---------- *)
Definition reserved (t : string) : bool :=
  String.eqb t "VAL" || String.eqb t "REF" || String.eqb t "_SerializedKey"
  || String.eqb t "_SerializedContext" || String.eqb t "_ContextualSerialization".

(* no plain dict or _json_dict_ carries a 'cirq_type' key (the code raises ValueError for the latter),
   and no class is called VAL/REF/_Serialized* *)
Fixpoint wf (v : value) : bool :=
  match v with
  | VNull | VNum _ | VStr _ => true
  | VArr l => wf_l l
  | VDict f => negb (fhas "cirq_type" f) && wf_f f
  | VObj tag f => negb (reserved tag) && negb (fhas "cirq_type" f) && wf_f f
  end
with wf_l (l : vlist) : bool :=
  match l with VNil => true | VCons v r => wf v && wf_l r end
with wf_f (f : vfields) : bool :=
  match f with VFNil => true | VFCons _ v r => wf v && wf_f r end.

End Codec.

(* ---------- VAL/REF events of a document ---------- *)
(* event = (is_val, key) *)
Fixpoint jget (k : string) (f : jfields) : option json :=
  match f with
  | JFNil => None
  | JFCons k' v r => if String.eqb k k' then Some v else jget k r
  end.
Definition own_event (f : jfields) : list (bool * Z) :=
  match jget "cirq_type" f, jget "key" f with
  | Some (JStr t), Some (JNum k) =>
      if String.eqb t "VAL" then [(true, k)] else if String.eqb t "REF" then [(false, k)] else []
  | _, _ => []
  end.

(* document order: a VAL is announced where its "key" is written, i.e. before its body *)
Fixpoint doc_events (j : json) : list (bool * Z) :=
  match j with
  | JArr l => doc_events_l l
  | JObj f => own_event f ++ doc_events_f f
  | _ => []
  end
with doc_events_l (l : jlist) : list (bool * Z) :=
  match l with JNil => [] | JCons j r => doc_events j ++ doc_events_l r end
with doc_events_f (f : jfields) : list (bool * Z) :=
  match f with JFNil => [] | JFCons _ j r => doc_events j ++ doc_events_f r end.

(* hook order: the order in which json.loads calls the object hook (an object after all its members) *)
Fixpoint hook_events (j : json) : list (bool * Z) :=
  match j with
  | JArr l => hook_events_l l
  | JObj f => hook_events_f f ++ own_event f
  | _ => []
  end
with hook_events_l (l : jlist) : list (bool * Z) :=
  match l with JNil => [] | JCons j r => hook_events j ++ hook_events_l r end
with hook_events_f (f : jfields) : list (bool * Z) :=
  match f with JFNil => [] | JFCons _ j r => hook_events j ++ hook_events_f r end.

Definition val_keys (evs : list (bool * Z)) : list Z := map snd (filter fst evs).

(* every REF event is preceded by the VAL event of the same key *)
Fixpoint refs_ok (done : list Z) (evs : list (bool * Z)) : bool :=
  match evs with
  | [] => true
  | (true, k) :: r => refs_ok (k :: done) r
  | (false, k) :: r => existsb (Z.eqb k) done && refs_ok done r
  end.

Fixpoint zseq (start : nat) (len : nat) : list Z :=
  match len with O => [] | S n => Z.of_nat start :: zseq (S start) n end.

(* number of distinct by-key objects of a value = final size of the memo *)
Definition n_keys (bk : string -> bool) (v : value) : nat := List.length (encode_memo bk v).

(* ---------- value equality through canonical forms (value_equality_attr.py, periodic_value.py) ---------- *)
(* PeriodicValue(value, period) stores (value % period, period); == and hash read only the stored pair.
   Python's % on integers is floor-mod with the sign of the divisor, which is Z.modulo. *)
Definition periodic_canon (value period : Z) : Z * Z := (Z.modulo value period, period).
Definition periodic_eqb (a b : Z * Z) : bool :=
  let ca := periodic_canon (fst a) (snd a) in
  let cb := periodic_canon (fst b) (snd b) in
  Z.eqb (fst ca) (fst cb) && Z.eqb (snd ca) (snd cb).
(* hash((type, value, period)) for an arbitrary hash function of the stored pair *)
Definition periodic_hash (h : Z * Z -> Z) (a : Z * Z) : Z := h (periodic_canon (fst a) (snd a)).

(* @value_equality: == compares (_value_equality_values_cls_, _value_equality_values_), hash hashes the same pair *)
Definition ve_eqb {C V : Type} (ceq : C -> C -> bool) (veq : V -> V -> bool) (a b : C * V) : bool :=
  ceq (fst a) (fst b) && veq (snd a) (snd b).
Definition ve_hash {C V : Type} (h : C * V -> Z) (a : C * V) : Z := h a.

(* ---------- Qid ordering (ops/raw_types.py) ---------- *)
(* _cmp_tuple = (type name, repr(type), _comparison_key(), dimension); strings and keys are lists of
   integers (code points / coordinates) compared lexicographically as Python compares str and tuple *)
Fixpoint lex_ltb (a b : list Z) : bool :=
  match a, b with
  | [], [] => false
  | [], _ :: _ => true
  | _ :: _, [] => false
  | x :: r, y :: s => Z.ltb x y || (Z.eqb x y && lex_ltb r s)
  end.
Fixpoint zlist_eqb (a b : list Z) : bool :=
  match a, b with
  | [], [] => true
  | x :: r, y :: s => Z.eqb x y && zlist_eqb r s
  | _, _ => false
  end.

Record qid := mkQid { q_tname : list Z; q_trepr : list Z; q_key : list Z; q_dim : Z; q_fam : Z }.

Definition cmp_ltb (a b : qid) : bool :=
  lex_ltb (q_tname a) (q_tname b)
  || (zlist_eqb (q_tname a) (q_tname b)
      && (lex_ltb (q_trepr a) (q_trepr b)
          || (zlist_eqb (q_trepr a) (q_trepr b)
              && (lex_ltb (q_key a) (q_key b)
                  || (zlist_eqb (q_key a) (q_key b) && Z.ltb (q_dim a) (q_dim b)))))).
Definition cmp_eqb (a b : qid) : bool :=
  zlist_eqb (q_tname a) (q_tname b) && zlist_eqb (q_trepr a) (q_trepr b)
  && zlist_eqb (q_key a) (q_key b) && Z.eqb (q_dim a) (q_dim b).

(* The line/grid/named qubit classes override the comparisons for members of their own family
   (q_fam > 0; LineQubit and LineQid share a family): (key, dimension) is compared and the type is ignored;
   any other pair goes through _cmp_tuple. *)
Definition same_fam (a b : qid) : bool := Z.ltb 0 (q_fam a) && Z.eqb (q_fam a) (q_fam b).
Definition fam_ltb (a b : qid) : bool :=
  lex_ltb (q_key a) (q_key b) || (zlist_eqb (q_key a) (q_key b) && Z.ltb (q_dim a) (q_dim b)).
Definition fam_eqb (a b : qid) : bool := zlist_eqb (q_key a) (q_key b) && Z.eqb (q_dim a) (q_dim b).
Definition qid_ltb (a b : qid) : bool := if same_fam a b then fam_ltb a b else cmp_ltb a b.
Definition qid_eqb (a b : qid) : bool := if same_fam a b then fam_eqb a b else cmp_eqb a b.

(* lexicographic product of two orders given by boolean tests *)
Definition lexp {A B : Type} (ltA eqA : A -> A -> bool) (ltB : B -> B -> bool) (x y : A * B) : bool :=
  ltA (fst x) (fst y) || (eqA (fst x) (fst y) && ltB (snd x) (snd y)).
Definition eqp {A B : Type} (eqA : A -> A -> bool) (eqB : B -> B -> bool) (x y : A * B) : bool :=
  eqA (fst x) (fst y) && eqB (snd x) (snd y).

(* the class part of _cmp_tuple and the table of Qid classes (type name, repr(type), family) of a population *)
Definition ty (a : qid) : list Z * list Z := (q_tname a, q_trepr a).
Definition ty_ltb := lexp lex_ltb zlist_eqb lex_ltb.
Definition ty_eqb := eqp zlist_eqb zlist_eqb.
Definition trow := (list Z * list Z * Z)%type.
Definition row_ty (r : trow) : list Z * list Z := (fst (fst r), snd (fst r)).
Definition row_fam (r : trow) : Z := snd r.
Definition rows_same_fam (r1 r2 : trow) : bool := Z.ltb 0 (row_fam r1) && Z.eqb (row_fam r1) (row_fam r2).
(* (1) the family is a function of the class; (2) a class outside a family compares the same way with every
   class of the family (no foreign class name sorts between two classes of one family) *)
Definition row_check (r1 r2 r3 : trow) : bool :=
  (negb (ty_eqb (row_ty r1) (row_ty r2)) || Z.eqb (row_fam r1) (row_fam r2)) &&
  (negb (rows_same_fam r1 r2) || rows_same_fam r1 r3 ||
     (Bool.eqb (ty_ltb (row_ty r1) (row_ty r3)) (ty_ltb (row_ty r2) (row_ty r3)) &&
      Bool.eqb (ty_ltb (row_ty r3) (row_ty r1)) (ty_ltb (row_ty r3) (row_ty r2)))).
Definition fam_table_ok (tbl : list trow) : bool :=
  forallb (fun r1 => forallb (fun r2 => forallb (row_check r1 r2) tbl) tbl) tbl.
Definition qrow (a : qid) : trow := (q_tname a, q_trepr a, q_fam a).

(* stable insertion sort with the model's order, for comparison with sorted() *)
Fixpoint qinsert (x : qid) (l : list qid) : list qid :=
  match l with
  | [] => [x]
  | y :: r => if qid_ltb y x then y :: qinsert x r else x :: l
  end.
Definition qsort (l : list qid) : list qid := fold_right qinsert [] l.
