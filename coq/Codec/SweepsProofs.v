(* C10 — proofs about the sweep model (Codec/Sweeps.v). *)
From Coq Require Import String ZArith QArith List Bool Lia Arith.
From VF Require Import Codec.Sweeps.
Import ListNotations.
Local Open Scope nat_scope.

(* ---- induction principle for the nested inductive -------------------------------------- *)
Section SweepInd.
  Variable P : sweep -> Prop.
  Hypothesis HUnit : P Unit.
  Hypothesis HPoints : forall k vs, P (Points k vs).
  Hypothesis HLin : forall k a b n, P (Linspace k a b n).
  Hypothesis HProd : forall l, Forall P l -> P (Product l).
  Hypothesis HZip : forall l, Forall P l -> P (Zip l).
  Hypothesis HZipL : forall l, Forall P l -> P (ZipLongest l).
  Hypothesis HConcat : forall l, Forall P l -> P (Concat l).
  Hypothesis HList : forall rs, P (ListSweep rs).
  Fixpoint sweep_ind' (s : sweep) : P s :=
    let fix go (l : list sweep) : Forall P l :=
      match l with
      | [] => Forall_nil P
      | x :: r => Forall_cons x (sweep_ind' x) (go r)
      end in
    match s with
    | Unit => HUnit
    | Points k vs => HPoints k vs
    | Linspace k a b n => HLin k a b n
    | Product l => HProd l (go l)
    | Zip l => HZip l (go l)
    | ZipLongest l => HZipL l (go l)
    | Concat l => HConcat l (go l)
    | ListSweep rs => HList rs
    end.
End SweepInd.

(* ---- lengths of the list combinators ---------------------------------------------------- *)
Lemma flat_map_const_length {A B} (f : A -> list B) (m : nat) (l : list A) :
  (forall x, In x l -> length (f x) = m) -> length (flat_map f l) = length l * m.
Proof.
  induction l as [|x r IH]; intros H; simpl; [reflexivity|].
  rewrite app_length, IH by (intros; apply H; right; assumption).
  rewrite (H x) by (left; reflexivity). reflexivity.
Qed.

Lemma prod_all_length (ls : list (list assign)) :
  length (prod_all ls) = prodl (map (@length assign) ls).
Proof.
  induction ls as [|l rest IH]; simpl; [reflexivity|].
  rewrite (flat_map_const_length _ (length (prod_all rest))).
  - rewrite IH. reflexivity.
  - intros x _. apply map_length.
Qed.

Lemma zipw_length (a b : list assign) : length (zipw a b) = Nat.min (length a) (length b).
Proof.
  revert b; induction a as [|x a IH]; intros [|y b]; simpl; try reflexivity.
  rewrite IH. reflexivity.
Qed.

Lemma fold_min_swap (r : list nat) : forall x y,
  Nat.min y (fold_right Nat.min x r) = Nat.min x (fold_right Nat.min y r).
Proof.
  induction r as [|z r IH]; intros x y; simpl; [lia|].
  pose proof (IH x y). lia.
Qed.

Lemma minl_cons x y r : minl (x :: y :: r) = Nat.min x (minl (y :: r)).
Proof. unfold minl. simpl. apply fold_min_swap. Qed.

Lemma zip_all_length (ls : list (list assign)) :
  length (zip_all ls) = minl (map (@length assign) ls).
Proof.
  induction ls as [|l rest IH]; [reflexivity|].
  destruct rest as [|l2 rest]; [reflexivity|].
  change (zip_all (l :: l2 :: rest)) with (zipw l (zip_all (l2 :: rest))).
  rewrite zipw_length, IH. simpl map. rewrite minl_cons. reflexivity.
Qed.

Lemma maxl_ge (l : list nat) x : In x l -> x <= maxl l.
Proof.
  unfold maxl. induction l as [|y r IH]; simpl; [tauto|]. intros [->|H]; [lia|]. specialize (IH H). lia.
Qed.

Lemma pad_length n l : length l <= n -> length (pad n l) = n.
Proof. intros H. unfold pad. rewrite app_length, repeat_length. lia. Qed.

Lemma minl_all_eq (l : list nat) n : l <> [] -> (forall x, In x l -> x = n) -> minl l = n.
Proof.
  destruct l as [|x r]; [congruence|]. intros _ H. unfold minl.
  assert (Hx : x = n) by (apply H; left; reflexivity). subst x.
  induction r as [|y r IH]; simpl; [reflexivity|].
  rewrite IH by (intros z [->|Hz]; apply H; [left|right; right]; auto).
  rewrite (H y) by (right; left; reflexivity). lia.
Qed.

Lemma ziplongest_all_length (ls : list (list assign)) :
  length (ziplongest_all ls) = maxl (map (@length assign) ls).
Proof.
  unfold ziplongest_all. rewrite zip_all_length.
  destruct ls as [|l rest]; [reflexivity|].
  apply minl_all_eq; [discriminate|].
  intros x Hx. rewrite map_map in Hx. apply in_map_iff in Hx. destruct Hx as [y [<- Hy]].
  apply pad_length. apply maxl_ge. apply in_map. exact Hy.
Qed.

Lemma concat_length {A} (ls : list (list A)) : length (concat ls) = suml (map (@length A) ls).
Proof. induction ls as [|l r IH]; simpl; [reflexivity|]. rewrite app_length, IH. reflexivity. Qed.

Lemma map_len_iter l : Forall (fun s => length (iter s) = len s) l ->
  map (@length assign) (map iter l) = map len l.
Proof. induction 1 as [|x r Hx _ IH]; simpl; [reflexivity|]. rewrite Hx, IH. reflexivity. Qed.

(* ---- D3: __len__ agrees with the iteration ----------------------------------------------- *)
Theorem sweep_len_iter : forall s, length (iter s) = len s.
Proof.
  induction s as [|k vs|k a b n|l IH|l IH|l IH|l IH|rs] using sweep_ind'; simpl.
  - reflexivity.
  - apply map_length.
  - rewrite map_length. apply seq_length.
  - rewrite prod_all_length, map_len_iter by exact IH. reflexivity.
  - rewrite zip_all_length, map_len_iter by exact IH. reflexivity.
  - rewrite ziplongest_all_length, map_len_iter by exact IH. reflexivity.
  - rewrite concat_length, map_len_iter by exact IH. reflexivity.
  - reflexivity.
Qed.

(* ---- D3: integer indexing, negative indices included ---------------------------------------- *)
Theorem sweep_getitem : forall s (i : Z) d,
  (- Z.of_nat (len s) <= i < Z.of_nat (len s))%Z ->
  getitem s i = Some (nth (Z.to_nat (i mod Z.of_nat (len s))) (iter s) d).
Proof.
  intros s i d H. unfold getitem.
  destruct (i <? - Z.of_nat (len s))%Z eqn:E1; [apply Z.ltb_lt in E1; lia|].
  destruct (i >=? Z.of_nat (len s))%Z eqn:E2; [rewrite Z.geb_leb in E2; apply Z.leb_le in E2; lia|].
  simpl.
  assert (Hn : (0 < Z.of_nat (len s))%Z) by lia.
  assert (Hidx : (if (i <? 0)%Z then i + Z.of_nat (len s) else i)%Z = (i mod Z.of_nat (len s))%Z).
  { destruct (i <? 0)%Z eqn:E3.
    - apply Z.ltb_lt in E3. apply Z.mod_unique with (q := (-1)%Z); lia.
    - apply Z.ltb_ge in E3. symmetry. apply Z.mod_small. lia. }
  rewrite Hidx. apply nth_error_nth'.
  rewrite sweep_len_iter.
  pose proof (Z.mod_pos_bound i (Z.of_nat (len s)) Hn). lia.
Qed.

Theorem sweep_getitem_out_of_range : forall s (i : Z),
  (i < - Z.of_nat (len s) \/ Z.of_nat (len s) <= i)%Z <-> getitem s i = None.
Proof.
  intros s i. unfold getitem. split.
  - intros [H|H].
    + apply Z.ltb_lt in H. rewrite H. reflexivity.
    + apply Z.leb_le in H. rewrite Z.geb_leb, H, orb_true_r. reflexivity.
  - destruct (i <? - Z.of_nat (len s))%Z eqn:E1; [apply Z.ltb_lt in E1; auto|].
    destruct (i >=? Z.of_nat (len s))%Z eqn:E2; [rewrite Z.geb_leb in E2; apply Z.leb_le in E2; auto|].
    simpl. intros H. apply nth_error_None in H. rewrite sweep_len_iter in H.
    apply Z.ltb_ge in E1. rewrite Z.geb_leb in E2. apply Z.leb_gt in E2.
    destruct (i <? 0)%Z eqn:E3; [apply Z.ltb_lt in E3|apply Z.ltb_ge in E3]; lia.
Qed.

(* ---- D3: Product is the lexicographic product, last factor fastest --------------------------- *)
Lemma flat_map_block_nth {A B} (f : A -> list B) (m : nat) (l : list A) (da : A) (db : B) :
  (forall x, length (f x) = m) ->
  forall i j, i < length l -> j < m ->
  nth (i * m + j) (flat_map f l) db = nth j (f (nth i l da)) db.
Proof.
  intros Hm. induction l as [|x r IH]; intros i j Hi Hj; simpl in Hi; [lia|].
  simpl flat_map. destruct i as [|i].
  - simpl. rewrite app_nth1 by (rewrite Hm; exact Hj). reflexivity.
  - rewrite app_nth2 by (rewrite Hm; simpl; lia).
    rewrite Hm. replace (S i * m + j - m) with (i * m + j) by (simpl; lia).
    simpl nth. apply IH; lia.
Qed.

Lemma prod_all_lex (l : list assign) (rest : list (list assign)) i j :
  i < length l -> j < length (prod_all rest) ->
  nth (i * length (prod_all rest) + j) (prod_all (l :: rest)) [] = nth i l [] ++ nth j (prod_all rest) [].
Proof.
  intros Hi Hj. simpl prod_all.
  pose proof (flat_map_block_nth (fun x : assign => map (fun y => x ++ y) (prod_all rest))
                (length (prod_all rest)) l [] []) as X.
  rewrite X; [|intros x; apply map_length|exact Hi|exact Hj].
  cbv beta.
  rewrite (nth_indep _ [] (nth i l [] ++ [])) by (rewrite map_length; exact Hj).
  apply (map_nth (fun y : assign => nth i l [] ++ y)).
Qed.

Theorem product_lex : forall s l i j,
  i < len s -> j < len (Product l) ->
  nth (i * len (Product l) + j) (iter (Product (s :: l))) [] = nth i (iter s) [] ++ nth j (iter (Product l)) [].
Proof.
  intros s l i j Hi Hj. rewrite <- (sweep_len_iter (Product l)) in *. rewrite <- sweep_len_iter in Hi.
  simpl iter in *. apply prod_all_lex; assumption.
Qed.

Theorem product_nil : iter (Product []) = [[]].
Proof. reflexivity. Qed.

(* ---- D3: Zip is the shortest prefix ------------------------------------------------------------ *)
Lemma zipw_nth (a b : list assign) i : i < length a -> i < length b ->
  nth i (zipw a b) [] = nth i a [] ++ nth i b [].
Proof.
  revert b i; induction a as [|x a IH]; intros [|y b] i Ha Hb; simpl in *; try lia.
  destruct i as [|i]; [reflexivity|]. apply IH; lia.
Qed.

Lemma minl_le (l : list nat) x : In x l -> minl l <= x.
Proof.
  destruct l as [|y r]; [simpl; tauto|]. unfold minl. revert y.
  induction r as [|z r IH]; intros y; simpl.
  - intros [->|[]]. lia.
  - intros [->|[->|H]]; try lia.
    + specialize (IH x (or_introl eq_refl)). lia.
    + specialize (IH y (or_intror H)). lia.
Qed.

Lemma zip_all_nth (ls : list (list assign)) i : i < minl (map (@length assign) ls) ->
  nth i (zip_all ls) [] = concat (map (fun l => nth i l []) ls).
Proof.
  induction ls as [|l rest IH]; intros Hi; [simpl in Hi; lia|].
  destruct rest as [|l2 rest].
  - simpl. rewrite app_nil_r. reflexivity.
  - change (zip_all (l :: l2 :: rest)) with (zipw l (zip_all (l2 :: rest))).
    simpl map in Hi. rewrite minl_cons in Hi.
    rewrite zipw_nth; [|lia|rewrite zip_all_length; simpl map; lia].
    rewrite IH by (simpl map; lia). reflexivity.
Qed.

Theorem zip_prefix : forall l i, i < len (Zip l) ->
  nth i (iter (Zip l)) [] = concat (map (fun s => nth i (iter s) []) l).
Proof.
  intros l i Hi. simpl in *.
  rewrite zip_all_nth.
  - rewrite map_map. reflexivity.
  - rewrite map_len_iter; [exact Hi|]. apply Forall_forall. intros; apply sweep_len_iter.
Qed.

Theorem zip_len_shortest : forall l s, In s l -> len (Zip l) <= len s.
Proof. intros l s H. simpl. apply minl_le. apply in_map. exact H. Qed.

(* ---- D3: ZipLongest repeats last values ------------------------------------------------------------ *)
Lemma last_nth {A} (l : list A) d : last l d = nth (length l - 1) l d.
Proof.
  induction l as [|x r IH]; [reflexivity|].
  destruct r as [|y r]; [reflexivity|].
  change (last (x :: y :: r) d) with (last (y :: r) d). rewrite IH. simpl. rewrite Nat.sub_0_r. reflexivity.
Qed.

Lemma nth_repeat_lt {A} (a d : A) m k : k < m -> nth k (repeat a m) d = a.
Proof. revert k; induction m as [|m IH]; intros [|k] H; simpl; try lia; [reflexivity|apply IH; lia]. Qed.

Lemma pad_nth n (l : list assign) i : 0 < length l -> i < n ->
  nth i (pad n l) [] = nth (Nat.min i (length l - 1)) l [].
Proof.
  intros Hl Hi. unfold pad. destruct (Nat.lt_ge_cases i (length l)) as [H|H].
  - rewrite app_nth1 by exact H. f_equal. lia.
  - rewrite app_nth2 by exact H.
    rewrite nth_repeat_lt by lia. rewrite last_nth. f_equal. lia.
Qed.

Theorem ziplongest_repeats_last : forall l i,
  (forall s, In s l -> 0 < len s) -> i < len (ZipLongest l) ->
  nth i (iter (ZipLongest l)) [] = concat (map (fun s => nth (Nat.min i (len s - 1)) (iter s) []) l).
Proof.
  intros l i Hpos Hi. simpl in *. unfold ziplongest_all.
  assert (Hlen : map (@length assign) (map iter l) = map len l).
  { apply map_len_iter. apply Forall_forall. intros; apply sweep_len_iter. }
  rewrite Hlen.
  rewrite zip_all_nth.
  - rewrite !map_map. f_equal. apply map_ext_in. intros s Hs.
    rewrite pad_nth; [rewrite sweep_len_iter; reflexivity|rewrite sweep_len_iter; auto|exact Hi].
  - destruct l as [|s0 l0]; [simpl in Hi; lia|].
    rewrite (minl_all_eq _ (maxl (map len (s0 :: l0)))); [exact Hi|discriminate|].
    intros x Hx. rewrite !map_map in Hx. apply in_map_iff in Hx. destruct Hx as [s [<- Hs]].
    apply pad_length. rewrite sweep_len_iter. apply maxl_ge. apply in_map. exact Hs.
Qed.

(* ---- D3: Concat appends ------------------------------------------------------------------------------- *)
Theorem concat_app : forall s l, iter (Concat (s :: l)) = iter s ++ iter (Concat l).
Proof. reflexivity. Qed.

Theorem concat_len : forall s l, len (Concat (s :: l)) = len s + len (Concat l).
Proof. reflexivity. Qed.

(* ---- D3: Linspace ------------------------------------------------------------------------------------- *)
Theorem linspace_single : forall a b i, lin_value a b 1 i = a.
Proof. reflexivity. Qed.

Theorem linspace_formula : forall a b n i, 2 <= n ->
  (lin_value a b n i == a + inject_Z (Z.of_nat i) * ((b - a) / inject_Z (Z.of_nat (n - 1))))%Q.
Proof.
  intros a b n i Hn. unfold lin_value.
  destruct (Nat.eqb_spec n 1) as [E|_]; [lia|].
  assert (Hd : ~ (inject_Z (Z.of_nat (n - 1)) == 0)%Q).
  { unfold Qeq, inject_Z. simpl. lia. }
  field. exact Hd.
Qed.

Theorem linspace_endpoints : forall a b n, 2 <= n ->
  (lin_value a b n 0 == a)%Q /\ (lin_value a b n (n - 1) == b)%Q.
Proof.
  intros a b n Hn.
  assert (Hd : ~ (inject_Z (Z.of_nat (n - 1)) == 0)%Q).
  { unfold Qeq, inject_Z. simpl. lia. }
  split; rewrite linspace_formula by exact Hn.
  - change (inject_Z (Z.of_nat 0)) with 0%Q. field. exact Hd.
  - field. exact Hd.
Qed.

Theorem linspace_iter : forall k a b n i, i < n ->
  nth i (iter (Linspace k a b n)) [] = [(k, lin_value a b n i)].
Proof.
  intros k a b n i Hi. simpl.
  rewrite (nth_indep _ [] ((fun j => [(k, lin_value a b n j)]) 0)) by (rewrite map_length, seq_length; exact Hi).
  rewrite (map_nth (fun j => [(k, lin_value a b n j)])). rewrite seq_nth by exact Hi. reflexivity.
Qed.

(* ---- D3: slices ------------------------------------------------------------------------------------------ *)
Lemma set_nth_length {A} (l : list A) j x : length (set_nth l j x) = length l.
Proof. revert j; induction l as [|y r IH]; intros [|j]; simpl; try reflexivity. rewrite IH. reflexivity. Qed.

Lemma set_nth_nth {A} (l : list A) j x d j' : j < length l ->
  nth j' (set_nth l j x) d = if Nat.eqb j' j then x else nth j' l d.
Proof.
  revert j j'; induction l as [|y r IH]; intros j j' H; simpl in H; [lia|].
  destruct j as [|j], j' as [|j']; simpl; try reflexivity.
  apply IH. lia.
Qed.

Lemma lookup_inds (idxs : list nat) : forall s i,
  match lookup (combine idxs (seq s (length idxs))) i with
  | Some j => exists p, j = s + p /\ p < length idxs /\ nth p idxs 0 = i
  | None => ~ In i idxs
  end.
Proof.
  induction idxs as [|x r IH]; intros s i; simpl; [tauto|].
  destruct (Nat.eqb_spec x i) as [E|E].
  - exists 0. repeat split; [lia|lia|exact E].
  - specialize (IH (S s) i). destruct (lookup (combine r (seq (S s) (length r))) i) as [j|].
    + destruct IH as [p [H1 [H2 H3]]]. exists (S p). repeat split; [lia|lia|exact H3].
    + intros [H|H]; [exact (E H)|exact (IH H)].
Qed.

Lemma walk_inv (idxs : list nat) (f : nat -> assign) : NoDup idxs -> forall rest k res,
  (forall p, p < length rest -> nth p rest [] = f (k + p)) ->
  length res = length idxs ->
  (forall j, j < length idxs -> nth j res [] = if nth j idxs 0 <? k then f (nth j idxs 0) else []) ->
  length (fold_left (walk_step (inds_map idxs)) (combine (seq k (length rest)) rest) res) = length idxs /\
  forall j, j < length idxs ->
    nth j (fold_left (walk_step (inds_map idxs)) (combine (seq k (length rest)) rest) res) [] =
    if nth j idxs 0 <? k + length rest then f (nth j idxs 0) else [].
Proof.
  intros Hnd. induction rest as [|x rest IH]; intros k res Hf Hlen Hinv.
  - simpl. split; [exact Hlen|]. intros j Hj. rewrite Nat.add_0_r. apply Hinv. exact Hj.
  - simpl length. simpl seq. simpl combine. simpl fold_left.
    replace (k + S (length rest)) with (S k + length rest) by lia.
    assert (Hx : x = f k). { specialize (Hf 0 ltac:(simpl; lia)). simpl in Hf. rewrite Nat.add_0_r in Hf. exact Hf. }
    apply IH.
    + intros p Hp. specialize (Hf (S p) ltac:(simpl; lia)). simpl in Hf. rewrite Hf. f_equal. lia.
    + unfold walk_step. simpl fst. destruct (lookup (inds_map idxs) k); [rewrite set_nth_length|]; exact Hlen.
    + intros j Hj. unfold walk_step. simpl fst. simpl snd.
      pose proof (lookup_inds idxs 0 k) as Hl. fold (inds_map idxs) in Hl.
      destruct (lookup (inds_map idxs) k) as [j0|].
      * destruct Hl as [p [H1 [H2 H3]]]. simpl in H1. subst j0.
        rewrite set_nth_nth by (rewrite Hlen; exact H2).
        destruct (Nat.eqb_spec j p) as [E|E].
        -- subst j. rewrite H3. rewrite (proj2 (Nat.ltb_lt k (S k))) by lia. exact Hx.
        -- rewrite Hinv by exact Hj.
           assert (Hne : nth j idxs 0 <> k).
           { intros Heq. apply E. apply (proj1 (NoDup_nth idxs 0) Hnd); [exact Hj|exact H2|]. rewrite H3. exact Heq. }
           destruct (Nat.ltb_spec (nth j idxs 0) k), (Nat.ltb_spec (nth j idxs 0) (S k)); try reflexivity; lia.
      * rewrite Hinv by exact Hj.
        assert (Hne : nth j idxs 0 <> k). { intros Heq. apply Hl. rewrite <- Heq. apply nth_In. exact Hj. }
        destruct (Nat.ltb_spec (nth j idxs 0) k), (Nat.ltb_spec (nth j idxs 0) (S k)); try reflexivity; lia.
Qed.

Lemma pick_nth {A} (d : A) (l : list A) (idxs : list nat) j : j < length idxs ->
  nth j (pick d l idxs) d = nth (nth j idxs 0) l d.
Proof.
  revert j; induction idxs as [|x r IH]; intros [|j] H; simpl in *; try lia; [reflexivity|]. apply IH. lia.
Qed.

(* the dictionary walk of Sweep.__getitem__ picks exactly the listed positions, in slice order *)
Lemma slice_walk_pick (idxs : list nat) (items : list assign) :
  NoDup idxs -> Forall (fun i => i < length items) idxs ->
  slice_walk (inds_map idxs) items = pick [] items idxs.
Proof.
  intros Hnd Hlt. unfold slice_walk.
  assert (Hm : length (inds_map idxs) = length idxs).
  { unfold inds_map. rewrite combine_length, seq_length. lia. }
  rewrite Hm.
  destruct (walk_inv idxs (fun i => nth i items []) Hnd items 0 (repeat [] (length idxs))) as [Hlen Hnth].
  - intros p _. reflexivity.
  - apply repeat_length.
  - intros j Hj. simpl. apply nth_repeat_lt. exact Hj.
  - apply (nth_ext _ _ [] []).
    + unfold pick. rewrite map_length. exact Hlen.
    + intros j Hj0. assert (Hj : j < length idxs) by (rewrite <- Hlen; exact Hj0). rewrite Hnth by exact Hj. simpl.
      assert (Hb : nth j idxs 0 < length items). { rewrite Forall_forall in Hlt. apply Hlt. apply nth_In. exact Hj. }
      match goal with |- context [?a <? ?b] => destruct (Nat.ltb_spec a b) as [_|Hc] end;
        [|exfalso; exact (Nat.lt_irrefl _ (Nat.lt_le_trans _ _ _ Hb Hc))].
      rewrite pick_nth by exact Hj. reflexivity.
Qed.

Lemma NoDup_map_seq {B} (h : nat -> B) (c : nat) :
  (forall i j, i < c -> j < c -> h i = h j -> i = j) -> NoDup (map h (seq 0 c)).
Proof.
  intros Hinj.
  assert (G : forall s n, s + n <= c -> NoDup (map h (seq s n))).
  { intros s n; revert s; induction n as [|n IH]; intros s Hs; simpl; constructor.
    - intros Hin. apply in_map_iff in Hin. destruct Hin as [y [Hy Hin]]. apply in_seq in Hin.
      assert (y = s) by (apply Hinj; [lia|lia|exact Hy]). lia.
    - apply IH. lia. }
  apply G. lia.
Qed.

Lemma range_count_bound_pos start stop step i : (0 < step)%Z ->
  (0 <= i < range_count start stop step)%Z -> (start <= start + i * step < stop)%Z.
Proof.
  intros Hs Hi. unfold range_count in Hi. rewrite (proj2 (Z.ltb_lt 0 step) Hs) in Hi.
  destruct (start <? stop)%Z eqn:E; [|lia]. apply Z.ltb_lt in E.
  assert (Hq : (i <= (stop - start - 1) / step)%Z) by lia.
  assert (Hm : (step * ((stop - start - 1) / step) <= stop - start - 1)%Z) by (apply Z.mul_div_le; lia).
  nia.
Qed.

Lemma range_count_bound_neg start stop step i : (step < 0)%Z ->
  (0 <= i < range_count start stop step)%Z -> (stop < start + i * step <= start)%Z.
Proof.
  intros Hs Hi. unfold range_count in Hi.
  destruct (0 <? step)%Z eqn:E0; [apply Z.ltb_lt in E0; lia|].
  destruct (stop <? start)%Z eqn:E; [|lia]. apply Z.ltb_lt in E.
  assert (Hq : (i <= (start - stop - 1) / (- step))%Z) by lia.
  assert (Hm : ((- step) * ((start - stop - 1) / (- step)) <= start - stop - 1)%Z) by (apply Z.mul_div_le; lia).
  nia.
Qed.

Lemma slice_bounds_range n sl start stop step : (0 <= n)%Z ->
  slice_bounds n sl = Some (start, stop, step) ->
  step <> 0%Z /\ ((0 < step)%Z -> (0 <= start)%Z /\ (stop <= n)%Z) /\ ((step < 0)%Z -> (start <= n - 1)%Z /\ (-1 <= stop)%Z).
Proof.
  intros Hn. unfold slice_bounds.
  set (st := match sl_step sl with Some k => k | None => 1%Z end).
  destruct (st =? 0)%Z eqn:E0; [discriminate|]. apply Z.eqb_neq in E0.
  intros H. injection H as H1 H2 H3. subst step. split; [exact E0|].
  destruct (st <? 0)%Z eqn:En; [apply Z.ltb_lt in En|apply Z.ltb_ge in En].
  - split; [lia|]. intros _. subst start stop.
    destruct (sl_start sl) as [v|], (sl_stop sl) as [w|];
      repeat match goal with |- context [(?a <? 0)%Z] => destruct (a <? 0)%Z eqn:? end; lia.
  - split; [|lia]. intros _. subst start stop.
    destruct (sl_start sl) as [v|], (sl_stop sl) as [w|];
      repeat match goal with |- context [(?a <? 0)%Z] => destruct (a <? 0)%Z eqn:? end; lia.
Qed.

(* range(n)[slice] lists distinct positions inside the sweep *)
Lemma slice_indices_ok n sl idxs : slice_indices n sl = Some idxs ->
  NoDup idxs /\ Forall (fun i => i < n) idxs.
Proof.
  unfold slice_indices. destruct (slice_bounds (Z.of_nat n) sl) as [[[start stop] step]|] eqn:Eb; [|discriminate].
  intros H. injection H as <-.
  destruct (slice_bounds_range _ _ _ _ _ (Nat2Z.is_nonneg n) Eb) as [Hnz [Hpos Hneg]].
  unfold range_list. rewrite map_map.
  assert (Hin : forall i, i < Z.to_nat (range_count start stop step) ->
                 (0 <= start + Z.of_nat i * step < Z.of_nat n)%Z).
  { intros i Hi. destruct (Z.lt_trichotomy step 0) as [Hs|[Hs|Hs]]; [|contradiction|].
    - pose proof (range_count_bound_neg start stop step (Z.of_nat i) Hs ltac:(lia)). specialize (Hneg Hs). lia.
    - pose proof (range_count_bound_pos start stop step (Z.of_nat i) Hs ltac:(lia)). specialize (Hpos Hs). lia. }
  split.
  - apply NoDup_map_seq. intros i j Hi Hj Heq.
    pose proof (Hin i Hi). pose proof (Hin j Hj).
    assert (E : (start + Z.of_nat i * step = start + Z.of_nat j * step)%Z) by lia.
    assert (E2 : ((Z.of_nat i - Z.of_nat j) * step = 0)%Z) by lia.
    apply Z.mul_eq_0 in E2. lia.
  - apply Forall_forall. intros x Hx. apply in_map_iff in Hx. destruct Hx as [i [<- Hi]].
    apply in_seq in Hi. pose proof (Hin i ltac:(lia)). lia.
Qed.

Theorem sweep_slice : forall s sl s',
  getslice s sl = Some s' ->
  exists idxs, slice_indices (len s) sl = Some idxs /\
               s' = ListSweep (pick [] (iter s) idxs) /\
               iter s' = pick [] (iter s) idxs /\ len s' = length idxs.
Proof.
  intros s sl s'. unfold getslice. destruct (slice_indices (len s) sl) as [idxs|] eqn:E; [|discriminate].
  intros H. injection H as <-. exists idxs.
  destruct (slice_indices_ok _ _ _ E) as [Hnd Hlt].
  rewrite slice_walk_pick; [|exact Hnd|rewrite sweep_len_iter; exact Hlt].
  repeat split. simpl. unfold pick. apply map_length.
Qed.

Theorem sweep_slice_zero_step : forall s sl, getslice s sl = None <-> sl_step sl = Some 0%Z.
Proof.
  intros s sl. unfold getslice, slice_indices, slice_bounds.
  destruct (sl_step sl) as [k|]; simpl.
  - destruct (Z.eqb_spec k 0) as [->|E]; split; try reflexivity; try discriminate. intros H; injection H; contradiction.
  - split; discriminate.
Qed.

(* the transcription of slice.indices/range agrees with list slicing on the familiar cases *)
Theorem slice_indices_prefix : forall n a b, a <= b <= n ->
  slice_indices n (mkSlice (Some (Z.of_nat a)) (Some (Z.of_nat b)) None) = Some (seq a (b - a)).
Proof.
  intros n a b H. unfold slice_indices, slice_bounds. simpl.
  destruct (Z.of_nat a <? 0)%Z eqn:Ea; [apply Z.ltb_lt in Ea; lia|].
  destruct (Z.of_nat b <? 0)%Z eqn:Eb; [apply Z.ltb_lt in Eb; lia|].
  rewrite !Z.min_l by lia. f_equal. unfold range_list, range_count. change (0 <? 1)%Z with true. cbv iota.
  assert (Hc : Z.to_nat (if (Z.of_nat a <? Z.of_nat b)%Z then (Z.of_nat b - Z.of_nat a - 1) / 1 + 1 else 0)%Z = b - a).
  { destruct (Z.of_nat a <? Z.of_nat b)%Z eqn:E; [apply Z.ltb_lt in E|apply Z.ltb_ge in E]; [rewrite Z.div_1_r|]; lia. }
  rewrite Hc. rewrite map_map.
  assert (G : forall c s, map (fun i => Z.to_nat (Z.of_nat a + Z.of_nat i * 1)) (seq s c) = seq (a + s) c).
  { induction c as [|c IH]; intros s; simpl; [reflexivity|]. rewrite IH. f_equal; [lia|]. f_equal. lia. }
  rewrite G. f_equal. lia.
Qed.

Theorem slice_indices_full : forall n, slice_indices n (mkSlice None None None) = Some (seq 0 n).
Proof.
  intros n. unfold slice_indices, slice_bounds. simpl. f_equal. unfold range_list, range_count. change (0 <? 1)%Z with true. cbv iota.
  assert (Hc : Z.to_nat (if (0 <? Z.of_nat n)%Z then (Z.of_nat n - 0 - 1) / 1 + 1 else 0)%Z = n).
  { destruct (0 <? Z.of_nat n)%Z eqn:E; [apply Z.ltb_lt in E|apply Z.ltb_ge in E]; [rewrite Z.div_1_r|]; lia. }
  rewrite Hc, map_map.
  assert (G : forall c s, map (fun i => Z.to_nat (0 + Z.of_nat i * 1)) (seq s c) = seq s c).
  { induction c as [|c IH]; intros s; simpl; [reflexivity|]. rewrite IH. f_equal. lia. }
  apply G.
Qed.

Lemma pick_seq_all {A} (d : A) (l : list A) : pick d l (seq 0 (length l)) = l.
Proof.
  apply (nth_ext _ _ d d); [unfold pick; rewrite map_length, seq_length; reflexivity|].
  intros j Hj. unfold pick in Hj. rewrite map_length, seq_length in Hj.
  rewrite pick_nth by (rewrite seq_length; exact Hj). rewrite seq_nth by exact Hj. reflexivity.
Qed.

Theorem sweep_slice_all : forall s, getslice s (mkSlice None None None) = Some (ListSweep (iter s)).
Proof.
  intros s. destruct (getslice s (mkSlice None None None)) as [s'|] eqn:E.
  - destruct (sweep_slice _ _ _ E) as [idxs [H1 [H2 _]]]. rewrite slice_indices_full in H1. injection H1 as <-.
    rewrite H2. rewrite <- sweep_len_iter. rewrite pick_seq_all. reflexivity.
  - apply sweep_slice_zero_step in E. discriminate.
Qed.

(* ---- D3: every assignment of a sweep assigns exactly the sweep's keys, in order --------------------------------- *)
Lemma keys_eqb_eq a b : keys_eqb a b = true <-> a = b.
Proof.
  revert b; induction a as [|x a IH]; intros [|y b]; simpl; try (split; [discriminate|discriminate]); [tauto|].
  rewrite andb_true_iff, String.eqb_eq, IH. split; [intros [-> ->]; reflexivity|intros H; injection H; auto].
Qed.

Definition keyed (ks : list key) (l : list assign) : Prop := forall a, In a l -> map fst a = ks.

Lemma prod_all_keyed ls kss : Forall2 (fun l ks => keyed ks l) ls kss -> keyed (concat kss) (prod_all ls).
Proof.
  induction 1 as [|l ks ls kss Hl _ IH]; simpl.
  - intros a [<-|[]]. reflexivity.
  - intros a Ha. apply in_flat_map in Ha. destruct Ha as [x [Hx Ha]]. apply in_map_iff in Ha. destruct Ha as [y [<- Hy]].
    rewrite map_app, (Hl x Hx), (IH y Hy). reflexivity.
Qed.

Lemma zipw_In a l1 l2 : In a (zipw l1 l2) -> exists x y, In x l1 /\ In y l2 /\ a = x ++ y.
Proof.
  revert l2; induction l1 as [|x l1 IH]; intros [|y l2]; simpl; try tauto.
  intros [<-|H]; [exists x, y; auto|]. destruct (IH l2 H) as [x' [y' [H1 [H2 H3]]]]. exists x', y'. auto.
Qed.

Lemma zip_all_keyed ls kss : Forall2 (fun l ks => keyed ks l) ls kss -> keyed (concat kss) (zip_all ls).
Proof.
  induction 1 as [|l ks ls kss Hl Hrest IH]; [intros a []|].
  destruct ls as [|l2 ls].
  - inversion Hrest; subst. simpl. rewrite app_nil_r. exact Hl.
  - change (zip_all (l :: l2 :: ls)) with (zipw l (zip_all (l2 :: ls))). intros a Ha.
    destruct (zipw_In _ _ _ Ha) as [x [y [Hx [Hy ->]]]]. simpl. rewrite map_app, (Hl x Hx), (IH y Hy). reflexivity.
Qed.

Lemma pad_keyed ks n l : l <> [] -> keyed ks l -> keyed ks (pad n l).
Proof.
  intros Hne Hl a Ha. unfold pad in Ha. apply in_app_or in Ha. destruct Ha as [Ha|Ha]; [auto|].
  apply repeat_spec in Ha. subst a. apply Hl. destruct l as [|x l]; [congruence|].
  clear. revert x. induction l as [|y l IH]; intros x; [left; reflexivity|]. right. apply IH.
Qed.

Lemma forallb_Forall {A} (f : A -> bool) l : forallb f l = true <-> Forall (fun x => f x = true) l.
Proof. rewrite forallb_forall, Forall_forall. tauto. Qed.

Theorem sweep_keys_iter : forall s, wf s = true -> uniform s = true -> keyed (keys s) (iter s).
Proof.
  induction s as [|k vs|k a b n|l IH|l IH|l IH|l IH|rs] using sweep_ind'; intros Hw Hu; simpl in Hw, Hu.
  - intros a [<-|[]]. reflexivity.
  - intros a Ha. simpl in Ha. apply in_map_iff in Ha. destruct Ha as [v [<- _]]. reflexivity.
  - intros a' Ha. simpl in Ha. apply in_map_iff in Ha. destruct Ha as [i [<- _]]. reflexivity.
  - apply andb_true_iff in Hw. destruct Hw as [Hw _]. simpl. apply prod_all_keyed.
    apply forallb_Forall in Hw, Hu. clear -IH Hw Hu. induction l as [|x l IHl]; simpl; constructor;
      inversion IH; inversion Hw; inversion Hu; subst; auto.
  - apply andb_true_iff in Hw. destruct Hw as [Hw _]. simpl. apply zip_all_keyed.
    apply forallb_Forall in Hw, Hu. clear -IH Hw Hu. induction l as [|x l IHl]; simpl; constructor;
      inversion IH; inversion Hw; inversion Hu; subst; auto.
  - apply andb_true_iff in Hw. destruct Hw as [Hw Hne]. apply andb_true_iff in Hw. destruct Hw as [Hw _].
    simpl. unfold ziplongest_all. apply zip_all_keyed.
    apply forallb_Forall in Hw, Hu, Hne. generalize (maxl (map (@length assign) (map iter l))) as n. intros n.
    clear -IH Hw Hu Hne. induction l as [|x l IHl]; simpl; constructor;
      inversion IH; inversion Hw; inversion Hu; inversion Hne; subst; auto.
    apply pad_keyed; [|auto].
    intros E. assert (L : len x = 0) by (rewrite <- sweep_len_iter, E; reflexivity).
    match goal with H : negb (Nat.eqb (len x) 0) = true |- _ => rewrite L in H; discriminate end.
  - apply andb_true_iff in Hw. destruct Hw as [Hw Hk]. simpl.
    destruct l as [|x0 l0]; [discriminate|].
    apply forallb_Forall in Hw, Hu. simpl map. intros a Ha. simpl in Ha.
    change (In a (concat (map iter (x0 :: l0)))) in Ha. apply in_concat in Ha. destruct Ha as [it [Hit Ha]].
    apply in_map_iff in Hit. destruct Hit as [x [<- Hx]].
    rewrite Forall_forall in IH, Hw, Hu.
    rewrite (IH x Hx (Hw x Hx) (Hu x Hx) a Ha). destruct Hx as [<-|Hx]; [reflexivity|].
    rewrite forallb_forall in Hk. apply keys_eqb_eq. apply Hk. exact Hx.
  - destruct rs as [|r rest]; [intros a []|]. intros a [<-|Ha]; [reflexivity|].
    rewrite forallb_forall in Hu. apply keys_eqb_eq. apply Hu. exact Ha.
Qed.
