(* C10 — proofs about the sweep model (Codec/Sweeps.v). *)
From Coq Require Import String ZArith QArith List Bool Lia Arith.
From VF Require Import Codec.Sweeps.
Import ListNotations.
Local Open Scope nat_scope.

(* ---- induction principle for the nested inductive -------------------------------------- *)
Section SweepInd.
  Variable P : sweep -> Prop.
  Hypothesis HUnit : P Unit.
  Hypothesis HPoints : forall k vs, P (Points k vs).
  Hypothesis HLin : forall k a b n, P (Linspace k a b n).
  Hypothesis HProd : forall l, Forall P l -> P (Product l).
  Hypothesis HZip : forall l, Forall P l -> P (Zip l).
  Hypothesis HZipL : forall l, Forall P l -> P (ZipLongest l).
  Hypothesis HConcat : forall l, Forall P l -> P (Concat l).
  Hypothesis HList : forall rs, P (ListSweep rs).
  Fixpoint sweep_ind' (s : sweep) : P s :=
    let fix go (l : list sweep) : Forall P l :=
      match l with
      | [] => Forall_nil P
      | x :: r => Forall_cons x (sweep_ind' x) (go r)
      end in
    match s with
    | Unit => HUnit
    | Points k vs => HPoints k vs
    | Linspace k a b n => HLin k a b n
    | Product l => HProd l (go l)
    | Zip l => HZip l (go l)
    | ZipLongest l => HZipL l (go l)
    | Concat l => HConcat l (go l)
    | ListSweep rs => HList rs
    end.
End SweepInd.

(* ---- lengths of the list combinators ---------------------------------------------------- *)
Lemma flat_map_const_length {A B} (f : A -> list B) (m : nat) (l : list A) :
  (forall x, In x l -> length (f x) = m) -> length (flat_map f l) = length l * m.
Proof.
  induction l as [|x r IH]; intros H; simpl; [reflexivity|].
  rewrite app_length, IH by (intros; apply H; right; assumption).
  rewrite (H x) by (left; reflexivity). reflexivity.
Qed.

Lemma prod_all_length (ls : list (list assign)) :
  length (prod_all ls) = prodl (map (@length assign) ls).
Proof.
  induction ls as [|l rest IH]; simpl; [reflexivity|].
  rewrite (flat_map_const_length _ (length (prod_all rest))).
  - rewrite IH. reflexivity.
  - intros x _. apply map_length.
Qed.

Lemma zipw_length (a b : list assign) : length (zipw a b) = Nat.min (length a) (length b).
Proof.
  revert b; induction a as [|x a IH]; intros [|y b]; simpl; try reflexivity.
  rewrite IH. reflexivity.
Qed.

Lemma fold_min_swap (r : list nat) : forall x y,
  Nat.min y (fold_right Nat.min x r) = Nat.min x (fold_right Nat.min y r).
Proof.
  induction r as [|z r IH]; intros x y; simpl; [lia|].
  pose proof (IH x y). lia.
Qed.

Lemma minl_cons x y r : minl (x :: y :: r) = Nat.min x (minl (y :: r)).
Proof. unfold minl. simpl. apply fold_min_swap. Qed.

Lemma zip_all_length (ls : list (list assign)) :
  length (zip_all ls) = minl (map (@length assign) ls).
Proof.
  induction ls as [|l rest IH]; [reflexivity|].
  destruct rest as [|l2 rest]; [reflexivity|].
  change (zip_all (l :: l2 :: rest)) with (zipw l (zip_all (l2 :: rest))).
  rewrite zipw_length, IH. simpl map. rewrite minl_cons. reflexivity.
Qed.

Lemma maxl_ge (l : list nat) x : In x l -> x <= maxl l.
Proof.
  unfold maxl. induction l as [|y r IH]; simpl; [tauto|]. intros [->|H]; [lia|]. specialize (IH H). lia.
Qed.

Lemma pad_length n l : length l <= n -> length (pad n l) = n.
Proof. intros H. unfold pad. rewrite app_length, repeat_length. lia. Qed.

Lemma minl_all_eq (l : list nat) n : l <> [] -> (forall x, In x l -> x = n) -> minl l = n.
Proof.
  destruct l as [|x r]; [congruence|]. intros _ H. unfold minl.
  assert (Hx : x = n) by (apply H; left; reflexivity). subst x.
  induction r as [|y r IH]; simpl; [reflexivity|].
  rewrite IH by (intros z [->|Hz]; apply H; [left|right; right]; auto).
  rewrite (H y) by (right; left; reflexivity). lia.
Qed.

Lemma ziplongest_all_length (ls : list (list assign)) :
  length (ziplongest_all ls) = maxl (map (@length assign) ls).
Proof.
  unfold ziplongest_all. rewrite zip_all_length.
  destruct ls as [|l rest]; [reflexivity|].
  apply minl_all_eq; [discriminate|].
  intros x Hx. rewrite map_map in Hx. apply in_map_iff in Hx. destruct Hx as [y [<- Hy]].
  apply pad_length. apply maxl_ge. apply in_map. exact Hy.
Qed.

Lemma concat_length {A} (ls : list (list A)) : length (concat ls) = suml (map (@length A) ls).
Proof. induction ls as [|l r IH]; simpl; [reflexivity|]. rewrite app_length, IH. reflexivity. Qed.

Lemma map_len_iter l : Forall (fun s => length (iter s) = len s) l ->
  map (@length assign) (map iter l) = map len l.
Proof. induction 1 as [|x r Hx _ IH]; simpl; [reflexivity|]. rewrite Hx, IH. reflexivity. Qed.

(* ---- D3: __len__ agrees with the iteration ----------------------------------------------- *)
Theorem sweep_len_iter : forall s, length (iter s) = len s.
Proof.
  induction s as [|k vs|k a b n|l IH|l IH|l IH|l IH|rs] using sweep_ind'; simpl.
  - reflexivity.
  - apply map_length.
  - rewrite map_length. apply seq_length.
  - rewrite prod_all_length, map_len_iter by exact IH. reflexivity.
  - rewrite zip_all_length, map_len_iter by exact IH. reflexivity.
  - rewrite ziplongest_all_length, map_len_iter by exact IH. reflexivity.
  - rewrite concat_length, map_len_iter by exact IH. reflexivity.
  - reflexivity.
Qed.

(* ---- D3: integer indexing, negative indices included ---------------------------------------- *)
Theorem sweep_getitem : forall s (i : Z) d,
  (- Z.of_nat (len s) <= i < Z.of_nat (len s))%Z ->
  getitem s i = Some (nth (Z.to_nat (i mod Z.of_nat (len s))) (iter s) d).
Proof.
  intros s i d H. unfold getitem.
  destruct (i <? - Z.of_nat (len s))%Z eqn:E1; [apply Z.ltb_lt in E1; lia|].
  destruct (i >=? Z.of_nat (len s))%Z eqn:E2; [rewrite Z.geb_leb in E2; apply Z.leb_le in E2; lia|].
  simpl.
  assert (Hn : (0 < Z.of_nat (len s))%Z) by lia.
  assert (Hidx : (if (i <? 0)%Z then i + Z.of_nat (len s) else i)%Z = (i mod Z.of_nat (len s))%Z).
  { destruct (i <? 0)%Z eqn:E3.
    - apply Z.ltb_lt in E3. apply Z.mod_unique with (q := (-1)%Z); lia.
    - apply Z.ltb_ge in E3. symmetry. apply Z.mod_small. lia. }
  rewrite Hidx. apply nth_error_nth'.
  rewrite sweep_len_iter.
  pose proof (Z.mod_pos_bound i (Z.of_nat (len s)) Hn). lia.
Qed.

Theorem sweep_getitem_out_of_range : forall s (i : Z),
  (i < - Z.of_nat (len s) \/ Z.of_nat (len s) <= i)%Z <-> getitem s i = None.
Proof.
  intros s i. unfold getitem. split.
  - intros [H|H].
    + apply Z.ltb_lt in H. rewrite H. reflexivity.
    + apply Z.leb_le in H. rewrite Z.geb_leb, H, orb_true_r. reflexivity.
  - destruct (i <? - Z.of_nat (len s))%Z eqn:E1; [apply Z.ltb_lt in E1; auto|].
    destruct (i >=? Z.of_nat (len s))%Z eqn:E2; [rewrite Z.geb_leb in E2; apply Z.leb_le in E2; auto|].
    simpl. intros H. apply nth_error_None in H. rewrite sweep_len_iter in H.
    apply Z.ltb_ge in E1. rewrite Z.geb_leb in E2. apply Z.leb_gt in E2.
    destruct (i <? 0)%Z eqn:E3; [apply Z.ltb_lt in E3|apply Z.ltb_ge in E3]; lia.
Qed.

(* ---- D3: Product is the lexicographic product, last factor fastest --------------------------- *)
Lemma flat_map_block_nth {A B} (f : A -> list B) (m : nat) (l : list A) (da : A) (db : B) :
  (forall x, length (f x) = m) ->
  forall i j, i < length l -> j < m ->
  nth (i * m + j) (flat_map f l) db = nth j (f (nth i l da)) db.
Proof.
  intros Hm. induction l as [|x r IH]; intros i j Hi Hj; simpl in Hi; [lia|].
  simpl flat_map. destruct i as [|i].
  - simpl. rewrite app_nth1 by (rewrite Hm; exact Hj). reflexivity.
  - rewrite app_nth2 by (rewrite Hm; simpl; lia).
    rewrite Hm. replace (S i * m + j - m) with (i * m + j) by (simpl; lia).
    simpl nth. apply IH; lia.
Qed.

Lemma prod_all_lex (l : list assign) (rest : list (list assign)) i j :
  i < length l -> j < length (prod_all rest) ->
  nth (i * length (prod_all rest) + j) (prod_all (l :: rest)) [] = nth i l [] ++ nth j (prod_all rest) [].
Proof.
  intros Hi Hj. simpl prod_all.
  pose proof (flat_map_block_nth (fun x : assign => map (fun y => x ++ y) (prod_all rest))
                (length (prod_all rest)) l [] []) as X.
  rewrite X; [|intros x; apply map_length|exact Hi|exact Hj].
  cbv beta.
  rewrite (nth_indep _ [] (nth i l [] ++ [])) by (rewrite map_length; exact Hj).
  apply (map_nth (fun y : assign => nth i l [] ++ y)).
Qed.

Theorem product_lex : forall s l i j,
  i < len s -> j < len (Product l) ->
  nth (i * len (Product l) + j) (iter (Product (s :: l))) [] = nth i (iter s) [] ++ nth j (iter (Product l)) [].
Proof.
  intros s l i j Hi Hj. rewrite <- (sweep_len_iter (Product l)) in *. rewrite <- sweep_len_iter in Hi.
  simpl iter in *. apply prod_all_lex; assumption.
Qed.

Theorem product_nil : iter (Product []) = [[]].
Proof. reflexivity. Qed.

(* ---- D3: Zip is the shortest prefix ------------------------------------------------------------ *)
Lemma zipw_nth (a b : list assign) i : i < length a -> i < length b ->
  nth i (zipw a b) [] = nth i a [] ++ nth i b [].
Proof.
  revert b i; induction a as [|x a IH]; intros [|y b] i Ha Hb; simpl in *; try lia.
  destruct i as [|i]; [reflexivity|]. apply IH; lia.
Qed.

Lemma minl_le (l : list nat) x : In x l -> minl l <= x.
Proof.
  destruct l as [|y r]; [simpl; tauto|]. unfold minl. revert y.
  induction r as [|z r IH]; intros y; simpl.
  - intros [->|[]]. lia.
  - intros [->|[->|H]]; try lia.
    + specialize (IH x (or_introl eq_refl)). lia.
    + specialize (IH y (or_intror H)). lia.
Qed.

Lemma zip_all_nth (ls : list (list assign)) i : i < minl (map (@length assign) ls) ->
  nth i (zip_all ls) [] = concat (map (fun l => nth i l []) ls).
Proof.
  induction ls as [|l rest IH]; intros Hi; [simpl in Hi; lia|].
  destruct rest as [|l2 rest].
  - simpl. rewrite app_nil_r. reflexivity.
  - change (zip_all (l :: l2 :: rest)) with (zipw l (zip_all (l2 :: rest))).
    simpl map in Hi. rewrite minl_cons in Hi.
    rewrite zipw_nth; [|lia|rewrite zip_all_length; simpl map; lia].
    rewrite IH by (simpl map; lia). reflexivity.
Qed.

Theorem zip_prefix : forall l i, i < len (Zip l) ->
  nth i (iter (Zip l)) [] = concat (map (fun s => nth i (iter s) []) l).
Proof.
  intros l i Hi. simpl in *.
  rewrite zip_all_nth.
  - rewrite map_map. reflexivity.
  - rewrite map_len_iter; [exact Hi|]. apply Forall_forall. intros; apply sweep_len_iter.
Qed.

Theorem zip_len_shortest : forall l s, In s l -> len (Zip l) <= len s.
Proof. intros l s H. simpl. apply minl_le. apply in_map. exact H. Qed.

(* ---- D3: ZipLongest repeats last values ------------------------------------------------------------ *)
Lemma last_nth {A} (l : list A) d : last l d = nth (length l - 1) l d.
Proof.
  induction l as [|x r IH]; [reflexivity|].
  destruct r as [|y r]; [reflexivity|].
  change (last (x :: y :: r) d) with (last (y :: r) d). rewrite IH. simpl. rewrite Nat.sub_0_r. reflexivity.
Qed.

Lemma nth_repeat_lt {A} (a d : A) m k : k < m -> nth k (repeat a m) d = a.
Proof. revert k; induction m as [|m IH]; intros [|k] H; simpl; try lia; [reflexivity|apply IH; lia]. Qed.

Lemma pad_nth n (l : list assign) i : 0 < length l -> i < n ->
  nth i (pad n l) [] = nth (Nat.min i (length l - 1)) l [].
Proof.
  intros Hl Hi. unfold pad. destruct (Nat.lt_ge_cases i (length l)) as [H|H].
  - rewrite app_nth1 by exact H. f_equal. lia.
  - rewrite app_nth2 by exact H.
    rewrite nth_repeat_lt by lia. rewrite last_nth. f_equal. lia.
Qed.

Theorem ziplongest_repeats_last : forall l i,
  (forall s, In s l -> 0 < len s) -> i < len (ZipLongest l) ->
  nth i (iter (ZipLongest l)) [] = concat (map (fun s => nth (Nat.min i (len s - 1)) (iter s) []) l).
Proof.
  intros l i Hpos Hi. simpl in *. unfold ziplongest_all.
  assert (Hlen : map (@length assign) (map iter l) = map len l).
  { apply map_len_iter. apply Forall_forall. intros; apply sweep_len_iter. }
  rewrite Hlen.
  rewrite zip_all_nth.
  - rewrite !map_map. f_equal. apply map_ext_in. intros s Hs.
    rewrite pad_nth; [rewrite sweep_len_iter; reflexivity|rewrite sweep_len_iter; auto|exact Hi].
  - destruct l as [|s0 l0]; [simpl in Hi; lia|].
    rewrite (minl_all_eq _ (maxl (map len (s0 :: l0)))); [exact Hi|discriminate|].
    intros x Hx. rewrite !map_map in Hx. apply in_map_iff in Hx. destruct Hx as [s [<- Hs]].
    apply pad_length. rewrite sweep_len_iter. apply maxl_ge. apply in_map. exact Hs.
Qed.

(* ---- D3: Concat appends ------------------------------------------------------------------------------- *)
Theorem concat_app : forall s l, iter (Concat (s :: l)) = iter s ++ iter (Concat l).
Proof. reflexivity. Qed.

Theorem concat_len : forall s l, len (Concat (s :: l)) = len s + len (Concat l).
Proof. reflexivity. Qed.

(* ---- D3: Linspace ------------------------------------------------------------------------------------- *)
Theorem linspace_single : forall a b i, lin_value a b 1 i = a.
Proof. reflexivity. Qed.

Theorem linspace_formula : forall a b n i, 2 <= n ->
  (lin_value a b n i == a + inject_Z (Z.of_nat i) * ((b - a) / inject_Z (Z.of_nat (n - 1))))%Q.
Proof.
  intros a b n i Hn. unfold lin_value.
  destruct (Nat.eqb_spec n 1) as [E|_]; [lia|].
  assert (Hd : ~ (inject_Z (Z.of_nat (n - 1)) == 0)%Q).
  { unfold Qeq, inject_Z. simpl. lia. }
  field. exact Hd.
Qed.

Theorem linspace_endpoints : forall a b n, 2 <= n ->
  (lin_value a b n 0 == a)%Q /\ (lin_value a b n (n - 1) == b)%Q.
Proof.
  intros a b n Hn.
  assert (Hd : ~ (inject_Z (Z.of_nat (n - 1)) == 0)%Q).
  { unfold Qeq, inject_Z. simpl. lia. }
  split; rewrite linspace_formula by exact Hn.
  - change (inject_Z (Z.of_nat 0)) with 0%Q. field. exact Hd.
  - field. exact Hd.
Qed.

Theorem linspace_iter : forall k a b n i, i < n ->
  nth i (iter (Linspace k a b n)) [] = [(k, lin_value a b n i)].
Proof.
  intros k a b n i Hi. simpl.
  rewrite (nth_indep _ [] ((fun j => [(k, lin_value a b n j)]) 0)) by (rewrite map_length, seq_length; exact Hi).
  rewrite (map_nth (fun j => [(k, lin_value a b n j)])). rewrite seq_nth by exact Hi. reflexivity.
Qed.
