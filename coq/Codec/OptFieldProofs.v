(* C11 — proofs for Codec/OptField.v *)
From Coq Require Import List Bool NArith Lia.
From VF Require Import Codec.OptField.
Import ListNotations.
Local Open Scope N_scope.

(* ---------- part 1 ---------- *)
Theorem opt_field_roundtrip_iff : forall (C A : Type) (valid : C -> A -> Prop) (infer : C -> option A) (omit : C -> A -> bool),
  (forall c a, valid c a -> field_roundtrip infer omit c a = Some a) <->
  (forall c a, valid c a -> omit c a = true -> infer c = Some a).
Proof.
  intros C A valid infer omit. unfold field_roundtrip, read_field, write_field. split.
  - intros H c a Hv Ho. specialize (H c a Hv). rewrite Ho in H. exact H.
  - intros H c a Hv. destruct (omit c a) eqn:Ho.
    + apply H; assumption.
    + reflexivity.
Qed.

Theorem opt_field_never_omitted : forall (C A : Type) (infer : C -> option A) (c : C) (a : A),
  field_roundtrip infer (fun _ _ => false) c a = Some a.
Proof. intros. reflexivity. Qed.

(* ---------- part 2 ---------- *)
Lemma shape_eqb_eq : forall a b, shape_eqb a b = true <-> a = b.
Proof.
  induction a as [|x a IH]; intros [|y b]; simpl; split; intro H; try reflexivity; try discriminate.
  - apply andb_true_iff in H. destruct H as [Hx Hr]. apply N.eqb_eq in Hx. apply IH in Hr. subst. reflexivity.
  - injection H as Hx Hr. subst. rewrite N.eqb_refl. simpl. apply IH. reflexivity.
Qed.

Lemma prod_repeat2 : forall n, shape_prod (repeat 2 n) = 2 ^ N.of_nat n.
Proof.
  induction n as [|n IH].
  - reflexivity.
  - rewrite Nat2N.inj_succ, N.pow_succ_r'. simpl repeat. unfold shape_prod in *. simpl fold_right. rewrite IH. reflexivity.
Qed.

Lemma all_qubits_repeat : forall n, all_qubits (repeat 2 n) = true.
Proof. induction n as [|n IH]; [reflexivity|]. simpl. exact IH. Qed.

Lemma all_qubits_is_repeat : forall s, all_qubits s = true -> s = repeat 2 (length s).
Proof.
  induction s as [|d s IH]; simpl; intro H; [reflexivity|].
  apply andb_true_iff in H. destruct H as [Hd Hs]. apply N.eqb_eq in Hd. subst d. f_equal. apply IH. exact Hs.
Qed.

Theorem shape_never_roundtrip : forall w s, shape_roundtrip omit_never w s = Some s.
Proof. intros. reflexivity. Qed.

Theorem shape_if_equal_roundtrip : forall w s, shape_roundtrip omit_if_equal w s = Some s.
Proof.
  intros w s. unfold shape_roundtrip, field_roundtrip, write_field, read_field, omit_if_equal.
  destruct (infer_shape w) as [s'|] eqn:Hi; [|reflexivity].
  destruct (shape_eqb s s') eqn:He; [|reflexivity].
  apply shape_eqb_eq in He. subst s'. reflexivity.
Qed.

Theorem shape_if_inferable_char : forall w s,
  shape_roundtrip omit_if_inferable w s = Some s <-> (infer_shape w = None \/ infer_shape w = Some s).
Proof.
  intros w s. unfold shape_roundtrip, field_roundtrip, write_field, read_field, omit_if_inferable.
  destruct (infer_shape w) as [s'|] eqn:Hi.
  - split; [intro H; right; exact H|intros [H|H]; [discriminate|exact H]].
  - split; [intro; left; reflexivity|reflexivity].
Qed.

Theorem shape_if_inferable_refuted : exists w s,
  gate_ok w s = true /\ all_qubits s = false /\ shape_roundtrip omit_if_inferable w s = Some [2; 2] /\
  shape_roundtrip omit_if_inferable w s <> Some s.
Proof. exists 4, [4]. repeat split; try reflexivity. vm_compute. discriminate. Qed.

Theorem infer_shape_sound : forall w s, infer_shape w = Some s -> gate_ok w s = true /\ all_qubits s = true.
Proof.
  intros w s. unfold infer_shape, gate_ok.
  destruct ((0 <? w) && (2 ^ N.log2 w =? w)) eqn:Hc; [|discriminate].
  intro H. injection H as H. subst s.
  apply andb_true_iff in Hc. destruct Hc as [_ Hp]. apply N.eqb_eq in Hp.
  split; [|apply all_qubits_repeat].
  rewrite prod_repeat2, N2Nat.id. apply N.eqb_eq. exact Hp.
Qed.

(* on qubit gates every rule agrees: the shape of n qubits is what the width implies *)
Theorem infer_shape_qubits : forall w s, gate_ok w s = true -> all_qubits s = true -> infer_shape w = Some s.
Proof.
  intros w s Hg Hq. unfold gate_ok in Hg. apply N.eqb_eq in Hg.
  pose proof (all_qubits_is_repeat s Hq) as Hs. remember (length s) as n eqn:Hn. clear Hn. subst s.
  rewrite prod_repeat2 in Hg. subst w. unfold infer_shape.
  rewrite N.log2_pow2 by lia.
  assert (Hpos : (0 <? 2 ^ N.of_nat n) = true).
  { apply N.ltb_lt. apply N.neq_0_lt_0. apply N.pow_nonzero. discriminate. }
  rewrite Hpos, N.eqb_refl. simpl. rewrite Nat2N.id. reflexivity.
Qed.

Theorem shape_if_inferable_qubits_ok : forall w s, gate_ok w s = true -> all_qubits s = true ->
  shape_roundtrip omit_if_inferable w s = Some s.
Proof. intros w s Hg Hq. apply shape_if_inferable_char. right. apply infer_shape_qubits; assumption. Qed.

(* ---------- part 3 ---------- *)
Theorem count_shape_roundtrip : forall c s, count_ok c s = true -> count_roundtrip c s = Some s.
Proof.
  intros c s Hc. unfold count_ok in Hc. apply N.eqb_eq in Hc.
  unfold count_roundtrip, field_roundtrip, write_field, read_field, omit_if_qubits, infer_count.
  destruct (all_qubits s) eqn:Hq; [|reflexivity].
  subst c. rewrite Nat2N.id. f_equal. symmetry. apply all_qubits_is_repeat. exact Hq.
Qed.

Example count_examples : count_ok 2 [3; 2] = true /\ count_roundtrip 2 [3; 2] = Some [3; 2] /\
  count_ok 3 [2; 2; 2] = true /\ write_field omit_if_qubits 3 [2; 2; 2] = None /\ count_read 3 None = Some [2; 2; 2].
Proof. repeat split; reflexivity. Qed.

(* the hypotheses are satisfiable, and a qudit gate of a width that is no power of two is not affected either *)
Example opt_field_examples :
  gate_ok 4 [2; 2] = true /\ all_qubits [2; 2] = true /\ infer_shape 4 = Some [2; 2] /\ infer_shape 1 = Some [] /\
  infer_shape 0 = None /\ infer_shape 6 = None /\ gate_ok 6 [2; 3] = true /\
  shape_roundtrip omit_if_inferable 6 [2; 3] = Some [2; 3] /\ shape_roundtrip omit_if_inferable 8 [2; 4] = Some [2; 2; 2].
Proof. repeat split; reflexivity. Qed.
