(* Model of cirq-google/cirq_google/api/v2/results.py : results_to_proto / results_from_proto
   over (keys x instances x qubits x packed repetitions), hand-written in the shape of the code.
   Definitions only; proofs are in PackBitsResultsProofs.v.

   Keys and qubit ids are Z identifiers; a record array is repetitions x instances x qubits of bool.
   None = the code raises (ValueError, KeyError, IndexError or a numpy reshape error). *)
From Coq Require Import ZArith List Bool.
From VF Require Import Codec.PackBits.
Import ListNotations.
Open Scope Z_scope.

Definition recd := list (list (list bool)).
Record minfo := mkM { m_key : Z; m_qubits : list Z; m_instances : nat }.       (* MeasureInfo *)
Record trial := mkT { t_reps : nat; t_records : list (Z * recd) }.            (* cirq.Result *)
(* MeasurementResult: key, instances, [(qubit id, packed results)] *)
Record mres := mkMR { mr_key : Z; mr_instances : nat; mr_qubits : list (Z * list Z) }.
Record sweepres := mkSR { sr_reps : nat; sr_results : list (list mres) }.     (* SweepResult *)

Fixpoint lookupZ {A} (k : Z) (d : list (Z * A)) : option A :=
  match d with
  | [] => None
  | (k', v) :: r => if k =? k' then Some v else lookupZ k r
  end.
Fixpoint mapO {A B} (f : A -> option B) (l : list A) : option (list B) :=
  match l with
  | [] => Some []
  | x :: r => match f x with
              | None => None
              | Some y => match mapO f r with None => None | Some ys => Some (y :: ys) end
              end
  end.

(* the array must have shape (reps, instances, len(qubits)) for m_data[:, :, i].reshape(reps * instances) *)
Definition shape_ok (data : recd) (R I Q : nat) : bool :=
  Nat.eqb (length data) R &&
  forallb (fun rep => Nat.eqb (length rep) I && forallb (fun row => Nat.eqb (length row) Q) rep) data.

(* m_data[:, :, i].reshape(reps * instances) *)
Definition column (data : recd) (i : nat) : list bool :=
  flat_map (fun rep => map (fun row => nth i row false) rep) data.

Definition mr_to_proto (reps : nat) (m : minfo) (data : recd) : option mres :=
  if shape_ok data reps (m_instances m) (length (m_qubits m))
  then Some (mkMR (m_key m) (m_instances m)
                  (map (fun iq => (snd iq, pack_bits (column data (fst iq))))
                       (combine (seq 0 (length (m_qubits m))) (m_qubits m))))
  else None.

Definition pr_to_proto (reps : nat) (ms : list minfo) (t : trial) : option (list mres) :=
  mapO (fun m => match lookupZ (m_key m) (t_records t) with
                 | Some data => mr_to_proto reps m data
                 | None => None
                 end) ms.

(* one sweep: the first trial result fixes the repetitions, the others must agree *)
Definition sweep_to_proto (ms : list minfo) (ts : list trial) : option sweepres :=
  match ts with
  | [] => Some (mkSR 0 [])
  | t0 :: _ =>
      if forallb (fun t => Nat.eqb (t_reps t) (t_reps t0)) ts
      then option_map (mkSR (t_reps t0)) (mapO (pr_to_proto (t_reps t0) ms) ts)
      else None
  end.
Definition results_to_proto (ms : list minfo) (sweeps : list (list trial)) : option (list sweepres) :=
  mapO (sweep_to_proto ms) sweeps.

(* ---- decoding ---- *)
(* qubit_results: OrderedDict qubit -> unpacked bits; a repeated qubit raises *)
Fixpoint qubit_results (n : nat) (qs : list (Z * list Z)) (seen : list Z) : option (list (Z * list bool)) :=
  match qs with
  | [] => Some []
  | (q, data) :: r =>
      if existsb (Z.eqb q) seen then None
      else match qubit_results n r (q :: seen) with
           | None => None
           | Some rest => Some ((q, unpack_bits data n) :: rest)
           end
  end.

(* np.array(ordered_results).transpose().reshape((reps, instances, len(qubit_results))) *)
Definition reshape_cols (cols : list (list bool)) (R I Q : nat) : option recd :=
  if Nat.eqb (length cols) Q || Nat.eqb R 0
  then Some (map (fun r => map (fun j => map (fun col => nth (r * I + j) col false) cols) (seq 0 I)) (seq 0 R))
  else None.

Definition mr_from_proto (reps : nat) (order : option (list Z)) (mr : mres) : option (Z * recd) :=
  let instances := Nat.max (mr_instances mr) 1 in
  match qubit_results (reps * instances) (mr_qubits mr) [] with
  | None => None
  | Some qr =>
      match (match order with
             | Some qs => mapO (fun q => lookupZ q qr) qs      (* measure_map[key].qubits *)
             | None => Some (map snd qr)                        (* message order *)
             end) with
      | None => None
      | Some cols => option_map (pair (mr_key mr)) (reshape_cols cols reps instances (length qr))
      end
  end.

(* measure_map = {m.key: m for m in measurements} if measurements else None *)
Definition order_for (ms : option (list minfo)) (key : Z) : option (option (list Z)) :=
  match ms with
  | None | Some [] => Some None
  | Some l => match find (fun m => m_key m =? key) (rev l) with     (* later entries win in the dict *)
              | Some m => Some (Some (m_qubits m))
              | None => None                                       (* KeyError *)
              end
  end.

Definition pr_from_proto (reps : nat) (ms : option (list minfo)) (pr : list mres) : option (list (Z * recd)) :=
  mapO (fun mr => match order_for ms (mr_key mr) with
                  | None => None
                  | Some order => mr_from_proto reps order mr
                  end) pr.
Definition sweep_from_proto (ms : option (list minfo)) (sr : sweepres) : option (list (list (Z * recd))) :=
  mapO (pr_from_proto (sr_reps sr) ms) (sr_results sr).
Definition results_from_proto (ms : option (list minfo)) (msg : list sweepres) :=
  mapO (sweep_from_proto ms) msg.
