(* Proofs about the model of sequence-valued arguments (Codec/ArgSeq.v). *)
From Coq Require Import ZArith QArith Qround Qabs List Bool Lia.
From VF Require Import Codec.ArgSeq.
Import ListNotations.
Open Scope Z_scope.

(* field n can hold e without changing the number it stands for *)
Definition fits (n : nat) (e : elem) : Prop :=
  match e with
  | EB _ | ENB _ => True
  | EI _ | ENI _ => (1 <= n)%nat
  | EF _ => (2 <= n)%nat
  | _ => False
  end.

Lemma fits_mono : forall n m e, (n <= m)%nat -> fits n e -> fits m e.
Proof. intros n m e L F. destruct e; simpl in *; try exact I; try lia; exact F. Qed.

Lemma advance_spec : forall c e,
  (c <= advance 3 c e)%nat /\ ((advance 3 c e < 3)%nat -> fits (advance 3 c e) e).
Proof.
  intros c e. destruct c as [|[|[|c]]].
  - destruct e; simpl; split; try lia; intros; try exact I; try lia.
  - destruct e; simpl; split; try lia; intros; try exact I; try lia.
  - destruct e; simpl; split; try lia; intros; try exact I; try lia.
  - simpl. split; [lia|]. intros; lia.
Qed.

Lemma scan_from_fits : forall xs c n, scan_from c xs = n -> (n < 3)%nat ->
  (c <= n)%nat /\ Forall (fits n) xs.
Proof.
  induction xs as [|e r IH]; intros c n E L.
  - unfold scan_from in E. simpl in E. subst. split; [lia|constructor].
  - change (scan_from (advance 3 c e) r = n) in E.
    destruct (IH _ _ E L) as [Lc Fr].
    destruct (advance_spec c e) as [A1 A2].
    split; [lia|]. constructor; [|exact Fr].
    apply fits_mono with (n := advance 3 c e); [exact Lc|]. apply A2. lia.
Qed.

Lemma scan_fits : forall xs n, scan xs = n -> (n < 3)%nat -> Forall (fits n) xs.
Proof. intros xs n E L. exact (proj2 (scan_from_fits xs 0%nat n E L)). Qed.

Lemma Forall2_map_r : forall (P : elem -> Prop) (R : elem -> elem -> Prop) (f : elem -> elem) xs,
  Forall P xs -> (forall e, P e -> R e (f e)) -> Forall2 R xs (map f xs).
Proof.
  intros P R f xs F H. induction F as [|e r Pe Fr IH]; simpl; constructor; auto.
Qed.

Lemma same_value_num : forall rnd e e' a, val e = Some a -> val e' = Some a -> same_value rnd e e'.
Proof.
  intros rnd e e' a E E'. unfold same_value. rewrite E. exists a. split; [exact E'|left; reflexivity].
Qed.

Lemma same_bool : forall rnd e, fits 0 e -> same_value rnd e (EB (to_bool e)).
Proof.
  intros rnd e F. destruct e; simpl in F; try lia; try contradiction;
    eapply same_value_num; simpl; reflexivity.
Qed.

Lemma same_int : forall rnd e, fits 1 e -> same_value rnd e (EI (to_int e)).
Proof.
  intros rnd e F. destruct e; simpl in F; try lia; try contradiction;
    eapply same_value_num; simpl; reflexivity.
Qed.

Lemma same_dbl : forall rnd e, fits 2 e -> same_value rnd e (EF (to_dbl e)).
Proof.
  intros rnd e F. destruct e; simpl in F; try lia; try contradiction;
    eapply same_value_num; simpl; reflexivity.
Qed.

Lemma same_scalar : forall rnd e, same_value rnd e (dec_scalar (enc_scalar rnd e)).
Proof.
  intros rnd e. destruct e as [b|b|z|z|q|s|x]; simpl.
  - eapply same_value_num; simpl; reflexivity.
  - eapply same_value_num; simpl; reflexivity.
  - unfold same_value. simpl. destruct (integral (rnd (inject_Z z))) eqn:I.
    + exists (inject_Z (Qfloor (rnd (inject_Z z)))). split; [reflexivity|]. right.
      unfold integral in I. apply Qeq_bool_eq in I. exact I.
    + exists (rnd (inject_Z z)). split; [reflexivity|]. right. reflexivity.
  - unfold same_value. simpl. destruct (integral (rnd (inject_Z z))) eqn:I.
    + exists (inject_Z (Qfloor (rnd (inject_Z z)))). split; [reflexivity|]. right.
      unfold integral in I. apply Qeq_bool_eq in I. exact I.
    + exists (rnd (inject_Z z)). split; [reflexivity|]. right. reflexivity.
  - unfold same_value. simpl. destruct (integral (rnd q)) eqn:I.
    + exists (inject_Z (Qfloor (rnd q))). split; [reflexivity|]. right.
      unfold integral in I. apply Qeq_bool_eq in I. exact I.
    + exists (rnd q). split; [reflexivity|]. right. reflexivity.
  - reflexivity.
  - reflexivity.
Qed.

Lemma tuple_values : forall rnd xs, Forall2 (same_value rnd) xs (map dec_scalar (map (enc_scalar rnd) xs)).
Proof.
  intros rnd xs. induction xs as [|e r IH]; simpl; constructor; [apply same_scalar|exact IH].
Qed.

Lemma strings_values : forall rnd xs, forallb is_str xs = true -> Forall2 (same_value rnd) xs (map ES (map str_id xs)).
Proof.
  intros rnd xs. induction xs as [|e r IH]; simpl; intro H; [constructor|].
  apply andb_prop in H. destruct H as [He Hr]. constructor; [|exact (IH Hr)].
  destruct e; simpl in He; try discriminate. reflexivity.
Qed.

Lemma map_map_elem : forall {A} (g : A -> elem) (f : elem -> A) xs, map g (map f xs) = map (fun e => g (f e)) xs.
Proof. intros. apply map_map. Qed.

(* whatever is written comes back with the same length, the same numbers (a lone number rounded once) and every other
   element as it was -- for every sequence, every mixture of kinds in every order *)
Theorem arg_seq_values : forall rnd k xs k' ys,
  decode (encode rnd k xs) = Some (k', ys) -> Forall2 (same_value rnd) xs ys.
Proof.
  intros rnd k xs k' ys H. unfold encode in H. destruct xs as [|x0 r].
  - simpl in H. injection H as _ <-. constructor.
  - remember (x0 :: r) as xs eqn:Exs.
    destruct (is_list k && is_str x0).
    + destruct (forallb is_str xs) eqn:S.
      * simpl in H. injection H as _ <-. apply strings_values. exact S.
      * simpl in H. injection H as _ <-. apply tuple_values.
    + destruct (scan xs) as [|[|[|n]]] eqn:Sc.
      * simpl in H. injection H as _ <-. rewrite map_map_elem.
        apply Forall2_map_r with (P := fits 0); [apply scan_fits; [exact Sc|lia]|apply same_bool].
      * destruct (forallb int64 (map to_int xs)); [|discriminate H].
        simpl in H. injection H as _ <-. rewrite map_map_elem.
        apply Forall2_map_r with (P := fits 1); [apply scan_fits; [exact Sc|lia]|apply same_int].
      * simpl in H. injection H as _ <-. rewrite map_map_elem.
        apply Forall2_map_r with (P := fits 2); [apply scan_fits; [exact Sc|lia]|apply same_dbl].
      * simpl in H. injection H as _ <-. apply tuple_values.
Qed.

Lemma b2z_int64 : forall b, int64 (b2z b) = true.
Proof. destruct b; reflexivity. Qed.

(* only an integer outside int64 is refused *)
Theorem arg_seq_defined : forall rnd k xs,
  (forall z, In (EI z) xs \/ In (ENI z) xs -> int64 z = true) -> exists r, decode (encode rnd k xs) = Some r.
Proof.
  intros rnd k xs H. unfold encode. destruct xs as [|x0 r].
  - simpl. eexists; reflexivity.
  - remember (x0 :: r) as xs eqn:Exs.
    destruct (is_list k && is_str x0).
    + destruct (forallb is_str xs); simpl; eexists; reflexivity.
    + destruct (scan xs) as [|[|[|n]]] eqn:Sc; try (simpl; eexists; reflexivity).
      assert (A : forallb int64 (map to_int xs) = true).
      { assert (F : Forall (fits 1) xs) by (apply scan_fits; [exact Sc|lia]).
        clear Sc Exs. induction F as [|e t Fe Ft IH]; [reflexivity|].
        simpl. apply andb_true_intro. split.
        - destruct e; simpl in Fe; try lia; try contradiction; simpl; try apply b2z_int64.
          + apply H. left. left. reflexivity.
          + apply H. right. left. reflexivity.
        - apply IH. intros z [Hz|Hz]; apply H; [left|right]; right; exact Hz. }
      rewrite A. simpl. eexists; reflexivity.
Qed.

(* a list comes back as a list *)
Theorem arg_seq_list_kind : forall rnd xs k' ys, decode (encode rnd KList xs) = Some (k', ys) -> k' = KList.
Proof.
  intros rnd xs k' ys H. unfold encode in H. destruct xs as [|x0 r].
  - simpl in H. injection H as <- _. reflexivity.
  - remember (x0 :: r) as xs eqn:Exs.
    destruct (is_list KList && is_str x0).
    + destruct (forallb is_str xs); simpl in H; injection H as <- _; reflexivity.
    + destruct (scan xs) as [|[|[|n]]]; try (simpl in H; injection H as <- _; reflexivity).
      destruct (forallb int64 (map to_int xs)); [|discriminate H].
      simpl in H. injection H as <- _. reflexivity.
Qed.

(* ... but the kind of a numeric tuple (set, frozenset) is lost: the repeated numeric fields have no sequence type *)
Theorem arg_seq_kind_refuted : exists k xs k' ys,
  decode (encode (fun q => q) k xs) = Some (k', ys) /\ k' <> k.
Proof. exists KTuple, [EI 1; EI 2], KList, [EI 1; EI 2]. split; [reflexivity|discriminate]. Qed.

(* picking the field from the leading element alone does not keep the numbers *)
Theorem arg_seq_leading_rule_refuted : exists xs k' ys,
  decode (encode_leading KList xs) = Some (k', ys) /\ ~ Forall2 (same_value (fun q => q)) xs ys.
Proof.
  exists [EI 1; EF (5 # 2)], KList, [EI 1; EI 2]. split; [reflexivity|].
  intro H. inversion H as [|a b la lb Hab Hr]; subst. inversion Hr as [|a2 b2 la2 lb2 Hab2 Hr2]; subst.
  unfold same_value in Hab2. simpl in Hab2. destruct Hab2 as [a' [E C]]. injection E as <-.
  destruct C as [C|C]; compute in C; discriminate C.
Qed.

Example arg_seq_example :
  let id := fun q : Q => q in
  encode id KList [EI 1; EF (5 # 2); EB true] = WDoubles [1 # 1; 5 # 2; 1 # 1]%Q /\
  encode id KList [EB true; EI 3; EB false] = WInts [1; 3; 0] /\
  encode id KTuple [EB true; ENB false] = WBools [true; false] /\
  encode id KList [EI 3; ENB true] = WTuple KList [SFloat (3 # 1); SBool true] /\
  encode id KList [ENI 4; EF (3 # 4)] = WDoubles [4 # 1; 3 # 4]%Q /\
  encode id KList [EF (3 # 4); ENI 4] = WTuple KList [SFloat (3 # 4); SFloat (4 # 1)] /\
  encode id KTuple [ES 7; ES 8] = WTuple KTuple [SStr 7; SStr 8] /\
  encode id KList [ES 7; ES 8] = WStrings [7; 8] /\
  encode id KList [EI (2 ^ 63)] = WRefused /\
  (forall z, In (EI z) [EI 5; EF (1 # 2)] \/ In (ENI z) [EI 5; EF (1 # 2)] -> int64 z = true) /\
  decode (encode id KSet [EI 1; EF (5 # 2)]) = Some (KList, [EF (1 # 1); EF (5 # 2)]).
Proof.
  repeat split; try reflexivity.
  intros z [[H|[H|[]]]|[H|[H|[]]]]; try discriminate H. injection H as <-. reflexivity.
Qed.
