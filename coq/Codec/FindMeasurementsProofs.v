From Coq Require Import ZArith List Bool Lia.
From VF Require Import Codec.PackBits Codec.PackBitsProofs Codec.PackBitsResults Codec.PackBitsResultsProofs
  Codec.FindMeasurements.
Import ListNotations.
Open Scope Z_scope.

(* ---- decidable equality of lists ---- *)
Lemma eqb_list_eq {A} (e : A -> A -> bool) : (forall x y, e x y = true -> x = y) ->
  forall a b, eqb_list e a b = true -> a = b.
Proof.
  intros He. induction a as [|x a IH]; intros [|y b] H; simpl in H; try discriminate; [reflexivity|].
  apply andb_true_iff in H. destruct H as [H1 H2]. rewrite (He x y H1), (IH b H2). reflexivity.
Qed.

Lemma eqb_list_refl {A} (e : A -> A -> bool) : (forall x, e x x = true) -> forall a, eqb_list e a a = true.
Proof. intros He. induction a as [|x a IH]; simpl; [reflexivity|]. rewrite He, IH. reflexivity. Qed.

Lemma compatible_spec o m : compatible o m = true ->
  o_qubits o = m_qubits (x_info m) /\ o_invert o = x_invert m /\ o_tags o = x_tags m.
Proof.
  unfold compatible. intros H. apply andb_true_iff in H. destruct H as [H H3].
  apply andb_true_iff in H. destruct H as [H1 H2].
  apply (eqb_list_eq Z.eqb) in H1; [|intros x y E; apply Z.eqb_eq; exact E].
  apply (eqb_list_eq Bool.eqb) in H2; [|intros x y E; apply eqb_prop; exact E].
  apply (eqb_list_eq Z.eqb) in H3; [|intros x y E; apply Z.eqb_eq; exact E].
  auto.
Qed.

Definition newm (o : mop) : minfox := mkMX (mkM (o_key o) (o_qubits o) 1) (o_invert o) (o_tags o).

(* ---- one step of the loop ---- *)
Lemma add_op_keys o acc acc' : add_op o acc = Some acc' ->
  (In (o_key o) (map x_key acc) /\ map x_key acc' = map x_key acc) \/
  (~ In (o_key o) (map x_key acc) /\ map x_key acc' = map x_key acc ++ [o_key o]).
Proof.
  revert acc'. induction acc as [|m r IH]; intros acc' H; simpl in H.
  - injection H as <-. right. split; [intros []|reflexivity].
  - destruct (x_key m =? o_key o) eqn:E.
    + apply Z.eqb_eq in E. destruct (compatible o m); [|discriminate]. injection H as <-.
      left. split; [left; exact E|reflexivity].
    + apply Z.eqb_neq in E. destruct (add_op o r) as [r'|] eqn:Er; [|discriminate]. injection H as <-.
      destruct (IH r' eq_refl) as [[Hin Hm]|[Hn Hm]].
      * left. split; [right; exact Hin|]. cbn [map]. rewrite Hm. reflexivity.
      * right. split; [intros [Hk|Hk]; [apply E; exact Hk|apply Hn; exact Hk]|]. cbn [map]. rewrite Hm. reflexivity.
Qed.

Lemma add_op_in o acc acc' : NoDup (map x_key acc) -> add_op o acc = Some acc' -> forall m', In m' acc' ->
  (In m' acc /\ x_key m' <> o_key o) \/
  (m' = newm o /\ ~ In (o_key o) (map x_key acc)) \/
  (exists m, In m acc /\ x_key m = o_key o /\ compatible o m = true /\ m' = bump m).
Proof.
  revert acc'. induction acc as [|m r IH]; intros acc' Hnd H m' Hin; simpl in H.
  - injection H as <-. destruct Hin as [<-|[]]. right. left. split; [reflexivity|intros []].
  - inversion Hnd as [|? ? Hm Hnd']; subst. destruct (x_key m =? o_key o) eqn:E.
    + apply Z.eqb_eq in E. destruct (compatible o m) eqn:Ec; [|discriminate]. injection H as <-.
      destruct Hin as [<-|Hin].
      * right. right. exists m. split; [left; reflexivity|]. auto.
      * left. split; [right; exact Hin|]. intros Hk. apply Hm. rewrite E, <- Hk. apply in_map. exact Hin.
    + apply Z.eqb_neq in E. destruct (add_op o r) as [r'|] eqn:Er; [|discriminate]. injection H as <-.
      destruct Hin as [<-|Hin]; [left; split; [left; reflexivity|exact E]|].
      destruct (IH r' Hnd' eq_refl m' Hin) as [[Ha Hb]|[[Ha Hb]|(m0 & Ha & Hb & Hc & Hd)]].
      * left. split; [right; exact Ha|exact Hb].
      * right. left. split; [exact Ha|]. intros [Hk|Hk]; [apply E; exact Hk|apply Hb; exact Hk].
      * right. right. exists m0. split; [right; exact Ha|]. auto.
Qed.

Lemma NoDup_snoc {A} (l : list A) k : NoDup l -> ~ In k l -> NoDup (l ++ [k]).
Proof.
  induction 1 as [|x l Hx Hnd IH]; intros Hk; simpl; [constructor; [intros []|constructor]|].
  constructor.
  - intros Hin. apply in_app_or in Hin. destruct Hin as [Hin|[<-|[]]]; [apply Hx; exact Hin|apply Hk; left; reflexivity].
  - apply IH. intros Hin. apply Hk. right. exact Hin.
Qed.

(* ---- the loop invariant ---- *)
Definition describes (done : list mop) (m : minfox) : Prop :=
  m_instances (x_info m) = length (ops_with_key (x_key m) done) /\
  ops_with_key (x_key m) done <> [] /\
  forall o, In o (ops_with_key (x_key m) done) ->
    o_qubits o = m_qubits (x_info m) /\ o_invert o = x_invert m /\ o_tags o = x_tags m.

Definition Inv (done : list mop) (acc : list minfox) : Prop :=
  NoDup (map x_key acc) /\ (forall m, In m acc -> describes done m) /\
  (forall o, In o done -> In (o_key o) (map x_key acc)).

Lemma ops_with_key_snoc k done o :
  ops_with_key k (done ++ [o]) = ops_with_key k done ++ (if o_key o =? k then [o] else []).
Proof. unfold ops_with_key. rewrite filter_app. reflexivity. Qed.

Lemma add_op_inv o done acc acc' : Inv done acc -> add_op o acc = Some acc' -> Inv (done ++ [o]) acc'.
Proof.
  intros (Hnd & Hdesc & Hcov) H.
  pose proof (add_op_keys o acc acc' H) as Hk.
  split; [|split].
  - destruct Hk as [[_ ->]|[Hn ->]]; [exact Hnd|].
    apply NoDup_snoc; assumption.
  - intros m' Hin. destruct (add_op_in o acc acc' Hnd H m' Hin) as [[Ha Hb]|[[-> Hb]|(m & Ha & Hb & Hc & ->)]].
    + destruct (Hdesc m' Ha) as (D1 & D2 & D3). unfold describes. rewrite ops_with_key_snoc.
      assert (E : (o_key o =? x_key m') = false) by (apply Z.eqb_neq; intros Hx; apply Hb; symmetry; exact Hx).
      rewrite E, app_nil_r. auto.
    + assert (Hnone : ops_with_key (o_key o) done = []).
      { unfold ops_with_key. destruct (filter (fun o0 => o_key o0 =? o_key o) done) as [|o' l] eqn:Ef; [reflexivity|].
        exfalso. assert (Hin' : In o' (filter (fun o0 => o_key o0 =? o_key o) done)) by (rewrite Ef; left; reflexivity).
        apply filter_In in Hin'. destruct Hin' as [Hd Hkk]. apply Z.eqb_eq in Hkk. apply Hb. rewrite <- Hkk. apply Hcov. exact Hd. }
      unfold describes. change (x_key (newm o)) with (o_key o). rewrite ops_with_key_snoc, Hnone, Z.eqb_refl.
      cbn [app length]. split; [reflexivity|]. split; [discriminate|].
      intros o0 [<-|[]]. auto.
    + destruct (Hdesc m Ha) as (D1 & D2 & D3). destruct (compatible_spec o m Hc) as (C1 & C2 & C3).
      unfold describes. change (x_key (bump m)) with (x_key m). rewrite ops_with_key_snoc.
      assert (E : (o_key o =? x_key m) = true) by (apply Z.eqb_eq; symmetry; exact Hb). rewrite E.
      cbn [bump x_info m_instances m_qubits x_invert x_tags]. split; [rewrite app_length, D1; simpl; lia|].
      split; [intros Hx; apply app_eq_nil in Hx; destruct Hx as [_ Hx]; discriminate|].
      intros o0 Hin0. apply in_app_or in Hin0. destruct Hin0 as [Hin0|[<-|[]]]; [apply D3; exact Hin0|auto].
  - intros o0 Hin0. apply in_app_or in Hin0.
    assert (Hsub : forall k, In k (map x_key acc) -> In k (map x_key acc')).
    { intros k Hkin. destruct Hk as [[_ ->]|[_ ->]]; [exact Hkin|apply in_or_app; left; exact Hkin]. }
    destruct Hin0 as [Hin0|[<-|[]]]; [apply Hsub, Hcov; exact Hin0|].
    destruct Hk as [[Hi ->]|[_ ->]]; [exact Hi|apply in_or_app; right; left; reflexivity].
Qed.

Lemma find_from_inv ops : forall done acc res, Inv done acc -> find_from ops acc = Some res -> Inv (done ++ ops) res.
Proof.
  induction ops as [|o r IH]; intros done acc res HI H; simpl in H.
  - injection H as <-. rewrite app_nil_r. exact HI.
  - destruct (o_grid o); [|discriminate]. destruct (add_op o acc) as [acc'|] eqn:Ea; [|discriminate].
    replace (done ++ o :: r) with ((done ++ [o]) ++ r) by (rewrite <- app_assoc; reflexivity).
    apply (IH (done ++ [o]) acc' res); [apply (add_op_inv o done acc acc' HI Ea)|exact H].
Qed.

(* ---- what an accepted program's measurement list says ---- *)
(* one entry per key; the entry of a key counts the operations that write to the key, and EVERY one of them measures
   the entry's qubits in the entry's order, with its invert mask and tags; every measurement has an entry *)
Theorem find_measurements_sound ops ms : find_measurements ops = Some ms ->
  NoDup (map x_key ms) /\ (forall m, In m ms -> describes ops m) /\
  (forall o, In o ops -> exists m, In m ms /\ x_key m = o_key o).
Proof.
  intros H. unfold find_measurements in H.
  assert (I0 : Inv [] []) by (split; [constructor|split; intros ? []]).
  destruct (find_from_inv ops [] [] ms I0 H) as (Hnd & Hd & Hc). cbn [app] in *.
  split; [exact Hnd|]. split; [exact Hd|].
  intros o Hin. specialize (Hc o Hin). apply in_map_iff in Hc. destruct Hc as (m & Hk & Hm). exists m. auto.
Qed.

(* a program whose equal keys are measured alike on grid qubits is accepted *)
Lemma add_op_defined o acc : (forall m, In m acc -> x_key m = o_key o -> compatible o m = true) ->
  exists acc', add_op o acc = Some acc'.
Proof.
  induction acc as [|m r IH]; intros H; simpl; [eexists; reflexivity|].
  destruct (x_key m =? o_key o) eqn:E.
  - apply Z.eqb_eq in E. rewrite (H m (or_introl eq_refl) E). eexists; reflexivity.
  - destruct IH as (r' & ->); [intros m0 Hin; apply H; right; exact Hin|]. eexists; reflexivity.
Qed.

Definition alike (a b : mop) : Prop := o_qubits a = o_qubits b /\ o_invert a = o_invert b /\ o_tags a = o_tags b.

Lemma find_from_defined ops : forall done acc, Inv done acc ->
  (forall a b, In a (done ++ ops) -> In b (done ++ ops) -> o_key a = o_key b -> alike a b) ->
  (forall o, In o ops -> o_grid o = true) -> exists res, find_from ops acc = Some res.
Proof.
  induction ops as [|o r IH]; intros done acc HI Hal Hg; simpl; [eexists; reflexivity|].
  rewrite (Hg o (or_introl eq_refl)).
  destruct (add_op_defined o acc) as (acc' & Ea).
  - intros m Hin Hk. destruct HI as (_ & Hd & _). destruct (Hd m Hin) as (_ & D2 & D3).
    remember (ops_with_key (x_key m) done) as os eqn:Eos. destruct os as [|o' l]; [contradiction|].
    assert (Hin' : In o' (ops_with_key (x_key m) done)) by (rewrite <- Eos; left; reflexivity).
    destruct (D3 o' (or_introl eq_refl)) as (Q1 & Q2 & Q3).
    unfold ops_with_key in Hin'. apply filter_In in Hin'. destruct Hin' as [Hd' Hk']. apply Z.eqb_eq in Hk'.
    destruct (Hal o' o) as (A1 & A2 & A3); [apply in_or_app; left; exact Hd'|apply in_or_app; right; left; reflexivity|congruence|].
    unfold compatible. rewrite <- Q1, <- Q2, <- Q3, A1, A2, A3.
    rewrite !eqb_list_refl; [reflexivity|apply Z.eqb_refl|apply eqb_reflx|apply Z.eqb_refl].
  - rewrite Ea. apply (IH (done ++ [o]) acc').
    + apply (add_op_inv o done acc acc' HI Ea).
    + intros a b Ha Hb. apply Hal; rewrite <- app_assoc in *; assumption.
    + intros o0 Hin. apply Hg. right. exact Hin.
Qed.

Theorem find_measurements_defined ops :
  (forall a b, In a ops -> In b ops -> o_key a = o_key b -> alike a b) ->
  (forall o, In o ops -> o_grid o = true) -> exists ms, find_measurements ops = Some ms.
Proof.
  intros Hal Hg. apply (find_from_defined ops [] []); [split; [constructor|split; intros ? []]|exact Hal|exact Hg].
Qed.

(* ---- every bit of the message is filed under the qubit it was measured on ---- *)
Lemma combine_seq_nth_error {A} (l : list A) : forall s c q, nth_error l c = Some q ->
  In ((s + c)%nat, q) (combine (seq s (length l)) l).
Proof.
  induction l as [|x l IH]; intros s c q H; [destruct c; discriminate|].
  cbn [length seq combine]. destruct c as [|c]; simpl in H.
  - injection H as <-. left. rewrite Nat.add_0_r. reflexivity.
  - right. replace (s + S c)%nat with (S s + c)%nat by lia. apply IH. exact H.
Qed.

(* The simulator's record of a key is data[r][j][c] = what repetition r read on the c-th qubit OF THE j-th OPERATION
   that writes to the key.  For an accepted program, the message made from that record holds, under the id of that
   qubit, exactly that bit at position r * instances + j. *)
Theorem filed_under_measured_qubit ops ms m R data mr :
  find_measurements ops = Some ms -> In m ms -> mr_to_proto R (x_info m) data = Some mr ->
  forall j o, nth_error (ops_with_key (x_key m) ops) j = Some o ->
  forall c q, nth_error (o_qubits o) c = Some q ->
  exists packed, In (q, packed) (mr_qubits mr) /\
    forall r, (r < R)%nat ->
      nth (r * m_instances (x_info m) + j) (unpack_bits packed (R * m_instances (x_info m))) false
      = nth c (nth j (nth r data []) []) false.
Proof.
  intros Hf Hin Hmr j o Hj c q Hc.
  destruct (find_measurements_sound ops ms Hf) as (_ & Hd & _). destruct (Hd m Hin) as (D1 & _ & D3).
  assert (Hjlt : (j < m_instances (x_info m))%nat).
  { rewrite D1. apply nth_error_Some. rewrite Hj. discriminate. }
  destruct (D3 o (nth_error_In _ _ Hj)) as (Q1 & _ & _). rewrite Q1 in Hc.
  unfold mr_to_proto in Hmr.
  destruct (shape_ok data R (m_instances (x_info m)) (length (m_qubits (x_info m)))) eqn:Es; [|discriminate].
  injection Hmr as <-. apply shape_ok_spec in Es. destruct Es as [HR Hall].
  assert (HI : Forall (fun rep => length rep = m_instances (x_info m)) data).
  { eapply Forall_impl; [|exact Hall]. intros rep [Ha _]. exact Ha. }
  exists (pack_bits (column data c)). split.
  - cbn [mr_qubits]. apply in_map_iff. exists (c, q). split; [reflexivity|].
    apply (combine_seq_nth_error (m_qubits (x_info m)) 0 c q Hc).
  - intros r Hr. rewrite <- HR. rewrite <- (column_length data _ c HI), pack_unpack_bits.
    apply column_nth; [exact HI|lia|exact Hjlt].
Qed.

(* hypotheses are satisfiable; and the order of the qubits matters to acceptance *)
Example find_measurements_example :
  let a := mkOp 1 [10; 11] [false; false] [] true in
  let b := mkOp 1 [11; 10] [false; false] [] true in
  find_measurements [a; a] = Some [mkMX (mkM 1 [10; 11] 2) [false; false] []] /\
  find_measurements [a; b] = None /\
  find_measurements [a; mkOp 2 [11; 10] [true; false] [5] true; a] =
    Some [mkMX (mkM 1 [10; 11] 2) [false; false] []; mkMX (mkM 2 [11; 10] 1) [true; false] [5]] /\
  find_measurements [mkOp 1 [10] [false] [] false] = None.
Proof. cbv. repeat split; reflexivity. Qed.
