(* C16 — sweep values with units survive the wire as physical quantities: exactly when the magnitudes are stored
   exactly, and with the same relative error as the rounding of the stored magnitude otherwise, whatever units the
   values were given in. *)
From Coq Require Import ZArith QArith Qabs Qpower List Bool Lia.
From VF Require Import Codec.UnitValues.
Import ListNotations.
Open Scope Q_scope.

Lemma ten_nonzero : ~ (10 # 1) == 0.
Proof. intros H. discriminate H. Qed.

Lemma pow10_plus a b : pow10 (a + b) == pow10 a * pow10 b.
Proof. unfold pow10. apply Qpower_plus. exact ten_nonzero. Qed.

Lemma pow10_pos k : 0 < pow10 k.
Proof. unfold pow10. apply Qpower_0_lt. reflexivity. Qed.

Lemma in_unit_phys v k : in_unit v k * pow10 k == phys v.
Proof.
  unfold in_unit, phys. rewrite <- Qmult_assoc. rewrite <- pow10_plus.
  replace (snd v - k + k)%Z with (snd v) by lia. reflexivity.
Qed.

(* one value: stored in another unit and read back *)
Theorem value_roundtrip_exact v k : phys (in_unit v k, k) == phys v.
Proof.
  assert (E1 : phys (in_unit v k, k) == in_unit v k * pow10 k) by (unfold phys; simpl; reflexivity).
  rewrite E1. apply in_unit_phys.
Qed.

Theorem value_roundtrip_rounded (rnd : Q -> Q) (eps : Q) v k :
  (forall x, Qabs (rnd x - x) <= eps * Qabs x) ->
  Qabs (phys (rnd (in_unit v k), k) - phys v) <= eps * Qabs (phys v).
Proof.
  intros Hr. set (m := in_unit v k).
  assert (E1 : phys (rnd m, k) == rnd m * pow10 k) by (unfold phys; simpl; reflexivity).
  assert (E2 : phys v == m * pow10 k) by (symmetry; apply in_unit_phys).
  rewrite E1, E2.
  setoid_replace (rnd m * pow10 k - m * pow10 k) with ((rnd m - m) * pow10 k) by ring.
  rewrite !Qabs_Qmult. rewrite (Qabs_pos (pow10 k)) by (apply Qlt_le_weak, pow10_pos).
  rewrite Qmult_assoc. apply Qmult_le_compat_r; [apply Hr|apply Qlt_le_weak, pow10_pos].
Qed.

(* a whole list (Linspace end points, Points): position by position *)
Lemma decode_map_exact k l :
  Forall2 (fun v w => phys w == phys v) l (map (fun m => (m, k)) (map (fun v => (fun x => x) (in_unit v k)) l)).
Proof. induction l as [|v l IH]; simpl; constructor; [apply value_roundtrip_exact|exact IH]. Qed.

Theorem encode_decode_exact vs e : encode (fun x => x) vs = Some e ->
  Forall2 (fun v w => phys w == phys v) vs (decode e).
Proof.
  destruct vs as [|v0 r]; [discriminate|]. intros H. injection H as <-.
  exact (decode_map_exact (snd v0) (v0 :: r)).
Qed.

Lemma decode_map_rounded (rnd : Q -> Q) (eps : Q) k l : (forall x, Qabs (rnd x - x) <= eps * Qabs x) ->
  Forall2 (fun v w => Qabs (phys w - phys v) <= eps * Qabs (phys v)) l (map (fun m => (m, k)) (map (fun v => rnd (in_unit v k)) l)).
Proof. intros Hr. induction l as [|v l IH]; simpl; constructor; [apply value_roundtrip_rounded; exact Hr|exact IH]. Qed.

Theorem encode_decode_rounded (rnd : Q -> Q) (eps : Q) vs e :
  (forall x, Qabs (rnd x - x) <= eps * Qabs x) -> encode rnd vs = Some e ->
  Forall2 (fun v w => Qabs (phys w - phys v) <= eps * Qabs (phys v)) vs (decode e).
Proof.
  intros Hr. destruct vs as [|v0 r]; [discriminate|]. intros H. injection H as <-.
  exact (decode_map_rounded rnd eps (snd v0) (v0 :: r) Hr).
Qed.

Theorem encode_length rnd vs ms k : encode rnd vs = Some (ms, k) -> length ms = length vs /\ exists v0 r, vs = v0 :: r /\ k = snd v0.
Proof.
  destruct vs as [|v0 r]; [discriminate|]. intros H. injection H as <- <-. split; [simpl; rewrite map_length; reflexivity|]. exists v0, r. split; reflexivity.
Qed.

(* writing each magnitude as it stands next to the first unit (what merging the branches must not do) loses the value:
   Linspace(500 ns, 2 us) would come back as 500 ns .. 2 ns *)
Theorem magnitudes_as_they_stand_refuted :
  exists vs, ~ Forall2 (fun v w => phys w == phys v) vs (map (fun v => (fst v, snd (hd (0, 0%Z) vs))) vs).
Proof.
  exists [(500 # 1, (-9)%Z); (2 # 1, (-6)%Z)]. intros H. inversion H as [|? ? ? ? _ H2]; subst.
  inversion H2 as [|? ? ? ? H3 _]; subst. vm_compute in H3. discriminate H3.
Qed.

(* hypotheses are satisfiable: the identity rounds with eps = 0, and 500 ns .. 2 us encodes *)
Example rounding_example : (forall x, Qabs ((fun y => y) x - x) <= 0 * Qabs x) /\
  encode (fun x => x) [(500 # 1, (-9)%Z); (2 # 1, (-6)%Z)] = Some ([500 # 1; (2 # 1) * pow10 3], (-9)%Z).
Proof.
  split; [|reflexivity]. intros x. setoid_replace (x - x) with 0 by ring. rewrite Qmult_0_l. discriminate.
Qed.
