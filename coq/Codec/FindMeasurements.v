(* Model of cirq-google/cirq_google/api/v2/results.py : find_measurements, hand-written in the shape of the code.
   Definitions only; proofs are in FindMeasurementsProofs.v.

     measurements: dict[str, MeasureInfo] = {}
     for moment in program:
         for op in moment:
             if isinstance(op.gate, cirq.MeasurementGate):
                 m = MeasureInfo(key, qubits=_grid_qubits(op), instances=1, invert_mask=full_invert_mask, tags=op.tags)
                 prev_m = measurements.get(m.key)
                 if prev_m is None: measurements[m.key] = m
                 else:
                     if m.qubits != prev_m.qubits or m.invert_mask != prev_m.invert_mask or m.tags != prev_m.tags:
                         raise ValueError
                     prev_m.instances += 1
     return list(measurements.values())

   A program is the list of its measurement operations in the order the loop meets them.  Keys, qubit ids and tags are
   Z identifiers; o_grid says whether every qubit of the operation is a GridQubit (_grid_qubits raises otherwise).
   None = the code raises. *)
From Coq Require Import ZArith List Bool.
From VF Require Import Codec.PackBits Codec.PackBitsResults.
Import ListNotations.
Open Scope Z_scope.

Record mop := mkOp { o_key : Z; o_qubits : list Z; o_invert : list bool; o_tags : list Z; o_grid : bool }.
(* MeasureInfo with its invert mask and tags *)
Record minfox := mkMX { x_info : minfo; x_invert : list bool; x_tags : list Z }.
Definition x_key (m : minfox) : Z := m_key (x_info m).

Fixpoint eqb_list {A} (e : A -> A -> bool) (a b : list A) : bool :=
  match a, b with
  | [], [] => true
  | x :: a', y :: b' => e x y && eqb_list e a' b'
  | _, _ => false
  end.

Definition compatible (o : mop) (m : minfox) : bool :=
  eqb_list Z.eqb (o_qubits o) (m_qubits (x_info m)) && eqb_list Bool.eqb (o_invert o) (x_invert m)
  && eqb_list Z.eqb (o_tags o) (x_tags m).

Definition bump (m : minfox) : minfox :=
  mkMX (mkM (x_key m) (m_qubits (x_info m)) (S (m_instances (x_info m)))) (x_invert m) (x_tags m).

(* the dict keeps insertion order; an existing key keeps its place *)
Fixpoint add_op (o : mop) (acc : list minfox) : option (list minfox) :=
  match acc with
  | [] => Some [mkMX (mkM (o_key o) (o_qubits o) 1) (o_invert o) (o_tags o)]
  | m :: r => if x_key m =? o_key o
              then if compatible o m then Some (bump m :: r) else None
              else option_map (cons m) (add_op o r)
  end.

Fixpoint find_from (ops : list mop) (acc : list minfox) : option (list minfox) :=
  match ops with
  | [] => Some acc
  | o :: r => if o_grid o
              then match add_op o acc with None => None | Some acc' => find_from r acc' end
              else None
  end.

Definition find_measurements (ops : list mop) : option (list minfox) := find_from ops [].

(* the measurement operations of a program that write to one key, in program order: instance j of the key *)
Definition ops_with_key (k : Z) (ops : list mop) : list mop := filter (fun o => o_key o =? k) ops.
