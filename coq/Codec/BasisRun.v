(* Model of what a simulator's run records for a circuit that keeps the register in a computational-basis state
   (cirq-core/cirq/sim/simulator_base.py SimulatorBase._run, cirq-core/cirq/sim/simulator.py
   StepResult.sample_measurement_ops with _allow_repeated=True), hand-written in the shape of the code.
   Definitions only; proofs are in BasisRunProofs.v.

   Qids are numbered 0..n-1 and have a dimension each.  An operation either adds an amount to the digit of one
   qid (X on a qubit, the +1 gate on a qudit, any power of them with an integer exponent) or measures a list of
   qids under a key (Z identifiers, numbered by the adapter), reading each digit, a flagged digit inverted
   (invert_mask; on a bit b that is 1 - b). *)
From Coq Require Import ZArith List Bool.
From VF Require Import Base.Harness Codec.ResultViews.
Import ListNotations.
Open Scope Z_scope.

Inductive bop :=
| Shift (q : nat) (amount : Z)
| Meas (k : Z) (qs : list (nat * bool)).
Definition bcircuit := list bop.

Fixpoint set_nth (i : nat) (v : Z) (st : list Z) : list Z :=
  match st, i with
  | [], _ => []
  | _ :: t, O => v :: t
  | x :: t, S j => x :: set_nth j v t
  end.

Definition apply_shift (dims st : list Z) (q : nat) (a : Z) : list Z :=
  set_nth q ((nth q st 0 + a) mod nth q dims 1) st.

(* the digits one measurement reads off a basis state *)
Definition read (st : list Z) (qs : list (nat * bool)) : list Z :=
  map (fun qi : nat * bool => let d := nth (fst qi) st 0 in if snd qi then 1 - d else d) qs.

(* ---- the general path: one walk through the operations per repetition; every measurement appends
   (key, row) to the classical data of that repetition ---- *)
Fixpoint run_once (dims st : list Z) (ops : bcircuit) : list (Z * list Z) :=
  match ops with
  | [] => []
  | Shift q a :: t => run_once dims (apply_shift dims st q a) t
  | Meas k qs :: t => (k, read st qs) :: run_once dims st t
  end.
Definition rows_of (k : Z) (log : list (Z * list Z)) : list (list Z) :=
  flat_map (fun e => if k =? fst e then [snd e] else []) log.
Definition zero_state (dims : list Z) : list Z := repeat 0 (length dims).
(* records[k] : repetitions x instances x qubits *)
Definition general_records (reps : nat) (k : Z) (dims : list Z) (ops : bcircuit) : list (list (list Z)) :=
  map (fun _ => rows_of k (run_once dims (zero_state dims) ops)) (seq 0 reps).

(* ---- the one-shot path, taken when nothing but measurements follows the first measurement: the final
   state is sampled `repetitions` times at once (sample r = the digits of all qids in repetition r), each
   measurement operation cuts its (repetitions x qubits) array out of the sample, the arrays of a key are
   stacked to (instances x repetitions x qubits) and the first two axes are swapped ---- *)
Definition final_state (dims : list Z) (ops : bcircuit) : list Z :=
  fold_left (fun st o => match o with Shift q a => apply_shift dims st q a | Meas _ _ => st end) ops (zero_state dims).
Definition stacked (reps : nat) (k : Z) (sample : nat -> list Z) (ops : bcircuit) : list (list (list Z)) :=
  flat_map (fun o => match o with
                     | Meas k' qs => if k =? k' then [map (fun r => read (sample r) qs) (seq 0 reps)] else []
                     | Shift _ _ => []
                     end) ops.
(* np.array(v).swapaxes(0, 1) of an (instances x repetitions x qubits) stack *)
Definition swapaxes01 (reps : nat) (x : list (list (list Z))) : list (list (list Z)) :=
  map (fun r => map (fun per_instance => nth r per_instance []) x) (seq 0 reps).
Definition one_shot_records (reps : nat) (k : Z) (sample : nat -> list Z) (ops : bcircuit) : list (list (list Z)) :=
  swapaxes01 reps (stacked reps k sample ops).

(* what the documentation says: records[k][rep][inst] = the digits that the inst-th measurement carrying k
   read in repetition rep *)
Definition key_measurements (k : Z) (ops : bcircuit) : list (list (nat * bool)) :=
  flat_map (fun o => match o with Meas k' qs => if k =? k' then [qs] else [] | Shift _ _ => [] end) ops.

(* all measurements terminal: only measurements after the first one *)
Fixpoint only_meas (ops : bcircuit) : bool :=
  match ops with [] => true | Meas _ _ :: t => only_meas t | Shift _ _ :: _ => false end.
Fixpoint terminal (ops : bcircuit) : bool :=
  match ops with [] => true | Shift _ _ :: t => terminal t | Meas _ _ :: t => only_meas t end.

(* keys in the order of their first measurement, and the whole records dict *)
Fixpoint bfirst_keys (ops : bcircuit) (seen : list Z) : list Z :=
  match ops with
  | [] => []
  | Shift _ _ :: t => bfirst_keys t seen
  | Meas k _ :: t => if existsb (Z.eqb k) seen then bfirst_keys t seen else k :: bfirst_keys t (seen ++ [k])
  end.
Definition basis_result (reps : nat) (dims : list Z) (ops : bcircuit) : result :=
  map (fun k => (k, mkRec (length (key_measurements k ops)) (length (hd [] (key_measurements k ops)))
                         (general_records reps k dims ops))) (bfirst_keys ops []).
