From Coq Require Import ZArith List Bool Lia.
From VF Require Import Codec.PackBits.
Import ListNotations.
Open Scope Z_scope.

(* ---- one byte ---- *)
Lemma byte_roundtrip row : length row = 8%nat ->
  rev (unpackbits_byte (packbits_row (rev row))) = row.
Proof.
  intros H.
  destruct row as [|b0 [|b1 [|b2 [|b3 [|b4 [|b5 [|b6 [|b7 [|b8 r]]]]]]]]]; try discriminate H.
  destruct b0, b1, b2, b3, b4, b5, b6, b7; reflexivity.
Qed.

Lemma packbits_row_range_aux row acc : 0 <= acc ->
  acc * 2 ^ Z.of_nat (length row) <= fold_left (fun a (b : bool) => 2 * a + (if b then 1 else 0)) row acc
    < (acc + 1) * 2 ^ Z.of_nat (length row).
Proof.
  revert acc. induction row as [|b r IH]; intros acc Ha.
  - simpl. lia.
  - cbn [fold_left length]. rewrite Nat2Z.inj_succ, Z.pow_succ_r by lia.
    specialize (IH (2 * acc + (if b then 1 else 0))).
    assert (0 <= 2 * acc + (if b then 1 else 0)) as H0 by (destruct b; lia).
    specialize (IH H0). set (p := 2 ^ Z.of_nat (length r)) in *.
    assert (0 < p) by (apply Z.pow_pos_nonneg; lia).
    destruct b; nia.
Qed.

Lemma packbits_row_range row : length row = 8%nat -> 0 <= packbits_row row < 256.
Proof.
  intros H. unfold packbits_row. pose proof (packbits_row_range_aux row 0 ltac:(lia)) as P.
  rewrite H in P. change (2 ^ Z.of_nat 8) with 256 in P. lia.
Qed.

(* ---- reshape ---- *)
Lemma rows8_spec k : forall fuel l, length l = (8 * k)%nat -> (k <= fuel)%nat ->
  concat (rows8 fuel l) = l /\ Forall (fun r => length r = 8%nat) (rows8 fuel l) /\ length (rows8 fuel l) = k.
Proof.
  induction k as [|k IH]; intros fuel l Hl Hf.
  - destruct l; [|discriminate]. destruct fuel; simpl; auto.
  - destruct fuel as [|f]; [lia|].
    destruct l as [|x l']; [simpl in Hl; lia|].
    change (rows8 (S f) (x :: l')) with (firstn 8 (x :: l') :: rows8 f (skipn 8 (x :: l'))).
    remember (x :: l') as l eqn:El. clear El x l'.
    destruct (IH f (skipn 8 l)) as (Hc & Ha & Hn).
    + rewrite skipn_length. lia.
    + lia.
    + cbn [concat]. rewrite Hc, firstn_skipn. split; [reflexivity|]. split.
      * constructor; [|exact Ha]. rewrite firstn_length. lia.
      * cbn [length]. lia.
Qed.

(* ---- padding ---- *)
Lemma pad_len_spec n : exists k, (n + pad_len n = 8 * k)%nat /\ (k <= n)%nat /\ (pad_len n < 8)%nat.
Proof.
  unfold pad_len.
  pose proof (Z.mod_pos_bound (- Z.of_nat n) 8 ltac:(lia)) as Hb.
  pose proof (Z.div_mod (- Z.of_nat n) 8 ltac:(lia)) as Hd.
  set (m := (- Z.of_nat n) mod 8) in *. set (q := (- Z.of_nat n) / 8) in *.
  exists (Z.to_nat (- q)). lia.
Qed.

Lemma padded_length bits : exists k, length (padded bits) = (8 * k)%nat /\ (k <= length bits)%nat.
Proof.
  unfold padded. rewrite app_length, repeat_length.
  destruct (pad_len_spec (length bits)) as (k & H1 & H2 & _). exists k. auto.
Qed.

(* ---- bytes of rows ---- *)
Lemma unpack_all_rows rows : Forall (fun r => length r = 8%nat) rows ->
  unpack_all (map (fun row => packbits_row (rev row)) rows) = concat rows.
Proof.
  induction 1 as [|r rows Hr _ IH]; [reflexivity|].
  unfold unpack_all in *. cbn [map flat_map concat]. rewrite IH, byte_roundtrip by exact Hr. reflexivity.
Qed.

(* the padding bits that reach the wire are zero, and nothing else changes *)
Theorem unpack_all_pack bits : unpack_all (pack_bits bits) = bits ++ repeat false (pad_len (length bits)).
Proof.
  unfold pack_bits. destruct (padded_length bits) as (k & Hk & Hle).
  destruct (rows8_spec k (length bits) (padded bits) Hk Hle) as (Hc & Ha & _).
  rewrite unpack_all_rows by exact Ha. rewrite Hc. reflexivity.
Qed.

Theorem pack_unpack_bits bits : unpack_bits (pack_bits bits) (length bits) = bits.
Proof.
  unfold unpack_bits. rewrite unpack_all_pack.
  rewrite firstn_app, Nat.sub_diag, firstn_all. simpl. apply app_nil_r.
Qed.

(* asking for more repetitions than were packed returns the padded array, never garbage *)
Theorem unpack_bits_prefix bits n : (n <= length bits)%nat ->
  unpack_bits (pack_bits bits) n = firstn n bits.
Proof.
  intros H. unfold unpack_bits. rewrite unpack_all_pack, firstn_app.
  replace (n - length bits)%nat with 0%nat by lia. simpl. apply app_nil_r.
Qed.

Theorem pack_bits_length bits : (8 * length (pack_bits bits) = length bits + pad_len (length bits))%nat.
Proof.
  unfold pack_bits. rewrite map_length. destruct (padded_length bits) as (k & Hk & Hle).
  destruct (rows8_spec k (length bits) (padded bits) Hk Hle) as (_ & _ & Hn). rewrite Hn.
  unfold padded in Hk. rewrite app_length, repeat_length in Hk. lia.
Qed.

Theorem pack_bits_bytes bits : Forall (fun b => 0 <= b < 256) (pack_bits bits).
Proof.
  unfold pack_bits. destruct (padded_length bits) as (k & Hk & Hle).
  destruct (rows8_spec k (length bits) (padded bits) Hk Hle) as (_ & Ha & _).
  induction Ha as [|r rows Hr _ IH]; [constructor|].
  cbn [map]. constructor; [|exact IH]. apply packbits_row_range. rewrite rev_length. exact Hr.
Qed.

(* little-endian in byte: bit i of repetition block j is bit (i mod 8) of byte (i / 8) *)
Theorem pack_bits_bit bits i : (i < length bits)%nat ->
  Z.testbit (nth (i / 8) (pack_bits bits) 0) (Z.of_nat (i mod 8)) = nth i bits false.
Proof.
  intros Hi.
  pose proof (unpack_all_pack bits) as H.
  assert (Hnth : nth i (unpack_all (pack_bits bits)) false = nth i bits false).
  { rewrite H. apply app_nth1. exact Hi. }
  rewrite <- Hnth. clear H Hnth.
  assert (Hlen : (i / 8 < length (pack_bits bits))%nat).
  { pose proof (pack_bits_length bits). apply Nat.div_lt_upper_bound; lia. }
  revert Hlen. generalize (pack_bits bits) as data. clear Hi bits.
  intros data. revert i. induction data as [|b data IH]; intros i Hlen; [simpl in Hlen; lia|].
  unfold unpack_all. cbn [flat_map].
  destruct (Nat.lt_ge_cases i 8) as [Hlt|Hge].
  - rewrite Nat.div_small, Nat.mod_small by exact Hlt. cbn [nth].
    rewrite app_nth1 by (rewrite rev_length; simpl; exact Hlt).
    do 8 (destruct i as [|i]; [reflexivity|]). lia.
  - rewrite app_nth2 by (rewrite rev_length; simpl; exact Hge).
    rewrite rev_length. cbn [unpackbits_byte map length].
    replace i with ((i - 8) + 1 * 8)%nat at 1 2 by lia.
    rewrite Nat.div_add, Nat.mod_add by lia.
    replace ((i - 8) / 8 + 1)%nat with (S ((i - 8) / 8)) by lia. cbn [nth].
    apply IH.
    replace i with ((i - 8) + 1 * 8)%nat in Hlen by lia. rewrite Nat.div_add in Hlen by lia.
    cbn [length] in Hlen. lia.
Qed.
