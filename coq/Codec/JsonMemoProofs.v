(* C11 — proofs about the codec core model (Codec/JsonMemo.v). *)
From Coq Require Import ZArith List Bool String Arith Lia.
From VF Require Import Codec.JsonMemo.
Import ListNotations.
Open Scope string_scope.
Open Scope list_scope.

Scheme value_mind := Induction for value Sort Prop
with vlist_mind := Induction for vlist Sort Prop
with vfields_mind := Induction for vfields Sort Prop.
Combined Scheme value_mutind from value_mind, vlist_mind, vfields_mind.

(* ---------- decidable equality of values ---------- *)
Lemma value_eqb_spec_all :
  (forall a b, value_eqb a b = true <-> a = b) /\
  (forall a b, vlist_eqb a b = true <-> a = b) /\
  (forall a b, vfields_eqb a b = true <-> a = b).
Proof.
  apply value_mutind.
  - intros b; destruct b; simpl; split; intros H; try discriminate; reflexivity.
  - intros z b; destruct b; simpl; split; intros H; try discriminate.
    + apply Z.eqb_eq in H; subst; reflexivity.
    + inversion H; subst; apply Z.eqb_refl.
  - intros s b; destruct b; simpl; split; intros H; try discriminate.
    + apply String.eqb_eq in H; subst; reflexivity.
    + inversion H; subst; apply String.eqb_refl.
  - intros l IH b; destruct b; simpl; split; intros H; try discriminate.
    + apply IH in H; subst; reflexivity.
    + inversion H; subst; apply IH; reflexivity.
  - intros f IH b; destruct b; simpl; split; intros H; try discriminate.
    + apply IH in H; subst; reflexivity.
    + inversion H; subst; apply IH; reflexivity.
  - intros tag f IH b; destruct b; simpl; split; intros H; try discriminate.
    + apply andb_true_iff in H; destruct H as [H1 H2].
      apply String.eqb_eq in H1; apply IH in H2; subst; reflexivity.
    + inversion H; subst; apply andb_true_iff; split; [apply String.eqb_refl|apply IH; reflexivity].
  - intros b; destruct b; simpl; split; intros H; try discriminate; reflexivity.
  - intros v IHv r IHr b; destruct b; simpl; split; intros H; try discriminate.
    + apply andb_true_iff in H; destruct H as [H1 H2].
      apply IHv in H1; apply IHr in H2; subst; reflexivity.
    + inversion H; subst; apply andb_true_iff; split; [apply IHv|apply IHr]; reflexivity.
  - intros b; destruct b; simpl; split; intros H; try discriminate; reflexivity.
  - intros k v IHv r IHr b; destruct b; simpl; split; intros H; try discriminate.
    + apply andb_true_iff in H; destruct H as [H12 H3].
      apply andb_true_iff in H12; destruct H12 as [H1 H2].
      apply String.eqb_eq in H1; apply IHv in H2; apply IHr in H3; subst; reflexivity.
    + inversion H; subst. rewrite String.eqb_refl; simpl.
      apply andb_true_iff; split; [apply IHv|apply IHr]; reflexivity.
Qed.

Lemma value_eqb_eq : forall a b, value_eqb a b = true <-> a = b.
Proof. exact (proj1 value_eqb_spec_all). Qed.

Lemma value_eqb_refl : forall a, value_eqb a a = true.
Proof. intros a; apply value_eqb_eq; reflexivity. Qed.

Lemma opt_value_dec : forall (o : option value) x, o = Some x \/ o <> Some x.
Proof.
  intros [y|] x.
  - destruct (value_eqb y x) eqn:E.
    + apply value_eqb_eq in E; subst; left; reflexivity.
    + right; intros H; inversion H; subst. rewrite value_eqb_refl in E; discriminate.
  - right; discriminate.
Qed.

(* ---------- memo lookup ---------- *)
Lemma find_from_some : forall v M i k, find_from v M i = Some k ->
  i <= k /\ nth_error M (k - i) = Some v.
Proof.
  intros v M; induction M as [|x r IH]; intros i k H; simpl in H; [discriminate|].
  destruct (value_eqb v x) eqn:E.
  - inversion H; subst. apply value_eqb_eq in E; subst. rewrite Nat.sub_diag. split; [lia|reflexivity].
  - apply IH in H. destruct H as [Hle Hn]. split; [lia|].
    replace (k - i) with (S (k - S i)) by lia. exact Hn.
Qed.

Lemma find_idx_some : forall v M k, find_idx v M = Some k -> nth_error M k = Some v.
Proof.
  intros v M k H. apply find_from_some in H. destruct H as [_ H]. rewrite Nat.sub_0_r in H. exact H.
Qed.

Lemma find_from_none : forall v M i, find_from v M i = None -> ~ In v M.
Proof.
  intros v M; induction M as [|x r IH]; intros i H; simpl in *; [tauto|].
  destruct (value_eqb v x) eqn:E; [discriminate|].
  intros [Hx|Hr].
  - subst. rewrite value_eqb_refl in E; discriminate.
  - exact (IH _ H Hr).
Qed.

(* first occurrence: the key of an object is the index of its first (only) memo entry *)
Lemma find_from_first : forall v M i k, find_from v M i = Some k ->
  forall j, j < k - i -> nth_error M j <> Some v.
Proof.
  intros v M; induction M as [|x r IH]; intros i k H j Hj; simpl in H; [discriminate|].
  destruct (value_eqb v x) eqn:E.
  - inversion H; subst. lia.
  - destruct j as [|j]; simpl.
    + intros Hx; inversion Hx; subst. rewrite value_eqb_refl in E; discriminate.
    + apply (IH _ _ H). apply find_from_some in H. lia.
Qed.

(* ---------- field-list facts ---------- *)
Lemma fget_absent : forall k f, fhas k f = false -> fget k f = None.
Proof.
  intros k f; induction f as [|k' v r IH]; simpl; intros H; [reflexivity|].
  apply orb_false_iff in H; destruct H as [H1 H2]. rewrite H1. apply IH; exact H2.
Qed.

Lemma fremove_absent : forall k f, fhas k f = false -> fremove k f = f.
Proof.
  intros k f; induction f as [|k' v r IH]; simpl; intros H; [reflexivity|].
  apply orb_false_iff in H; destruct H as [H1 H2]. rewrite H1. rewrite IH by exact H2. reflexivity.
Qed.

Lemma reserved_false : forall t, reserved t = false ->
  String.eqb t "VAL" = false /\ String.eqb t "REF" = false /\ String.eqb t "_SerializedKey" = false /\
  String.eqb t "_SerializedContext" = false /\ String.eqb t "_ContextualSerialization" = false.
Proof.
  unfold reserved; intros t H.
  repeat (apply orb_false_iff in H; destruct H as [H ?]). repeat split; assumption.
Qed.

(* the hook on a typed dict of a non-reserved class rebuilds the object from the remaining fields *)
Lemma hook_typed : forall tag f S, reserved tag = false -> fhas "cirq_type" f = false ->
  hook (VFCons "cirq_type" (VStr tag) f) S = Some (VObj tag f, S).
Proof.
  intros tag f S Hr Hf. apply reserved_false in Hr. destruct Hr as (H1 & H2 & H3 & H4 & H5).
  unfold hook. simpl fget. cbv beta iota. rewrite H1, H2, H3, H4, H5.
  simpl fremove. rewrite fremove_absent by exact Hf. reflexivity.
Qed.

Lemma hook_plain : forall f S, fhas "cirq_type" f = false -> hook f S = Some (VDict f, S).
Proof. intros f S Hf. unfold hook. rewrite fget_absent by exact Hf. reflexivity. Qed.

(* ---------- the round-trip invariant ---------- *)
Section RoundTrip.
Variable bk : string -> bool.

(* unresolved memo entries (registered by the encoder, not yet by the decoder) are all larger than n *)
Definition pre (n : nat) (M : list value) (S : dstate) : Prop :=
  forall i x, nth_error M i = Some x -> dget (Z.of_nat i) (d_memo S) <> Some x -> n < vsize x.

(* the step M,S ~> M',S' extends the memo, leaves context_map alone and creates no unresolved entry *)
Definition post (M : list value) (S : dstate) (M' : list value) (S' : dstate) : Prop :=
  (exists ext, M' = M ++ ext) /\ d_ctx S' = d_ctx S /\
  forall i x, nth_error M' i = Some x -> dget (Z.of_nat i) (d_memo S') <> Some x ->
              nth_error M i = Some x /\ dget (Z.of_nat i) (d_memo S) <> Some x.

Lemma post_refl : forall M S, post M S M S.
Proof.
  intros M S; split; [exists []; rewrite app_nil_r; reflexivity|]. split; [reflexivity|]. intros i x H1 H2; split; assumption.
Qed.

Lemma post_trans : forall M0 S0 M1 S1 M2 S2, post M0 S0 M1 S1 -> post M1 S1 M2 S2 -> post M0 S0 M2 S2.
Proof.
  intros M0 S0 M1 S1 M2 S2 (E1 & C1 & H1) (E2 & C2 & H2). split; [|split].
  - destruct E1 as [e1 E1], E2 as [e2 E2]. exists (e1 ++ e2). subst. rewrite app_assoc. reflexivity.
  - congruence.
  - intros i x Hn Hd. destruct (H2 i x Hn Hd) as [Hn1 Hd1]. exact (H1 i x Hn1 Hd1).
Qed.

Lemma pre_post : forall n M S M' S', pre n M S -> post M S M' S' -> pre n M' S'.
Proof.
  intros n M S M' S' Hp (_ & _ & H) i x Hn Hd. destruct (H i x Hn Hd) as [Hn0 Hd0]. exact (Hp i x Hn0 Hd0).
Qed.

Lemma pre_le : forall n m M S, m <= n -> pre n M S -> pre m M S.
Proof. intros n m M S Hle Hp i x Hn Hd. specialize (Hp i x Hn Hd). lia. Qed.

Lemma enc_l_eq : forall v r M, enc_l bk (VCons v r) M =
  (JCons (fst (enc bk v M)) (fst (enc_l bk r (snd (enc bk v M)))), snd (enc_l bk r (snd (enc bk v M)))).
Proof. intros v r M; simpl. destruct (enc bk v M) as [j M1]; simpl. destruct (enc_l bk r M1) as [jr M2]; reflexivity. Qed.

Lemma enc_f_eq : forall k v r M, enc_f bk (VFCons k v r) M =
  (JFCons k (fst (enc bk v M)) (fst (enc_f bk r (snd (enc bk v M)))), snd (enc_f bk r (snd (enc bk v M)))).
Proof. intros k v r M; simpl. destruct (enc bk v M) as [j M1]; simpl. destruct (enc_f bk r M1) as [jr M2]; reflexivity. Qed.

Definition P_v (v : value) : Prop := wf v = true -> forall n M S, vsize v <= n -> pre n M S ->
  exists S', dec (fst (enc bk v M)) S = Some (v, S') /\ post M S (snd (enc bk v M)) S'.
Definition P_l (l : vlist) : Prop := wf_l l = true -> forall n M S, lsize l <= n -> pre n M S ->
  exists S', dec_l (fst (enc_l bk l M)) S = Some (l, S') /\ post M S (snd (enc_l bk l M)) S'.
Definition P_f (f : vfields) : Prop := wf_f f = true -> forall n M S, fsize f <= n -> pre n M S ->
  exists S', dec_f (fst (enc_f bk f M)) S = Some (f, S') /\ post M S (snd (enc_f bk f M)) S'.

Lemma roundtrip_all : (forall v, P_v v) /\ (forall l, P_l l) /\ (forall f, P_f f).
Proof.
  apply value_mutind; unfold P_v, P_l, P_f.
  - (* VNull *) intros _ n M S _ _. exists S; split; [reflexivity|apply post_refl].
  - (* VNum *) intros z _ n M S _ _. exists S; split; [reflexivity|apply post_refl].
  - (* VStr *) intros s _ n M S _ _. exists S; split; [reflexivity|apply post_refl].
  - (* VArr *) intros l IH Hwf n M S Hn Hp. simpl in Hwf, Hn.
    destruct (IH Hwf n M S ltac:(lia) Hp) as (S' & Hd & Hpost).
    simpl. destruct (enc_l bk l M) as [jl M'] eqn:E; simpl in *.
    exists S'. rewrite Hd. split; [reflexivity|exact Hpost].
  - (* VDict *) intros f IH Hwf n M S Hn Hp. simpl in Hwf, Hn.
    apply andb_true_iff in Hwf; destruct Hwf as [Hk Hwf]. apply negb_true_iff in Hk.
    destruct (IH Hwf n M S ltac:(lia) Hp) as (S' & Hd & Hpost).
    simpl. destruct (enc_f bk f M) as [jf M'] eqn:E; simpl in *.
    exists S'. rewrite Hd. split; [apply hook_plain; exact Hk|exact Hpost].
  - (* VObj *) intros tag f IH Hwf n M S Hn Hp. simpl in Hwf, Hn.
    apply andb_true_iff in Hwf; destruct Hwf as [Hwf Hwff].
    apply andb_true_iff in Hwf; destruct Hwf as [Hres Hk].
    apply negb_true_iff in Hres. apply negb_true_iff in Hk.
    simpl enc. destruct (bk tag) eqn:Hbk.
    + destruct (find_idx (VObj tag f) M) as [k|] eqn:Hfind.
      * (* later occurrence: REF *)
        apply find_idx_some in Hfind.
        assert (Hres_k : dget (Z.of_nat k) (d_memo S) = Some (VObj tag f)).
        { destruct (opt_value_dec (dget (Z.of_nat k) (d_memo S)) (VObj tag f)) as [Hy|Hnot]; [exact Hy|].
          specialize (Hp k _ Hfind Hnot). simpl in Hp. lia. }
        exists S. split; [|apply post_refl].
        simpl. unfold hook. simpl fget. cbv beta iota. simpl String.eqb. cbv beta iota. rewrite Hres_k. reflexivity.
      * (* first occurrence: VAL *)
        set (v := VObj tag f) in *. set (k := List.length M).
        assert (Hp1 : pre (fsize f) (M ++ [v]) S).
        { intros i x Hnth Hd. destruct (Nat.lt_ge_cases i (List.length M)) as [Hlt|Hge].
          - rewrite nth_error_app1 in Hnth by exact Hlt. specialize (Hp i x Hnth Hd). lia.
          - rewrite nth_error_app2 in Hnth by exact Hge.
            destruct (i - List.length M) as [|m] eqn:Em; simpl in Hnth.
            + inversion Hnth; subst x. unfold v; simpl. lia.
            + destruct m; discriminate. }
        destruct (IH Hwff (fsize f) (M ++ [v]) S (le_n _) Hp1) as (S2 & Hd2 & Hpost2).
        destruct (enc_f bk f (M ++ [v])) as [jf M2] eqn:E; simpl in Hd2, Hpost2.
        exists (mkD ((Z.of_nat k, v) :: d_memo S2) (d_ctx S2)). split.
        { simpl. rewrite Hd2. rewrite hook_typed by assumption. reflexivity. }
        destruct Hpost2 as ([ext Hext] & Hctx & Hun). simpl snd. split; [|split].
        { exists ([v] ++ ext). rewrite Hext. rewrite <- app_assoc. reflexivity. }
        { simpl. exact Hctx. }
        intros i x Hnth Hd. simpl in Hd.
        destruct (Z.eqb (Z.of_nat i) (Z.of_nat k)) eqn:Eik.
        { exfalso. apply Z.eqb_eq in Eik. apply Nat2Z.inj in Eik. subst i.
          rewrite Hext in Hnth. rewrite <- app_assoc in Hnth.
          rewrite nth_error_app2 in Hnth by (unfold k; lia). unfold k in Hnth. rewrite Nat.sub_diag in Hnth.
          simpl in Hnth. inversion Hnth; subst x. apply Hd; reflexivity. }
        { apply Z.eqb_neq in Eik. destruct (Hun i x Hnth Hd) as [Hn1 Hd1]. split; [|exact Hd1].
          assert (i <> k) by (intros ->; apply Eik; reflexivity).
          destruct (Nat.lt_ge_cases i (List.length M)) as [Hlt|Hge].
          - rewrite nth_error_app1 in Hn1 by exact Hlt. exact Hn1.
          - rewrite nth_error_app2 in Hn1 by exact Hge.
            destruct (i - List.length M) as [|m] eqn:Em; [unfold k in *; lia|].
            simpl in Hn1. destruct m; discriminate. }
    + (* ordinary object *)
      destruct (IH Hwff n M S ltac:(lia) Hp) as (S' & Hd & Hpost).
      destruct (enc_f bk f M) as [jf M'] eqn:E; simpl in *.
      exists S'. rewrite Hd. split; [apply hook_typed; assumption|exact Hpost].
  - (* VNil *) intros _ n M S _ _. exists S; split; [reflexivity|apply post_refl].
  - (* VCons *) intros v IHv r IHr Hwf n M S Hn Hp. simpl in Hwf, Hn.
    apply andb_true_iff in Hwf; destruct Hwf as [Hwv Hwr].
    destruct (IHv Hwv n M S ltac:(lia) Hp) as (S1 & Hd1 & Hpost1).
    destruct (IHr Hwr n _ S1 ltac:(lia) (pre_post _ _ _ _ _ Hp Hpost1)) as (S2 & Hd2 & Hpost2).
    rewrite enc_l_eq. simpl fst; simpl snd. exists S2. split.
    + simpl. rewrite Hd1, Hd2. reflexivity.
    + exact (post_trans _ _ _ _ _ _ Hpost1 Hpost2).
  - (* VFNil *) intros _ n M S _ _. exists S; split; [reflexivity|apply post_refl].
  - (* VFCons *) intros k v IHv r IHr Hwf n M S Hn Hp. simpl in Hwf, Hn.
    apply andb_true_iff in Hwf; destruct Hwf as [Hwv Hwr].
    destruct (IHv Hwv n M S ltac:(lia) Hp) as (S1 & Hd1 & Hpost1).
    destruct (IHr Hwr n _ S1 ltac:(lia) (pre_post _ _ _ _ _ Hp Hpost1)) as (S2 & Hd2 & Hpost2).
    rewrite enc_f_eq. simpl fst; simpl snd. exists S2. split.
    + simpl. rewrite Hd1, Hd2. reflexivity.
    + exact (post_trans _ _ _ _ _ _ Hpost1 Hpost2).
Qed.

Theorem json_memo_roundtrip : forall v, wf v = true -> decode (encode bk v) = Some v.
Proof.
  intros v Hwf. unfold decode, encode.
  destruct (proj1 roundtrip_all v Hwf (vsize v) [] dempty (le_n _)) as (S' & Hd & _).
  - intros i x Hn. destruct i; discriminate.
  - rewrite Hd. reflexivity.
Qed.

End RoundTrip.

Lemma NoDup_app_intro_one : forall (A : Type) (M : list A) (x : A), ~ In x M -> NoDup M -> NoDup (M ++ [x]).
Proof.
  intros A M x; induction M as [|y r IH]; intros Hin Hnd; simpl.
  - constructor; [intros []|constructor].
  - inversion Hnd as [|? ? Hy Hr]; subst. constructor.
    + intros Hc. apply in_app_or in Hc. destruct Hc as [Hc|[Hc|[]]]; [exact (Hy Hc)|].
      subst. apply Hin; left; reflexivity.
    + apply IH; [intros Hc; apply Hin; right; exact Hc|exact Hr].
Qed.

(* ---------- sharing: one VAL per distinct by-key object, dense keys, REF after VAL ---------- *)
Section Events.
Variable bk : string -> bool.

Lemma jget_enc_f_absent : forall k f M, fhas k f = false -> jget k (fst (enc_f bk f M)) = None.
Proof.
  intros k f; induction f as [|k' v r IH]; intros M H; [reflexivity|].
  simpl in H. apply orb_false_iff in H; destruct H as [H1 H2].
  rewrite enc_f_eq. simpl. rewrite H1. apply IH; exact H2.
Qed.

Lemma own_event_typed : forall tag jf, reserved tag = false -> own_event (JFCons "cirq_type" (JStr tag) jf) = [].
Proof.
  intros tag jf Hr. apply reserved_false in Hr. destruct Hr as (H1 & H2 & _).
  unfold own_event. simpl jget. destruct (jget "key" jf) as [[| z | | |]|]; try reflexivity.
  rewrite H1, H2. reflexivity.
Qed.

Lemma own_event_val : forall k body,
  own_event (JFCons "cirq_type" (JStr "VAL") (JFCons "key" (JNum k) (JFCons "val" body JFNil))) = [(true, k)].
Proof. reflexivity. Qed.

Lemma own_event_ref : forall k,
  own_event (JFCons "cirq_type" (JStr "REF") (JFCons "key" (JNum k) JFNil)) = [(false, k)].
Proof. reflexivity. Qed.

Lemma own_event_plain : forall f M, fhas "cirq_type" f = false -> own_event (fst (enc_f bk f M)) = [].
Proof. intros f M H. unfold own_event. rewrite jget_enc_f_absent by exact H. reflexivity. Qed.

Lemma val_keys_app : forall a b, val_keys (a ++ b) = val_keys a ++ val_keys b.
Proof. intros a b. unfold val_keys. rewrite filter_app, map_app. reflexivity. Qed.

Lemma zseq_app : forall n s m, zseq s (n + m) = zseq s n ++ zseq (s + n) m.
Proof.
  induction n as [|n IH]; intros s m; simpl.
  - rewrite Nat.add_0_r. reflexivity.
  - rewrite IH. replace (S s + n) with (s + S n) by lia. reflexivity.
Qed.

(* the encoder only appends to the memo *)
Lemma enc_extends_all :
  (forall v M, exists ext, snd (enc bk v M) = M ++ ext) /\
  (forall l M, exists ext, snd (enc_l bk l M) = M ++ ext) /\
  (forall f M, exists ext, snd (enc_f bk f M) = M ++ ext).
Proof.
  apply value_mutind.
  - intros M; exists []; simpl; rewrite app_nil_r; reflexivity.
  - intros z M; exists []; simpl; rewrite app_nil_r; reflexivity.
  - intros s M; exists []; simpl; rewrite app_nil_r; reflexivity.
  - intros l IH M. destruct (IH M) as [e He]. exists e. simpl. destruct (enc_l bk l M); exact He.
  - intros f IH M. destruct (IH M) as [e He]. exists e. simpl. destruct (enc_f bk f M); exact He.
  - intros tag f IH M. simpl. destruct (bk tag).
    + destruct (find_idx (VObj tag f) M).
      * exists []; simpl; rewrite app_nil_r; reflexivity.
      * destruct (IH (M ++ [VObj tag f])) as [e He]. exists ([VObj tag f] ++ e).
        destruct (enc_f bk f (M ++ [VObj tag f])); simpl in *. rewrite He, <- app_assoc. reflexivity.
    + destruct (IH M) as [e He]. exists e. destruct (enc_f bk f M); exact He.
  - intros M; exists []; simpl; rewrite app_nil_r; reflexivity.
  - intros v IHv r IHr M. rewrite enc_l_eq. simpl snd.
    destruct (IHv M) as [e1 H1]. destruct (IHr (snd (enc bk v M))) as [e2 H2].
    exists (e1 ++ e2). rewrite H2, H1, app_assoc. reflexivity.
  - intros M; exists []; simpl; rewrite app_nil_r; reflexivity.
  - intros k v IHv r IHr M. rewrite enc_f_eq. simpl snd.
    destruct (IHv M) as [e1 H1]. destruct (IHr (snd (enc bk v M))) as [e2 H2].
    exists (e1 ++ e2). rewrite H2, H1, app_assoc. reflexivity.
Qed.

Lemma ext_len : forall (M M' ext : list value), M' = M ++ ext -> List.length M' = List.length M + List.length ext.
Proof. intros; subst; apply app_length. Qed.

(* keys are dense: VAL keys appear in document order as |M|, |M|+1, ... *)
Definition K_v (v : value) : Prop := wf v = true -> forall M,
  val_keys (doc_events (fst (enc bk v M))) = zseq (List.length M) (List.length (snd (enc bk v M)) - List.length M).
Definition K_l (l : vlist) : Prop := wf_l l = true -> forall M,
  val_keys (doc_events_l (fst (enc_l bk l M))) = zseq (List.length M) (List.length (snd (enc_l bk l M)) - List.length M).
Definition K_f (f : vfields) : Prop := wf_f f = true -> forall M,
  val_keys (doc_events_f (fst (enc_f bk f M))) = zseq (List.length M) (List.length (snd (enc_f bk f M)) - List.length M).

Lemma dense_seq : forall (M M1 M2 : list value) e1 e2 a b,
  M1 = M ++ e1 -> M2 = M1 ++ e2 ->
  a = zseq (List.length M) (List.length M1 - List.length M) ->
  b = zseq (List.length M1) (List.length M2 - List.length M1) ->
  a ++ b = zseq (List.length M) (List.length M2 - List.length M).
Proof.
  intros M M1 M2 e1 e2 a b H1 H2 Ha Hb. subst.
  repeat rewrite app_length.
  replace (List.length M + List.length e1 + List.length e2 - List.length M) with (List.length e1 + List.length e2) by lia.
  replace (List.length M + List.length e1 - List.length M) with (List.length e1) by lia.
  replace (List.length M + List.length e1 + List.length e2 - (List.length M + List.length e1)) with (List.length e2) by lia.
  rewrite zseq_app. reflexivity.
Qed.

Lemma dense_all : (forall v, K_v v) /\ (forall l, K_l l) /\ (forall f, K_f f).
Proof.
  apply value_mutind; unfold K_v, K_l, K_f.
  - intros _ M; simpl. rewrite Nat.sub_diag; reflexivity.
  - intros z _ M; simpl. rewrite Nat.sub_diag; reflexivity.
  - intros s _ M; simpl. rewrite Nat.sub_diag; reflexivity.
  - intros l IH Hwf M. simpl in Hwf. specialize (IH Hwf M). simpl.
    destruct (enc_l bk l M) as [jl M']; simpl in *. exact IH.
  - intros f IH Hwf M. simpl in Hwf. apply andb_true_iff in Hwf; destruct Hwf as [Hk Hwf].
    apply negb_true_iff in Hk. specialize (IH Hwf M). pose proof (own_event_plain f M Hk) as Hoe. simpl.
    destruct (enc_f bk f M) as [jf M']; simpl in *. rewrite Hoe. simpl. exact IH.
  - intros tag f IH Hwf M. simpl in Hwf.
    apply andb_true_iff in Hwf; destruct Hwf as [Hwf Hwff].
    apply andb_true_iff in Hwf; destruct Hwf as [Hres Hk].
    apply negb_true_iff in Hres. apply negb_true_iff in Hk.
    simpl enc. destruct (bk tag) eqn:Hbk.
    + destruct (find_idx (VObj tag f) M) as [k|] eqn:Hfind.
      * simpl. rewrite Nat.sub_diag. reflexivity.
      * specialize (IH Hwff (M ++ [VObj tag f])).
        destruct (proj2 (proj2 enc_extends_all) f (M ++ [VObj tag f])) as [e He].
        destruct (enc_f bk f (M ++ [VObj tag f])) as [jf M2]; simpl in IH, He.
        simpl fst; simpl snd. unfold val_json, typed_json.
        cbn [doc_events doc_events_f]. rewrite own_event_val.
        rewrite (own_event_typed tag jf Hres). simpl app. rewrite app_nil_r.
        unfold val_keys at 1. simpl filter. simpl map. fold (val_keys (doc_events_f jf)).
        rewrite IH. rewrite He. repeat rewrite app_length. simpl List.length.
        replace (List.length M + 1 + List.length e - (List.length M + 1)) with (List.length e) by lia.
        replace (List.length M + 1 + List.length e - List.length M) with (S (List.length e)) by lia.
        simpl zseq. replace (List.length M + 1) with (S (List.length M)) by lia. reflexivity.
    + specialize (IH Hwff M). simpl.
      destruct (enc_f bk f M) as [jf M']; simpl in *.
      rewrite (own_event_typed tag jf Hres). simpl. exact IH.
  - intros _ M; simpl. rewrite Nat.sub_diag; reflexivity.
  - intros v IHv r IHr Hwf M. simpl in Hwf. apply andb_true_iff in Hwf; destruct Hwf as [Hwv Hwr].
    rewrite enc_l_eq. simpl fst; simpl snd. simpl doc_events_l. rewrite val_keys_app.
    destruct (proj1 enc_extends_all v M) as [e1 H1].
    destruct (proj1 (proj2 enc_extends_all) r (snd (enc bk v M))) as [e2 H2].
    exact (dense_seq _ _ _ _ _ _ _ H1 H2 (IHv Hwv M) (IHr Hwr _)).
  - intros _ M; simpl. rewrite Nat.sub_diag; reflexivity.
  - intros k v IHv r IHr Hwf M. simpl in Hwf. apply andb_true_iff in Hwf; destruct Hwf as [Hwv Hwr].
    rewrite enc_f_eq. simpl fst; simpl snd. simpl doc_events_f. rewrite val_keys_app.
    destruct (proj1 enc_extends_all v M) as [e1 H1].
    destruct (proj2 (proj2 enc_extends_all) r (snd (enc bk v M))) as [e2 H2].
    exact (dense_seq _ _ _ _ _ _ _ H1 H2 (IHv Hwv M) (IHr Hwr _)).
Qed.

Theorem keys_dense : forall v, wf v = true ->
  val_keys (doc_events (encode bk v)) = zseq 0 (n_keys bk v).
Proof.
  intros v Hwf. unfold encode, n_keys, encode_memo.
  rewrite (proj1 dense_all v Hwf []). simpl List.length. rewrite Nat.sub_0_r. reflexivity.
Qed.

(* the memo never holds one object twice: one VAL per distinct by-key object *)
Lemma nodup_all :
  (forall v M, NoDup M -> NoDup (snd (enc bk v M))) /\
  (forall l M, NoDup M -> NoDup (snd (enc_l bk l M))) /\
  (forall f M, NoDup M -> NoDup (snd (enc_f bk f M))).
Proof.
  apply value_mutind.
  - intros M H; exact H.
  - intros z M H; exact H.
  - intros s M H; exact H.
  - intros l IH M H. simpl. specialize (IH M H). destruct (enc_l bk l M); exact IH.
  - intros f IH M H. simpl. specialize (IH M H). destruct (enc_f bk f M); exact IH.
  - intros tag f IH M H. simpl. destruct (bk tag).
    + destruct (find_idx (VObj tag f) M) eqn:Hfind; [exact H|].
      assert (Hnd : NoDup (M ++ [VObj tag f])).
      { apply find_from_none in Hfind. apply NoDup_app_intro_one; assumption. }
      specialize (IH _ Hnd). destruct (enc_f bk f (M ++ [VObj tag f])); exact IH.
    + specialize (IH M H). destruct (enc_f bk f M); exact IH.
  - intros M H; exact H.
  - intros v IHv r IHr M H. rewrite enc_l_eq. simpl. apply IHr, IHv, H.
  - intros M H; exact H.
  - intros k v IHv r IHr M H. rewrite enc_f_eq. simpl. apply IHr, IHv, H.
Qed.
End Events.

(* ---------- every REF is preceded, in hook order, by the completed VAL of the same key ---------- *)
Section Refs.
Variable bk : string -> bool.

Definition rpre (n : nat) (M : list value) (done : list Z) : Prop :=
  forall i x, nth_error M i = Some x -> ~ In (Z.of_nat i) done -> n < vsize x.
Definition rpost (M : list value) (done : list Z) (M' : list value) (done' : list Z) : Prop :=
  forall i x, nth_error M' i = Some x -> ~ In (Z.of_nat i) done' ->
              nth_error M i = Some x /\ ~ In (Z.of_nat i) done.

Lemma rpost_refl : forall M d, rpost M d M d.
Proof. intros M d i x H1 H2; split; assumption. Qed.
Lemma rpost_trans : forall M0 d0 M1 d1 M2 d2, rpost M0 d0 M1 d1 -> rpost M1 d1 M2 d2 -> rpost M0 d0 M2 d2.
Proof. intros M0 d0 M1 d1 M2 d2 H1 H2 i x Hn Hd. destruct (H2 i x Hn Hd) as [A B]. exact (H1 i x A B). Qed.
Lemma rpre_post : forall n M d M' d', rpre n M d -> rpost M d M' d' -> rpre n M' d'.
Proof. intros n M d M' d' Hp H i x Hn Hd. destruct (H i x Hn Hd) as [A B]. exact (Hp i x A B). Qed.

Lemma existsb_in : forall k done, In k done -> existsb (Z.eqb k) done = true.
Proof. intros k done H. apply existsb_exists. exists k. split; [exact H|apply Z.eqb_refl]. Qed.

Definition R_v (v : value) : Prop := wf v = true -> forall n M done, vsize v <= n -> rpre n M done ->
  exists done', (forall rest, refs_ok done (hook_events (fst (enc bk v M)) ++ rest) = refs_ok done' rest)
                /\ rpost M done (snd (enc bk v M)) done'.
Definition R_l (l : vlist) : Prop := wf_l l = true -> forall n M done, lsize l <= n -> rpre n M done ->
  exists done', (forall rest, refs_ok done (hook_events_l (fst (enc_l bk l M)) ++ rest) = refs_ok done' rest)
                /\ rpost M done (snd (enc_l bk l M)) done'.
Definition R_f (f : vfields) : Prop := wf_f f = true -> forall n M done, fsize f <= n -> rpre n M done ->
  exists done', (forall rest, refs_ok done (hook_events_f (fst (enc_f bk f M)) ++ rest) = refs_ok done' rest)
                /\ rpost M done (snd (enc_f bk f M)) done'.

Lemma refs_all : (forall v, R_v v) /\ (forall l, R_l l) /\ (forall f, R_f f).
Proof.
  apply value_mutind; unfold R_v, R_l, R_f.
  - intros _ n M d _ _. exists d; split; [reflexivity|apply rpost_refl].
  - intros z _ n M d _ _. exists d; split; [reflexivity|apply rpost_refl].
  - intros s _ n M d _ _. exists d; split; [reflexivity|apply rpost_refl].
  - intros l IH Hwf n M d Hn Hp. simpl in Hwf, Hn.
    destruct (IH Hwf n M d ltac:(lia) Hp) as (d' & Hr & Hpost).
    simpl. destruct (enc_l bk l M) as [jl M']; simpl in *. exists d'. split; assumption.
  - intros f IH Hwf n M d Hn Hp. simpl in Hwf, Hn.
    apply andb_true_iff in Hwf; destruct Hwf as [Hk Hwf]. apply negb_true_iff in Hk.
    destruct (IH Hwf n M d ltac:(lia) Hp) as (d' & Hr & Hpost).
    pose proof (own_event_plain bk f M Hk) as Hoe.
    simpl. destruct (enc_f bk f M) as [jf M']; simpl in *. exists d'. split; [|exact Hpost].
    intros rest. rewrite Hoe, app_nil_r. apply Hr.
  - intros tag f IH Hwf n M d Hn Hp. simpl in Hwf, Hn.
    apply andb_true_iff in Hwf; destruct Hwf as [Hwf Hwff].
    apply andb_true_iff in Hwf; destruct Hwf as [Hres Hk].
    apply negb_true_iff in Hres. apply negb_true_iff in Hk.
    simpl enc. destruct (bk tag) eqn:Hbk.
    + destruct (find_idx (VObj tag f) M) as [k|] eqn:Hfind.
      * apply find_idx_some in Hfind.
        assert (Hin : In (Z.of_nat k) d).
        { destruct (in_dec Z.eq_dec (Z.of_nat k) d) as [Hy|Hnot]; [exact Hy|].
          specialize (Hp k _ Hfind Hnot). simpl in Hp. lia. }
        exists d. split; [|apply rpost_refl]. intros rest.
        simpl fst. unfold ref_json. cbn [hook_events hook_events_f]. rewrite own_event_ref.
        simpl app. simpl refs_ok. rewrite (existsb_in _ _ Hin). reflexivity.
      * set (v := VObj tag f) in *. set (k := List.length M).
        assert (Hp1 : rpre (fsize f) (M ++ [v]) d).
        { intros i x Hnth Hd. destruct (Nat.lt_ge_cases i (List.length M)) as [Hlt|Hge].
          - rewrite nth_error_app1 in Hnth by exact Hlt. specialize (Hp i x Hnth Hd). lia.
          - rewrite nth_error_app2 in Hnth by exact Hge.
            destruct (i - List.length M) as [|m] eqn:Em; simpl in Hnth.
            + inversion Hnth; subst x. unfold v; simpl. lia.
            + destruct m; discriminate. }
        destruct (IH Hwff (fsize f) (M ++ [v]) d (le_n _) Hp1) as (d2 & Hr2 & Hpost2).
        destruct (proj2 (proj2 (enc_extends_all bk)) f (M ++ [v])) as [ext Hext].
        destruct (enc_f bk f (M ++ [v])) as [jf M2] eqn:E; simpl in Hr2, Hpost2, Hext.
        exists (Z.of_nat k :: d2). split.
        { intros rest. simpl fst. unfold val_json, typed_json. cbn [hook_events hook_events_f].
          rewrite own_event_val. rewrite (own_event_typed tag jf Hres).
          simpl app. rewrite !app_nil_r. rewrite <- app_assoc. rewrite Hr2. reflexivity. }
        simpl snd. intros i x Hnth Hd.
        destruct (Nat.eq_dec i k) as [->|Hik].
        { exfalso. apply Hd. left; reflexivity. }
        assert (Hd2 : ~ In (Z.of_nat i) d2) by (intros Hc; apply Hd; right; exact Hc).
        destruct (Hpost2 i x Hnth Hd2) as [Hn1 Hd1]. split; [|exact Hd1].
        destruct (Nat.lt_ge_cases i (List.length M)) as [Hlt|Hge].
        { rewrite nth_error_app1 in Hn1 by exact Hlt. exact Hn1. }
        { rewrite nth_error_app2 in Hn1 by exact Hge.
          destruct (i - List.length M) as [|m] eqn:Em; [unfold k in *; lia|].
          simpl in Hn1. destruct m; discriminate. }
    + destruct (IH Hwff n M d ltac:(lia) Hp) as (d' & Hr & Hpost).
      destruct (enc_f bk f M) as [jf M'] eqn:E; simpl in *.
      exists d'. split; [|exact Hpost]. intros rest.
      rewrite (own_event_typed tag jf Hres), app_nil_r. apply Hr.
  - intros _ n M d _ _. exists d; split; [reflexivity|apply rpost_refl].
  - intros v IHv r IHr Hwf n M d Hn Hp. simpl in Hwf, Hn.
    apply andb_true_iff in Hwf; destruct Hwf as [Hwv Hwr].
    destruct (IHv Hwv n M d ltac:(lia) Hp) as (d1 & Hr1 & Hpost1).
    destruct (IHr Hwr n _ d1 ltac:(lia) (rpre_post _ _ _ _ _ Hp Hpost1)) as (d2 & Hr2 & Hpost2).
    rewrite enc_l_eq. simpl fst; simpl snd. exists d2. split.
    + intros rest. simpl. rewrite <- app_assoc, Hr1, Hr2. reflexivity.
    + exact (rpost_trans _ _ _ _ _ _ Hpost1 Hpost2).
  - intros _ n M d _ _. exists d; split; [reflexivity|apply rpost_refl].
  - intros k v IHv r IHr Hwf n M d Hn Hp. simpl in Hwf, Hn.
    apply andb_true_iff in Hwf; destruct Hwf as [Hwv Hwr].
    destruct (IHv Hwv n M d ltac:(lia) Hp) as (d1 & Hr1 & Hpost1).
    destruct (IHr Hwr n _ d1 ltac:(lia) (rpre_post _ _ _ _ _ Hp Hpost1)) as (d2 & Hr2 & Hpost2).
    rewrite enc_f_eq. simpl fst; simpl snd. exists d2. split.
    + intros rest. simpl. rewrite <- app_assoc, Hr1, Hr2. reflexivity.
    + exact (rpost_trans _ _ _ _ _ _ Hpost1 Hpost2).
Qed.

Theorem ref_after_val : forall v, wf v = true -> refs_ok [] (hook_events (encode bk v)) = true.
Proof.
  intros v Hwf. unfold encode.
  destruct (proj1 refs_all v Hwf (vsize v) [] [] (le_n _)) as (d' & Hr & _).
  - intros i x Hn. destruct i; discriminate.
  - specialize (Hr []). rewrite app_nil_r in Hr. rewrite Hr. reflexivity.
Qed.
End Refs.

(* what refs_ok means *)
Lemma refs_ok_sound : forall evs done, refs_ok done evs = true ->
  forall pre k post, evs = pre ++ (false, k) :: post -> In k done \/ In (true, k) pre.
Proof.
  induction evs as [|[b k0] r IH]; intros done H pre k post E.
  - destruct pre; discriminate.
  - destruct pre as [|e pre'].
    + simpl in E. inversion E; subst. simpl in H. apply andb_true_iff in H. destruct H as [H _].
      apply existsb_exists in H. destruct H as (y & Hy & Hey). apply Z.eqb_eq in Hey. subst. left; exact Hy.
    + simpl in E. inversion E; subst. destruct b; simpl in H.
      * destruct (IH _ H pre' k post eq_refl) as [[Hk|Hk]|Hk].
        { subst. right; left; reflexivity. }
        { left; exact Hk. }
        { right; right; exact Hk. }
      * apply andb_true_iff in H. destruct H as [_ H].
        destruct (IH _ H pre' k post eq_refl) as [Hk|Hk]; [left; exact Hk|right; right; exact Hk].
Qed.

(* ---------- value equality through canonical forms ---------- *)
Lemma periodic_eqb_spec : forall a b, periodic_eqb a b = true <->
  periodic_canon (fst a) (snd a) = periodic_canon (fst b) (snd b).
Proof.
  intros [va pa] [vb pb]; unfold periodic_eqb, periodic_canon; simpl. split.
  - intros H. apply andb_true_iff in H. destruct H as [H1 H2].
    apply Z.eqb_eq in H1. apply Z.eqb_eq in H2. subst. rewrite H1. reflexivity.
  - intros H. inversion H as [[H1 H2]]. subst. rewrite H1, !Z.eqb_refl. reflexivity.
Qed.

Theorem periodic_eq_hash : forall (h : Z * Z -> Z) a b,
  periodic_eqb a b = true -> periodic_hash h a = periodic_hash h b.
Proof. intros h a b H. apply periodic_eqb_spec in H. unfold periodic_hash. rewrite H. reflexivity. Qed.

(* values that differ by a multiple of the period are equal (so they hash alike) *)
Theorem periodic_shift_eq : forall value period n, period <> 0%Z ->
  periodic_eqb (value + n * period, period)%Z (value, period) = true.
Proof.
  intros value period n Hp. apply periodic_eqb_spec. unfold periodic_canon; simpl.
  rewrite Z.mod_add by exact Hp. reflexivity.
Qed.

(* the stored value is already canonical: re-wrapping changes nothing *)
Theorem periodic_canon_idem : forall value period, period <> 0%Z ->
  periodic_canon (fst (periodic_canon value period)) period = periodic_canon value period.
Proof. intros value period Hp. unfold periodic_canon; simpl. rewrite Z.mod_mod by exact Hp. reflexivity. Qed.

Theorem value_eq_hash : forall (C V : Type) (ceq : C -> C -> bool) (veq : V -> V -> bool) (h : C * V -> Z),
  (forall x y, ceq x y = true -> x = y) -> (forall x y, veq x y = true -> x = y) ->
  forall a b, ve_eqb ceq veq a b = true -> ve_hash h a = ve_hash h b.
Proof.
  intros C V ceq veq h Hc Hv [ca va] [cb vb] H. unfold ve_eqb in H; simpl in H.
  apply andb_true_iff in H. destruct H as [H1 H2]. apply Hc in H1. apply Hv in H2. subst. reflexivity.
Qed.

(* ---------- strict total orders given by boolean tests ---------- *)
Record sto {A : Type} (ltb eqb : A -> A -> bool) : Prop := mkSto {
  sto_eq : forall a b, eqb a b = true <-> a = b;
  sto_irrefl : forall a, ltb a a = false;
  sto_trans : forall a b c, ltb a b = true -> ltb b c = true -> ltb a c = true;
  sto_total : forall a b, ltb a b = true \/ a = b \/ ltb b a = true }.

Lemma sto_asym : forall A (ltb eqb : A -> A -> bool), sto ltb eqb ->
  forall a b, ltb a b = true -> ltb b a = false.
Proof.
  intros A ltb eqb H a b Hab. destruct (ltb b a) eqn:Hba; [|reflexivity].
  pose proof (sto_trans _ _ H a b a Hab Hba) as Haa. rewrite (sto_irrefl _ _ H) in Haa. discriminate.
Qed.

Lemma sto_eq_refl : forall A (ltb eqb : A -> A -> bool), sto ltb eqb -> forall a, eqb a a = true.
Proof. intros A ltb eqb H a. apply (sto_eq _ _ H). reflexivity. Qed.

Lemma sto_lt_neq : forall A (ltb eqb : A -> A -> bool), sto ltb eqb ->
  forall a b, ltb a b = true -> eqb a b = false.
Proof.
  intros A ltb eqb H a b Hab. destruct (eqb a b) eqn:E; [|reflexivity].
  apply (sto_eq _ _ H) in E. subst. rewrite (sto_irrefl _ _ H) in Hab. discriminate.
Qed.

Lemma sto_prod : forall A B (ltA eqA : A -> A -> bool) (ltB eqB : B -> B -> bool),
  sto ltA eqA -> sto ltB eqB -> sto (lexp ltA eqA ltB) (eqp eqA eqB).
Proof.
  intros A B ltA eqA ltB eqB HA HB. constructor.
  - intros [a1 a2] [b1 b2]; unfold eqp; simpl. split.
    + intros H. apply andb_true_iff in H. destruct H as [H1 H2].
      apply (sto_eq _ _ HA) in H1. apply (sto_eq _ _ HB) in H2. subst. reflexivity.
    + intros H. inversion H; subst. rewrite (sto_eq_refl _ _ _ HA), (sto_eq_refl _ _ _ HB). reflexivity.
  - intros [a1 a2]; unfold lexp; simpl.
    rewrite (sto_irrefl _ _ HA), (sto_irrefl _ _ HB), andb_false_r. reflexivity.
  - intros [a1 a2] [b1 b2] [c1 c2]; unfold lexp; simpl. intros H1 H2.
    apply orb_true_iff in H1. apply orb_true_iff in H2. apply orb_true_iff.
    destruct H1 as [H1|H1]; destruct H2 as [H2|H2].
    + left. exact (sto_trans _ _ HA _ _ _ H1 H2).
    + apply andb_true_iff in H2. destruct H2 as [E _]. apply (sto_eq _ _ HA) in E. subst. left; exact H1.
    + apply andb_true_iff in H1. destruct H1 as [E _]. apply (sto_eq _ _ HA) in E. subst. left; exact H2.
    + apply andb_true_iff in H1. destruct H1 as [E1 L1]. apply andb_true_iff in H2. destruct H2 as [E2 L2].
      apply (sto_eq _ _ HA) in E1. apply (sto_eq _ _ HA) in E2. subst. right.
      rewrite (sto_eq_refl _ _ _ HA). simpl. exact (sto_trans _ _ HB _ _ _ L1 L2).
  - intros [a1 a2] [b1 b2]; unfold lexp; simpl.
    destruct (sto_total _ _ HA a1 b1) as [H|[H|H]].
    + left. rewrite H. reflexivity.
    + subst. rewrite (sto_irrefl _ _ HA), (sto_eq_refl _ _ _ HA). simpl.
      destruct (sto_total _ _ HB a2 b2) as [H|[H|H]].
      * left; exact H.
      * subst. right; left; reflexivity.
      * right; right; exact H.
    + right; right. rewrite H. reflexivity.
Qed.

Lemma sto_Z : sto Z.ltb Z.eqb.
Proof.
  constructor.
  - intros a b; apply Z.eqb_eq.
  - intros a; apply Z.ltb_irrefl.
  - intros a b c H1 H2. apply Z.ltb_lt in H1. apply Z.ltb_lt in H2. apply Z.ltb_lt. lia.
  - intros a b. destruct (Z.lt_trichotomy a b) as [H|[H|H]].
    + left; apply Z.ltb_lt; exact H.
    + right; left; exact H.
    + right; right; apply Z.ltb_lt; exact H.
Qed.

Lemma zlist_eqb_eq : forall a b, zlist_eqb a b = true <-> a = b.
Proof.
  induction a as [|x r IH]; intros [|y s]; simpl; split; intros H; try discriminate; try reflexivity.
  - apply andb_true_iff in H. destruct H as [H1 H2]. apply Z.eqb_eq in H1. apply IH in H2. subst. reflexivity.
  - inversion H; subst. rewrite Z.eqb_refl. simpl. apply IH. reflexivity.
Qed.

Lemma sto_lex : sto lex_ltb zlist_eqb.
Proof.
  constructor.
  - exact zlist_eqb_eq.
  - induction a as [|x r IH]; simpl; [reflexivity|].
    rewrite Z.ltb_irrefl, Z.eqb_refl, IH. reflexivity.
  - induction a as [|x r IH]; intros [|y s] [|z t]; simpl; intros H1 H2; try discriminate; try reflexivity.
    apply orb_true_iff in H1. apply orb_true_iff in H2. apply orb_true_iff.
    destruct H1 as [H1|H1]; destruct H2 as [H2|H2].
    + left. apply Z.ltb_lt in H1. apply Z.ltb_lt in H2. apply Z.ltb_lt. lia.
    + apply andb_true_iff in H2. destruct H2 as [E _]. apply Z.eqb_eq in E. subst. left; exact H1.
    + apply andb_true_iff in H1. destruct H1 as [E _]. apply Z.eqb_eq in E. subst. left; exact H2.
    + apply andb_true_iff in H1. destruct H1 as [E1 L1]. apply andb_true_iff in H2. destruct H2 as [E2 L2].
      apply Z.eqb_eq in E1. apply Z.eqb_eq in E2. subst. right. rewrite Z.eqb_refl. simpl.
      exact (IH _ _ L1 L2).
  - induction a as [|x r IH]; intros [|y s]; simpl.
    + right; left; reflexivity.
    + left; reflexivity.
    + right; right; reflexivity.
    + destruct (Z.lt_trichotomy x y) as [H|[H|H]].
      * left. apply Z.ltb_lt in H. rewrite H. reflexivity.
      * subst. rewrite Z.ltb_irrefl, Z.eqb_refl. simpl.
        destruct (IH s) as [H|[H|H]].
        { left; exact H. }
        { subst. right; left; reflexivity. }
        { right; right; exact H. }
      * right; right. apply Z.ltb_lt in H. rewrite H. reflexivity.
Qed.

(* ---------- Qid._cmp_tuple ---------- *)
Definition ck (a : qid) : list Z * (list Z * (list Z * Z)) := (q_tname a, (q_trepr a, (q_key a, q_dim a))).
Definition ck_ltb := lexp lex_ltb zlist_eqb (lexp lex_ltb zlist_eqb (lexp lex_ltb zlist_eqb Z.ltb)).
Definition ck_eqb := eqp zlist_eqb (eqp zlist_eqb (eqp zlist_eqb Z.eqb)).

Lemma sto_ck : sto ck_ltb ck_eqb.
Proof. repeat apply sto_prod; first [exact sto_lex | exact sto_Z]. Qed.

Lemma cmp_ltb_ck : forall a b, cmp_ltb a b = ck_ltb (ck a) (ck b).
Proof. reflexivity. Qed.

Lemma cmp_eqb_ck : forall a b, cmp_eqb a b = ck_eqb (ck a) (ck b).
Proof. intros a b. unfold cmp_eqb, ck_eqb, eqp, ck; simpl. rewrite !andb_assoc. reflexivity. Qed.

Theorem qid_order_total : forall a b c : qid,
  (cmp_ltb a b = true \/ cmp_eqb a b = true \/ cmp_ltb b a = true) /\
  (cmp_ltb a b = true -> cmp_ltb b a = false /\ cmp_eqb a b = false) /\
  (cmp_eqb a b = true <-> ck a = ck b) /\
  (cmp_ltb a a = false) /\
  (cmp_ltb a b = true -> cmp_ltb b c = true -> cmp_ltb a c = true).
Proof.
  intros a b c. rewrite !cmp_ltb_ck, !cmp_eqb_ck. pose proof sto_ck as H. repeat split.
  - destruct (sto_total _ _ H (ck a) (ck b)) as [L|[E|G]].
    + left; exact L.
    + right; left. apply (sto_eq _ _ H). exact E.
    + right; right; exact G.
  - exact (sto_asym _ _ _ H _ _ H0).
  - exact (sto_lt_neq _ _ _ H _ _ H0).
  - apply (sto_eq _ _ H).
  - apply (sto_eq _ _ H).
  - apply (sto_irrefl _ _ H).
  - apply (sto_trans _ _ H).
Qed.

(* ---------- the order the qubit classes implement (family fast paths + _cmp_tuple) ---------- *)
Definition fk (a : qid) : list Z * Z := (q_key a, q_dim a).

Lemma sto_fk : sto (lexp lex_ltb zlist_eqb Z.ltb) (eqp zlist_eqb Z.eqb).
Proof. apply sto_prod; [exact sto_lex|exact sto_Z]. Qed.
Lemma sto_ty : sto ty_ltb ty_eqb.
Proof. apply sto_prod; exact sto_lex. Qed.

Lemma fam_ltb_fk : forall a b, fam_ltb a b = lexp lex_ltb zlist_eqb Z.ltb (fk a) (fk b).
Proof. reflexivity. Qed.
Lemma fam_eqb_fk : forall a b, fam_eqb a b = eqp zlist_eqb Z.eqb (fk a) (fk b).
Proof. reflexivity. Qed.

Lemma same_fam_sym : forall a b, same_fam a b = same_fam b a.
Proof.
  intros a b. unfold same_fam. destruct (Z.eqb (q_fam a) (q_fam b)) eqn:E.
  - apply Z.eqb_eq in E. rewrite E, Z.eqb_refl. reflexivity.
  - rewrite Z.eqb_sym, E, !andb_false_r. reflexivity.
Qed.

Lemma same_fam_trans : forall a b c, same_fam a b = true -> same_fam b c = true -> same_fam a c = true.
Proof.
  intros a b c H1 H2. unfold same_fam in *.
  apply andb_true_iff in H1. destruct H1 as [P1 E1]. apply andb_true_iff in H2. destruct H2 as [P2 E2].
  apply Z.eqb_eq in E1. apply Z.eqb_eq in E2. rewrite P1. simpl. apply Z.eqb_eq. congruence.
Qed.

(* totality and consistency with equality hold pairwise, for any mix of classes *)
Theorem qid_mixed_total : forall a b : qid,
  (qid_ltb a b = true \/ qid_eqb a b = true \/ qid_ltb b a = true) /\
  (qid_ltb a b = true -> qid_ltb b a = false /\ qid_eqb a b = false) /\
  (qid_eqb a b = true -> qid_ltb a b = false /\ qid_ltb b a = false) /\
  (qid_eqb a b = qid_eqb b a).
Proof.
  intros a b. unfold qid_ltb, qid_eqb. rewrite (same_fam_sym b a).
  destruct (same_fam a b).
  - rewrite !fam_ltb_fk, !fam_eqb_fk. pose proof sto_fk as H. repeat split.
    + destruct (sto_total _ _ H (fk a) (fk b)) as [L|[E|G]].
      * left; exact L.
      * right; left. apply (sto_eq _ _ H). exact E.
      * right; right; exact G.
    + exact (sto_asym _ _ _ H _ _ H0).
    + exact (sto_lt_neq _ _ _ H _ _ H0).
    + apply (sto_eq _ _ H) in H0. rewrite H0. apply (sto_irrefl _ _ H).
    + apply (sto_eq _ _ H) in H0. rewrite H0. apply (sto_irrefl _ _ H).
    + destruct (eqp zlist_eqb Z.eqb (fk a) (fk b)) eqn:E.
      * apply (sto_eq _ _ H) in E. rewrite E. symmetry. apply (sto_eq_refl _ _ _ H).
      * destruct (eqp zlist_eqb Z.eqb (fk b) (fk a)) eqn:E2; [|reflexivity].
        apply (sto_eq _ _ H) in E2. rewrite E2 in E. rewrite (sto_eq_refl _ _ _ H) in E. discriminate.
  - rewrite !cmp_ltb_ck, !cmp_eqb_ck. pose proof sto_ck as H. repeat split.
    + destruct (sto_total _ _ H (ck a) (ck b)) as [L|[E|G]].
      * left; exact L.
      * right; left. apply (sto_eq _ _ H). exact E.
      * right; right; exact G.
    + exact (sto_asym _ _ _ H _ _ H0).
    + exact (sto_lt_neq _ _ _ H _ _ H0).
    + apply (sto_eq _ _ H) in H0. rewrite H0. apply (sto_irrefl _ _ H).
    + apply (sto_eq _ _ H) in H0. rewrite H0. apply (sto_irrefl _ _ H).
    + destruct (ck_eqb (ck a) (ck b)) eqn:E.
      * apply (sto_eq _ _ H) in E. rewrite E. symmetry. apply (sto_eq_refl _ _ _ H).
      * destruct (ck_eqb (ck b) (ck a)) eqn:E2; [|reflexivity].
        apply (sto_eq _ _ H) in E2. rewrite E2 in E. rewrite (sto_eq_refl _ _ _ H) in E. discriminate.
Qed.

(* transitivity needs the class table to be convex; the check evaluates fam_table_ok on the registered classes *)
Lemma cmp_ty : forall a b, cmp_ltb a b = ty_ltb (ty a) (ty b) || (ty_eqb (ty a) (ty b) && fam_ltb a b).
Proof.
  intros a b. unfold cmp_ltb, ty_ltb, ty_eqb, fam_ltb, lexp, eqp, ty; simpl.
  destruct (lex_ltb (q_tname a) (q_tname b)), (zlist_eqb (q_tname a) (q_tname b)),
           (lex_ltb (q_trepr a) (q_trepr b)), (zlist_eqb (q_trepr a) (q_trepr b)); reflexivity.
Qed.

Section MixedOrder.
Variable pop : qid -> Prop.
Hypothesis Hfam_ty : forall a b, pop a -> pop b -> ty a = ty b -> q_fam a = q_fam b.
Hypothesis Hconv : forall a b c, pop a -> pop b -> pop c -> same_fam a b = true -> same_fam a c = false ->
  ty_ltb (ty a) (ty c) = ty_ltb (ty b) (ty c) /\ ty_ltb (ty c) (ty a) = ty_ltb (ty c) (ty b).

Lemma diff_fam_diff_ty : forall a b, pop a -> pop b -> Z.ltb 0 (q_fam a) = true -> same_fam a b = false ->
  ty_eqb (ty a) (ty b) = false.
Proof.
  intros a b Pa Pb Hpos Hs. destruct (ty_eqb (ty a) (ty b)) eqn:E; [|reflexivity].
  apply (sto_eq _ _ sto_ty) in E. pose proof (Hfam_ty a b Pa Pb E) as Hf.
  unfold same_fam in Hs. rewrite Hpos, Hf, Z.eqb_refl in Hs. discriminate.
Qed.

Lemma same_fam_pos : forall a b, same_fam a b = true -> Z.ltb 0 (q_fam a) = true /\ Z.ltb 0 (q_fam b) = true.
Proof.
  intros a b H. unfold same_fam in H. apply andb_true_iff in H. destruct H as [P E].
  apply Z.eqb_eq in E. split; [exact P|rewrite <- E; exact P].
Qed.

Lemma cmp_of_ty : forall a b, ty_eqb (ty a) (ty b) = false -> cmp_ltb a b = ty_ltb (ty a) (ty b).
Proof. intros a b E. rewrite cmp_ty, E. simpl. apply orb_false_r. Qed.

Theorem qid_mixed_trans : forall a b c, pop a -> pop b -> pop c ->
  qid_ltb a b = true -> qid_ltb b c = true -> qid_ltb a c = true.
Proof.
  intros a b c Pa Pb Pc. unfold qid_ltb.
  destruct (same_fam a b) eqn:Sab; destruct (same_fam b c) eqn:Sbc.
  - rewrite (same_fam_trans _ _ _ Sab Sbc). rewrite !fam_ltb_fk. apply (sto_trans _ _ sto_fk).
  - assert (Sac : same_fam a c = false).
    { destruct (same_fam a c) eqn:S; [|reflexivity].
      rewrite same_fam_sym in Sab. rewrite (same_fam_trans _ _ _ Sab S) in Sbc. discriminate. }
    rewrite Sac. intros _ Hbc.
    destruct (same_fam_pos _ _ Sab) as [Pa0 Pb0].
    rewrite (cmp_of_ty _ _ (diff_fam_diff_ty b c Pb Pc Pb0 Sbc)) in Hbc.
    rewrite (cmp_of_ty _ _ (diff_fam_diff_ty a c Pa Pc Pa0 Sac)).
    destruct (Hconv a b c Pa Pb Pc Sab Sac) as [H1 _]. rewrite H1. exact Hbc.
  - assert (Sac : same_fam a c = false).
    { destruct (same_fam a c) eqn:S; [|reflexivity].
      rewrite (same_fam_sym b c) in Sbc. rewrite (same_fam_trans _ _ _ S Sbc) in Sab. discriminate. }
    rewrite Sac. intros Hab _.
    destruct (same_fam_pos _ _ Sbc) as [Pb0 Pc0].
    assert (Sba : same_fam b a = false) by (rewrite same_fam_sym; exact Sab).
    assert (Sca : same_fam c a = false) by (rewrite same_fam_sym; exact Sac).
    assert (Eab : ty_eqb (ty a) (ty b) = false).
    { destruct (ty_eqb (ty a) (ty b)) eqn:E; [|reflexivity].
      apply (sto_eq _ _ sto_ty) in E. pose proof (diff_fam_diff_ty b a Pb Pa Pb0 Sba) as E2.
      rewrite E in E2. rewrite (sto_eq_refl _ _ _ sto_ty) in E2. discriminate. }
    assert (Eac : ty_eqb (ty a) (ty c) = false).
    { destruct (ty_eqb (ty a) (ty c)) eqn:E; [|reflexivity].
      apply (sto_eq _ _ sto_ty) in E. pose proof (diff_fam_diff_ty c a Pc Pa Pc0 Sca) as E2.
      rewrite E in E2. rewrite (sto_eq_refl _ _ _ sto_ty) in E2. discriminate. }
    rewrite (cmp_of_ty _ _ Eab) in Hab. rewrite (cmp_of_ty _ _ Eac).
    destruct (Hconv b c a Pb Pc Pa Sbc Sba) as [_ H2]. rewrite <- H2. exact Hab.
  - destruct (same_fam a c) eqn:Sac.
    + intros Hab Hbc. exfalso.
      destruct (same_fam_pos _ _ Sac) as [Pa0 Pc0].
      assert (Scb : same_fam c b = false) by (rewrite same_fam_sym; exact Sbc).
      pose proof (diff_fam_diff_ty a b Pa Pb Pa0 Sab) as Eab.
      pose proof (diff_fam_diff_ty c b Pc Pb Pc0 Scb) as Ecb.
      assert (Ebc : ty_eqb (ty b) (ty c) = false).
      { destruct (ty_eqb (ty b) (ty c)) eqn:E; [|reflexivity].
        apply (sto_eq _ _ sto_ty) in E. rewrite E in Ecb. rewrite (sto_eq_refl _ _ _ sto_ty) in Ecb. discriminate. }
      rewrite (cmp_of_ty _ _ Eab) in Hab. rewrite (cmp_of_ty _ _ Ebc) in Hbc.
      destruct (Hconv a c b Pa Pc Pb Sac Sab) as [H1 _]. rewrite H1 in Hab.
      rewrite (sto_asym _ _ _ sto_ty _ _ Hbc) in Hab. discriminate.
    + rewrite !cmp_ltb_ck. apply (sto_trans _ _ sto_ck).
Qed.
End MixedOrder.

(* the executable test of the two hypotheses on a concrete class table *)
Lemma fam_table_ok_rows : forall tbl, fam_table_ok tbl = true ->
  forall r1 r2 r3, In r1 tbl -> In r2 tbl -> In r3 tbl -> row_check r1 r2 r3 = true.
Proof.
  intros tbl H r1 r2 r3 I1 I2 I3. unfold fam_table_ok in H.
  rewrite forallb_forall in H. specialize (H r1 I1).
  rewrite forallb_forall in H. specialize (H r2 I2).
  rewrite forallb_forall in H. exact (H r3 I3).
Qed.

Theorem qid_mixed_trans_table : forall tbl, fam_table_ok tbl = true ->
  forall a b c, In (qrow a) tbl -> In (qrow b) tbl -> In (qrow c) tbl ->
  qid_ltb a b = true -> qid_ltb b c = true -> qid_ltb a c = true.
Proof.
  intros tbl Hok. apply (qid_mixed_trans (fun a => In (qrow a) tbl)).
  - intros a b Pa Pb E.
    pose proof (fam_table_ok_rows tbl Hok _ _ _ Pa Pb Pa) as Hc. unfold row_check in Hc.
    apply andb_true_iff in Hc. destruct Hc as [Hc _].
    change (row_ty (qrow a)) with (ty a) in Hc. change (row_ty (qrow b)) with (ty b) in Hc.
    rewrite E, (sto_eq_refl _ _ _ sto_ty) in Hc. simpl in Hc. apply Z.eqb_eq in Hc. exact Hc.
  - intros a b c Pa Pb Pc Sab Sac.
    pose proof (fam_table_ok_rows tbl Hok _ _ _ Pa Pb Pc) as Hc. unfold row_check in Hc.
    apply andb_true_iff in Hc. destruct Hc as [_ Hc].
    change (rows_same_fam (qrow a) (qrow b)) with (same_fam a b) in Hc.
    change (rows_same_fam (qrow a) (qrow c)) with (same_fam a c) in Hc.
    rewrite Sab, Sac in Hc. simpl in Hc. apply andb_true_iff in Hc. destruct Hc as [H1 H2].
    apply Bool.eqb_prop in H1. apply Bool.eqb_prop in H2. split; assumption.
Qed.

(* without the class-table condition the order is NOT transitive: a Qid class whose name sorts between
   "LineQid" and "LineQubit" (here "LineQjx") gives a cycle *)
Definition w_lineqid : qid := mkQid [76;105;110;101;81;105;100]%Z [1]%Z [9]%Z 3 1.            (* LineQid(9, dimension=3) *)
Definition w_foreign : qid := mkQid [76;105;110;101;81;106;120]%Z [2]%Z [0]%Z 2 0.            (* LineQjx(0) *)
Definition w_linequbit : qid := mkQid [76;105;110;101;81;117;98;105;116]%Z [3]%Z [1]%Z 2 1.   (* LineQubit(1) *)
Theorem qid_mixed_trans_refuted : exists a b c,
  qid_ltb a b = true /\ qid_ltb b c = true /\ qid_ltb a c = false.
Proof. exists w_lineqid, w_foreign, w_linequbit. repeat split; reflexivity. Qed.

Theorem memo_nodup : forall bk v, NoDup (encode_memo bk v).
Proof. intros bk v. unfold encode_memo. apply (proj1 (nodup_all bk)). constructor. Qed.
