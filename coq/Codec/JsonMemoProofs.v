(* C11 — proofs about the codec core model (Codec/JsonMemo.v). *)
From Coq Require Import ZArith List Bool String Arith Lia.
From VF Require Import Codec.JsonMemo.
Import ListNotations.
Open Scope string_scope.
Open Scope list_scope.

Scheme value_mind := Induction for value Sort Prop
with vlist_mind := Induction for vlist Sort Prop
with vfields_mind := Induction for vfields Sort Prop.
Combined Scheme value_mutind from value_mind, vlist_mind, vfields_mind.

(* ---------- decidable equality of values ---------- *)
Lemma value_eqb_spec_all :
  (forall a b, value_eqb a b = true <-> a = b) /\
  (forall a b, vlist_eqb a b = true <-> a = b) /\
  (forall a b, vfields_eqb a b = true <-> a = b).
Proof.
  apply value_mutind.
  - intros b; destruct b; simpl; split; intros H; try discriminate; reflexivity.
  - intros z b; destruct b; simpl; split; intros H; try discriminate.
    + apply Z.eqb_eq in H; subst; reflexivity.
    + inversion H; subst; apply Z.eqb_refl.
  - intros s b; destruct b; simpl; split; intros H; try discriminate.
    + apply String.eqb_eq in H; subst; reflexivity.
    + inversion H; subst; apply String.eqb_refl.
  - intros l IH b; destruct b; simpl; split; intros H; try discriminate.
    + apply IH in H; subst; reflexivity.
    + inversion H; subst; apply IH; reflexivity.
  - intros f IH b; destruct b; simpl; split; intros H; try discriminate.
    + apply IH in H; subst; reflexivity.
    + inversion H; subst; apply IH; reflexivity.
  - intros tag f IH b; destruct b; simpl; split; intros H; try discriminate.
    + apply andb_true_iff in H; destruct H as [H1 H2].
      apply String.eqb_eq in H1; apply IH in H2; subst; reflexivity.
    + inversion H; subst; apply andb_true_iff; split; [apply String.eqb_refl|apply IH; reflexivity].
  - intros b; destruct b; simpl; split; intros H; try discriminate; reflexivity.
  - intros v IHv r IHr b; destruct b; simpl; split; intros H; try discriminate.
    + apply andb_true_iff in H; destruct H as [H1 H2].
      apply IHv in H1; apply IHr in H2; subst; reflexivity.
    + inversion H; subst; apply andb_true_iff; split; [apply IHv|apply IHr]; reflexivity.
  - intros b; destruct b; simpl; split; intros H; try discriminate; reflexivity.
  - intros k v IHv r IHr b; destruct b; simpl; split; intros H; try discriminate.
    + apply andb_true_iff in H; destruct H as [H12 H3].
      apply andb_true_iff in H12; destruct H12 as [H1 H2].
      apply String.eqb_eq in H1; apply IHv in H2; apply IHr in H3; subst; reflexivity.
    + inversion H; subst. rewrite String.eqb_refl; simpl.
      apply andb_true_iff; split; [apply IHv|apply IHr]; reflexivity.
Qed.

Lemma value_eqb_eq : forall a b, value_eqb a b = true <-> a = b.
Proof. exact (proj1 value_eqb_spec_all). Qed.

Lemma value_eqb_refl : forall a, value_eqb a a = true.
Proof. intros a; apply value_eqb_eq; reflexivity. Qed.

Lemma opt_value_dec : forall (o : option value) x, o = Some x \/ o <> Some x.
Proof.
  intros [y|] x.
  - destruct (value_eqb y x) eqn:E.
    + apply value_eqb_eq in E; subst; left; reflexivity.
    + right; intros H; inversion H; subst. rewrite value_eqb_refl in E; discriminate.
  - right; discriminate.
Qed.

(* ---------- memo lookup ---------- *)
Lemma find_from_some : forall v M i k, find_from v M i = Some k ->
  i <= k /\ nth_error M (k - i) = Some v.
Proof.
  intros v M; induction M as [|x r IH]; intros i k H; simpl in H; [discriminate|].
  destruct (value_eqb v x) eqn:E.
  - inversion H; subst. apply value_eqb_eq in E; subst. rewrite Nat.sub_diag. split; [lia|reflexivity].
  - apply IH in H. destruct H as [Hle Hn]. split; [lia|].
    replace (k - i) with (S (k - S i)) by lia. exact Hn.
Qed.

Lemma find_idx_some : forall v M k, find_idx v M = Some k -> nth_error M k = Some v.
Proof.
  intros v M k H. apply find_from_some in H. destruct H as [_ H]. rewrite Nat.sub_0_r in H. exact H.
Qed.

Lemma find_from_none : forall v M i, find_from v M i = None -> ~ In v M.
Proof.
  intros v M; induction M as [|x r IH]; intros i H; simpl in *; [tauto|].
  destruct (value_eqb v x) eqn:E; [discriminate|].
  intros [Hx|Hr].
  - subst. rewrite value_eqb_refl in E; discriminate.
  - exact (IH _ H Hr).
Qed.

(* first occurrence: the key of an object is the index of its first (only) memo entry *)
Lemma find_from_first : forall v M i k, find_from v M i = Some k ->
  forall j, j < k - i -> nth_error M j <> Some v.
Proof.
  intros v M; induction M as [|x r IH]; intros i k H j Hj; simpl in H; [discriminate|].
  destruct (value_eqb v x) eqn:E.
  - inversion H; subst. lia.
  - destruct j as [|j]; simpl.
    + intros Hx; inversion Hx; subst. rewrite value_eqb_refl in E; discriminate.
    + apply (IH _ _ H). apply find_from_some in H. lia.
Qed.

(* ---------- field-list facts ---------- *)
Lemma fget_absent : forall k f, fhas k f = false -> fget k f = None.
Proof.
  intros k f; induction f as [|k' v r IH]; simpl; intros H; [reflexivity|].
  apply orb_false_iff in H; destruct H as [H1 H2]. rewrite H1. apply IH; exact H2.
Qed.

Lemma fremove_absent : forall k f, fhas k f = false -> fremove k f = f.
Proof.
  intros k f; induction f as [|k' v r IH]; simpl; intros H; [reflexivity|].
  apply orb_false_iff in H; destruct H as [H1 H2]. rewrite H1. rewrite IH by exact H2. reflexivity.
Qed.

Lemma reserved_false : forall t, reserved t = false ->
  String.eqb t "VAL" = false /\ String.eqb t "REF" = false /\ String.eqb t "_SerializedKey" = false /\
  String.eqb t "_SerializedContext" = false /\ String.eqb t "_ContextualSerialization" = false.
Proof.
  unfold reserved; intros t H.
  repeat (apply orb_false_iff in H; destruct H as [H ?]). repeat split; assumption.
Qed.

(* the hook on a typed dict of a non-reserved class rebuilds the object from the remaining fields *)
Lemma hook_typed : forall tag f S, reserved tag = false -> fhas "cirq_type" f = false ->
  hook (VFCons "cirq_type" (VStr tag) f) S = Some (VObj tag f, S).
Proof.
  intros tag f S Hr Hf. apply reserved_false in Hr. destruct Hr as (H1 & H2 & H3 & H4 & H5).
  unfold hook. simpl fget. cbv beta iota. rewrite H1, H2, H3, H4, H5.
  simpl fremove. rewrite fremove_absent by exact Hf. reflexivity.
Qed.

Lemma hook_plain : forall f S, fhas "cirq_type" f = false -> hook f S = Some (VDict f, S).
Proof. intros f S Hf. unfold hook. rewrite fget_absent by exact Hf. reflexivity. Qed.

(* ---------- the round-trip invariant ---------- *)
Section RoundTrip.
Variable bk : string -> bool.

(* unresolved memo entries (registered by the encoder, not yet by the decoder) are all larger than n *)
Definition pre (n : nat) (M : list value) (S : dstate) : Prop :=
  forall i x, nth_error M i = Some x -> dget (Z.of_nat i) (d_memo S) <> Some x -> n < vsize x.

(* the step M,S ~> M',S' extends the memo, leaves context_map alone and creates no unresolved entry *)
Definition post (M : list value) (S : dstate) (M' : list value) (S' : dstate) : Prop :=
  (exists ext, M' = M ++ ext) /\ d_ctx S' = d_ctx S /\
  forall i x, nth_error M' i = Some x -> dget (Z.of_nat i) (d_memo S') <> Some x ->
              nth_error M i = Some x /\ dget (Z.of_nat i) (d_memo S) <> Some x.

Lemma post_refl : forall M S, post M S M S.
Proof.
  intros M S; split; [exists []; rewrite app_nil_r; reflexivity|]. split; [reflexivity|]. intros i x H1 H2; split; assumption.
Qed.

Lemma post_trans : forall M0 S0 M1 S1 M2 S2, post M0 S0 M1 S1 -> post M1 S1 M2 S2 -> post M0 S0 M2 S2.
Proof.
  intros M0 S0 M1 S1 M2 S2 (E1 & C1 & H1) (E2 & C2 & H2). split; [|split].
  - destruct E1 as [e1 E1], E2 as [e2 E2]. exists (e1 ++ e2). subst. rewrite app_assoc. reflexivity.
  - congruence.
  - intros i x Hn Hd. destruct (H2 i x Hn Hd) as [Hn1 Hd1]. exact (H1 i x Hn1 Hd1).
Qed.

Lemma pre_post : forall n M S M' S', pre n M S -> post M S M' S' -> pre n M' S'.
Proof.
  intros n M S M' S' Hp (_ & _ & H) i x Hn Hd. destruct (H i x Hn Hd) as [Hn0 Hd0]. exact (Hp i x Hn0 Hd0).
Qed.

Lemma pre_le : forall n m M S, m <= n -> pre n M S -> pre m M S.
Proof. intros n m M S Hle Hp i x Hn Hd. specialize (Hp i x Hn Hd). lia. Qed.

Lemma enc_l_eq : forall v r M, enc_l bk (VCons v r) M =
  (JCons (fst (enc bk v M)) (fst (enc_l bk r (snd (enc bk v M)))), snd (enc_l bk r (snd (enc bk v M)))).
Proof. intros v r M; simpl. destruct (enc bk v M) as [j M1]; simpl. destruct (enc_l bk r M1) as [jr M2]; reflexivity. Qed.

Lemma enc_f_eq : forall k v r M, enc_f bk (VFCons k v r) M =
  (JFCons k (fst (enc bk v M)) (fst (enc_f bk r (snd (enc bk v M)))), snd (enc_f bk r (snd (enc bk v M)))).
Proof. intros k v r M; simpl. destruct (enc bk v M) as [j M1]; simpl. destruct (enc_f bk r M1) as [jr M2]; reflexivity. Qed.

Definition P_v (v : value) : Prop := wf v = true -> forall n M S, vsize v <= n -> pre n M S ->
  exists S', dec (fst (enc bk v M)) S = Some (v, S') /\ post M S (snd (enc bk v M)) S'.
Definition P_l (l : vlist) : Prop := wf_l l = true -> forall n M S, lsize l <= n -> pre n M S ->
  exists S', dec_l (fst (enc_l bk l M)) S = Some (l, S') /\ post M S (snd (enc_l bk l M)) S'.
Definition P_f (f : vfields) : Prop := wf_f f = true -> forall n M S, fsize f <= n -> pre n M S ->
  exists S', dec_f (fst (enc_f bk f M)) S = Some (f, S') /\ post M S (snd (enc_f bk f M)) S'.

Lemma roundtrip_all : (forall v, P_v v) /\ (forall l, P_l l) /\ (forall f, P_f f).
Proof.
  apply value_mutind; unfold P_v, P_l, P_f.
  - (* VNull *) intros _ n M S _ _. exists S; split; [reflexivity|apply post_refl].
  - (* VNum *) intros z _ n M S _ _. exists S; split; [reflexivity|apply post_refl].
  - (* VStr *) intros s _ n M S _ _. exists S; split; [reflexivity|apply post_refl].
  - (* VArr *) intros l IH Hwf n M S Hn Hp. simpl in Hwf, Hn.
    destruct (IH Hwf n M S ltac:(lia) Hp) as (S' & Hd & Hpost).
    simpl. destruct (enc_l bk l M) as [jl M'] eqn:E; simpl in *.
    exists S'. rewrite Hd. split; [reflexivity|exact Hpost].
  - (* VDict *) intros f IH Hwf n M S Hn Hp. simpl in Hwf, Hn.
    apply andb_true_iff in Hwf; destruct Hwf as [Hk Hwf]. apply negb_true_iff in Hk.
    destruct (IH Hwf n M S ltac:(lia) Hp) as (S' & Hd & Hpost).
    simpl. destruct (enc_f bk f M) as [jf M'] eqn:E; simpl in *.
    exists S'. rewrite Hd. split; [apply hook_plain; exact Hk|exact Hpost].
  - (* VObj *) intros tag f IH Hwf n M S Hn Hp. simpl in Hwf, Hn.
    apply andb_true_iff in Hwf; destruct Hwf as [Hwf Hwff].
    apply andb_true_iff in Hwf; destruct Hwf as [Hres Hk].
    apply negb_true_iff in Hres. apply negb_true_iff in Hk.
    simpl enc. destruct (bk tag) eqn:Hbk.
    + destruct (find_idx (VObj tag f) M) as [k|] eqn:Hfind.
      * (* later occurrence: REF *)
        apply find_idx_some in Hfind.
        assert (Hres_k : dget (Z.of_nat k) (d_memo S) = Some (VObj tag f)).
        { destruct (opt_value_dec (dget (Z.of_nat k) (d_memo S)) (VObj tag f)) as [Hy|Hnot]; [exact Hy|].
          specialize (Hp k _ Hfind Hnot). simpl in Hp. lia. }
        exists S. split; [|apply post_refl].
        simpl. unfold hook. simpl fget. cbv beta iota. simpl String.eqb. cbv beta iota. rewrite Hres_k. reflexivity.
      * (* first occurrence: VAL *)
        set (v := VObj tag f) in *. set (k := List.length M).
        assert (Hp1 : pre (fsize f) (M ++ [v]) S).
        { intros i x Hnth Hd. destruct (Nat.lt_ge_cases i (List.length M)) as [Hlt|Hge].
          - rewrite nth_error_app1 in Hnth by exact Hlt. specialize (Hp i x Hnth Hd). lia.
          - rewrite nth_error_app2 in Hnth by exact Hge.
            destruct (i - List.length M) as [|m] eqn:Em; simpl in Hnth.
            + inversion Hnth; subst x. unfold v; simpl. lia.
            + destruct m; discriminate. }
        destruct (IH Hwff (fsize f) (M ++ [v]) S (le_n _) Hp1) as (S2 & Hd2 & Hpost2).
        destruct (enc_f bk f (M ++ [v])) as [jf M2] eqn:E; simpl in Hd2, Hpost2.
        exists (mkD ((Z.of_nat k, v) :: d_memo S2) (d_ctx S2)). split.
        { simpl. rewrite Hd2. rewrite hook_typed by assumption. reflexivity. }
        destruct Hpost2 as ([ext Hext] & Hctx & Hun). simpl snd. split; [|split].
        { exists ([v] ++ ext). rewrite Hext. rewrite <- app_assoc. reflexivity. }
        { simpl. exact Hctx. }
        intros i x Hnth Hd. simpl in Hd.
        destruct (Z.eqb (Z.of_nat i) (Z.of_nat k)) eqn:Eik.
        { exfalso. apply Z.eqb_eq in Eik. apply Nat2Z.inj in Eik. subst i.
          rewrite Hext in Hnth. rewrite <- app_assoc in Hnth.
          rewrite nth_error_app2 in Hnth by (unfold k; lia). unfold k in Hnth. rewrite Nat.sub_diag in Hnth.
          simpl in Hnth. inversion Hnth; subst x. apply Hd; reflexivity. }
        { apply Z.eqb_neq in Eik. destruct (Hun i x Hnth Hd) as [Hn1 Hd1]. split; [|exact Hd1].
          assert (i <> k) by (intros ->; apply Eik; reflexivity).
          destruct (Nat.lt_ge_cases i (List.length M)) as [Hlt|Hge].
          - rewrite nth_error_app1 in Hn1 by exact Hlt. exact Hn1.
          - rewrite nth_error_app2 in Hn1 by exact Hge.
            destruct (i - List.length M) as [|m] eqn:Em; [unfold k in *; lia|].
            simpl in Hn1. destruct m; discriminate. }
    + (* ordinary object *)
      destruct (IH Hwff n M S ltac:(lia) Hp) as (S' & Hd & Hpost).
      destruct (enc_f bk f M) as [jf M'] eqn:E; simpl in *.
      exists S'. rewrite Hd. split; [apply hook_typed; assumption|exact Hpost].
  - (* VNil *) intros _ n M S _ _. exists S; split; [reflexivity|apply post_refl].
  - (* VCons *) intros v IHv r IHr Hwf n M S Hn Hp. simpl in Hwf, Hn.
    apply andb_true_iff in Hwf; destruct Hwf as [Hwv Hwr].
    destruct (IHv Hwv n M S ltac:(lia) Hp) as (S1 & Hd1 & Hpost1).
    destruct (IHr Hwr n _ S1 ltac:(lia) (pre_post _ _ _ _ _ Hp Hpost1)) as (S2 & Hd2 & Hpost2).
    rewrite enc_l_eq. simpl fst; simpl snd. exists S2. split.
    + simpl. rewrite Hd1, Hd2. reflexivity.
    + exact (post_trans _ _ _ _ _ _ Hpost1 Hpost2).
  - (* VFNil *) intros _ n M S _ _. exists S; split; [reflexivity|apply post_refl].
  - (* VFCons *) intros k v IHv r IHr Hwf n M S Hn Hp. simpl in Hwf, Hn.
    apply andb_true_iff in Hwf; destruct Hwf as [Hwv Hwr].
    destruct (IHv Hwv n M S ltac:(lia) Hp) as (S1 & Hd1 & Hpost1).
    destruct (IHr Hwr n _ S1 ltac:(lia) (pre_post _ _ _ _ _ Hp Hpost1)) as (S2 & Hd2 & Hpost2).
    rewrite enc_f_eq. simpl fst; simpl snd. exists S2. split.
    + simpl. rewrite Hd1, Hd2. reflexivity.
    + exact (post_trans _ _ _ _ _ _ Hpost1 Hpost2).
Qed.

Theorem json_memo_roundtrip : forall v, wf v = true -> decode (encode bk v) = Some v.
Proof.
  intros v Hwf. unfold decode, encode.
  destruct (proj1 roundtrip_all v Hwf (vsize v) [] dempty (le_n _)) as (S' & Hd & _).
  - intros i x Hn. destruct i; discriminate.
  - rewrite Hd. reflexivity.
Qed.

End RoundTrip.
