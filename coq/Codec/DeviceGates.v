(* C16 — model of the gate part of GridDevice._validate_operations / validate_circuit (cirq-google/cirq_google/devices/
   grid_device.py) on top of Codec/DeviceSpec.v (definitions only, proofs in DeviceGatesProofs.v).

   A DeviceSpecification lists GateSpecifications by name (device.proto: valid_gates, one oneof member each).  Whether an
   operation is one of them depends on its gate and, for three of the names, on its tags:
     virtual_zpow   a Z power without PhysicalZTag          physical_zpow   a Z power under PhysicalZTag
     fsim_via_model an FSimGate under FSimViaModelTag       two_pulse_fsim  an FSimGate under TwoPulseFSimTag
   every other tag (strings, CalibrationTag ...) means nothing to a device, so an operation is kept as the kind of its gate,
   the three tag flags and its qubits.  kinds: what the harness generates (FSimGate with generic angles, CZ with exponent one /
   another exponent, a one-qubit gate of the phased_xz family, a gate no specification names).
   validate_operation = the gate is listed and the qubits / the pair are on the device (DeviceSpec.validate_op);
   validate_circuit   = one pass over circuit.all_operations(), every operation judged by itself. *)
From Coq Require Import ZArith List Bool.
From VF Require Import Codec.DeviceSpec.
Import ListNotations.
Open Scope Z_scope.

Inductive gate_name : Type :=
  NSyc | NSqrtIswap | NSqrtIswapInv | NCz | NCzPow | NPhasedXZ | NVirtualZ | NPhysicalZ | NMeas | NWait
  | NFsimViaModel | NTwoPulseFsim | NInternal | NReset.

Inductive gate_kind : Type :=
  KSyc | KSqrtIswap | KSqrtIswapInv | KCz | KCzPow | KOneQubit | KZPow | KMeas | KWait | KFSim | KInternal | KReset | KOther.

Record tags : Type := { physical_z : bool; via_model : bool; two_pulse : bool }.
Record op : Type := { o_kind : gate_kind; o_tags : tags; o_qubits : list qubit }.

Definition name_accepts (n : gate_name) (k : gate_kind) (t : tags) : bool :=
  match n, k with
  | NSyc, KSyc | NSqrtIswap, KSqrtIswap | NSqrtIswapInv, KSqrtIswapInv => true
  | NCz, KCz | NCzPow, KCz | NCzPow, KCzPow => true
  | NPhasedXZ, KOneQubit => true
  | NVirtualZ, KZPow => negb (physical_z t)
  | NPhysicalZ, KZPow => physical_z t
  | NMeas, KMeas | NWait, KWait | NInternal, KInternal | NReset, KReset => true
  | NFsimViaModel, KFSim => via_model t
  | NTwoPulseFsim, KFSim => two_pulse t
  | _, _ => false
  end.

Definition gate_ok (names : list gate_name) (o : op) : bool :=
  existsb (fun n => name_accepts n (o_kind o) (o_tags o)) names.

Definition variadic (k : gate_kind) : bool := match k with KMeas | KWait => true | _ => false end.

Definition validate_operation (d : device) (names : list gate_name) (o : op) : bool :=
  gate_ok names o && validate_op d (variadic (o_kind o)) (o_qubits o).

Definition validate_circuit (d : device) (names : list gate_name) (ops : list op) : bool :=
  forallb (validate_operation d names) ops.

Definition mk_op (k : gate_kind) (p v w : bool) (qs : list qubit) : op :=
  {| o_kind := k; o_tags := {| physical_z := p; via_model := v; two_pulse := w |}; o_qubits := qs |}.

(* the same operation up to its tags: what is left of it when the tags are taken off *)
Definition untagged (o : op) : gate_kind * list qubit := (o_kind o, o_qubits o).

Definition name_eqb (a b : gate_name) : bool :=
  match a, b with
  | NSyc, NSyc | NSqrtIswap, NSqrtIswap | NSqrtIswapInv, NSqrtIswapInv | NCz, NCz | NCzPow, NCzPow | NPhasedXZ, NPhasedXZ
  | NVirtualZ, NVirtualZ | NPhysicalZ, NPhysicalZ | NMeas, NMeas | NWait, NWait | NFsimViaModel, NFsimViaModel
  | NTwoPulseFsim, NTwoPulseFsim | NInternal, NInternal | NReset, NReset => true
  | _, _ => false
  end.
Definition has_name (n : gate_name) (names : list gate_name) : bool := existsb (name_eqb n) names.

(* ---- one correspondence case: a specification with its gate names, a pool of operations, and the decisions of
        validate_circuit on circuits given as lists of indices into the pool ---- *)
Definition no_op : op := {| o_kind := KOther; o_tags := {| physical_z := false; via_model := false; two_pulse := false |}; o_qubits := [] |}.
Record circuit_case : Type := {
  cc_spec : spec;
  cc_names : list gate_name;
  cc_pool : list op;
  cc_circuits : list (list nat * bool) }.
Definition case_circuits_ok (c : circuit_case) : bool :=
  match from_proto (cc_spec c) with
  | Some d => forallb (fun q => Bool.eqb (validate_circuit d (cc_names c) (map (fun i => nth i (cc_pool c) no_op) (fst q))) (snd q))
                      (cc_circuits c)
  | None => true
  end.
