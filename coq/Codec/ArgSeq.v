(* Model of how cirq-google/cirq_google/serialization/arg_func_langs.py writes a sequence-valued argument (list, tuple,
   set, frozenset) into an Arg message and reads it back, hand-written in the shape of the code.  Definitions only;
   proofs are in ArgSeqProofs.v.

     elif isinstance(value, (list, tuple, np.ndarray, set, frozenset)):
         ...
         elif len(value) == 0:                     _tuple_to_proto(value)
         elif isinstance(value, list) and isinstance(value[0], str):
             if not all(isinstance(x, str) for x in value):   _tuple_to_proto(value)
             else:                                 string_values
         else:
             numerical_fields = [[bool_values, (bool, np.bool_)], [int64_values, (int, np.integer, bool)],
                                 [double_values, (float, np.floating, int, bool)]]
             cur_index = 0
             for v in value:
                 while cur_index < 3 and not isinstance(v, numerical_fields[cur_index][1]): cur_index += 1
                 if cur_index == 3: non_numerical = v; break
             if non_numerical is not None:         _tuple_to_proto(value)
             else: field, types = numerical_fields[cur_index]; field.extend(types[0](x) for x in value)

   An element is a Python bool, a numpy bool (in no tuple but the first), an int, a numpy integer (not in the third tuple), a
   float (float or numpy floating, an exact rational), a string (an identifier) or anything else (an identifier: nested sequences, complex numbers, symbols, values
   with units ... which are written as messages of their own).  The sequence is given in its iteration order.
   rnd is the single-precision rounding a lone number suffers in the float_value field. *)
From Coq Require Import ZArith QArith Qround Qabs List Bool.
Import ListNotations.
Open Scope Z_scope.

Inductive elem := EB (b : bool) | ENB (b : bool) | EI (z : Z) | ENI (z : Z) | EF (q : Q) | ES (s : Z) | EX (x : Z).
Inductive skind := KList | KTuple | KSet | KFrozen.

(* a lone value inside a tuple_value: bool_value / float_value / string_value / any other message *)
Inductive swire := SBool (b : bool) | SFloat (q : Q) | SStr (s : Z) | SOther (x : Z).

Inductive wire :=
  | WBools (l : list bool) | WInts (l : list Z) | WDoubles (l : list Q) | WStrings (l : list Z)
  | WTuple (k : skind) (l : list swire)
  | WRefused.                                   (* ValueError: an integer outside int64 *)

Definition b2z (b : bool) : Z := if b then 1 else 0.

(* isinstance(v, numerical_fields[cur][1]) *)
Definition accepts (cur : nat) (e : elem) : bool :=
  match cur, e with
  | 0%nat, (EB _ | ENB _) => true
  | 1%nat, (EB _ | EI _ | ENI _) => true
  | 2%nat, (EB _ | EI _ | EF _) => true
  | _, _ => false
  end.

(* the while loop; fuel = the number of fields *)
Fixpoint advance (fuel cur : nat) (e : elem) : nat :=
  match fuel with
  | O => cur
  | S f => if (cur <? 3)%nat && negb (accepts cur e) then advance f (S cur) e else cur
  end.
Definition scan_from (cur : nat) (xs : list elem) : nat := fold_left (fun c e => advance 3 c e) xs cur.
Definition scan (xs : list elem) : nat := scan_from 0 xs.

(* types_tuple[0](x): bool(x), int(x), float(x) *)
Definition trunc (q : Q) : Z := if Qle_bool 0 q then Qfloor q else Qceiling q.
Definition to_bool (e : elem) : bool :=
  match e with EB b | ENB b => b | EI z | ENI z => negb (z =? 0) | EF q => negb (Qeq_bool q 0) | _ => false end.
Definition to_int (e : elem) : Z :=
  match e with EB b | ENB b => b2z b | EI z | ENI z => z | EF q => trunc q | _ => 0 end.
Definition to_dbl (e : elem) : Q :=
  match e with EB b | ENB b => inject_Z (b2z b) | EI z | ENI z => inject_Z z | EF q => q | _ => 0%Q end.

Definition int64 (z : Z) : bool := (- 2 ^ 63 <=? z) && (z <? 2 ^ 63).
Definition is_str (e : elem) : bool := match e with ES _ => true | _ => false end.
Definition str_id (e : elem) : Z := match e with ES s => s | _ => 0 end.
Definition is_list (k : skind) : bool := match k with KList => true | _ => false end.

(* arg_to_proto of one element of a tuple_value *)
Definition enc_scalar (rnd : Q -> Q) (e : elem) : swire :=
  match e with
  | EB b | ENB b => SBool b
  | EI z | ENI z => SFloat (rnd (inject_Z z))
  | EF q => SFloat (rnd q)
  | ES s => SStr s
  | EX x => SOther x
  end.
Definition enc_tuple (rnd : Q -> Q) (k : skind) (xs : list elem) : wire := WTuple k (map (enc_scalar rnd) xs).

Definition encode (rnd : Q -> Q) (k : skind) (xs : list elem) : wire :=
  match xs with
  | [] => enc_tuple rnd k xs
  | x0 :: _ =>
      if is_list k && is_str x0
      then (if forallb is_str xs then WStrings (map str_id xs) else enc_tuple rnd k xs)
      else match scan xs with
           | 0%nat => WBools (map to_bool xs)
           | 1%nat => if forallb int64 (map to_int xs) then WInts (map to_int xs) else WRefused
           | 2%nat => WDoubles (map to_dbl xs)
           | _ => enc_tuple rnd k xs
           end
  end.

(* arg_from_proto: float_value comes back as an int when it is integral *)
Definition integral (q : Q) : bool := Qeq_bool (inject_Z (Qfloor q)) q.
Definition dec_scalar (s : swire) : elem :=
  match s with
  | SBool b => EB b
  | SFloat q => if integral q then EI (Qfloor q) else EF q
  | SStr s => ES s
  | SOther x => EX x
  end.
Definition decode (w : wire) : option (skind * list elem) :=
  match w with
  | WBools l => Some (KList, map EB l)
  | WInts l => Some (KList, map EI l)
  | WDoubles l => Some (KList, map EF l)
  | WStrings l => Some (KList, map ES l)
  | WTuple k l => Some (k, map dec_scalar l)
  | WRefused => None
  end.

(* the number an element stands for *)
Definition val (e : elem) : option Q :=
  match e with EB b | ENB b => Some (inject_Z (b2z b)) | EI z | ENI z => Some (inject_Z z) | EF q => Some q | _ => None end.
(* e' is e read back: the same number (exactly, or rounded once to single precision when it travelled as a lone
   float_value); a bool stays a bool wherever it is written as one; anything else is itself *)
Definition same_value (rnd : Q -> Q) (e e' : elem) : Prop :=
  match val e with
  | Some a => exists a', val e' = Some a' /\ (a' == a \/ a' == rnd a)%Q
  | None => e' = e
  end.

(* the rule "the kind of the leading element picks the field" (what the code must NOT do): harness and refutation *)
Definition encode_leading (k : skind) (xs : list elem) : wire :=
  match xs with
  | [] => WTuple k []
  | x0 :: _ => match advance 3 0 x0 with
               | 0%nat => WBools (map to_bool xs)
               | 1%nat => WInts (map to_int xs)
               | _ => WDoubles (map to_dbl xs)
               end
  end.

(* harness: compare what the implementation wrote with the model's message; lone floats up to 2^-23 relative *)
Definition q_close (a b : Q) : bool := Qle_bool (Qabs (a - b) * (8388608 # 1)) (Qabs b).
Definition swire_eqb (a b : swire) : bool :=
  match a, b with
  | SBool x, SBool y => Bool.eqb x y
  | SFloat x, SFloat y => q_close x y
  | SStr x, SStr y => x =? y
  | SOther x, SOther y => x =? y
  | _, _ => false
  end.
Definition skind_eqb (a b : skind) : bool :=
  match a, b with KList, KList | KTuple, KTuple | KSet, KSet | KFrozen, KFrozen => true | _, _ => false end.
Fixpoint leqb {A} (e : A -> A -> bool) (a b : list A) : bool :=
  match a, b with
  | [], [] => true
  | x :: a', y :: b' => e x y && leqb e a' b'
  | _, _ => false
  end.
Definition wire_eqb (a b : wire) : bool :=
  match a, b with
  | WBools x, WBools y => leqb Bool.eqb x y
  | WInts x, WInts y => leqb Z.eqb x y
  | WDoubles x, WDoubles y => leqb Qeq_bool x y
  | WStrings x, WStrings y => leqb Z.eqb x y
  | WTuple k x, WTuple k' y => skind_eqb k k' && leqb swire_eqb x y
  | WRefused, WRefused => true
  | _, _ => false
  end.
