(* C13.D1+D2 for the model's own gate vocabulary: every admissible `cgate` (any exponent q/4, any global shift)
   denotes a gate matrix of GateSpecs that satisfies the conjugation lemma, and `apply_gate` — the function the
   correspondence run compares with CliffordTableau after every gate — is the rule of that matrix.  Hence for every
   circuit of admissible gates on n qubits: rows track U . U^dagger and stabilizers stabilize. *)
From Coq Require Import Ring List ZArith Bool Arith Lia.
From VF Require Import Base.RingOps Base.Mat Base.Tensor Gates.GateSpecs Cliff.Tableau Cliff.TableauSem Cliff.TableauCircuit
  Cliff.TableauConjLemmas Cliff.TableauConjProofs Cliff.TableauLiftProofs Cliff.TableauTrackProofs.
Import ListNotations.

(* ---- exponent arithmetic ---- *)
Lemma e_of_lt q : e_of q < 8.
Proof.
  unfold e_of. assert (H := Z.mod_pos_bound (q / 2) 8 ltac:(lia)).
  apply Nat2Z.inj_lt. rewrite Z2Nat.id by lia. simpl. lia.
Qed.
Lemma e_of_cases q : (q mod 4 = 0)%Z ->
  ((q mod 8 = 0)%Z /\ (e_of q = 0 \/ e_of q = 4)) \/ ((q mod 8 <> 0)%Z /\ (e_of q = 2 \/ e_of q = 6)).
Proof.
  intros H. unfold e_of.
  assert (Hc : ((q / 2) mod 8 = 0 \/ (q / 2) mod 8 = 4 \/ (q / 2) mod 8 = 2 \/ (q / 2) mod 8 = 6)%Z)
    by (Z.div_mod_to_equations; lia).
  destruct Hc as [E|[E|[E|E]]]; rewrite E; simpl.
  - left. split; [Z.div_mod_to_equations; lia|left; reflexivity].
  - left. split; [Z.div_mod_to_equations; lia|right; reflexivity].
  - right. split; [Z.div_mod_to_equations; lia|left; reflexivity].
  - right. split; [Z.div_mod_to_equations; lia|right; reflexivity].
Qed.
Lemma eff_e_of q : (q mod 2 = 0)%Z -> eff (e_of q) = ((q mod 8) / 2)%Z.
Proof.
  intros H. unfold eff, e_of.
  assert (Hb := Z.mod_pos_bound (q / 2) 8 ltac:(lia)).
  rewrite Nat2Z.inj_mod. rewrite Z2Nat.id by lia. simpl Z.of_nat. Z.div_mod_to_equations; lia.
Qed.

(* ---- rows ---- *)
Lemma set_nth_nth {A} (l : list A) a d : set_nth l a (nth a l d) = l.
Proof. revert a. induction l as [|x l IH]; intros [|a]; simpl; auto. f_equal. apply IH. Qed.
Lemma row_apply1_id f a row : (forall p, f p = p) -> row_apply1 f a row = row.
Proof.
  intros H. unfold row_apply1, bit_at. destruct (nth a (rbits row) (false, false)) as [x z] eqn:E.
  rewrite H. destruct row as [P r]. simpl in *. rewrite <- E. rewrite set_nth_nth. reflexivity.
Qed.
Lemma tab_apply1_id f a t : (forall p, f p = p) -> tab_apply1 f a t = t.
Proof.
  intros H. unfold tab_apply1. rewrite (map_ext _ (fun r => r)) by (intros r; apply row_apply1_id; exact H). apply map_id.
Qed.
Lemma row_apply2_id f c x row : (forall p, f p = p) -> row_apply2 f c x row = row.
Proof.
  intros H. unfold row_apply2, bit_at. destruct (nth c (rbits row) (false, false)) as [xc zc] eqn:Ec.
  destruct (nth x (rbits row) (false, false)) as [xt zt] eqn:Et.
  rewrite H. destruct row as [P r]. simpl in *. rewrite <- Ec. rewrite set_nth_nth. rewrite <- Et. rewrite set_nth_nth. reflexivity.
Qed.
Lemma tab_apply2_id f c x t : (forall p, f p = p) -> tab_apply2 f c x t = t.
Proof.
  intros H. unfold tab_apply2. rewrite (map_ext _ (fun r => r)) by (intros r; apply row_apply2_id; exact H). apply map_id.
Qed.
Lemma rule_x_0 p : rule_x 0 p = p. Proof. destruct p as [[x z] r]; reflexivity. Qed.
Lemma rule_y_0 p : rule_y 0 p = p. Proof. destruct p as [[x z] r]; reflexivity. Qed.
Lemma rule_z_0 p : rule_z 0 p = p. Proof. destruct p as [[x z] r]; reflexivity. Qed.

Section Circ.
  Context {K : Type} (O : Ops K) (L : Laws O).
  Add Ring Kring : (law_ring O L).

  Lemma with_half_sem q (f : Z -> loc1 -> loc1) a t : (q mod 2 = 0)%Z -> (forall p, f 0%Z p = p) ->
    with_half q f a t = Some (tab_apply1 (f (eff (e_of q))) a t).
  Proof.
    intros Hq H0. unfold with_half, expo_half. rewrite (eff_e_of q Hq).
    destruct (q mod 8 =? 0)%Z eqn:E8.
    - apply Z.eqb_eq in E8. rewrite E8. simpl. rewrite tab_apply1_id by exact H0. reflexivity.
    - rewrite (proj2 (Z.eqb_eq _ _) Hq). reflexivity.
  Qed.
  Lemma odd_e_of q : (q mod 4 = 0)%Z -> odd_e (e_of q) = negb (q mod 8 =? 0)%Z.
  Proof.
    intros H. destruct (e_of_cases q H) as [[H8 [E|E]]|[H8 [E|E]]]; rewrite E; unfold odd_e; simpl.
    - rewrite H8. reflexivity.
    - rewrite H8. reflexivity.
    - apply Z.eqb_neq in H8. rewrite H8. reflexivity.
    - apply Z.eqb_neq in H8. rewrite H8. reflexivity.
  Qed.
  Lemma e_of_even q : (q mod 4 = 0)%Z -> In (e_of q) evens.
  Proof. intros H. destruct (e_of_cases q H) as [[_ [E|E]]|[_ [E|E]]]; rewrite E; simpl; auto. Qed.
  Lemma with_int1_sem q (f : loc1 -> loc1) a t : (q mod 4 = 0)%Z ->
    with_int1 q f a t = Some (tab_apply1 (fun p => if odd_e (e_of q) then f p else p) a t).
  Proof.
    intros Hq. unfold with_int1, expo_int. rewrite (odd_e_of q Hq).
    destruct (q mod 8 =? 0)%Z eqn:E8; simpl.
    - rewrite tab_apply1_id by reflexivity. reflexivity.
    - rewrite (proj2 (Z.eqb_eq _ _) Hq). reflexivity.
  Qed.
  Lemma with_int2_sem q (f : loc2 -> loc2) c x t : (q mod 4 = 0)%Z ->
    with_int2 q f c x t = Some (tab_apply2 (fun p => if odd_e (e_of q) then f p else p) c x t).
  Proof.
    intros Hq. unfold with_int2, expo_int. rewrite (odd_e_of q Hq).
    destruct (q mod 8 =? 0)%Z eqn:E8; simpl.
    - rewrite tab_apply2_id by reflexivity. reflexivity.
    - rewrite (proj2 (Z.eqb_eq _ _) Hq). reflexivity.
  Qed.

  Ltac is_mk2 := unfold gate_x, gate_y, gate_z, gate_h, spec_XPow, spec_YPow, spec_ZPow, spec_HPow; do 4 eexists; reflexivity.
  Ltac is_mk4 := unfold gate_cz, gate_cx, gate_swap, spec_CZPow, spec_CXPow, spec_SwapPow, spec_XPow;
                 eexists (_, _, _, _), (_, _, _, _), (_, _, _, _), (_, _, _, _); reflexivity.

  (* every admissible gate of the vocabulary denotes a matrix satisfying the conjugation lemma, and apply_gate is its rule *)
  Theorem sem_of_sound n g ph phc lg : kmul O ph phc = k1 O -> axes_ok n g -> sem_of O g ph = Some lg ->
    lg_ok O n lg /\ forall t, apply_gate g t = Some (lg_tab lg t).
  Proof.
    intros U Hax Hs. destruct g as [q a|q a|q a|q a|q c x|q c x|q c x|]; simpl in Hs, Hax.
    - destruct (q mod 2 =? 0)%Z eqn:Eq; [|discriminate]. apply Z.eqb_eq in Eq. injection Hs as <-. split.
      + split; [is_mk2|]. split; [exact Hax|]. exact (proj1 (rule_is_conjugation_X O L ph phc U (e_of q) (e_of_lt q))).
      + intros t. simpl. apply (with_half_sem q rule_x a t Eq rule_x_0).
    - destruct (q mod 2 =? 0)%Z eqn:Eq; [|discriminate]. apply Z.eqb_eq in Eq. injection Hs as <-. split.
      + split; [is_mk2|]. split; [exact Hax|]. exact (proj1 (rule_is_conjugation_Y O L ph phc U (e_of q) (e_of_lt q))).
      + intros t. simpl. apply (with_half_sem q rule_y a t Eq rule_y_0).
    - destruct (q mod 2 =? 0)%Z eqn:Eq; [|discriminate]. apply Z.eqb_eq in Eq. injection Hs as <-. split.
      + split; [is_mk2|]. split; [exact Hax|]. exact (proj1 (rule_is_conjugation_Z O L ph phc U (e_of q) (e_of_lt q))).
      + intros t. simpl. apply (with_half_sem q rule_z a t Eq rule_z_0).
    - destruct (q mod 4 =? 0)%Z eqn:Eq; [|discriminate]. apply Z.eqb_eq in Eq. injection Hs as <-. split.
      + split; [is_mk2|]. split; [exact Hax|]. exact (proj1 (rule_is_conjugation_H O L ph phc U (e_of q) (e_of_even q Eq))).
      + intros t. simpl. apply (with_int1_sem q rule_h a t Eq).
    - destruct (q mod 4 =? 0)%Z eqn:Eq; [|discriminate]. apply Z.eqb_eq in Eq. injection Hs as <-. split.
      + split; [is_mk4|]. destruct Hax as [H1 [H2 H3]]. repeat split; try assumption.
        exact (proj1 (rule_is_conjugation_CZ O L ph phc U (e_of q) (e_of_even q Eq))).
      + intros t. simpl. apply (with_int2_sem q rule_cz c x t Eq).
    - destruct (q mod 4 =? 0)%Z eqn:Eq; [|discriminate]. apply Z.eqb_eq in Eq. injection Hs as <-. split.
      + split; [is_mk4|]. destruct Hax as [H1 [H2 H3]]. repeat split; try assumption.
        exact (proj1 (rule_is_conjugation_CX O L ph phc U (e_of q) (e_of_even q Eq))).
      + intros t. simpl. apply (with_int2_sem q rule_cx c x t Eq).
    - destruct (q mod 4 =? 0)%Z eqn:Eq; [|discriminate]. injection Hs as <-. split.
      + apply Z.eqb_eq in Eq. split; [is_mk4|]. destruct Hax as [H1 [H2 H3]]. repeat split; try assumption.
        exact (proj1 (rule_is_conjugation_SWAP O L ph phc U (e_of q) (e_of_even q Eq))).
      + intros t. simpl. rewrite Eq. apply Z.eqb_eq in Eq. rewrite (odd_e_of q Eq). reflexivity.
    - injection Hs as <-. split.
      + split; [do 4 eexists; reflexivity|]. split; [exact Hax|].
        intros [[[|] [|]] [|]]; cbv -[kadd kmul kopp ksub kconj k0 k1 ki khalf ks2];
          repeat match goal with |- (_ :: _) = (_ :: _) => apply (f_equal2 cons) | |- @nil _ = @nil _ => reflexivity end; ring.
      + intros t. exact (f_equal Some (eq_sym (tab_apply1_id (fun p : loc1 => p) 0 t (fun p => eq_refl)))).
  Qed.

  Lemma sem_circuit_sound n : forall gs lgs,
    Forall (fun gp => axes_ok n (fst gp) /\ exists phc, kmul O (snd gp) phc = k1 O) gs ->
    sem_circuit O gs = Some lgs ->
    Forall (lg_ok O n) lgs /\ forall t, apply_gates (map fst gs) t = Some (tab_after lgs t).
  Proof.
    induction gs as [|[g ph] gs IH]; intros lgs Hok Hs; simpl in Hs.
    - injection Hs as <-. split; [constructor|reflexivity].
    - destruct (sem_of O g ph) as [l|] eqn:El; [|discriminate].
      destruct (sem_circuit O gs) as [ls|] eqn:Els; [|discriminate]. injection Hs as <-.
      inversion Hok as [|? ? [Hax [phc Hu]] Hrest]; subst. simpl in Hax, Hu.
      destruct (sem_of_sound n g ph phc l Hu Hax El) as [Hl Ht]. destruct (IH ls Hrest eq_refl) as [Hls Hts].
      split; [constructor; assumption|]. intros t. simpl. rewrite Ht. rewrite Hts. reflexivity.
  Qed.

  (* The end-to-end statements about the model the correspondence run tests: *)
  Theorem model_tableau_tracks n gs lgs :
    Forall (fun gp => axes_ok n (fst gp) /\ exists phc, kmul O (snd gp) phc = k1 O) gs ->
    sem_circuit O gs = Some lgs ->
    forall t, apply_gates (map fst gs) t = Some (map (rows_after lgs) t) /\
    forall row psi i, length (rbits row) = n -> wf n i ->
      lg_run O lgs (pauli_act O row psi) i = pauli_act O (rows_after lgs row) (lg_run O lgs psi) i.
  Proof.
    intros Hok Hs t. destruct (sem_circuit_sound n gs lgs Hok Hs) as [Hl Ht]. split.
    - rewrite Ht. rewrite tab_after_map. reflexivity.
    - intros row psi i Hr Hw. apply (tableau_tracks O L n lgs Hl); assumption.
  Qed.

  Theorem model_stabilizers_stabilize n bits gs lgs t' : length bits = n ->
    Forall (fun gp => axes_ok n (fst gp) /\ exists phc, kmul O (snd gp) phc = k1 O) gs ->
    sem_circuit O gs = Some lgs ->
    apply_gates (map fst gs) (init_tableau n bits) = Some t' ->
    forall row, In row (skipn n t') -> forall i, wf n i ->
      pauli_act O row (lg_run O lgs (ket O bits)) i = lg_run O lgs (ket O bits) i.
  Proof.
    intros Hb Hok Hs Ht row Hin i Hw. destruct (sem_circuit_sound n gs lgs Hok Hs) as [Hl Hts].
    rewrite Hts in Ht. injection Ht as <-. apply (stabilizers_stabilize O L n bits lgs Hb Hl row Hin i Hw).
  Qed.
End Circ.
