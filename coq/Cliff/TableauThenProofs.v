(* C13.D4 (partial) — CliffordTableau.then / inverse, as modelled in Tableau.v in the shape of the code (integer matrix
   formula of arXiv:2009.03218 Thm 36), agree with the specification "substitute the rows of the second tableau for the
   generators and multiply" — exhaustively for n = 1 (24 tableaux) and n = 2 (all 11520 tableaux that pass _validate,
   every one of the 32 signed rows), by vm_compute.  The statement for general n is not proved (see DESIGN C13). *)
From Coq Require Import List Bool ZArith Arith.
From VF Require Import Base.RingOps Base.Mat Base.K8 Base.Harness Gates.GateSpecs Cliff.Tableau Cliff.TableauSem
  Cliff.TableauThen Cliff.CliffGroup.
Import ListNotations.

(* the phase table of single-qubit Pauli products is the one of the matrices: A B = i^(pphase A B) (A xor B) *)
Lemma pphase_ok :
  forallb (fun a => forallb (fun b =>
     k8m_eqb (mmul K8Ops (pm K8Ops a) (pm K8Ops b))
             (mscale K8Ops (kpow K8Ops (ki K8Ops) (Z.to_nat (pphase a b))) (pm K8Ops (xorb (fst a) (fst b), xorb (snd a) (snd b)))))
     pbits1) pbits1 = true.
Proof. vm_compute. reflexivity. Qed.

Lemma valid_counts : length (valid_tabs 1) = 24 /\ length (valid_tabs 2) = 11520.
Proof. split; vm_compute; reflexivity. Qed.

Theorem tableau_then_ok_partial : then_check 1 = true /\ then_check 2 = true.
Proof. split; vm_compute; reflexivity. Qed.

Theorem tableau_inverse_ok_partial : inverse_check 1 = true /\ inverse_check 2 = true.
Proof. split; vm_compute; reflexivity. Qed.
