(* C13 — the padded tableau of a CliffordGate object is the tableau of the same gate placed on the chosen axes
   (ops/clifford_gate.py: _pad_tableau), for every k, n and every list of k distinct axes below n:
   padding commutes with every tableau rule of the gate vocabulary (pad (g t) = g' (pad t), g' = g on the remapped axes),
   the padded identity is the identity, hence the padded tableau of a circuit on k qubits is the tableau of the circuit
   remapped to the axes; with C13_model_tableau_tracks its rows are U P U^dagger of the remapped circuit's unitary.
   In particular the qubit ORDER matters: the padded tableau is the identity-order one only for axes = 0..k-1. *)
From Coq Require Import List Bool ZArith Arith Lia.
From VF Require Import Base.RingOps Base.Mat Base.Tensor Gates.GateSpecs Cliff.Tableau Cliff.TableauSem Cliff.TableauCircuit
  Cliff.TableauPad Cliff.TableauLiftProofs Cliff.TableauTrackProofs Cliff.TableauCircuitProofs.
Import ListNotations.

Definition axes_wf (k n : nat) (axes : list nat) : Prop := length axes = k /\ NoDup axes /\ Forall (fun a => a < n) axes.
Definition tab_shape (k : nat) (t : tableau) : Prop := length t = 2 * k /\ Forall (fun row => length (rbits row) = k) t.

(* ---- index_of ---- *)
Lemma index_of_spec a axes j : index_of a axes = Some j -> j < length axes /\ nth j axes 0 = a.
Proof.
  revert j. induction axes as [|b r IH]; intros j H; simpl in *; [discriminate|].
  destruct (Nat.eqb a b) eqn:E.
  - inversion H; subst. apply Nat.eqb_eq in E. split; [lia|auto].
  - destruct (index_of a r) as [j'|]; [|discriminate]. inversion H; subst. destruct (IH j' eq_refl). split; [lia|auto].
Qed.
Lemma index_of_none a axes : index_of a axes = None -> ~ In a axes.
Proof.
  induction axes as [|b r IH]; intros H; simpl in *; [tauto|].
  destruct (Nat.eqb a b) eqn:E; [discriminate|]. apply Nat.eqb_neq in E.
  destruct (index_of a r); [discriminate|]. intros [X|X]; [congruence|]. apply IH; auto.
Qed.
Lemma index_of_nth axes : NoDup axes -> forall a, a < length axes -> index_of (nth a axes 0) axes = Some a.
Proof.
  induction 1 as [|b r Hn Hd IH]; intros a Ha; simpl in *; [lia|].
  destruct a as [|a].
  - rewrite Nat.eqb_refl. reflexivity.
  - destruct (Nat.eqb (nth a r 0) b) eqn:E.
    + apply Nat.eqb_eq in E. exfalso. apply Hn. rewrite <- E. apply nth_In. lia.
    + rewrite IH by lia. reflexivity.
Qed.

(* ---- scatter ---- *)
Lemma nth_map_seq0 {A} (f : nat -> A) n k d : k < n -> nth k (map f (seq 0 n)) d = f k.
Proof.
  intros H. rewrite (nth_indep _ d (f 0)) by (rewrite map_length, seq_length; exact H).
  rewrite (map_nth f (seq 0 n) 0 k). rewrite seq_nth by exact H. reflexivity.
Qed.
Lemma scatter_length n axes bits : length (scatter_bits n axes bits) = n.
Proof. unfold scatter_bits. rewrite map_length, seq_length. reflexivity. Qed.
Lemma nth_scatter n axes bits i : i < n ->
  nth i (scatter_bits n axes bits) II = match index_of i axes with Some j => nth j bits II | None => II end.
Proof. intros H. unfold scatter_bits. apply nth_map_seq0. exact H. Qed.
Lemma scatter_set_nth k n axes bits a v : axes_wf k n axes -> a < k -> length bits = k ->
  set_nth (scatter_bits n axes bits) (nth a axes 0) v = scatter_bits n axes (set_nth bits a v).
Proof.
  intros (Hl & Hd & Hb) Ha Hbits.
  assert (Hlt : nth a axes 0 < n) by (rewrite Forall_forall in Hb; apply Hb, nth_In; lia).
  apply nth_ext with (d := II) (d' := II); [rewrite set_nth_length, !scatter_length; reflexivity|].
  intros i Hi. rewrite set_nth_length, scatter_length in Hi.
  destruct (Nat.eq_dec (nth a axes 0) i) as [E|E].
  - subst i. rewrite nth_set_nth_same by (rewrite scatter_length; exact Hlt).
    rewrite nth_scatter by exact Hlt. rewrite index_of_nth by (auto; lia). rewrite nth_set_nth_same by lia. reflexivity.
  - rewrite nth_set_nth_other by exact E. rewrite !nth_scatter by exact Hi.
    destruct (index_of i axes) as [j|] eqn:Ej; [|reflexivity].
    destruct (index_of_spec _ _ _ Ej) as [_ Hj]. rewrite nth_set_nth_other; [reflexivity|]. intros ->. congruence.
Qed.
Lemma bit_at_scatter k n axes row a : axes_wf k n axes -> a < k ->
  bit_at (scatter_row n axes row) (nth a axes 0) = bit_at row a.
Proof.
  intros (Hl & Hd & Hb) Ha. unfold bit_at, scatter_row. simpl.
  assert (Hlt : nth a axes 0 < n) by (rewrite Forall_forall in Hb; apply Hb, nth_In; lia).
  rewrite nth_scatter by exact Hlt. rewrite index_of_nth by (auto; lia). reflexivity.
Qed.
Lemma scatter_row_apply1 f k n axes row a : axes_wf k n axes -> a < k -> length (rbits row) = k ->
  row_apply1 f (nth a axes 0) (scatter_row n axes row) = scatter_row n axes (row_apply1 f a row).
Proof.
  intros W Ha Hr. unfold row_apply1. rewrite (bit_at_scatter k) by assumption.
  destruct (bit_at row a) as [x z]. simpl rsign. destruct (f (x, z, rsign row)) as [[x' z'] r'].
  unfold scatter_row. simpl. rewrite (scatter_set_nth k) by assumption. reflexivity.
Qed.
Lemma scatter_row_apply2 f k n axes row c t : axes_wf k n axes -> c < k -> t < k -> length (rbits row) = k ->
  row_apply2 f (nth c axes 0) (nth t axes 0) (scatter_row n axes row) = scatter_row n axes (row_apply2 f c t row).
Proof.
  intros W Hc Ht Hr. unfold row_apply2. rewrite !(bit_at_scatter k) by assumption.
  destruct (bit_at row c) as [xc zc]. destruct (bit_at row t) as [xt zt]. simpl rsign.
  destruct (f (xc, zc, xt, zt, rsign row)) as [[[[xc' zc'] xt'] zt'] r'].
  unfold scatter_row. simpl. rewrite (scatter_set_nth k) by assumption.
  rewrite (scatter_set_nth k) by (try assumption; rewrite set_nth_length; assumption). reflexivity.
Qed.

(* ---- the rows of the generators outside the axes are left alone by rules that fix the identity ---- *)
Definition idfix1 (f : loc1 -> loc1) : Prop := f (false, false, false) = (false, false, false).
Definition idfix2 (f : loc2 -> loc2) : Prop := f (false, false, false, false, false) = (false, false, false, false, false).
Lemma nth_unit n i p k : nth k (unit_bits n i p) II = if Nat.eqb i k && Nat.ltb k n then p else II.
Proof.
  unfold unit_bits. destruct (Nat.ltb k n) eqn:E.
  - apply Nat.ltb_lt in E. rewrite nth_map_seq0 by exact E. rewrite andb_true_r. reflexivity.
  - apply Nat.ltb_ge in E. rewrite nth_overflow by (rewrite map_length, seq_length; exact E). rewrite andb_false_r. reflexivity.
Qed.
Lemma set_nth_nth' {A} (l : list A) a d : set_nth l a (nth a l d) = l.
Proof. revert a. induction l as [|x l IH]; intros [|a]; simpl; auto. f_equal. apply IH. Qed.
Lemma unit_row_apply1 f n i p b : idfix1 f -> i <> b ->
  row_apply1 f b (mkRow (unit_bits n i p) false) = mkRow (unit_bits n i p) false.
Proof.
  intros Hf Hn. unfold row_apply1, bit_at. simpl.
  assert (E : nth b (unit_bits n i p) II = II).
  { rewrite nth_unit. destruct (Nat.eqb i b) eqn:X; [apply Nat.eqb_eq in X; congruence|reflexivity]. }
  pose proof (set_nth_nth' (unit_bits n i p) b II) as S. rewrite E in S.
  rewrite E. rewrite Hf. rewrite S. reflexivity.
Qed.
Lemma unit_row_apply2 f n i p c t : idfix2 f -> i <> c -> i <> t ->
  row_apply2 f c t (mkRow (unit_bits n i p) false) = mkRow (unit_bits n i p) false.
Proof.
  intros Hf Hc Ht. unfold row_apply2, bit_at. simpl.
  assert (E : forall b, i <> b -> nth b (unit_bits n i p) II = II).
  { intros b Hb. rewrite nth_unit. destruct (Nat.eqb i b) eqn:X; [apply Nat.eqb_eq in X; congruence|reflexivity]. }
  pose proof (set_nth_nth' (unit_bits n i p) c II) as Sc. rewrite (E c Hc) in Sc.
  pose proof (set_nth_nth' (unit_bits n i p) t II) as St. rewrite (E t Ht) in St.
  rewrite (E c Hc), (E t Ht). rewrite Hf. rewrite Sc, St. reflexivity.
Qed.

(* ---- padding commutes with the tableau rules ---- *)
Lemma nth_map_in {A B} (f : A -> B) l m d d' : m < length l -> nth m (map f l) d' = f (nth m l d).
Proof. intros H. rewrite (nth_indep _ d' (f d)) by (rewrite map_length; exact H). apply map_nth. Qed.
Lemma shape_row k t m : tab_shape k t -> m < 2 * k -> length (rbits (nth m t (zero_row k))) = k.
Proof. intros [Hl Hr] Hm. rewrite Forall_forall in Hr. apply Hr, nth_In. lia. Qed.
Lemma pad_half_apply1 f k n axes t off p a :
  axes_wf k n axes -> a < k -> tab_shape k t -> off <= k -> idfix1 f ->
  map (row_apply1 f (nth a axes 0)) (pad_half k n axes t off p) = pad_half k n axes (tab_apply1 f a t) off p.
Proof.
  intros W Ha S Hoff Hf. unfold pad_half. rewrite map_map. apply map_ext_in. intros i Hi.
  destruct (index_of i axes) as [j|] eqn:Ej.
  - destruct (index_of_spec _ _ _ Ej) as [Hj _]. assert (Hk : j < k) by (destruct W as (Wl & _); lia).
    unfold tab_apply1. rewrite (nth_map_in (row_apply1 f a) t (off + j) (zero_row k) (zero_row k)) by (destruct S; lia).
    apply (scatter_row_apply1 f k); auto. apply shape_row; auto. lia.
  - apply unit_row_apply1; [exact Hf|]. intros ->. apply (index_of_none _ _ Ej). apply nth_In. destruct W as (Wl & _). lia.
Qed.
Lemma pad_half_apply2 f k n axes t off p c x :
  axes_wf k n axes -> c < k -> x < k -> tab_shape k t -> off <= k -> idfix2 f ->
  map (row_apply2 f (nth c axes 0) (nth x axes 0)) (pad_half k n axes t off p) = pad_half k n axes (tab_apply2 f c x t) off p.
Proof.
  intros W Hc Hx S Hoff Hf. unfold pad_half. rewrite map_map. apply map_ext_in. intros i Hi.
  destruct (index_of i axes) as [j|] eqn:Ej.
  - destruct (index_of_spec _ _ _ Ej) as [Hj _]. assert (Hk : j < k) by (destruct W as (Wl & _); lia).
    unfold tab_apply2. rewrite (nth_map_in (row_apply2 f c x) t (off + j) (zero_row k) (zero_row k)) by (destruct S; lia).
    apply (scatter_row_apply2 f k); auto. apply shape_row; auto. lia.
  - destruct W as (Wl & _).
    apply unit_row_apply2; [exact Hf| |]; intros ->; apply (index_of_none _ _ Ej); apply nth_In; lia.
Qed.
Lemma pad_tab_apply1 f k n axes t a : axes_wf k n axes -> a < k -> tab_shape k t -> idfix1 f ->
  tab_apply1 f (nth a axes 0) (pad_tab k n axes t) = pad_tab k n axes (tab_apply1 f a t).
Proof.
  intros. unfold pad_tab. unfold tab_apply1 at 1. rewrite map_app. f_equal; apply pad_half_apply1; auto; lia.
Qed.
Lemma pad_tab_apply2 f k n axes t c x : axes_wf k n axes -> c < k -> x < k -> tab_shape k t -> idfix2 f ->
  tab_apply2 f (nth c axes 0) (nth x axes 0) (pad_tab k n axes t) = pad_tab k n axes (tab_apply2 f c x t).
Proof.
  intros. unfold pad_tab. unfold tab_apply2 at 1. rewrite map_app. f_equal; apply pad_half_apply2; auto; lia.
Qed.

Lemma idfix_x e : idfix1 (rule_x e).
Proof. unfold idfix1. destruct e as [|p|p]; try reflexivity. do 3 (try (destruct p as [p|p|]; try reflexivity)). Qed.
Lemma idfix_y e : idfix1 (rule_y e).
Proof. unfold idfix1. destruct e as [|p|p]; try reflexivity. do 3 (try (destruct p as [p|p|]; try reflexivity)). Qed.
Lemma idfix_z e : idfix1 (rule_z e).
Proof. unfold idfix1. destruct e as [|p|p]; try reflexivity. do 3 (try (destruct p as [p|p|]; try reflexivity)). Qed.
Lemma idfix_h : idfix1 rule_h. Proof. reflexivity. Qed.
Lemma idfix_cz : idfix2 rule_cz. Proof. reflexivity. Qed.
Lemma idfix_cx : idfix2 rule_cx. Proof. reflexivity. Qed.
Lemma idfix_swap b : idfix2 (rule_swap b). Proof. destruct b; reflexivity. Qed.

(* pad (g t) = g' (pad t): the gate on axis a of the k-qubit tableau is the gate on axis axes[a] of the padded one *)
Theorem pad_apply_gate k n axes g t : axes_wf k n axes -> gate_axes_ok k g -> tab_shape k t ->
  apply_gate (remap_gate axes g) (pad_tab k n axes t) = option_map (pad_tab k n axes) (apply_gate g t).
Proof.
  intros W G S. destruct g as [q a|q a|q a|q a|q c x|q c x|q c x|]; simpl in *; unfold remap.
  - unfold with_half. destruct (expo_half q); simpl; try reflexivity. f_equal. apply pad_tab_apply1; auto. apply idfix_x.
  - unfold with_half. destruct (expo_half q); simpl; try reflexivity. f_equal. apply pad_tab_apply1; auto. apply idfix_y.
  - unfold with_half. destruct (expo_half q); simpl; try reflexivity. f_equal. apply pad_tab_apply1; auto. apply idfix_z.
  - unfold with_int1. destruct (expo_int q); simpl; try reflexivity. f_equal. apply pad_tab_apply1; auto. apply idfix_h.
  - destruct G as (Hc & Hx & _). unfold with_int2. destruct (expo_int q); simpl; try reflexivity. f_equal.
    apply pad_tab_apply2; auto. apply idfix_cz.
  - destruct G as (Hc & Hx & _). unfold with_int2. destruct (expo_int q); simpl; try reflexivity. f_equal.
    apply pad_tab_apply2; auto. apply idfix_cx.
  - destruct G as (Hc & Hx & _). destruct (q mod 4 =? 0)%Z; simpl; try reflexivity. f_equal.
    apply pad_tab_apply2; auto. apply idfix_swap.
  - reflexivity.
Qed.

(* the rules keep the shape of a tableau *)
Lemma row_apply1_len f a row : length (rbits (row_apply1 f a row)) = length (rbits row).
Proof.
  unfold row_apply1. destruct (bit_at row a) as [x z]. destruct (f (x, z, rsign row)) as [[x' z'] r']. simpl. apply set_nth_length.
Qed.
Lemma row_apply2_len f c x row : length (rbits (row_apply2 f c x row)) = length (rbits row).
Proof.
  unfold row_apply2. destruct (bit_at row c) as [xc zc]. destruct (bit_at row x) as [xt zt].
  destruct (f (xc, zc, xt, zt, rsign row)) as [[[[a b] c'] d] r']. simpl. rewrite !set_nth_length. reflexivity.
Qed.
Lemma shape_map k t (g : prow -> prow) : (forall row, length (rbits (g row)) = length (rbits row)) ->
  tab_shape k t -> tab_shape k (map g t).
Proof.
  intros Hg [Hl Hr]. split; [rewrite map_length; exact Hl|]. rewrite Forall_forall in *. intros row Hin.
  apply in_map_iff in Hin. destruct Hin as (r0 & <- & Hin). rewrite Hg. apply Hr. exact Hin.
Qed.
Lemma apply_gate_shape k g t t' : tab_shape k t -> apply_gate g t = Some t' -> tab_shape k t'.
Proof.
  intros S H. destruct g as [q a|q a|q a|q a|q c x|q c x|q c x|]; simpl in H.
  1-3: unfold with_half in H; destruct (expo_half q); inversion H; subst; auto; apply shape_map; auto; intros; apply row_apply1_len.
  - unfold with_int1 in H. destruct (expo_int q); inversion H; subst; auto. apply shape_map; auto. intros; apply row_apply1_len.
  - unfold with_int2 in H. destruct (expo_int q); inversion H; subst; auto. apply shape_map; auto. intros; apply row_apply2_len.
  - unfold with_int2 in H. destruct (expo_int q); inversion H; subst; auto. apply shape_map; auto. intros; apply row_apply2_len.
  - destruct (q mod 4 =? 0)%Z; inversion H; subst. apply shape_map; auto. intros; apply row_apply2_len.
  - inversion H; subst; auto.
Qed.
Theorem pad_apply_gates k n axes gs : axes_wf k n axes -> Forall (gate_axes_ok k) gs -> forall t, tab_shape k t ->
  apply_gates (map (remap_gate axes) gs) (pad_tab k n axes t) = option_map (pad_tab k n axes) (apply_gates gs t).
Proof.
  intros W. induction 1 as [|g gs Hg Hgs IH]; intros t S; simpl; [reflexivity|].
  rewrite pad_apply_gate by assumption. destruct (apply_gate g t) as [t'|] eqn:E; simpl; [|reflexivity].
  apply IH. eapply apply_gate_shape; eauto.
Qed.

(* ---- the padded identity is the identity ---- *)
Lemma nth_nil {A} i (d : A) : nth i [] d = d. Proof. destruct i; reflexivity. Qed.
Lemma scatter_unit k n axes j p : axes_wf k n axes -> j < k ->
  scatter_bits n axes (unit_bits k j p) = unit_bits n (nth j axes 0) p.
Proof.
  intros (Hl & Hd & Hb) Hj.
  apply nth_ext with (d := II) (d' := II); [rewrite scatter_length; unfold unit_bits; rewrite map_length, seq_length; reflexivity|].
  intros i Hi. rewrite scatter_length in Hi. rewrite nth_scatter by exact Hi. rewrite nth_unit.
  assert (Li : Nat.ltb i n = true) by (apply Nat.ltb_lt; exact Hi). rewrite Li, andb_true_r.
  destruct (index_of i axes) as [j'|] eqn:Ej.
  - destruct (index_of_spec _ _ _ Ej) as [Hj' Hn]. rewrite nth_unit.
    assert (Lj : Nat.ltb j' k = true) by (apply Nat.ltb_lt; lia). rewrite Lj, andb_true_r.
    destruct (Nat.eqb j j') eqn:E1.
    + apply Nat.eqb_eq in E1. subst j'. rewrite Hn, Nat.eqb_refl. reflexivity.
    + apply Nat.eqb_neq in E1. destruct (Nat.eqb (nth j axes 0) i) eqn:E2; [|reflexivity].
      apply Nat.eqb_eq in E2. exfalso. apply E1. apply (proj1 (NoDup_nth axes 0) Hd); (lia || congruence).
  - destruct (Nat.eqb (nth j axes 0) i) eqn:E2; [|reflexivity]. apply Nat.eqb_eq in E2. exfalso.
    apply (index_of_none _ _ Ej). rewrite <- E2. apply nth_In. lia.
Qed.
Lemma init_row_x k j : j < k -> nth j (init_tableau k []) (zero_row k) = mkRow (unit_bits k j (true, false)) false.
Proof.
  intros H. unfold init_tableau. rewrite app_nth1 by (rewrite map_length, seq_length; exact H).
  apply (nth_map_seq0 (fun i => mkRow (unit_bits k i (true, false)) false) k j). exact H.
Qed.
Lemma init_row_z k j : j < k -> nth (k + j) (init_tableau k []) (zero_row k) = mkRow (unit_bits k j (false, true)) false.
Proof.
  intros H. unfold init_tableau. rewrite app_nth2 by (rewrite map_length, seq_length; lia).
  rewrite map_length, seq_length. replace (k + j - k) with j by lia. rewrite nth_map_seq0 by exact H. rewrite nth_nil. reflexivity.
Qed.
Theorem pad_init k n axes : axes_wf k n axes -> pad_tab k n axes (init_tableau k []) = init_tableau n [].
Proof.
  intros W. unfold pad_tab. unfold init_tableau at 3. f_equal; unfold pad_half; apply map_ext_in; intros i Hi.
  - destruct (index_of i axes) as [j|] eqn:Ej; [|reflexivity].
    destruct (index_of_spec _ _ _ Ej) as [Hj Hn]. assert (Hk : j < k) by (destruct W as (Wl & _); lia).
    simpl (0 + j). rewrite init_row_x by exact Hk. unfold scatter_row. simpl. rewrite (scatter_unit k) by assumption. rewrite Hn. reflexivity.
  - rewrite nth_nil. destruct (index_of i axes) as [j|] eqn:Ej; [|reflexivity].
    destruct (index_of_spec _ _ _ Ej) as [Hj Hn]. assert (Hk : j < k) by (destruct W as (Wl & _); lia).
    rewrite init_row_z by exact Hk. unfold scatter_row. simpl. rewrite (scatter_unit k) by assumption. rewrite Hn. reflexivity.
Qed.
Lemma init_shape k : tab_shape k (init_tableau k []).
Proof.
  split; [unfold init_tableau; rewrite app_length, !map_length, seq_length; lia|].
  unfold init_tableau. rewrite Forall_forall. intros row Hin. apply in_app_or in Hin.
  destruct Hin as [Hin|Hin]; apply in_map_iff in Hin; destruct Hin as (i & <- & _); simpl; unfold unit_bits;
    rewrite map_length, seq_length; reflexivity.
Qed.

(* the tableau of a circuit on k qubits, padded to the axes, is the tableau of the circuit remapped to the axes *)
Theorem pad_tab_of_circuit k n axes gs t : axes_wf k n axes -> Forall (gate_axes_ok k) gs ->
  apply_gates gs (init_tableau k []) = Some t ->
  apply_gates (map (remap_gate axes) gs) (init_tableau n []) = Some (pad_tab k n axes t).
Proof.
  intros W G H. rewrite <- (pad_init k n axes W). rewrite (pad_apply_gates k n axes gs W G _ (init_shape k)). rewrite H. reflexivity.
Qed.

(* the inputs act_cgate accepts satisfy the hypotheses *)
Lemma nodupb_NoDup l : nodupb l = true -> NoDup l.
Proof.
  induction l as [|a r IH]; intros H; [constructor|]. simpl in H. apply andb_true_iff in H. destruct H as [H1 H2].
  constructor; [|apply IH; exact H2]. intros Hin. apply negb_true_iff in H1.
  assert (X : existsb (Nat.eqb a) r = true) by (apply existsb_exists; exists a; split; [exact Hin|apply Nat.eqb_refl]). congruence.
Qed.
Theorem axes_valid_wf k n axes : axes_valid k n axes = true -> axes_wf k n axes.
Proof.
  unfold axes_valid. intros H. apply andb_true_iff in H. destruct H as [H H3]. apply andb_true_iff in H. destruct H as [H1 H2].
  split; [apply Nat.eqb_eq; exact H1|]. split; [apply nodupb_NoDup; exact H3|].
  rewrite Forall_forall. intros a Ha. rewrite forallb_forall in H2. apply Nat.ltb_lt. apply H2. exact Ha.
Qed.

(* the order of the axes matters: CNOT padded with axes [1;0] is the CNOT with control 1 and target 0, and that is not the
   CNOT with control 0 and target 1 (the tableau a gate applied "in canonical order" would give) *)
Example pad_order_matters :
  let cx := match apply_gate (CCX_ 4 0 1) (init_tableau 2 []) with Some t => t | None => [] end in
  apply_gate (CCX_ 4 1 0) (init_tableau 2 []) = Some (pad_tab 2 2 [1; 0] cx) /\
  tab_eqb (pad_tab 2 2 [1; 0] cx) (pad_tab 2 2 [0; 1] cx) = false /\ pad_tab 2 2 [0; 1] cx = cx.
Proof. vm_compute. repeat split. Qed.
Example pad_hypotheses_satisfiable :
  axes_wf 2 3 [2; 0] /\ Forall (gate_axes_ok 2) [CH_ 4 0; CCX_ 4 0 1; CZ_ 2 1] /\
  (exists t, apply_gates [CH_ 4 0; CCX_ 4 0 1; CZ_ 2 1] (init_tableau 2 []) = Some t) /\ axes_valid 2 3 [2; 0] = true.
Proof.
  split; [apply axes_valid_wf; reflexivity|]. split; [repeat constructor; simpl; lia|]. split; [eexists; reflexivity|reflexivity].
Qed.

(* ---- with the tracking theorem: the rows of the padded tableau are U P U^dagger for the unitary U of the gate's circuit
   placed on the axes (in the order given) ---- *)
Lemma remap_axes_ok k n axes g : axes_wf k n axes -> 0 < n -> gate_axes_ok k g -> axes_ok n (remap_gate axes g).
Proof.
  intros (Hl & Hd & Hb) Hn G. rewrite Forall_forall in Hb.
  assert (R : forall a, a < k -> remap axes a < n) by (intros a Ha; apply Hb, nth_In; lia).
  destruct g as [q a|q a|q a|q a|q c x|q c x|q c x|]; simpl in *; auto.
  1-3: destruct G as (Hc & Hx & Hne); repeat split; auto; unfold remap; intros E; apply Hne;
       apply (proj1 (NoDup_nth axes 0) Hd); lia.
Qed.
Section PadTracks.
  Context {K : Type} (O : Ops K) (L : Laws O).
  Theorem padded_tableau_tracks k n axes (gs : list (cgate * K)) lgs t : axes_wf k n axes -> 0 < n ->
    Forall (fun gp => gate_axes_ok k (fst gp) /\ exists phc, kmul O (snd gp) phc = k1 O) gs ->
    apply_gates (map fst gs) (init_tableau k []) = Some t ->
    sem_circuit O (map (fun gp => (remap_gate axes (fst gp), snd gp)) gs) = Some lgs ->
    pad_tab k n axes t = map (rows_after lgs) (init_tableau n []) /\
    forall row psi i, length (rbits row) = n -> wf n i ->
      lg_run O lgs (pauli_act O row psi) i = pauli_act O (rows_after lgs row) (lg_run O lgs psi) i.
  Proof.
    intros W Hn G Ht Hs.
    assert (G' : Forall (fun gp => axes_ok n (fst gp) /\ exists phc, kmul O (snd gp) phc = k1 O)
                        (map (fun gp => (remap_gate axes (fst gp), snd gp)) gs)).
    { rewrite Forall_forall in *. intros gp Hin. apply in_map_iff in Hin. destruct Hin as (g0 & <- & Hin).
      destruct (G g0 Hin) as [Ga Gp]. simpl. split; [apply (remap_axes_ok k); auto|exact Gp]. }
    destruct (model_tableau_tracks O L n _ lgs G' Hs (init_tableau n [])) as [Ha Htr]. split; [|exact Htr].
    assert (Gk : Forall (gate_axes_ok k) (map fst gs)).
    { rewrite Forall_forall in *. intros g Hin. apply in_map_iff in Hin. destruct Hin as (g0 & <- & Hin). apply (G g0 Hin). }
    pose proof (pad_tab_of_circuit k n axes (map fst gs) t W Gk Ht) as P.
    rewrite map_map in Ha. simpl in Ha. rewrite map_map in P. rewrite P in Ha. inversion Ha. reflexivity.
  Qed.
End PadTracks.
