(* C14 model (definitions only): single-qubit Paulis, phases i^k, Pauli strings as insertion-ordered
   finite maps qubit -> Pauli with a coefficient, the product in the shape of
   MutablePauliString._imul_helper/_imul_atom_helper, dense strings (pauli_mask arithmetic and
   _vectorized_pauli_mul_phase), commutation tests, Pauli sums as keyed linear combinations, and the
   matrix semantics over a generic ring through Mat.kron. *)
From Coq Require Import List ZArith Bool QArith Qcanon Ring.
From VF Require Import Base.RingOps Base.Mat.
Import ListNotations.
Open Scope Z_scope.

(* ---------- the ring facts the Pauli theorems need (weaker than RingOps.Laws: no 1/2, no 1/sqrt2) ---------- *)
Record PLaws {K : Type} (O : Ops K) := mkPLaws {
  plaw_ring : ring_theory (k0 O) (k1 O) (kadd O) (kmul O) (ksub O) (kopp O) (@eq K);
  plaw_i : kmul O (ki O) (ki O) = kopp O (k1 O)
}.
Definition PLaws_of_Laws {K} (O : Ops K) (L : Laws O) : PLaws O := mkPLaws K O (law_ring O L) (law_i O L).

(* ---------- letters ---------- *)
Inductive pauli := pI | pX | pY | pZ.
(* PAULI_GATE_LIKE_TO_INDEX_MAP / DensePauliString.{I,X,Y,Z}_VAL: I=0 X=1 Y=2 Z=3 *)
Definition pcode (p : pauli) : Z := match p with pI => 0 | pX => 1 | pY => 2 | pZ => 3 end.
Definition pauli_of_code (z : Z) : pauli := match z with 1 => pX | 2 => pY | 3 => pZ | _ => pI end.
Definition pauli_eqb (a b : pauli) : bool := pcode a =? pcode b.
Definition is_pI (a : pauli) : bool := pcode a =? 0.
(* pauli_lhs ^ pauli_old *)
Definition pxor (a b : pauli) : pauli := pauli_of_code (Z.lxor (pcode a) (pcode b)).

(* _imul_atom_helper(key, pauli_lhs, sign): value returned (contribution to phase_log_i) *)
Definition atom_phase (lhs old : pauli) (sign : Z) : Z :=
  if is_pI lhs || is_pI old || pauli_eqb lhs old then 0
  else if (pcode old - pcode lhs) mod 3 =? 1 then sign else - sign.
(* _vectorized_pauli_mul_phase, one position: t = rhs*(lhs!=0) - lhs*(rhs!=0); ((t+1) % 3) - 1 *)
Definition vphase1 (lhs rhs : pauli) : Z :=
  let nz (p : pauli) := if is_pI p then 0 else 1 in
  (pcode rhs * nz lhs - pcode lhs * nz rhs + 1) mod 3 - 1.
(* Pauli.phased_pauli_product(self, other): exponent of i, for self <> I *)
Definition pindex (p : pauli) : Z := pcode p - 1.      (* Pauli._index: X=0 Y=1 Z=2 *)
Definition ppp_phase (a b : pauli) : Z :=
  if pauli_eqb a b || is_pI b then 0 else (pindex b - pindex a + 1) mod 3 - 1.
Definition ppp_letter (a b : pauli) : pauli :=
  if pauli_eqb a b then pI else if is_pI b then a else pauli_of_code ((- pindex a - pindex b) mod 3 + 1).
(* reference exponent: a . b = i^(mul_phase a b) (a xor b) as matrices *)
Definition mul_phase (a b : pauli) : Z :=
  match a, b with
  | pX, pY | pY, pZ | pZ, pX => 1
  | pY, pX | pZ, pY | pX, pZ => -1
  | _, _ => 0
  end.
Definition anticommute (a b : pauli) : bool := negb (is_pI a || is_pI b || pauli_eqb a b).

(* ---------- sparse strings: Python dict semantics (insertion order kept, pop + re-insert moves a key last) ---------- *)
Definition qid := Z.
Definition pmap := list (qid * pauli).
Fixpoint pm_get (m : pmap) (q : qid) : pauli :=
  match m with [] => pI | (k, p) :: r => if k =? q then p else pm_get r q end.
Fixpoint pm_mem (m : pmap) (q : qid) : bool :=
  match m with [] => false | (k, _) :: r => (k =? q) || pm_mem r q end.
Definition pm_pop (m : pmap) (q : qid) : pmap := filter (fun e => negb (fst e =? q)) m.
Definition pm_set (m : pmap) (q : qid) (p : pauli) : pmap :=
  if is_pI p then pm_pop m q else pm_pop m q ++ [(q, p)].
Definition pm_keys (m : pmap) : list qid := map fst m.
(* well-formed: distinct keys, no identity letters *)
Fixpoint nodupb (l : list Z) : bool :=
  match l with [] => true | x :: r => negb (existsb (Z.eqb x) r) && nodupb r end.
Definition pm_wf (m : pmap) : bool := nodupb (pm_keys m) && forallb (fun e => negb (is_pI (snd e))) m.
(* canonical form for comparisons: sorted by qubit id *)
Fixpoint pm_insert (e : qid * pauli) (m : pmap) : pmap :=
  match m with [] => [e] | x :: r => if fst e <=? fst x then e :: m else x :: pm_insert e r end.
Definition pm_sort (m : pmap) : pmap := fold_right pm_insert [] m.
Definition pm_eqb (a b : pmap) : bool :=
  (fix go (a b : pmap) := match a, b with
     | [], [] => true
     | (k, p) :: a', (k', p') :: b' => (k =? k') && pauli_eqb p p' && go a' b'
     | _, _ => false end) a b.

Definition atom_step (sign : Z) (st : pmap * Z) (e : qid * pauli) : pmap * Z :=
  let old := pm_get (fst st) (fst e) in
  (pm_set (fst st) (fst e) (pxor (snd e) old), snd st + atom_phase (snd e) old sign).
(* the loop of _imul_helper over other.items() *)
Definition imul_map (sign : Z) (self other : pmap) : pmap * Z := fold_left (atom_step sign) other (self, 0).

Section Strings.
  Context {K : Type} (O : Ops K).
  Notation "a *k b" := (kmul O a b) (at level 40, left associativity).

  (* 1j ** (phase_log_i & 3) *)
  Definition ipow (k : Z) : K :=
    match k mod 4 with 0 => k1 O | 1 => ki O | 2 => kopp O (k1 O) | _ => kopp O (ki O) end.

  Record pstr := mkP { coef : K; pm : pmap }.
  Definition ps_empty : pstr := mkP (k1 O) [].

  (* _imul_helper, Mapping branch (no coefficient of other) *)
  Definition imul_items (sign : Z) (self : pstr) (items : pmap) : pstr :=
    let r := imul_map sign (pm self) items in
    mkP (coef self *k ipow (Z.land (snd r) 3)) (fst r).
  (* _imul_helper, PauliString / MutablePauliString branch: sign = -1 gives self.other, sign = +1 gives other.self *)
  Definition imul (sign : Z) (self other : pstr) : pstr :=
    imul_items sign (mkP (coef self *k coef other) (pm self)) (pm other).
  (* PAULI_STRING_LIKE atoms and one level of iterables *)
  Inductive plike := LPS (p : pstr) | LNum (c : K) | LMap (m : pmap) | LId.
  Definition imul_like (sign : Z) (self : pstr) (x : plike) : pstr :=
    match x with
    | LPS p => imul sign self p
    | LNum c => mkP (coef self *k c) (pm self)
    | LMap m => imul_items sign self m
    | LId => self
    end.
  Definition imul_seq (sign : Z) (self : pstr) (l : list plike) : pstr :=
    fold_left (imul_like sign) (if sign =? 1 then rev l else l) self.
  (* _imul_helper_checkpoint applied to an iterable of contents *)
  Definition imul_contents (sign : Z) (self : pstr) (l : list plike) : pstr :=
    imul sign self (imul_seq sign ps_empty l).
  (* PauliString(..contents, qubit_pauli_map=m, coefficient=c) *)
  Definition ps_make (c : K) (m : pmap) (contents : list plike) : pstr :=
    match contents with [] => mkP c m | _ => imul_contents (-1) (mkP c m) contents end.
  (* PauliString.__mul__(self, other: PauliString) and (self, number) *)
  Definition ps_mul (a b : pstr) : pstr := ps_make (coef a) (pm a) [LPS b].
  Definition ps_mul_num (a : pstr) (c : K) : pstr := ps_make (coef a) (pm a) [LNum c].
  (* __rmul__ / __truediv__ with a number (the harness passes 1/d for division), __neg__, with_coefficient *)
  Definition ps_scale (a : pstr) (c : K) : pstr := mkP (coef a *k c) (pm a).
  Definition ps_neg (a : pstr) : pstr := mkP (kopp O (coef a)) (pm a).
  (* MutablePauliString.inplace_left_multiply_by / inplace_right_multiply_by / __imul__ on an atom *)
  Definition mps_inplace_left (self : pstr) (x : plike) : pstr :=
    match x with LPS _ | LNum _ => imul_like (-1) self x | _ => imul_contents (-1) self [x] end.
  Definition mps_inplace_right (self : pstr) (x : plike) : pstr :=
    match x with LPS _ | LNum _ => imul_like 1 self x | _ => imul_contents 1 self [x] end.

  (* map_qubits with an association list; None = ValueError (a key of the string is missing) *)
  Fixpoint assoc (f : list (Z * Z)) (q : Z) : option Z :=
    match f with [] => None | (k, v) :: r => if k =? q then Some v else assoc r q end.
  Fixpoint pm_map_keys (f : list (Z * Z)) (m : pmap) : option pmap :=
    match m with
    | [] => Some []
    | (k, p) :: r => match assoc f k, pm_map_keys f r with
                     | Some k', Some r' => Some ((k', p) :: r') | _, _ => None end
    end.
  Definition ps_map_qubits (f : list (Z * Z)) (a : pstr) : option pstr :=
    match pm_map_keys f (pm a) with Some m => Some (mkP (coef a) m) | None => None end.
  (* with_qubits(new...): positional *)
  Definition ps_with_qubits (new : list qid) (a : pstr) : option pstr :=
    if Nat.eqb (length new) (length (pm a)) then Some (mkP (coef a) (combine new (map snd (pm a)))) else None.

  (* commutation test of PauliString._commutes_: parity of positions present in both with different letters *)
  Definition ps_commutes (a b : pmap) : bool :=
    Nat.even (length (filter (fun e => pm_mem b (fst e) && negb (pauli_eqb (snd e) (pm_get b (fst e)))) a)).

  (* ---------- dense strings ---------- *)
  Definition letters (qs : list qid) (m : pmap) : list pauli := map (pm_get m) qs.
  Record dstr := mkD { dcoef : K; dmask : list pauli }.
  (* PauliString.dense(qubits): None = ValueError *)
  Definition ps_dense (qs : list qid) (a : pstr) : option dstr :=
    if forallb (fun k => existsb (Z.eqb k) qs) (pm_keys (pm a)) then Some (mkD (coef a) (letters qs (pm a))) else None.
  (* DensePauliString.on(qubits...) / sparse: None = ValueError *)
  Definition pm_of_dense (qs : list qid) (l : list pauli) : pmap :=
    filter (fun e => negb (is_pI (snd e))) (combine qs l).
  Definition ds_on (qs : list qid) (d : dstr) : option pstr :=
    if Nat.eqb (length qs) (length (dmask d)) then Some (mkP (dcoef d) (pm_of_dense qs (dmask d))) else None.
  Fixpoint pad (n : nat) (l : list pauli) : list pauli :=
    match n, l with 0%nat, _ => l | S n', [] => pI :: pad n' [] | S n', x :: r => x :: pad n' r end.
  (* xor of zero-padded masks *)
  Fixpoint mask_xor (a b : list pauli) : list pauli :=
    match a, b with
    | [], _ => b | _, [] => a
    | x :: a', y :: b' => pxor x y :: mask_xor a' b'
    end.
  (* sum of the per-position exponents over the common prefix *)
  Fixpoint vphase (a b : list pauli) : Z :=
    match a, b with x :: a', y :: b' => vphase1 x y + vphase a' b' | _, _ => 0 end.
  Definition ds_mul (a b : dstr) : dstr :=
    mkD (dcoef a *k dcoef b *k ipow (Z.land (vphase (dmask a) (dmask b)) 3)) (mask_xor (dmask a) (dmask b)).
  (* MutableDensePauliString.__imul__: None = ValueError (other longer than self); phase first, then other's coefficient *)
  Definition ds_imul (a b : dstr) : option dstr :=
    if Nat.ltb (length (dmask a)) (length (dmask b)) then None
    else Some (mkD (dcoef a *k ipow (Z.land (vphase (dmask a) (dmask b)) 3) *k dcoef b) (mask_xor (dmask a) (dmask b))).
  Definition ds_scale (a : dstr) (c : K) : dstr := mkD (dcoef a *k c) (dmask a).
  Definition ds_neg (a : dstr) : dstr := mkD (kopp O (dcoef a)) (dmask a).
  Definition ds_tensor (a b : dstr) : dstr := mkD (dcoef a *k dcoef b) (dmask a ++ dmask b).
  (* __pow__ with an integer: the harness supplies coefficient**power (cpow); odd keeps the mask, even gives eye * coef *)
  Definition ds_pow (a : dstr) (power : Z) (cpow : K) : dstr :=
    if Z.even power then mkD (k1 O *k cpow) (map (fun _ => pI) (dmask a)) else mkD cpow (dmask a).
  Definition ds_commutes (a b : list pauli) : bool := Z.even (vphase a b).

  (* ---------- matrix semantics ---------- *)
  Notation z0 := (k0 O). Notation z1 := (k1 O). Notation ii := (ki O).
  Definition pauli_mat (p : pauli) : matrix (K:=K) :=
    match p with
    | pI => [[z1; z0]; [z0; z1]]
    | pX => [[z0; z1]; [z1; z0]]
    | pY => [[z0; kopp O ii]; [ii; z0]]
    | pZ => [[z1; z0]; [z0; kopp O z1]]
    end.
  Fixpoint kron_list (l : list (matrix (K:=K))) : matrix :=
    match l with [] => [[z1]] | a :: r => kron O a (kron_list r) end.
  (* linalg.kron(coefficient, *[unitary(P_q) for q in qubits]) *)
  Definition dense_matrix (c : K) (l : list pauli) : matrix := mscale O c (kron_list (map pauli_mat l)).
  Definition ds_matrix (d : dstr) : matrix := dense_matrix (dcoef d) (dmask d).
  (* PauliString.matrix(qubits): qubits absent from the string carry the identity *)
  Definition ps_matrix (qs : list qid) (a : pstr) : matrix := dense_matrix (coef a) (letters qs (pm a)).

  (* ---------- vocabulary of the C14 theorem statements ---------- *)
  (* the identity string over a register, and the matrix each PAULI_STRING_LIKE atom stands for *)
  Definition id_matrix (qs : list qid) : matrix := dense_matrix z1 (map (fun _ => pI) qs).
  Definition plike_matrix (qs : list qid) (x : plike) : matrix :=
    match x with
    | LPS p => ps_matrix qs p
    | LNum c => dense_matrix c (map (fun _ => pI) qs)
    | LMap m => dense_matrix z1 (letters qs m)
    | LId => id_matrix qs
    end.
  (* a I + b P for the unit-coefficient string with letters l; PauliStringPhasor with phase wn on the -1 eigenspace
     and wp on the +1 eigenspace of P is (wp+wn)/2 I + (wp-wn)/2 P *)
  Definition lin_ip (l : list pauli) (a b : K) : matrix :=
    madd O (dense_matrix a (map (fun _ => pI) l)) (dense_matrix b l).
  Definition phasor_mat (l : list pauli) (wn wp : K) : matrix :=
    lin_ip l (khalf O *k kadd O wp wn) (khalf O *k ksub O wp wn).
  (* one row (lhs, old, sign, new, ret) of the regenerated _imul_atom_helper table, read as an equation between 2x2
     matrices: sign = -1 (inplace_left_multiply_by, PauliString.__mul__): old . lhs; sign = +1: lhs . old *)
  Definition atom_row_ok (row : Z * Z * Z * Z * Z) : Prop :=
    match row with (l, o, s, n, ret) =>
      let A := pauli_mat (pauli_of_code l) in let B := pauli_mat (pauli_of_code o) in
      (if (s =? 1)%Z then mmul O A B else mmul O B A) = mscale O (ipow ret) (pauli_mat (pauli_of_code n))
    end.

  (* ---------- Pauli sums: LinearDict keyed by the unit string (frozenset -> sorted list) ---------- *)
  Definition psum := list (pmap * K).       (* keys canonical (pm_sort), pairwise distinct *)
  Fixpoint ld_add (key : pmap) (c : K) (s : psum) : psum :=
    match s with
    | [] => [(key, c)]
    | (k, c') :: r => if pm_eqb k key then (k, kadd O c' c) :: r else (k, c') :: ld_add key c r
    end.
  (* from_pauli_strings: termdict[key] += coefficient *)
  Definition psum_of_terms (l : list pstr) : psum :=
    fold_left (fun s t => ld_add (pm_sort (pm t)) (coef t) s) l [].
  Definition psum_terms (s : psum) : list pstr := map (fun e => mkP (snd e) (fst e)) s.
  Definition psum_add (a b : psum) : psum := fold_left (fun s e => ld_add (fst e) (snd e) s) b a.
  Definition psum_neg (a : psum) : psum := map (fun e => (fst e, kopp O (snd e))) a.
  Definition psum_sub (a b : psum) : psum := fold_left (fun s e => ld_add (fst e) (kopp O (snd e)) s) b a.
  Definition psum_scale (a : psum) (c : K) : psum := map (fun e => (fst e, snd e *k c)) a.
  (* __imul__ with a PauliSum: from_pauli_strings([term * other_term for term in self for other_term in other]) *)
  Definition psum_mul (a b : psum) : psum :=
    psum_of_terms (flat_map (fun t => map (fun u => ps_mul t u) (psum_terms b)) (psum_terms a)).
  Fixpoint psum_pow (a : psum) (n : nat) : psum :=
    match n with 0%nat => [([], k1 O)] | 1%nat => a | S m => psum_mul (psum_pow a m) a end.
  Definition psum_matrix (qs : list qid) (s : psum) : matrix :=
    fold_right (fun e acc => madd O (ps_matrix qs (mkP (snd e) (fst e))) acc)
               (mzero O (Nat.pow 2 (length qs)) (Nat.pow 2 (length qs))) s.
End Strings.
Arguments mkP {K} _ _. Arguments coef {K} _. Arguments pm {K} _.
Arguments mkD {K} _ _. Arguments dcoef {K} _. Arguments dmask {K} _.
Arguments LPS {K} _. Arguments LNum {K} _. Arguments LMap {K} _. Arguments LId {K}.

(* side conditions of the theorems: the keys of a string are distinct and lie in the register the matrix is taken over;
   no stored letter is the identity (PauliString invariant); every term of a sum is such a string *)
Definition keys_ok (qs : list qid) (m : pmap) : Prop := NoDup (pm_keys m) /\ incl (pm_keys m) qs.
Definition no_I (m : pmap) : Prop := forall e, In e m -> snd e <> pI.
Definition plike_ok {K} (qs : list qid) (x : plike (K:=K)) : Prop :=
  match x with LPS p => keys_ok qs (pm p) | LMap m => keys_ok qs m | _ => True end.
Definition psum_ok {K} (qs : list qid) (s : psum (K:=K)) : Prop := Forall (fun e => keys_ok qs (fst e)) s.
Definition atom_domain : list (Z * Z * Z) :=
  flat_map (fun l => flat_map (fun o => [(l, o, 1%Z); (l, o, (-1)%Z)]) [0; 1; 2; 3]%Z) [0; 1; 2; 3]%Z.

(* ---------- the exact executable instance used by the correspondence run: Gaussian rationals Q(i) ---------- *)
Definition GQ := (Qc * Qc)%type.
Definition gq_add (a b : GQ) : GQ := (fst a + fst b, snd a + snd b)%Qc.
Definition gq_sub (a b : GQ) : GQ := (fst a - fst b, snd a - snd b)%Qc.
Definition gq_mul (a b : GQ) : GQ := (fst a * fst b - snd a * snd b, fst a * snd b + snd a * fst b)%Qc.
Definition gq_opp (a : GQ) : GQ := (- fst a, - snd a)%Qc.
Definition gq_conj (a : GQ) : GQ := (fst a, - snd a)%Qc.
(* ks2 has no value in Q(i); the Pauli model never uses it and PLaws does not mention it *)
Definition GQOps : Ops GQ :=
  mkOps GQ (Q2Qc 0, Q2Qc 0) (Q2Qc 1, Q2Qc 0) gq_add gq_mul gq_opp gq_sub gq_conj
        (Q2Qc 0, Q2Qc 1) (Q2Qc (1 # 2), Q2Qc 0) (Q2Qc 0, Q2Qc 0).
Definition gq (a : Z) (b : positive) (c : Z) (d : positive) : GQ := (Q2Qc (a # b), Q2Qc (c # d)).
Definition gq_eqb (a b : GQ) : bool := Qc_eq_bool (fst a) (fst b) && Qc_eq_bool (snd a) (snd b).
Definition ps_eqb (a b : pstr (K:=GQ)) : bool := gq_eqb (coef a) (coef b) && pm_eqb (pm_sort (pm a)) (pm_sort (pm b)).
Definition pl_eqb (a b : list pauli) : bool :=
  (fix go (a b : list pauli) := match a, b with
     | [], [] => true | x :: a', y :: b' => pauli_eqb x y && go a' b' | _, _ => false end) a b.
Definition ds_eqb (a b : dstr (K:=GQ)) : bool := gq_eqb (dcoef a) (dcoef b) && pl_eqb (dmask a) (dmask b).
(* sums compare as functions key -> coefficient, zero coefficients ignored *)
Definition gq_is0 (a : GQ) : bool := gq_eqb a (Q2Qc 0, Q2Qc 0).
Fixpoint ld_get (s : psum (K:=GQ)) (key : pmap) : GQ :=
  match s with [] => (Q2Qc 0, Q2Qc 0) | (k, c) :: r => if pm_eqb k key then gq_add c (ld_get r key) else ld_get r key end.
Definition psum_eqb (a b : psum (K:=GQ)) : bool :=
  forallb (fun e => gq_eqb (ld_get a (fst e)) (ld_get b (fst e))) (a ++ b).

(* exact inverse and integer powers in Q(i), used to model coefficient ** power (P ** -1, DensePauliString ** k) *)
Definition gq_inv (a : GQ) : GQ :=
  let n := (fst a * fst a + snd a * snd a)%Qc in (fst a / n, - snd a / n)%Qc.
Fixpoint gq_pow (a : GQ) (n : nat) : GQ := match n with O => (Q2Qc 1, Q2Qc 0) | S m => gq_mul a (gq_pow a m) end.
Definition gq_powZ (a : GQ) (z : Z) : GQ :=
  match z with Z0 => (Q2Qc 1, Q2Qc 0) | Zpos p => gq_pow a (Pos.to_nat p) | Zneg p => gq_inv (gq_pow a (Pos.to_nat p)) end.
Definition psumG := list (pmap * GQ).
