(* C13.D5 — the 24 single-qubit Clifford gates (definitions only): their tableaux from the regenerated table,
   the matrix of their decompose_gate() word built from the documented matrices of Gates/GateSpecs.v, evaluated
   in the exact field K8 = Q(zeta_8), and the decidable checks that clifford24_group_ok runs exhaustively. *)
From Coq Require Import List Bool ZArith Arith.
From VF Require Import Base.RingOps Base.Mat Base.K8 Base.Harness Gates.GateSpecs
  Cliff.Tableau Cliff.TableauSem Generated.TableauRules.
Import ListNotations.

Definition c24_tab (a : nat) : tableau :=
  let '((x, z, r), (x', z', r')) := nth a c24_bits ((false, false, false), (false, false, false)) in
  [mkRow [(x, z)] r; mkRow [(x', z')] r'].
Definition c24_index (t : tableau) : option nat := find_from (fun a => tab_eqb (c24_tab a) t) (seq 0 24) 0.
Definition model_merged : list (list (option nat)) :=
  map (fun a => map (fun b => c24_index (tab_then 1 (c24_tab a) (c24_tab b))) (seq 0 24)) (seq 0 24).
Definition model_inv : list (option nat) := map (fun a => c24_index (tab_inverse 1 (c24_tab a))) (seq 0 24).

Section Mats.
  Context {K : Type} (O : Ops K).
  Definition word_gate (fq : nat * Z) : matrix :=
    let e := Z.to_nat ((snd fq / 2) mod 8) in
    match fst fq with
    | 0 => gate_x O e (k1 O) | 1 => gate_y O e (k1 O) | 2 => gate_z O e (k1 O) | _ => gate_h O e (k1 O)
    end.
  (* gates of the word are applied in order: the matrix is the reversed product *)
  Definition word_matrix (w : list (nat * Z)) : matrix := fold_left (fun m fq => mmul O (word_gate fq) m) w (mid O 2).
  Definition c24_matrix (a : nat) : matrix := word_matrix (nth a c24_words []).
End Mats.

Definition k8m_eqb (a b : matrix (K:=K8)) : bool := list_eqb (list_eqb k8_eqb) a b.
Definition k8_phase_eqb (a b : matrix (K:=K8)) : bool :=
  existsb (fun k => k8m_eqb a (mscale K8Ops (kpow K8Ops (zeta K8Ops) k) b)) (seq 0 8).
Definition U24 (a : nat) : matrix (K:=K8) := c24_matrix K8Ops a.
(* the matrix conjugates X and Z to the signed Paulis the tableau records *)
Definition conj_matches (a : nat) : bool :=
  let u := U24 a in let ud := mdagger K8Ops u in
  let '(px, pz) := nth a c24_bits ((false, false, false), (false, false, false)) in
  k8m_eqb (mmul K8Ops (mmul K8Ops u (pms1 K8Ops (true, false, false))) ud) (pms1 K8Ops px) &&
  k8m_eqb (mmul K8Ops (mmul K8Ops u (pms1 K8Ops (false, true, false))) ud) (pms1 K8Ops pz) &&
  k8m_eqb (mmul K8Ops u ud) (mid K8Ops 2).
Definition merged_matches (a b : nat) : bool :=
  k8_phase_eqb (U24 (nth b (nth a c24_merged []) 24)) (mmul K8Ops (U24 b) (U24 a)).
Definition inv_matches (a : nat) : bool :=
  k8_phase_eqb (mmul K8Ops (U24 (nth a c24_inv 24)) (U24 a)) (mid K8Ops 2).
Definition distinct_tabs : bool :=
  forallb (fun a => forallb (fun b => Nat.eqb a b || negb (tab_eqb (c24_tab a) (c24_tab b))) (seq 0 24)) (seq 0 24).
(* named elements are the named matrices *)
Definition named_ok : bool :=
  k8m_eqb (U24 c24_I) (mid K8Ops 2) && k8m_eqb (U24 c24_X) (gate_x K8Ops 2 (k1 K8Ops)) &&
  k8m_eqb (U24 c24_Y) (gate_y K8Ops 2 (k1 K8Ops)) && k8m_eqb (U24 c24_Z) (gate_z K8Ops 2 (k1 K8Ops)) &&
  k8m_eqb (U24 c24_H) (gate_h K8Ops 2 (k1 K8Ops)) && k8m_eqb (U24 c24_S) (gate_z K8Ops 1 (k1 K8Ops)) &&
  k8m_eqb (U24 c24_X_sqrt) (gate_x K8Ops 1 (k1 K8Ops)) && k8m_eqb (U24 c24_X_nsqrt) (gate_x K8Ops 7 (k1 K8Ops)) &&
  k8m_eqb (U24 c24_Y_sqrt) (gate_y K8Ops 1 (k1 K8Ops)) && k8m_eqb (U24 c24_Y_nsqrt) (gate_y K8Ops 7 (k1 K8Ops)) &&
  k8m_eqb (U24 c24_Z_sqrt) (gate_z K8Ops 1 (k1 K8Ops)) && k8m_eqb (U24 c24_Z_nsqrt) (gate_z K8Ops 7 (k1 K8Ops)).
Definition group24_check : bool :=
  (length c24_bits =? 24) && distinct_tabs && named_ok &&
  forallb conj_matches (seq 0 24) &&
  forallb (fun a => forallb (merged_matches a) (seq 0 24)) (seq 0 24) &&
  forallb inv_matches (seq 0 24).
