(* C13.D4 — what `then` and `inverse` must compute (definitions only).  Row i of a gate tableau T is the image
   U g_i U^dagger of the generator g_i (X_1..X_n, Z_1..Z_n).  T1.then(T2) is the tableau of "U1 then U2", so its row i is
   the image under U2 of row i of T1: substitute T2's rows for the generators and multiply, keeping the power of i
   (Y_j = i X_j Z_j).  Products of signed Pauli strings carry a phase i^k, k mod 4; the per-qubit phase of a product is
   computed from the 2x2 matrices' multiplication table (pphase), independently of the code's g. *)
From Coq Require Import List Bool ZArith Arith.
From VF Require Import Cliff.Tableau.
Import ListNotations.
Local Open Scope Z_scope.

(* single-qubit products: I=(0,0) X=(1,0) Z=(0,1) Y=(1,1);  A * B = i^(pphase A B) (A xor B) *)
Definition pphase (a b : pbit) : Z :=
  match a, b with
  | (true, false), (true, true) => 1    (* X Y = i Z *)
  | (true, true), (false, true) => 1    (* Y Z = i X *)
  | (false, true), (true, false) => 1   (* Z X = i Y *)
  | (true, true), (true, false) => 3    (* Y X = -i Z *)
  | (false, true), (true, true) => 3    (* Z Y = -i X *)
  | (true, false), (false, true) => 3   (* X Z = -i Y *)
  | _, _ => 0
  end.
Record phrow := mkPh { ph_k : Z; ph_bits : list pbit }.     (* i^k * Pauli string *)
Fixpoint pphase_sum (a b : list pbit) : Z :=
  match a, b with
  | x :: a', y :: b' => pphase x y + pphase_sum a' b'
  | _, _ => 0
  end.
Definition ph_mul (a : phrow) (b : prow) : phrow :=
  mkPh ((ph_k a + 2 * Z.b2z (rsign b) + pphase_sum (ph_bits a) (rbits b)) mod 4) (xor_bits (ph_bits a) (rbits b)).
(* image of one signed row under the map generators -> rows of t2 *)
Definition image_row (n : nat) (t2 : tableau) (row : prow) : phrow :=
  fold_left (fun acc jp =>
               let j := fst jp in let xr := nth j t2 (zero_row n) in let zr := nth (n + j) t2 (zero_row n) in
               match snd jp with
               | (false, false) => acc
               | (true, false) => ph_mul acc xr
               | (false, true) => ph_mul acc zr
               | (true, true) => let a := ph_mul (ph_mul acc xr) zr in mkPh ((ph_k a + 1) mod 4) (ph_bits a)
               end)
            (combine (seq 0 n) (rbits row)) (mkPh (2 * Z.b2z (rsign row)) (repeat (false, false) n)).
(* a Hermitian result has k in {0, 2}; anything else is reported as None *)
Definition then_spec (n : nat) (t1 t2 : tableau) : option tableau :=
  fold_right (fun row acc =>
                let im := image_row n t2 row in
                match acc with
                | None => None
                | Some l => if (ph_k im =? 0) then Some (mkRow (ph_bits im) false :: l)
                            else if (ph_k im =? 2) then Some (mkRow (ph_bits im) true :: l) else None
                end) (Some []) t1.

(* enumeration of small tableaux for the exhaustive checks *)
Fixpoint all_bools (k : nat) : list (list bool) :=
  match k with O => [[]] | S m => flat_map (fun l => [false :: l; true :: l]) (all_bools m) end.
Fixpoint chunk_rows (n : nat) (rows : nat) (bits : list bool) : list (list pbit) :=
  match rows with
  | O => []
  | S m => combine (firstn n bits) (firstn n (skipn n bits)) :: chunk_rows n m (skipn (2 * n) bits)
  end.
Definition with_signs (bl : list (list pbit)) (signs : list bool) : tableau :=
  map (fun p => mkRow (fst p) (snd p)) (combine bl signs).
(* all 2n x 2n bit matrices (as row lists) that pass the symplectic test, each with every sign vector *)
Definition valid_mats (n : nat) : list (list (list pbit)) :=
  filter (fun bl => tab_validate n (with_signs bl (repeat false (2 * n))))
         (map (chunk_rows n (2 * n)) (all_bools (4 * n * n))).
Definition valid_tabs (n : nat) : list tableau :=
  flat_map (fun bl => map (with_signs bl) (all_bools (2 * n))) (valid_mats n).
Definition all_rows (n : nat) : list prow :=
  flat_map (fun b => [mkRow (combine (firstn n b) (skipn n b)) false; mkRow (combine (firstn n b) (skipn n b)) true])
           (all_bools (2 * n)).
Definition otab_is (a : option tableau) (b : tableau) : bool :=
  match a with Some x => tab_eqb x b | None => false end.
(* then agrees with the specification for every row and every valid second tableau *)
Definition then_check (n : nat) : bool :=
  forallb (fun t2 => forallb (fun row => otab_is (then_spec n [row] t2) (tab_then n [row] t2)) (all_rows n)) (valid_tabs n).
Definition ident_tab (n : nat) : tableau := init_tableau n [].
Definition inverse_check (n : nat) : bool :=
  forallb (fun t => let ti := tab_inverse n t in
                    tab_validate n ti && otab_is (then_spec n ti t) (ident_tab n) && otab_is (then_spec n t ti) (ident_tab n)
                    && tab_eqb (tab_then n ti t) (ident_tab n) && tab_eqb (tab_then n t ti) (ident_tab n))
          (valid_tabs n).
