(* C13 — checker used by the correspondence run for the CH form (definitions only): replays the implementation's
   trace through the model instantiated at the float instance; the binary fields are compared exactly, omega within a
   tolerance.  Also the exact small-circuit check used by chform_small_ok. *)
From Coq Require Import List Bool ZArith Arith PrimFloat.
From VF Require Import Base.RingOps Base.Mat Base.Tensor Base.FloatInst Base.Harness Base.K8 Gates.GateSpecs
  Cliff.Tableau Cliff.TableauSem Cliff.TableauCircuit Cliff.CHForm Cliff.CliffGroup.
Import ListNotations.
Local Open Scope nat_scope.

Definition bm (m : list (list nat)) : bmat := map (map (fun d => negb (Nat.eqb d 0))) m.
Definition bv (v : list nat) : bvec := map (fun d => negb (Nat.eqb d 0)) v.
Definition C (f g m : list (list nat)) (gam : list Z) (v s : list nat) (om : FC) : chst (K:=FC) :=
  mkCH (bm f) (bm g) (bm m) gam (bv v) (bv s) om.
Definition bmat_eqb (a b : bmat) : bool := list_eqb bvec_eqb a b.
Definition TOLCH : float := 0x1p-26%float.
Definition ch_eqb (a b : chst (K:=FC)) : bool :=
  bmat_eqb (chF a) (chF b) && bmat_eqb (chG a) (chG b) && bmat_eqb (chM a) (chM b) && zl_eqb (chgam a) (chgam b)
  && bvec_eqb (chv a) (chv b) && bvec_eqb (chs a) (chs b) && fc_close TOLCH (chom a) (chom b).
Definition och_eqb (a b : option (chst (K:=FC))) : bool :=
  match a, b with Some x, Some y => ch_eqb x y | None, None => true | _, _ => false end.

Inductive chstep :=
| HG (g : cgate) (ph : FC) (after : option (chst (K:=FC)))
| HM (q : nat) (bits : list bool) (after : chst (K:=FC)) (outcome : bool)
| HSkip (after : chst (K:=FC)).
Fixpoint ch_steps (cur : chst (K:=FC)) (steps : list chstep) (k : nat) : option nat :=
  match steps with
  | [] => None
  | HG g ph after :: r =>
      if och_eqb (ch_apply FOps g ph cur) after
      then ch_steps (match after with Some c => c | None => cur end) r (S k) else Some k
  | HM q bits after o :: r =>
      match ch_measure FOps q bits cur with
      | Some (c', o') => if ch_eqb c' after && Bool.eqb o o' then ch_steps after r (S k) else Some k
      | None => Some k
      end
  | HSkip after :: r => ch_steps after r (S k)
  end.
Definition chtrace := (chst (K:=FC) * list chstep)%type.
Fixpoint bad_chtraces (ts : list chtrace) (i : nat) : list (nat * nat) :=
  match ts with
  | [] => []
  | (c0, steps) :: r =>
      match ch_steps c0 steps 0 with
      | None => bad_chtraces r (S i)
      | Some k => (i, k) :: bad_chtraces r (S i)
      end
  end.

(* ---- exact small-circuit check in K8: the CH-form state vector of every word over a generator set equals the
   reference state-vector semantics (Base/Tensor.v run_tab on the documented gate matrices), phase included ---- *)
Fixpoint words {A} (gens : list A) (len : nat) : list (list A) :=
  match len with
  | 0 => [[]]
  | S m => [] :: flat_map (fun w => map (fun g => g :: w) gens) (words gens m)
  end.
Definition k8v_eqb (a b : list K8) : bool := list_eqb k8_eqb a b.
Definition ref_vector (n : nat) (gs : list (cgate * K8)) : option (list K8) :=
  match sem_circuit K8Ops gs with
  | Some lgs => Some (run_tab K8Ops (repeat 2 n) (map lg_rop lgs) (basis K8Ops (repeat 2 n) 0))
  | None => None
  end.
Definition ch_vector (n : nat) (gs : list (cgate * K8)) : option (list K8) :=
  match ch_run K8Ops gs (ch_zero K8Ops n) with
  | Some c => Some (ch_state_vector K8Ops n c)
  | None => None
  end.
Definition small_ok (n : nat) (gens : list (cgate * K8)) (len : nat) : bool :=
  forallb (fun w => match ref_vector n w, ch_vector n w with
                    | Some a, Some b => k8v_eqb a b
                    | _, _ => false
                    end) (words gens len).
Definition one8 : K8 := k1 K8Ops.
Definition gens2 : list (cgate * K8) :=
  [(CH_ 4 0, one8); (CH_ 4 1, one8); (CZ_ 2 0, one8); (CZ_ 6 1, ki K8Ops); (CX_ 2 1, one8); (CY_ 2 0, one8);
   (CY_ 6 1, one8); (CX_ 4 0, one8); (CY_ 4 1, one8); (CCZ_ 4 0 1, one8); (CCX_ 4 0 1, one8); (CCX_ 4 1 0, zeta K8Ops);
   (CSWAP_ 4 0 1, one8); (CPhase_, zeta K8Ops)].
Definition gens3 : list (cgate * K8) :=
  [(CH_ 4 0, one8); (CH_ 4 1, one8); (CH_ 4 2, one8); (CZ_ 2 0, one8); (CZ_ 2 2, one8); (CX_ 6 1, one8); (CY_ 2 2, one8);
   (CCZ_ 4 0 2, one8); (CCX_ 4 0 1, one8); (CCX_ 4 2 1, one8); (CCX_ 4 1 2, one8); (CSWAP_ 4 2 0, one8)].
